# property table used by ./check : which Coq files, which harness scenarios, what the evidence says

TRUSTED_BASE = [
    "Coq 8.16.1 kernel (coqc; coqchk in the thorough tier); vm_compute (bytecode VM) for finite sweeps and for evaluating the model on harness cases; no native_compute",
    "no Axiom/Parameter/Admitted in the development (grep in setup.sh); Print Assumptions of every property theorem recorded in this file",
    "hand-written Gallina model of the Go code; tie = correspondence: the Go harness (/verif/harness, built from /repo's working tree, tag verif) runs the implementation, prints (input, projected observable) cases, coqc evaluates the model on them",
    "harness generators/printers/oracles, cmd/vgen translators (theories/Gen/*.v)",
    "modelled not verified: go-ipld-prime (LinkSystem, qp, traversal), go-codec-dagpb (stable sort by name, encoded length), go-bitfield, protowire, murmur3, boxo (reference importer/HAMT/chunkers), Go runtime (maps, io.MultiReader, sync)",
    "SHA-256 links are injective (links are structural in the model)",
]

NOT_APPLICABLE = {}
HOOK_COMMITS = []

PROPS = {
    'C09': {
        'scenarios': ['codec'],
        'corr': ['Corr/Codec'],
        'case_prefixes': ['cases_codec'],
        'level': 'proof',
        'level_text': 'Coq theorems over the byte-level model of data/unmarshal.go + marshal.go + permissions.go: C09_decode_presentation (EVERY presentation: any field order, block sizes unpacked or one packed run, unknown varint/fixed32/fixed64/bytes fields, timestamp sub-presentations, all values up to 2^64-1, decodes to exactly its logical message; presentations without one are rejected), C09_decode_encode, C09_reference_reads_ours, C09_reencode, C09_permissions_spec, C09_perm_roundtrip; varint round trip incl. the 10-byte overflow rule proved by induction. Tied to the code by running DecodeUnixFSData/DecodeUnixTime/DecodeUnixFSMetadata/Encode*/Permissions and the model on the same 2100 (quick) wire inputs incl. a malformed stream, plus gogo-protobuf as reference oracle.',
        'level_note': 'theorems are about the hand-written model (Codec/*.v); correspondence + gogo oracle tie it to the Go code on every run. Proved for minimal-length varints and non-group unknown fields; non-minimal varints, groups and Metadata are covered by the correspondence/oracle only (partial_clauses).',
        'assumptions': ['qp.BuildMap turns assembler panics (repeated key, missing required field) into errors', 'gogo-protobuf Unmarshal of boxo unixfs_pb is the reference reading'],
        'partial_clauses': ['non-minimal (padded) varints: sampled', 'unknown group fields: sampled', 'UnixFSMetadata: sampled'],
    },
    'C15': {
        'scenarios': ['dirs'],
        'corr': ['Corr/Dirs'],
        'case_prefixes': ['cases_dirs'],
        'level': 'proof',
        'level_text': 'Coq theorem C15_plain_map_contract: for EVERY dag-pb link list (absent, empty, duplicated names, any order) the model of the plain-directory / link-map view yields exactly Length pairs then Done, over-read error afterwards, every yielded key resolves to the first link yielded under it, unyielded keys are not found, all entry points agree. Tied to the code by evaluating the model on the link lists the real Reify/iterators/lookups were run on (every run).',
        'level_note': 'theorem is about the hand-written model Dir/Plain.v; correspondence (400 random link lists per quick run) + direct oracle tie it to directory/basicdir.go, pathpbnode.go, iter/iter.go, utils/utils.go; sharded clause proved in Hamt/ReadProofs (see C02).',
        'assumptions': ['the link list handed to Reify is the one dumped by the harness (PBLinks iteration order)'],
        'partial_clauses': ['sharded-directory clause: see C02/C08 theorems (wf_trie_*); evaluated here on built shards'],
    },
}
