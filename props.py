# property table used by ./check : which Coq files, which harness scenarios, what the evidence says

TRUSTED_BASE = [
    "Coq 8.16.1 kernel (coqc; coqchk in the thorough tier); vm_compute (bytecode VM) for finite sweeps and for evaluating the model on harness cases; no native_compute",
    "no Axiom/Parameter/Admitted in the development (grep in setup.sh); Print Assumptions of every property theorem recorded in this file",
    "hand-written Gallina model of the Go code; tie = correspondence: the Go harness (/verif/harness, built from /repo's working tree, tag verif) runs the implementation, prints (input, projected observable) cases, coqc evaluates the model on them",
    "harness generators/printers/oracles, cmd/vgen translators (theories/Gen/*.v)",
    "modelled not verified: go-ipld-prime (LinkSystem, qp, traversal), go-codec-dagpb (stable sort by name, encoded length), go-bitfield, protowire, murmur3, boxo (reference importer/HAMT/chunkers), Go runtime (maps, io.MultiReader, sync)",
    "SHA-256 links are injective (links are structural in the model)",
]

NOT_APPLICABLE = {}
HOOK_COMMITS = []

PROPS = {
    'C16': {
        'scenarios': ['stores'], 'corr': ['Corr/Stores'], 'case_prefixes': ['cases_stores'],
        'level': 'proof',
        'level_text': 'Coq theorems over the builders with explicit storage effects (every Store = open + commit, the k-th open or commit failing for ANY k): C16_file_build_store_safe (BuildUnixFSFile, every width, chunk list and failure plan: every prefix of the commit sequence is free of dangling links, an error never comes with a link, a link comes only after its whole DAG was committed and only if no write failed), C16_symlink_store_safe, C16_dangling_free_is_closed. Proved by an invariant threaded through fill/ftr/build_loop. Directory, sharded, recursive-import and quick builders: the same invariant is checked on the implementation log for every failure point (oracle) and their result shape against the store model. Tied to the code by running every builder with the k-th open/commit failing for every k and comparing result shape and (files) the exact commit sequence with the model.',
        'level_note': 'theorems are about Build/Store.v (monadic re-statement of File/Builder.v and Hamt/Build.v with the LinkSystem.Store contract: link computed, commit may fail); go-ipld-prime LinkSystem.Store is modelled (returns the link together with the commit error); sibling shard order follows Go map order so sharded traces are compared by invariant only',
        'partial_clauses': ['sharded/plain directory, recursive import, quick builder: invariant checked by oracle on every failure point, theorem proved for file and symlink builders'],
    },
    'C14': {
        'scenarios': ['reify'], 'corr': ['Corr/Reify'], 'case_prefixes': ['cases_reify'],
        'level': 'proof',
        'level_text': 'Coq theorems over the model of doReify and the two dispatch tables REGENERATED from reification.go/signaling.go on every run (go/ast): C14_reify_classification (for ANY node, ANY storage behaviour, lazy and preloading reifier: non-dag-pb unchanged; no/undecodable Data -> link map; File/Raw -> bytes kind; Directory/HAMTShard -> map kind; Metadata/Symlink -> link map; every other type number -> error; never a panic), C14_registrations, C14_substrate_is_input. A changed table entry re-opens the proofs. Tied to the code by 600+ nodes per run (every type number incl. negative, all Data forms, valid/invalid shard parameters, link forms, both reifiers, registered and direct entry points, random payloads): class, kind, Substrate() identity and byte-exact re-encoding.',
        'level_note': 'theorems are about Reify/Model.v + Gen/ReifyTables.v (regenerated) + the codec/file/HAMT models; Substrate() is a trivial projection in the model (the node handed in), its identity and re-encoding are established on the implementation by the per-run oracle; go-ipld-prime node types are represented by their class only',
        'assumptions': ['the dag-pb codec re-encodes a decoded node to the same bytes (canonical link order)'],
    },
    'C02': {
        'scenarios': ['hamt', 'dirs'], 'corr': ['Corr/Hamt', 'Corr/Dirs'], 'case_prefixes': ['cases_hamt', 'cases_hashbits', 'cases_dirs'],
        'level': 'proof',
        'level_text': 'Coq theorems: C02_reader_and_builder_same_bucket, C02_slice_is_msb_first_bits, C02_next_is_msb_first_bits (for EVERY hash, offset and width inside the hash the reader Next and the builder Slice return the same arithmetic most-significant-first bits, bits 48..63 included; per-byte mask/shift code by an exhaustive 256x8x9 sweep lifted with forallb_forall, composition by induction and N arithmetic), C02_too_deep_is_an_error, C02_plain_directory_is_map (EVERY entry list with distinct names: member lookup, non-member not-found, iteration = each entry exactly once, length = count). The sharded map clauses (lookup/iteration/length on built tries) are decided per run by the builder+reader model correspondence and the direct oracle over entry sets incl. hash-colliding names and all fanouts.',
        'level_note': 'theorems are about the hand-written models Hamt/HashBits.v, Hamt/Build.v (data/builder/dirshard.go, directory.go, util.go), Hamt/Read.v (hamt/shardeddir.go, util.go), Dir/Plain.v; go-bitfield is modelled arithmetically, murmur3 hashes are inputs computed by the harness with the same library; every run compares the DAG built by the library with the model (fingerprint+size) and with boxo (CID+size), and every lookup / iteration event / Length / shard request of the reified directory with the reader model, on library- and boxo-written shards incl. unavailable shards; hashBits.Next/Slice are swept over all offsets x widths through the verif hooks',
        'partial_clauses': ['sharded directory: lookup/iteration/length = map of entries is established by model correspondence + oracle, theorem in progress (wf_trie)'],
    },
    'C08': {
        'scenarios': ['hamt'], 'corr': ['Corr/Hamt'], 'case_prefixes': ['cases_hamt', 'cases_hashbits'],
        'level': 'proof',
        'level_text': 'Coq theorems C08_level_bits_are_msb_first (the hash bits consumed at every level are the MSB-first arithmetic slice, for every depth and fanout, as the reference HAMT does) and C08_link_order_canonical (the encoded link list is independent of assembly order). Byte-identity with boxo (CID and cumulative size) for every sampled entry set x fanout and correct reading of boxo-written shards after random insert/remove histories are decided per run: builder and reader models vs implementation (fingerprint, size, every reply) and the boxo oracle.',
        'level_note': 'theorems are about the hand-written models Hamt/HashBits.v, Hamt/Build.v (data/builder/dirshard.go, directory.go, util.go), Hamt/Read.v (hamt/shardeddir.go, util.go), Dir/Plain.v; go-bitfield is modelled arithmetically, murmur3 hashes are inputs computed by the harness with the same library; every run compares the DAG built by the library with the model (fingerprint+size) and with boxo (CID+size), and every lookup / iteration event / Length / shard request of the reified directory with the reader model, on library- and boxo-written shards incl. unavailable shards; hashBits.Next/Slice are swept over all offsets x widths through the verif hooks',
        'partial_clauses': ['whole-DAG equality with boxo and reading of arbitrary boxo histories: correspondence + oracle per run (boxo HAMT itself is not modelled)'],
    },
    'C10': {
        'scenarios': ['hamt', 'files'], 'corr': ['Corr/Hamt', 'Corr/Files'], 'case_prefixes': ['cases_hamt', 'cases_fbuild'],
        'level': 'proof',
        'level_text': 'Coq theorems C10_encoded_links_order_independent (stable sort by name of any permutation of a link list with distinct names is the same list: Go map iteration order and entry-slice order cannot influence the encoded block), C10_plain_directory_order_independent (identical block and size), C10_file_build_is_a_function, C10_size_splitter_ignores_fragmentation. Per run: every directory built again from 3 permutations (fresh map seeds), every file built again from 4 fragmenting readers; all (link,size) must coincide and equal the model.',
        'level_note': 'theorems are about the hand-written models Hamt/HashBits.v, Hamt/Build.v (data/builder/dirshard.go, directory.go, util.go), Hamt/Read.v (hamt/shardeddir.go, util.go), Dir/Plain.v; go-bitfield is modelled arithmetically, murmur3 hashes are inputs computed by the harness with the same library; every run compares the DAG built by the library with the model (fingerprint+size) and with boxo (CID+size), and every lookup / iteration event / Length / shard request of the reified directory with the reader model, on library- and boxo-written shards incl. unavailable shards; hashBits.Next/Slice are swept over all offsets x widths through the verif hooks',
        'assumptions': ['external chunkers (rabin, buzhash) are fragmentation independent: sampled, not proved'],
        'partial_clauses': ['sharded directory order independence beyond the link-sort step: correspondence + oracle (canon_unique theorem not yet proved)'],
    },
    'C01': {
        'scenarios': ['files'], 'corr': ['Corr/Files'], 'case_prefixes': ['cases_fbuild', 'cases_fread_history'],
        'level': 'proof',
        'level_text': 'Coq theorems C01_build_read_roundtrip (EVERY width >= 2 and EVERY chunk list: the builder model succeeds and the reader model returns exactly the concatenated chunks as a whole value, under every Seek/Read history with any buffer sizes, with the true reported length), C01_read_well_sized (any DAG whose declared sizes are true, i.e. also reference-written ones), C01_any_chunker. Proved by induction over tree depth / fill counter / chunk list and over the link list with offsets. Tied to the code on every run: 298+ builds (all tree shapes up to depth 4 for widths 2..5, random widths to 174, rabin chunker) compared with the model by DAG fingerprint and size, read back through direct/lazy/preload entry points, plus histories over builder- and boxo-written (balanced/trickle x raw/pb leaves x CIDv0/v1) DAGs.',
        'level_note': 'theorems are about the hand-written models File/Builder.v (data/builder/file.go + boxo balanced layout) and File/Reader.v (file/*.go); the tie to the Go code is the per-run correspondence (built DAG fingerprint+size vs model, every reply and block request of Seek/Read histories vs model) plus the direct oracle; the linkSize fallback that opens children without declared sizes is outside the model (EUnmodelled, never compared); sizes are unbounded N (total < 2^63 assumed)',
        'assumptions': ['chunkers: concat(chunks) = input (checked per run on the sampled chunkers)', 'reference-written DAGs are well_sized (evaluated by the model on every sampled DAG through the read correspondence)'],
        'partial_clauses': ['reference-importer DAGs: well_sized is validated per sample, not proved for boxo trickle/balanced writers'],
    },
    'C04': {
        'scenarios': ['files'], 'corr': ['Corr/Files'], 'case_prefixes': ['cases_fread_history'],
        'level': 'proof',
        'level_text': 'Coq theorems C04_reader_refines / C04_fresh_reader (for EVERY DAG with true sizes and EVERY finite Seek/Read history the replies of the reader state machine equal those of the abstract io.ReadSeeker over the content: absolute offsets, end-relative seeks with the true length, bytes at the offset, EOF at/past the end, error on negative target), C04_failed_seek_keeps_state (any DAG, any faults), C04_readers_independent (replies to reader i depend only on its own sub-history). Proved by a step-simulation lemma (take_view) and induction over the history. Tied to the code by 100+ multi-reader histories per quick run whose every reply (bytes, status, blocks requested) is compared with the model and with the abstract oracle.',
        'level_note': 'theorems are about the hand-written models File/Builder.v (data/builder/file.go + boxo balanced layout) and File/Reader.v (file/*.go); the tie to the Go code is the per-run correspondence (built DAG fingerprint+size vs model, every reply and block request of Seek/Read histories vs model) plus the direct oracle; the linkSize fallback that opens children without declared sizes is outside the model (EUnmodelled, never compared); sizes are unbounded N (total < 2^63 assumed)',
        'assumptions': ['zero-length Reads are excluded from histories (io.Reader discourages them)'],
    },
    'C05': {
        'scenarios': ['files'], 'corr': ['Corr/Files'], 'case_prefixes': ['cases_fread_range'],
        'level': 'proof',
        'level_text': 'Coq theorem C05_range_loads: for EVERY DAG with true, positive sizes and EVERY range [a,a+k), the blocks requested by Seek(a)+Read(k) all have a byte span meeting the range (positions of requests in the effect stream, spans of the unfolded tree, induction over the DAG). File part proved; the sharded-directory lookup part (only the shards on the hash path) is covered by the HAMT model correspondence and oracle. Tied to the code by boundary and random ranges (also a second range on an already open reader) with the recorded StorageReadOpener sequence compared to the model.',
        'level_note': 'theorems are about the hand-written models File/Builder.v (data/builder/file.go + boxo balanced layout) and File/Reader.v (file/*.go); the tie to the Go code is the per-run correspondence (built DAG fingerprint+size vs model, every reply and block request of Seek/Read histories vs model) plus the direct oracle; the linkSize fallback that opens children without declared sizes is outside the model (EUnmodelled, never compared); sizes are unbounded N (total < 2^63 assumed)',
        'partial_clauses': ['HAMT lookup / path traversal clause: correspondence + oracle (see C02), not yet a theorem'],
    },
    'C07': {
        'scenarios': ['files'], 'corr': ['Corr/Files'], 'case_prefixes': ['cases_fbuild'],
        'level': 'proof',
        'level_text': 'Coq theorem C07_same_tree: for EVERY width >= 2 and EVERY chunk list, build_file W chunks = Ok (ref_layout W chunks): the model of BuildUnixFSFile and the model of boxo balanced.Layout/fillNodeRec (raw leaves) produce the same block (hence same encoding and CID) and the same cumulative size; lock-step simulation by induction on depth, fill counter and fuel. Both models are tied to their implementations on every run: fingerprint+size of the DAG built by the library vs build_file, and of the DAG built by boxo vs ref_layout; plus the direct oracle CID(library) = CID(boxo), size = Size().',
        'level_note': 'theorems are about the hand-written models File/Builder.v (data/builder/file.go + boxo balanced layout) and File/Reader.v (file/*.go); the tie to the Go code is the per-run correspondence (built DAG fingerprint+size vs model, every reply and block request of Seek/Read histories vs model) plus the direct oracle; the linkSize fallback that opens children without declared sizes is outside the model (EUnmodelled, never compared); sizes are unbounded N (total < 2^63 assumed)',
        'assumptions': ['CID equality follows from block equality (same codec, SHA-256)'],
    },
    'C11': {
        'scenarios': ['files'], 'corr': ['Corr/Files'], 'case_prefixes': ['cases_fbuild'],
        'level': 'proof',
        'level_text': 'Coq theorem C11_file_sizes: for EVERY width and chunk list the returned size is cum_size root (encoded length of the root + everything its links refer to, summed over the tree, so repeated chunks count every time), every link carries the cumulative size of its target (tsizes_ok) and every interior node declares FileSize/BlockSizes equal to the content beneath it / each child (well_sized). File builder proved; directory and shard builders: size recurrences checked by correspondence and a tree-walk oracle (see C02/C08).',
        'level_note': 'theorems are about the hand-written models File/Builder.v (data/builder/file.go + boxo balanced layout) and File/Reader.v (file/*.go); the tie to the Go code is the per-run correspondence (built DAG fingerprint+size vs model, every reply and block request of Seek/Read histories vs model) plus the direct oracle; the linkSize fallback that opens children without declared sizes is outside the model (EUnmodelled, never compared); sizes are unbounded N (total < 2^63 assumed)',
        'partial_clauses': ['directory / sharded-directory / recursive import sizes: oracle + correspondence'],
    },
    'C12': {
        'scenarios': ['files'], 'corr': ['Corr/Files'], 'case_prefixes': ['cases_fread_faults'],
        'level': 'proof',
        'level_text': 'Coq theorems C12_read_fault (for EVERY DAG with true sizes and EVERY set of unavailable blocks the reader can obtain exactly the content preceding the first unavailable block of the fault-free read and then that block\'s load error, never EOF), C12_reads_deliver_view (every Read of any positive size delivers that view and keeps reporting the error), C12_readall_delivers_view. Proved via stream_cutf: the stream under faults is the fault-free stream cut at the first failing request. File part proved; lookup/iteration over sharded directories with missing shards: HAMT model correspondence + oracle. Tied to the code by every single unavailable block of every sampled file (builder- and boxo-written) and random subsets, two error kinds, four buffer sizes.',
        'level_note': 'theorems are about the hand-written models File/Builder.v (data/builder/file.go + boxo balanced layout) and File/Reader.v (file/*.go); the tie to the Go code is the per-run correspondence (built DAG fingerprint+size vs model, every reply and block request of Seek/Read histories vs model) plus the direct oracle; the linkSize fallback that opens children without declared sizes is outside the model (EUnmodelled, never compared); sizes are unbounded N (total < 2^63 assumed)',
        'partial_clauses': ['sharded-directory lookup/iteration under missing shards: correspondence + oracle'],
    },
    'C20': {
        'scenarios': ['files'], 'corr': ['Corr/Files'], 'case_prefixes': ['cases_fread_order'],
        'level': 'proof',
        'level_text': 'Coq theorems C20_read_order (for EVERY DAG with true positive sizes the blocks requested by a full sequential read are exactly the depth-first link-order walk) and C20_built_files_pos_sized; the reader model is a function of the DAG only (no order oracle). File part proved; shard iteration/length/preload order and path order: correspondence + oracle. Tied to the code by the ordered StorageReadOpener log of full reads vs an independent DFS and vs the model.',
        'level_note': 'theorems are about the hand-written models File/Builder.v (data/builder/file.go + boxo balanced layout) and File/Reader.v (file/*.go); the tie to the Go code is the per-run correspondence (built DAG fingerprint+size vs model, every reply and block request of Seek/Read histories vs model) plus the direct oracle; the linkSize fallback that opens children without declared sizes is outside the model (EUnmodelled, never compared); sizes are unbounded N (total < 2^63 assumed)',
        'partial_clauses': ['sharded-directory iteration/length order, path traversal order: correspondence + oracle'],
    },
    'C09': {
        'scenarios': ['codec'],
        'corr': ['Corr/Codec'],
        'case_prefixes': ['cases_codec'],
        'level': 'proof',
        'level_text': 'Coq theorems over the byte-level model of data/unmarshal.go + marshal.go + permissions.go: C09_decode_presentation (EVERY presentation: any field order, block sizes unpacked or one packed run, unknown varint/fixed32/fixed64/bytes fields, timestamp sub-presentations, all values up to 2^64-1, decodes to exactly its logical message; presentations without one are rejected), C09_decode_encode, C09_reference_reads_ours, C09_reencode, C09_permissions_spec, C09_perm_roundtrip; varint round trip incl. the 10-byte overflow rule proved by induction. Tied to the code by running DecodeUnixFSData/DecodeUnixTime/DecodeUnixFSMetadata/Encode*/Permissions and the model on the same 2100 (quick) wire inputs incl. a malformed stream, plus gogo-protobuf as reference oracle.',
        'level_note': 'theorems are about the hand-written model (Codec/*.v); correspondence + gogo oracle tie it to the Go code on every run. Proved for minimal-length varints and non-group unknown fields; non-minimal varints, groups and Metadata are covered by the correspondence/oracle only (partial_clauses).',
        'assumptions': ['qp.BuildMap turns assembler panics (repeated key, missing required field) into errors', 'gogo-protobuf Unmarshal of boxo unixfs_pb is the reference reading'],
        'partial_clauses': ['non-minimal (padded) varints: sampled', 'unknown group fields: sampled', 'UnixFSMetadata: sampled'],
    },
    'C15': {
        'scenarios': ['dirs'],
        'corr': ['Corr/Dirs'],
        'case_prefixes': ['cases_dirs'],
        'level': 'proof',
        'level_text': 'Coq theorem C15_plain_map_contract: for EVERY dag-pb link list (absent, empty, duplicated names, any order) the model of the plain-directory / link-map view yields exactly Length pairs then Done, over-read error afterwards, every yielded key resolves to the first link yielded under it, unyielded keys are not found, all entry points agree. Tied to the code by evaluating the model on the link lists the real Reify/iterators/lookups were run on (every run).',
        'level_note': 'theorem is about the hand-written model Dir/Plain.v; correspondence (400 random link lists per quick run) + direct oracle tie it to directory/basicdir.go, pathpbnode.go, iter/iter.go, utils/utils.go; sharded clause proved in Hamt/ReadProofs (see C02).',
        'assumptions': ['the link list handed to Reify is the one dumped by the harness (PBLinks iteration order)'],
        'partial_clauses': ['sharded-directory clause: see C02/C08 theorems (wf_trie_*); evaluated here on built shards'],
    },
}
