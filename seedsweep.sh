#!/bin/sh
# usage: ./seedsweep.sh "<seeds>" [props...] — runs the quick checks under several VERIF_SEED values on the unchanged tree;
# every line must be PASS (or KNOWN-FINDING + PASS): a check that alarms under another seed is broken.
seeds="$1"; shift
props="${*:-C01 C02 C03 C04 C05 C06 C07 C08 C09 C10 C11 C12 C13 C14 C15 C16 C17 C18 C19 C20}"
cd /verif || exit 2
for s in $seeds; do
  for p in $props; do
    VERIF_SEED=$s ./check "$p" --tier quick 2>&1 | grep -E "^(VIOLATION|PASS|FAIL|ERROR)" | sed "s|^|[seed $s] |"
  done
done
