module verifharness

go 1.22

require (
	github.com/gogo/protobuf v1.3.2
	github.com/ipfs/boxo v0.24.0
	github.com/ipfs/go-cid v0.4.1
	github.com/ipfs/go-unixfsnode v1.9.0
	github.com/ipld/go-codec-dagpb v1.6.0
	github.com/ipld/go-ipld-prime v0.21.0
	github.com/multiformats/go-multihash v0.2.3
	google.golang.org/protobuf v1.34.2
)

require (
	github.com/ipfs/go-bitfield v1.1.0 // indirect
	github.com/ipfs/go-log/v2 v2.5.1 // indirect
	github.com/klauspost/cpuid/v2 v2.2.8 // indirect
	github.com/libp2p/go-buffer-pool v0.1.0 // indirect
	github.com/mattn/go-isatty v0.0.20 // indirect
	github.com/mr-tron/base58 v1.2.0 // indirect
	github.com/multiformats/go-base32 v0.1.0 // indirect
	github.com/multiformats/go-base36 v0.2.0 // indirect
	github.com/multiformats/go-multibase v0.2.0 // indirect
	github.com/multiformats/go-multicodec v0.9.0 // indirect
	github.com/multiformats/go-varint v0.0.7 // indirect
	github.com/spaolacci/murmur3 v1.1.0 // indirect
	github.com/whyrusleeping/chunker v0.0.0-20181014151217-fe64bd25879f // indirect
	go.uber.org/multierr v1.11.0 // indirect
	go.uber.org/zap v1.27.0 // indirect
	golang.org/x/crypto v0.25.0 // indirect
	golang.org/x/sys v0.22.0 // indirect
	lukechampine.com/blake3 v1.3.0 // indirect
)

replace github.com/ipfs/go-unixfsnode => /repo
