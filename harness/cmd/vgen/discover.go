package main

import (
	"go/ast"
	"go/parser"
	"go/token"
	"os"
	"path/filepath"
	"strings"
)

// discoverWrites finds state the reader packages mutate at run time that the fixed field list does not know about:
//
//   - any field of a reified node type (shared between goroutines) assigned through the method receiver outside the
//     constructors, also as a map / slice element (recv.field[k] = v);
//   - any package-level variable of the reader packages written inside a function other than init
//     (x = …, x[k] = …, x.f = …, x++, x = append(x, …)).
//
// Each is reported with the guard it sits under (1 = between some X.Lock() and X.Unlock() of the enclosing function,
// 2 = inside a sync.Once.Do body, 0 = none).  Unknown fields and package variables must be guarded (Conc/Memo.v).
var nodeTypes = map[string]bool{
	"_UnixFSHAMTShard": true, "UnixFSHAMTShard": true, "shardNodeFile": true, "singleNodeFile": true, "wrappedNode": true,
	"_UnixFSBasicDir": true, "UnixFSBasicDir": true, "_PathedPBNode": true, "PathedPBNode": true,
}

// fields known to change after construction (shared with accesses.go); written through any path they need the guard
var mutableNames = map[string]bool{"shardCache": true, "cachedLength": true, "metadata": true}

var readerPkgs = []string{".", "hamt", "file", "directory", "iter", "utils", "data"}

func discoverWrites(repo string, known map[string]bool) []access {
	fset := token.NewFileSet()
	var out []access
	for _, pkg := range readerPkgs {
		ents, err := os.ReadDir(filepath.Join(repo, pkg))
		if err != nil {
			continue
		}
		var files []*ast.File
		var rels []string
		for _, e := range ents {
			n := e.Name()
			if e.IsDir() || !strings.HasSuffix(n, ".go") || strings.HasSuffix(n, "_test.go") || strings.HasPrefix(n, "ipldsch_") || n == "verif_export.go" {
				continue
			}
			f, err := parser.ParseFile(fset, filepath.Join(repo, pkg, n), nil, 0)
			if err != nil {
				panic(err)
			}
			files = append(files, f)
			rels = append(rels, filepath.ToSlash(filepath.Join(pkg, n)))
		}
		pkgVars := map[string]bool{}
		for _, f := range files {
			for _, d := range f.Decls {
				gd, ok := d.(*ast.GenDecl)
				if !ok || gd.Tok != token.VAR {
					continue
				}
				for _, sp := range gd.Specs {
					for _, nm := range sp.(*ast.ValueSpec).Names {
						if nm.Name != "_" {
							pkgVars[nm.Name] = true
						}
					}
				}
			}
		}
		for fi, f := range files {
			rel := rels[fi]
			for _, d := range f.Decls {
				fd, ok := d.(*ast.FuncDecl)
				if !ok || fd.Body == nil || (fd.Recv == nil && fd.Name.Name == "init") {
					continue
				}
				rname, rtyp := recvOf(fd)
				isNode := nodeTypes[rtyp] && rname != ""
				// local declarations shadowing package variables
				shadow := map[string]bool{}
				if fd.Type.Params != nil {
					for _, p := range fd.Type.Params.List {
						for _, nm := range p.Names {
							shadow[nm.Name] = true
						}
					}
				}
				ast.Inspect(fd.Body, func(x ast.Node) bool {
					switch st := x.(type) {
					case *ast.AssignStmt:
						if st.Tok == token.DEFINE {
							for _, l := range st.Lhs {
								if id, ok := l.(*ast.Ident); ok {
									shadow[id.Name] = true
								}
							}
						}
					case *ast.ValueSpec:
						for _, nm := range st.Names {
							shadow[nm.Name] = true
						}
					case *ast.RangeStmt:
						if st.Tok == token.DEFINE {
							for _, l := range []ast.Expr{st.Key, st.Value} {
								if id, ok := l.(*ast.Ident); ok {
									shadow[id.Name] = true
								}
							}
						}
					}
					return true
				})
				target := func(l ast.Expr) (string, bool) {
					// strip element / field selections down to the root object
					root := l
					for {
						switch e := root.(type) {
						case *ast.IndexExpr:
							root = e.X
							continue
						case *ast.ParenExpr:
							root = e.X
							continue
						case *ast.StarExpr:
							root = e.X
							continue
						}
						break
					}
					if se, ok := root.(*ast.SelectorExpr); ok {
						if id, ok := se.X.(*ast.Ident); ok {
							if isNode && id.Name == rname {
								return se.Sel.Name, true
							}
							if pkgVars[id.Name] && !shadow[id.Name] {
								return "pkgvar:" + id.Name, true
							}
						}
						// the mutable state of a node reached through another object (an iterator holding the node, ...)
						if mutableNames[se.Sel.Name] {
							return se.Sel.Name, true
						}
						return "", false
					}
					if id, ok := root.(*ast.Ident); ok && pkgVars[id.Name] && !shadow[id.Name] {
						return "pkgvar:" + id.Name, true
					}
					return "", false
				}
				var walk func(stmts []ast.Stmt, held int) int
				note := func(l ast.Expr, held int) {
					if name, ok := target(l); ok {
						key := rel + ":" + name + ":" + fd.Name.Name
						_ = key
						line := fset.Position(l.Pos()).Line
						if !known[rel+":"+itoa(line)+":"+name] {
							out = append(out, access{rel, fd.Name.Name, name, true, held, line})
						}
					}
				}
				var visit func(s ast.Stmt, held int) int
				visit = func(s ast.Stmt, held int) int {
					switch st := s.(type) {
					case *ast.ExprStmt:
						if c, ok := st.X.(*ast.CallExpr); ok {
							fn := exprString(c.Fun)
							if strings.HasSuffix(fn, ".Lock") || strings.HasSuffix(fn, ".RLock") {
								return 1
							}
							if strings.HasSuffix(fn, ".Unlock") || strings.HasSuffix(fn, ".RUnlock") {
								return 0
							}
							if strings.HasSuffix(fn, ".Do") && len(c.Args) == 1 {
								if fl, ok := c.Args[0].(*ast.FuncLit); ok {
									walk(fl.Body.List, 2)
									return held
								}
							}
							for _, a := range c.Args {
								if fl, ok := a.(*ast.FuncLit); ok {
									walk(fl.Body.List, held)
								}
							}
						}
					case *ast.AssignStmt:
						if st.Tok != token.DEFINE {
							for _, l := range st.Lhs {
								note(l, held)
							}
						}
						for _, r := range st.Rhs {
							if fl, ok := r.(*ast.FuncLit); ok {
								walk(fl.Body.List, held)
							}
						}
					case *ast.IncDecStmt:
						note(st.X, held)
					case *ast.BlockStmt:
						return walk(st.List, held)
					case *ast.IfStmt:
						if st.Init != nil {
							visit(st.Init, held)
						}
						walk(st.Body.List, held)
						if st.Else != nil {
							visit(st.Else, held)
						}
					case *ast.ForStmt:
						if st.Init != nil {
							visit(st.Init, held)
						}
						if st.Post != nil {
							visit(st.Post, held)
						}
						walk(st.Body.List, held)
					case *ast.RangeStmt:
						if st.Tok == token.ASSIGN {
							for _, l := range []ast.Expr{st.Key, st.Value} {
								if l != nil {
									note(l, held)
								}
							}
						}
						walk(st.Body.List, held)
					case *ast.SwitchStmt:
						for _, c := range st.Body.List {
							walk(c.(*ast.CaseClause).Body, held)
						}
					case *ast.TypeSwitchStmt:
						for _, c := range st.Body.List {
							walk(c.(*ast.CaseClause).Body, held)
						}
					case *ast.SelectStmt:
						for _, c := range st.Body.List {
							walk(c.(*ast.CommClause).Body, held)
						}
					case *ast.DeferStmt:
						// defer x.Unlock() keeps the lock to the end of the function: nothing to do
					case *ast.GoStmt:
						if fl, ok := st.Call.Fun.(*ast.FuncLit); ok {
							walk(fl.Body.List, 0)
						}
					case *ast.LabeledStmt:
						return visit(st.Stmt, held)
					}
					return held
				}
				walk = func(stmts []ast.Stmt, held int) int {
					for _, s := range stmts {
						held = visit(s, held)
					}
					return held
				}
				walk(fd.Body.List, 0)
			}
		}
	}
	return out
}

func itoa(n int) string {
	if n == 0 {
		return "0"
	}
	var b []byte
	for n > 0 {
		b = append([]byte{byte('0' + n%10)}, b...)
		n /= 10
	}
	return string(b)
}
