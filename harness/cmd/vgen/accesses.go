package main

func genAccesses(repo, out string) {}
