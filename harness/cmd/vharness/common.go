package main

import (
	"bytes"
	"context"
	"encoding/json"
	"fmt"
	"io"
	"io/fs"
	"os"
	"path/filepath"
	"runtime/debug"
	"sort"
	"strings"

	"github.com/ipfs/go-cid"
	"github.com/ipfs/go-unixfsnode"
	dagpb "github.com/ipld/go-codec-dagpb"
	"github.com/ipld/go-ipld-prime"
	"github.com/ipld/go-ipld-prime/datamodel"
	"github.com/ipld/go-ipld-prime/linking"
	cidlink "github.com/ipld/go-ipld-prime/linking/cid"
	"github.com/multiformats/go-multihash"
)

// ---------------------------------------------------------------------------
// PRNG: one splitmix64 stream per scenario, derived from VERIF_SEED

type Rng struct{ s uint64 }

func NewRng(seed uint64, label string) *Rng {
	r := &Rng{s: seed*0x9E3779B97F4A7C15 + 0x1234567}
	for _, c := range []byte(label) {
		r.s = (r.s ^ uint64(c)) * 0x100000001B3
	}
	r.Next()
	return r
}
func (r *Rng) Next() uint64 {
	r.s += 0x9E3779B97F4A7C15
	z := r.s
	z = (z ^ (z >> 30)) * 0xBF58476D1CE4E5B9
	z = (z ^ (z >> 27)) * 0x94D049BB133111EB
	return z ^ (z >> 31)
}
func (r *Rng) Intn(n int) int {
	if n <= 0 {
		return 0
	}
	return int(r.Next() % uint64(n))
}
func (r *Rng) Bool() bool { return r.Next()&1 == 1 }
func (r *Rng) Pick(xs []string) string {
	return xs[r.Intn(len(xs))]
}
func (r *Rng) Perm(n int) []int {
	p := make([]int, n)
	for i := range p {
		p[i] = i
	}
	for i := n - 1; i > 0; i-- {
		j := r.Intn(i + 1)
		p[i], p[j] = p[j], p[i]
	}
	return p
}
func (r *Rng) Bytes(n int) []byte {
	b := make([]byte, n)
	for i := range b {
		b[i] = byte(r.Next())
	}
	return b
}

// ---------------------------------------------------------------------------
// Report

type Failure struct {
	Property  string      `json:"property"`
	Signature string      `json:"signature"`
	What      string      `json:"what"`
	Input     interface{} `json:"input"`
	Expected  interface{} `json:"expected,omitempty"`
	Observed  interface{} `json:"observed,omitempty"`
}

type PropStats struct {
	Evaluations int            `json:"evaluations"`
	Distinct    int            `json:"distinct_nontrivial"`
	Rule        string         `json:"rule"`
	Samples     []interface{}  `json:"samples"`
	Dist        map[string]int `json:"distribution"`
	Exhaustive  bool           `json:"exhaustive,omitempty"`
	seen        map[string]bool
}

type Report struct {
	Scenario  string                `json:"scenario"`
	Seed      uint64                `json:"seed"`
	Tier      string                `json:"tier"`
	CaseFiles []string              `json:"case_files"`
	Cases     int                   `json:"cases"`
	CaseInput []interface{}         `json:"-"`
	Failures  []Failure             `json:"failures"`
	Props     map[string]*PropStats `json:"props"`
	Notes     []string              `json:"notes,omitempty"`
	// per case file: the inputs of its cases in order, so that a mismatch index can be mapped back
	CaseIndex map[string][]interface{} `json:"case_index"`
	perSig    map[string]int
}

func NewReport(scn string, seed uint64, tier string) *Report {
	return &Report{Failures: []Failure{}, CaseFiles: []string{}, Scenario: scn, Seed: seed, Tier: tier, Props: map[string]*PropStats{}, CaseIndex: map[string][]interface{}{}}
}

func (r *Report) P(prop string) *PropStats {
	p, ok := r.Props[prop]
	if !ok {
		p = &PropStats{Dist: map[string]int{}, seen: map[string]bool{}}
		r.Props[prop] = p
	}
	return p
}

// Count one evaluation for prop; key identifies the case for distinctness, nontrivial says whether it counts.
func (r *Report) Count(prop, key string, nontrivial bool, sample interface{}) {
	p := r.P(prop)
	p.Evaluations++
	if nontrivial && !p.seen[key] {
		p.seen[key] = true
		p.Distinct++
		if len(p.Samples) < 3 && sample != nil {
			p.Samples = append(p.Samples, sample)
		}
	}
}
func (r *Report) Dist(prop, bucket string) { r.P(prop).Dist[bucket]++ }

func (r *Report) Fail(prop, sig, what string, input, expected, observed interface{}) {
	// at most 25 failures per signature, so that a frequent (e.g. known) one cannot crowd out another
	if r.perSig == nil {
		r.perSig = map[string]int{}
	}
	r.perSig[prop+sig]++
	if r.perSig[prop+sig] <= 25 {
		r.Failures = append(r.Failures, Failure{prop, sig, what, input, expected, observed})
	}
}

func (r *Report) Write(outdir string) {
	b, err := json.MarshalIndent(r, "", " ")
	if err != nil {
		panic(err)
	}
	if err := os.WriteFile(filepath.Join(outdir, r.Scenario+".json"), b, 0o644); err != nil {
		panic(err)
	}
}

// ---------------------------------------------------------------------------
// Coq case files

type CaseFile struct {
	rep    *Report
	outdir string
	name   string // e.g. cases_dirs
	req    string // e.g. "UV.Corr.Dirs"
	fn     string // e.g. "mismatches_dirs"
	shard  int
	max    int // max cases per shard
	buf    []string
	inputs []interface{}
}

func NewCaseFile(rep *Report, outdir, name, req, fn string, max int) *CaseFile {
	return &CaseFile{rep: rep, outdir: outdir, name: name, req: req, fn: fn, max: max}
}

func (c *CaseFile) Add(term string, input interface{}) {
	c.buf = append(c.buf, term)
	c.inputs = append(c.inputs, input)
	c.rep.Cases++
	if len(c.buf) >= c.max {
		c.Flush()
	}
}

func (c *CaseFile) Flush() {
	if len(c.buf) == 0 {
		return
	}
	fname := fmt.Sprintf("%s_%d", c.name, c.shard)
	var sb strings.Builder
	sb.WriteString("From UV Require Import Base.Prelude " + strings.TrimPrefix(c.req, "UV.") + ".\nLocal Open Scope N_scope.\n")
	sb.WriteString("Definition cases := [\n")
	sb.WriteString(strings.Join(c.buf, ";\n"))
	sb.WriteString("\n].\n")
	sb.WriteString("Definition M := Eval vm_compute in (" + c.fn + " cases).\nPrint M.\n")
	if err := os.WriteFile(filepath.Join(c.outdir, fname+".v"), []byte(sb.String()), 0o644); err != nil {
		panic(err)
	}
	c.rep.CaseFiles = append(c.rep.CaseFiles, fname+".v")
	c.rep.CaseIndex[fname+".v"] = c.inputs
	c.buf = nil
	c.inputs = nil
	c.shard++
}

func coqBytes(b []byte) string {
	if len(b) == 0 {
		return "[]"
	}
	var sb strings.Builder
	sb.WriteByte('[')
	for i, x := range b {
		if i > 0 {
			sb.WriteByte(';')
		}
		fmt.Fprintf(&sb, "%d", x)
	}
	sb.WriteByte(']')
	return sb.String()
}
func coqOptBytes(b []byte, present bool) string {
	if !present {
		return "None"
	}
	return "(Some " + coqBytes(b) + ")"
}
func coqZ(z int64) string   { return fmt.Sprintf("(%d)%%Z", z) }
func coqN(n uint64) string  { return fmt.Sprintf("%d", n) }
func coqBool(b bool) string { return map[bool]string{true: "true", false: "false"}[b] }
func coqList(xs []string) string {
	return "[" + strings.Join(xs, "; ") + "]"
}
func coqOptZ(z int64, present bool) string {
	if !present {
		return "None"
	}
	return "(Some " + coqZ(z) + ")"
}

// outcome classes (must match Base/Prelude.v err)
type Outcome struct {
	Class string // ok notfound load decode invalid overread eof seek store other panic
	Kind  uint64
}

func (o Outcome) CoqErr() string {
	switch o.Class {
	case "notfound":
		return "ENotFound"
	case "load":
		return fmt.Sprintf("(ELoad %d)", o.Kind)
	case "decode":
		return "EDecode"
	case "invalid":
		return "EInvalid"
	case "overread":
		return "EOverread"
	case "eof":
		return "EEOF"
	case "seek":
		return "ESeek"
	case "store":
		return fmt.Sprintf("(EStore %d)", o.Kind)
	default:
		return "EOther"
	}
}

// coqRes renders `Ok v` / `Err e` / `Panic`
func coqRes(o Outcome, okTerm string) string {
	switch o.Class {
	case "ok":
		return "(Ok " + okTerm + ")"
	case "panic":
		return "Panic"
	default:
		return "(Err " + o.CoqErr() + ")"
	}
}

// ---------------------------------------------------------------------------
// recording in-memory store

type FaultErr struct{ Kind uint64 }

func (e FaultErr) Error() string { return fmt.Sprintf("injected storage fault kind=%d", e.Kind) }

type Store struct {
	Blocks map[string][]byte
	Reads  []cid.Cid // every StorageReadOpener request, in order
	Opens  []int     // sequence numbers of write-opens
	Commit []cid.Cid // every successful commit in order
	// faults
	Unavailable map[string]uint64     // cid key -> error kind
	ReadHook    func(c cid.Cid) error // optional
	FailOpenAt  int                   // k-th (1-based) write-open fails; 0 = never
	FailCommit  int                   // k-th (1-based) commit fails; 0 = never
	FailFlavor  int                   // 0: FaultErr; 1: *fs.PathError{ENOENT}; 2: fmt.Errorf("%w", fs.ErrNotExist) — what a file-system block store returns; 3/4: wrapping io.EOF / io.ErrUnexpectedEOF; 5: context.Canceled
	FailWriteAt int                   // the Write into the k-th (1-based) opened block stream fails; 0 = never
	nOpen       int
	nCommit     int
	Events      []string // "open", "commit:<cid>", "failopen", "failcommit:<cid>"
}

// flavored wraps the injected write failure the way real block stores do
func (s *Store) flavored(kind uint64) error {
	switch s.FailFlavor {
	case 1:
		return &fs.PathError{Op: "open", Path: "blocks/XX/blk.data", Err: wrappedFault{FaultErr{kind}, fs.ErrNotExist}}
	case 2:
		return fmt.Errorf("blockstore: %w", wrappedFault{FaultErr{kind}, fs.ErrNotExist})
	case 3: // a remote store whose connection was cut: the transport's error wraps io.EOF
		return fmt.Errorf("blockstore: put: %w", wrappedFault{FaultErr{kind}, io.EOF})
	case 4:
		return fmt.Errorf("blockstore: put: %w", wrappedFault{FaultErr{kind}, io.ErrUnexpectedEOF})
	case 5:
		return wrappedFault{FaultErr{kind}, context.Canceled}
	}
	return FaultErr{kind}
}

// wrappedFault is an injected fault that also matches a standard sentinel through errors.Is
type wrappedFault struct {
	FaultErr
	sentinel error
}

func (w wrappedFault) Is(target error) bool { return target == w.sentinel }
func (w wrappedFault) As(target interface{}) bool {
	if fe, ok := target.(*FaultErr); ok {
		*fe = w.FaultErr
		return true
	}
	return false
}

func NewStore() *Store {
	return &Store{Blocks: map[string][]byte{}, Unavailable: map[string]uint64{}}
}

func (s *Store) LinkSystem() *ipld.LinkSystem {
	ls := cidlink.DefaultLinkSystem()
	ls.TrustedStorage = true
	ls.StorageReadOpener = func(_ linking.LinkContext, l datamodel.Link) (io.Reader, error) {
		c := l.(cidlink.Link).Cid
		s.Reads = append(s.Reads, c)
		if s.ReadHook != nil {
			if err := s.ReadHook(c); err != nil {
				return nil, err
			}
		}
		if k, bad := s.Unavailable[c.KeyString()]; bad {
			// the SHAPE of the error is a function of the kind: what the library has to do with a load error never depends on it
			switch k {
			case 3:
				return nil, notFoundFault{FaultErr{k}} // the shape block stores give "I do not have it" (NotFound() bool)
			case 4: // a remote store that timed out on this block only
				return nil, fmt.Errorf("blockstore: get: %w", wrappedFault{FaultErr{k}, context.DeadlineExceeded})
			case 5:
				return nil, wrappedFault{FaultErr{k}, context.Canceled}
			case 6: // a connection cut while fetching this block
				return nil, fmt.Errorf("blockstore: get: %w", wrappedFault{FaultErr{k}, io.EOF})
			case 7:
				return nil, fmt.Errorf("blockstore: get: %w", wrappedFault{FaultErr{k}, io.ErrUnexpectedEOF})
			}
			return nil, FaultErr{k}
		}
		b, ok := s.Blocks[c.KeyString()]
		if !ok {
			return nil, FaultErr{404}
		}
		return bytes.NewReader(b), nil
	}
	ls.StorageWriteOpener = func(_ linking.LinkContext) (io.Writer, linking.BlockWriteCommitter, error) {
		s.nOpen++
		if s.FailOpenAt != 0 && s.nOpen == s.FailOpenAt {
			s.Events = append(s.Events, "failopen")
			return nil, nil, s.flavored(500)
		}
		s.Events = append(s.Events, "open")
		var buf bytes.Buffer
		var w io.Writer = &buf
		if s.FailWriteAt != 0 && s.nOpen == s.FailWriteAt {
			w = failingWriter{s}
		}
		return w, func(l datamodel.Link) error {
			s.nCommit++
			c := l.(cidlink.Link).Cid
			if s.FailCommit != 0 && s.nCommit == s.FailCommit {
				s.Events = append(s.Events, "failcommit:"+c.String())
				return s.flavored(501)
			}
			s.Blocks[c.KeyString()] = append([]byte(nil), buf.Bytes()...)
			s.Commit = append(s.Commit, c)
			s.Events = append(s.Events, "commit:"+c.String())
			return nil
		}, nil
	}
	return &ls
}

func (s *Store) LinkSystemReify() *ipld.LinkSystem {
	ls := s.LinkSystem()
	unixfsnode.AddUnixFSReificationToLinkSystem(ls)
	return ls
}

func (s *Store) ResetLog() { s.Reads = nil; s.Events = nil; s.Commit = nil; s.nOpen = 0; s.nCommit = 0 }

// first request of each distinct block, in order
func firstRequests(reads []cid.Cid) []cid.Cid {
	seen := map[string]bool{}
	var out []cid.Cid
	for _, c := range reads {
		if !seen[c.KeyString()] {
			seen[c.KeyString()] = true
			out = append(out, c)
		}
	}
	return out
}

func rawCid(b []byte) cid.Cid {
	h, _ := multihash.Sum(b, multihash.SHA2_256, -1)
	return cid.NewCidV1(cid.Raw, h)
}

// putRaw stores a raw block and returns its CID
func (s *Store) PutRaw(b []byte) cid.Cid {
	c := rawCid(b)
	s.Blocks[c.KeyString()] = append([]byte(nil), b...)
	return c
}

// PutPB encodes a dag-pb node (sorting its links, as the codec does) and stores it
func (s *Store) PutPB(n datamodel.Node, v0 bool) (cid.Cid, error) {
	var buf bytes.Buffer
	if err := dagpb.Encode(n, &buf); err != nil {
		return cid.Undef, err
	}
	h, _ := multihash.Sum(buf.Bytes(), multihash.SHA2_256, -1)
	var c cid.Cid
	if v0 {
		c = cid.NewCidV0(h)
	} else {
		c = cid.NewCidV1(cid.DagProtobuf, h)
	}
	s.Blocks[c.KeyString()] = buf.Bytes()
	return c, nil
}

// ---------------------------------------------------------------------------
// classification of errors into the model's enum

func classify(err error) Outcome {
	if err == nil {
		return Outcome{Class: "ok"}
	}
	if fe, ok := err.(FaultErr); ok {
		if fe.Kind >= 500 {
			return Outcome{"store", fe.Kind}
		}
		return Outcome{"load", fe.Kind}
	}
	var fe FaultErr
	if asFault(err, &fe) {
		if fe.Kind >= 500 {
			return Outcome{"store", fe.Kind}
		}
		return Outcome{"load", fe.Kind}
	}
	if err == io.EOF {
		return Outcome{Class: "eof"}
	}
	msg := err.Error()
	switch {
	case isNoSuchField(err):
		return Outcome{Class: "notfound"}
	case isOverread(err):
		return Outcome{Class: "overread"}
	case strings.Contains(msg, "negative position") || strings.Contains(msg, "negative offset"):
		return Outcome{Class: "seek"}
	}
	return Outcome{Class: "other"}
}

// guard runs f and converts a panic into an outcome
func guard(f func() error) (o Outcome) {
	defer func() {
		if r := recover(); r != nil {
			if os.Getenv("VERIF_SHOW_PANIC") != "" {
				fmt.Fprintf(os.Stderr, "panic: %v\n%s\n", r, debug.Stack())
			}
			o = Outcome{Class: "panic"}
		}
	}()
	return classify(f())
}

// ---------------------------------------------------------------------------
// misc

func sortedKeys(m map[string]int) []string {
	ks := make([]string, 0, len(m))
	for k := range m {
		ks = append(ks, k)
	}
	sort.Strings(ks)
	return ks
}

func must(err error) {
	if err != nil {
		panic(err)
	}
}

// failingWriter is a block stream whose Write fails (a full disk, a closed connection)
type failingWriter struct{ s *Store }

func (f failingWriter) Write(p []byte) (int, error) {
	f.s.Events = append(f.s.Events, "failwrite")
	return 0, f.s.flavored(502)
}

// notFoundFault is an injected read fault that also answers NotFound() like format.ErrNotFound / blockstore errors
type notFoundFault struct{ FaultErr }

func (notFoundFault) NotFound() bool { return true }
func (n notFoundFault) As(target interface{}) bool {
	if fe, ok := target.(*FaultErr); ok {
		*fe = n.FaultErr
		return true
	}
	return false
}
