package main

// Scenario "fsimport": BuildUnixFSRecursive over real temporary trees (C18; sizes for C11).

import (
	"bytes"
	"context"
	"encoding/json"
	"fmt"
	"net"
	"os"
	"path/filepath"
	"sort"
	"strings"
	"syscall"

	"github.com/ipfs/go-cid"
	"github.com/ipfs/go-unixfsnode"
	"github.com/ipfs/go-unixfsnode/data"
	"github.com/ipfs/go-unixfsnode/data/builder"
	dagpb "github.com/ipld/go-codec-dagpb"
	"github.com/ipld/go-ipld-prime"
	"github.com/ipld/go-ipld-prime/datamodel"
	cidlink "github.com/ipld/go-ipld-prime/linking/cid"
)

func init() {
	scenarios["fsimport"] = scnFsImport
	replayers["fsimport"] = func(raw json.RawMessage) []Failure {
		var in FsInput
		must(json.Unmarshal(raw, &in))
		rep := NewReport("fsimport", 0, "replay")
		runFsInput(rep, in, nil)
		return rep.Failures
	}
}

type FsNode struct {
	Kind     string    `json:"kind"` // file | dir | symlink | fifo | socket
	Name     string    `json:"name"`
	Size     int       `json:"size,omitempty"`
	Seed     uint64    `json:"seed,omitempty"`
	Target   string    `json:"target,omitempty"`
	Children []*FsNode `json:"children,omitempty"`
	NFiles   int       `json:"nfiles,omitempty"` // a directory of NFiles generated files (large directories)
	Mode     string    `json:"mode,omitempty"`   // permission / special bits set with chmod after creation: e.g. "sticky|0777", "setgid|0755", "setuid|0755", "0000"
}

// fsMode parses FsNode.Mode: what kind of file it is does not depend on any of these bits
func fsMode(m string) os.FileMode {
	var out os.FileMode
	for _, part := range strings.Split(m, "|") {
		switch part {
		case "sticky":
			out |= os.ModeSticky
		case "setgid":
			out |= os.ModeSetgid
		case "setuid":
			out |= os.ModeSetuid
		default:
			var perm uint32
			fmt.Sscanf(part, "%o", &perm)
			out |= os.FileMode(perm) & os.ModePerm
		}
	}
	return out
}

// FsInput.FailCommit / FailFlavor: the k-th block commit fails (see Store) - the import then has to fail as a whole
type FsInput struct {
	FailCommit int     `json:"fail_commit,omitempty"`
	FailFlavor int     `json:"fail_flavor,omitempty"`
	Root       *FsNode `json:"root"`
	// the stores of two consecutive imports must both be complete
	Twice bool `json:"twice,omitempty"`
}

func materialise(dir string, n *FsNode) error {
	if err := materialise1(dir, n); err != nil {
		return err
	}
	if n.Mode != "" && (n.Kind == "file" || n.Kind == "dir") {
		m := fsMode(n.Mode)
		if os.Geteuid() != 0 {
			// not root: keep the tree readable by its owner (an unreadable file is a different scenario: the import must fail)
			m |= 0o400
			if n.Kind == "dir" {
				m |= 0o700
			}
		}
		return os.Chmod(filepath.Join(dir, n.Name), m)
	}
	return nil
}

func materialise1(dir string, n *FsNode) error {
	p := filepath.Join(dir, n.Name)
	switch n.Kind {
	case "file":
		return os.WriteFile(p, synthContent(n.Seed, n.Size), 0o644)
	case "symlink":
		return os.Symlink(n.Target, p)
	case "fifo":
		return syscall.Mkfifo(p, 0o644)
	case "socket":
		l, err := net.Listen("unix", p)
		if err != nil {
			return err
		}
		if ul, ok := l.(*net.UnixListener); ok {
			ul.SetUnlinkOnClose(false) // keep the socket file after closing the listener
		}
		return l.Close()
	case "dir":
		if err := os.Mkdir(p, 0o755); err != nil {
			return err
		}
		for i := 0; i < n.NFiles; i++ {
			if err := os.WriteFile(filepath.Join(p, fmt.Sprintf("file-%07d", i)), []byte{byte(i)}, 0o644); err != nil {
				return err
			}
		}
		for _, c := range n.Children {
			if err := materialise(p, c); err != nil {
				return err
			}
		}
	}
	return nil
}

func hasFifo(n *FsNode) bool {
	if n.Kind == "fifo" || n.Kind == "socket" {
		return true
	}
	for _, c := range n.Children {
		if hasFifo(c) {
			return true
		}
	}
	return false
}

// compareImported walks the imported DAG through Reify and compares it with the on-disk tree
func compareImported(st *Store, c cid.Cid, p string, fail func(prop, sig, what string, exp, got interface{})) (cum uint64) {
	info, err := os.Lstat(p)
	must(err)
	n, ls, err := loadRoot(st, c)
	if err != nil {
		fail("C18", "missing-block", "a block of the imported DAG is not in the store", p, err.Error())
		return 0
	}
	cum = uint64(len(st.Blocks[c.KeyString()]))
	switch {
	case info.Mode()&os.ModeSymlink != 0:
		want, _ := os.Readlink(p)
		pbn, ok := n.(dagpb.PBNode)
		if !ok || !pbn.Data.Exists() {
			fail("C18", "symlink-node", "a symlink was not imported as a UnixFS node", want, fmt.Sprintf("%T", n))
			return
		}
		ud, err := data.DecodeUnixFSData(pbn.Data.Must().Bytes())
		if err != nil || ud.FieldDataType().Int() != data.Data_Symlink || !ud.FieldData().Exists() || string(ud.FieldData().Must().Bytes()) != want {
			fail("C18", "symlink-target", "a symlink node does not carry the link target text", want, fmt.Sprint(err))
		}
		if pbn.Links.Length() != 0 {
			fail("C18", "symlink-followed", "a symlink node has links (target followed?)", 0, pbn.Links.Length())
		}
		return
	case info.Mode().IsRegular():
		want, _ := os.ReadFile(p)
		var got []byte
		if n.Kind() == datamodel.Kind_Bytes {
			got, _ = n.AsBytes()
		} else {
			rn, err := unixfsnode.Reify(ipld.LinkContext{Ctx: context.Background()}, n, ls)
			if err != nil {
				fail("C18", "file-reify", "an imported file cannot be reified", p, err.Error())
				return
			}
			got, err = rn.AsBytes()
			if err != nil {
				fail("C18", "file-read", "an imported file cannot be read back", p, err.Error())
				return
			}
			// cumulative size of the file's DAG
			dag := dumpDAG(st, c, map[string]*DNode{})
			var w func(d *DNode) uint64
			w = func(d *DNode) uint64 {
				t := uint64(len(st.Blocks[d.Cid.KeyString()]))
				for _, l := range d.Links {
					t += w(l.Target)
				}
				return t
			}
			cum = w(dag)
		}
		if !bytes.Equal(got, want) {
			fail("C18", "file-bytes", "an imported file does not read back to the on-disk bytes", len(want), len(got))
		}
		return
	case info.IsDir():
		ents, _ := os.ReadDir(p)
		rn, err := unixfsnode.Reify(ipld.LinkContext{Ctx: context.Background()}, n, ls)
		if err != nil {
			fail("C18", "dir-reify", "an imported directory cannot be reified", p, err.Error())
			return
		}
		if rn.Kind() != datamodel.Kind_Map {
			fail("C18", "dir-kind", "an imported directory is not a map", p, rn.Kind().String())
			return
		}
		got := map[string]cid.Cid{}
		it := rn.MapIterator()
		for !it.Done() {
			k, v, err := it.Next()
			if err != nil {
				fail("C18", "dir-iter", "iterating an imported directory failed", p, err.Error())
				return
			}
			ks, _ := k.AsString()
			l, _ := v.AsLink()
			if _, dup := got[ks]; dup {
				fail("C18", "dir-duplicate", "an imported directory lists a name twice", p, ks)
			}
			got[ks] = l.(cidlink.Link).Cid
		}
		var names, gotNames []string
		for _, e := range ents {
			names = append(names, e.Name())
		}
		for k := range got {
			gotNames = append(gotNames, k)
		}
		sort.Strings(names)
		sort.Strings(gotNames)
		if fmt.Sprint(names) != fmt.Sprint(gotNames) {
			if len(names) > 20 {
				fail("C18", "dir-names", "an imported directory does not list exactly the on-disk names", len(names), len(gotNames))
			} else {
				fail("C18", "dir-names", "an imported directory does not list exactly the on-disk names", names, gotNames)
			}
			return
		}
		// shard blocks of this directory + children
		dag := dumpDAG(st, c, map[string]*DNode{})
		if shardFanout(dag) > 0 {
			var w func(d *DNode) uint64
			w = func(d *DNode) uint64 {
				t := uint64(len(st.Blocks[d.Cid.KeyString()]))
				pad := len(fmt.Sprintf("%X", shardFanout(d)-1))
				for _, l := range d.Links {
					if l.Name != nil && len(*l.Name) == pad {
						t += w(l.Target)
					}
				}
				return t
			}
			cum = w(dag)
		}
		for _, e := range ents {
			sub := compareImported(st, got[e.Name()], filepath.Join(p, e.Name()), fail)
			cum += sub
			// the link in the directory carries the cumulative size of the child (C11)
			if lk, err := rn.LookupByString(e.Name()); err == nil {
				_ = lk
			}
		}
		return
	}
	return
}

func coqFs(n *FsNode) string {
	switch n.Kind {
	case "file":
		return "(FFile " + coqBytes(synthContent(n.Seed, n.Size)) + ")"
	case "symlink":
		return "(FSymlink " + coqBytes([]byte(n.Target)) + ")"
	case "fifo", "socket":
		return "FOther"
	}
	kids := append([]*FsNode{}, n.Children...)
	sort.Slice(kids, func(i, j int) bool { return kids[i].Name < kids[j].Name })
	xs := make([]string, len(kids))
	for i, k := range kids {
		xs[i] = fmt.Sprintf("(%s, %s)", coqBytes([]byte(k.Name)), coqFs(k))
	}
	return "(FDir " + coqList(xs) + ")"
}

func fsSmall(n *FsNode) bool {
	if n.NFiles > 0 || n.Size > 3000 || len(n.Children) > 100 {
		return false // large directories may be sharded: the import model of the case files has no name hashes
	}
	for _, c := range n.Children {
		if !fsSmall(c) {
			return false
		}
	}
	return true
}

func runFsInput(rep *Report, in FsInput, cf *CaseFile) {
	fail := func(prop, sig, what string, exp, got interface{}) {
		rep.Fail(prop, "fsimport/"+sig, what, in, exp, got)
	}
	dir, err := os.MkdirTemp("", "verif-fsimport")
	must(err)
	defer os.RemoveAll(dir)
	must(materialise(dir, in.Root))
	root := filepath.Join(dir, in.Root.Name)
	runs := 1
	if in.Twice {
		runs = 2
	}
	for r := 0; r < runs; r++ {
		st := NewStore()
		st.FailCommit, st.FailFlavor = in.FailCommit, in.FailFlavor
		var lnk datamodel.Link
		var size uint64
		o := guard(func() error {
			var err error
			lnk, size, err = builder.BuildUnixFSRecursive(root, st.LinkSystem())
			return err
		})
		if in.FailCommit > 0 && o.Class != "ok" {
			if o.Class == "panic" {
				fail("C18", "panic", "the importer panicked", "error", "panic")
			}
			continue // a write failed and the import said so
		}
		if hasFifo(in.Root) {
			if o.Class == "ok" {
				fail("C18", "other-accepted", "a tree containing a fifo was imported without error", "error", "ok")
			} else if o.Class == "panic" {
				fail("C18", "panic", "the importer panicked", "error", "panic")
			}
			if cf != nil && fsSmall(in.Root) && r == 0 {
				cf.Add(fmt.Sprintf("mk_fs %s None", coqFs(in.Root)), in)
			}
			continue
		}
		if o.Class != "ok" {
			fail("C18", "import-"+o.Class, "importing a tree of files, directories and symlinks failed", "ok", o.Class)
			continue
		}
		c := lnk.(cidlink.Link).Cid
		cum := compareImported(st, c, root, fail)
		if cum != size {
			fail("C11", "import-size", "the size returned by the recursive import is not the cumulative size of the DAG", cum, size)
		}
		if cf != nil && fsSmall(in.Root) && r == 0 {
			registerAllExt(st)
			dag := dumpDAG(st, c, map[string]*DNode{})
			cf.Add(fmt.Sprintf("mk_fs %s (Some (%d, %d))", coqFs(in.Root), dag.FP(), size), in)
		}
	}
}

func registerAllExt(st *Store) {}

func scnFsImport(rep *Report, rng *Rng, tier string, outdir string) {
	cf := NewCaseFile(rep, outdir, "cases_fsimport", "UV.Corr.FsImport", "mismatches_fsimport", 10)
	rep.P("C18").Rule = "real temporary trees (empty directories, 0-byte files, multi-chunk files, unicode and space names, relative / absolute / dangling symlinks, fifos at any depth, a directory whose estimated size crosses the auto-shard threshold, two consecutive imports into different stores) imported by BuildUnixFSRecursive and walked back through Reify against the filesystem; small trees also compared with the Coq import model (fingerprint + size); distinct = distinct tree; non-trivial = at least 3 nodes"
	rep.P("C11").Rule = "returned size of recursive imports vs the cumulative size recomputed from the stored blocks"
	names := []string{"a", "b.txt", "with space", "ünï", "日本", "z", "00", "sub", "deep", "x.y.z", "caf\xe9.txt", "\xff\xfe name.bin"}
	var gen func(depth int, name string) *FsNode
	gen = func(depth int, name string) *FsNode {
		switch k := rng.Intn(10); {
		case k < 4 || depth == 0:
			sz := []int{0, 1, 10, 300, 2000}[rng.Intn(5)]
			return &FsNode{Kind: "file", Name: name, Size: sz, Seed: uint64(rng.Intn(200))}
		case k < 6:
			return &FsNode{Kind: "symlink", Name: name, Target: rng.Pick([]string{"../a", "/abs/olute", "dangling-target", "b.txt", "", "./b.txt", "sub/", "sub//x", "a/../b", "./"})}
		default:
			d := &FsNode{Kind: "dir", Name: name}
			n := rng.Intn(5)
			perm := rng.Perm(len(names))
			for i := 0; i < n; i++ {
				d.Children = append(d.Children, gen(depth-1, names[perm[i]]))
			}
			return d
		}
	}
	add := func(in FsInput) {
		runFsInput(rep, in, cf)
		key, _ := json.Marshal(in)
		nn := countNodes(in.Root)
		rep.Count("C18", string(key), nn >= 3, in)
		rep.Count("C11", string(key), nn >= 3, nil)
		rep.Dist("C18", fmt.Sprintf("nodes<=%d", bucketOf(nn)))
		if hasFifo(in.Root) {
			rep.Dist("C18", "with-fifo")
		}
	}
	n := 20
	if tier == "thorough" {
		n = 400
	} else if tier == "search" {
		n = 80
	}
	for i := 0; i < n; i++ {
		root := gen(3, "root")
		if root.Kind != "dir" && i%3 != 0 {
			root = &FsNode{Kind: "dir", Name: "root", Children: []*FsNode{root}}
			root.Children[0].Name = "only"
		}
		if root.Kind == "symlink" && root.Target == "" {
			root.Target = "t"
		}
		fixEmptySymlinks(root)
		add(FsInput{Root: root, Twice: i%4 == 0})
	}
	// unix sockets: at the root and nested (the temporary directory keeps the socket path short)
	add(FsInput{Root: &FsNode{Kind: "socket", Name: "sock"}})
	add(FsInput{Root: &FsNode{Kind: "dir", Name: "r", Children: []*FsNode{{Kind: "file", Name: "a", Size: 5}, {Kind: "dir", Name: "d", Children: []*FsNode{{Kind: "socket", Name: "agent.sock"}}}}}})
	// symlinks whose target text is not a cleaned path
	add(FsInput{Root: &FsNode{Kind: "dir", Name: "r", Children: []*FsNode{{Kind: "file", Name: "plain.txt", Size: 3}, {Kind: "dir", Name: "sub"},
		{Kind: "symlink", Name: "l1", Target: "./plain.txt"}, {Kind: "symlink", Name: "l2", Target: "sub/"}, {Kind: "symlink", Name: "l3", Target: "sub//x"}, {Kind: "symlink", Name: "l4", Target: "a/../plain.txt"}}}})
	// long link targets: the symlink block's length prefixes grow past one byte at 124 bytes of target (and again at 16 KiB)
	{
		var kids []*FsNode
		for _, n := range []int{119, 120, 123, 124, 127, 128, 200, 1000, 4000} {
			kids = append(kids, &FsNode{Kind: "symlink", Name: fmt.Sprintf("long-%d", n), Target: strings.Repeat("t/", n/2) + strings.Repeat("x", n%2)})
		}
		add(FsInput{Root: &FsNode{Kind: "dir", Name: "r", Children: kids}})
		add(FsInput{Root: &FsNode{Kind: "symlink", Name: "alone", Target: strings.Repeat("u", 300)}})
	}
	// names that are not valid UTF-8 (any byte string but '/' and NUL is a file name), next to their "repaired" spellings
	add(FsInput{Root: &FsNode{Kind: "dir", Name: "r", Children: []*FsNode{{Kind: "file", Name: "caf\xe9.txt", Size: 4}, {Kind: "file", Name: "caf\xef\xbf\xbd.txt", Size: 5},
		{Kind: "dir", Name: "\xff\xfe", Children: []*FsNode{{Kind: "file", Name: "\xc3", Size: 1}, {Kind: "symlink", Name: "l\xe9", Target: "\xe9t\xe9"}}}}}})
	// a block store that loses a write (errors of several shapes): the import fails, or the DAG it returns is complete
	for k := 1; k <= 9; k++ {
		for fl := 0; fl <= 2; fl++ {
			add(FsInput{FailCommit: k, FailFlavor: fl, Root: &FsNode{Kind: "dir", Name: "r", Children: []*FsNode{{Kind: "file", Name: "a", Size: 5}, {Kind: "symlink", Name: "l", Target: "a"},
				{Kind: "dir", Name: "d", Children: []*FsNode{{Kind: "file", Name: "b", Size: 300, Seed: 2}, {Kind: "symlink", Name: "m", Target: "../a"}, {Kind: "dir", Name: "e", Children: []*FsNode{{Kind: "file", Name: "c", Size: 1}}}}}}}})
		}
	}
	// names of 253..255 bytes (NAME_MAX) in a directory large enough to be sharded: 920 x (255 + 36) > 262144
	{
		var kids []*FsNode
		for i := 0; i < 920; i++ {
			n := 255 - i%3
			kids = append(kids, &FsNode{Kind: "file", Name: fmt.Sprintf("%04d-", i) + strings.Repeat("n", n-5), Size: i % 2})
		}
		add(FsInput{Root: &FsNode{Kind: "dir", Name: "longnames", Children: kids}})
	}
	// fifos at several depths
	// permission and special bits: a sticky or setgid directory, a setuid / setgid / unreadable-by-others file are directories and
	// regular files like any other (the harness runs as root, so mode 0000 is still readable)
	add(FsInput{Root: &FsNode{Kind: "dir", Name: "r", Children: []*FsNode{
		{Kind: "dir", Name: "dropbox", Mode: "sticky|0777", Children: []*FsNode{{Kind: "file", Name: "in", Size: 4}}},
		{Kind: "dir", Name: "shared", Mode: "setgid|0775", Children: []*FsNode{{Kind: "file", Name: "doc", Size: 300, Seed: 5}, {Kind: "symlink", Name: "l", Target: "doc"}}},
		{Kind: "file", Name: "su", Size: 7, Mode: "setuid|0755"}, {Kind: "file", Name: "sg", Size: 8, Mode: "setgid|0755"}, {Kind: "file", Name: "both", Size: 9, Mode: "setuid|setgid|sticky|0700"},
		{Kind: "file", Name: "locked", Size: 10, Mode: "0000"}, {Kind: "file", Name: "ro", Size: 0, Mode: "0444"}, {Kind: "dir", Name: "private", Mode: "0700"}, {Kind: "dir", Name: "t", Mode: "sticky|setgid|0755"}}}})
	add(FsInput{Root: &FsNode{Kind: "dir", Name: "tmp", Mode: "sticky|0777"}})
	add(FsInput{Root: &FsNode{Kind: "file", Name: "suid-root", Size: 12, Mode: "setuid|0755"}})
	add(FsInput{Root: &FsNode{Kind: "fifo", Name: "pipe"}})
	add(FsInput{Root: &FsNode{Kind: "dir", Name: "r", Children: []*FsNode{{Kind: "file", Name: "a", Size: 5}, {Kind: "dir", Name: "d", Children: []*FsNode{{Kind: "fifo", Name: "p"}}}}}})
	add(FsInput{Root: &FsNode{Kind: "dir", Name: "r", Children: []*FsNode{{Kind: "dir", Name: "d", Children: []*FsNode{{Kind: "dir", Name: "e", Children: []*FsNode{{Kind: "symlink", Name: "s", Target: "x"}, {Kind: "fifo", Name: "zz"}}}}}}}})
	// dangling symlinks next to files, empty files twice (two stores)
	add(FsInput{Twice: true, Root: &FsNode{Kind: "dir", Name: "r", Children: []*FsNode{{Kind: "file", Name: ".gitkeep", Size: 0}, {Kind: "symlink", Name: "dangling", Target: "nowhere"}, {Kind: "symlink", Name: "abs", Target: "/no/such"},
		{Kind: "dir", Name: "empty"}, {Kind: "dir", Name: "sub", Children: []*FsNode{{Kind: "file", Name: "__init__.py", Size: 0}}}}}})
	// multi-chunk file (default chunker) inside a directory: cumulative sizes
	add(FsInput{Root: &FsNode{Kind: "dir", Name: "r", Children: []*FsNode{{Kind: "file", Name: "big.bin", Size: 3*262144 + 17, Seed: 3}, {Kind: "file", Name: "two.bin", Size: 262145, Seed: 4}, {Kind: "file", Name: "small", Size: 9}}}})
	// directories on both sides of the auto-shard threshold (len("file-0000000")+36 = 48 per entry; 262144/48 = 5461.3)
	for _, nf := range []int{5461, 5462, 5800} {
		if tier == "quick" && nf == 5800 {
			continue
		}
		add(FsInput{Root: &FsNode{Kind: "dir", Name: "big", NFiles: nf}})
	}
	cf.Flush()
}

func fixEmptySymlinks(n *FsNode) {
	if n.Kind == "symlink" && n.Target == "" {
		n.Target = "e"
	}
	for _, c := range n.Children {
		fixEmptySymlinks(c)
	}
}

func countNodes(n *FsNode) int {
	t := 1 + n.NFiles
	for _, c := range n.Children {
		t += countNodes(c)
	}
	return t
}
