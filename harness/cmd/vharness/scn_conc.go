package main

// Scenario "conc": one reified node used from several goroutines (C17). Run from a -race build; the driver
// turns race-detector reports (GORACE log_path) into failures.

import (
	"bytes"
	"context"
	"encoding/json"
	"fmt"
	"github.com/ipfs/go-cid"
	"io"
	"sort"
	"sync"
	"sync/atomic"

	"github.com/ipfs/go-unixfsnode"
	"github.com/ipfs/go-unixfsnode/data/builder"
	"github.com/ipld/go-ipld-prime"
	"github.com/ipld/go-ipld-prime/datamodel"
	cidlink "github.com/ipld/go-ipld-prime/linking/cid"
	"github.com/multiformats/go-multihash"
)

func init() {
	scenarios["conc"] = scnConc
	replayers["conc"] = func(raw json.RawMessage) []Failure {
		var in ConcInput
		must(json.Unmarshal(raw, &in))
		rep := NewReport("conc", 0, "replay")
		runConcInput(rep, in)
		return rep.Failures
	}
}

type ConcInput struct {
	Kind       string `json:"kind"` // dir | file | file-nosizes (interior nodes without BlockSizes, dag-pb leaves)
	Fanout     int    `json:"fanout,omitempty"`
	Entries    int    `json:"entries,omitempty"`
	Width      int    `json:"width,omitempty"`
	Chunks     int    `json:"chunks,omitempty"`
	Goroutines int    `json:"goroutines"`
	Mix        string `json:"mix"` // length | lookup | iterate | mixed | readers
	Warm       bool   `json:"warm"`
	Rounds     int    `json:"rounds"`
}

type lockedStore struct {
	mu sync.Mutex
	st *Store
}

func runConcInput(rep *Report, in ConcInput) {
	fail := func(sig, what string, exp, got interface{}) {
		rep.Fail("C17", "conc/"+sig, what, in, exp, got)
	}
	st := NewStore()
	// the recording store itself must be goroutine-safe: use a plain read-only opener over the final block map
	var rootLink datamodel.Link
	expected := map[string]string{}
	var content []byte
	switch in.Kind {
	case "dir":
		es := make([]HEntry, in.Entries)
		for i := range es {
			es[i] = HEntry{Name: fmt.Sprintf("entry-%d", i), ID: i, Tsize: int64(i)}
			expected[es[i].Name] = entryCid(es[i]).String()
		}
		l, _, err := builder.BuildUnixFSShardedDirectory(in.Fanout, multihash.MURMUR3X64_64, entryLinks(es), st.LinkSystem())
		must(err)
		rootLink = l
	case "file-nosizes":
		next := 0
		var c cid.Cid
		c, content = buildNoSizesTree(st, 3, 3, &next)
		rootLink = cidlink.Link{Cid: c}
	case "file":
		content = synthContent(9, in.Chunks*3)
		c, _, err := buildFile(st, in.Width, "size-3", content)
		must(err)
		rootLink = cidlink.Link{Cid: c}
	}
	blocks := st.Blocks
	ls := cidlink.DefaultLinkSystem()
	ls.TrustedStorage = true
	var failing int32 // while set, every block but the root is unavailable (mix "heal")
	ls.StorageReadOpener = func(_ ipld.LinkContext, l datamodel.Link) (io.Reader, error) {
		b, ok := blocks[l.(cidlink.Link).Cid.KeyString()]
		if !ok {
			return nil, fmt.Errorf("missing")
		}
		if atomic.LoadInt32(&failing) == 1 && !l.(cidlink.Link).Cid.Equals(rootLink.(cidlink.Link).Cid) {
			return nil, fmt.Errorf("storage temporarily unavailable")
		}
		return bytes.NewReader(b), nil
	}
	unixfsnode.AddUnixFSReificationToLinkSystem(&ls)
	for round := 0; round < in.Rounds; round++ {
		n, _, err := loadRoot(st, rootLink.(cidlink.Link).Cid)
		must(err)
		node, err := unixfsnode.Reify(ipld.LinkContext{Ctx: context.Background()}, n, &ls)
		must(err)
		if in.Warm && in.Kind == "dir" {
			node.Length()
		}
		if in.Mix == "heal" {
			// storage fails while the goroutines make their first calls, then recovers: a failed walk must leave
			// nothing behind on the node, the calls made afterwards return what they return on a fresh node
			atomic.StoreInt32(&failing, 1)
			var wg0 sync.WaitGroup
			bad := make(chan string, in.Goroutines)
			for g := 0; g < in.Goroutines; g++ {
				g := g
				wg0.Add(1)
				go func() {
					defer wg0.Done()
					defer func() {
						if r := recover(); r != nil {
							bad <- fmt.Sprint("panic while storage was failing: ", r)
						}
					}()
					switch g % 3 {
					case 0:
						if got := node.Length(); got != 0 {
							bad <- fmt.Sprintf("Length with every child shard unavailable returned %d, alone it returns 0", got)
						}
					case 1:
						_, _ = node.LookupByString(fmt.Sprintf("entry-%d", g))
					default:
						it := node.MapIterator()
						for steps := 0; !it.Done() && steps < 4*in.Entries+64; steps++ {
							_, _, _ = it.Next()
						}
					}
				}()
			}
			wg0.Wait()
			close(bad)
			for e := range bad {
				fail("result-differs-faulty", "a call made concurrently while storage was failing returned something else than when run alone", "the sequential result", e)
				return
			}
			atomic.StoreInt32(&failing, 0)
		}
		start := make(chan struct{})
		var wg sync.WaitGroup
		errs := make(chan string, in.Goroutines*4)
		for g := 0; g < in.Goroutines; g++ {
			g := g
			wg.Add(1)
			go func() {
				defer wg.Done()
				defer func() {
					if r := recover(); r != nil {
						errs <- fmt.Sprint("panic: ", r)
					}
				}()
				<-start
				op := in.Mix
				if op == "mixed" || op == "heal" {
					op = []string{"length", "lookup", "iterate", "lookup"}[g%4]
				}
				switch {
				case in.Kind == "dir" && op == "length":
					if got := node.Length(); got != int64(len(expected)) {
						errs <- fmt.Sprintf("Length returned %d, alone it returns %d", got, len(expected))
					}
				case in.Kind == "dir" && op == "lookup":
					for i := 0; i < 40; i++ {
						k := fmt.Sprintf("entry-%d", (i*7+g*13)%(in.Entries+5))
						v, err := node.LookupByString(k)
						want, member := expected[k]
						if member {
							if err != nil {
								errs <- fmt.Sprintf("lookup %s: %v", k, err)
								return
							}
							l, _ := v.AsLink()
							if l.String() != want {
								errs <- fmt.Sprintf("lookup %s returned a wrong link", k)
								return
							}
						} else if err == nil {
							errs <- fmt.Sprintf("lookup of absent %s succeeded", k)
							return
						}
					}
				case in.Kind == "dir" && op == "iterate":
					var keys []string
					it := node.MapIterator()
					for !it.Done() {
						k, _, err := it.Next()
						if err != nil {
							errs <- "iteration error: " + err.Error()
							return
						}
						ks, _ := k.AsString()
						keys = append(keys, ks)
					}
					sort.Strings(keys)
					if len(keys) != len(expected) {
						errs <- fmt.Sprintf("iteration yielded %d entries, alone it yields %d", len(keys), len(expected))
					}
				case in.Kind == "file" || in.Kind == "file-nosizes":
					l := node.(lbn)
					r, err := l.AsLargeBytes()
					if err != nil {
						errs <- err.Error()
						return
					}
					// the length first (a root without FileSize measures its links for it), from every goroutine at once
					if end, err := r.Seek(0, io.SeekEnd); err != nil || end != int64(len(content)) {
						errs <- fmt.Sprintf("reader %d: Seek(0, SeekEnd) = %d, %v; alone it returns %d", g, end, err, len(content))
						return
					}
					off := (g * 37) % (len(content) + 1)
					if _, err := r.Seek(int64(off), io.SeekStart); err != nil {
						errs <- err.Error()
						return
					}
					got, _ := io.ReadAll(r)
					if !bytes.Equal(got, content[off:]) {
						errs <- fmt.Sprintf("reader %d from offset %d returned %d bytes, alone it returns %d (equal prefix %d)", g, off, len(got), len(content)-off, commonPrefix(got, content[off:]))
						return
					}
					// step-wise reads with unequal sizes
					r2, _ := l.AsLargeBytes()
					buf := make([]byte, 5+g*3)
					pos := 0
					for {
						m, err := r2.Read(buf)
						if !bytes.Equal(buf[:m], content[pos:pos+m]) {
							errs <- fmt.Sprintf("reader %d: bytes at %d differ", g, pos)
							return
						}
						pos += m
						if err != nil {
							break
						}
					}
				}
			}()
		}
		close(start)
		wg.Wait()
		close(errs)
		for e := range errs {
			fail("result-differs", "a call made concurrently returned something else than when run alone", "the sequential result", e)
			return
		}
	}
}

func scnConc(rep *Report, rng *Rng, tier string, outdir string) {
	rep.P("C17").Rule = "one lazily reified node (sharded directories with nested shards, multi-level files; cold and warm) shared by 2..16 goroutines released together, doing Length / lookups of members and non-members / full iteration / separate readers with unequal read sizes; every result compared with the sequential result; run from a -race build, any race-detector report is a failure; distinct = distinct configuration; non-trivial = at least 2 goroutines"
	rounds := 20
	if tier == "thorough" {
		rounds = 300
	}
	var ins []ConcInput
	for _, g := range []int{2, 8, 16} {
		for _, mix := range []string{"length", "lookup", "iterate", "mixed"} {
			for _, warm := range []bool{false, true} {
				ins = append(ins, ConcInput{Kind: "dir", Fanout: []int{8, 16, 256}[g%3], Entries: 300, Goroutines: g, Mix: mix, Warm: warm, Rounds: rounds})
			}
		}
		ins = append(ins, ConcInput{Kind: "file", Width: 2, Chunks: 70, Goroutines: g, Mix: "readers", Rounds: rounds})
		ins = append(ins, ConcInput{Kind: "file", Width: 4, Chunks: 200, Goroutines: g, Mix: "readers", Rounds: rounds / 2})
	}
	// every other fanout meets its first reader concurrently (process-wide caches keyed by fanout start cold)
	for i, f := range []int{8, 32, 64, 128, 512, 1024} {
		ins = append(ins, ConcInput{Kind: "dir", Fanout: f, Entries: 120, Goroutines: 4, Mix: []string{"lookup", "iterate", "length"}[i%3], Warm: false, Rounds: 3})
	}
	// storage that fails during the first calls and then recovers
	for i, g := range []int{2, 8, 16} {
		ins = append(ins, ConcInput{Kind: "dir", Fanout: []int{8, 16, 256}[i], Entries: 300, Goroutines: g, Mix: "heal", Rounds: rounds / 2})
	}
	// files whose interior nodes have no BlockSizes: readers measure the children by opening them
	for _, g := range []int{2, 8} {
		ins = append(ins, ConcInput{Kind: "file-nosizes", Goroutines: g, Mix: "readers", Rounds: rounds})
	}
	for _, in := range ins {
		runConcInput(rep, in)
		key, _ := json.Marshal(in)
		rep.Count("C17", string(key), in.Goroutines >= 2, in)
		rep.Dist("C17", fmt.Sprintf("kind=%s mix=%s", in.Kind, in.Mix))
	}
}
