package main

// Scenario "reify": Reify / the registered reifiers over arbitrary nodes (C14, part of C13, file part of C06).

import (
	"bytes"
	"context"
	"encoding/json"
	"fmt"

	gproto "github.com/gogo/protobuf/proto"
	pb "github.com/ipfs/boxo/ipld/unixfs/pb"
	"github.com/ipfs/go-cid"
	"github.com/ipfs/go-unixfsnode"
	"github.com/ipfs/go-unixfsnode/directory"
	"github.com/ipfs/go-unixfsnode/file"
	"github.com/ipfs/go-unixfsnode/hamt"
	dagpb "github.com/ipld/go-codec-dagpb"
	"github.com/ipld/go-ipld-prime"
	"github.com/ipld/go-ipld-prime/adl"
	"github.com/ipld/go-ipld-prime/datamodel"
	"github.com/ipld/go-ipld-prime/fluent/qp"
	cidlink "github.com/ipld/go-ipld-prime/linking/cid"
	"github.com/ipld/go-ipld-prime/node/basicnode"
	"google.golang.org/protobuf/encoding/protowire"
)

func init() {
	scenarios["reify"] = scnReify
	replayers["reify"] = func(raw json.RawMessage) []Failure {
		var in ReifyInput
		must(json.Unmarshal(raw, &in))
		rep := NewReport("reify", 0, "replay")
		runReifyInput(rep, in, nil)
		return rep.Failures
	}
}

type RLink struct {
	Name    *string `json:"name"`
	Tsize   *int64  `json:"tsize"`
	Content string  `json:"content"` // raw target block content
	Missing bool    `json:"missing"` // target not in the store
}

type ReifyInput struct {
	NonPb   string  `json:"nonpb,omitempty"` // string | bytes | map | list | link
	HasData bool    `json:"hasdata"`
	Data    []byte  `json:"data,omitempty"`
	Links   []RLink `json:"links,omitempty"`
	Lazy    bool    `json:"lazy"`
	Via     string  `json:"via"` // direct | registered
	Desc    string  `json:"desc"`
}

func ufsData(t int64, inline []byte, hasInline bool, filesize *uint64, blocksizes []uint64, hashType, fanout *uint64) []byte {
	var b []byte
	b = protowire.AppendVarint(protowire.AppendTag(b, 1, protowire.VarintType), uint64(t))
	if hasInline {
		b = protowire.AppendBytes(protowire.AppendTag(b, 2, protowire.BytesType), inline)
	}
	if filesize != nil {
		b = protowire.AppendVarint(protowire.AppendTag(b, 3, protowire.VarintType), *filesize)
	}
	for _, v := range blocksizes {
		b = protowire.AppendVarint(protowire.AppendTag(b, 4, protowire.VarintType), v)
	}
	if hashType != nil {
		b = protowire.AppendVarint(protowire.AppendTag(b, 5, protowire.VarintType), *hashType)
	}
	if fanout != nil {
		b = protowire.AppendVarint(protowire.AppendTag(b, 6, protowire.VarintType), *fanout)
	}
	return b
}

func runReifyInput(rep *Report, in ReifyInput, cf *CaseFile) {
	fail := func(prop, sig, what string, exp, got interface{}) {
		rep.Fail(prop, "reify/"+sig, what, in, exp, got)
	}
	st := NewStore()
	ls := st.LinkSystemReify()
	var node datamodel.Node
	var orig []byte
	var rootCid cid.Cid
	if in.NonPb != "" {
		switch in.NonPb {
		case "string":
			node = basicnode.NewString("hello")
		case "bytes":
			node = basicnode.NewBytes([]byte{1, 2, 3})
		case "map":
			node, _ = qp.BuildMap(basicnode.Prototype.Any, -1, func(ma datamodel.MapAssembler) {
				qp.MapEntry(ma, "Data", qp.Bytes([]byte{8, 2}))
				qp.MapEntry(ma, "Links", qp.List(0, func(datamodel.ListAssembler) {}))
			})
		case "list":
			node, _ = qp.BuildList(basicnode.Prototype.Any, -1, func(la datamodel.ListAssembler) { qp.ListEntry(la, qp.Int(1)) })
		case "adl-rawfile":
			// nodes that are ADLs already (not dag-pb nodes): a file view over a raw leaf, a reified directory, a reified
			// file - reifying them again hands them back as they are
			n, err := file.NewUnixFSFile(context.Background(), basicnode.NewBytes([]byte("raw leaf")), ls)
			must(err)
			node = n
		case "adl-dir", "adl-file", "adl-shard":
			d := map[string][]byte{"adl-dir": {8, 1}, "adl-file": ufsData(2, []byte("inline"), true, nil, nil, nil, nil),
				"adl-shard": ufsData(5, []byte{0}, true, nil, nil, func() *uint64 { v := uint64(0x22); return &v }(), func() *uint64 { v := uint64(8); return &v }())}[in.NonPb]
			pbn, err := qp.BuildMap(dagpb.Type.PBNode, -1, func(ma datamodel.MapAssembler) {
				qp.MapEntry(ma, "Links", qp.List(0, func(datamodel.ListAssembler) {}))
				qp.MapEntry(ma, "Data", qp.Bytes(d))
			})
			must(err)
			rn, err := unixfsnode.Reify(ipld.LinkContext{Ctx: context.Background()}, pbn, ls)
			must(err)
			node = rn
		default:
			node = basicnode.NewLink(cidlink.Link{Cid: rawCid([]byte("x"))})
		}
	} else {
		n, err := qp.BuildMap(dagpb.Type.PBNode, -1, func(ma datamodel.MapAssembler) {
			qp.MapEntry(ma, "Links", qp.List(int64(len(in.Links)), func(la datamodel.ListAssembler) {
				for _, l := range in.Links {
					l := l
					c := rawCid([]byte(l.Content))
					if !l.Missing {
						st.PutRaw([]byte(l.Content))
					} else {
						registerExt(c, 7)
					}
					qp.ListEntry(la, qp.Map(-1, func(ma datamodel.MapAssembler) {
						qp.MapEntry(ma, "Hash", qp.Link(cidlink.Link{Cid: c}))
						if l.Name != nil {
							qp.MapEntry(ma, "Name", qp.String(*l.Name))
						}
						if l.Tsize != nil {
							qp.MapEntry(ma, "Tsize", qp.Int(*l.Tsize))
						}
					}))
				}
			}))
			if in.HasData {
				qp.MapEntry(ma, "Data", qp.Bytes(in.Data))
			}
		})
		must(err)
		rootCid, err = st.PutPB(n, false)
		must(err)
		orig = st.Blocks[rootCid.KeyString()]
		node, err = ls.Load(ipld.LinkContext{}, cidlink.Link{Cid: rootCid}, dagpb.Type.PBNode)
		must(err)
	}
	st.ResetLog()
	var out datamodel.Node
	o := guard(func() error {
		var err error
		lc := ipld.LinkContext{Ctx: context.Background()}
		switch {
		case in.Via == "registered" && in.Lazy:
			out, err = ls.KnownReifiers["unixfs"](lc, node, ls)
		case in.Via == "registered":
			out, err = ls.KnownReifiers["unixfs-preload"](lc, node, ls)
		case in.Lazy:
			out, err = unixfsnode.Reify(lc, node, ls)
		default:
			out, err = ls.KnownReifiers["unixfs-preload"](lc, node, ls)
		}
		return err
	})
	cls := -1
	obs := "RErr"
	switch {
	case o.Class == "panic":
		obs = "RPanic"
		fail("C14", "panic", "reification panicked", "node or error", "panic")
		fail("C13", "reify-panic", "reification panicked", "node or error", "panic")
	case o.Class == "ok":
		if in.NonPb != "" && out == node {
			cls = 0 // a node that is not a dag-pb node (an ADL of this module included) is handed back as it is
		} else {
			switch x := out.(type) {
			case unixfsnode.PathedPBNode:
				cls = 1
			case directory.UnixFSBasicDir:
				cls = 3
			case hamt.UnixFSHAMTShard:
				cls = 4
			default:
				if out == node {
					cls = 0
				} else if _, isL := x.(datamodel.LargeBytesNode); isL || out.Kind() == datamodel.Kind_Bytes {
					cls = 2
				}
			}
		}
		obs = fmt.Sprintf("(ROk %d)", cls)
	}
	// ---- direct oracle: the classification the property states, from an independent decoding
	want := "unchanged"
	if in.NonPb == "" {
		want = "linkmap"
		if in.HasData {
			var d pb.Data
			if err := gproto.Unmarshal(in.Data, &d); err == nil && d.Type != nil && refAccepts(in.Data) {
				switch int64(d.GetType()) {
				case 0, 2:
					want = "bytes"
				case 1, 5:
					want = "map"
				case 3, 4:
					want = "linkmap"
				default:
					want = "error"
				}
			}
		}
	}
	if o.Class != "panic" {
		got := map[int]string{-1: "error", 0: "unchanged", 1: "linkmap", 2: "bytes", 3: "map", 4: "map"}[cls]
		if o.Class != "ok" {
			got = "error"
		}
		switch {
		case want == "error" && got != "error":
			fail("C14", "unknown-type-accepted", "an unknown UnixFS type was reified instead of rejected", want, got)
		case want != "error" && got == "error":
			// allowed: invalid shard parameters, a file whose blocks cannot be read (preload), wrong directory type
			if want == "unchanged" || want == "linkmap" {
				fail("C14", "total", "reification of a non-UnixFS node failed", want, got)
			}
		case want != got:
			fail("C14", "classification", "the reified node is not of the kind the UnixFS type calls for", want, got)
		}
		if o.Class == "ok" && cls == 2 && out.Kind() != datamodel.Kind_Bytes {
			fail("C14", "file-kind", "file node is not bytes kind", "bytes", out.Kind().String())
		}
		if o.Class == "ok" && (cls == 1 || cls == 3 || cls == 4) && out.Kind() != datamodel.Kind_Map {
			fail("C14", "map-kind", "directory / link map node is not map kind", "map", out.Kind().String())
		}
		// substrate
		if o.Class == "ok" && cls != 0 {
			a, isADL := out.(adl.ADL)
			if !isADL {
				fail("C14", "not-adl", "reified node exposes no substrate", nil, fmt.Sprintf("%T", out))
			} else {
				sub := a.Substrate()
				if sub != node {
					fail("C14", "substrate-identity", "Substrate() is not the original node", fmt.Sprintf("%T", node), fmt.Sprintf("%T", sub))
				}
				var buf bytes.Buffer
				err := func() (err error) {
					defer func() {
						if r := recover(); r != nil {
							err = fmt.Errorf("panic: %v", r)
						}
					}()
					return dagpb.Encode(sub, &buf)
				}()
				if err != nil || !bytes.Equal(buf.Bytes(), orig) {
					fail("C14", "substrate-reencode", "re-encoding the substrate does not reproduce the original block", len(orig), fmt.Sprint(err, " ", buf.Len()))
				}
			}
		}
	}
	// hostile file nodes: every operation returns a value or an error
	if o.Class == "ok" && cls == 2 {
		ops := map[string]func() error{
			"AsBytes": func() error { _, err := out.AsBytes(); return err },
			"read-all": func() error {
				l, ok := out.(lbn)
				if !ok {
					return nil
				}
				r, err := l.AsLargeBytes()
				if err != nil {
					return err
				}
				buf := make([]byte, 7)
				for i := 0; i < 10000; i++ {
					if _, err := r.Read(buf); err != nil {
						return nil
					}
				}
				return fmt.Errorf("read does not end")
			},
			"seeks": func() error {
				l, ok := out.(lbn)
				if !ok {
					return nil
				}
				r, err := l.AsLargeBytes()
				if err != nil {
					return err
				}
				buf := make([]byte, 3)
				for _, sk := range [][2]int64{{0, 2}, {-1, 2}, {-5, 0}, {1 << 40, 0}, {-1 << 40, 1}, {3, 0}, {-2, 1}, {1, 2}} {
					r.Seek(sk[0], int(sk[1]))
					r.Read(buf)
				}
				return nil
			},
		}
		for name, f := range ops {
			oo := guard(f)
			if oo.Class == "panic" {
				fail("C13", "file-op-panic-"+name, "an operation on a reified file node panicked", "value or error", "panic")
			} else if name == "read-all" && oo.Class == "other" {
				fail("C13", "file-read-unbounded", "reading a reified file node does not end", "EOF or error", "still reading")
			}
		}
	}
	if cf != nil && o.Class != "panic" {
		var term string
		if in.NonPb != "" {
			term = "(ANotPb 1)"
		} else {
			dag := dumpDAG(st, rootCid, map[string]*DNode{})
			term = "(APb " + coqBlk(dag) + ")"
		}
		cf.Add(fmt.Sprintf("mk_reify %s %s [] %s", term, coqBool(in.Lazy), obs), in)
	}
}

// refAccepts: the library's own decoder is stricter than proto (duplicate fields etc.); the
// classification only applies when the Data decodes for the library too.
func refAccepts(b []byte) bool {
	_, err := decodeUD(b)
	return err == nil
}

func scnReify(rep *Report, rng *Rng, tier string, outdir string) {
	cf := NewCaseFile(rep, outdir, "cases_reify", "UV.Corr.Reify", "mismatches_reify", 80)
	rep.P("C14").Rule = "every UnixFS type number -6..8, 100, 2^40, negative (10-byte varint) x {no Data, garbage Data, valid Data with/without inline bytes, valid/invalid shard parameters} x {no links, links to present/absent blocks, with/without names and sizes} x {lazy, preload} x {Reify, registered reifiers} + non-dag-pb nodes; compared with the Coq model over the regenerated dispatch tables and with the classification the property states; Substrate() identity and re-encoding checked; distinct = distinct input; non-trivial = dag-pb node with Data"
	rep.P("C13").Rule = rep.P("C14").Rule
	u := func(v uint64) *uint64 { return &v }
	s := func(v string) *string { return &v }
	i64 := func(v int64) *int64 { return &v }
	var datas []struct {
		d    []byte
		has  bool
		desc string
	}
	add := func(d []byte, has bool, desc string) {
		datas = append(datas, struct {
			d    []byte
			has  bool
			desc string
		}{d, has, desc})
	}
	add(nil, false, "nodata")
	add([]byte{0xff, 0xff, 0xff}, true, "garbage")
	add([]byte{}, true, "empty-data-field")
	for _, t := range []int64{-6, -2, -1, 0, 1, 2, 3, 4, 5, 6, 7, 8, 100, 1 << 40, -(1 << 31), -(1 << 62)} {
		add(ufsData(t, nil, false, nil, nil, nil, nil), true, fmt.Sprintf("type%d", t))
		add(ufsData(t, []byte("inline"), true, u(6), nil, nil, nil), true, fmt.Sprintf("type%d+inline", t))
		add(ufsData(t, []byte{}, true, nil, nil, nil, nil), true, fmt.Sprintf("type%d+emptyinline", t))
	}
	// shard parameters
	add(ufsData(5, []byte{0x03}, true, nil, nil, u(0x22), u(8)), true, "shard-ok")
	add(ufsData(5, []byte{0x03}, true, nil, nil, u(0x22), u(256)), true, "shard-256")
	add(ufsData(5, []byte{1, 2}, true, nil, nil, u(0x22), u(8)), true, "shard-bitfield-too-long")
	for _, fan := range []uint64{8, 16, 256, 1024} {
		exact := make([]byte, fan/8)
		exact[len(exact)-1] = 1
		add(ufsData(5, exact, true, nil, nil, u(0x22), u(fan)), true, fmt.Sprintf("shard-%d-exact-bitfield", fan))
		add(ufsData(5, exact[1:], true, nil, nil, u(0x22), u(fan)), true, fmt.Sprintf("shard-%d-short-bitfield", fan))
		// wider than the fanout although only by zero bytes in front: an invalid shard all the same
		add(ufsData(5, append([]byte{0}, exact...), true, nil, nil, u(0x22), u(fan)), true, fmt.Sprintf("shard-%d-bitfield-zero-padded-1", fan))
		add(ufsData(5, append([]byte{0, 0, 0}, exact...), true, nil, nil, u(0x22), u(fan)), true, fmt.Sprintf("shard-%d-bitfield-zero-padded-3", fan))
		add(ufsData(5, make([]byte, fan/8+1), true, nil, nil, u(0x22), u(fan)), true, fmt.Sprintf("shard-%d-bitfield-all-zero-long", fan))
		add(ufsData(5, append([]byte{1}, exact...), true, nil, nil, u(0x22), u(fan)), true, fmt.Sprintf("shard-%d-bitfield-too-long", fan))
	}
	add(ufsData(5, []byte{0x03}, true, nil, nil, u(0x22), u(12)), true, "shard-fanout-not-pow2")
	add(ufsData(5, []byte{0x03}, true, nil, nil, u(0x22), u(4)), true, "shard-fanout-4")
	add(ufsData(5, []byte{0x03}, true, nil, nil, u(0x22), u(2048)), true, "shard-fanout-too-big")
	add(ufsData(5, []byte{0x03}, true, nil, nil, u(0x12), u(8)), true, "shard-wrong-hash")
	add(ufsData(5, []byte{0x03}, true, nil, nil, nil, u(8)), true, "shard-no-hash")
	add(ufsData(5, []byte{0x03}, true, nil, nil, u(0x22), nil), true, "shard-no-fanout")
	add(ufsData(5, nil, false, nil, nil, u(0x22), u(8)), true, "shard-no-bitfield")
	add(ufsData(5, []byte{0x03}, true, nil, nil, u(0x22), u(1<<63)), true, "shard-fanout-negative")
	add(ufsData(5, []byte{0x03}, true, nil, nil, u(0x22), u(0)), true, "shard-fanout-zero")
	// files with sizes for their links
	add(ufsData(2, nil, false, u(5), []uint64{2, 3}, nil, nil), true, "file-sized")
	add(ufsData(2, nil, false, nil, nil, nil, nil), true, "file-unsized")
	for i, fsz := range []uint64{1 << 63, 1<<64 - 1, 1 << 62, 1 << 56, 1<<64 - 1048576, 0, 4} {
		add(ufsData(2, nil, false, u(fsz), []uint64{2, 3}, nil, nil), true, fmt.Sprintf("file-lying-size-%d", i))
		add(ufsData(2, nil, false, u(fsz), []uint64{1 << 63, 1<<64 - 1}, nil, nil), true, fmt.Sprintf("file-lying-blocksizes-%d", i))
	}
	add(ufsData(2, nil, false, u(5), []uint64{2}, nil, nil), true, "file-short-blocksizes")
	for i, fsz := range []uint64{1 << 63, 1<<64 - 1, 3, 0, 1 << 40} {
		// inline bytes under a FileSize that says something else (smaller, zero, negative as int64, huge)
		add(ufsData(2, []byte("inline-data"), true, u(fsz), nil, nil, nil), true, fmt.Sprintf("file-inline-lying-size-%d", i))
		add(ufsData(0, []byte("inline-data"), true, u(fsz), nil, nil, nil), true, fmt.Sprintf("raw-inline-lying-size-%d", i))
	}
	linkSets := [][]RLink{
		nil,
		{{Name: s(""), Tsize: i64(2), Content: "ab"}, {Name: s(""), Tsize: i64(3), Content: "cde"}},
		{{Name: s("0"), Tsize: i64(2), Content: "ab"}, {Name: s("1x"), Tsize: i64(3), Content: "cde"}},
		{{Name: nil, Tsize: nil, Content: "ab"}},
		{{Name: s(""), Tsize: i64(2), Content: "ab"}, {Name: s(""), Tsize: i64(3), Content: "gone", Missing: true}},
	}
	count := 0
	for _, d := range datas {
		for li, ls := range linkSets {
			for _, lazy := range []bool{true, false} {
				if tier != "thorough" && (count+li)%2 == 1 && li > 1 {
					count++
					continue
				}
				count++
				via := []string{"direct", "registered"}[count%2]
				in := ReifyInput{HasData: d.has, Data: d.d, Links: ls, Lazy: lazy, Via: via, Desc: fmt.Sprintf("%s/links%d", d.desc, li)}
				runReifyInput(rep, in, cf)
				key, _ := json.Marshal(in)
				rep.Count("C14", string(key), d.has, in)
				rep.Count("C13", string(key), d.has, in)
				rep.Dist("C14", d.desc)
			}
		}
	}
	for _, k := range []string{"string", "bytes", "map", "list", "link", "adl-rawfile", "adl-dir", "adl-file", "adl-shard"} {
		for _, lazy := range []bool{true, false} {
			in := ReifyInput{NonPb: k, Lazy: lazy, Via: "direct", Desc: "nonpb-" + k}
			runReifyInput(rep, in, cf)
			key, _ := json.Marshal(in)
			rep.Count("C14", string(key), false, in)
			rep.Dist("C14", "nonpb")
		}
	}
	// random Data payloads
	n := 150
	if tier == "thorough" {
		n = 5000
	}
	for i := 0; i < n; i++ {
		d := rng.Bytes(rng.Intn(12))
		if rng.Bool() && len(d) > 0 {
			d[0] = 8 // a DataType tag first
		}
		in := ReifyInput{HasData: true, Data: d, Links: linkSets[rng.Intn(len(linkSets))], Lazy: rng.Bool(), Via: "direct", Desc: "random"}
		runReifyInput(rep, in, cf)
		key, _ := json.Marshal(in)
		rep.Count("C14", string(key), true, nil)
		rep.Count("C13", string(key), true, nil)
		rep.Dist("C14", "random")
	}
	cf.Flush()
}
