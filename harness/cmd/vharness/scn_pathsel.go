package main

// Scenario "pathsel": UnixFSPathSelectorBuilder + traversal over trees of files, plain and sharded
// directories (C03; path part of C05/C20; selector part of C06).

import (
	"bytes"
	"context"
	"encoding/binary"
	"encoding/json"
	"fmt"
	"io"
	"sort"
	"strings"

	"github.com/ipfs/go-cid"
	"github.com/ipfs/go-unixfsnode"
	"github.com/ipfs/go-unixfsnode/data/builder"
	dagpb "github.com/ipld/go-codec-dagpb"
	"github.com/ipld/go-ipld-prime"
	"github.com/ipld/go-ipld-prime/datamodel"
	cidlink "github.com/ipld/go-ipld-prime/linking/cid"
	"github.com/ipld/go-ipld-prime/node/basicnode"
	"github.com/ipld/go-ipld-prime/traversal"
	"github.com/ipld/go-ipld-prime/traversal/selector"
	selbuilder "github.com/ipld/go-ipld-prime/traversal/selector/builder"
	"github.com/multiformats/go-multihash"
)

func init() {
	scenarios["pathsel"] = scnPathSel
	replayers["pathsel"] = func(raw json.RawMessage) []Failure {
		var in PathSelInput
		must(json.Unmarshal(raw, &in))
		rep := NewReport("pathsel", 0, "replay")
		runPathSelInput(rep, in, nil)
		return rep.Failures
	}
}

type PNode struct {
	ID       int      `json:"id"`
	Name     string   `json:"name"`
	File     bool     `json:"file"`
	Size     int      `json:"size,omitempty"`
	Fanout   int      `json:"fanout,omitempty"` // 0 = plain directory
	Children []*PNode `json:"children,omitempty"`
}

type PathSelInput struct {
	Tree      *PNode `json:"tree"`
	Path      string `json:"path"`
	Target    int    `json:"target"` // 0 match, 1 preload, 2 entity, 3 explore-all
	MatchPath bool   `json:"matchpath"`
}

type builtTree struct {
	st    *Store
	cids  map[int]cid.Cid
	sizes map[int]uint64
	byCid map[string]*PNode
	bytes map[int][]byte
	// blocks belonging to each entity (file blocks / shard blocks, not entries)
	own map[int]map[string]bool
}

func buildPTree(n *PNode, bt *builtTree) {
	before := map[string]bool{}
	for k := range bt.st.Blocks {
		before[k] = true
	}
	var c cid.Cid
	var sz uint64
	if n.File {
		content := synthContent(uint64(n.ID), n.Size)
		bt.bytes[n.ID] = content
		var err error
		c, sz, err = buildFile(bt.st, 2, "size-3", content)
		must(err)
		own := map[string]bool{}
		for k := range bt.st.Blocks {
			if !before[k] {
				own[k] = true
			}
		}
		own[c.KeyString()] = true
		bt.own[n.ID] = own
	} else {
		for _, ch := range n.Children {
			buildPTree(ch, bt)
		}
		mid := map[string]bool{}
		for k := range bt.st.Blocks {
			mid[k] = true
		}
		var links []dagpb.PBLink
		for _, ch := range n.Children {
			l, err := builder.BuildUnixFSDirectoryEntry(ch.Name, int64(bt.sizes[ch.ID]), cidlink.Link{Cid: bt.cids[ch.ID]})
			must(err)
			links = append(links, l)
		}
		var lnk datamodel.Link
		var err error
		if n.Fanout > 0 {
			lnk, sz, err = builder.BuildUnixFSShardedDirectory(n.Fanout, multihash.MURMUR3X64_64, links, bt.st.LinkSystem())
		} else if n.Fanout < 0 {
			// a plain directory block written by hand with its links in the order of the children (not sorted by name)
			var rl []rawLink
			sz = 0
			for _, ch := range n.Children {
				nm, ts := ch.Name, bt.sizes[ch.ID]
				rl = append(rl, rawLink{Name: &nm, Tsize: &ts, Cid: bt.cids[ch.ID]})
				sz += ts
			}
			blk := encodePBRaw(rl, []byte{8, 1}, true)
			sz += uint64(len(blk))
			lnk = cidlink.Link{Cid: bt.st.PutPBRaw(blk)}
		} else {
			lnk, sz, err = builder.BuildUnixFSDirectory(links, bt.st.LinkSystem())
		}
		must(err)
		c = lnk.(cidlink.Link).Cid
		own := map[string]bool{c.KeyString(): true}
		for k := range bt.st.Blocks {
			if !mid[k] {
				own[k] = true
			}
		}
		bt.own[n.ID] = own
	}
	bt.cids[n.ID] = c
	bt.sizes[n.ID] = sz
	bt.byCid[c.KeyString()] = n
	// the blocks that make up this entity: every block of a file; the root and the shard blocks of a directory
	own := map[string]bool{}
	dag := dumpDAG(bt.st, c, map[string]*DNode{})
	var walk func(d *DNode)
	walk = func(d *DNode) {
		own[d.Cid.KeyString()] = true
		if n.File {
			for _, l := range d.Links {
				walk(l.Target)
			}
			return
		}
		if fan := shardFanout(d); fan > 0 {
			pad := len(fmt.Sprintf("%X", fan-1))
			for _, l := range d.Links {
				if l.Name != nil && len(*l.Name) == pad {
					walk(l.Target)
				}
			}
		}
	}
	walk(dag)
	bt.own[n.ID] = own
}

func coqEnt(n *PNode) string {
	if n.File {
		return fmt.Sprintf("(EFile %d)", n.ID)
	}
	// the directory lists its entries in name order
	kids := append([]*PNode{}, n.Children...)
	if n.Fanout >= 0 { // a hand-written block keeps the order it was written in
		sort.Slice(kids, func(i, j int) bool { return kids[i].Name < kids[j].Name })
	}
	xs := make([]string, len(kids))
	for i, k := range kids {
		xs[i] = fmt.Sprintf("(%s, %s)", coqBytes([]byte(k.Name)), coqEnt(k))
	}
	return fmt.Sprintf("(EDir %d %s)", n.ID, coqList(xs))
}

// coqSel reads a selector node back into the model's `sel`
func coqSel(n datamodel.Node) string {
	if n.Kind() != datamodel.Kind_Map || n.Length() != 1 {
		return "SBad"
	}
	it := n.MapIterator()
	k, v, _ := it.Next()
	ks, _ := k.AsString()
	switch ks {
	case ".":
		return "SMatcher"
	case "~":
		as, _ := v.LookupByString("as")
		next, _ := v.LookupByString(">")
		a, _ := as.AsString()
		id := 9
		if a == "unixfs" {
			id = 0
		} else if a == "unixfs-preload" {
			id = 1
		}
		return fmt.Sprintf("(SInterpretAs %d %s)", id, coqSel(next))
	case "f":
		fs, _ := v.LookupByString("f>")
		if fs.Length() != 1 {
			return "SBad"
		}
		fi := fs.MapIterator()
		fk, fv, _ := fi.Next()
		name, _ := fk.AsString()
		return fmt.Sprintf("(SFields %s %s)", coqBytes([]byte(name)), coqSel(fv))
	case "|":
		if v.Length() != 2 {
			return "SBad"
		}
		a, _ := v.LookupByIndex(0)
		b, _ := v.LookupByIndex(1)
		return fmt.Sprintf("(SUnion %s %s)", coqSel(a), coqSel(b))
	case "R":
		l, _ := v.LookupByString("l")
		if d, err := l.LookupByString("depth"); err == nil {
			if x, _ := d.AsInt(); x == 1 {
				return "SRecAllDepth1"
			}
			return "SBad"
		}
		return "SRecAllNoLimit"
	}
	return "SBad"
}

func findPath(n *PNode, segs []string) *PNode {
	if len(segs) == 0 {
		return n
	}
	if n.File {
		return nil
	}
	for _, c := range n.Children {
		if c.Name == segs[0] {
			return findPath(c, segs[1:])
		}
	}
	return nil
}

func splitPath(p string) []string {
	return strings.FieldsFunc(p, func(r rune) bool { return r == '/' })
}

// case file of the block-level path walk (Corr/PathLoads.v); nil in replays
var cfPathLoads *CaseFile
var ploadBudget int // how many more block-level path cases may be emitted (250 ms each in the model)

func runPathSelInput(rep *Report, in PathSelInput, cf *CaseFile) {
	fail := func(prop, sig, what string, exp, got interface{}) {
		rep.Fail(prop, "pathsel/"+sig, what, in, exp, got)
	}
	bt := &builtTree{st: NewStore(), cids: map[int]cid.Cid{}, sizes: map[int]uint64{}, byCid: map[string]*PNode{}, bytes: map[int][]byte{}, own: map[int]map[string]bool{}}
	buildPTree(in.Tree, bt)
	targets := []selbuilder.SelectorSpec{unixfsnode.MatchUnixFSSelector, unixfsnode.MatchUnixFSPreloadSelector, unixfsnode.MatchUnixFSEntitySelector, unixfsnode.ExploreAllRecursivelySelector}
	var selNode datamodel.Node
	o := guard(func() error {
		selNode = unixfsnode.UnixFSPathSelectorBuilder(in.Path, targets[in.Target], in.MatchPath)
		return nil
	})
	if o.Class != "ok" {
		fail("C03", "builder-panic", "the selector builder panicked", nil, o.Class)
		return
	}
	if in.Target == 0 && !in.MatchPath {
		var short datamodel.Node
		so := guard(func() error { short = unixfsnode.UnixFSPathSelector(in.Path); return nil })
		if so.Class != "ok" || !datamodel.DeepEqual(short, selNode) {
			fail("C03", "pathselector-shorthand", "UnixFSPathSelector(path) is not UnixFSPathSelectorBuilder(path, MatchUnixFSSelector, false)", nil, so.Class)
		}
	}
	sel, err := selector.CompileSelector(selNode)
	if err != nil {
		fail("C03", "compile", "the built selector does not compile", nil, err.Error())
		return
	}
	ls := bt.st.LinkSystemReify()
	root, err := ls.Load(ipld.LinkContext{}, cidlink.Link{Cid: bt.cids[in.Tree.ID]}, dagpb.Type.PBNode)
	if in.Tree.File && bt.cids[in.Tree.ID].Prefix().Codec == cid.Raw {
		root, err = ls.Load(ipld.LinkContext{}, cidlink.Link{Cid: bt.cids[in.Tree.ID]}, basicnode.Prototype.Any)
	}
	must(err)
	bt.st.ResetLog()
	type match struct {
		path string
		raw  bool
		node *PNode
		ok   bool
		what string
	}
	var matches []match
	readsAtMatch := -1
	prog := traversal.Progress{Cfg: &traversal.Config{
		Ctx:                            context.Background(),
		LinkSystem:                     *ls,
		LinkTargetNodePrototypeChooser: dagpb.AddSupportToChooser(basicnode.Chooser),
	}}
	wo := guard(func() error {
		return prog.WalkMatching(root, sel, func(p traversal.Progress, n datamodel.Node) error {
			m := match{path: p.Path.String()}
			if readsAtMatch < 0 {
				readsAtMatch = len(bt.st.Reads) // what the traversal itself requested; the checks below read the match
			}
			// which entity is this?
			ent := findPath(in.Tree, splitPath(p.Path.String()))
			m.node = ent
			_, m.raw = n.(dagpb.PBNode)
			if n.Kind() == datamodel.Kind_Bytes {
				_, isPlain := n.(interface{ AsLargeBytes() })
				_ = isPlain
			}
			if ent == nil {
				m.what = "no entity at the matched path"
			} else if !m.raw {
				if ent.File {
					b, err := n.AsBytes()
					if err != nil || !bytes.Equal(b, bt.bytes[ent.ID]) {
						m.what = fmt.Sprintf("file match does not carry the file's bytes (%v)", err)
					} else {
						m.ok = true
					}
				} else if n.Kind() != datamodel.Kind_Map {
					m.what = "directory match is not a map"
				} else {
					var names []string
					it := n.MapIterator()
					for !it.Done() {
						k, _, err := it.Next()
						if err != nil {
							m.what = "directory iteration failed: " + err.Error()
							break
						}
						ks, _ := k.AsString()
						names = append(names, ks)
					}
					var want []string
					for _, c := range ent.Children {
						want = append(want, c.Name)
					}
					sort.Strings(names)
					sort.Strings(want)
					if m.what == "" && fmt.Sprint(names) != fmt.Sprint(want) {
						m.what = "directory match is not the map of its entries"
					} else if m.what == "" {
						m.ok = true
					}
				}
			} else if ent.File && n.Kind() == datamodel.Kind_Bytes {
				m.raw = false // a raw-leaf file is its own UnixFS view
				b, _ := n.AsBytes()
				m.ok = bytes.Equal(b, bt.bytes[ent.ID])
			}
			matches = append(matches, m)
			return nil
		})
	})
	if wo.Class == "panic" {
		fail("C03", "walk-panic", "the traversal panicked", nil, "panic")
		return
	}
	if cfPathLoads != nil && ploadBudget > 0 && (in.Target == 0 || in.Target == 1) && !in.MatchPath && wo.Class != "panic" {
		// the traversal's own storage requests (up to the match), against the block-level walk of the model
		dag := dumpDAG(bt.st, bt.cids[in.Tree.ID], map[string]*DNode{})
		var order []*DNode
		preorder(dag, &order)
		if len(order) <= 400 {
			index := firstIndex(order)
			reads := bt.st.Reads
			if readsAtMatch >= 0 {
				reads = reads[:readsAtMatch]
			}
			idx := make([]int, len(reads))
			for i, c := range reads {
				if ix, ok := index[c.KeyString()]; ok {
					idx[i] = ix
				} else {
					idx[i] = 999999
				}
			}
			var hs []string
			for _, sg := range splitPath(in.Path) {
				hs = append(hs, fmt.Sprintf("(%s, %s)", coqBytes([]byte(sg)), coqBytes(mhash(sg))))
			}
			ploadBudget--
			cfPathLoads.Add(fmt.Sprintf("mk_pload %s %s %s %s %s", coqBlk(dag), coqBytes([]byte(in.Path)), coqList(hs), coqBool(in.Target == 1), coqNList(idx)), in)
		}
	}
	segs := splitPath(in.Path)
	want := findPath(in.Tree, segs)
	if !in.MatchPath {
		switch {
		case in.Target == 3:
			if len(matches) != 0 {
				fail("C03", "explore-all-matches", "the explore-all target reported a match", 0, len(matches))
			}
			if want != nil && wo.Class == "ok" {
				// every block under the target is loaded, nothing outside the path + target sub-DAG
				allowed := map[string]bool{}
				cur := in.Tree
				for k := range bt.own[cur.ID] {
					allowed[k] = true
				}
				for _, s := range segs {
					cur = findPath(cur, []string{s})
					for k := range bt.own[cur.ID] {
						allowed[k] = true
					}
				}
				var under func(n *PNode)
				under = func(n *PNode) {
					for k := range bt.own[n.ID] {
						allowed[k] = true
					}
					for _, c := range n.Children {
						under(c)
					}
				}
				under(want)
				for _, c := range bt.st.Reads {
					if !allowed[c.KeyString()] {
						fail("C05", "path-extra-block", "a path traversal requested a block that is neither on the path nor under the target", nil, c.String())
						break
					}
				}
			}
		case want == nil:
			if len(matches) != 0 {
				fail("C03", "absent-path-matched", "a path naming no entry matched something", 0, fmt.Sprint(len(matches), " ", matches[0].path))
			}
		default:
			if wo.Class != "ok" {
				fail("C03", "walk-error", "traversal of an existing path failed", "ok", wo.Class)
			} else if len(matches) != 1 {
				fail("C03", "match-count", "the selector does not match exactly the named entity", 1, len(matches))
			} else if matches[0].node != want || matches[0].raw || !matches[0].ok {
				fail("C03", "wrong-match", "the match is not the named entity seen through the UnixFS view", want.Name, matches[0].what)
			}
			if in.Target == 0 && want != nil && wo.Class == "ok" {
				// lazy target: only blocks along the path (C05), in root-to-target order (C20)
				allowed := map[string]bool{}
				cur := in.Tree
				chain := []*PNode{cur}
				for _, s := range segs {
					cur = findPath(cur, []string{s})
					chain = append(chain, cur)
				}
				for i, n := range chain {
					if i == len(chain)-1 {
						allowed[bt.cids[n.ID].KeyString()] = true
					} else {
						for k := range bt.own[n.ID] {
							allowed[k] = true
						}
					}
				}
				pos := -1
				lazyReads := bt.st.Reads
				if readsAtMatch >= 0 {
					lazyReads = lazyReads[:readsAtMatch]
				}
				for _, c := range firstRequests(lazyReads) {
					if !allowed[c.KeyString()] {
						fail("C05", "path-extra-block", "resolving a path requested a block that is not on the path", nil, c.String())
						break
					}
					// order: the owning chain index never decreases
					idx := -1
					for i, n := range chain {
						if bt.own[n.ID][c.KeyString()] {
							idx = i
						}
					}
					if idx < pos {
						fail("C20", "path-order", "a path traversal did not request the blocks in root-to-target order", nil, c.String())
						break
					}
					pos = idx
				}
			}
			if in.Target == 2 && want != nil && wo.Class == "ok" {
				// entity selector, consumed with the exported BytesConsumingMatcher: every block of the matched file / every
				// shard of the matched directory is requested, nothing outside the path and the entity (C06)
				bt.st.ResetLog()
				eo := guard(func() error {
					return prog.WalkMatching(root, sel, func(p traversal.Progress, n datamodel.Node) error {
						return unixfsnode.BytesConsumingMatcher(p, n)
					})
				})
				if eo.Class == "panic" {
					fail("C13", "entity-panic", "the entity traversal with BytesConsumingMatcher panicked", nil, "panic")
				} else if eo.Class == "ok" {
					reqs := map[string]bool{}
					for _, c := range bt.st.Reads {
						reqs[c.KeyString()] = true
					}
					for k := range bt.own[want.ID] {
						if !reqs[k] && k != bt.cids[want.ID].KeyString() {
							fail("C06", "entity-selector-incomplete", "the entity selector with BytesConsumingMatcher did not request every block of the matched entity", nil, k)
							break
						}
					}
					allowed := map[string]bool{}
					cur := in.Tree
					for k := range bt.own[cur.ID] {
						allowed[k] = true
					}
					for _, sg := range segs {
						cur = findPath(cur, []string{sg})
						for k := range bt.own[cur.ID] {
							allowed[k] = true
						}
					}
					for _, c := range bt.st.Reads {
						if !allowed[c.KeyString()] {
							fail("C06", "entity-selector-extra", "the entity selector requested a block that is neither on the path nor part of the matched entity", nil, c.String())
							break
						}
					}
				}
			}
			if in.Target == 2 && want != nil && want.File && wo.Class == "ok" && len(bt.own[want.ID]) > 1 {
				// a block of the matched file that storage does not deliver - whatever the refusal looks like, also the
				// traversal's own "skip this" value: consuming the bytes has to fail (C06)
				var victims []string
				for k := range bt.own[want.ID] {
					if k != bt.cids[want.ID].KeyString() {
						victims = append(victims, k)
					}
				}
				sort.Strings(victims)
				if len(victims) > 2 {
					victims = victims[:2]
				}
				for _, v := range victims {
					for flavor, ferr := range []error{FaultErr{1}, traversal.SkipMe{}, fmt.Errorf("blockstore: %w", io.ErrUnexpectedEOF)} {
						v, ferr := v, ferr
						bt.st.ReadHook = func(c cid.Cid) error {
							if c.KeyString() == v {
								return ferr
							}
							return nil
						}
						eo := guard(func() error {
							return prog.WalkMatching(root, sel, func(p traversal.Progress, n datamodel.Node) error {
								return unixfsnode.BytesConsumingMatcher(p, n)
							})
						})
						bt.st.ReadHook = nil
						if eo.Class == "ok" {
							fail("C06", "entity-selector-partial", "the entity walk with BytesConsumingMatcher succeeded although a block of the matched file was not delivered", "error", fmt.Sprintf("ok (refusal %d: %v)", flavor, ferr))
						} else if eo.Class == "panic" {
							fail("C13", "entity-panic", "the entity traversal with BytesConsumingMatcher panicked", nil, "panic")
						}
					}
				}
			}
			if (in.Target == 1 || in.Target == 2) && want != nil && wo.Class == "ok" && in.Target == 1 {
				// preload target: every block of the target entity is requested, none of its entries'
				reqs := map[string]bool{}
				for _, c := range bt.st.Reads {
					reqs[c.KeyString()] = true
				}
				for k := range bt.own[want.ID] {
					if !reqs[k] && k != bt.cids[want.ID].KeyString() {
						fail("C06", "preload-selector-incomplete", "the preload selector did not request every block of the matched entity", nil, k)
						break
					}
				}
				for _, c := range want.Children {
					if !want.File && reqs[bt.cids[c.ID].KeyString()] && !bt.own[want.ID][bt.cids[c.ID].KeyString()] {
						fail("C06", "preload-selector-entry", "the preload selector requested a block belonging to a directory entry", nil, c.Name)
						break
					}
				}
			}
		}
	} else if len(segs) > 0 {
		// path matching enabled: each node along the path once, in order, then the target
		wantN := 0
		if want != nil {
			wantN = len(segs) + 1
			if in.Target == 3 {
				wantN = len(segs)
			}
		}
		if want != nil && len(matches) != wantN {
			sig := "matchpath"
			if len(matches) == 1 && matches[0].path == "" && matches[0].raw {
				sig = "matchpath-root-only"
			}
			fail("C03", sig, "with path matching enabled the nodes along the path are not each matched once before the target", wantN, fmt.Sprint(len(matches), " match(es)"))
		}
	}
	if cf != nil && wo.Class == "ok" {
		ms := make([]string, len(matches))
		bad := false
		for i, m := range matches {
			if m.node == nil {
				bad = true
				break
			}
			if m.raw {
				ms[i] = fmt.Sprintf("OVRaw %d", m.node.ID)
			} else {
				ms[i] = fmt.Sprintf("OVUnixFS %d", m.node.ID)
			}
		}
		if !bad {
			cf.Add(fmt.Sprintf("mk_pathsel %s %s %d %s %s %s", coqEnt(in.Tree), coqBytes([]byte(in.Path)), in.Target, coqBool(in.MatchPath), coqSel(selNode), coqList(ms)), in)
		}
	}
}

func scnPathSel(rep *Report, rng *Rng, tier string, outdir string) {
	cf := NewCaseFile(rep, outdir, "cases_pathsel", "UV.Corr.PathSel", "mismatches_pathsel", 100)
	cfPathLoads = NewCaseFile(rep, outdir, "cases_pload", "UV.Corr.PathLoads", "mismatches_pload", 40)
	defer func() { cfPathLoads.Flush(); cfPathLoads = nil }()
	ploadBudget = 4000
	rule := "random trees (depth <= 3; multi-block files; plain and sharded directories with fanout 8/16/256; names with spaces, unicode, %XX escapes, '.', '..') x every path of the tree + perturbed paths (extra / leading / trailing slashes, truncated and extended names, percent-encoded variants, suffixes of real names) x 4 targets x matchPath; real traversal.WalkMatching with the registered reifiers; the built selector is read back and compared with the Coq builder, the SelectionMatch visits with the Coq walk; matched files must carry their exact bytes, matched directories their exact entry names; distinct = distinct (tree, path, target, matchPath); non-trivial = path with at least 1 segment"
	for _, p := range []string{"C03", "C05", "C06", "C20"} {
		rep.P(p).Rule = rule
	}
	names := []string{"a", "b.txt", "with space", "ünï", "a%20b", "50%25", "x%41", ".", "..", "sub", "deep", "notes-50.txt", "old-notes-50.txt", "txt", "0A", "FFsub", "0", "07", "2024", "-1"}
	nextID := 0
	var gen func(depth int, name string) *PNode
	gen = func(depth int, name string) *PNode {
		nextID++
		id := nextID
		if depth == 0 || rng.Intn(3) == 0 {
			return &PNode{ID: id, Name: name, File: true, Size: []int{0, 2, 7, 20}[rng.Intn(4)]}
		}
		d := &PNode{ID: id, Name: name, Fanout: []int{0, 0, 8, 16, 256, -1}[rng.Intn(6)]}
		n := 1 + rng.Intn(6)
		if rng.Intn(8) == 0 {
			n = 0 // an empty directory (plain or sharded) is a directory too
		}
		perm := rng.Perm(len(names))
		for i := 0; i < n; i++ {
			d.Children = append(d.Children, gen(depth-1, names[perm[i]]))
		}
		return d
	}
	nTrees := 8
	if tier == "thorough" {
		nTrees = 200
	} else if tier == "search" {
		nTrees = 40
	}
	for t := 0; t < nTrees; t++ {
		nextID = 0
		tree := gen(3, "")
		if tree.File {
			tree = &PNode{ID: 999, Children: []*PNode{tree}}
			tree.Children[0].Name = "only"
		}
		// every path of the tree
		var paths []string
		var collect func(n *PNode, p string)
		collect = func(n *PNode, p string) {
			paths = append(paths, p)
			for _, c := range n.Children {
				collect(c, p+"/"+c.Name)
			}
		}
		collect(tree, "")
		var all []string
		// every proper suffix of the names in (a few) sharded directories: absent names that end like a member and
		// now and then hash into the member's slot
		var suffixes func(n *PNode, p string)
		nsuf := 0
		suffixes = func(n *PNode, p string) {
			for _, c := range n.Children {
				if n.Fanout > 0 && nsuf < 60 {
					for i := 1; i < len(c.Name); i++ {
						all = append(all, p+"/"+c.Name[i:])
						nsuf++
					}
				}
				suffixes(c, p+"/"+c.Name)
			}
		}
		suffixes(tree, "")
		for _, p := range paths {
			all = append(all, p)
			if p != "" && rng.Intn(2) == 0 {
				alts := []string{p + "/", "/" + p, strings.ReplaceAll(p, "/", "//"), p + "x", p[:len(p)-1], p + "/nope", p + "/Links", p + "/Data", p + "/Links/0/Hash", strings.ReplaceAll(p, " ", "%20"), strings.ReplaceAll(p, "a", "%61"), p[1:]}
				all = append(all, alts[rng.Intn(len(alts))])
				// an integer in place of the last name (a list index is not a directory entry)
				{
					segs := splitPath(p)
					all = append(all, strings.Join(append(append([]string{}, segs[:len(segs)-1]...), fmt.Sprint(rng.Intn(3))), "/"))
				}
				// a proper suffix of the last name
				segs := splitPath(p)
				last := segs[len(segs)-1]
				if len(last) > 2 {
					all = append(all, strings.Join(append(append([]string{}, segs[:len(segs)-1]...), last[1:]), "/"))
				}
			}
		}
		for i, p := range all {
			for target := 0; target < 4; target++ {
				if tier != "thorough" && (i+target)%2 == 1 && target > 0 {
					continue
				}
				for _, mp := range []bool{false, true} {
					if mp && (i+target)%3 != 0 {
						continue
					}
					in := PathSelInput{Tree: tree, Path: p, Target: target, MatchPath: mp}
					runPathSelInput(rep, in, cf)
					key, _ := json.Marshal([]interface{}{t, p, target, mp})
					for _, prop := range []string{"C03", "C05", "C06", "C20"} {
						rep.Count(prop, string(key), len(splitPath(p)) >= 1, map[string]interface{}{"path": p, "target": target, "matchpath": mp})
					}
					rep.Dist("C03", fmt.Sprintf("target=%d matchpath=%v", target, mp))
				}
			}
		}
	}
	// empty directories of every kind as the terminus, and as something to walk through
	{
		tree := &PNode{ID: 1, Children: []*PNode{{ID: 2, Name: "none8", Fanout: 8}, {ID: 3, Name: "none256", Fanout: 256}, {ID: 4, Name: "plain", Fanout: 0}, {ID: 5, Name: "raw", Fanout: -1},
			{ID: 6, Name: "f", File: true, Size: 7}, {ID: 7, Name: "sh", Fanout: 16, Children: []*PNode{{ID: 8, Name: "inner", Fanout: 16}}}}}
		for _, p := range []string{"/none8", "/none256", "/plain", "/raw", "/sh/inner", "/none8/x", "/plain/Links", "/raw/0", "/f", ""} {
			for target := 0; target < 4; target++ {
				in := PathSelInput{Tree: tree, Path: p, Target: target}
				runPathSelInput(rep, in, cf)
				key, _ := json.Marshal([]interface{}{"empties", p, target})
				for _, prop := range []string{"C03", "C05", "C06", "C20"} {
					rep.Count(prop, string(key), true, map[string]interface{}{"path": p, "target": target})
				}
				rep.Dist("C03", "empty-directories")
			}
		}
	}
	// absent names whose hash selects the slot of a member they resemble (the member with part of its bucket prefix in
	// front; a proper suffix of the member), found by search: the walk reaches the member's link and only the final name
	// comparison keeps them apart
	for _, f := range []int{8, 16, 256} {
		lg := 0
		for 1<<uint(lg) < f {
			lg++
		}
		pad := len(fmt.Sprintf("%X", f-1))
		slot := func(n string) int { return int(binary.BigEndian.Uint64(mhash(n)) >> uint(64-lg)) }
		found := 0
		for c := 0; c < 60000 && found < 4; c++ {
			m := fmt.Sprintf("chapter-%d.txt", c)
			b := slot(m)
			k := m[1+(c%5):]
			if found%2 == 0 {
				j := 1 + (found/2)%pad
				k = fmt.Sprintf("%0*X", pad, b)[pad-j:] + m
			}
			if slot(k) != b {
				continue
			}
			kids := []*PNode{{ID: 2, Name: m, File: true, Size: 7}}
			for x := 0; len(kids) < 3 && x < 1000; x++ {
				o := fmt.Sprintf("other-%d-%d", c, x)
				if so := slot(o); so != b && (len(kids) == 1 || so != slot(kids[1].Name)) {
					kids = append(kids, &PNode{ID: 2 + len(kids), Name: o, File: true, Size: 2})
				}
			}
			found++
			tree := &PNode{ID: 1, Fanout: f, Children: []*PNode{{ID: 10, Name: "d", Fanout: f, Children: kids}}}
			for _, p := range []string{"/d/" + k, "/d/" + m, "/d/" + k + "x"} {
				for target := 0; target < 3; target++ {
					in := PathSelInput{Tree: tree, Path: p, Target: target}
					runPathSelInput(rep, in, cf)
					key, _ := json.Marshal([]interface{}{"alias", f, c, p, target})
					for _, prop := range []string{"C03", "C05", "C06", "C20"} {
						rep.Count(prop, string(key), true, map[string]interface{}{"path": p, "target": target})
					}
					rep.Dist("C03", "slot-aliasing")
				}
			}
		}
	}
	cf.Flush()
}
