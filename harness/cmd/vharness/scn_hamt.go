package main

// Scenario "hamt": hash-bit helpers (hooks), sharded / plain / auto directory builders, sharded directory
// reader over library- and boxo-written shards (C02 C08 C10 C11 C15 C05 C06 C12 C13 C20).

import (
	"context"
	"encoding/binary"
	"encoding/json"
	"errors"
	"fmt"
	"os"
	"sort"
	"time"

	"github.com/ipfs/boxo/ipld/merkledag"
	boxohamt "github.com/ipfs/boxo/ipld/unixfs/hamt"
	"github.com/ipfs/go-cid"
	format "github.com/ipfs/go-ipld-format"
	"github.com/ipfs/go-unixfsnode"
	"github.com/ipfs/go-unixfsnode/data/builder"
	"github.com/ipfs/go-unixfsnode/hamt"
	dagpb "github.com/ipld/go-codec-dagpb"
	"github.com/ipld/go-ipld-prime"
	"github.com/ipld/go-ipld-prime/datamodel"
	"github.com/ipld/go-ipld-prime/fluent/qp"
	cidlink "github.com/ipld/go-ipld-prime/linking/cid"
	"github.com/ipld/go-ipld-prime/node/basicnode"
	"github.com/multiformats/go-multihash"
	"github.com/spaolacci/murmur3"
)

func init() {
	scenarios["hamt"] = scnHamt
	replayers["hamt"] = func(raw json.RawMessage) []Failure {
		var in HamtInput
		must(json.Unmarshal(raw, &in))
		rep := NewReport("hamt", 0, "replay")
		runHamtInput(rep, in, nil)
		return rep.Failures
	}
}

type HEntry struct {
	Name  string `json:"name"`
	ID    int    `json:"id"`
	V0    bool   `json:"v0,omitempty"`    // CIDv0 target (34-byte CID) instead of CIDv1 raw (36 bytes)
	Ident bool   `json:"ident,omitempty"` // identity-multihash target (the CID carries the bytes; its Tsize counts like any other)
	Tsize int64  `json:"tsize"`
}

type HOp struct {
	Kind string `json:"kind"` // set | remove
	Name string `json:"name"`
	ID   int    `json:"id"`
}

type HamtInput struct {
	Mode    string   `json:"mode"` // hashbits | sharded | auto | ref
	Fanout  int      `json:"fanout,omitempty"`
	Entries []HEntry `json:"entries,omitempty"`
	History []HOp    `json:"history,omitempty"` // applied to a boxo shard (mode ref)
	Probes  []string `json:"probes,omitempty"`  // non-member keys to look up
	Faults  [][2]int `json:"faults,omitempty"`
	Hostile *HShard  `json:"hostile,omitempty"`
	NoModel bool     `json:"nomodel,omitempty"` // too large to evaluate in Coq on every run: oracle only
	// hashbits
	Hash  []byte `json:"hash,omitempty"`
	Off   int    `json:"off,omitempty"`
	Width int    `json:"width,omitempty"`
}

func mhash(name string) []byte {
	h := murmur3.New64()
	h.Write([]byte(name))
	return h.Sum(nil)
}

func entryCid(e HEntry) cid.Cid {
	b := []byte(fmt.Sprintf("entry-target-%d", e.ID))
	h, _ := multihash.Sum(b, multihash.SHA2_256, -1)
	if e.V0 {
		return cid.NewCidV0(h)
	}
	if e.Ident {
		ih, _ := multihash.Sum(b, multihash.IDENTITY, -1)
		return cid.NewCidV1(cid.Raw, ih)
	}
	return cid.NewCidV1(cid.Raw, h)
}

func entryLinks(es []HEntry) []dagpb.PBLink {
	out := make([]dagpb.PBLink, len(es))
	for i, e := range es {
		c := entryCid(e)
		registerExt(c, uint64(e.ID))
		l, err := builder.BuildUnixFSDirectoryEntry(e.Name, e.Tsize, cidlink.Link{Cid: c})
		must(err)
		out[i] = l
	}
	return out
}

func coqHEntries(es []HEntry) string {
	xs := make([]string, len(es))
	for i, e := range es {
		xs[i] = fmt.Sprintf("(%s, %s, %s, %d, %d)", coqBytes([]byte(e.Name)), coqBytes(mhash(e.Name)), coqZ(e.Tsize), e.ID, entryCid(e).ByteLen())
	}
	return coqList(xs)
}

type hamtObs struct {
	lookups []string
	iter    string
	length  string
}

func coarseErr(o Outcome) string {
	switch o.Class {
	case "notfound", "load", "overread":
		return o.CoqErr()
	}
	return "EOther"
}

// readShard exercises a reified sharded directory: lookups (members and probes), iteration, length.
// expected maps name -> target id (the reference's entry set).
func readShard(rep *Report, in HamtInput, st *Store, root cid.Cid, expected map[string]int, probes []string, failAll func(prop, sig, what string, exp, got interface{})) *hamtObs {
	fail := failAll
	if in.Mode == "hostile" {
		// arbitrary blocks are not a map: only panics and non-termination count
		fail = func(prop, sig, what string, exp, got interface{}) {
			if prop == "C13" || sig == "iter-nonterminating" {
				if prop != "C13" {
					prop = "C13"
				}
				failAll(prop, sig, what, exp, got)
			}
		}
	}
	dag := dumpDAG(st, root, map[string]*DNode{})
	var order []*DNode
	preorder(dag, &order)
	index := firstIndex(order)
	loadsOf := func(reads []cid.Cid) []int {
		out := make([]int, 0, len(reads))
		for _, c := range reads {
			if ix, ok := index[c.KeyString()]; ok {
				out = append(out, ix)
			} else {
				out = append(out, 999999)
			}
		}
		return out
	}
	isShard := func(i int) bool { return i > 0 && !order[i].Missing && !order[i].IsRaw }
	for _, f := range in.Faults {
		if f[0] < len(order) && isShard(f[0]) {
			if _, dup := st.Unavailable[order[f[0]].Cid.KeyString()]; !dup {
				st.Unavailable[order[f[0]].Cid.KeyString()] = uint64(f[1])
			}
		}
	}
	faulty := len(st.Unavailable) > 0
	fresh := func() (datamodel.Node, error) {
		n, ls, err := loadRoot(st, root)
		if err != nil {
			return nil, err
		}
		st.ResetLog()
		return unixfsnode.Reify(ipld.LinkContext{Ctx: context.Background()}, n, ls)
	}
	obs := &hamtObs{}
	// ---- storage that fails during a first walk and recovers: whatever the interrupted walk left on the node, the node
	// is afterwards the map of its entries again (length, iteration, lookups)
	if !faulty && in.Mode != "hostile" {
		var kids []int
		for i := range order {
			if isShard(i) {
				kids = append(kids, i)
			}
		}
		for variant := 0; variant < 2 && len(kids) > 0; variant++ {
			n, err := fresh()
			if err != nil {
				break
			}
			st.Unavailable = map[string]uint64{}
			for j, i := range kids {
				if (variant == 0 && j == len(kids)/2) || (variant == 1 && j%2 == 0) {
					st.Unavailable[order[i].Cid.KeyString()] = 1
				}
			}
			var length int64
			pairs, iterErrs := 0, 0
			o := guard(func() error {
				it := n.MapIterator()
				for steps := 0; !it.Done() && steps < 4*len(order)+len(expected)+64; steps++ {
					_, _, _ = it.Next()
				}
				if variant == 1 {
					_ = n.Length()
					for k := range expected {
						_, _ = n.LookupByString(k)
						break
					}
				}
				st.Unavailable = map[string]uint64{} // storage recovers
				length = n.Length()
				it = n.MapIterator()
				for steps := 0; !it.Done() && steps < 4*len(order)+len(expected)+64; steps++ {
					if _, _, err := it.Next(); err != nil {
						iterErrs++
					} else {
						pairs++
					}
				}
				return nil
			})
			st.Unavailable = map[string]uint64{}
			props := []string{"C02", "C15"}
			if in.Mode == "ref" {
				props = append(props, "C08")
			}
			switch {
			case o.Class == "panic":
				fail("C13", "heal-panic", "using a sharded directory node again after a walk interrupted by load errors panicked", "values", "panic")
			case length != int64(len(expected)) || pairs != len(expected) || iterErrs != 0:
				for _, p := range props {
					fail(p, "heal-length", "after a walk interrupted by load errors (storage recovered since) the node does not report / yield its entries", fmt.Sprintf("length %d, %d pairs", len(expected), len(expected)), fmt.Sprintf("length %d, %d pairs, %d errors (variant %d)", length, pairs, iterErrs, variant))
				}
			}
		}
	}
	// path shards of a key, computed independently from the dump
	pathOf := func(key string) (idxs []int, missing bool, kind uint64) {
		hv := binary.BigEndian.Uint64(mhash(key))
		n := dag
		used := 0
		for {
			fan := shardFanout(n)
			if fan == 0 {
				return
			}
			lg := 0
			for 1<<uint(lg) < fan {
				lg++
			}
			if used+lg > 64 {
				return
			}
			bucket := int((hv >> uint(64-used-lg)) & uint64(fan-1))
			used += lg
			pad := len(fmt.Sprintf("%X", fan-1))
			prefix := fmt.Sprintf("%0*X", pad, bucket)
			var next *DNode
			for _, l := range n.Links {
				if l.Name != nil && *l.Name == prefix {
					next = l.Target
				}
			}
			if next == nil {
				return
			}
			idxs = append(idxs, index[next.Cid.KeyString()])
			if k, bad := st.Unavailable[next.Cid.KeyString()]; bad {
				return idxs, true, k
			}
			n = next
		}
	}
	// ---- lookups
	keys := make([]string, 0, len(expected)+len(probes))
	for k := range expected {
		keys = append(keys, k)
	}
	sort.Strings(keys)
	if len(keys) > 40 {
		// sample members of large directories (all are still checked by iteration)
		step := len(keys) / 40
		var s []string
		for i := 0; i < len(keys); i += step {
			s = append(s, keys[i])
		}
		keys = s
	}
	keys = append(keys, probes...)
	for _, k := range keys {
		node, err := fresh()
		if err != nil {
			fail("C02", "reify", "Reify of the root shard failed", nil, err.Error())
			return nil
		}
		id := -1
		o := guard(func() error {
			v, err := node.LookupByString(k)
			if err != nil {
				return err
			}
			id = linkIDExt(v)
			return nil
		})
		loads := loadsOf(st.Reads)
		want, member := expected[k]
		path, missing, kind := pathOf(k)
		switch {
		case o.Class == "panic":
			fail("C13", "lookup-panic", "lookup panicked", "value or error", "panic")
		case missing:
			if o.Class != "load" || o.Kind != kind {
				fail("C12", "lookup-missing-shard", "a lookup crossing an unavailable shard did not return its load error", fmt.Sprint("load ", kind), fmt.Sprint(o.Class, " ", o.Kind))
			}
		case member && (o.Class != "ok" || id != want):
			fail("C02", "member-lookup", "lookup of a member name does not return its link", want, fmt.Sprint(o.Class, " ", id))
		case !member && o.Class != "notfound":
			fail("C02", "nonmember-lookup", "lookup of a non-member name is not reported not-found", "notfound", fmt.Sprint(o.Class, " ", id))
		}
		if o.Class != "panic" && fmt.Sprint(loads) != fmt.Sprint(path) && !(len(loads) == 0 && len(path) == 0) {
			fail("C05", "lookup-loads", "a lookup requested shards other than those on the name's hash path", path, loads)
		}
		// under unavailable shards every entry point reports what LookupByString reports (a fresh node each)
		if faulty && o.Class != "panic" {
			for _, how := range []string{"node-basic", "node-dagpb", "segment"} {
				nf, err := fresh()
				if err != nil {
					break
				}
				idf := -1
				of := guard(func() error {
					var v datamodel.Node
					var err error
					switch how {
					case "node-basic":
						v, err = nf.LookupByNode(basicnode.NewString(k))
					case "node-dagpb":
						sb := dagpb.Type.String.NewBuilder()
						must(sb.AssignString(k))
						v, err = nf.LookupByNode(sb.Build())
					default:
						v, err = nf.LookupBySegment(datamodel.PathSegmentOfString(k))
					}
					if err != nil {
						return err
					}
					idf = linkIDExt(v)
					return nil
				})
				if of != o || idf != id {
					prop := "C15"
					if missing {
						prop = "C12"
					}
					fail(prop, "entrypoints-faulty", "with unavailable shards a lookup entry point reports something else than LookupByString", fmt.Sprint(o, id), fmt.Sprint(how, " ", of, idf))
				}
			}
		}
		// entry points agree (fault-free only, each on a fresh node)
		if !faulty && o.Class != "panic" {
			n2, _ := fresh()
			id2, id3, id4 := -1, -1, -1
			r2 := guard(func() error {
				v, err := n2.LookupByNode(basicnode.NewString(k))
				if err != nil {
					return err
				}
				id2 = linkIDExt(v)
				return nil
			})
			id5 := -1
			r5 := guard(func() error {
				sb := dagpb.Type.String.NewBuilder()
				must(sb.AssignString(k))
				v, err := n2.LookupByNode(sb.Build())
				if err != nil {
					return err
				}
				id5 = linkIDExt(v)
				return nil
			})
			if r5 != o || id5 != id {
				fail("C15", "entrypoints", "LookupByNode with a dag-pb string key disagrees with LookupByString", fmt.Sprint(o, id), fmt.Sprint(r5, id5))
			}
			r3 := guard(func() error {
				v, err := n2.LookupBySegment(datamodel.PathSegmentOfString(k))
				if err != nil {
					return err
				}
				id3 = linkIDExt(v)
				return nil
			})
			r4 := guard(func() error {
				sb := dagpb.Type.String.NewBuilder()
				must(sb.AssignString(k))
				v := n2.(hamt.UnixFSHAMTShard).Lookup(sb.Build().(dagpb.String))
				if v != nil {
					id4 = int(extID(v.Link().(cidlink.Link).Cid))
				}
				return nil
			})
			if r2 != o || r3 != o || id2 != id || id3 != id || r4.Class != "ok" || id4 != id {
				fail("C15", "entrypoints", "lookup entry points of a sharded directory disagree", fmt.Sprint(o, id), fmt.Sprint(r2, id2, r3, id3, r4, id4))
				if member && (r2.Class != "ok" || id2 != want || r3.Class != "ok" || id3 != want || r5.Class != "ok" || id5 != want || id4 != want) {
					// the map of the entries is what every entry point reads (a path walk resolves names by segment)
					fail("C02", "member-lookup-entrypoint", "a member name is not resolved to its link by one of the lookup entry points", want, fmt.Sprint(r2, id2, r5, id5, r3, id3, r4, id4))
					if in.Mode == "ref" {
						fail("C08", "ref-member-lookup-entrypoint", "an entry of a reference-written sharded directory is not resolved by one of the lookup entry points", want, fmt.Sprint(r2, id2, r5, id5, r3, id3, r4, id4))
					}
				}
			}
		}
		res := "(Err " + coarseErr(o) + ")"
		if o.Class == "ok" {
			res = fmt.Sprintf("(Ok %d)", id)
		} else if o.Class == "panic" {
			res = "Panic"
		}
		obs.lookups = append(obs.lookups, fmt.Sprintf("(%s, %s, %s, %s)", coqBytes([]byte(k)), coqBytes(mhash(k)), res, coqNList(loads)))
	}
	// ---- the same node asked again and again (no per-node state may leak between lookups)
	if !faulty {
		shared, err := fresh()
		if err == nil {
			for _, k := range keys {
				for rep := 0; rep < 3; rep++ {
					id := -1
					o := guard(func() error {
						v, err := shared.LookupByString(k)
						if err != nil {
							return err
						}
						id = linkIDExt(v)
						return nil
					})
					want, member := expected[k]
					if o.Class == "panic" {
						fail("C13", "lookup-panic", "lookup panicked", "value or error", "panic")
					} else if member && (o.Class != "ok" || id != want) {
						fail("C02", "repeated-lookup", "a repeated lookup of a member name on the same node does not return its link", want, fmt.Sprint(o.Class, " ", id, " (attempt ", rep+1, ")"))
					} else if !member && o.Class != "notfound" {
						fail("C02", "repeated-lookup-absent", "a repeated lookup of a non-member name on the same node is not reported not-found", "notfound", fmt.Sprint(o.Class, " (attempt ", rep+1, ")"))
					}
				}
			}
		}
	}
	// ---- hostile blocks: the same node object used again (whatever the first access cached must not disarm a check)
	if in.Mode == "hostile" {
		if sharedH, err := fresh(); err == nil {
			oh := guard(func() error {
				for rep := 0; rep < 3; rep++ {
					it := sharedH.MapIterator()
					for steps := 0; !it.Done() && steps < 4*len(order)+64; steps++ {
						_, _, _ = it.Next()
					}
					_ = sharedH.Length()
					for _, k := range probes {
						_, _ = sharedH.LookupByString(k)
					}
				}
				return nil
			})
			if oh.Class == "panic" {
				fail("C13", "repeated-access-panic", "iterating / counting / looking up a hostile shard again on the same node panicked", "values or errors", "panic")
			}
		}
	}
	// ---- iteration
	node, err := fresh()
	if err != nil {
		fail("C02", "reify", "Reify of the root shard failed", nil, err.Error())
		return nil
	}
	yielded := map[string][]int{}
	var evs []string
	nErrLoad := 0
	var allLoads []cid.Cid
	o := guard(func() error {
		it := node.MapIterator()
		steps := 0
		for !it.Done() {
			steps++
			if steps > 4*len(order)+len(expected)+16 {
				return fmt.Errorf("iteration does not terminate")
			}
			st.Reads = nil
			k, v, err := it.Next()
			loads := loadsOf(st.Reads)
			allLoads = append(allLoads, st.Reads...)
			if err != nil {
				oc := classify(err)
				if oc.Class == "load" {
					nErrLoad++
				}
				evs = append(evs, fmt.Sprintf("(%s, OErr %s)", coqNList(loads), coarseErr(oc)))
				continue
			}
			ks, _ := k.AsString()
			id := linkIDExt(v)
			yielded[ks] = append(yielded[ks], id)
			evs = append(evs, fmt.Sprintf("(%s, OYield %s %d)", coqNList(loads), coqBytes([]byte(ks)), id))
		}
		return nil
	})
	if o.Class == "panic" {
		fail("C13", "iter-panic", "iteration panicked", "pairs or errors", "panic")
	} else if o.Class != "ok" {
		fail("C12", "iter-nonterminating", "iteration over a sharded directory does not terminate", nil, o.Class)
	} else {
		obs.iter = "(Some " + coqList(evs) + ")"
		// reachable entries: those not under an unavailable shard
		reach := map[string]int{}
		nMissingMet := 0
		var walk func(n *DNode, rootPad int)
		walk = func(n *DNode, rootPad int) {
			fan := shardFanout(n)
			pad := len(fmt.Sprintf("%X", fan-1))
			for _, l := range n.Links {
				if l.Name == nil {
					continue
				}
				if len(*l.Name) == pad {
					if _, bad := st.Unavailable[l.Cid.KeyString()]; bad {
						nMissingMet++
						continue
					}
					walk(l.Target, rootPad)
				} else if len(*l.Name) > pad {
					reach[(*l.Name)[rootPad:]] = int(extID(l.Cid))
				}
			}
		}
		if fan := shardFanout(dag); fan > 0 && in.Mode != "hostile" {
			walk(dag, len(fmt.Sprintf("%X", fan-1)))
		}
		for k, id := range reach {
			ids := yielded[k]
			if len(ids) != 1 || ids[0] != id {
				prop, sig := "C02", "iteration-entries"
				if faulty {
					prop, sig = "C12", "iteration-reachable"
				}
				fail(prop, sig, "iteration does not yield every reachable entry exactly once with its un-prefixed name and link", fmt.Sprint(k, " -> ", id), ids)
				break
			}
		}
		for k := range yielded {
			if _, ok := reach[k]; !ok {
				fail("C02", "iteration-foreign", "iteration yields a key that is not an entry", nil, k)
				break
			}
		}
		if faulty && nErrLoad != nMissingMet {
			fail("C12", "iteration-errors", "iteration does not report exactly one error per unavailable shard it meets", nMissingMet, nErrLoad)
		}
		if !faulty {
			// C20: shards first requested in depth-first link order
			var want []int
			for i := range order {
				if isShard(i) {
					want = append(want, i)
				}
			}
			got := loadsOf(firstRequests(allLoads))
			if fmt.Sprint(got) != fmt.Sprint(want) && !(len(got) == 0 && len(want) == 0) {
				fail("C20", "iter-order", "iteration does not request the shards in depth-first link order", want, got)
			}
			for _, c := range allLoads {
				if ix, ok := index[c.KeyString()]; !ok || !isShard(ix) {
					fail("C06", "iter-loads-entry", "iteration requested a block that is not a shard of the directory", nil, c.String())
					break
				}
			}
		}
	}
	// ---- polling an exhausted iterator must not disturb Length (no per-node state may be derived from call counts)
	if !faulty && in.Mode != "hostile" {
		if n3, err := fresh(); err == nil {
			got := []int64{}
			o := guard(func() error {
				it := n3.MapIterator()
				for !it.Done() {
					if _, _, err := it.Next(); err != nil {
						return err
					}
				}
				_, _, _ = it.Next() // one call past the end: an error, nothing else
				got = append(got, n3.Length())
				if sh, ok := n3.(hamt.UnixFSHAMTShard); ok {
					nit := sh.Iterator()
					for guardN := 0; guardN < 4*len(order)+len(expected)+16; guardN++ {
						k, _ := nit.Next()
						if k == nil {
							break
						}
					}
					got = append(got, n3.Length())
				}
				return nil
			})
			if o.Class == "panic" {
				fail("C13", "overread-panic", "polling an exhausted directory iterator panicked", "error", "panic")
			} else {
				for _, l := range got {
					if l != int64(len(expected)) {
						fail("C02", "length-after-iteration", "Length read after an iterator was polled past its end is not the entry count", len(expected), got)
						fail("C15", "length-after-iteration", "Length read after an iterator was polled past its end differs from the number of pairs iteration yields", len(expected), got)
						break
					}
				}
			}
		}
	}
	// ---- length (also what the preloading reification runs)
	node, err = fresh()
	if err == nil {
		var n int64
		o := guard(func() error {
			n = node.Length()
			return nil
		})
		loads := loadsOf(st.Reads)
		if o.Class == "panic" {
			fail("C13", "length-panic", "Length panicked", "a number", "panic")
		} else {
			if in.Mode == "hostile" {
				obs.length = "None" // Length() folds every error into 0: nothing to compare
			} else if !faulty {
				if n != int64(len(expected)) {
					fail("C02", "length", "Length is not the entry count", len(expected), n)
				}
				var want []int
				for i := range order {
					if isShard(i) {
						want = append(want, i)
					}
				}
				if fmt.Sprint(loads) != fmt.Sprint(want) && !(len(loads) == 0 && len(want) == 0) {
					fail("C20", "length-order", "Length does not request the shards in depth-first link order", want, loads)
				}
				obs.length = fmt.Sprintf("(Some (Ok %d, %s))", n, coqNList(loads))
			} else {
				// Length() swallows errors into 0; the model's result is only compared when it succeeded
				obs.length = "None"
			}
		}
		// preload reifier: all shards or an error
		rootNode, ls, err := loadRoot(st, root)
		if err == nil {
			st.ResetLog()
			var pn datamodel.Node
			po := guard(func() error {
				var err error
				pn, err = ls.KnownReifiers["unixfs-preload"](ipld.LinkContext{Ctx: context.Background()}, rootNode, ls)
				return err
			})
			ploads := loadsOf(firstRequests(st.Reads))
			nShards := 0
			anyMissing := false
			for i := range order {
				if isShard(i) {
					nShards++
					if _, bad := st.Unavailable[order[i].Cid.KeyString()]; bad {
						anyMissing = true
					}
				}
			}
			switch {
			case po.Class == "panic":
				fail("C13", "preload-panic", "preload reification panicked", "node or error", "panic")
			case anyMissing && po.Class == "ok":
				fail("C06", "preload-partial", "preload reification of a directory with an unavailable shard returned a node", "error", "ok")
				fail("C12", "preload-partial", "preload reification needed a shard that cannot be loaded and did not report the load error", "load error", "ok")
			case !anyMissing && po.Class != "ok":
				fail("C06", "preload-error", "preload reification failed although every shard is available", "ok", po.Class)
			case !anyMissing:
				if len(ploads) != nShards {
					fail("C06", "preload-incomplete", "preload reification did not request every shard of the directory", nShards, len(ploads))
				}
				var wantP []int
				for i := range order {
					if isShard(i) {
						wantP = append(wantP, i)
					}
				}
				if in.Mode != "hostile" && fmt.Sprint(ploads) != fmt.Sprint(wantP) && len(ploads) == nShards {
					fail("C20", "preload-order", "preload reification does not request the shards in depth-first link order", wantP, ploads)
				}
				for _, ix := range ploads {
					if !isShard(ix) {
						fail("C06", "preload-loads-entry", "preload reification requested a block belonging to an entry", nil, ix)
						break
					}
				}
				_ = pn
			}
		}
	}
	if obs.length == "" {
		obs.length = "None"
	}
	if obs.iter == "" {
		obs.iter = "None"
	}
	return obs
}

func shardFanout(n *DNode) int {
	if n == nil || n.Missing || n.IsRaw || !n.HasData {
		return 0
	}
	nb := dagpb.Type.PBNode.NewBuilder()
	_ = nb
	ud, err := decodeUD(n.Data)
	if err != nil || !ud.FieldFanout().Exists() {
		return 0
	}
	return int(ud.FieldFanout().Must().Int())
}

func linkIDExt(n datamodel.Node) int {
	l, err := n.AsLink()
	if err != nil {
		return -2
	}
	return int(extID(l.(cidlink.Link).Cid))
}

func runHamtInput(rep *Report, in HamtInput, cf *CaseFile) {
	fail := func(prop, sig, what string, exp, got interface{}) {
		rep.Fail(prop, "hamt/"+sig, what, in, exp, got)
	}
	switch in.Mode {
	case "sharded", "auto":
		links := entryLinks(in.Entries)
		st := NewStore()
		var lnk datamodel.Link
		var size uint64
		var err error
		o := guard(func() error {
			if in.Mode == "sharded" {
				lnk, size, err = builder.BuildUnixFSShardedDirectory(in.Fanout, multihash.MURMUR3X64_64, links, st.LinkSystem())
			} else {
				lnk, size, err = builder.BuildUnixFSDirectory(links, st.LinkSystem())
			}
			return err
		})
		src := fmt.Sprintf("(HSharded %d %s)", in.Fanout, coqHEntries(in.Entries))
		if in.Mode == "auto" {
			src = fmt.Sprintf("(HAuto %s)", coqHEntries(in.Entries))
		}
		if o.Class != "ok" {
			// too deep (colliding names) is the only legitimate error
			if cf != nil && !in.NoModel {
				cf.Add(fmt.Sprintf("mk_hamt %s None [] [] None None", src), in)
			}
			distinct := map[string]bool{}
			for _, e := range in.Entries {
				distinct[e.Name] = true
			}
			// ... for names the hash can tell apart: two names equal in every full slice of the 64 bits cannot be
			// held by a HAMT of that fanout at all (the reference gives up on them as well)
			fanB := in.Fanout
			if in.Mode == "auto" {
				fanB = 256
			}
			lgB := 0
			for 1<<uint(lgB) < fanB {
				lgB++
			}
			usable := uint(64 / lgB * lgB)
			seenSlice := map[uint64]bool{}
			separable := true
			for n := range distinct {
				k := binary.BigEndian.Uint64(mhash(n)) >> (64 - usable)
				if seenSlice[k] {
					separable = false
				}
				seenSlice[k] = true
			}
			if len(distinct) == len(in.Entries) && separable {
				fail("C02", "build-error", "building a directory of distinctly named entries failed", "ok", fmt.Sprint(o.Class, ": ", err))
				if in.Mode == "sharded" && len(in.Entries) > 0 {
					// C08: the reference HAMT holds the same entries without complaint
					refOK := guard(func() error {
						sh, err := boxohamt.NewShard(memDag{NewStore()}, in.Fanout)
						if err != nil {
							return err
						}
						for _, e := range in.Entries {
							if err := sh.SetLink(context.Background(), e.Name, &format.Link{Name: e.Name, Size: uint64(e.Tsize), Cid: entryCid(e)}); err != nil {
								return err
							}
						}
						_, err = sh.Node()
						return err
					})
					if refOK.Class == "ok" {
						fail("C08", "build-error-reference-builds", "the sharded builder fails on an entry set the reference HAMT builds", "a root link", o.Class)
					}
				}
			}
			return
		}
		root := lnk.(cidlink.Link).Cid
		dag := dumpDAG(st, root, map[string]*DNode{})
		expected := map[string]int{}
		for _, e := range in.Entries {
			expected[e.Name] = e.ID
		}
		// C08: the reference HAMT holding the same entries
		isSharded := shardFanout(dag) > 0
		if isSharded && len(in.Entries) > 0 { // the property speaks of non-empty entry sets
			fan := shardFanout(dag)
			rst := NewStore()
			ds := memDag{rst}
			var nd format.Node
			rerr := func() error {
				sh, err := boxohamt.NewShard(ds, fan)
				if err != nil {
					return err
				}
				sh.SetCidBuilder(cid.V1Builder{Codec: cid.DagProtobuf, MhType: multihash.SHA2_256})
				for _, e := range in.Entries {
					if err := sh.SetLink(context.Background(), e.Name, &format.Link{Name: e.Name, Size: uint64(e.Tsize), Cid: entryCid(e)}); err != nil {
						return err
					}
				}
				nd, err = sh.Node()
				return err
			}()
			if rerr != nil {
				fail("C08", "reference-fails", "the sharded builder returned a root for an entry set the reference HAMT cannot hold", rerr.Error(), root.String())
			} else {
				rsize, _ := nd.Size()
				if !nd.Cid().Equals(root) {
					fail("C08", "cid", "root link differs from the reference HAMT holding the same entries", nd.Cid().String(), root.String())
				}
				if rsize != size {
					fail("C08", "size", "cumulative size differs from the reference HAMT's", rsize, size)
				}
			}
		}
		// C11: returned size from the tree walk
		var walk func(n *DNode) uint64
		walk = func(n *DNode) uint64 {
			tot := uint64(len(st.Blocks[n.Cid.KeyString()]))
			for _, l := range n.Links {
				var c uint64
				if l.Target.Missing {
					if l.Tsize != nil {
						c = uint64(*l.Tsize)
					}
				} else {
					c = walk(l.Target)
					if l.Tsize == nil || uint64(*l.Tsize) != c {
						fail("C11", "shard-tsize", "a shard link's Tsize is not the cumulative size of the child shard", c, l.Tsize)
					}
				}
				tot += c
			}
			return tot
		}
		if w := walk(dag); w != size {
			fail("C11", "dir-size", "returned size is not the root block length plus the sizes its links refer to", w, size)
		}
		// C10: other orders and repeated runs
		for rnd := 0; rnd < 3; rnd++ {
			perm := make([]HEntry, len(in.Entries))
			copy(perm, in.Entries)
			for i := len(perm) - 1; i > 0; i-- {
				j := (i*7 + rnd*13 + 3) % (i + 1)
				perm[i], perm[j] = perm[j], perm[i]
			}
			st2 := NewStore()
			var l2 datamodel.Link
			var s2 uint64
			var err2 error
			if in.Mode == "sharded" {
				l2, s2, err2 = builder.BuildUnixFSShardedDirectory(in.Fanout, multihash.MURMUR3X64_64, entryLinks(perm), st2.LinkSystem())
			} else {
				l2, s2, err2 = builder.BuildUnixFSDirectory(entryLinks(perm), st2.LinkSystem())
			}
			if err2 != nil || !l2.(cidlink.Link).Cid.Equals(root) || s2 != size {
				fail("C10", "dir-order", "link or size depends on the order of the entries or on the run", fmt.Sprint(root, size), fmt.Sprint(l2, s2, err2))
				break
			}
		}
		var obs *hamtObs
		if isSharded {
			obs = readShard(rep, in, st, root, expected, in.Probes, fail)
		} else {
			// plain directory: map semantics through Reify
			n, ls, err := loadRoot(st, root)
			must(err)
			rn, err := unixfsnode.Reify(ipld.LinkContext{}, n, ls)
			if err != nil {
				fail("C02", "reify", "Reify of a plain directory failed", nil, err.Error())
			} else {
				if rn.Length() != int64(len(expected)) {
					fail("C02", "length", "Length is not the entry count", len(expected), rn.Length())
				}
				for k, id := range expected {
					v, err := rn.LookupByString(k)
					if err != nil || linkIDExt(v) != id {
						fail("C02", "member-lookup", "lookup of a member name does not return its link", id, fmt.Sprint(err))
						break
					}
				}
				for _, k := range in.Probes {
					if _, is := expected[k]; is {
						continue
					}
					if _, err := rn.LookupByString(k); err == nil || !isNoSuchField(err) {
						fail("C02", "nonmember-lookup", "lookup of a non-member name is not reported not-found", "notfound", fmt.Sprint(err))
						break
					}
				}
			}
		}
		if cf != nil && !in.NoModel {
			fl := make([]string, len(in.Faults))
			for i, f := range in.Faults {
				fl[i] = fmt.Sprintf("(%d, %d)", f[0], f[1])
			}
			lk, it, ln := "[]", "None", "None"
			if obs != nil {
				lk, it, ln = coqList(obs.lookups), obs.iter, obs.length
			}
			cf.Add(fmt.Sprintf("mk_hamt %s (Some (%d, %d)) %s %s %s %s", src, dag.FP(), size, coqList(fl), lk, it, ln), in)
		}
	case "hostile":
		st := NewStore()
		root := buildHostile(st, in.Hostile)
		dag := dumpDAG(st, root, map[string]*DNode{})
		n, ls, err := loadRoot(st, root)
		must(err)
		var rerr error
		var rnode datamodel.Node
		o := guard(func() error {
			rnode, rerr = unixfsnode.Reify(ipld.LinkContext{Ctx: context.Background()}, n, ls)
			return nil
		})
		if o.Class == "panic" {
			fail("C13", "reify-panic", "Reify of a hostile shard panicked", "node or error", "panic")
			return
		}
		if _, isShard := rnode.(hamt.UnixFSHAMTShard); rerr != nil || !isShard {
			// not a sharded directory (other kinds are exercised by the reify and files scenarios)
			if cf != nil {
				cf.Add(fmt.Sprintf("mk_hamt (HDump %s) None [] [] None None", coqBlk(dag)), in)
			}
			return
		}
		obs := readShard(rep, in, st, root, map[string]int{}, in.Probes, fail)
		if cf != nil && obs != nil {
			cf.Add(fmt.Sprintf("mk_hamt (HDump %s) None [] %s %s %s", coqBlk(dag), coqList(obs.lookups), obs.iter, obs.length), in)
		}
	case "ref":
		// a boxo shard driven through an insert/remove history, then read by the library
		st := NewStore()
		ds := memDag{st}
		sh, err := boxohamt.NewShard(ds, in.Fanout)
		must(err)
		sh.SetCidBuilder(cid.V1Builder{Codec: cid.DagProtobuf, MhType: multihash.SHA2_256})
		expected := map[string]int{}
		var hops []string
		for _, op := range in.History {
			e := HEntry{Name: op.Name, ID: op.ID, Tsize: int64(10 + op.ID)}
			registerExt(entryCid(e), uint64(e.ID))
			switch op.Kind {
			case "set":
				must(sh.SetLink(context.Background(), op.Name, &format.Link{Name: op.Name, Size: uint64(e.Tsize), Cid: entryCid(e)}))
				expected[op.Name] = op.ID
			case "remove":
				if _, ok := expected[op.Name]; ok {
					must(sh.Remove(context.Background(), op.Name))
					delete(expected, op.Name)
				} else if rerr := sh.Remove(context.Background(), op.Name); !errors.Is(rerr, os.ErrNotExist) {
					// the model of the reference (Hamt/RefModel.v) takes a Remove of an absent name as ErrNotExist, shard unchanged
					fail("C08", "harness", "reference Remove of an absent name did not report ErrNotExist (harness)", "ErrNotExist", fmt.Sprint(rerr))
					return
				}
			}
			hops = append(hops, fmt.Sprintf("(%v, (%s, %s, %s, %d, %d))", op.Kind == "set", coqBytes([]byte(e.Name)), coqBytes(mhash(e.Name)), coqZ(e.Tsize), e.ID, entryCid(e).ByteLen()))
		}
		nd, err := sh.Node()
		must(err)
		root := nd.Cid()
		// the reference's own entry set
		links, err := sh.EnumLinks(context.Background())
		must(err)
		if len(links) != len(expected) {
			fail("C08", "harness", "reference EnumLinks disagrees with the history (harness)", len(expected), len(links))
			return
		}
		dag := dumpDAG(st, root, map[string]*DNode{})
		obs := readShard(rep, in, st, root, expected, in.Probes, func(prop, sig, what string, exp, got interface{}) {
			if prop == "C02" {
				prop = "C08" // reading reference-written shards
			}
			fail(prop, "ref-"+sig, what, exp, got)
		})
		if cf != nil && obs != nil {
			fl := make([]string, len(in.Faults))
			for i, f := range in.Faults {
				fl[i] = fmt.Sprintf("(%d, %d)", f[0], f[1])
			}
			// the history itself goes to the model of the reference's Set / Remove, which has to arrive at these very blocks
			cf.Add(fmt.Sprintf("mk_hamt (HRef %d %s %s) None %s %s %s %s", in.Fanout, coqList(hops), coqBlk(dag), coqList(fl), coqList(obs.lookups), obs.iter, obs.length), in)
		}
	}
}

var _ = merkledag.NodeWithData

func scnHamt(rep *Report, rng *Rng, tier string, outdir string) {
	cfH := NewCaseFile(rep, outdir, "cases_hashbits", "UV.Corr.Hamt", "mismatches_hashbits", 1500)
	cf := NewCaseFile(rep, outdir, "cases_hamt", "UV.Corr.Hamt", "mismatches_hamt", 12)
	cfHost := NewCaseFile(rep, outdir, "cases_hostile", "UV.Corr.Hamt", "mismatches_hamt", 40)
	if tier == "search" {
		cf, cfHost = nil, nil
	}
	props := []string{"C02", "C08", "C10", "C11", "C15", "C05", "C06", "C12", "C13", "C20"}
	rule := "entry sets (0..300 names: plain, unicode, spaces, hex-looking prefixes, names equal to a prefix+name of another, murmur3-colliding groups sharing up to 40 leading hash bits) x fanouts 8..1024 x {sharded, auto, boxo-written after insert/remove histories}; each DAG compared with the Coq builder model (fingerprint+size) and boxo (CID+size), read through Reify (lookups of members and perturbed non-members via 4 entry points, full iteration, Length, preload) with every reply and shard request compared with the Coq reader model; missing-shard sets; distinct = distinct (mode, fanout, entry set, faults); non-trivial = at least 2 entries"
	for _, p := range props {
		rep.P(p).Rule = rule
	}
	// ---- hash bits: exhaustive offsets x widths over crafted and random hashes
	hashes := [][]byte{{0, 0, 0, 0, 0, 0, 0, 0}, {255, 255, 255, 255, 255, 255, 255, 255}, {0x80, 0, 0, 0, 0, 0, 0, 1}, {0x01, 0x23, 0x45, 0x67, 0x89, 0xAB, 0xCD, 0xEF},
		{0xAA, 0x55, 0xAA, 0x55, 0xAA, 0x55, 0xAA, 0x55}, {0, 0, 0, 0, 0, 0, 0xFF, 0xFF}, {0xFF, 0xFF, 0, 0, 0, 0, 0, 0}}
	nh := 10
	if tier == "thorough" {
		nh = 200
	}
	for i := 0; i < nh; i++ {
		hashes = append(hashes, rng.Bytes(8))
	}
	rep.P("C02").Exhaustive = false
	for hi, h := range hashes {
		for off := 0; off <= 64; off++ {
			for w := 1; w <= 11; w++ {
				if hi >= 7 && tier != "thorough" && (off+w)%3 != hi%3 {
					continue
				}
				v, c2, err := hamt.VerifNext(h, off, w)
				next := fmt.Sprintf("(Ok (%d, %d))", v, c2)
				if err != nil {
					next = "(Err EOther)"
				}
				sv, err2 := builder.VerifSlice(h, off, w)
				sl := fmt.Sprintf("(Ok %d)", sv)
				if err2 != nil {
					sl = "(Err EOther)"
				}
				// direct oracle: both equal the arithmetic slice of the 64-bit value
				if off+w <= 64 {
					hv := binary.BigEndian.Uint64(h)
					want := int((hv >> uint(64-off-w)) & (1<<uint(w) - 1))
					in := HamtInput{Mode: "hashbits", Hash: h, Off: off, Width: w}
					if err != nil || v != want || c2 != off+w {
						rep.Fail("C02", "hamt/hashbits-next", "hashBits.Next does not return the next bits of the hash", in, want, fmt.Sprint(v, c2, err))
					}
					if err2 != nil || sv != want {
						rep.Fail("C02", "hamt/hashbits-slice", "hashBits.Slice does not return the addressed bits of the hash", in, want, fmt.Sprint(sv, err2))
					}
				} else if err == nil || err2 == nil {
					in := HamtInput{Mode: "hashbits", Hash: h, Off: off, Width: w}
					rep.Fail("C13", "hamt/hashbits-overrun", "reading past the end of the hash is not an error", in, "error", fmt.Sprint(v, sv))
				}
				cfH.Add(fmt.Sprintf("mk_hb %s %d %d %s %s", coqBytes(h), off, w, next, sl), nil)
				rep.Count("C02", fmt.Sprint("hb", h, off, w), true, nil)
			}
		}
	}
	cfH.Flush()
	rep.Dist("C02", fmt.Sprintf("hashbits-cases=%d", len(hashes)))

	// ---- name pools
	base := []string{"a", "b", "file with spaces", "ünïcödé", "日本語", "00", "FF", "1F", "0A", "3FF", "deadbeef", "A", "aa", "a.txt", "b.txt", "index.html", " ", "\x00\x01", "caf\xe9.txt", "\xff\xfe", "\xe6\x97", "ok\xc3", "docs/readme", "a/", "/", "Links", "Data"}
	names := func(n int) []string {
		seen := map[string]bool{}
		var out []string
		for len(out) < n {
			var s string
			switch rng.Intn(5) {
			case 0:
				s = base[rng.Intn(len(base))]
			case 4:
				// names that read as integers: a path segment of that text is still a name, not an index
				s = rng.Pick([]string{"0", "1", "18", "007", "-1", "2024", "+5", "1e3", "0x10"})
				if rng.Intn(2) == 0 {
					s = fmt.Sprint(rng.Intn(400))
				}
			case 1:
				s = fmt.Sprintf("entry-%d", rng.Intn(5000))
			case 2:
				s = fmt.Sprintf("%02X%s", rng.Intn(256), base[rng.Intn(len(base))]) // looks like prefix + another name
			default:
				s = fmt.Sprintf("f%d.%s", rng.Intn(100000), rng.Pick([]string{"txt", "go", "md"}))
			}
			if !seen[s] {
				seen[s] = true
				out = append(out, s)
			}
		}
		return out
	}
	// names whose murmur3 shares `bits` leading bits (birthday search)
	colliding := func(bits uint, tries int) []string {
		groups := map[uint64][]string{}
		var best []string
		for i := 0; i < tries; i++ {
			s := fmt.Sprintf("c%d-%d", bits, i)
			k := binary.BigEndian.Uint64(mhash(s)) >> (64 - bits)
			groups[k] = append(groups[k], s)
			if len(groups[k]) > len(best) {
				best = groups[k]
				if len(best) >= 3 {
					break
				}
			}
		}
		return best
	}
	mkEntries := func(ns []string) []HEntry {
		es := make([]HEntry, len(ns))
		for i, n := range ns {
			es[i] = HEntry{Name: n, ID: i, Tsize: int64(rng.Intn(100000)), V0: rng.Intn(5) == 0}
			if !es[i].V0 && rng.Intn(6) == 0 {
				es[i].Ident = true
				es[i].Tsize = int64(1 + rng.Intn(40))
			}
		}
		return es
	}
	probesFor := func(ns []string) []string {
		ps := []string{"", "zz-not-there", "entry-", "\xff", "Links", "Data", "Hash", "x/y"}
		for i := 0; i < 6 && i < len(ns); i++ {
			n := ns[rng.Intn(len(ns))]
			ps = append(ps, n+"x", "0"+n, "00"+n, "FF"+n)
			if len(n) > 1 {
				ps = append(ps, n[1:], n[:len(n)-1])
			}
		}
		return ps
	}
	add := func(in HamtInput) {
		runHamtInput(rep, in, cf)
		key, _ := json.Marshal(in)
		for _, p := range props {
			rep.Count(p, string(key), len(in.Entries)+len(in.History) >= 2, shortInput(in))
			rep.Dist(p, fmt.Sprintf("mode=%s fanout=%d", in.Mode, in.Fanout))
			rep.Dist(p, fmt.Sprintf("entries<=%d", bucketOf(len(in.Entries)+len(in.History))))
		}
	}
	fanouts := []int{8, 16, 32, 64, 128, 256, 512, 1024}
	nSets := 6
	if tier == "thorough" {
		nSets = 150
	} else if tier == "search" {
		nSets = 25
	}
	for _, f := range fanouts {
		for i := 0; i < nSets; i++ {
			n := []int{0, 1, 2, 3, 9, 40, 17, 120, 300}[(i+f)%9]
			if tier != "thorough" && n > 120 {
				n = 60
			}
			ns := names(n)
			add(HamtInput{Mode: "sharded", Fanout: f, Entries: mkEntries(ns), Probes: probesFor(ns)})
		}
	}
	// colliding names force deep shards
	for _, c := range []struct {
		bits  uint
		tries int
	}{{12, 4000}, {20, 60000}, {28, 700000}, {36, 3000000}} {
		if tier != "thorough" && c.bits > 28 {
			continue
		}
		grp := colliding(c.bits, c.tries)
		if len(grp) < 2 {
			continue
		}
		ns := append(append([]string{}, grp...), names(5)...)
		for _, f := range []int{8, 32, 256, 1024} {
			add(HamtInput{Mode: "sharded", Fanout: f, Entries: mkEntries(ns), Probes: probesFor(ns)})
		}
	}
	// names placed by their digest (murmur3 inverted over one 16-byte block): entries that part only at the last
	// hash level the fanout leaves room for, one level earlier, only in the bits beyond the last full slice (no
	// room: too deep for builder and reference alike), and two names with all 64 bits equal
	for fi, f := range fanouts {
		lg := 0
		for 1<<uint(lg) < f {
			lg++
		}
		levels := 64 / lg
		d := rng.Next()
		nm := func(digest uint64, k int) string {
			return string(nameWithDigest(digest, uint64(1000*fi+k)*0x9e3779b97f4a7c15+1))
		}
		n0 := nm(d, 0)
		nLast := nm(d^(1<<uint(64-levels*lg)), 1)     // parts from n0 in the lowest bit of the last full slice
		nPrev := nm(d^(1<<uint(64-(levels-1)*lg)), 2) // one level earlier
		nTwin := nm(d, 3)                             // the same 64 bits
		plain := names(3)
		sets := [][]string{{n0, nLast}, {nLast, n0, nPrev}, append([]string{n0, nLast, nPrev}, plain...), {n0, nTwin}, append([]string{nTwin, n0}, plain...)}
		if 64-levels*lg > 0 {
			nBeyond := nm(d^1, 4) // parts only where no full slice is left
			sets = append(sets, []string{n0, nBeyond}, []string{nBeyond, nLast, n0})
		}
		for _, ns := range sets {
			add(HamtInput{Mode: "sharded", Fanout: f, Entries: mkEntries(ns), Probes: []string{nm(d, 5), nm(d^(1<<uint(64-levels*lg)), 6), "zz"}})
			rev := append([]string{}, ns...)
			for i, j := 0, len(rev)-1; i < j; i, j = i+1, j-1 {
				rev[i], rev[j] = rev[j], rev[i]
			}
			add(HamtInput{Mode: "sharded", Fanout: f, Entries: mkEntries(rev), Probes: []string{"zz"}})
		}
	}
	// the same two families found by search instead of by chance: a member M alone in its root bucket b, and a non-member
	// K that (a) is M with the last j characters of b's hex prefix in front, or (b) is a proper suffix of M, AND whose own
	// hash selects bucket b - the lookup of K reaches M's link, only the final name comparison tells them apart
	for _, f := range []int{8, 16, 256} {
		lg := 0
		for 1<<uint(lg) < f {
			lg++
		}
		pad := len(fmt.Sprintf("%X", f-1))
		slot := func(n string) int { return int(binary.BigEndian.Uint64(mhash(n)) >> uint(64-lg)) }
		found := 0
		for c := 0; c < 60000 && found < 6; c++ {
			m := fmt.Sprintf("report-%d.txt", c)
			b := slot(m)
			var k string
			if found%2 == 0 {
				j := 1 + (found/2)%pad
				k = fmt.Sprintf("%0*X", pad, b)[pad-j:] + m
			} else {
				k = m[1+(c%5):]
			}
			if slot(k) != b {
				continue
			}
			// two more members in other buckets keep M at the root level
			ns := []string{m}
			for x := 0; len(ns) < 3 && x < 1000; x++ {
				o := fmt.Sprintf("other-%d-%d", c, x)
				if so := slot(o); so != b && (len(ns) == 1 || so != slot(ns[1])) {
					ns = append(ns, o)
				}
			}
			found++
			add(HamtInput{Mode: "sharded", Fanout: f, Entries: mkEntries(ns), Probes: []string{k, k + "x", m + "x"}})
		}
	}
	// keys that are a member name with (part of) a bucket prefix in front, or a proper suffix of a member name:
	// non-members that a careless prefix comparison would accept when their hash walks to the member's slot
	for _, f := range []int{8, 16, 256} {
		ns := names(40)
		var ps []string
		member := map[string]bool{}
		for _, n := range ns {
			member[n] = true
		}
		for _, n := range ns {
			for _, d := range "0123456789ABCDEF" {
				ps = append(ps, string(d)+n)
			}
			if f == 256 {
				for _, d := range "0123456789ABCDEF" {
					ps = append(ps, "0"+string(d)+n, string(d)+"0"+n)
				}
			}
			for i := 1; i < len(n) && i < 12; i++ {
				ps = append(ps, n[i:])
			}
		}
		var probes []string
		seen := map[string]bool{}
		for _, k := range ps {
			if !member[k] && !seen[k] {
				seen[k] = true
				probes = append(probes, k)
			}
		}
		add(HamtInput{Mode: "sharded", Fanout: f, Entries: mkEntries(ns), Probes: probes, NoModel: true})
	}
	// several entries pointing at the same target (identical files in one folder): every link still counts in the sizes
	{
		dup := func(ns []string) []HEntry {
			es := make([]HEntry, len(ns))
			for i, n := range ns {
				id := i % 3
				es[i] = HEntry{Name: n, ID: id, Tsize: int64(1000 + 17*id)}
			}
			return es
		}
		for _, n := range []int{2, 3, 9, 40} {
			ns := names(n)
			add(HamtInput{Mode: "auto", Entries: dup(ns), Probes: probesFor(ns)[:4]})
			add(HamtInput{Mode: "sharded", Fanout: 16, Entries: dup(ns), Probes: probesFor(ns)[:4]})
		}
	}
	// same name twice: the builder must fail cleanly ("too deep"), not mis-build
	add(HamtInput{Mode: "sharded", Fanout: 256, Entries: []HEntry{{Name: "dup", ID: 1, Tsize: 1}, {Name: "dup", ID: 2, Tsize: 2}}})
	// missing shards: every single shard of a few directories, and subsets
	for _, f := range []int{8, 16, 256} {
		ns := names(60)
		es := mkEntries(ns)
		for s := 1; s < 40; s += 1 + rng.Intn(3) {
			add(HamtInput{Mode: "sharded", Fanout: f, Entries: es, Probes: probesFor(ns)[:6], Faults: [][2]int{{s, 1 + s%7}, {s + 7 + rng.Intn(9), 2 + s%5}}})
		}
	}
	// auto-selecting builder on both sides of the threshold
	for _, n := range []int{0, 3, 40} {
		ns := names(n)
		add(HamtInput{Mode: "auto", Entries: mkEntries(ns), Probes: probesFor(ns)})
	}
	// just below the auto-shard threshold with links of two lengths (CIDv0 34 bytes, CIDv1 36 bytes):
	// the choice plain / sharded must not depend on which entry comes first
	{
		var es []HEntry
		for i := 0; i < 5600; i++ { // 5600 * (11 + 35 on average) = 257600 < 262144
			es = append(es, HEntry{Name: fmt.Sprintf("file-%06d", i), ID: i % 50, Tsize: int64(i), V0: i%2 == 0})
		}
		add(HamtInput{Mode: "auto", Entries: es, Probes: []string{"nope"}, NoModel: true})
	}
	if tier == "thorough" {
		for _, n := range []int{5600, 5800} { // estimate = sum(len(name)+36) around 262144
			var ns []string
			for i := 0; i < n; i++ {
				ns = append(ns, fmt.Sprintf("file-%07d", i))
			}
			add(HamtInput{Mode: "auto", Entries: mkEntries(ns), Probes: []string{"nope"}})
		}
	}
	// hostile shards
	nHost := 150
	if tier == "thorough" {
		nHost = 5000
	} else if tier == "search" {
		nHost = 1500
	}
	for i := 0; i < nHost; i++ {
		in := HamtInput{Mode: "hostile", Hostile: genHostile(rng, 3), Probes: []string{"a", "name", "", "x", "zz", "entry-1"}}
		runHamtInput(rep, in, cfHost)
		key, _ := json.Marshal(in)
		rep.Count("C13", string(key), len(in.Hostile.Links) > 0, in)
		rep.Dist("C13", "hostile-shard")
	}
	// otherwise well-formed shards with degenerate children of the SAME fanout: a child shard without any link (empty bitfield),
	// a child holding a single value, a chain of single-child shards — first, in the middle and last among ordinary value links.
	// (The random generator above rarely makes a child that is hostile in nothing but its emptiness.)
	for _, fan := range []uint64{8, 16, 256} {
		for pos := 0; pos < 3; pos++ {
			for kind := 0; kind < 3; kind++ {
				u := func(v uint64) *uint64 { return &v }
				pad := len(fmt.Sprintf("%X", fan-1))
				mk := func(links []HLink, buckets []int) *HShard {
					bits := make([]byte, fan/8)
					for _, b := range buckets {
						bits[len(bits)-1-b/8] |= 1 << (uint(b) % 8)
					}
					return &HShard{Type: 5, Fanout: u(fan), HashType: u(0x22), HasBits: true, Bits: bits, Links: links}
				}
				nm := func(b int, suffix string) *string { s := fmt.Sprintf("%0*X", pad, b) + suffix; return &s }
				var child *HShard
				switch kind {
				case 0:
					child = mk(nil, nil)
				case 1:
					child = mk([]HLink{{Name: nm(2, "only")}}, []int{2})
				case 2:
					child = mk([]HLink{{Name: nm(1, ""), Child: mk([]HLink{{Name: nm(3, ""), Child: mk(nil, nil)}}, []int{3})}}, []int{1})
				}
				var links []HLink
				var buckets []int
				for b := 0; b < 3; b++ {
					if b == pos {
						links = append(links, HLink{Name: nm(b+1, ""), Child: child})
					} else {
						links = append(links, HLink{Name: nm(b+1, fmt.Sprintf("v%d", b))})
					}
					buckets = append(buckets, b+1)
				}
				in := HamtInput{Mode: "hostile", Hostile: mk(links, buckets), Probes: []string{"v0", "v1", "v2", "only", "", "x"}}
				runHamtInput(rep, in, cfHost)
				rep.Count("C13", fmt.Sprint("degenerate-child ", fan, pos, kind), true, in)
				rep.Dist("C13", "hostile-degenerate-child")
			}
		}
	}
	// every pair of differing parent/child fanouts, the child holding value links whose names are as long as the
	// child's prefix plus 0..3 characters (shorter than the parent's prefix for wide parents): whatever the first
	// access leaves behind on the node, the later ones must not panic on it
	for _, fp := range []uint64{8, 16, 256, 512, 1024} {
		for _, fc := range []uint64{8, 16, 256, 512, 1024} {
			if fp == fc {
				continue
			}
			u := func(v uint64) *uint64 { return &v }
			padP, padC := len(fmt.Sprintf("%X", fp-1)), len(fmt.Sprintf("%X", fc-1))
			child := &HShard{Type: 5, Fanout: u(fc), HashType: u(0x22), HasBits: true, Bits: make([]byte, fc/8)}
			for extra := 0; extra <= 3; extra++ {
				nm := fmt.Sprintf("%0*X", padC, extra) + "abc"[:extra]
				child.Bits[len(child.Bits)-1] |= 1 << uint(extra)
				child.Links = append(child.Links, HLink{Name: &nm})
			}
			rootBits := make([]byte, fp/8)
			rootBits[len(rootBits)-1] = 1
			pn := fmt.Sprintf("%0*X", padP, 0)
			in := HamtInput{Mode: "hostile", Hostile: &HShard{Type: 5, Fanout: u(fp), HashType: u(0x22), HasBits: true, Bits: rootBits,
				Links: []HLink{{Name: &pn, Child: child}}}, Probes: []string{"a", "", "ab", "abc", "x"}}
			runHamtInput(rep, in, cfHost)
			key, _ := json.Marshal(in)
			rep.Count("C13", string(key), true, in)
			rep.Dist("C13", "hostile-fanout-mismatch")
		}
	}
	// a narrow DAG of shards whose levels each link twice to the same child, ending in an empty shard: 41 small
	// blocks whose unfolding has 2^40 leaves.  Length() (and the preloading reification built on it) memoises the
	// count per child block and must answer at once; lookups are bounded by the hash.  (Iteration is not run here:
	// it legitimately walks the unfolded DAG.)
	for _, fanD := range []uint64{8, 256} {
		st := NewStore()
		u := func(v uint64) *uint64 { return &v }
		pad := len(fmt.Sprintf("%X", fanD-1))
		bits := make([]byte, fanD/8)
		cur := buildHostile(st, &HShard{Type: 5, Fanout: u(fanD), HashType: u(0x22), Bits: bits, HasBits: true})
		bits2 := make([]byte, fanD/8)
		bits2[len(bits2)-1] = 0x03
		for lvl := 0; lvl < 40; lvl++ {
			c := cur
			n0, n1 := fmt.Sprintf("%0*X", pad, 0), fmt.Sprintf("%0*X", pad, 1)
			cur = buildHostile(st, &HShard{Type: 5, Fanout: u(fanD), HashType: u(0x22), Bits: bits2, HasBits: true,
				Links: []HLink{{Name: &n0, Built: &c}, {Name: &n1, Built: &c}}})
		}
		in := map[string]interface{}{"mode": "hostile-diamond", "fanout": fanD, "levels": 40}
		done := make(chan string, 1)
		go func() {
			defer func() {
				if r := recover(); r != nil {
					done <- "panic"
				}
			}()
			n, ls, err := loadRoot(st, cur)
			if err != nil {
				done <- "load: " + err.Error()
				return
			}
			nd, err := unixfsnode.Reify(ipld.LinkContext{Ctx: context.Background()}, n, ls)
			if err != nil {
				done <- "ok" // refusing the DAG is fine
				return
			}
			_ = nd.Length()
			_ = nd.Length()
			for _, k := range []string{"a", "name", "zz"} {
				_, _ = nd.LookupByString(k)
			}
			if _, err := ls.KnownReifiers["unixfs-preload"](ipld.LinkContext{Ctx: context.Background()}, n, ls); err != nil {
				_ = err
			}
			done <- "ok"
		}()
		select {
		case r := <-done:
			if r == "panic" {
				rep.Fail("C13", "hamt/diamond-panic", "Length / lookup / preload on a DAG with shared child shards panicked", in, "value or error", "panic")
			}
		case <-time.After(20 * time.Second):
			rep.Fail("C13", "hamt/diamond-unbounded", "Length / lookup / preload on 41 blocks (levels linking twice to the same child, empty leaf) did not finish in 20 s: the count of a shared child is recomputed per path", in, "finishes (one count per block)", "still running")
		}
		rep.Count("C13", fmt.Sprint("diamond-", fanD), true, in)
		rep.Dist("C13", "hostile-diamond")
	}
	// reference-written shards after insert/remove histories
	nHist := 10
	if tier == "thorough" {
		nHist = 300
	} else if tier == "search" {
		nHist = 40
	}
	for i := 0; i < nHist+nHist; i++ {
		f := fanouts[rng.Intn(len(fanouts))]
		pool := names(10 + rng.Intn(40))
		nops := 20 + rng.Intn(120)
		rmOdds := 3
		if i >= nHist {
			// deep tries that shrink again: the smallest fanouts, more names, every second operation a Remove, so that
			// forks, prunings and collapses of sub-shards left with one value all occur (compared block by block with Hamt/RefModel.v)
			f = []int{8, 8, 16}[rng.Intn(3)]
			pool = names(40 + rng.Intn(60))
			nops = 80 + rng.Intn(160)
			rmOdds = 2
		}
		var hist []HOp
		for j := 0; j < nops; j++ {
			nm := pool[rng.Intn(len(pool))]
			if rng.Intn(rmOdds) == 0 {
				hist = append(hist, HOp{Kind: "remove", Name: nm})
			} else {
				hist = append(hist, HOp{Kind: "set", Name: nm, ID: rng.Intn(60)})
			}
		}
		in := HamtInput{Mode: "ref", Fanout: f, History: hist, Probes: probesFor(pool)[:8]}
		if i%4 == 3 {
			in.Faults = [][2]int{{1 + rng.Intn(6), 1 + (i/4)%7}}
		}
		add(in)
	}
	if cf != nil {
		cf.Flush()
		cfHost.Flush()
	}
}

func bucketOf(n int) int {
	for _, b := range []int{0, 1, 3, 10, 50, 150, 1000} {
		if n <= b {
			return b
		}
	}
	return 100000
}

func shortInput(in HamtInput) interface{} {
	s := in
	if len(s.Entries) > 6 {
		s.Entries = s.Entries[:6]
	}
	if len(s.History) > 8 {
		s.History = s.History[:8]
	}
	if len(s.Probes) > 4 {
		s.Probes = s.Probes[:4]
	}
	return s
}

// ---- hostile shards: valid dag-pb whose UnixFS fields are adversarial ----
type HLink struct {
	Name    *string  `json:"name"`
	Child   *HShard  `json:"child,omitempty"` // nil: an entry target
	Raw     bool     `json:"raw,omitempty"`   // the target is a raw block
	Missing bool     `json:"missing,omitempty"`
	Built   *cid.Cid `json:"-"` // an already stored block (for DAGs with shared children)
}
type HShard struct {
	Type     int64   `json:"type"`
	Fanout   *uint64 `json:"fanout"`
	HashType *uint64 `json:"hashtype"`
	Bits     []byte  `json:"bits"`
	HasBits  bool    `json:"hasbits"`
	Garbage  bool    `json:"garbage,omitempty"` // undecodable Data
	NoData   bool    `json:"nodata,omitempty"`
	Links    []HLink `json:"links"`
}

func buildHostile(st *Store, h *HShard) cid.Cid {
	n, err := qp.BuildMap(dagpb.Type.PBNode, -1, func(ma datamodel.MapAssembler) {
		qp.MapEntry(ma, "Links", qp.List(int64(len(h.Links)), func(la datamodel.ListAssembler) {
			for i, l := range h.Links {
				l := l
				var c cid.Cid
				switch {
				case l.Built != nil:
					c = *l.Built
				case l.Child != nil:
					c = buildHostile(st, l.Child)
				case l.Raw:
					c = st.PutRaw([]byte(fmt.Sprintf("raw-%d", i)))
				default:
					e := HEntry{ID: 100 + i}
					c = entryCid(e)
					registerExt(c, uint64(e.ID))
				}
				if l.Missing {
					delete(st.Blocks, c.KeyString())
					registerExt(c, uint64(200+i))
				}
				qp.ListEntry(la, qp.Map(-1, func(ma datamodel.MapAssembler) {
					qp.MapEntry(ma, "Hash", qp.Link(cidlink.Link{Cid: c}))
					if l.Name != nil {
						qp.MapEntry(ma, "Name", qp.String(*l.Name))
					}
					qp.MapEntry(ma, "Tsize", qp.Int(int64(10+i)))
				}))
			}
		}))
		switch {
		case h.NoData:
		case h.Garbage:
			qp.MapEntry(ma, "Data", qp.Bytes([]byte{0xff, 0x01}))
		default:
			qp.MapEntry(ma, "Data", qp.Bytes(ufsData(h.Type, h.Bits, h.HasBits, nil, nil, h.HashType, h.Fanout)))
		}
	})
	must(err)
	c, err := st.PutPB(n, false)
	must(err)
	return c
}

func genHostile(rng *Rng, depth int) *HShard {
	u := func(v uint64) *uint64 { return &v }
	fan := []uint64{8, 8, 16, 16, 256, 512, 1024}[rng.Intn(7)]
	h := &HShard{Type: 5, Fanout: u(fan), HashType: u(0x22), HasBits: true}
	nbytes := int(fan / 8)
	h.Bits = rng.Bytes(nbytes)
	switch rng.Intn(14) {
	case 0:
		h.Bits = rng.Bytes(nbytes + 1 + rng.Intn(3)) // too long
		if rng.Intn(2) == 0 {
			// too long, but only by leading zero bytes (a big.Int-style writer would never emit them)
			h.Bits = append(make([]byte, 1+rng.Intn(3)), rng.Bytes(nbytes)...)
		}
	case 1:
		h.Bits = rng.Bytes(rng.Intn(nbytes + 1)) // short
	case 2:
		h.Fanout = u([]uint64{0, 1, 4, 12, 24, 2048, 1 << 63, 1<<64 - 1}[rng.Intn(8)])
	case 3:
		h.HashType = u(0x12)
	case 4:
		h.HashType = nil
	case 5:
		h.HasBits = false
	case 6:
		h.Type = int64(rng.Intn(5))
	case 7:
		h.Garbage = true
	case 8:
		h.NoData = true
	case 9:
		for i := range h.Bits {
			h.Bits[i] = 0xff
		}
	}
	pad := len(fmt.Sprintf("%X", fan-1))
	nl := rng.Intn(7)
	for i := 0; i < nl; i++ {
		var l HLink
		prefix := fmt.Sprintf("%0*X", pad, rng.Intn(int(fan)))
		switch rng.Intn(9) {
		case 0: // absent name
		case 1:
			s := prefix[:rng.Intn(pad)] // shorter than the prefix
			l.Name = &s
		case 2, 3:
			if depth > 0 {
				l.Child = genHostile(rng, depth-1)
				if rng.Intn(3) == 0 && *l.Child.Fanout == fan {
					// a child with a different (smaller or larger) fanout
					l.Child.Fanout = u([]uint64{8, 16, 256, 1024}[rng.Intn(4)])
					l.Child.Bits = rng.Bytes(int(*l.Child.Fanout / 8))
				}
			}
			l.Name = &prefix
		case 4:
			l.Name = &prefix
			l.Raw = true // a "child shard" that is a raw block
		case 5:
			l.Name = &prefix
			l.Missing = true
		default:
			s := prefix + rng.Pick([]string{"a", "name", "", "x"})
			l.Name = &s
		}
		h.Links = append(h.Links, l)
	}
	return h
}
