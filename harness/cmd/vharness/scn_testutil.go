package main

// Scenario "testutil": the exported fixture generators describe the DAG they stored (C19).

import (
	"bytes"
	"context"
	"encoding/json"
	"fmt"
	"io"
	"sort"
	"strings"
	"testing"
	"time"

	"github.com/ipfs/go-cid"
	"github.com/ipfs/go-unixfsnode"
	"github.com/ipfs/go-unixfsnode/testutil"
	dagpb "github.com/ipld/go-codec-dagpb"
	"github.com/ipld/go-ipld-prime"
	"github.com/ipld/go-ipld-prime/datamodel"
	cidlink "github.com/ipld/go-ipld-prime/linking/cid"
	"github.com/ipld/go-ipld-prime/node/basicnode"
)

func init() {
	scenarios["testutil"] = scnTestutil
	replayers["testutil"] = func(raw json.RawMessage) []Failure {
		var in TUInput
		must(json.Unmarshal(raw, &in))
		rep := NewReport("testutil", 0, "replay")
		runTUInput(rep, in, nil)
		return rep.Failures
	}
}

type TUInput struct {
	TapeLimit int    `json:"tape_limit,omitempty"` // bytes the random source delivers before EOF (gen file-short)
	Gen       string `json:"gen"`                  // file | dir | dir-named | dir-custom | gendir | gendirfrom | build | wrap
	Seed      uint64 `json:"seed"`
	Size      int    `json:"size"`
	Bitwidth  int    `json:"bitwidth,omitempty"`
	Sharded   bool   `json:"sharded,omitempty"`
	Dirname   string `json:"dirname,omitempty"`
	WrapPath  string `json:"wrappath,omitempty"`
	Exclusive bool   `json:"exclusive,omitempty"`
	Count     int    `json:"count,omitempty"` // children the custom generator hands out (gen dir-wide)
}

// deterministic random source
type rngReader struct{ r *Rng }

func (r rngReader) Read(p []byte) (int, error) {
	for i := range p {
		p[i] = byte(r.r.Next() >> 24)
	}
	return len(p), nil
}

type tuNode struct {
	Name     string
	Cid      cid.Cid
	IsFile   bool
	Content  []byte
	Children []*tuNode
}

// walkStored reads the stored DAG back through Reify, independently of testutil.ToDirEntry
func walkStored(st *Store, c cid.Cid, depth int) (*tuNode, error) {
	if depth > 40 {
		return nil, fmt.Errorf("too deep")
	}
	n, ls, err := loadRoot(st, c)
	if err != nil {
		return nil, err
	}
	if n.Kind() == datamodel.Kind_Bytes {
		b, _ := n.AsBytes()
		return &tuNode{Cid: c, IsFile: true, Content: b}, nil
	}
	rn, err := unixfsnode.Reify(ipld.LinkContext{Ctx: context.Background()}, n, ls)
	if err != nil {
		return nil, err
	}
	if rn.Kind() == datamodel.Kind_Bytes {
		b, err := rn.AsBytes()
		if err != nil {
			return nil, err
		}
		return &tuNode{Cid: c, IsFile: true, Content: b}, nil
	}
	out := &tuNode{Cid: c}
	it := rn.MapIterator()
	for !it.Done() {
		k, v, err := it.Next()
		if err != nil {
			return nil, err
		}
		ks, _ := k.AsString()
		l, err := v.AsLink()
		if err != nil {
			return nil, err
		}
		ch, err := walkStored(st, l.(cidlink.Link).Cid, depth+1)
		if err != nil {
			return nil, err
		}
		ch.Name = ks
		out.Children = append(out.Children, ch)
	}
	return out, nil
}

func lastSeg(p string) string { return p[strings.LastIndex(p, "/")+1:] }

// compareDesc checks the description against the stored DAG; pathDiscipline: every entry's path is its parent's path + "/" + name
func compareDesc(de testutil.DirEntry, nd *tuNode, pathDiscipline bool, depth int, fail func(sig, what string, exp, got interface{})) bool {
	if depth > 40 {
		fail("cyclic-description", "the description does not end", nil, de.Path)
		return false
	}
	if !de.Root.Equals(nd.Cid) {
		fail("root-mismatch", "an entry's root link differs from the stored DAG", nd.Cid.String(), de.Root.String())
		return false
	}
	if nd.IsFile {
		if len(de.Children) != 0 {
			fail("file-with-children", "a file entry is described with children", 0, len(de.Children))
			return false
		}
		if !bytes.Equal(de.Content, nd.Content) {
			fail("content-mismatch", "a file entry's content differs from what reads back", len(nd.Content), len(de.Content))
			return false
		}
		return true
	}
	names := map[string]bool{}
	byName := map[string]testutil.DirEntry{}
	for _, ch := range de.Children {
		nm := lastSeg(ch.Path)
		if nm == "" {
			fail("empty-name", "an entry has an empty name", "non-empty", ch.Path)
			return false
		}
		if names[nm] {
			fail("duplicate-name", "sibling names are not unique", nil, nm)
			return false
		}
		names[nm] = true
		byName[nm] = ch
		if pathDiscipline && ch.Path != de.Path+"/"+nm {
			fail("path-discipline", "an entry's path is not its parent's path plus its name", de.Path+"/"+nm, ch.Path)
			return false
		}
	}
	if len(nd.Children) != len(de.Children) {
		fail("children-count", "a directory is described with a different number of entries than it stores", len(nd.Children), len(de.Children))
		return false
	}
	for _, sch := range nd.Children {
		dch, ok := byName[sch.Name]
		if !ok {
			fail("child-not-described", "a stored entry is not described", sch.Name, nil)
			return false
		}
		if !compareDesc(dch, sch, pathDiscipline, depth+1, fail) {
			return false
		}
	}
	return true
}

type tFail struct{ msg string }

func runTUInput(rep *Report, in TUInput, cf *CaseFile) {
	fail := func(sig, what string, exp, got interface{}) {
		rep.Fail("C19", "testutil/"+in.Gen+"/"+sig, what, in, exp, got)
	}
	st := NewStore()
	ls := st.LinkSystem()
	rr := rngReader{NewRng(in.Seed, "tape")}
	var de testutil.DirEntry
	var err error
	pathDiscipline := false
	done := make(chan Outcome, 1)
	go func() {
		done <- guard(func() error {
			switch in.Gen {
			case "file":
				de, err = testutil.UnixFSFile(*ls, in.Size, testutil.WithRandReader(rr), testutil.WithChunker("size-256"))
			case "file-short":
				// a random source that runs dry before the requested size: the description is of what was stored
				de, err = testutil.UnixFSFile(*ls, in.Size, testutil.WithRandReader(io.LimitReader(rr, int64(in.TapeLimit))), testutil.WithChunker("size-256"))
			case "dir":
				pathDiscipline = true
				de, err = testutil.UnixFSDirectory(*ls, in.Size, testutil.WithRandReader(rr), testutil.WithShardBitwidth(in.Bitwidth), testutil.WithChunker("size-1024"))
			case "dir-named":
				pathDiscipline = true
				de, err = testutil.UnixFSDirectory(*ls, in.Size, testutil.WithRandReader(rr), testutil.WithDirname(in.Dirname), testutil.WithShardBitwidth(in.Bitwidth))
			case "dir-custom":
				pathDiscipline = true
				n := 0
				de, err = testutil.UnixFSDirectory(*ls, in.Size, testutil.WithRandReader(rr), testutil.WithDirname(in.Dirname), testutil.WithShardBitwidth(in.Bitwidth),
					testutil.WithChildGenerator(func(name string) (*testutil.DirEntry, error) {
						n++
						if n > 5 {
							return nil, nil
						}
						f, err := testutil.UnixFSFile(*ls, 100+n, testutil.WithRandReader(rr))
						if err != nil {
							return nil, err
						}
						f.Path = name
						return &f, nil
					}))
			case "dir-wide":
				// ONE directory with hundreds of direct children (a custom child generator that keeps going): most of the
				// name generator's word list gets used up, so almost every draw is a name already taken
				pathDiscipline = true
				n := 0
				de, err = testutil.UnixFSDirectory(*ls, in.Size, testutil.WithRandReader(rr), testutil.WithDirname(in.Dirname), testutil.WithShardBitwidth(in.Bitwidth),
					testutil.WithChildGenerator(func(name string) (*testutil.DirEntry, error) {
						n++
						if n > in.Count {
							return nil, nil
						}
						f, err := testutil.UnixFSFile(*ls, 1+n%3, testutil.WithRandReader(rr))
						if err != nil {
							return nil, err
						}
						f.Path = name
						return &f, nil
					}))
			case "gendir":
				pathDiscipline = true
				t := new(testing.T)
				de = testutil.GenerateDirectory(t, ls, rr, in.Size, in.Sharded)
			case "gendirfrom":
				pathDiscipline = true
				t := new(testing.T)
				de = testutil.GenerateDirectoryFrom(t, ls, rr, in.Size, in.Dirname, in.Sharded)
			case "build":
				t := new(testing.T)
				var kids []testutil.DirEntry
				for i := 0; i < 1+in.Size%7; i++ {
					f := testutil.GenerateFile(t, ls, rr, 50+i)
					f.Path = fmt.Sprintf("sub/dir/f%d.bin", i)
					kids = append(kids, f)
				}
				de = testutil.BuildDirectory(t, ls, kids, in.Sharded)
			case "wrap":
				t := new(testing.T)
				content := testutil.GenerateFile(t, ls, rr, 1+in.Size%300)
				if in.Sharded {
					content = testutil.GenerateDirectory(t, ls, rr, 2048, false)
				}
				de = testutil.WrapContent(t, rr, ls, content, in.WrapPath, in.Exclusive)
			}
			return err
		})
	}()
	var o Outcome
	select {
	case o = <-done:
	case <-time.After(20 * time.Second):
		// liveness of the generators is not part of the property; report nothing
		rep.Notes = append(rep.Notes, fmt.Sprintf("generator did not return within 20s: %+v", in))
		return
	}
	if o.Class != "ok" {
		fail("generator-"+o.Class, "the generator failed", "a description", o.Class)
		return
	}
	nd, werr := walkStored(st, de.Root, 0)
	if werr != nil {
		fail("readback-error", "the stored DAG cannot be read back from the returned root", nil, werr.Error())
		return
	}
	ok := compareDesc(de, nd, pathDiscipline, 0, fail)
	// the library's own read-back (a failing require on a bare testing.T panics: that is the failure signal)
	if ok && pathDiscipline {
		res := make(chan string, 1)
		go func() {
			defer func() {
				if r := recover(); r != nil {
					res <- "CompareDirEntries(description, ToDirEntry(root)) failed"
				}
			}()
			t := new(testing.T)
			ls2 := *ls
			ls2.NodeReifier = unixfsnode.Reify
			rb := testutil.ToDirEntryFrom(t, ls2, de.Root, de.Path, true)
			testutil.CompareDirEntries(t, de, rb)
			if t.Failed() {
				res <- "CompareDirEntries(description, ToDirEntry(root)) failed"
			} else {
				res <- ""
			}
		}()
		if msg := <-res; msg != "" {
			fail("todirentry", "the description differs from testutil.ToDirEntry of the returned root", nil, msg)
		}
	}
	// Coq case: every directory level as packDirectory stored it
	if cf != nil && ok {
		var emit func(d testutil.DirEntry, n *tuNode)
		emitted := 0
		emit = func(d testutil.DirEntry, n *tuNode) {
			if n.IsFile || emitted > 6 {
				return
			}
			b := st.Blocks[n.Cid.KeyString()]
			_ = b
			dag := dumpDAG(st, n.Cid, map[string]*DNode{})
			if shardFanout(dag) == 0 && len(d.Children) <= 40 {
				var es []string
				kids := append([]testutil.DirEntry{}, d.Children...)
				sort.Slice(kids, func(i, j int) bool { return kids[i].Path < kids[j].Path })
				idOf := map[string]int{} // equal children (byte-identical files) share a CID, hence one opaque id
				for i, ch := range kids {
					id, seen := idOf[ch.Root.KeyString()]
					if !seen {
						id = i
						idOf[ch.Root.KeyString()] = id
						registerExt(ch.Root, uint64(id))
					}
					es = append(es, fmt.Sprintf("(%s, %s, %d, %d)", coqBytes([]byte(ch.Path)), coqZ(int64(ch.TSize)), id, ch.Root.ByteLen()))
				}
				// fingerprint with children as opaque targets
				f := fpPlainDir(dag)
				cf.Add(fmt.Sprintf("mk_pack %s %d %d", coqList(es), f, d.TSize), in)
				emitted++
			}
			byName := map[string]testutil.DirEntry{}
			for _, ch := range d.Children {
				byName[lastSeg(ch.Path)] = ch
			}
			for _, sch := range n.Children {
				emit(byName[sch.Name], sch)
			}
		}
		emit(de, nd)
	}
}

// fingerprint of a directory block with every link target treated as opaque (id = position in the sorted child list)
func fpPlainDir(n *DNode) uint64 {
	f := fpState{fpInit}
	f.word(2)
	if n.HasData {
		f.word(1)
		f.bytes(n.Data)
	} else {
		f.word(0)
	}
	f.word(uint64(len(n.Links)))
	for _, l := range n.Links {
		if l.Name != nil {
			f.word(1)
			f.bytes([]byte(*l.Name))
		} else {
			f.word(0)
		}
		if l.Tsize != nil {
			f.word(1)
			f.word(uint64(*l.Tsize))
		} else {
			f.word(0)
		}
		g := fpState{fpInit}
		g.word(3)
		g.word(extID(l.Cid))
		g.word(uint64(l.Cid.ByteLen()))
		f.word(g.h)
	}
	return f.h
}

func descNoContentForDirs(d testutil.DirEntry) testutil.DirEntry { return d }

var _ = dagpb.Type
var _ = basicnode.Prototype
var _ io.Reader = rngReader{}

func scnTestutil(rep *Report, rng *Rng, tier string, outdir string) {
	cf := NewCaseFile(rep, outdir, "cases_pack", "UV.Corr.Pack", "mismatches_pack", 60)
	rep.P("C19").Rule = "every exported generator (UnixFSFile, UnixFSDirectory with default / named / custom child generators and shard bit widths, GenerateDirectory, GenerateDirectoryFrom, BuildDirectory, WrapContent exclusive and not) over deterministic random tapes and target sizes 100..64K; the returned description is compared with an independent walk of the stored DAG through Reify (names, contents, links at every level), with ToDirEntry + CompareDirEntries, and for uniqueness / non-emptiness of sibling names and the path rule; every plain directory level is compared with the Coq packDirectory model (fingerprint + size); distinct = distinct (generator, seed, size, options); non-trivial = the description has at least 2 entries"
	n := 12
	if tier == "thorough" {
		n = 400
	} else if tier == "search" {
		n = 60
	}
	sizes := []int{100, 600, 2048, 5000, 16384, 65536}
	add := func(in TUInput) {
		runTUInput(rep, in, cf)
		key, _ := json.Marshal(in)
		rep.Count("C19", string(key), in.Size >= 600, in)
		rep.Dist("C19", "gen="+in.Gen)
	}
	for i := 0; i < n; i++ {
		seed := rng.Next() % 100000
		sz := sizes[i%len(sizes)]
		add(TUInput{Gen: "file", Seed: seed, Size: sz % 3000})
		add(TUInput{Gen: "dir", Seed: seed, Size: sz, Bitwidth: []int{0, 0, 4, 3}[i%4]})
		add(TUInput{Gen: "dir-named", Seed: seed, Size: sz, Dirname: "/top/sub", Bitwidth: []int{0, 4}[i%2]})
		add(TUInput{Gen: "dir-custom", Seed: seed, Size: sz, Dirname: []string{"", "/a"}[i%2], Bitwidth: []int{0, 4}[i%2]})
		add(TUInput{Gen: "gendir", Seed: seed, Size: sz, Sharded: i%3 == 0})
		add(TUInput{Gen: "gendirfrom", Seed: seed, Size: sz, Dirname: "/x/y", Sharded: i%2 == 0})
		add(TUInput{Gen: "build", Seed: seed, Size: sz, Sharded: i%2 == 1})
		add(TUInput{Gen: "wrap", Seed: seed, Size: sz, WrapPath: []string{"/a", "/a/b", "want/deep/er/path"}[i%3], Exclusive: i%2 == 0, Sharded: i%4 == 0})
	}
	// many large GenerateDirectory runs: two files drawing the same word and extension are rare (about one seed in ten)
	nBig := 40
	if tier == "thorough" {
		nBig = 400
	}
	for j := 0; j < nBig; j++ {
		seed := rng.Next() % 100000
		add(TUInput{Gen: "gendir", Seed: seed, Size: 65536, Sharded: j%5 == 4})
		add(TUInput{Gen: "gendirfrom", Seed: seed, Size: 65536, Dirname: "/x/y", Sharded: false})
	}
	// one directory using up most of the word list
	for j, cnt := range []int{300, 520, 600} {
		seed := rng.Next() % 100000
		add(TUInput{Gen: "dir-wide", Seed: seed, Size: 1 << 20, Count: cnt, Dirname: "/w", Bitwidth: []int{0, 4, 0}[j]})
	}
	// a bulk sweep of the default directory generator (description vs read-back and sibling-name discipline only, no model cases):
	// collisions between generated names are events of a few per thousand tapes
	nSweep := 1500
	if tier == "thorough" {
		nSweep = 12000
	}
	for j := 0; j < nSweep; j++ {
		seed := rng.Next() % 10000000
		in := TUInput{Gen: "dir", Seed: seed, Size: []int{32768, 32768, 65536, 262144}[j%4], Bitwidth: []int{0, 0, 0, 4}[(j/4)%4]}
		if j%4 == 3 && j%16 != 3 {
			in.Size = 32768
		}
		runTUInput(rep, in, nil)
		rep.Dist("C19", "gen=dir(sweep)")
	}
	rep.P("C19").Evaluations += nSweep
	// directory names with dots in them (an extension-stripping name comparison must not look at the parent's name), and
	// wrap paths with empty segments (no entry may end up with an empty name)
	nDot := 60
	if tier == "thorough" {
		nDot = 600
	}
	for j := 0; j < nDot; j++ {
		seed := rng.Next() % 100000
		dn := []string{"/fixtures.v2", "/a.b/c.d", "/v1.0/data"}[j%3]
		add(TUInput{Gen: "dir-named", Seed: seed, Size: []int{2048, 3000, 5000}[j%3], Dirname: dn, Bitwidth: []int{0, 4}[j%2]})
		if j%4 == 0 {
			add(TUInput{Gen: "gendirfrom", Seed: seed, Size: 16384, Dirname: dn, Sharded: j%8 == 0})
		}
	}
	// start directories that are not clean absolute paths
	for j, dn := range []string{"fixtures", "fixtures/nested", "/trailing/", "./rel", "a//b"} {
		for v := 0; v < 3; v++ {
			seed := rng.Next() % 100000
			add(TUInput{Gen: "dir-named", Seed: seed, Size: []int{600, 2048, 5000}[v], Dirname: dn, Bitwidth: []int{0, 4}[(j+v)%2]})
			add(TUInput{Gen: "gendirfrom", Seed: seed, Size: []int{600, 2048, 16384}[v], Dirname: dn, Sharded: (j+v)%2 == 0})
		}
	}
	// random sources that end early
	for _, sl := range [][2]int{{1000, 300}, {64, 0}, {5000, 700}, {300, 299}, {256, 256}, {700, 256}, {1, 0}} {
		add(TUInput{Gen: "file-short", Seed: rng.Next() % 100000, Size: sl[0], TapeLimit: sl[1]})
	}
	for j, wp := range []string{"", "/", "//", "/want1//want0", "a//b/", "/a/b/", "a", "/..", "/./x"} {
		seed := rng.Next() % 100000
		add(TUInput{Gen: "wrap", Seed: seed, Size: 700, WrapPath: wp, Exclusive: j%2 == 0})
		add(TUInput{Gen: "wrap", Seed: seed, Size: 700, WrapPath: wp, Exclusive: j%2 == 1, Sharded: true})
	}
	// tiny targets: many one-byte files, hence the same CID linked from several places
	for _, sz := range []int{32, 40, 64, 128} {
		for j := 0; j < 5; j++ {
			seed := rng.Next() % 100000
			add(TUInput{Gen: "gendir", Seed: seed, Size: sz})
			add(TUInput{Gen: "gendirfrom", Seed: seed, Size: sz, Dirname: "/x/y"})
			add(TUInput{Gen: "dir", Seed: seed, Size: sz})
			add(TUInput{Gen: "build", Seed: seed, Size: sz})
			add(TUInput{Gen: "wrap", Seed: seed, Size: sz, WrapPath: "/a/b"})
		}
	}
	cf.Flush()
}
