package main

import (
	"encoding/json"
	"fmt"
	"os"
)

var replayers = map[string]func(input json.RawMessage) []Failure{}

type ReplayFile struct {
	Property string          `json:"property"`
	Scenario string          `json:"scenario"`
	Input    json.RawMessage `json:"input"`
}

// runReplay re-executes one stored input on the implementation; exit 1 if the oracle still fails
func runReplay(scn, file string) int {
	b, err := os.ReadFile(file)
	must(err)
	var rf ReplayFile
	must(json.Unmarshal(b, &rf))
	if rf.Scenario != "" {
		scn = rf.Scenario
	}
	f, ok := replayers[scn]
	if !ok {
		fmt.Fprintln(os.Stderr, "no replayer for scenario", scn)
		return 2
	}
	fails := f(rf.Input)
	out, _ := json.MarshalIndent(fails, "", " ")
	fmt.Println(string(out))
	for _, fl := range fails {
		if rf.Property == "" || fl.Property == rf.Property {
			fmt.Printf("REPLAY-FAILS property=%s signature=%s\n", fl.Property, fl.Signature)
			return 1
		}
	}
	fmt.Println("REPLAY-PASSES")
	return 0
}
