package main

// Scenario "stores": commit order and failure behaviour of every builder (C16).

import (
	"bytes"
	"encoding/json"
	"fmt"
	"os"
	"path/filepath"

	"github.com/ipfs/go-cid"
	"github.com/ipfs/go-unixfsnode/data/builder"
	quickbuilder "github.com/ipfs/go-unixfsnode/data/builder/quick"
	"github.com/ipld/go-ipld-prime/datamodel"
	cidlink "github.com/ipld/go-ipld-prime/linking/cid"
	"github.com/multiformats/go-multihash"
)

func init() {
	scenarios["stores"] = scnStores
	replayers["stores"] = func(raw json.RawMessage) []Failure {
		var in StoreInput
		must(json.Unmarshal(raw, &in))
		rep := NewReport("stores", 0, "replay")
		runStoreInput(rep, in, nil)
		return rep.Failures
	}
}

type StoreInput struct {
	Kind       string   `json:"kind"` // file | symlink | plain | sharded | recursive | quick
	Width      int      `json:"width,omitempty"`
	Chunker    string   `json:"chunker,omitempty"`
	Size       int      `json:"size,omitempty"`
	Seed       uint64   `json:"seed,omitempty"`
	Target     string   `json:"target,omitempty"`
	Fanout     int      `json:"fanout,omitempty"`
	Entries    []HEntry `json:"entries,omitempty"`
	FailOpen   int      `json:"fail_open"`
	FailCommit int      `json:"fail_commit"`
	Flavor     int      `json:"flavor,omitempty"`     // how the injected write error is wrapped (see Store.FailFlavor)
	FailWrite  int      `json:"fail_write,omitempty"` // the Write into the k-th opened block stream fails
}

// checkStoreTrace verifies the dangling-free invariant over the ordered commit log
func checkStoreTrace(st *Store, fail func(prop, sig, what string, exp, got interface{})) {
	committed := map[string]bool{}
	produced := map[string]bool{}
	for _, c := range st.Commit {
		produced[c.KeyString()] = true
	}
	for i, c := range st.Commit {
		n := dumpDAG(st, c, map[string]*DNode{})
		for _, l := range n.Links {
			// a linked block this build produces (now or later) must already be committed
			if produced[l.Cid.KeyString()] && !committed[l.Cid.KeyString()] {
				fail("C16", "parent-before-child", "a block was committed before a block it links to", fmt.Sprintf("commit #%d", i+1), l.Cid.String())
				return
			}
		}
		committed[c.KeyString()] = true
	}
}

func allBuiltCommitted(st *Store, root cid.Cid) (missing string) {
	seen := map[string]bool{}
	var walk func(c cid.Cid, top bool) string
	walk = func(c cid.Cid, top bool) string {
		if seen[c.KeyString()] {
			return ""
		}
		seen[c.KeyString()] = true
		if _, ok := st.Blocks[c.KeyString()]; !ok {
			if top {
				return c.String()
			}
			return "" // an entry target outside this build
		}
		n := dumpDAG(st, c, map[string]*DNode{})
		for _, l := range n.Links {
			// children of a built file / shard node are built blocks unless they are directory entries
			if m := walk(l.Cid, false); m != "" {
				return m
			}
		}
		return ""
	}
	return walk(root, true)
}

func runStoreInput(rep *Report, in StoreInput, cf *CaseFile) (writes int) {
	fail := func(prop, sig, what string, exp, got interface{}) {
		rep.Fail(prop, "stores/"+sig, what, in, exp, got)
	}
	st := NewStore()
	st.FailOpenAt, st.FailCommit, st.FailFlavor, st.FailWriteAt = in.FailOpen, in.FailCommit, in.Flavor, in.FailWrite
	ls := st.LinkSystem()
	var lnk datamodel.Link
	var err error
	exact := true
	var term string
	o := guard(func() error {
		switch in.Kind {
		case "file":
			widthMu.Lock()
			old := builder.DefaultLinksPerBlock
			builder.DefaultLinksPerBlock = in.Width
			content := synthContent(in.Seed, in.Size)
			lnk, _, err = builder.BuildUnixFSFile(bytesReader(content), in.Chunker, ls)
			builder.DefaultLinksPerBlock = old
			widthMu.Unlock()
			term = fmt.Sprintf("(SFile %d %s %d)", in.Width, coqNList(chunkLens(content, in.Chunker)), in.Seed)
		case "symlink":
			lnk, _, err = builder.BuildUnixFSSymlink(in.Target, ls)
			term = fmt.Sprintf("(SSymlink %s)", coqBytes([]byte(in.Target)))
		case "plain":
			lnk, _, err = builder.BuildUnixFSDirectory(entryLinks(in.Entries), ls)
			term = fmt.Sprintf("(SPlain %s)", coqHEntries(in.Entries))
		case "sharded":
			lnk, _, err = builder.BuildUnixFSShardedDirectory(in.Fanout, multihash.MURMUR3X64_64, entryLinks(in.Entries), ls)
			term = fmt.Sprintf("(SSharded %d %s)", in.Fanout, coqHEntries(in.Entries))
			exact = false // sibling shards are serialised in Go map order
		case "recursive":
			dir, derr := os.MkdirTemp("", "verif-stores")
			must(derr)
			defer os.RemoveAll(dir)
			must(os.MkdirAll(filepath.Join(dir, "t", "sub", "deep"), 0o755))
			must(os.WriteFile(filepath.Join(dir, "t", "a.txt"), synthContent(1, 300), 0o644))
			must(os.WriteFile(filepath.Join(dir, "t", "empty"), nil, 0o644))
			must(os.WriteFile(filepath.Join(dir, "t", "sub", "b.bin"), synthContent(2, 700), 0o644))
			must(os.WriteFile(filepath.Join(dir, "t", "sub", "deep", "c"), synthContent(3, 10), 0o644))
			must(os.Symlink("../a.txt", filepath.Join(dir, "t", "sub", "lnk")))
			lnk, _, err = builder.BuildUnixFSRecursive(filepath.Join(dir, "t"), ls)
			// the same tree for the store model (ReadDir order = sorted names, as coqFs prints it)
			term = "(SRecursive " + coqFs(&FsNode{Kind: "dir", Name: "t", Children: []*FsNode{
				{Kind: "file", Name: "a.txt", Size: 300, Seed: 1},
				{Kind: "file", Name: "empty", Size: 0, Seed: 0},
				{Kind: "dir", Name: "sub", Children: []*FsNode{
					{Kind: "file", Name: "b.bin", Size: 700, Seed: 2},
					{Kind: "dir", Name: "deep", Children: []*FsNode{{Kind: "file", Name: "c", Size: 10, Seed: 3}}},
					{Kind: "symlink", Name: "lnk", Target: "../a.txt"},
				}},
			}}) + ")"
		case "quick":
			err = quickbuilder.Store(ls, func(b *quickbuilder.Builder) error {
				f1 := b.NewBytesFile(synthContent(4, 40))
				f2 := b.NewBytesFile(nil)
				d1 := b.NewMapDirectory(map[string]quickbuilder.Node{"one": f1, "two": f2})
				d2 := b.NewMapDirectory(map[string]quickbuilder.Node{"inner": d1, "f": f1})
				lnk = d2.Link()
				return nil
			})
		}
		return err
	})
	failing := in.FailOpen != 0 || in.FailCommit != 0
	// did the injected failure actually happen?
	hit := false
	for _, e := range st.Events {
		if len(e) >= 4 && e[:4] == "fail" {
			hit = true
		}
	}
	hasLink := lnk != nil
	if in.Kind == "quick" && o.Class == "panic" && hit {
		// the quick builder panics on errors by design; order and cleanliness are still checked below
		hasLink = false
		o = Outcome{Class: "store", Kind: 500}
	}
	writes = st.nOpen
	if o.Class == "panic" {
		fail("C16", "panic", "a builder panicked", "link or error", "panic")
		return
	}
	checkStoreTrace(st, fail)
	if hit {
		if o.Class == "ok" {
			fail("C16", "failure-swallowed", "a write failed but the build returned no error", "error", "ok")
		}
		if hasLink {
			fail("C16", "link-with-error", "a failed build returned a link", "nil link", lnk.String())
		}
	} else {
		if o.Class != "ok" {
			fail("C16", "spurious-error", "the build failed although no write failed", "ok", o.Class)
		} else if !hasLink {
			fail("C16", "no-link", "a successful build returned no link", "link", nil)
		}
	}
	if o.Class == "ok" && hasLink {
		if m := allBuiltCommitted(st, lnk.(cidlink.Link).Cid); m != "" {
			fail("C16", "link-incomplete", "a link was returned although its root block was not committed", nil, m)
		}
	}
	_ = failing
	if cf != nil && term != "" {
		commits := "None"
		if exact {
			fps := make([]string, len(st.Commit))
			for i, c := range st.Commit {
				fps[i] = fmt.Sprint(dumpDAG(st, c, map[string]*DNode{}).FP())
			}
			commits = "(Some " + coqList(fps) + ")"
		}
		cf.Add(fmt.Sprintf("mk_store %s %d %d %s %s %s", term, in.FailOpen, in.FailCommit, coqBool(hasLink), coqBool(o.Class != "ok"), commits), in)
	}
	return
}

func bytesReader(b []byte) *bytes.Reader { return bytes.NewReader(b) }

func scnStores(rep *Report, rng *Rng, tier string, outdir string) {
	cf := NewCaseFile(rep, outdir, "cases_stores", "UV.Corr.Stores", "mismatches_stores", 60)
	rep.P("C16").Rule = "every builder (file: empty / single chunk / 2..4 levels; symlink; plain directory; sharded directory with nested shards; recursive filesystem import; quick builder) run with no failure and with the k-th open and the k-th commit failing for EVERY k up to the number of writes; the ordered StorageWriteOpener/commit log is checked for children-before-parents at every commit, for link==nil on error and for complete DAGs on success, and compared with the Coq store model (result shape and, for files, the exact commit sequence); distinct = distinct (build, failure point); non-trivial = a failure is injected"
	var builds []StoreInput
	for _, f := range [][3]int{{2, 1, 0}, {2, 1, 1}, {2, 1, 2}, {2, 1, 5}, {3, 2, 19}, {2, 3, 24}, {4, 1, 17}, {174, 1, 176}} {
		if f[0] == 174 && tier != "thorough" {
			continue
		}
		builds = append(builds, StoreInput{Kind: "file", Width: f[0], Chunker: fmt.Sprintf("size-%d", f[1]), Size: f[2], Seed: uint64(rng.Intn(200))})
	}
	builds = append(builds, StoreInput{Kind: "symlink", Target: "../x/y"}, StoreInput{Kind: "symlink", Target: ""})
	mk := func(n int) []HEntry {
		es := make([]HEntry, n)
		for i := range es {
			es[i] = HEntry{Name: fmt.Sprintf("e%d", i), ID: i, Tsize: int64(10 + i)}
		}
		return es
	}
	builds = append(builds, StoreInput{Kind: "plain", Entries: mk(5)}, StoreInput{Kind: "plain", Entries: nil})
	builds = append(builds, StoreInput{Kind: "sharded", Fanout: 8, Entries: mk(40)}, StoreInput{Kind: "sharded", Fanout: 16, Entries: mk(60)}, StoreInput{Kind: "sharded", Fanout: 256, Entries: mk(3)})
	builds = append(builds, StoreInput{Kind: "recursive"}, StoreInput{Kind: "quick"})
	for _, b := range builds {
		nw := runStoreInput(NewReport("probe", 0, "probe"), b, nil) // number of writes of the failure-free run
		add := func(in StoreInput) {
			runStoreInput(rep, in, cf)
			key, _ := json.Marshal(in)
			rep.Count("C16", string(key), in.FailOpen != 0 || in.FailCommit != 0, in)
			rep.Dist("C16", "kind="+in.Kind)
		}
		add(b)
		step := 1
		if tier != "thorough" && nw > 24 {
			step = nw / 12
		}
		for k := 1; k <= nw; k += step {
			o := b
			o.FailOpen = k
			add(o)
			c := b
			c.FailCommit = k
			add(c)
		}
		// the last write always
		o := b
		o.FailCommit = nw
		add(o)
		// the same failure points with the error wrapped the way file-system block stores report it
		// (errors.Is(err, fs.ErrNotExist)): oracle only, the model does not distinguish error values
		for _, flavor := range []int{1, 2, 3, 4, 5, 0} {
			for k := 1; k <= nw; k += step {
				for _, how := range []int{0, 1, 2} {
					in := b
					in.Flavor = flavor
					switch how {
					case 1:
						in.FailCommit = k
					case 0:
						if flavor == 0 {
							continue // plain open / commit failures were run above
						}
						in.FailOpen = k
					default:
						in.FailWrite = k // the block stream itself refuses the bytes
					}
					if how == 1 && flavor == 0 {
						continue
					}
					runStoreInput(rep, in, nil)
					key, _ := json.Marshal(in)
					rep.Count("C16", string(key), true, in)
					rep.Dist("C16", fmt.Sprintf("flavor=%d", flavor))
				}
			}
		}
	}
	cf.Flush()
}
