package main

// Scenario "codec": UnixFS Data / Metadata / UnixTime codec against gogo-protobuf (C09), hostile bytes (C13 decoder part).

import (
	"bytes"
	"encoding/hex"
	"encoding/json"
	"fmt"

	gproto "github.com/gogo/protobuf/proto"
	pb "github.com/ipfs/boxo/ipld/unixfs/pb"
	"github.com/ipfs/go-unixfsnode/data"
	"google.golang.org/protobuf/encoding/protowire"
)

func init() {
	scenarios["codec"] = scnCodec
	replayers["codec"] = func(raw json.RawMessage) []Failure {
		var in CodecInput
		must(json.Unmarshal(raw, &in))
		_, fails := runCodecCase(in)
		return fails
	}
}

// logical message used by the generator
type GTime struct {
	Seconds int64   `json:"seconds"`
	Nanos   *uint32 `json:"nanos,omitempty"`
	// set only when the library reports a value outside the field's uint32 range (never by the reference side),
	// so that a narrowing conversion here cannot hide a sign or width error
	NanosRaw *int64 `json:"nanos_out_of_range,omitempty"`
}
type GMsg struct {
	Type       int64    `json:"type"`
	Data       *string  `json:"data,omitempty"` // hex
	FileSize   *uint64  `json:"filesize,omitempty"`
	BlockSizes []uint64 `json:"blocksizes,omitempty"`
	HashType   *uint64  `json:"hashtype,omitempty"`
	Fanout     *uint64  `json:"fanout,omitempty"`
	Mode       *uint32  `json:"mode,omitempty"`
	ModeRaw    *int64   `json:"mode_out_of_range,omitempty"` // see GTime.NanosRaw
	Mtime      *GTime   `json:"mtime,omitempty"`
}

type CodecInput struct {
	Kind    string  `json:"kind"`  // data | time | meta
	Class   string  `json:"class"` // conformant | canonical | malformed
	Wire    string  `json:"wire"`  // hex
	Msg     *GMsg   `json:"msg,omitempty"`
	Mime    *string `json:"mime,omitempty"`
	Present string  `json:"presentation,omitempty"`
}

type CodecObs struct {
	Outcome Outcome
	Msg     *GMsg // decoded by the implementation
	Mime    *string
	Reenc   []byte
	Perm    int
}

var boundary64 = []uint64{0, 1, 2, 127, 128, 255, 256, 16383, 16384, 1 << 31, 1<<32 - 1, 1 << 32, 1 << 62, 1 << 63, 1<<63 + 1, 1<<64 - 1, 262144, 420, 493}
var boundary32 = []uint32{0, 1, 0o644, 0o755, 0o777, 0xFFF, 0x1000, 0o100644, 0o40755, 1 << 31, 1<<32 - 1, 0o7777, 0o1644}

func genU64(r *Rng) uint64 {
	switch r.Intn(3) {
	case 0:
		return boundary64[r.Intn(len(boundary64))]
	case 1:
		return r.Next() >> uint(r.Intn(64))
	default:
		return uint64(r.Intn(100000))
	}
}

func genMsg(r *Rng) *GMsg {
	m := &GMsg{Type: int64(r.Intn(6))}
	if r.Intn(3) == 0 {
		n := r.Intn(12)
		if r.Intn(12) == 0 {
			n = 1000 + r.Intn(3000) // messages longer than any small scratch buffer an encoder may keep around
		}
		s := hex.EncodeToString(r.Bytes(n))
		m.Data = &s
	}
	if r.Intn(2) == 0 {
		v := genU64(r)
		m.FileSize = &v
	}
	if r.Intn(2) == 0 {
		n := r.Intn(6)
		if r.Intn(15) == 0 {
			n = 200 + r.Intn(300)
		}
		for i := 0; i < n; i++ {
			m.BlockSizes = append(m.BlockSizes, genU64(r))
		}
	}
	if r.Intn(3) == 0 {
		v := genU64(r)
		m.HashType = &v
	}
	if r.Intn(3) == 0 {
		v := genU64(r)
		m.Fanout = &v
	}
	if r.Intn(2) == 0 {
		var v uint32
		if r.Intn(2) == 0 {
			v = boundary32[r.Intn(len(boundary32))]
		} else {
			v = uint32(r.Next())
		}
		m.Mode = &v
	}
	if r.Intn(3) == 0 {
		t := &GTime{}
		switch r.Intn(4) {
		case 0:
			t.Seconds = -int64(r.Intn(100000)) - 1
		case 1:
			t.Seconds = int64(r.Next())
		default:
			t.Seconds = int64(r.Intn(2000000000))
		}
		if r.Bool() {
			n := uint32(r.Intn(1000000000))
			switch r.Intn(8) {
			case 0:
				n = uint32(r.Next())
			case 1:
				n = 0 // present but zero
			case 2:
				n = []uint32{1, 999999999, 1 << 31}[r.Intn(3)]
			}
			t.Nanos = &n
		}
		m.Mtime = t
	}
	return m
}

// appendVarintPadded appends v with `pad` extra continuation groups (non-minimal but valid), never beyond 10 bytes
func appendVarintPadded(b []byte, v uint64, pad int) []byte {
	enc := protowire.AppendVarint(nil, v)
	for pad > 0 && len(enc) < 10 {
		enc[len(enc)-1] |= 0x80
		enc = append(enc, 0)
		pad--
	}
	return append(b, enc...)
}

func wireTime(t *GTime, r *Rng, fancy bool) []byte {
	var parts [][]byte
	pad := func() int {
		if fancy && r.Intn(4) == 0 {
			return 1 + r.Intn(3)
		}
		return 0
	}
	s := protowire.AppendTag(nil, 1, protowire.VarintType)
	s = appendVarintPadded(s, uint64(t.Seconds), pad())
	parts = append(parts, s)
	if t.Nanos != nil {
		n := protowire.AppendTag(nil, 2, protowire.Fixed32Type)
		n = protowire.AppendFixed32(n, *t.Nanos)
		parts = append(parts, n)
	}
	if fancy {
		if r.Intn(3) == 0 {
			parts = append(parts, unknownField(r, 3))
		}
		p := r.Perm(len(parts))
		var out []byte
		for _, i := range p {
			out = append(out, parts[i]...)
		}
		return out
	}
	return bytes.Join(parts, nil)
}

func unknownField(r *Rng, minNum int) []byte {
	nums := []int{minNum, minNum + 1, 15, 16, 1000, 1<<29 - 1}
	num := protowire.Number(nums[r.Intn(len(nums))])
	if int(num) < minNum {
		num = protowire.Number(minNum)
	}
	switch r.Intn(5) {
	case 0:
		return protowire.AppendVarint(protowire.AppendTag(nil, num, protowire.VarintType), r.Next()>>uint(r.Intn(64)))
	case 1:
		return protowire.AppendFixed32(protowire.AppendTag(nil, num, protowire.Fixed32Type), uint32(r.Next()))
	case 2:
		return protowire.AppendFixed64(protowire.AppendTag(nil, num, protowire.Fixed64Type), r.Next())
	case 3:
		return protowire.AppendBytes(protowire.AppendTag(nil, num, protowire.BytesType), r.Bytes(r.Intn(6)))
	default: // group containing a varint and possibly a nested group
		b := protowire.AppendTag(nil, num, protowire.StartGroupType)
		b = protowire.AppendVarint(protowire.AppendTag(b, 1, protowire.VarintType), uint64(r.Intn(300)))
		if r.Bool() {
			b = protowire.AppendTag(b, 2, protowire.StartGroupType)
			b = protowire.AppendBytes(protowire.AppendTag(b, 3, protowire.BytesType), r.Bytes(r.Intn(4)))
			b = protowire.AppendTag(b, 2, protowire.EndGroupType)
		}
		return protowire.AppendTag(b, num, protowire.EndGroupType)
	}
}

// presentation of a message: permutation of fields, blocksizes unpacked (kept in order) or one packed run,
// unknown fields interleaved, non-minimal varints
func wireMsg(m *GMsg, r *Rng, mode string) ([]byte, string) {
	fancy := mode != "canonical"
	pad := func() int {
		if fancy && r.Intn(4) == 0 {
			return 1 + r.Intn(4)
		}
		return 0
	}
	desc := mode
	type part struct {
		b   []byte
		seq int // blocksizes must keep their relative order
	}
	var parts []part
	vf := func(num protowire.Number, v uint64) []byte {
		return appendVarintPadded(protowire.AppendTag(nil, num, protowire.VarintType), v, pad())
	}
	parts = append(parts, part{vf(1, uint64(m.Type)), -1})
	if m.Data != nil {
		d, _ := hex.DecodeString(*m.Data)
		parts = append(parts, part{protowire.AppendBytes(protowire.AppendTag(nil, 2, protowire.BytesType), d), -1})
	}
	if m.FileSize != nil {
		parts = append(parts, part{vf(3, *m.FileSize), -1})
	}
	packed := fancy && len(m.BlockSizes) > 0 && r.Intn(2) == 0
	if packed {
		desc += "+packed"
		var run []byte
		for _, v := range m.BlockSizes {
			run = appendVarintPadded(run, v, pad())
		}
		parts = append(parts, part{protowire.AppendBytes(protowire.AppendTag(nil, 4, protowire.BytesType), run), -1})
	} else {
		for i, v := range m.BlockSizes {
			parts = append(parts, part{vf(4, v), i})
		}
	}
	if m.HashType != nil {
		parts = append(parts, part{vf(5, *m.HashType), -1})
	}
	if m.Fanout != nil {
		parts = append(parts, part{vf(6, *m.Fanout), -1})
	}
	if m.Mode != nil {
		parts = append(parts, part{vf(7, uint64(*m.Mode)), -1})
	}
	if m.Mtime != nil {
		parts = append(parts, part{protowire.AppendBytes(protowire.AppendTag(nil, 8, protowire.BytesType), wireTime(m.Mtime, r, fancy)), -1})
	}
	if fancy {
		nu := r.Intn(3)
		for i := 0; i < nu; i++ {
			parts = append(parts, part{unknownField(r, 9), -1})
			desc += "+unknown"
		}
		if r.Intn(3) != 0 {
			desc += "+permuted"
			p := r.Perm(len(parts))
			np := make([]part, len(parts))
			for i, j := range p {
				np[i] = parts[j]
			}
			// restore the relative order of the block sizes
			var bsIdx []int
			var bs []part
			for i, q := range np {
				if q.seq >= 0 {
					bsIdx = append(bsIdx, i)
					bs = append(bs, q)
				}
			}
			for i := range bs {
				for j := i + 1; j < len(bs); j++ {
					if bs[j].seq < bs[i].seq {
						bs[i], bs[j] = bs[j], bs[i]
					}
				}
			}
			for k, i := range bsIdx {
				np[i] = bs[k]
			}
			parts = np
		}
	}
	var out []byte
	for _, p := range parts {
		out = append(out, p.b...)
	}
	return out, desc
}

func pbOf(m *GMsg) *pb.Data {
	t := pb.Data_DataType(m.Type)
	d := &pb.Data{Type: &t, Filesize: m.FileSize, Blocksizes: m.BlockSizes, HashType: m.HashType, Fanout: m.Fanout, Mode: m.Mode}
	if m.Data != nil {
		d.Data, _ = hex.DecodeString(*m.Data)
		if d.Data == nil {
			d.Data = []byte{}
		}
	}
	if m.Mtime != nil {
		s := m.Mtime.Seconds
		d.Mtime = &pb.IPFSTimestamp{Seconds: &s, Nanos: m.Mtime.Nanos}
	}
	return d
}

func msgOfPb(d *pb.Data) *GMsg {
	m := &GMsg{Type: int64(d.GetType()), FileSize: d.Filesize, BlockSizes: d.Blocksizes, HashType: d.HashType, Fanout: d.Fanout, Mode: d.Mode}
	if d.Data != nil {
		s := hex.EncodeToString(d.Data)
		m.Data = &s
	}
	if d.Mtime != nil {
		m.Mtime = &GTime{Seconds: d.Mtime.GetSeconds(), Nanos: d.Mtime.Nanos}
	}
	return m
}

func msgOfNode(n data.UnixFSData) *GMsg {
	m := &GMsg{Type: n.FieldDataType().Int()}
	if n.FieldData().Exists() {
		s := hex.EncodeToString(n.FieldData().Must().Bytes())
		m.Data = &s
	}
	if n.FieldFileSize().Exists() {
		v := uint64(n.FieldFileSize().Must().Int())
		m.FileSize = &v
	}
	it := n.FieldBlockSizes().Iterator()
	for !it.Done() {
		_, v := it.Next()
		m.BlockSizes = append(m.BlockSizes, uint64(v.Int()))
	}
	if n.FieldHashType().Exists() {
		v := uint64(n.FieldHashType().Must().Int())
		m.HashType = &v
	}
	if n.FieldFanout().Exists() {
		v := uint64(n.FieldFanout().Must().Int())
		m.Fanout = &v
	}
	if n.FieldMode().Exists() {
		raw := n.FieldMode().Must().Int()
		v := uint32(raw)
		m.Mode = &v
		if raw < 0 || raw > 4294967295 {
			m.ModeRaw = &raw
		}
	}
	if n.FieldMtime().Exists() {
		t := n.FieldMtime().Must()
		g := &GTime{Seconds: t.FieldSeconds().Int()}
		if t.FieldFractionalNanoseconds().Exists() {
			raw := t.FieldFractionalNanoseconds().Must().Int()
			v := uint32(raw)
			g.Nanos = &v
			if raw < 0 || raw > 4294967295 {
				g.NanosRaw = &raw
			}
		}
		m.Mtime = g
	}
	return m
}

func msgJSON(m *GMsg) string {
	if m == nil {
		return "nil"
	}
	c := *m
	if len(c.BlockSizes) == 0 {
		c.BlockSizes = nil
	}
	b, _ := json.Marshal(c)
	return string(b)
}

func expectedPerm(m *GMsg) int {
	if m.Mode != nil {
		return int(*m.Mode & 0xFFF)
	}
	switch m.Type {
	case 2:
		return 0o644
	case 1, 5:
		return 0o755
	}
	return 0
}

func runCodecCase(in CodecInput) (obs CodecObs, fails []Failure) {
	wire, _ := hex.DecodeString(in.Wire)
	fail := func(prop, sig, what string, exp, got interface{}) {
		fails = append(fails, Failure{prop, "codec/" + sig, what, in, exp, got})
	}
	switch in.Kind {
	case "data":
		var nd data.UnixFSData
		obs.Outcome = guard(func() error {
			var err error
			nd, err = data.DecodeUnixFSData(wire)
			return err
		})
		if obs.Outcome.Class == "panic" {
			fail("C13", "decode-panic", "DecodeUnixFSData panicked", "value or error", "panic")
		}
		if obs.Outcome.Class == "ok" {
			obs.Msg = msgOfNode(nd)
			obs.Reenc = data.EncodeUnixFSData(nd)
			obs.Perm = nd.Permissions()
			// the bytes handed out belong to the caller: encoding something else afterwards must not change them
			snap := append([]byte(nil), obs.Reenc...)
			_ = data.EncodeUnixFSData(otherMessage())
			_ = data.EncodeUnixFSData(otherMessage())
			if !bytes.Equal(snap, obs.Reenc) {
				fail("C09", "encode-aliased", "the bytes returned by EncodeUnixFSData changed when another message was encoded afterwards", len(snap), "changed")
				obs.Reenc = snap
			}
		} else if obs.Outcome.Class != "panic" {
			obs.Outcome = Outcome{Class: "decode"}
		}
		// reference decoder
		var ref pb.Data
		refErr := gproto.Unmarshal(wire, &ref)
		if in.Class != "malformed" {
			pres := in.Present
			if refErr != nil {
				fail("C09", "generator", "reference decoder rejects a generated presentation (harness bug)", nil, refErr.Error())
				return
			}
			want := msgJSON(msgOfPb(&ref))
			if in.Msg != nil && msgJSON(in.Msg) != want {
				fail("C09", "generator", "reference decoder disagrees with the generated message (harness bug)", msgJSON(in.Msg), want)
				return
			}
			sigSuffix := ""
			if bytes.Contains([]byte(pres), []byte("packed")) {
				sigSuffix = "-packed"
			}
			if obs.Outcome.Class != "ok" {
				fail("C09", "conformant-rejected"+sigSuffix, "a conformant encoding is rejected by DecodeUnixFSData", want, obs.Outcome.Class)
				return
			}
			if got := msgJSON(obs.Msg); got != want {
				fail("C09", "decode-differs"+sigSuffix, "decoded message differs from the reference decoder's", want, got)
			}
			// our encoding is read back by the reference to the same logical message (default mode elided)
			var ref2 pb.Data
			if err := gproto.Unmarshal(obs.Reenc, &ref2); err != nil {
				fail("C09", "ref-rejects-ours", "reference decoder rejects this library's encoding", nil, err.Error())
			} else {
				exp := *msgOfPb(&ref)
				if exp.Mode != nil && int(*exp.Mode) == defaultPermOf(exp.Type) {
					exp.Mode = nil
				}
				if got := msgJSON(msgOfPb(&ref2)); got != msgJSON(&exp) {
					fail("C09", "ref-reads-ours-differently", "reference decoder reads this library's encoding as a different message", msgJSON(&exp), got)
				}
			}
			// permissions
			if obs.Perm != expectedPerm(msgOfPb(&ref)) {
				fail("C09", "permissions", "Permissions() is not mode&0xFFF / the type default", expectedPerm(msgOfPb(&ref)), obs.Perm)
			}
			// permissions survive encode/decode
			nd2, err := data.DecodeUnixFSData(obs.Reenc)
			if err != nil {
				fail("C09", "reencode-undecodable", "re-encoded message does not decode", nil, err.Error())
			} else {
				if nd2.Permissions() != obs.Perm {
					fail("C09", "permissions-roundtrip", "permission bits change across encode/decode", obs.Perm, nd2.Permissions())
				}
				if !bytes.Equal(data.EncodeUnixFSData(nd2), obs.Reenc) {
					fail("C09", "reencode-unstable", "decode then re-encode of this library's own encoding changes the bytes", hex.EncodeToString(obs.Reenc), hex.EncodeToString(data.EncodeUnixFSData(nd2)))
				}
			}
			if in.Class == "canonical" {
				// canonical = the reference encoder's bytes; re-encoding reproduces them unless a default mode was elided
				m := msgOfPb(&ref)
				if !(m.Mode != nil && int(*m.Mode) == defaultPermOf(m.Type)) && !bytes.Equal(obs.Reenc, wire) {
					fail("C09", "canonical-reencode", "decode then re-encode of a canonically encoded message changes its bytes", in.Wire, hex.EncodeToString(obs.Reenc))
				}
			}
		}
	case "time":
		var nd data.UnixTime
		obs.Outcome = guard(func() error {
			var err error
			nd, err = data.DecodeUnixTime(wire)
			return err
		})
		if obs.Outcome.Class == "panic" {
			fail("C13", "decode-panic", "DecodeUnixTime panicked", "value or error", "panic")
		}
		if obs.Outcome.Class == "ok" {
			g := &GTime{Seconds: nd.FieldSeconds().Int()}
			if nd.FieldFractionalNanoseconds().Exists() {
				raw := nd.FieldFractionalNanoseconds().Must().Int()
				v := uint32(raw)
				g.Nanos = &v
				if raw < 0 || raw > 4294967295 {
					g.NanosRaw = &raw
				}
			}
			obs.Msg = &GMsg{Mtime: g}
			obs.Reenc = data.AppendEncodeUnixTime(nil, nd)
		} else if obs.Outcome.Class != "panic" {
			obs.Outcome = Outcome{Class: "decode"}
		}
		var ref pb.IPFSTimestamp
		refErr := gproto.Unmarshal(wire, &ref)
		if in.Class != "malformed" {
			if refErr != nil {
				fail("C09", "generator", "reference decoder rejects a generated timestamp (harness bug)", nil, refErr.Error())
				return
			}
			if obs.Outcome.Class != "ok" {
				fail("C09", "conformant-rejected-time", "a conformant timestamp encoding is rejected", nil, obs.Outcome.Class)
				return
			}
			g := obs.Msg.Mtime
			if g.Seconds != ref.GetSeconds() || (g.Nanos == nil) != (ref.Nanos == nil) || (g.Nanos != nil && *g.Nanos != ref.GetNanos()) || g.NanosRaw != nil {
				fail("C09", "decode-differs-time", "decoded timestamp differs from the reference decoder's", fmt.Sprint(ref.GetSeconds(), ref.Nanos), fmt.Sprint(g.Seconds, g.Nanos))
			}
		}
	case "meta":
		var nd data.UnixFSMetadata
		obs.Outcome = guard(func() error {
			var err error
			nd, err = data.DecodeUnixFSMetadata(wire)
			return err
		})
		if obs.Outcome.Class == "panic" {
			fail("C13", "decode-panic", "DecodeUnixFSMetadata panicked", "value or error", "panic")
		}
		if obs.Outcome.Class == "ok" {
			if nd.FieldMimeType().Exists() {
				s := nd.FieldMimeType().Must().String()
				obs.Mime = &s
			}
			obs.Reenc = data.EncodeUnixFSMetadata(nd)
		} else if obs.Outcome.Class != "panic" {
			obs.Outcome = Outcome{Class: "decode"}
		}
		var ref pb.Metadata
		refErr := gproto.Unmarshal(wire, &ref)
		if in.Class != "malformed" {
			if refErr != nil {
				fail("C09", "generator", "reference decoder rejects generated metadata (harness bug)", nil, refErr.Error())
				return
			}
			if obs.Outcome.Class != "ok" {
				fail("C09", "conformant-rejected-meta", "a conformant metadata encoding is rejected", nil, obs.Outcome.Class)
				return
			}
			if (obs.Mime == nil) != (ref.MimeType == nil) || (obs.Mime != nil && *obs.Mime != ref.GetMimeType()) {
				fail("C09", "decode-differs-meta", "decoded metadata differs from the reference decoder's", ref.MimeType, obs.Mime)
			}
		}
	}
	return
}

func defaultPermOf(t int64) int {
	switch t {
	case 2:
		return 0o644
	case 1, 5:
		return 0o755
	}
	return 0
}

func coqOptN(v *uint64) string {
	if v == nil {
		return "None"
	}
	return fmt.Sprintf("(Some %d)", *v)
}

func coqMsg(m *GMsg) string {
	d := "None"
	if m.Data != nil {
		b, _ := hex.DecodeString(*m.Data)
		d = "(Some " + coqBytes(b) + ")"
	}
	bs := make([]string, len(m.BlockSizes))
	for i, v := range m.BlockSizes {
		bs[i] = fmt.Sprint(v)
	}
	mode := "None"
	if m.Mode != nil {
		mode = fmt.Sprintf("(Some %d)", *m.Mode)
	}
	mt := "None"
	if m.Mtime != nil {
		mt = "(Some " + coqTime(m.Mtime) + ")"
	}
	return fmt.Sprintf("(mk_ud %d %s %s %s %s %s %s %s)", uint64(m.Type), d, coqOptN(m.FileSize), coqList(bs), coqOptN(m.HashType), coqOptN(m.Fanout), mode, mt)
}

func coqTime(t *GTime) string {
	n := "None"
	if t.Nanos != nil {
		n = fmt.Sprintf("(Some %d)", *t.Nanos)
	}
	return fmt.Sprintf("(mk_ut %d %s)", uint64(t.Seconds), n)
}

func mutateBytes(b []byte, r *Rng) []byte {
	out := append([]byte(nil), b...)
	switch r.Intn(6) {
	case 0: // truncate
		if len(out) > 0 {
			out = out[:r.Intn(len(out))]
		}
	case 1: // bit flip
		if len(out) > 0 {
			out[r.Intn(len(out))] ^= 1 << uint(r.Intn(8))
		}
	case 2: // duplicate a prefix field
		out = append(out, b...)
	case 3: // insert random byte
		i := r.Intn(len(out) + 1)
		out = append(out[:i], append([]byte{byte(r.Next())}, out[i:]...)...)
	case 4: // overlong varint tail
		out = append(out, 0x80, 0x80, 0x80, 0x80, 0x80, 0x80, 0x80, 0x80, 0x80, byte(r.Intn(4)))
	default:
		out = r.Bytes(r.Intn(16))
	}
	return out
}

func scnCodec(rep *Report, rng *Rng, tier string, outdir string) {
	nStruct, nMal := 1400, 700
	if tier == "thorough" {
		nStruct, nMal = 40000, 20000
	} else if tier == "search" {
		nStruct, nMal = 6000, 3000
	}
	cf := NewCaseFile(rep, outdir, "cases_codec", "UV.Corr.Codec", "mismatches_codec", 150)
	scnCodecBuilder(rep, rng, tier)
	rep.P("C09").Rule = "structured stream: random logical messages (boundary values 0,1,2^31,2^32-1,2^63,2^64-1, negative seconds, six types, default/non-default modes) x presentations (canonical; permuted fields, packed/unpacked block sizes, unknown fields incl. groups, non-minimal varints); timestamps and metadata likewise; distinct = distinct wire bytes; non-trivial = at least 2 fields present"
	rep.P("C13").Rule = "malformed stream: truncations, bit flips, duplicated fields, inserted bytes, overlong varints, random bytes fed to the three decoders; distinct = distinct wire bytes; non-trivial = non-empty input"
	emit := func(in CodecInput) {
		obs, fails := runCodecCase(in)
		for _, f := range fails {
			rep.Fail(f.Property, f.Signature, f.What, f.Input, f.Expected, f.Observed)
		}
		wire, _ := hex.DecodeString(in.Wire)
		if in.Class == "malformed" {
			rep.Count("C13", in.Kind+in.Wire, len(wire) > 0, in)
			rep.Dist("C13", in.Kind+"/"+obs.Outcome.Class)
		} else {
			rep.Count("C09", in.Kind+in.Wire, len(wire) > 2, in)
			rep.Dist("C09", in.Kind+"/"+in.Class+"/"+obs.Outcome.Class)
			if in.Present != "" {
				rep.Dist("C09", "presentation="+in.Present)
			}
		}
		if obs.Outcome.Class == "panic" {
			return
		}
		var res string
		switch in.Kind {
		case "data":
			if obs.Outcome.Class == "ok" {
				res = fmt.Sprintf("(OData %s %s %d)", coqMsg(obs.Msg), coqBytes(obs.Reenc), obs.Perm)
			} else {
				res = "OErr"
			}
			cf.Add(fmt.Sprintf("(KData, %s, %s)", coqBytes(wire), res), in)
		case "time":
			if obs.Outcome.Class == "ok" {
				res = fmt.Sprintf("(OTime %s %s)", coqTime(obs.Msg.Mtime), coqBytes(obs.Reenc))
			} else {
				res = "OErr"
			}
			cf.Add(fmt.Sprintf("(KTime, %s, %s)", coqBytes(wire), res), in)
		case "meta":
			if obs.Outcome.Class == "ok" {
				mm := "None"
				if obs.Mime != nil {
					mm = "(Some " + coqBytes([]byte(*obs.Mime)) + ")"
				}
				res = fmt.Sprintf("(OMeta %s %s)", mm, coqBytes(obs.Reenc))
			} else {
				res = "OErr"
			}
			cf.Add(fmt.Sprintf("(KMeta, %s, %s)", coqBytes(wire), res), in)
		}
	}
	var pool [][]byte
	for i := 0; i < nStruct; i++ {
		switch {
		case i%10 == 8: // timestamp
			t := genMsg(rng).Mtime
			if t == nil {
				t = &GTime{Seconds: int64(rng.Intn(1000))}
			}
			w := wireTime(t, rng, rng.Bool())
			emit(CodecInput{Kind: "time", Class: "conformant", Wire: hex.EncodeToString(w), Msg: &GMsg{Mtime: t}})
			pool = append(pool, w)
		case i%10 == 9: // metadata
			var w []byte
			var mime *string
			if rng.Intn(4) != 0 {
				s := rng.Pick([]string{"", "text/plain", "application/octet-stream", "é/ü"})
				mime = &s
				w = protowire.AppendBytes(protowire.AppendTag(nil, 1, protowire.BytesType), []byte(s))
			}
			if rng.Intn(3) == 0 {
				w = append(unknownField(rng, 2), w...)
			}
			emit(CodecInput{Kind: "meta", Class: "conformant", Wire: hex.EncodeToString(w), Mime: mime})
		default:
			m := genMsg(rng)
			if i%3 == 0 {
				// canonical: the reference encoder's own bytes
				b, err := gproto.Marshal(pbOf(m))
				must(err)
				emit(CodecInput{Kind: "data", Class: "canonical", Wire: hex.EncodeToString(b), Msg: m, Present: "canonical"})
				pool = append(pool, b)
			} else {
				w, desc := wireMsg(m, rng, "conformant")
				emit(CodecInput{Kind: "data", Class: "conformant", Wire: hex.EncodeToString(w), Msg: m, Present: desc})
				pool = append(pool, w)
			}
		}
	}
	// long block-size lists (files of many chunks under one node, as other writers emit them): one packed run / unpacked,
	// at and around the sizes a decoder might pre-allocate or cap at
	for _, lb := range [][2]int{{1024, 1}, {1025, 1}, {4097, 1}, {1025, 0}} {
		m := &GMsg{Type: 2}
		var run []byte
		w := protowire.AppendVarint(protowire.AppendTag(nil, 1, protowire.VarintType), 2)
		for j := 0; j < lb[0]; j++ {
			v := uint64(1 + j%5)
			m.BlockSizes = append(m.BlockSizes, v)
			if lb[1] == 1 {
				run = protowire.AppendVarint(run, v)
			} else {
				w = protowire.AppendVarint(protowire.AppendTag(w, 4, protowire.VarintType), v)
			}
		}
		if lb[1] == 1 {
			w = protowire.AppendBytes(protowire.AppendTag(w, 4, protowire.BytesType), run)
		}
		emit(CodecInput{Kind: "data", Class: "conformant", Wire: hex.EncodeToString(w), Msg: m, Present: fmt.Sprintf("long-blocksizes-%d-packed=%d", lb[0], lb[1])})
	}
	kinds := []string{"data", "data", "time", "meta"}
	for i := 0; i < nMal; i++ {
		base := pool[rng.Intn(len(pool))]
		w := mutateBytes(base, rng)
		emit(CodecInput{Kind: kinds[rng.Intn(len(kinds))], Class: "malformed", Wire: hex.EncodeToString(w)})
	}
	cf.Flush()
}

var otherMsg data.UnixFSData

// otherMessage: a small fixed message, different from everything generated
func otherMessage() data.UnixFSData {
	if otherMsg == nil {
		n, err := data.DecodeUnixFSData([]byte{8, 2, 18, 5, 'o', 't', 'h', 'e', 'r', 24, 5})
		must(err)
		otherMsg = n
	}
	return otherMsg
}
