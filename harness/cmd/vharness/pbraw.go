package main

// dag-pb blocks written byte by byte: the decoder accepts link lists in any order (the encoder of go-codec-dagpb
// always sorts them by name), so blocks whose links are out of order exist in the wild only from other writers.

import (
	"github.com/ipfs/go-cid"
	"github.com/multiformats/go-multihash"
	"google.golang.org/protobuf/encoding/protowire"
)

type rawLink struct {
	Name  *string
	Tsize *uint64
	Cid   cid.Cid
}

func encodePBRaw(links []rawLink, data []byte, hasData bool) []byte {
	var out []byte
	for _, l := range links {
		var lb []byte
		lb = protowire.AppendBytes(protowire.AppendTag(lb, 1, protowire.BytesType), l.Cid.Bytes())
		if l.Name != nil {
			lb = protowire.AppendBytes(protowire.AppendTag(lb, 2, protowire.BytesType), []byte(*l.Name))
		}
		if l.Tsize != nil {
			lb = protowire.AppendVarint(protowire.AppendTag(lb, 3, protowire.VarintType), *l.Tsize)
		}
		out = protowire.AppendBytes(protowire.AppendTag(out, 2, protowire.BytesType), lb)
	}
	if hasData {
		out = protowire.AppendBytes(protowire.AppendTag(out, 1, protowire.BytesType), data)
	}
	return out
}

// PutPBRaw stores a hand-encoded dag-pb block under its CIDv1
func (s *Store) PutPBRaw(b []byte) cid.Cid {
	h, _ := multihash.Sum(b, multihash.SHA2_256, -1)
	c := cid.NewCidV1(cid.DagProtobuf, h)
	s.Blocks[c.KeyString()] = append([]byte(nil), b...)
	return c
}

// PutIdentity stores a block under an identity-multihash CID of the given codec (the bytes are the digest; the link
// system still asks the storage for it)
func (s *Store) PutIdentity(codec uint64, b []byte) cid.Cid {
	h, _ := multihash.Sum(b, multihash.IDENTITY, -1)
	c := cid.NewCidV1(codec, h)
	s.Blocks[c.KeyString()] = append([]byte(nil), b...)
	return c
}
