package main

// The data builder API (data/builder/builder.go): every message assembled through BuildUnixFS and its option functions
// is encoded, read by the reference decoder (gogo unixfs_pb) and compared with the message that was asked for;
// Permissions / PermissionsString keep the low twelve bits; Mtime / Time / Seconds / FractionalNanoseconds (C09).

import (
	"encoding/hex"
	"fmt"
	"time"

	gproto "github.com/gogo/protobuf/proto"
	pb "github.com/ipfs/boxo/ipld/unixfs/pb"
	"github.com/ipfs/go-unixfsnode/data"
	dbuilder "github.com/ipfs/go-unixfsnode/data/builder"
)

type BuilderAPIInput struct {
	Type       int64    `json:"type"`
	Data       *string  `json:"data,omitempty"`
	FileSize   *uint64  `json:"filesize,omitempty"`
	BlockSizes []uint64 `json:"blocksizes,omitempty"`
	HashType   *uint64  `json:"hashtype,omitempty"`
	Fanout     *uint64  `json:"fanout,omitempty"`
	Mode       *int     `json:"mode,omitempty"`
	ModeString *string  `json:"modestring,omitempty"`
	Seconds    *int64   `json:"seconds,omitempty"`
	Nanos      *int32   `json:"nanos,omitempty"`
	UseTime    bool     `json:"usetime,omitempty"` // Time(time.Unix(sec, nsec)) instead of Seconds + FractionalNanoseconds
	NoType     bool     `json:"notype,omitempty"`  // leave the type to the builder's default (File)
}

func defaultModeOf(t int64) uint32 {
	switch t {
	case data.Data_File:
		return 0o644
	case data.Data_Directory, data.Data_HAMTShard:
		return 0o755
	}
	return 0
}

func runBuilderAPI(rep *Report, in BuilderAPIInput) {
	fail := func(sig, what string, exp, got interface{}) {
		rep.Fail("C09", "codec/builder-"+sig, what, in, exp, got)
	}
	var nd data.UnixFSData
	o := guard(func() error {
		var err error
		nd, err = dbuilder.BuildUnixFS(func(b *dbuilder.Builder) {
			if !in.NoType {
				dbuilder.DataType(b, in.Type)
			}
			if in.Data != nil {
				raw, _ := hex.DecodeString(*in.Data)
				dbuilder.Data(b, raw)
			}
			if in.FileSize != nil {
				dbuilder.FileSize(b, *in.FileSize)
			}
			if in.BlockSizes != nil {
				dbuilder.BlockSizes(b, in.BlockSizes)
			}
			if in.HashType != nil {
				dbuilder.HashType(b, *in.HashType)
			}
			if in.Fanout != nil {
				dbuilder.Fanout(b, *in.Fanout)
			}
			if in.Mode != nil {
				dbuilder.Permissions(b, *in.Mode)
			}
			if in.ModeString != nil {
				dbuilder.PermissionsString(b, *in.ModeString)
			}
			if in.Seconds != nil {
				dbuilder.Mtime(b, func(tb dbuilder.TimeBuilder) {
					if in.UseTime {
						ns := int64(0)
						if in.Nanos != nil {
							ns = int64(*in.Nanos)
						}
						dbuilder.Time(tb, time.Unix(*in.Seconds, ns))
					} else {
						dbuilder.Seconds(tb, *in.Seconds)
						if in.Nanos != nil {
							dbuilder.FractionalNanoseconds(tb, *in.Nanos)
						}
					}
				})
			}
		})
		return err
	})
	if o.Class != "ok" {
		fail("error", "BuildUnixFS failed or panicked on a valid message", "a node", o.Class)
		return
	}
	// what was asked for
	typ := in.Type
	if in.NoType {
		typ = data.Data_File
	}
	var wantMode *uint32
	if in.Mode != nil {
		v := uint32(*in.Mode) & 0xFFF
		wantMode = &v
	}
	if in.ModeString != nil {
		var v uint64
		s := *in.ModeString
		if len(s) > 0 && s[0] == '0' {
			fmt.Sscanf(s, "%o", &v)
		} else {
			fmt.Sscanf(s, "%d", &v)
		}
		m := uint32(v) & 0xFFF
		wantMode = &m
	}
	// permission bits reported by the node: low twelve bits of the mode, or the type default
	wantPerm := int(defaultModeOf(typ))
	if wantMode != nil {
		wantPerm = int(*wantMode)
	}
	if got := nd.Permissions(); got != wantPerm {
		fail("permissions", "Permissions() of a built node is not the low twelve bits of the requested mode (or the type default)", wantPerm, got)
	}
	enc := data.EncodeUnixFSData(nd)
	var ref pb.Data
	if err := gproto.Unmarshal(enc, &ref); err != nil {
		fail("ref-rejects", "the reference decoder rejects the encoding of a built node", nil, err.Error())
		return
	}
	got := msgOfPb(&ref)
	want := &GMsg{Type: typ, Data: in.Data, FileSize: in.FileSize, BlockSizes: in.BlockSizes, HashType: in.HashType, Fanout: in.Fanout}
	if wantMode != nil && *wantMode != defaultModeOf(typ) {
		want.Mode = wantMode // a mode equal to the type default is elided on encode
	}
	if in.Seconds != nil {
		want.Mtime = &GTime{Seconds: *in.Seconds}
		if in.Nanos != nil {
			n := uint32(*in.Nanos)
			want.Mtime.Nanos = &n
		} else if in.UseTime {
			z := uint32(0)
			want.Mtime.Nanos = &z
		}
	}
	if msgJSON(got) != msgJSON(want) {
		fail("differs", "the reference decoder reads something else than the message that was built", msgJSON(want), msgJSON(got))
	}
	// and this library reads its own encoding back to the same node (permission bits included)
	back, err := data.DecodeUnixFSData(enc)
	if err != nil {
		fail("self-rejects", "DecodeUnixFSData rejects the encoding of a built node", nil, err.Error())
		return
	}
	if back.Permissions() != wantPerm {
		fail("permissions-roundtrip", "permission bits do not survive encode/decode", wantPerm, back.Permissions())
	}
}

func scnCodecBuilder(rep *Report, rng *Rng, tier string) {
	n := 600
	if tier == "thorough" {
		n = 20000
	} else if tier == "search" {
		n = 3000
	}
	u64 := func() *uint64 {
		v := []uint64{0, 1, 1 << 31, 1<<32 - 1, 1 << 40, 1<<63 - 1}[rng.Intn(6)]
		if rng.Intn(3) == 0 {
			v = uint64(rng.Intn(100000))
		}
		return &v
	}
	for i := 0; i < n; i++ {
		in := BuilderAPIInput{Type: int64(rng.Intn(6))}
		if rng.Intn(8) == 0 {
			in.NoType = true
		}
		if rng.Intn(2) == 0 {
			s := hex.EncodeToString(rng.Bytes(rng.Intn(5)))
			in.Data = &s
		}
		if rng.Intn(2) == 0 {
			in.FileSize = u64()
		}
		if rng.Intn(2) == 0 {
			k := rng.Intn(4)
			in.BlockSizes = []uint64{}
			for j := 0; j < k; j++ {
				in.BlockSizes = append(in.BlockSizes, *u64())
			}
		}
		if rng.Intn(3) == 0 {
			in.HashType = u64()
		}
		if rng.Intn(3) == 0 {
			in.Fanout = u64()
		}
		switch rng.Intn(4) {
		case 0:
			m := []int{0, 0o644, 0o755, 0o777, 0o7777, 0o17777, 0o100644, 0o40755, 1 << 20, 0xFFF, 0x1000, 0o4755, 0o1000}[rng.Intn(13)]
			in.Mode = &m
		case 1:
			s := []string{"0644", "0755", "644", "755", "0777", "07777", "0100644", "493", "420", "4095", "4096", "0", "00"}[rng.Intn(13)]
			in.ModeString = &s
		}
		if rng.Intn(2) == 0 {
			sec := []int64{0, 1, -1, 1 << 31, 1<<40 + 7, -(1 << 33), 1700000000}[rng.Intn(7)]
			in.Seconds = &sec
			if rng.Intn(3) != 0 {
				ns := []int32{0, 1, 999999999, 500000000, 123456789}[rng.Intn(5)]
				in.Nanos = &ns
			}
			in.UseTime = rng.Intn(3) == 0
		}
		runBuilderAPI(rep, in)
		key := fmt.Sprintf("builder-%d", i)
		rep.Count("C09", key, true, in)
		rep.Dist("C09", "builder-api")
	}
}
