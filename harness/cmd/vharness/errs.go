package main

import (
	"errors"

	"github.com/ipld/go-ipld-prime/datamodel"
	"github.com/ipld/go-ipld-prime/schema"
)

func asFault(err error, fe *FaultErr) bool { return errors.As(err, fe) }

func isNoSuchField(err error) bool {
	var e schema.ErrNoSuchField
	if errors.As(err, &e) {
		return true
	}
	var e2 datamodel.ErrNotExists
	return errors.As(err, &e2)
}

func isOverread(err error) bool {
	var e datamodel.ErrIteratorOverread
	return errors.As(err, &e)
}
