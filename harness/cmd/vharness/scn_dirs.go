package main

// Scenario "dirs": plain directories / generic link maps over arbitrary link lists (C15, C02 plain part).

import (
	"bytes"
	"encoding/json"
	"fmt"

	"github.com/ipfs/go-cid"
	"github.com/ipfs/go-unixfsnode"
	"github.com/ipfs/go-unixfsnode/data"
	"github.com/ipfs/go-unixfsnode/data/builder"
	"github.com/ipfs/go-unixfsnode/iter"
	dagpb "github.com/ipld/go-codec-dagpb"
	"github.com/ipld/go-ipld-prime"
	"github.com/ipld/go-ipld-prime/datamodel"
	"github.com/ipld/go-ipld-prime/fluent/qp"
	cidlink "github.com/ipld/go-ipld-prime/linking/cid"
	"github.com/ipld/go-ipld-prime/node/basicnode"
)

type DLink struct {
	Name   *string `json:"name"` // nil = absent
	Target int     `json:"target"`
	Tsize  *int64  `json:"tsize,omitempty"`
}

type DirsInput struct {
	Links   []DLink  `json:"links"`
	Kind    string   `json:"kind"`    // dir | nodata | symlink | metadata | garbage
	Encoded bool     `json:"encoded"` // round trip through the dag-pb codec (which sorts the links)
	Keys    []string `json:"keys"`
}

type nativeDir interface {
	Iterator() *iter.UnixFSDir__Itr
	Lookup(key dagpb.String) dagpb.Link
}

func targetCid(id int) cid.Cid { return rawCid([]byte(fmt.Sprintf("target-%d", id))) }

var targetIDs = map[string]int{}

func idOfCid(c cid.Cid) int {
	if id, ok := targetIDs[c.KeyString()]; ok {
		return id
	}
	return -1
}

func init() {
	for i := 0; i < 64; i++ {
		targetIDs[targetCid(i).KeyString()] = i
	}
	scenarios["dirs"] = scnDirs
	replayers["dirs"] = func(raw json.RawMessage) []Failure {
		var in DirsInput
		must(json.Unmarshal(raw, &in))
		_, fails, _ := runDirsCase(in)
		return fails
	}
}

func buildPBNode(links []DLink, dataBytes []byte, hasData bool) datamodel.Node {
	n, err := qp.BuildMap(dagpb.Type.PBNode, -1, func(ma datamodel.MapAssembler) {
		qp.MapEntry(ma, "Links", qp.List(int64(len(links)), func(la datamodel.ListAssembler) {
			for _, l := range links {
				l := l
				qp.ListEntry(la, qp.Map(-1, func(ma datamodel.MapAssembler) {
					qp.MapEntry(ma, "Hash", qp.Link(cidlink.Link{Cid: targetCid(l.Target)}))
					if l.Name != nil {
						qp.MapEntry(ma, "Name", qp.String(*l.Name))
					}
					if l.Tsize != nil {
						qp.MapEntry(ma, "Tsize", qp.Int(*l.Tsize))
					}
				}))
			}
		}))
		if hasData {
			qp.MapEntry(ma, "Data", qp.Bytes(dataBytes))
		}
	})
	must(err)
	return n
}

func dirDataFor(kind string) ([]byte, bool) {
	mk := func(t int64, payload []byte) []byte {
		n, err := builder.BuildUnixFS(func(b *builder.Builder) {
			builder.DataType(b, t)
			if payload != nil {
				builder.Data(b, payload)
			}
		})
		must(err)
		return data.EncodeUnixFSData(n)
	}
	switch kind {
	case "dir":
		return mk(data.Data_Directory, nil), true
	case "symlink":
		return mk(data.Data_Symlink, []byte("x/y")), true
	case "metadata":
		return mk(data.Data_Metadata, nil), true
	case "garbage":
		return []byte{0xff, 0xff, 0xff}, true
	default:
		return nil, false
	}
}

type DirsObs struct {
	NodeLinks []DLink // links in the order of the node actually reified
	Length    int64
	Iter      [][2]string // key, target id (as string) from MapIterator
	IterDone  bool        // Done() after Length pairs
	Over      Outcome     // Next after the end
	Native    [][2]string
	Lookups   []Outcome // per key, by string
	LookupIDs []int
	Agree     bool
}

func linkID(n datamodel.Node) int {
	l, err := n.AsLink()
	if err != nil {
		return -2
	}
	return idOfCid(l.(cidlink.Link).Cid)
}

func runDirsCase(in DirsInput) (obs DirsObs, fails []Failure, ok bool) {
	fail := func(sig, what string, exp, got interface{}) {
		fails = append(fails, Failure{"C15", "dirs/" + sig, what, in, exp, got})
	}
	db, hasData := dirDataFor(in.Kind)
	node := buildPBNode(in.Links, db, hasData)
	if in.Encoded {
		var buf bytes.Buffer
		must(dagpb.Encode(node, &buf))
		nb := dagpb.Type.PBNode.NewBuilder()
		must(dagpb.DecodeBytes(nb, buf.Bytes()))
		node = nb.Build()
	}
	// the link list as the reified node sees it
	pbn := node.(dagpb.PBNode)
	li := pbn.Links.Iterator()
	for !li.Done() {
		_, l := li.Next()
		dl := DLink{Target: idOfCid(l.Hash.Link().(cidlink.Link).Cid)}
		if l.Name.Exists() {
			s := l.Name.Must().String()
			dl.Name = &s
		}
		obs.NodeLinks = append(obs.NodeLinks, dl)
	}
	st := NewStore()
	ls := st.LinkSystemReify()
	var rn datamodel.Node
	o := guard(func() error {
		var err error
		rn, err = unixfsnode.Reify(ipld.LinkContext{}, node, ls)
		return err
	})
	if o.Class != "ok" {
		fail("reify-"+o.Class, "Reify of a link map failed", "ok", o.Class)
		return obs, fails, false
	}
	if rn.Kind() != datamodel.Kind_Map {
		fail("kind", "reified directory is not map kind", "map", rn.Kind().String())
		return obs, fails, false
	}
	obs.Length = rn.Length()
	// map iterator
	o = guard(func() error {
		it := rn.MapIterator()
		steps := 0
		for !it.Done() {
			steps++
			if steps > len(in.Links)+8 {
				return fmt.Errorf("iteration does not terminate")
			}
			k, v, err := it.Next()
			if err != nil {
				return err
			}
			ks, err := k.AsString()
			if err != nil {
				return err
			}
			obs.Iter = append(obs.Iter, [2]string{ks, fmt.Sprint(linkID(v))})
		}
		obs.IterDone = it.Done()
		_, _, err := it.Next()
		obs.Over = classify(err)
		return nil
	})
	if o.Class != "ok" {
		fail("iter-"+o.Class, "map iteration failed", "ok", o.Class)
		return obs, fails, false
	}
	nd, isNative := rn.(nativeDir)
	if !isNative {
		fail("native", "reified node lacks native accessors", nil, fmt.Sprintf("%T", rn))
		return obs, fails, false
	}
	o = guard(func() error {
		it := nd.Iterator()
		steps := 0
		for !it.Done() {
			steps++
			if steps > len(in.Links)+8 {
				return fmt.Errorf("iteration does not terminate")
			}
			k, v := it.Next()
			if k == nil || v == nil {
				return fmt.Errorf("nil from native iterator")
			}
			obs.Native = append(obs.Native, [2]string{k.String(), fmt.Sprint(idOfCid(v.Link().(cidlink.Link).Cid))})
		}
		return nil
	})
	if o.Class != "ok" {
		fail("native-iter-"+o.Class, "native iteration failed", "ok", o.Class)
		return obs, fails, false
	}
	obs.Agree = true
	for _, k := range in.Keys {
		var id int = -1
		var r1 Outcome
		r1 = guard(func() error {
			v, err := rn.LookupByString(k)
			if err != nil {
				return err
			}
			id = linkID(v)
			return nil
		})
		obs.Lookups = append(obs.Lookups, r1)
		obs.LookupIDs = append(obs.LookupIDs, id)
		// the other entry points
		id2, id3, id4 := -1, -1, -1
		r2 := guard(func() error {
			v, err := rn.LookupByNode(basicnode.NewString(k))
			if err != nil {
				return err
			}
			id2 = linkID(v)
			return nil
		})
		r3 := guard(func() error {
			v, err := rn.LookupBySegment(datamodel.PathSegmentOfString(k))
			if err != nil {
				return err
			}
			id3 = linkID(v)
			return nil
		})
		r4 := guard(func() error {
			sb := dagpb.Type.String.NewBuilder()
			must(sb.AssignString(k))
			v := nd.Lookup(sb.Build().(dagpb.String))
			if v == nil {
				return nil
			}
			id4 = idOfCid(v.Link().(cidlink.Link).Cid)
			return nil
		})
		if r2 != r1 || r3 != r1 || id2 != id || id3 != id || r4.Class != "ok" || id4 != id {
			obs.Agree = false
			fail("entrypoints", "lookup entry points disagree", fmt.Sprint(r1, id), fmt.Sprint(r2, id2, r3, id3, r4, id4))
		}
	}
	// ---- direct property oracle (C15)
	if int64(len(obs.Iter)) != obs.Length {
		fail("iter-count", "iteration yields a different number of pairs than Length", obs.Length, len(obs.Iter))
	}
	if !obs.IterDone {
		fail("iter-done", "iterator not done after Length pairs", true, false)
	}
	if obs.Over.Class != "overread" {
		fail("overread", "Next after the end is not the over-read error", "overread", obs.Over.Class)
	}
	if fmt.Sprint(obs.Native) != fmt.Sprint(obs.Iter) {
		fail("native-iter", "native iterator and map iterator disagree", obs.Iter, obs.Native)
	}
	yielded := map[string][]string{}
	for _, p := range obs.Iter {
		yielded[p[0]] = append(yielded[p[0]], p[1])
	}
	for i, k := range in.Keys {
		ids, was := yielded[k]
		switch {
		case was && obs.Lookups[i].Class != "ok":
			fail("yielded-not-found", "a yielded key is not found by lookup", "ok", obs.Lookups[i].Class)
		case was:
			found := false
			for _, x := range ids {
				if x == fmt.Sprint(obs.LookupIDs[i]) {
					found = true
				}
			}
			if !found {
				fail("lookup-foreign-link", "lookup resolves to a link never yielded under that key", ids, obs.LookupIDs[i])
			}
		case !was && obs.Lookups[i].Class != "notfound":
			fail("unyielded-found", "a key never yielded is not reported not-found", "notfound", obs.Lookups[i].Class)
		}
	}
	return obs, fails, true
}

func coqDLinks(ls []DLink) string {
	xs := make([]string, len(ls))
	for i, l := range ls {
		n := "None"
		if l.Name != nil {
			n = "(Some " + coqBytes([]byte(*l.Name)) + ")"
		}
		xs[i] = fmt.Sprintf("(%s, %d)", n, l.Target)
	}
	return coqList(xs)
}

func scnDirs(rep *Report, rng *Rng, tier string, outdir string) {
	n := 400
	if tier == "thorough" {
		n = 20000
	}
	alphabet := []string{"", "a", "b", "ab", "a ", "é", "A", "aa", "0", "1", "2", "-1", "07"} // names that read as list indexes included
	kinds := []string{"dir", "dir", "nodata", "symlink", "metadata", "garbage"}
	cf := NewCaseFile(rep, outdir, "cases_dirs", "UV.Corr.Dirs", "mismatches_dirs", 100)
	rep.P("C15").Rule = "random dag-pb link lists (0..12 links; names absent/empty/duplicated from a 13-symbol alphabet incl. integer-looking ones; any order or codec-sorted) reified as plain directory / generic link map; distinct = distinct (link list, kind); non-trivial = at least 2 links"
	nLong := 16
	for i := 0; i < n+nLong; i++ {
		in := DirsInput{Kind: kinds[rng.Intn(len(kinds))], Encoded: rng.Intn(3) == 0}
		nl := rng.Intn(13)
		if i < 13 {
			nl = i // make sure every length occurs
		}
		if i >= n {
			// long lists with distinct names in no particular order (in memory, or written by another encoder: the
			// decoder does not ask for sorted links)
			in.Kind, in.Encoded = []string{"dir", "nodata"}[i%2], false
			cnt := []int{31, 32, 33, 34, 48, 64, 65, 100}[(i-n)%8]
			perm := rng.Perm(cnt)
			for _, j := range perm {
				s := fmt.Sprintf("n%03d", j)
				in.Links = append(in.Links, DLink{Target: j % 8, Name: &s})
				in.Keys = append(in.Keys, s)
			}
			in.Keys = append(in.Keys, "zz", "n", "")
			nl = 0
		}
		for j := 0; j < nl; j++ {
			l := DLink{Target: rng.Intn(8)}
			switch rng.Intn(6) {
			case 0: // absent
			default:
				s := rng.Pick(alphabet)
				l.Name = &s
			}
			in.Links = append(in.Links, l)
		}
		if i < n {
			in.Keys = append(append([]string{}, alphabet...), "zz", "Links", "Data", "Hash")
		}
		obs, fails, ok := runDirsCase(in)
		for _, f := range fails {
			rep.Fail(f.Property, f.Signature, f.What, f.Input, f.Expected, f.Observed)
		}
		key, _ := json.Marshal([]interface{}{in.Links, in.Kind, in.Encoded})
		rep.Count("C15", string(key), len(in.Links) >= 2, in)
		rep.Dist("C15", fmt.Sprintf("links=%d", len(in.Links)))
		rep.Dist("C15", "kind="+in.Kind)
		if !ok {
			continue
		}
		// Coq case
		iter := make([]string, len(obs.Iter))
		for j, p := range obs.Iter {
			iter[j] = fmt.Sprintf("(%s, %s)", coqBytes([]byte(p[0])), p[1])
		}
		lks := make([]string, len(in.Keys))
		for j, k := range in.Keys {
			lks[j] = fmt.Sprintf("(%s, %s)", coqBytes([]byte(k)), coqRes(obs.Lookups[j], fmt.Sprint(obs.LookupIDs[j])))
		}
		term := fmt.Sprintf("mk_dir_case %s %s %s %s %s %s", coqDLinks(obs.NodeLinks), coqZ(obs.Length), coqList(iter),
			coqBool(obs.IterDone), "(Err "+obs.Over.CoqErr()+")", coqList(lks))
		cf.Add(term, in)
	}
	cf.Flush()
}
