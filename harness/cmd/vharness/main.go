package main

import (
	"flag"
	"fmt"
	"os"
	"strconv"
)

type scenarioFn func(rep *Report, rng *Rng, tier string, outdir string)

var scenarios = map[string]scenarioFn{}

func main() {
	if len(os.Args) < 2 {
		fmt.Fprintln(os.Stderr, "usage: vharness <scenario> [-seed N] [-tier quick|thorough] [-out DIR] [-replay FILE]")
		os.Exit(2)
	}
	scn := os.Args[1]
	fs := flag.NewFlagSet(scn, flag.ExitOnError)
	seedS := fs.String("seed", "1", "seed")
	tier := fs.String("tier", "quick", "tier")
	out := fs.String("out", ".", "output directory")
	replay := fs.String("replay", "", "replay file")
	fs.Parse(os.Args[2:])
	seed, _ := strconv.ParseUint(*seedS, 10, 64)
	if *replay != "" {
		os.Exit(runReplay(scn, *replay))
	}
	f, ok := scenarios[scn]
	if !ok {
		fmt.Fprintln(os.Stderr, "unknown scenario", scn)
		os.Exit(2)
	}
	must(os.MkdirAll(*out, 0o755))
	rep := NewReport(scn, seed, *tier)
	f(rep, NewRng(seed, scn), *tier, *out)
	rep.Write(*out)
}
