package main

import (
	"encoding/binary"
	"testing"
)

func TestNameWithDigest(t *testing.T) {
	for i, d := range []uint64{0, 1, 0xdeadbeefcafef00d, ^uint64(0), 0x0123456789abcdef} {
		for j, o := range []uint64{0, 7, 0xffffffff00000001, uint64(i) * 977} {
			n := nameWithDigest(d, o)
			got := binary.BigEndian.Uint64(mhash(string(n)))
			if got != d {
				t.Fatalf("digest %x other %x (%d,%d): got %x", d, o, i, j, got)
			}
		}
	}
}
