package main

// Names with a chosen murmur3-x64-64 digest.  murmur3 x64_128 over exactly one 16-byte block is a bijection of the
// block onto the two state words before finalisation, and finalisation is invertible once one of its two output words
// is fixed: so for every 64-bit digest there are 2^64 sixteen-byte names, one per choice of the second word.
// (Used to place entries of a sharded directory at the last hash level, and to make two names share all 64 bits.)

import (
	"encoding/binary"
	"math/bits"
)

const (
	mC1 uint64 = 0x87c37b91114253d5
	mC2 uint64 = 0x4cf5ad432745937f
)

func modInv64(a uint64) uint64 { // a odd: inverse modulo 2^64 by Newton iteration
	x := a
	for i := 0; i < 6; i++ {
		x *= 2 - a*x
	}
	return x
}

func unxorshift33(x uint64) uint64 { return x ^ (x >> 33) } // (x ^ x>>33) is its own inverse up to 64 bits with two rounds

func fmixInv(k uint64) uint64 {
	k = unxorshift33(k)
	k *= modInv64(0xc4ceb9fe1a85ec53)
	k = unxorshift33(k)
	k *= modInv64(0xff51afd7ed558ccd)
	k = unxorshift33(k)
	return k
}

// nameWithDigest returns 16 bytes whose murmur3-x64-64 (seed 0) is digest; other selects one of the 2^64 solutions
func nameWithDigest(digest, other uint64) []byte {
	// finalisation, backwards: out1 = f1 + f2 with f1 = fmix(h1'), f2 = fmix(h2')
	f2 := other
	f1 := digest - f2
	h1p, h2p := fmixInv(f1), fmixInv(f2)
	// h1' = h1 + h2 ; h2' = h2 + h1'
	h2 := h2p - h1p
	h1 := h1p - h2
	h1 ^= 16
	h2 ^= 16
	// body, backwards (seed 0: both state words start at 0)
	inv5 := modInv64(5)
	h2 = (h2 - 0x38495ab5) * inv5
	h2 -= h1
	h2 = bits.RotateLeft64(h2, -31) // = k2 after mixing (h2 was 0 before the xor)
	k2 := h2 * modInv64(mC1)
	k2 = bits.RotateLeft64(k2, -33)
	k2 *= modInv64(mC2)
	h1 = (h1 - 0x52dce729) * inv5
	// h1 += h2 happened with the h2 of BEFORE this block's k2 mixing, i.e. 0
	h1 = bits.RotateLeft64(h1, -27)
	k1 := h1 * modInv64(mC2)
	k1 = bits.RotateLeft64(k1, -31)
	k1 *= modInv64(mC1)
	out := make([]byte, 16)
	binary.LittleEndian.PutUint64(out[0:8], k1)
	binary.LittleEndian.PutUint64(out[8:16], k2)
	return out
}
