package main

// Scenario "files": file builder and reader (C01 C04 C05 C07 C10 C11 C12 C20, file part of C06).

import (
	"bufio"
	"bytes"
	"context"
	"encoding/json"
	"fmt"
	"google.golang.org/protobuf/encoding/protowire"
	"io"
	"math"
	"sort"
	"strings"
	"sync"
	"testing/iotest"

	chunk "github.com/ipfs/boxo/chunker"
	"github.com/ipfs/go-cid"
	"github.com/ipfs/go-unixfsnode"
	"github.com/ipfs/go-unixfsnode/data"
	"github.com/ipfs/go-unixfsnode/data/builder"
	quickbuilder "github.com/ipfs/go-unixfsnode/data/builder/quick"
	"github.com/ipfs/go-unixfsnode/file"
	dagpb "github.com/ipld/go-codec-dagpb"
	"github.com/ipld/go-ipld-prime"
	"github.com/ipld/go-ipld-prime/datamodel"
	"github.com/ipld/go-ipld-prime/fluent/qp"
	cidlink "github.com/ipld/go-ipld-prime/linking/cid"
	"github.com/ipld/go-ipld-prime/node/basicnode"
)

func init() {
	scenarios["files"] = scnFiles
	replayers["files"] = func(raw json.RawMessage) []Failure {
		var in FileInput
		must(json.Unmarshal(raw, &in))
		rep := NewReport("files", 0, "replay")
		runFileInput(rep, in, nil, nil)
		return rep.Failures
	}
}

type FOp struct {
	Reader int    `json:"reader"`
	Kind   string `json:"kind"` // seek | read
	Off    int64  `json:"off"`
	Whence int    `json:"whence"`
	K      int    `json:"k"`
}

type FileInput struct {
	// how the DAG comes to exist
	Width   int      `json:"width"`
	Chunker string   `json:"chunker"`
	Size    int      `json:"size"`
	Seed    uint64   `json:"seed"`
	Ref     *refOpts `json:"ref,omitempty"`  // written by the reference importer instead of the builder
	Hand    string   `json:"hand,omitempty"` // a hand-assembled root over raw leaves (see handFile)
	// what is done with it
	Mode   string   `json:"mode"`   // build | history | faults | range | order
	Opener string   `json:"opener"` // direct | lazy | preload
	Ops    []FOp    `json:"ops,omitempty"`
	Faults [][2]int `json:"faults,omitempty"` // preorder index, kind
	A, B   int      `json:"-"`
}

func chunkLens(content []byte, chunker string) []int {
	spl, err := chunk.FromString(bytes.NewReader(content), chunker)
	must(err)
	var out []int
	for {
		b, err := spl.NextBytes()
		if err != nil {
			break
		}
		out = append(out, len(b))
	}
	return out
}

func loadRoot(st *Store, c cid.Cid) (datamodel.Node, *ipld.LinkSystem, error) {
	ls := st.LinkSystemReify()
	var proto datamodel.NodePrototype = basicnode.Prototype.Any
	if c.Prefix().Codec == cid.DagProtobuf {
		proto = dagpb.Type.PBNode
	}
	n, err := ls.Load(ipld.LinkContext{Ctx: context.Background()}, cidlink.Link{Cid: c}, proto)
	return n, ls, err
}

type lbn interface {
	AsLargeBytes() (io.ReadSeeker, error)
}

// openFile returns the node through one of the three entry points
func openFile(st *Store, c cid.Cid, opener string) (datamodel.Node, error) {
	n, ls, err := loadRoot(st, c)
	if err != nil {
		return nil, err
	}
	switch opener {
	case "direct":
		return file.NewUnixFSFile(context.Background(), n, ls)
	case "lazy":
		return unixfsnode.Reify(ipld.LinkContext{Ctx: context.Background()}, n, ls)
	case "preload":
		return ls.KnownReifiers["unixfs-preload"](ipld.LinkContext{Ctx: context.Background()}, n, ls)
	case "nodereifier":
		// the link system reifies everything it loads (LinkSystem.NodeReifier), children of the file included
		ls.NodeReifier = unixfsnode.Reify
		var proto datamodel.NodePrototype = basicnode.Prototype.Any
		if c.Prefix().Codec == cid.DagProtobuf {
			proto = dagpb.Type.PBNode
		}
		return ls.Load(ipld.LinkContext{Ctx: context.Background()}, cidlink.Link{Cid: c}, proto)
	}
	return nil, fmt.Errorf("unknown opener")
}

func readFull(r io.Reader, k int) ([]byte, Outcome) {
	buf := make([]byte, k)
	n, idle := 0, 0
	for n < k {
		var m int
		var err error
		o := guard(func() error {
			m, err = r.Read(buf[n:])
			return err
		})
		if o.Class == "panic" {
			return buf[:n], o
		}
		n += m
		if err != nil {
			return buf[:n], o
		}
		if m == 0 {
			idle++
			if idle > 1000 {
				return buf[:n], Outcome{Class: "other"}
			}
		}
	}
	return buf, Outcome{Class: "ok"}
}

func coqStatus(o Outcome) string {
	switch o.Class {
	case "ok":
		return "StOk"
	case "eof":
		return "StEOF"
	case "panic":
		return "(StErr EOther)"
	}
	return "(StErr " + o.CoqErr() + ")"
}

func coqNList(xs []int) string {
	s := make([]string, len(xs))
	for i, x := range xs {
		s[i] = fmt.Sprint(x)
	}
	return coqList(s)
}

// spans of the unfolded tree: for each preorder position the [start,end) of content it covers
func spans(n *DNode, start int, out *[][2]int) int {
	idx := len(*out)
	*out = append(*out, [2]int{start, start})
	end := start
	switch {
	case n.Missing:
	case n.IsRaw:
		end = start + len(n.Content)
	case len(n.Links) == 0:
		if n.HasData {
			if ud, err := data.DecodeUnixFSData(n.Data); err == nil && ud.FieldData().Exists() {
				end = start + len(ud.FieldData().Must().Bytes())
			}
		}
	default:
		for _, l := range n.Links {
			end = spans(l.Target, end, out)
		}
	}
	(*out)[idx][1] = end
	return end
}

type fileCtx struct {
	st      *Store
	root    cid.Cid
	dag     *DNode
	order   []*DNode
	index   map[string]int
	content []byte
	lens    []int
	srcTerm string // Coq fsrc
}

func (fc *fileCtx) loadsOf(reads []cid.Cid) []int {
	out := make([]int, len(reads))
	for i, c := range reads {
		if ix, ok := fc.index[c.KeyString()]; ok {
			out[i] = ix
		} else {
			out[i] = 999999
		}
	}
	return out
}

func makeFile(in FileInput) (*fileCtx, error) {
	fc := &fileCtx{st: NewStore()}
	fc.content = synthContent(in.Seed, in.Size)
	var err error
	if in.Hand != "" {
		fc.root, fc.content = handFile(fc.st, in.Hand)
	} else if in.Ref != nil {
		fc.root, _, err = refImport(fc.st, *in.Ref, fc.content)
	} else {
		fc.root, _, err = buildFile(fc.st, in.Width, in.Chunker, fc.content)
	}
	if err != nil {
		return nil, err
	}
	fc.dag = dumpDAG(fc.st, fc.root, map[string]*DNode{})
	preorder(fc.dag, &fc.order)
	// blocks are what the model indexes by: two links with different CIDs over the same bytes (sha2-256 and identity) are
	// one block there, so the first position of equal BYTES (per codec) is the index of both
	fc.index = map[string]int{}
	byBytes := map[string]int{}
	for i, n := range fc.order {
		bk := fmt.Sprintf("%d:%x", n.Cid.Prefix().Codec, fc.st.Blocks[n.Cid.KeyString()])
		if n.Missing {
			bk = "missing:" + n.Cid.KeyString()
		}
		if _, ok := byBytes[bk]; !ok {
			byBytes[bk] = i
		}
		if _, ok := fc.index[n.Cid.KeyString()]; !ok {
			fc.index[n.Cid.KeyString()] = byBytes[bk]
		}
	}
	if in.Ref != nil || in.Hand != "" {
		fc.srcTerm = "(FDump " + coqBlk(fc.dag) + ")"
	} else {
		fc.lens = chunkLens(fc.content, in.Chunker)
		fc.srcTerm = fmt.Sprintf("(FBuilt %d %s %d)", in.Width, coqNList(fc.lens), in.Seed)
	}
	return fc, nil
}

// runFileInput executes one input; cfB / cfR receive Coq cases when non-nil
func runFileInput(rep *Report, in FileInput, cfB, cfR *CaseFile) {
	fail := func(prop, sig, what string, exp, got interface{}) {
		rep.Fail(prop, "files/"+sig, what, in, exp, got)
	}
	switch in.Mode {
	case "build":
		runBuildCase(rep, in, cfB, fail)
		return
	case "concurrent":
		runConcurrentBuilds(in, fail)
		return
	}
	if handUnreadable[in.Hand] || (strings.HasPrefix(in.Hand, "nosizes-") && in.Mode == "faults") {
		// a root whose links cannot be measured: no content to compare with, the replies are compared with the model only.
		// Unsized children under unavailable blocks: the oracles are noSizesFaultReads', the replies go to the model
		fail = func(prop, sig, what string, exp, got interface{}) {}
	}
	fc, err := makeFile(in)
	if err != nil {
		fail("C01", "build-error", "building the file failed", nil, err.Error())
		return
	}
	for _, f := range in.Faults {
		if f[0] < len(fc.order) {
			// equal blocks share a CID: the first fault listed for a CID decides (as fault_of in Corr/Files.v)
			if _, dup := fc.st.Unavailable[fc.order[f[0]].Cid.KeyString()]; !dup {
				fc.st.Unavailable[fc.order[f[0]].Cid.KeyString()] = uint64(f[1])
			}
		}
	}
	// the root itself must be loadable to obtain a node at all
	delete(fc.st.Unavailable, fc.root.KeyString())
	var node datamodel.Node
	var preloadReads []cid.Cid
	o := guard(func() error {
		var err error
		node, err = openFile(fc.st, fc.root, in.Opener)
		return err
	})
	for i, c := range fc.st.Reads {
		if i > 0 || !c.Equals(fc.root) { // skip the request for the root itself
			preloadReads = append(preloadReads, c)
		}
	}
	if o.Class != "ok" {
		if in.Opener == "preload" && len(in.Faults) > 0 && o.Class == "load" {
			return // expected: C06 handles this
		}
		fail("C01", "open-"+o.Class, "opening the file node failed", "ok", o.Class)
		return
	}
	var readers [4]io.ReadSeeker
	getReader := func(i int) (io.ReadSeeker, error) {
		if readers[i] != nil {
			return readers[i], nil
		}
		l, ok := node.(lbn)
		if !ok {
			b, err := node.AsBytes()
			if err != nil {
				return nil, err
			}
			readers[i] = bytes.NewReader(b)
			return readers[i], nil
		}
		r, err := l.AsLargeBytes()
		if err != nil {
			return nil, err
		}
		readers[i] = r
		return r, nil
	}
	// in every other input the readers are all obtained before the first operation (two readers of one node taken
	// back to back must still be independent), otherwise each at its first use
	if len(in.Ops)%2 == 0 {
		maxR := -1
		for _, op := range in.Ops {
			if op.Reader > maxR {
				maxR = op.Reader
			}
		}
		for i := 0; i <= maxR; i++ {
			_ = guard(func() error { _, err := getReader(i); return err })
		}
	}
	// abstract ReadSeeker per reader (C04 oracle)
	var pos [4]int64
	n := int64(len(fc.content))
	// spans for C05 / C12
	var sp [][2]int
	spans(fc.dag, 0, &sp)
	emptyBad := false
	firstBad := -1 // content position where the first unavailable block starts
	var badKind uint64
	if len(in.Faults) > 0 {
		for i, nd := range fc.order {
			if i == 0 {
				continue
			}
			if k, bad := fc.st.Unavailable[nd.Cid.KeyString()]; bad {
				// a block is needed only if it covers at least one byte, or is an interior node with children
				if sp[i][1] > sp[i][0] && (firstBad == -1 || sp[i][0] < firstBad) {
					firstBad = sp[i][0]
					badKind = k
				}
				if sp[i][1] == sp[i][0] {
					// an empty block lying behind the reader's position is requested all the same (only empty blocks at
					// the position itself are stepped over): where the error falls is left to the model comparison
					emptyBad = true
				}
			}
		}
	}
	var obsTerms []string
	var opTerms []string
	var pending []cid.Cid // blocks requested while seeking are charged to the next read
	if in.Mode == "order" && in.Opener == "preload" {
		// the preloading reification itself is the full read whose order is observed
		pending = append(pending, preloadReads...)
	}
	for _, op := range in.Ops {
		r, err := getReader(op.Reader)
		if err != nil {
			fail("C01", "reader", "AsLargeBytes failed", nil, err.Error())
			return
		}
		fc.st.ResetLog()
		switch op.Kind {
		case "seek":
			var got int64
			o := guard(func() error {
				var err error
				got, err = r.Seek(op.Off, op.Whence)
				return err
			})
			if !strings.HasPrefix(in.Hand, "nosizes-") { // measuring done by Seek(…, SeekEnd) over unsized children is not modelled as requests
				pending = append(pending, fc.st.Reads...)
			}
			opTerms = append(opTerms, fmt.Sprintf("(%d, OpSeek %s %d)", op.Reader, coqZ(op.Off), op.Whence))
			obsTerms = append(obsTerms, "(BSeek "+coqRes(o, coqZ(got))+")")
			// oracle
			var target int64
			switch op.Whence {
			case io.SeekStart:
				target = op.Off
			case io.SeekCurrent:
				target = pos[op.Reader] + op.Off
			case io.SeekEnd:
				target = n + op.Off
			}
			if target < 0 {
				if o.Class == "ok" {
					fail("C04", "negative-seek-accepted", "Seek before offset zero returned no error", "error", fmt.Sprint("ok ", got))
				} else if o.Class == "panic" {
					fail("C04", "seek-panic", "Seek panicked", "error", "panic")
				}
			} else {
				if o.Class != "ok" {
					fail("C04", "seek-"+o.Class, "Seek to a valid position failed", target, o.Class)
				} else if got != target {
					fail("C04", "seek-offset", "Seek returned a wrong absolute offset", target, got)
				}
				pos[op.Reader] = target
			}
		case "read":
			got, o := readFull(r, op.K)
			if in.Mode == "order" && in.Opener == "preload" {
				fc.st.Reads = nil // a preloaded node re-requests blocks when read again; the order observed is the preload's
			}
			fc.st.Reads = append(append([]cid.Cid{}, pending...), fc.st.Reads...)
			pending = nil
			loads := fc.loadsOf(fc.st.Reads)
			opTerms = append(opTerms, fmt.Sprintf("(%d, OpRead %s)", op.Reader, coqZ(int64(op.K))))
			obsTerms = append(obsTerms, fmt.Sprintf("(BRead %s %s %s)", coqBytes(got), coqStatus(o), coqNList(loads)))
			p := pos[op.Reader]
			// expected bytes
			var want []byte
			wantStatus := "ok"
			if p >= n {
				wantStatus = "eof"
			} else {
				end := p + int64(op.K)
				if end > n {
					end = n
					wantStatus = "eof"
				}
				want = fc.content[p:end]
			}
			if len(in.Faults) == 0 {
				if o.Class == "panic" {
					fail("C04", "read-panic", "Read panicked", wantStatus, "panic")
				} else if !bytes.Equal(got, want) {
					fail("C04", "read-bytes", "Read returned bytes that are not the content at the current offset", fmt.Sprintf("%d bytes at %d", len(want), p), fmt.Sprintf("%d bytes, equal prefix %d", len(got), commonPrefix(got, want)))
				} else if o.Class != wantStatus {
					fail("C04", "read-status", "Read returned a wrong status", wantStatus, o.Class)
				}
				// C05: only blocks whose span meets [p, p+k)
				if in.Mode == "range" && op.K > 0 {
					a, b := int(p), int(p)+op.K
					allowed := map[string]bool{}
					for i, nd := range fc.order {
						if sp[i][0] < b && sp[i][1] > a {
							allowed[nd.Cid.KeyString()] = true
						}
					}
					for _, c := range fc.st.Reads {
						if !allowed[c.KeyString()] {
							sig := "extra-block"
							if strings.HasPrefix(in.Hand, "nosizes-") {
								sig = "nosizes-extra-block" // children without a declared size are all opened to be measured
							}
							fail("C05", sig, "a block whose byte span does not meet the requested range was fetched", fmt.Sprintf("range [%d,%d)", a, b), fc.index[c.KeyString()])
							break
						}
					}
				}
			} else if in.Mode == "faults" && !emptyBad {
				// C12: exact prefix before the first unavailable block, then its error, never EOF
				if firstBad >= 0 && p+int64(op.K) > int64(firstBad) && p <= int64(firstBad) {
					wantPrefix := fc.content[p:firstBad]
					if o.Class == "panic" {
						fail("C12", "read-panic", "Read panicked on an unavailable block", "load error", "panic")
					} else if !bytes.Equal(got, wantPrefix) {
						fail("C12", "fault-bytes", "bytes before an unavailable block are not exactly the preceding content", len(wantPrefix), len(got))
					} else if o.Class != "load" || o.Kind != badKind {
						fail("C12", "fault-status", "an unavailable block did not surface as its load error", fmt.Sprint("load ", badKind), fmt.Sprint(o.Class, " ", o.Kind))
					}
				} else if firstBad < 0 || p+int64(op.K) <= int64(firstBad) {
					if !bytes.Equal(got, want) || o.Class != wantStatus {
						fail("C12", "fault-free-part", "a read not touching any unavailable block went wrong", wantStatus, o.Class)
					}
				}
			}
			pos[op.Reader] += int64(len(got))
			if in.Mode == "order" {
				// C20: first requests in depth-first link order
				var wantOrder []int
				seen := map[int]bool{0: true}
				for _, nd := range fc.order {
					if ix := fc.index[nd.Cid.KeyString()]; !seen[ix] {
						seen[ix] = true
						wantOrder = append(wantOrder, ix)
					}
				}
				var gotOrder []int
				seenGot := map[int]bool{}
				for _, ix := range fc.loadsOf(fc.st.Reads) {
					if !seenGot[ix] {
						seenGot[ix] = true
						gotOrder = append(gotOrder, ix)
					}
				}
				if fmt.Sprint(gotOrder) != fmt.Sprint(wantOrder) {
					sig := "read-order"
					if in.Hand == "empty-leading-leaf" {
						sig = "leading-empty-read-order" // an empty child at the very start of its parent is never requested
					} else if strings.HasPrefix(in.Hand, "nosizes-") {
						sig = "nosizes-read-order" // children without a declared size are opened (measured) before anything is read
					}
					fail("C20", sig, "blocks of a full sequential read are not first requested in depth-first link order", wantOrder, gotOrder)
				}
			}
		}
	}
	if in.Mode == "faults" && len(in.Faults) > 0 {
		// AsBytes is io.ReadAll over a fresh reader: it fails exactly when a fresh streamed read to the end fails
		if n3, err := openFile(fc.st, fc.root, in.Opener); err == nil {
			if l3, ok := n3.(lbn); ok {
				var streamed, whole Outcome
				var nStream, nWhole int
				streamed = guard(func() error {
					r, err := l3.AsLargeBytes()
					if err != nil {
						return err
					}
					b, err := io.ReadAll(r)
					nStream = len(b)
					return err
				})
				whole = guard(func() error {
					b, err := n3.AsBytes()
					nWhole = len(b)
					return err
				})
				if streamed.Class != "panic" && whole.Class != "panic" && (streamed.Class != whole.Class || (streamed.Class == "ok" && nStream != nWhole)) {
					fail("C12", "asbytes-vs-stream", "AsBytes and a streamed read to the end of the same file disagree while a block is unavailable", fmt.Sprint(streamed.Class, " ", nStream), fmt.Sprint(whole.Class, " ", nWhole))
				}
			}
		}
	}
	if in.Mode == "faults" && firstBad >= 0 && !emptyBad {
		// the whole value: AsBytes needs every block, so it must report an error, never a (shortened) value -
		// also when the storage's own error is io.ErrUnexpectedEOF, which a buffer-filling read may mistake for "done"
		for _, sentinel := range []bool{false, true} {
			if sentinel {
				fc.st.ReadHook = func(c cid.Cid) error {
					if _, bad := fc.st.Unavailable[c.KeyString()]; bad {
						return io.ErrUnexpectedEOF
					}
					return nil
				}
			}
			var n2 datamodel.Node
			oo := guard(func() error {
				var err error
				n2, err = openFile(fc.st, fc.root, in.Opener)
				return err
			})
			if oo.Class == "ok" {
				var b []byte
				ob := guard(func() error {
					var err error
					b, err = n2.AsBytes()
					return err
				})
				if ob.Class == "panic" {
					fail("C12", "asbytes-panic", "AsBytes panicked on an unavailable block", "error", "panic")
				} else if ob.Class == "ok" {
					fail("C12", "asbytes-truncated", "AsBytes returned a value although a block of the file is unavailable", "load error", fmt.Sprintf("%d of %d bytes, nil error (storage error io.ErrUnexpectedEOF: %v)", len(b), len(fc.content), sentinel))
				}
				// the same node asked again (a node is a value: nothing a failed call left behind may turn the next answer into a value),
				// then a fresh reader from it read to the end
				for again := 2; again <= 3; again++ {
					oa := guard(func() error {
						var err error
						b, err = n2.AsBytes()
						return err
					})
					if oa.Class == "ok" && ob.Class != "ok" {
						fail("C12", "asbytes-again-truncated", "a repeated AsBytes on the same node returned a value although a block of the file is unavailable (the first call reported the error)", "load error", fmt.Sprintf("call %d: %d of %d bytes, nil error", again, len(b), len(fc.content)))
						break
					}
				}
				if l2, isL := n2.(lbn); isL && ob.Class != "ok" {
					var nb int
					os2 := guard(func() error {
						r, err := l2.AsLargeBytes()
						if err != nil {
							return err
						}
						bb, err := io.ReadAll(r)
						nb = len(bb)
						return err
					})
					if os2.Class == "ok" {
						fail("C12", "stream-after-asbytes-truncated", "a reader obtained after a failed AsBytes on the same node read to end-of-file although a block of the file is unavailable", "load error", fmt.Sprintf("%d of %d bytes, EOF", nb, len(fc.content)))
					}
				}
			}
			fc.st.ReadHook = nil
		}
	}
	if strings.HasPrefix(in.Hand, "nosizes-") {
		// children measured by opening them: compared with the extended reader model (File/Unsized.v), bytes and statuses
		cfR = cfUnsized
	}
	if cfR != nil {
		fl := make([]string, len(in.Faults))
		for i, f := range in.Faults {
			fl[i] = fmt.Sprintf("(%d, %d)", f[0], f[1])
		}
		cfR.Add(fmt.Sprintf("mk_fread %s %s %s %s", fc.srcTerm, coqList(fl), coqList(opTerms), coqList(obsTerms)), in)
	}
}

// hand-built file roots that the reader supports although no builder writes them: links but no BlockSizes (child sizes
// are found by opening the children), with raw or dag-pb leaves, with and without a FileSize.  Preloading such a file must
// still fetch every child, or fail when one is unavailable (C06); reading it returns the concatenation (C01).
func runNoSizesFiles(rep *Report) {
	for _, combo := range [][3]bool{{false, false, false}, {false, true, false}, {true, false, false}, {true, true, false}, {false, false, true}, {false, true, true}, {true, false, true}, {true, true, true}} {
		{
			pbLeaves, withFileSize, single := combo[0], combo[1], combo[2]
			in := map[string]interface{}{"mode": "no-blocksizes-file", "pb_leaves": pbLeaves, "filesize": withFileSize, "single_link": single}
			fail := func(prop, sig, what string, exp, got interface{}) { rep.Fail(prop, "files/"+sig, what, in, exp, got) }
			st := NewStore()
			chunks := [][]byte{[]byte("first-chunk-"), []byte("second"), []byte("third-and-last-chunk")}
			if single {
				chunks = chunks[:1] // a root with exactly one link
			}
			var kids []cid.Cid
			var content []byte
			for _, c := range chunks {
				content = append(content, c...)
				if pbLeaves {
					fs := uint64(len(c))
					n, err := qp.BuildMap(dagpb.Type.PBNode, -1, func(ma datamodel.MapAssembler) {
						qp.MapEntry(ma, "Links", qp.List(0, func(la datamodel.ListAssembler) {}))
						qp.MapEntry(ma, "Data", qp.Bytes(ufsData(2, c, true, &fs, nil, nil, nil)))
					})
					must(err)
					k, err := st.PutPB(n, false)
					must(err)
					kids = append(kids, k)
				} else {
					kids = append(kids, st.PutRaw(c))
				}
			}
			var fsz *uint64
			if withFileSize {
				v := uint64(len(content))
				fsz = &v
			}
			rootN, err := qp.BuildMap(dagpb.Type.PBNode, -1, func(ma datamodel.MapAssembler) {
				qp.MapEntry(ma, "Links", qp.List(int64(len(kids)), func(la datamodel.ListAssembler) {
					for i, k := range kids {
						k := k
						sz := int64(len(st.Blocks[k.KeyString()]))
						_ = i
						qp.ListEntry(la, qp.Map(-1, func(ma datamodel.MapAssembler) {
							qp.MapEntry(ma, "Hash", qp.Link(cidlink.Link{Cid: k}))
							qp.MapEntry(ma, "Name", qp.String(""))
							qp.MapEntry(ma, "Tsize", qp.Int(sz))
						}))
					}
				}))
				qp.MapEntry(ma, "Data", qp.Bytes(ufsData(2, nil, false, fsz, nil, nil, nil)))
			})
			must(err)
			root, err := st.PutPB(rootN, false)
			must(err)
			// every block present: preload fetches every child; both views read the content back
			for _, opener := range []string{"lazy", "preload"} {
				var nd datamodel.Node
				o := guard(func() error {
					var err error
					nd, err = openFile(st, root, opener)
					return err
				})
				if o.Class != "ok" {
					fail("C01", "nosizes-open", "opening a file root without BlockSizes failed", "ok", opener+": "+o.Class)
					continue
				}
				if opener == "preload" {
					seen := map[string]bool{}
					for _, c := range st.Reads {
						seen[c.KeyString()] = true
					}
					for i, k := range kids {
						if !seen[k.KeyString()] {
							fail("C06", "nosizes-preload-incomplete", "preload reification of a file did not fetch every block of the file", fmt.Sprintf("child %d requested", i), "not requested")
							break
						}
					}
				}
				var got []byte
				ob := guard(func() error {
					var err error
					got, err = nd.AsBytes()
					return err
				})
				if ob.Class == "panic" {
					fail("C13", "nosizes-panic", "reading a file root without BlockSizes panicked", "bytes or error", "panic")
				} else if ob.Class == "ok" && !bytes.Equal(got, content) {
					fail("C01", "nosizes-content", "a file root without BlockSizes does not read back to the concatenation of its leaves", len(content), len(got))
				}
			}
			// every single child unavailable: preload must fail
			for i, k := range kids {
				st.Unavailable = map[string]uint64{k.KeyString(): 1}
				o := guard(func() error {
					_, err := openFile(st, root, "preload")
					return err
				})
				if o.Class == "panic" {
					fail("C13", "nosizes-preload-panic", "preload of a file with an unavailable block panicked", "error", "panic")
				} else if o.Class == "ok" {
					fail("C06", "nosizes-preload-partial", "preload reification returned a node although a block of the file is unavailable", "error", fmt.Sprintf("ok (child %d missing)", i))
				}
			}
			st.Unavailable = map[string]uint64{}
			noSizesFaultReads(rep, st, root, content, kids, in)
			key, _ := json.Marshal(in)
			for _, p := range []string{"C06", "C01", "C12"} {
				rep.Count(p, string(key), true, in)
				rep.Dist(p, "no-blocksizes-file")
			}
		}
	}
	// the same two levels deep (interior children that have to be opened to be measured), every block below the root
	// unavailable in turn
	{
		st := NewStore()
		next := 0
		before := map[string]bool{}
		root, content := buildNoSizesTree(st, 2, 3, &next)
		var below []cid.Cid
		for k := range st.Blocks {
			if !before[k] && k != root.KeyString() {
				_, c, err := cid.CidFromBytes([]byte(k))
				must(err)
				below = append(below, c)
			}
		}
		sort.Slice(below, func(i, j int) bool { return below[i].KeyString() < below[j].KeyString() })
		in := map[string]interface{}{"mode": "no-blocksizes-tree", "depth": 2, "fan": 3}
		noSizesFaultReads(rep, st, root, content, below, in)
		key, _ := json.Marshal(in)
		rep.Count("C12", string(key), true, in)
		rep.Dist("C12", "no-blocksizes-file")
	}
}

// noSizesFaultReads: with one block below the root unavailable, a whole-value read and a streamed read through the
// plain and the lazy view end in the load error, having delivered only bytes of the content's front (C12): neither a
// shortened value without an error nor end-of-file
func noSizesFaultReads(rep *Report, st *Store, root cid.Cid, content []byte, blocks []cid.Cid, in map[string]interface{}) {
	fail := func(prop, sig, what string, exp, got interface{}) { rep.Fail(prop, "files/"+sig, what, in, exp, got) }
	defer func() { st.Unavailable = map[string]uint64{} }()
	// where in the content each block's span starts (first occurrence in the depth-first walk)
	dag := dumpDAG(st, root, map[string]*DNode{})
	var order []*DNode
	preorder(dag, &order)
	var sp [][2]int
	spans(dag, 0, &sp)
	spanStart := map[string]int{}
	for i, nd := range order {
		if _, seen := spanStart[nd.Cid.KeyString()]; !seen {
			spanStart[nd.Cid.KeyString()] = sp[i][0]
		}
	}
	for i, k := range blocks {
		for _, kind := range []uint64{1, 2} {
			for _, opener := range []string{"direct", "lazy"} {
				st.Unavailable = map[string]uint64{k.KeyString(): kind}
				nd, err := openFile(st, root, opener)
				if err != nil {
					continue
				}
				var got []byte
				o := guard(func() error {
					var err error
					got, err = nd.AsBytes()
					return err
				})
				desc := fmt.Sprintf("%s, block %d unavailable (kind %d)", opener, i, kind)
				switch o.Class {
				case "panic":
					fail("C13", "nosizes-fault-panic", "reading a file with an unavailable block panicked", "error", desc)
				case "ok", "eof":
					fail("C12", "nosizes-fault-asbytes", "AsBytes of a file with an unavailable block returned a value instead of the load error", "load error", fmt.Sprintf("%s: %s, %d of %d bytes", desc, o.Class, len(got), len(content)))
				}
				lb, ok := nd.(lbn)
				if !ok {
					continue
				}
				r, err := lb.AsLargeBytes()
				if err != nil {
					continue
				}
				var acc []byte
				var last Outcome
				for steps := 0; steps < len(content)+8; steps++ {
					b, oc := readFull(r, 7)
					acc = append(acc, b...)
					last = oc
					if oc.Class != "ok" {
						break
					}
				}
				switch {
				case last.Class == "panic":
					fail("C13", "nosizes-fault-panic", "streaming a file with an unavailable block panicked", "error", desc)
				case last.Class == "ok" || last.Class == "eof":
					fail("C12", "nosizes-fault-stream", "a streamed read of a file with an unavailable block ended without the load error", "load error", fmt.Sprintf("%s: %s after %d of %d bytes", desc, last.Class, len(acc), len(content)))
				case !bytes.HasPrefix(content, acc) || len(acc) > spanStart[k.KeyString()]:
					fail("C12", "nosizes-fault-prefix", "bytes delivered before the load error are not the content preceding the unavailable block", spanStart[k.KeyString()], fmt.Sprintf("%s: %d bytes, equal prefix %d", desc, len(acc), commonPrefix(acc, content)))
				case len(acc) < spanStart[k.KeyString()]:
					// children without a BlockSizes entry are all measured (opened) before the first byte is delivered
					fail("C12", "nosizes-fault-early-error", "the load error of an unavailable block surfaces before all the bytes preceding its span were delivered (file node whose children have no BlockSizes entry)", fmt.Sprintf("%d bytes, then the error", spanStart[k.KeyString()]), fmt.Sprintf("%s: %d bytes, then the error", desc, len(acc)))
				}
			}
		}
	}
}

// emptyFirstReader returns (0, nil) from its first Read and after every second delivery: allowed by io.Reader
// ("discouraged"), e.g. an io.Pipe whose writer starts with an empty Write
type emptyFirstReader struct {
	r io.Reader
	n int
}

func (e *emptyFirstReader) Read(p []byte) (int, error) {
	e.n++
	if e.n%2 == 1 {
		return 0, nil
	}
	return e.r.Read(p)
}

// buildNoSizesTree stores a file DAG of the given depth whose interior nodes carry links but neither BlockSizes nor
// FileSize (child sizes must be measured by opening the children), over dag-pb leaves with inline data
func buildNoSizesTree(st *Store, depth int, fan int, next *int) (cid.Cid, []byte) {
	if depth == 0 {
		*next++
		c := []byte(fmt.Sprintf("leaf-%03d;", *next))
		fs := uint64(len(c))
		n, err := qp.BuildMap(dagpb.Type.PBNode, -1, func(ma datamodel.MapAssembler) {
			qp.MapEntry(ma, "Links", qp.List(0, func(la datamodel.ListAssembler) {}))
			qp.MapEntry(ma, "Data", qp.Bytes(ufsData(2, c, true, &fs, nil, nil, nil)))
		})
		must(err)
		k, err := st.PutPB(n, false)
		must(err)
		return k, c
	}
	var kids []cid.Cid
	var content []byte
	for i := 0; i < fan; i++ {
		k, c := buildNoSizesTree(st, depth-1, fan, next)
		kids = append(kids, k)
		content = append(content, c...)
	}
	rootN, err := qp.BuildMap(dagpb.Type.PBNode, -1, func(ma datamodel.MapAssembler) {
		qp.MapEntry(ma, "Links", qp.List(int64(len(kids)), func(la datamodel.ListAssembler) {
			for _, k := range kids {
				k := k
				qp.ListEntry(la, qp.Map(-1, func(ma datamodel.MapAssembler) {
					qp.MapEntry(ma, "Hash", qp.Link(cidlink.Link{Cid: k}))
					qp.MapEntry(ma, "Name", qp.String(""))
					qp.MapEntry(ma, "Tsize", qp.Int(int64(len(st.Blocks[k.KeyString()]))))
				}))
			}
		}))
		qp.MapEntry(ma, "Data", qp.Bytes(ufsData(2, nil, false, nil, nil, nil, nil)))
	})
	must(err)
	root, err := st.PutPB(rootN, false)
	must(err)
	return root, content
}

func commonPrefix(a, b []byte) int {
	i := 0
	for i < len(a) && i < len(b) && a[i] == b[i] {
		i++
	}
	return i
}

// walkSizes recomputes cumulative sizes from the tree of stored blocks
func walkSizes(st *Store, n *DNode, fail func(prop, sig, what string, exp, got interface{})) (cum uint64, contentLen uint64) {
	enc := uint64(len(st.Blocks[n.Cid.KeyString()]))
	if n.IsRaw {
		return enc, uint64(len(n.Content))
	}
	cum = enc
	var childContent []uint64
	for i, l := range n.Links {
		c, cl := walkSizes(st, l.Target, fail)
		cum += c
		contentLen += cl
		childContent = append(childContent, cl)
		if l.Tsize == nil || uint64(*l.Tsize) != c {
			fail("C11", "tsize", "a link's Tsize is not the cumulative size of its target", c, fmt.Sprint("link ", i, " ", l.Tsize))
		}
	}
	if n.HasData && len(n.Links) > 0 {
		ud, err := data.DecodeUnixFSData(n.Data)
		if err != nil {
			fail("C11", "data", "interior node data does not decode", nil, err.Error())
			return
		}
		if !ud.FieldFileSize().Exists() || uint64(ud.FieldFileSize().Must().Int()) != contentLen {
			fail("C11", "filesize", "declared FileSize is not the content size beneath the node", contentLen, "differs")
		}
		var bs []uint64
		it := ud.FieldBlockSizes().Iterator()
		for !it.Done() {
			_, v := it.Next()
			bs = append(bs, uint64(v.Int()))
		}
		if fmt.Sprint(bs) != fmt.Sprint(childContent) {
			fail("C11", "blocksizes", "declared BlockSizes are not the content sizes beneath the children", childContent, bs)
		}
	}
	return
}

func runBuildCase(rep *Report, in FileInput, cf *CaseFile, fail func(prop, sig, what string, exp, got interface{})) {
	content := synthContent(in.Seed, in.Size)
	st := NewStore()
	root, size, err := buildFile(st, in.Width, in.Chunker, content)
	if err != nil {
		fail("C01", "build-error", "BuildUnixFSFile failed", nil, err.Error())
		// the reference importer gives every content, chunker setting and width >= 2 a root: no root is not the same root
		if _, _, rerr := refImport(NewStore(), refOpts{Width: in.Width, Chunker: in.Chunker, RawLeaves: true}, content); rerr == nil {
			fail("C07", "build-error-ref-ok", "BuildUnixFSFile failed on an input for which the reference balanced importer returns a root", "a root link", err.Error())
		}
		return
	}
	dag := dumpDAG(st, root, map[string]*DNode{})
	// the size-K splitter as the model states it (File/Chunker.v): K, K, ..., K, r with 1 <= r <= K, summing to the input
	var kk int
	if n, _ := fmt.Sscanf(in.Chunker, "size-%d", &kk); n == 1 && kk > 0 {
		lens := chunkLens(content, in.Chunker)
		sum := 0
		okShape := true
		for i, l := range lens {
			sum += l
			if l < 1 || l > kk || (i < len(lens)-1 && l != kk) {
				okShape = false
			}
		}
		if !okShape || sum != len(content) {
			fail("C01", "size-chunker-shape", "the size-K splitter does not cut the input into K-byte chunks with one shorter last chunk (harness / reference library)", kk, lens)
		}
	}
	// reference
	rst := NewStore()
	rroot, rsize, rerr := refImport(rst, refOpts{Width: in.Width, Chunker: in.Chunker, RawLeaves: true}, content)
	if rerr != nil {
		fail("C07", "ref-error", "reference importer failed (harness)", nil, rerr.Error())
		return
	}
	rdag := dumpDAG(rst, rroot, map[string]*DNode{})
	if !root.Equals(rroot) {
		fail("C07", "cid", "root link differs from the reference balanced importer's", rroot.String(), root.String())
	}
	if size != rsize {
		fail("C07", "size", "returned size differs from the reference importer's Size()", rsize, size)
	}
	// C11
	cum, clen := walkSizes(st, dag, fail)
	if cum != size {
		fail("C11", "returned-size", "returned size is not the cumulative size of the tree", cum, size)
	}
	if clen != uint64(len(content)) {
		fail("C11", "content-size", "content size beneath the root differs from the input length", len(content), clen)
	}
	// C01: read back through every entry point
	for _, opener := range []string{"direct", "lazy", "preload"} {
		var got []byte
		o := guard(func() error {
			n, err := openFile(st, root, opener)
			if err != nil {
				return err
			}
			got, err = n.AsBytes()
			if err != nil {
				return err
			}
			if l, ok := n.(lbn); ok {
				r, err := l.AsLargeBytes()
				if err != nil {
					return err
				}
				end, err := r.Seek(0, io.SeekEnd)
				if err != nil {
					return err
				}
				if end != int64(len(content)) {
					return fmt.Errorf("seek-to-end reports %d", end)
				}
			}
			return nil
		})
		if o.Class != "ok" {
			fail("C01", "readback-"+opener+"-"+o.Class, "reading the built file back failed", "ok", o.Class)
		} else if !bytes.Equal(got, content) {
			fail("C01", "readback-"+opener+"-bytes", "the built file does not read back to the original bytes", len(content), fmt.Sprintf("%d bytes, equal prefix %d", len(got), commonPrefix(got, content)))
		}
	}
	// C10: same input again, and through fragmenting readers
	for i, mk := range []func() io.Reader{
		func() io.Reader { return bytes.NewReader(content) },
		func() io.Reader { return iotest.OneByteReader(bytes.NewReader(content)) },
		func() io.Reader { return iotest.HalfReader(bytes.NewReader(content)) },
		func() io.Reader { return iotest.DataErrReader(bytes.NewReader(content)) },
		func() io.Reader { return &emptyFirstReader{r: bytes.NewReader(content)} },
		func() io.Reader { return struct{ io.Reader }{bytes.NewReader(content)} }, // no Len / Seek / WriteTo to shortcut through
		func() io.Reader { return bufio.NewReaderSize(bytes.NewReader(content), 16) },
		func() io.Reader {
			// a seekable source whose first bytes were consumed already: the content is what the reader still delivers
			r := bytes.NewReader(append([]byte("16-byte header.."), content...))
			_, _ = io.CopyN(io.Discard, r, 16)
			return r
		},
	} {
		st2 := NewStore()
		r2, s2, err := buildFileFrom(st2, in.Width, in.Chunker, mk())
		if err != nil {
			fail("C10", "rebuild-error", "rebuilding failed", nil, err.Error())
		} else if !r2.Equals(root) || s2 != size {
			fail("C10", fmt.Sprintf("fragmentation-%d", i), "link or size depends on the run or on the reader's fragmentation", fmt.Sprint(root, size), fmt.Sprint(r2, s2))
			if n2, err := openFile(st2, r2, "direct"); err == nil {
				if got, err := n2.AsBytes(); err == nil && !bytes.Equal(got, content) {
					fail("C01", fmt.Sprintf("source-reader-%d", i), "the file built from a reader does not read back to the bytes that reader delivered", len(content), fmt.Sprintf("%d bytes, equal prefix %d", len(got), commonPrefix(got, content)))
				}
			}
		}
	}
	if cf != nil {
		lens := chunkLens(content, in.Chunker)
		// the reference's other layouts over the same chunks: compared with File/Trickle.v, whose DAGs are proved well-sized for
		// every width and chunk list
		// raw-leaf trickle, protobuf-leaf trickle, protobuf-leaf balanced (the raw-leaf balanced DAG is `rdag` above)
		refs := []string{"None", "None", "None"}
		if len(lens) > 0 {
			for ri, ro := range []refOpts{{Width: in.Width, Chunker: in.Chunker, RawLeaves: true, Trickle: true}, {Width: in.Width, Chunker: in.Chunker, Trickle: true}, {Width: in.Width, Chunker: in.Chunker}} {
				tst := NewStore()
				troot, tsize, terr := refImport(tst, ro, content)
				if terr != nil {
					fail("C01", "ref-layout-error", "the reference importer failed (harness / reference library)", nil, terr.Error())
				} else {
					refs[ri] = fmt.Sprintf("(Some (%d, %d))", dumpDAG(tst, troot, map[string]*DNode{}).FP(), tsize)
				}
			}
		}
		tr := strings.Join(refs, " ")
		cf.Add(fmt.Sprintf("mk_fbuild %d %s %d (Some (%d, %d)) (Some (%d, %d)) %s", in.Width, coqNList(lens), in.Seed, dag.FP(), size, rdag.FP(), rsize, tr), in)
	}
}

var cfUnsized, cfTransient *CaseFile

func scnFiles(rep *Report, rng *Rng, tier string, outdir string) {
	cfB := NewCaseFile(rep, outdir, "cases_fbuild", "UV.Corr.Files", "mismatches_fbuild", 25)
	cfUnsized = NewCaseFile(rep, outdir, "cases_ufread", "UV.Corr.Files", "mismatches_ufread", 40)
	cfTransient = NewCaseFile(rep, outdir, "cases_tread", "UV.Corr.Files", "mismatches_tread", 40)
	defer func() { cfUnsized, cfTransient = nil, nil }()
	cfRs := map[string]*CaseFile{}
	for _, m := range []string{"history", "range", "order", "faults"} {
		cfRs[m] = NewCaseFile(rep, outdir, "cases_fread_"+m, "UV.Corr.Files", "mismatches_fread_loads", 40)
	}
	if tier == "search" {
		cfB = nil
		cfRs = map[string]*CaseFile{}
		cfUnsized, cfTransient = nil, nil
	}
	buildProps := []string{"C01", "C07", "C10", "C11"}
	for _, p := range buildProps {
		rep.P(p).Rule = "builds: widths 2..5 x every chunk count 0..W^3+2 (all balanced shapes up to depth 4, size-1 chunks) + random widths 2..174 / chunk sizes / counts + rabin and buzhash chunkers; each built DAG compared with the Coq builder model (fingerprint+size), with boxo balanced.Layout (CID+size), walked for sizes, read back through 3 entry points, rebuilt from 4 fragmenting readers; distinct = distinct (width, chunker, size, seed); non-trivial = at least 2 chunks"
	}
	rep.P("C01").Exhaustive = false
	addBuild := func(in FileInput) {
		in.Mode = "build"
		cfUse := cfB
		if in.Width > 1000 && tier != "thorough" {
			cfUse = nil // quick tier: the wide tree is compared with the reference importer only (60 s in the model)
		}
		if (in.Size > 200000 && tier != "thorough") || in.Size > 700000 {
			cfUse = nil // the content fingerprint of megabytes takes minutes in Coq: reference importer, size walk and read-back only
		}
		runFileInput(rep, in, cfUse, nil)
		key := fmt.Sprint(in.Width, in.Chunker, in.Size, in.Seed)
		nchunks := 0
		if in.Size > 0 {
			nchunks = len(chunkLens(synthContent(in.Seed, in.Size), in.Chunker))
		}
		for _, p := range buildProps {
			rep.Count(p, key, nchunks >= 2, in)
			rep.Dist(p, fmt.Sprintf("width=%d", in.Width))
			rep.Dist(p, fmt.Sprintf("depth=%d", depthFor(in.Width, nchunks)))
		}
	}
	maxW := 5
	if tier == "search" {
		maxW = 4
	}
	for w := 2; w <= maxW; w++ {
		lim := w*w*w + 2
		for n := 0; n <= lim; n++ {
			addBuild(FileInput{Width: w, Chunker: "size-1", Size: n, Seed: uint64(w)})
		}
	}
	// the default chunker (chunker string "") on contents of at most one chunk: also in the quick tier
	for _, n := range []int{0, 1, 1000, 4097} {
		addBuild(FileInput{Width: 174, Chunker: "", Size: n, Seed: uint64(50 + n%7)})
	}
	// the largest chunks a chunker string can ask for (chunk.ChunkSizeLimit = 1 MiB): one full chunk, one byte more, two and a bit
	for _, n := range []int{1048576, 1048577, 2*1048576 + 5} {
		addBuild(FileInput{Width: 2, Chunker: "size-1048576", Size: n, Seed: 11})
	}
	// several builds through one LinkSystem at the same time
	for _, cb := range []FileInput{{Width: 4, Chunker: "size-16", Size: 3000, Seed: 500, Mode: "concurrent"}, {Width: 8, Chunker: "size-48", Size: 200, Seed: 900, Mode: "concurrent"}} {
		runFileInput(rep, cb, nil, nil)
		for _, p := range []string{"C10", "C11"} {
			rep.Count(p, fmt.Sprint("concurrent", cb.Width, cb.Chunker), true, cb)
			rep.Dist(p, "concurrent-builds")
		}
	}
	// a very wide tree: more links per node than any size-derived cap (one root over 25000 leaves)
	addBuild(FileInput{Width: 30000, Chunker: "size-1", Size: 25000, Seed: 7})
	// deep, narrow trees (depth 8..10)
	deep := [][2]int{{2, 127}, {2, 128}, {2, 129}, {2, 130}, {2, 255}, {2, 256}, {2, 257}, {2, 258}, {3, 728}, {3, 730}}
	if tier == "thorough" {
		deep = append(deep, [2]int{2, 513}, [2]int{2, 1025}, [2]int{3, 2187}, [2]int{3, 2188}, [2]int{4, 4097})
	}
	for _, d := range deep {
		addBuild(FileInput{Width: d[0], Chunker: "size-1", Size: d[1], Seed: 7})
	}
	nRand := 60
	if tier == "thorough" {
		nRand = 3000
		for w := 6; w <= 7; w++ {
			for n := 0; n <= w*w*w+2; n++ {
				addBuild(FileInput{Width: w, Chunker: "size-1", Size: n, Seed: uint64(w)})
			}
		}
	} else if tier == "search" {
		nRand = 400
	}
	for i := 0; i < nRand; i++ {
		w := 2 + rng.Intn(8)
		switch rng.Intn(5) {
		case 0:
			w = 174
		case 1:
			w = 2 + rng.Intn(40)
		}
		k := 1 + rng.Intn(5)
		nch := rng.Intn(60)
		if w == 174 {
			nch = 170 + rng.Intn(12)
			k = 1 + rng.Intn(2)
		}
		size := nch*k - rng.Intn(k)
		if size < 0 {
			size = 0
		}
		seed := uint64(rng.Intn(256))
		if rng.Intn(6) == 0 {
			seed = 1000 // constant content below: repeated chunks
		}
		addBuild(FileInput{Width: w, Chunker: fmt.Sprintf("size-%d", k), Size: size, Seed: seed})
	}
	for _, ch := range []string{"rabin-16-32-64", "buzhash", "rabin-32-64-128", ""} {
		sz := 3000 + rng.Intn(1000)
		if ch == "buzhash" || ch == "" {
			sz = 600000 + rng.Intn(1000)
			if tier != "thorough" {
				continue // needs 0.5 MB of content in the Coq case; thorough only
			}
		}
		addBuild(FileInput{Width: 2 + rng.Intn(3), Chunker: ch, Size: sz, Seed: uint64(rng.Intn(256))})
	}
	// builds must not depend on what the process built before: a content-defined chunking whose first W chunks have the
	// mean size of the first one (but are not all equal), right after / before the fixed-size file with W chunks of
	// exactly that size (the same child count and the same total under the root)
	{
		found := 0
		for seed := uint64(0); seed < 6000 && found < 3; seed++ {
			content := synthContent(seed, 150)
			lens := chunkLens(content, "rabin-16-32-64")
			for _, w := range []int{3, 4} {
				if len(lens) < w {
					continue
				}
				sum, same := 0, true
				for _, l := range lens[:w] {
					sum += l
					same = same && l == lens[0]
				}
				if same || sum != w*lens[0] {
					continue
				}
				found++
				fixed := FileInput{Width: w, Chunker: fmt.Sprintf("size-%d", lens[0]), Size: w * lens[0], Seed: seed + 1}
				cd := FileInput{Width: w, Chunker: "rabin-16-32-64", Size: 150, Seed: seed}
				addBuild(fixed)
				addBuild(cd)
				addBuild(fixed)
				break
			}
		}
		rep.Dist("C07", fmt.Sprintf("mean-equals-first sequences=%d", found))
	}
	cfBFlush(cfB)
	runNoSizesFiles(rep)
	runQuickSizes(rep)

	// ---- read histories, ranges, orders, faults ----
	readProps := map[string]string{
		"history": "C04", "range": "C05", "order": "C20", "faults": "C12",
	}
	rep.P("C04").Rule = "Seek/Read histories (1..40 ops over 1..3 readers of one node; offsets from {negative, 0, chunk boundaries +-1, interior, len, len+d} x 3 whences; reads normalised by a ReadFull loop) over builder- and reference-written files opened directly / lazily / preloaded; compared with the abstract ReadSeeker and with the Coq reader model; distinct = distinct (file, history); non-trivial = at least one Seek followed by a Read on a multi-block file"
	rep.P("C05").Rule = "ranges [a,b) on and around chunk boundaries read after Seek(a) through the lazy view with a recording store; every requested block must have a byte span meeting [a,b); request sequence compared with the Coq model; distinct = distinct (file, a, b); non-trivial = multi-block file and b>a"
	rep.P("C20").Rule = "full sequential reads with varying buffer sizes: first-request order vs an independent depth-first walk and vs the Coq model; distinct = distinct (file, buffer); non-trivial = at least 3 blocks"
	rep.P("C12").Rule = "every single unavailable block (exhaustive per file) and random subsets, two error kinds; sequential reads must return exactly the preceding content and then the load error; compared with the Coq model under the same fault set; distinct = distinct (file, fault set, buffer); non-trivial = an interior or leaf block other than the root is unavailable"
	addRead := func(in FileInput) {
		runFileInput(rep, in, nil, cfRs[in.Mode])
		prop := readProps[in.Mode]
		key, _ := json.Marshal([]interface{}{in.Width, in.Chunker, in.Size, in.Seed, in.Ref, in.Hand, in.Opener, in.Ops, in.Faults})
		nontrivial := in.Size > 2
		rep.Count(prop, string(key), nontrivial, in)
		rep.Dist(prop, "opener="+in.Opener)
		if in.Ref != nil {
			rep.Dist(prop, "ref="+describeOpts(*in.Ref))
			rep.Count("C01", string(key), nontrivial, in)
			rep.Dist("C01", "ref="+describeOpts(*in.Ref))
		}
		rep.Dist(prop, fmt.Sprintf("ops=%d", len(in.Ops)/8*8))
	}
	openers3 := []string{"direct", "lazy", "preload"}
	type fspec struct {
		w, k, size int
		seed       uint64
		ref        *refOpts
	}
	var specs []fspec
	for _, s := range [][3]int{{2, 1, 7}, {2, 2, 13}, {3, 1, 10}, {3, 2, 41}, {2, 3, 30}, {4, 1, 18}, {2, 1, 1}, {2, 1, 0}, {3, 4, 100}, {5, 2, 61}} {
		specs = append(specs, fspec{w: s[0], k: s[1], size: s[2], seed: uint64(rng.Intn(200))})
	}
	// larger chunks with a short tail (children of very different sizes under one parent)
	for _, s := range [][3]int{{3, 100, 340}, {2, 70, 370}, {4, 128, 385}, {2, 300, 664}, {5, 65, 65*4 + 64}} {
		specs = append(specs, fspec{w: s[0], k: s[1], size: s[2], seed: uint64(rng.Intn(200))})
	}
	// single-block files (one raw leaf; one dag-pb node with inline data): their readers come from a different type
	specs = append(specs, fspec{w: 2, k: 40, size: 33, seed: uint64(rng.Intn(200))}, fspec{w: 3, k: 16, size: 16, seed: uint64(rng.Intn(200))})
	specs = append(specs, fspec{w: 3, k: 64, size: 20 + rng.Intn(8), seed: uint64(rng.Intn(200)), ref: &refOpts{Width: 3, Chunker: "size-64", RawLeaves: false}})
	// constant content: sibling links to the same block
	specs = append(specs, fspec{w: 3, k: 2, size: 20, seed: 1000 + uint64(rng.Intn(200))}, fspec{w: 2, k: 1, size: 9, seed: 1000 + uint64(rng.Intn(200))})
	for _, tr := range []bool{false, true} {
		for _, raw := range []bool{true, false} {
			for _, v0 := range []bool{false, true} {
				specs = append(specs, fspec{w: 3, k: 2, size: 23 + rng.Intn(8), seed: uint64(rng.Intn(200)),
					ref: &refOpts{Width: 3, Chunker: "size-2", RawLeaves: raw, CidV0: v0, Trickle: tr}})
			}
		}
	}
	// hand-assembled roots: lengths taken from the links, and links whose size cannot be determined at all
	for hi, hand := range []string{"raw-tsize", "raw-tsize-sized", "raw-no-tsize", "raw-no-tsize-filesize"} {
		for v := 0; v < 3; v++ {
			in := FileInput{Hand: hand, Mode: "history", Opener: openers3[(hi+v)%3]}
			_, content := handFile(NewStore(), hand)
			in.Size = len(content)
			in.Ops = []FOp{{Kind: "seek", Off: 0, Whence: io.SeekEnd}, {Kind: "read", K: 4}, {Kind: "seek", Off: -3, Whence: io.SeekEnd}, {Kind: "read", K: 9},
				{Kind: "seek", Off: int64(2 + v), Whence: io.SeekStart}, {Kind: "read", K: 6 + v}, {Kind: "seek", Off: 1, Whence: io.SeekCurrent}, {Kind: "read", K: 100},
				{Kind: "seek", Off: -int64(len(content)) - 1, Whence: io.SeekEnd}, {Kind: "read", K: 2}}
			if v == 2 {
				in.Ops = in.Ops[1:] // an odd number of operations: readers obtained at first use
			}
			addRead(in)
		}
	}
	// hand-assembled DAGs with truthful sizes (packed BlockSizes, empty leaves between others, more BlockSizes than
	// links, identity-hash links): histories, full reads through every opener, ranges, every single unavailable block
	nRandHand := 10
	if tier == "thorough" {
		nRandHand = 300
	}
	allSized := append([]string{}, sizedHands...)
	var randUnsized []string
	for i := 0; i < nRandHand; i++ {
		sd := rng.Next() % 1000000
		if _, c, _ := randHandFile(NewStore(), sd, false); len(c) > 0 {
			allSized = append(allSized, fmt.Sprintf("sized-rand-%d", sd))
		}
		sd = rng.Next() % 1000000
		if _, c, uns := randHandFile(NewStore(), sd, true); len(c) > 0 && uns {
			randUnsized = append(randUnsized, fmt.Sprintf("nosizes-rand-%d", sd))
		}
	}
	for hi, hand := range allSized {
		_, content := handFile(NewStore(), hand)
		size := len(content)
		base := FileInput{Hand: hand, Size: size}
		fc, err := makeFile(base)
		if err != nil {
			continue
		}
		for h := 0; h < 4; h++ {
			in := base
			in.Mode, in.Opener = "history", openers3[(hi+h)%3]
			for i, nops := 0, 3+rng.Intn(10); i < nops; i++ {
				op := FOp{Reader: rng.Intn(2)}
				if rng.Intn(5) < 2 {
					op.Kind, op.Whence = "seek", rng.Intn(3)
					op.Off = []int64{0, int64(rng.Intn(size + 1)), 7, 8, 16, 17, int64(size), int64(size + 2), -1}[rng.Intn(9)]
					if op.Whence == io.SeekEnd {
						op.Off -= int64(size)
					}
				} else {
					op.Kind, op.K = "read", []int{1, 3, 7, 9, size + 2}[rng.Intn(5)]
				}
				in.Ops = append(in.Ops, op)
			}
			addRead(in)
		}
		for _, opn := range openers3 {
			in := base
			in.Mode, in.Opener = "order", opn
			in.Ops = []FOp{{Kind: "read", K: size + 5}}
			addRead(in)
		}
		for _, ab := range [][2]int{{0, 1}, {7, 8}, {6, 9}, {16, 17}, {size - 1, size}, {8, 16}} {
			if ab[0] >= 0 && ab[0] < ab[1] && ab[1] <= size {
				in := base
				in.Mode, in.Opener = "range", "lazy"
				in.Ops = []FOp{{Kind: "seek", Off: int64(ab[0]), Whence: io.SeekStart}, {Kind: "read", K: ab[1] - ab[0]}}
				addRead(in)
			}
		}
		for i := 1; i < len(fc.order); i++ {
			in := base
			in.Mode, in.Opener = "faults", []string{"direct", "lazy"}[(hi+i)%2]
			in.Faults = [][2]int{{i, 1 + i%2}}
			k := []int{1, 3, size + 3}[i%3]
			for got := 0; got < size+k; got += k {
				in.Ops = append(in.Ops, FOp{Kind: "read", K: k})
			}
			in.Ops = append(in.Ops, FOp{Kind: "read", K: k})
			addRead(in)
		}
		// preload with every single block unavailable must fail (C06)
		for i := 1; i < 3*len(fc.order); i++ {
			if i%len(fc.order) == 0 {
				continue
			}
			fc.st.Unavailable = map[string]uint64{fc.order[i%len(fc.order)].Cid.KeyString(): uint64(1 + i/len(fc.order))}
			o := guard(func() error { _, err := openFile(fc.st, fc.root, "preload"); return err })
			if o.Class == "ok" && hand == "empty-leading-leaf" {
				rep.Fail("C06", "files/leading-empty-preload-partial", "preload reification returned a node although an (empty, leading) block of the file is unavailable", base, "error", fmt.Sprintf("ok (block %d unavailable)", i%len(fc.order)))
			} else if o.Class == "ok" {
				rep.Fail("C06", "files/hand-preload-partial", "preload reification returned a node although a block of the file is unavailable", base, "error", fmt.Sprintf("ok (block %d unavailable, refusal kind %d)", i%len(fc.order), 1+i/len(fc.order)))
			} else if o.Class == "panic" {
				rep.Fail("C13", "files/hand-preload-panic", "preload reification panicked on an unavailable block", base, "error", "panic")
			}
		}
		fc.st.Unavailable = map[string]uint64{}
		// every single block failing once, the reader asked again
		for i := 1; i < len(fc.order); i++ {
			in := base
			in.Mode, in.Opener = "transient", []string{"direct", "lazy", "nodereifier"}[(hi+i)%3]
			in.Faults = [][2]int{{i, i}}
			off := rng.Intn(size + 1)
			k := []int{1, 3, size + 3}[i%3]
			in.Ops = []FOp{{Kind: "seek", Off: int64(off), Whence: io.SeekStart}}
			for got := off; got < size+k; got += k {
				in.Ops = append(in.Ops, FOp{Kind: "read", K: k})
			}
			runTransient(rep, in)
			key, _ := json.Marshal(in)
			rep.Count("C12", string(key), true, in)
			rep.Dist("C12", "transient-faults")
		}
	}
	// ranges through a link system whose NodeReifier is Reify (every loaded block arrives as a UnixFS node)
	for _, ab := range [][2]int{{0, 1}, {9, 11}, {20, 21}, {36, 37}} {
		addRead(FileInput{Width: 3, Chunker: "size-2", Size: 37, Seed: 41, Mode: "range", Opener: "nodereifier",
			Ops: []FOp{{Kind: "seek", Off: int64(ab[0]), Whence: io.SeekStart}, {Kind: "read", K: ab[1] - ab[0]}}})
	}
	// a root whose FileSize also counts four bytes of inline Data next to its links (the reader serves the children only):
	// BlockSizes are truthful, the ranges are taken with Seek from the start
	for _, ab := range [][2]int{{0, 1}, {8, 16}, {7, 9}, {16, 24}, {23, 24}} {
		addRead(FileInput{Hand: "filesize-counts-inline", Mode: "range", Opener: "lazy", Size: 24,
			Ops: []FOp{{Kind: "seek", Off: int64(ab[0]), Whence: io.SeekStart}, {Kind: "read", K: ab[1] - ab[0]}}})
	}
	// storage that fails once per block and recovers: readers asked again (every single block; several at once)
	for si, s := range []fspec{{w: 2, k: 3, size: 40}, {w: 3, k: 2, size: 37}, {w: 2, k: 1, size: 9}, {w: 4, k: 5, size: 100}} {
		base := FileInput{Width: s.w, Chunker: fmt.Sprintf("size-%d", s.k), Size: s.size, Seed: uint64(40 + si), Mode: "transient"}
		fc, err := makeFile(base)
		if err != nil {
			continue
		}
		nb := len(fc.order)
		for i := 1; i < nb; i++ {
			if tier != "thorough" && nb > 20 && i%3 != si%3 {
				continue
			}
			in := base
			in.Opener = []string{"direct", "lazy", "nodereifier"}[(i+si)%3]
			in.Faults = [][2]int{{i, i}}
			if i%5 == 0 && i+2 < nb {
				in.Faults = append(in.Faults, [2]int{i + 2, 1})
			}
			off := rng.Intn(s.size)
			k := []int{1, s.k, s.k + 1, s.size + 3}[i%4]
			in.Ops = []FOp{{Kind: "seek", Off: int64(off), Whence: io.SeekStart}}
			for got := off; got < s.size+k; got += k {
				in.Ops = append(in.Ops, FOp{Kind: "read", K: k})
			}
			runTransient(rep, in)
			key, _ := json.Marshal(in)
			for _, p := range []string{"C12", "C01", "C04"} {
				rep.Count(p, string(key), true, in)
				rep.Dist(p, "transient-faults")
			}
		}
	}
	// Seek/Read histories over roots whose children have to be opened to be measured
	nHand := 12
	if tier == "thorough" {
		nHand = 200
	}
	for hi, hand := range append([]string{"nosizes-tree-1", "nosizes-tree-2", "nosizes-mixed", "nosizes-short-blocksizes"}, randUnsized...) {
		_, content := handFile(NewStore(), hand)
		size := len(content)
		for h := 0; h < nHand; h++ {
			in := FileInput{Hand: hand, Mode: "history", Opener: openers3[(hi+h)%3], Size: size}
			nreaders := 1 + rng.Intn(2)
			for i, nops := 0, 2+rng.Intn(14); i < nops; i++ {
				op := FOp{Reader: rng.Intn(nreaders)}
				if rng.Intn(5) < 2 {
					op.Kind = "seek"
					op.Whence = rng.Intn(3)
					op.Off = []int64{0, int64(rng.Intn(size + 1)), int64(9 * rng.Intn(size/9+1)), int64(size), int64(size + 2), -1}[rng.Intn(6)]
					if op.Whence == io.SeekEnd {
						op.Off -= int64(size)
					}
				} else {
					op.Kind = "read"
					op.K = []int{1, 4, 9, 10, 27, size + 2}[rng.Intn(6)]
				}
				in.Ops = append(in.Ops, op)
			}
			addRead(in)
		}
	}
	// ... full sequential reads (C20)
	for hi, hand := range append([]string{"nosizes-tree-1", "nosizes-tree-2", "nosizes-mixed", "nosizes-short-blocksizes"}, randUnsized...) {
		_, content := handFile(NewStore(), hand)
		for v := 0; v < 2; v++ {
			addRead(FileInput{Hand: hand, Mode: "order", Opener: []string{"direct", "lazy"}[(hi+v)%2], Size: len(content),
				Ops: []FOp{{Kind: "read", K: len(content) + 5}, {Reader: 1, Kind: "read", K: len(content) + 5}}})
		}
	}
	// ... ranges through the lazy view (C05)
	for _, hand := range []string{"nosizes-tree-1", "nosizes-tree-2"} {
		_, content := handFile(NewStore(), hand)
		for _, ab := range [][2]int{{0, 1}, {0, 9}, {9, 12}, {len(content) - 1, len(content)}, {10, 40}} {
			if ab[1] > len(content) || ab[0] >= ab[1] {
				continue
			}
			addRead(FileInput{Hand: hand, Mode: "range", Opener: "lazy", Size: len(content),
				Ops: []FOp{{Kind: "seek", Off: int64(ab[0]), Whence: io.SeekStart}, {Kind: "read", K: ab[1] - ab[0]}}})
		}
	}
	// ... two blocks unavailable at once with different errors: the child the offset falls strictly into (declared size: it
	// is opened on the spot) and a later child that has to be opened to be measured - the former's error comes first
	for _, off := range []int64{3, 0, 7, 8} {
		addRead(FileInput{Hand: "nosizes-short-blocksizes", Mode: "faults", Opener: "lazy", Size: 28, Faults: [][2]int{{1, 1}, {2, 2}},
			Ops: []FOp{{Kind: "seek", Off: off, Whence: io.SeekStart}, {Kind: "read", K: 5}, {Kind: "read", K: 5}}})
		addRead(FileInput{Hand: "nosizes-short-blocksizes", Mode: "faults", Opener: "direct", Size: 28, Faults: [][2]int{{1, 2}, {3, 1}},
			Ops: []FOp{{Kind: "seek", Off: off, Whence: io.SeekStart}, {Kind: "read", K: 30}}})
	}
	// ... and with every single block below the root unavailable, read sequentially (then once more after the error)
	for hi, hand := range append([]string{"nosizes-tree-1", "nosizes-tree-2", "nosizes-short-blocksizes"}, randUnsized...) {
		base := FileInput{Hand: hand, Mode: "faults"}
		fc, err := makeFile(base)
		if err != nil {
			continue
		}
		base.Size = len(fc.content)
		for i := 1; i < len(fc.order); i++ {
			in := base
			in.Opener = []string{"direct", "lazy"}[(hi+i)%2]
			in.Faults = [][2]int{{i, 1 + i%2}}
			k := []int{1, 9, 10, base.Size + 3}[i%4]
			for got := 0; got < base.Size+k; got += k {
				in.Ops = append(in.Ops, FOp{Kind: "read", K: k})
			}
			in.Ops = append(in.Ops, FOp{Kind: "read", K: k}, FOp{Kind: "seek", Off: 0, Whence: io.SeekEnd}, FOp{Kind: "seek", Off: 2, Whence: io.SeekStart}, FOp{Kind: "read", K: 5})
			addRead(in)
		}
		// several blocks unavailable at once, with different errors, read from a random offset
		mf := &Rng{s: rng.s ^ 0x5bd1e9955bd1e995} // a side stream: the main one is left where it is
		nsubU := 3
		if tier == "thorough" {
			nsubU = 30
		}
		for j := 0; j < nsubU && len(fc.order) > 2; j++ {
			in := base
			in.Opener = []string{"direct", "lazy"}[j%2]
			for i := 1; i < len(fc.order); i++ {
				if mf.Intn(3) == 0 {
					in.Faults = append(in.Faults, [2]int{i, 1 + mf.Intn(2)})
				}
			}
			if len(in.Faults) < 2 {
				continue
			}
			in.Ops = []FOp{{Kind: "seek", Off: int64(mf.Intn(base.Size + 1)), Whence: io.SeekStart}, {Kind: "read", K: 1 + mf.Intn(base.Size+2)}, {Kind: "read", K: 3},
				{Kind: "seek", Off: int64(mf.Intn(base.Size + 1)), Whence: io.SeekStart}, {Kind: "read", K: base.Size + 2}}
			addRead(in)
		}
	}
	nHist := 6
	if tier == "thorough" {
		nHist = 300
	} else if tier == "search" {
		nHist = 30
	}
	openers := []string{"direct", "lazy", "preload"}
	for si, s := range specs {
		base := FileInput{Width: s.w, Chunker: fmt.Sprintf("size-%d", s.k), Size: s.size, Seed: s.seed, Ref: s.ref}
		if s.ref != nil {
			base.Chunker = s.ref.Chunker
		}
		offs := func() int64 {
			if rng.Intn(12) == 0 {
				return math.MinInt64 // the position is never negative, so adding this cannot wrap
			}
			switch rng.Intn(7) {
			case 0:
				return -int64(1 + rng.Intn(4))
			case 1:
				return 0
			case 2:
				return int64(s.size)
			case 3:
				return int64(s.size + 1 + rng.Intn(3))
			case 4: // chunk boundary +-1
				return int64((rng.Intn(s.size/s.k+1))*s.k + rng.Intn(3) - 1)
			default:
				return int64(rng.Intn(s.size + 1))
			}
		}
		// histories (C04)
		for h := 0; h < nHist; h++ {
			in := base
			in.Mode = "history"
			in.Opener = openers[(h+si)%3]
			nops := 1 + rng.Intn(40)
			nreaders := 1 + rng.Intn(3)
			if s.size <= s.k && h%2 == 0 {
				nreaders = 2 + rng.Intn(2) // several readers of a single-block file
			}
			for i := 0; i < nops; i++ {
				op := FOp{Reader: rng.Intn(nreaders)}
				if rng.Intn(5) < 2 {
					op.Kind = "seek"
					op.Whence = rng.Intn(3)
					op.Off = offs()
					if op.Whence == io.SeekEnd && op.Off != math.MinInt64 {
						op.Off -= int64(s.size)
					}
				} else {
					op.Kind = "read"
					op.K = 1 + rng.Intn(2*s.k+3)
					if rng.Intn(10) == 0 {
						op.K = s.size + 2
					}
				}
				in.Ops = append(in.Ops, op)
			}
			addRead(in)
		}
		// ranges (C05): lazy view; all boundary-ish (a,b) for small files, random otherwise
		var pts []int
		for p := 0; p <= s.size+1; p++ {
			if s.size <= 14 || p%s.k <= 1 || p%s.k == s.k-1 || rng.Intn(6) == 0 {
				pts = append(pts, p)
			}
		}
		nr := 0
		maxRanges := 16
		if tier == "thorough" {
			maxRanges = 2000
		}
		for _, a := range pts {
			for _, b := range pts {
				if b <= a || nr >= maxRanges || (len(pts) > 12 && rng.Intn(4) != 0) {
					continue
				}
				nr++
				in := base
				in.Mode = "range"
				in.Opener = "lazy"
				if s.size <= 1 && s.ref == nil {
					in.Opener = "direct"
				}
				in.Ops = []FOp{{Kind: "seek", Off: int64(a), Whence: io.SeekStart}, {Kind: "read", K: b - a}}
				if nr%3 == 0 && len(pts) > 2 {
					// a second range on the same (already open) reader
					a2 := pts[rng.Intn(len(pts))]
					b2 := a2 + 1 + rng.Intn(3)
					in.Ops = append(in.Ops, FOp{Kind: "seek", Off: int64(a2), Whence: io.SeekStart}, FOp{Kind: "read", K: b2 - a2})
				}
				addRead(in)
			}
		}
		// order (C20)
		for _, k := range []int{1, s.k, s.k + 1, s.size + 5} {
			in := base
			in.Mode = "order"
			in.Opener = []string{"direct", "lazy", "preload"}[k%3]
			in.Ops = []FOp{{Kind: "read", K: s.size + 5}}
			if k < s.size {
				in.Ops = nil
				for got := 0; got < s.size+k; got += k {
					in.Ops = append(in.Ops, FOp{Kind: "read", K: k})
				}
				// a single ordered log is needed: one big read after small ones would reset it, so use one op
				in.Ops = []FOp{{Kind: "read", K: s.size + 5}}
			}
			if in.Opener != "preload" {
				// the same walk again, from a second reader of the node and from the first one rewound: what an
				// earlier read left behind on the node or the reader must not change what is requested
				in.Ops = append(in.Ops, FOp{Reader: 1, Kind: "read", K: s.size + 5}, FOp{Kind: "seek", Off: 0, Whence: io.SeekStart}, FOp{Kind: "read", K: s.size + 5})
			}
			addRead(in)
		}
		// faults (C12): every single block, random subsets
		fc, err := makeFile(base)
		if err != nil {
			continue
		}
		nblocks := len(fc.order)
		var faultSets [][][2]int
		for i := 1; i < nblocks; i++ {
			if tier != "thorough" && nblocks > 14 && i%3 != si%3 {
				continue // quick tier: a third of the single-block faults of the larger files
			}
			faultSets = append(faultSets, [][2]int{{i, 1 + i%2}})
		}
		nsub := 3
		if tier == "thorough" {
			nsub = 40
		}
		for j := 0; j < nsub && nblocks > 2; j++ {
			var fs [][2]int
			for i := 1; i < nblocks; i++ {
				if rng.Intn(4) == 0 {
					fs = append(fs, [2]int{i, 1 + rng.Intn(2)})
				}
			}
			if len(fs) > 0 {
				faultSets = append(faultSets, fs)
			}
		}
		// the preloading view over the same file with one block unavailable (three shapes of refusal): an error, never a node
		for i := 1; i < nblocks; i++ {
			if tier != "thorough" && nblocks > 14 && i%3 != si%3 {
				continue
			}
			if sp2 := fc.order[i]; sp2.Missing {
				continue
			}
			for kind := uint64(1); kind <= 3; kind++ {
				fc.st.Unavailable = map[string]uint64{fc.order[i].Cid.KeyString(): kind}
				o := guard(func() error { _, err := openFile(fc.st, fc.root, "preload"); return err })
				if o.Class == "ok" && fc.order[i].Cid.KeyString() != fc.root.KeyString() {
					// (a block that covers no byte at the very start of its parent is stepped over: see the known findings)
					var spx [][2]int
					spans(fc.dag, 0, &spx)
					if spx[i][1] > spx[i][0] {
						rep.Fail("C06", "files/preload-partial", "preload reification returned a node although a block of the file is unavailable", base, "error", fmt.Sprintf("ok (block %d unavailable, refusal kind %d)", i, kind))
						rep.Fail("C12", "files/preload-partial", "preload reification needed a block that cannot be loaded and did not report the load error", base, "load error", fmt.Sprintf("ok (block %d unavailable, refusal kind %d)", i, kind))
					}
				} else if o.Class == "panic" {
					rep.Fail("C13", "files/preload-panic", "preload reification panicked on an unavailable block", base, "error", "panic")
				}
			}
			fc.st.Unavailable = map[string]uint64{}
		}
		for fi, fs := range faultSets {
			in := base
			in.Mode = "faults"
			in.Opener = []string{"direct", "lazy"}[fi%2]
			in.Faults = fs
			k := []int{1, s.k, s.k + 1, s.size + 3}[fi%4]
			for got := 0; got < s.size+k; got += k {
				in.Ops = append(in.Ops, FOp{Kind: "read", K: k})
			}
			// reading again after the error must report it again
			in.Ops = append(in.Ops, FOp{Kind: "read", K: k})
			addRead(in)
		}
	}
	for _, c := range cfRs {
		c.Flush()
	}
	if cfUnsized != nil {
		cfUnsized.Flush()
	}
	if cfTransient != nil {
		cfTransient.Flush()
	}
}

func cfBFlush(c *CaseFile) {
	if c != nil {
		c.Flush()
	}
}

func depthFor(w, n int) int {
	d, cap := 1, 1
	for cap < n {
		cap *= w
		d++
	}
	return d
}

// handUnreadable: hand-assembled roots whose reads and end-relative seeks fail (a link size cannot be determined)
var handUnreadable = map[string]bool{"raw-no-tsize": true, "raw-no-tsize-filesize": true}

// handFile stores three raw leaves under a hand-assembled file root that no builder writes but the reader accepts:
//
//	raw-tsize          links with Tsize, Data without FileSize and BlockSizes (length = sum of the link sizes)
//	raw-tsize-sized    the same with BlockSizes and FileSize
//	raw-no-tsize       links without Tsize and no FileSize: neither a read nor the length can be served
//	raw-no-tsize-filesize  links without Tsize, FileSize present: the length is known, reads fail
func handFile(st *Store, kind string) (cid.Cid, []byte) {
	chunks := [][]byte{[]byte("hand-1;"), []byte("hand-two;"), []byte("3")}
	var content []byte
	var kids []cid.Cid
	var bsz []uint64
	for _, c := range chunks {
		content = append(content, c...)
		kids = append(kids, st.PutRaw(c))
		bsz = append(bsz, uint64(len(c)))
	}
	if c, content, ok := sizedHandFile(st, kind); ok {
		return c, content
	}
	var rseed uint64
	if n, _ := fmt.Sscanf(kind, "sized-rand-%d", &rseed); n == 1 {
		c, content, _ := randHandFile(st, rseed, false)
		return c, content
	}
	if n, _ := fmt.Sscanf(kind, "nosizes-rand-%d", &rseed); n == 1 {
		c, content, _ := randHandFile(st, rseed, true)
		return c, content
	}
	if kind == "nosizes-mixed" {
		// root without sizes over a first child that declares its FileSize (measuring it needs only its own block)
		// and a second child that does not (measuring it opens its leaves)
		next := 0
		mk := func(n int, withFileSize bool) (cid.Cid, []byte) {
			var kids []cid.Cid
			var content []byte
			for i := 0; i < n; i++ {
				k, c := buildNoSizesTree(st, 0, 0, &next)
				kids = append(kids, k)
				content = append(content, c...)
			}
			var fsz *uint64
			if withFileSize {
				v := uint64(len(content))
				fsz = &v
			}
			return storeUnsizedNode(st, kids, fsz), content
		}
		k1, c1 := mk(2, true)
		k2, c2 := mk(2, false)
		return storeUnsizedNode(st, []cid.Cid{k1, k2}, nil), append(c1, c2...)
	}
	if kind == "nosizes-tree-1" || kind == "nosizes-tree-2" {
		// interior nodes without BlockSizes / FileSize over dag-pb leaves: sizes are measured by opening the children
		next := 0
		return buildNoSizesTree(st, int(kind[len(kind)-1]-'0'), 3, &next)
	}
	total := uint64(len(content))
	var d []byte
	switch kind {
	case "raw-tsize", "raw-no-tsize":
		d = ufsData(2, nil, false, nil, nil, nil, nil)
	case "raw-tsize-sized":
		d = ufsData(2, nil, false, &total, bsz, nil, nil)
	case "raw-no-tsize-filesize":
		d = ufsData(2, nil, false, &total, nil, nil, nil)
	default:
		panic("unknown hand file " + kind)
	}
	rootN, err := qp.BuildMap(dagpb.Type.PBNode, -1, func(ma datamodel.MapAssembler) {
		qp.MapEntry(ma, "Links", qp.List(int64(len(kids)), func(la datamodel.ListAssembler) {
			for i, k := range kids {
				k, i := k, i
				qp.ListEntry(la, qp.Map(-1, func(ma datamodel.MapAssembler) {
					qp.MapEntry(ma, "Hash", qp.Link(cidlink.Link{Cid: k}))
					qp.MapEntry(ma, "Name", qp.String(""))
					if kind == "raw-tsize" || kind == "raw-tsize-sized" {
						qp.MapEntry(ma, "Tsize", qp.Int(int64(len(chunks[i]))))
					}
				}))
			}
		}))
		qp.MapEntry(ma, "Data", qp.Bytes(d))
	})
	must(err)
	root, err := st.PutPB(rootN, false)
	must(err)
	return root, content
}

// storeUnsizedNode stores a file node over the given children with no BlockSizes (and a FileSize only when given)
func storeUnsizedNode(st *Store, kids []cid.Cid, fileSize *uint64) cid.Cid {
	n, err := qp.BuildMap(dagpb.Type.PBNode, -1, func(ma datamodel.MapAssembler) {
		qp.MapEntry(ma, "Links", qp.List(int64(len(kids)), func(la datamodel.ListAssembler) {
			for _, k := range kids {
				k := k
				qp.ListEntry(la, qp.Map(-1, func(ma datamodel.MapAssembler) {
					qp.MapEntry(ma, "Hash", qp.Link(cidlink.Link{Cid: k}))
					qp.MapEntry(ma, "Name", qp.String(""))
					qp.MapEntry(ma, "Tsize", qp.Int(int64(len(st.Blocks[k.KeyString()]))))
				}))
			}
		}))
		qp.MapEntry(ma, "Data", qp.Bytes(ufsData(2, nil, false, fileSize, nil, nil, nil)))
	})
	must(err)
	c, err := st.PutPB(n, false)
	must(err)
	return c
}

// runTransient: storage that fails the first request(s) for some blocks and serves them afterwards.  A reader that is
// simply asked again after a load error must carry on with the bytes at its offset: every chunk a Read delivers is the
// content at the position reached so far, and with enough retries the read ends at the true end (C12; C01 / C04: the
// bytes streamed are the file's).  Oracle only: the model's faults are permanent.
func runTransient(rep *Report, in FileInput) {
	fail := func(prop, sig, what string, exp, got interface{}) { rep.Fail(prop, "files/"+sig, what, in, exp, got) }
	fc, err := makeFile(in)
	if err != nil {
		fail("C01", "build-error", "building the file failed", nil, err.Error())
		return
	}
	remaining := map[string]int{}
	kinds := map[string]uint64{}
	var budgetIdx []int // one preorder index per distinct block with a budget, in the order given
	for _, f := range in.Faults {
		if f[0] > 0 && f[0] < len(fc.order) {
			k := fc.order[f[0]].Cid.KeyString()
			if remaining[k] == 0 {
				kinds[k] = uint64(1 + f[1]%2)
				budgetIdx = append(budgetIdx, f[0])
			}
			remaining[k]++
		}
	}
	var budgetTerms []string
	for _, i := range budgetIdx {
		k := fc.order[i].Cid.KeyString()
		budgetTerms = append(budgetTerms, fmt.Sprintf("(%d, %d, %d)", i, remaining[k], kinds[k]))
	}
	var ksTerms, obsTerms []string
	seekOff, modelled := int64(0), len(in.Ops) > 0 && in.Ops[0].Kind == "seek" && in.Ops[0].Whence == io.SeekStart
	defer func() {
		// compared with File/Transient.v (one reader, Seek(off) then Reads, budget of failing requests per block)
		if cfTransient != nil && modelled && len(ksTerms) > 0 {
			cfTransient.Add(fmt.Sprintf("mk_tread %s %s %s %s %s", fc.srcTerm, coqList(budgetTerms), coqZ(seekOff), coqList(ksTerms), coqList(obsTerms)), in)
		}
	}()
	fc.st.ReadHook = func(c cid.Cid) error {
		if remaining[c.KeyString()] > 0 {
			remaining[c.KeyString()]--
			return FaultErr{kinds[c.KeyString()]}
		}
		return nil
	}
	var node datamodel.Node
	if o := guard(func() error { var err error; node, err = openFile(fc.st, fc.root, in.Opener); return err }); o.Class != "ok" {
		return // the opener itself met the failure (preloading views): nothing to retry on
	}
	l, ok := node.(lbn)
	if !ok {
		return
	}
	r, err := l.AsLargeBytes()
	if err != nil {
		return
	}
	pos := int64(0)
	n := int64(len(fc.content))
	for _, op := range in.Ops {
		switch op.Kind {
		case "seek":
			var got int64
			o := guard(func() error { var err error; got, err = r.Seek(op.Off, op.Whence); return err })
			if o.Class == "ok" {
				pos = got
				seekOff = got
			} else if o.Class == "panic" {
				fail("C13", "transient-seek-panic", "Seek panicked while storage was failing", "offset or error", "panic")
				return
			}
		case "read":
			errsInARow := 0
			for tries := 0; tries < len(in.Faults)+3; tries++ {
				got, o := readFull(r, op.K)
				if o.Class == "panic" {
					fail("C13", "transient-read-panic", "Read panicked while storage was failing", "bytes or error", "panic")
					modelled = false
					return
				}
				ksTerms = append(ksTerms, coqZ(int64(op.K)))
				obsTerms = append(obsTerms, fmt.Sprintf("(%s, %s)", coqBytes(got), coqStatus(o)))
				end := pos + int64(len(got))
				if pos > n || end > n || !bytes.Equal(got, fc.content[pos:end]) {
					for _, p := range []string{"C12", "C01", "C04"} {
						fail(p, "transient-bytes", "bytes delivered by a reader that was asked again after a load error are not the content at its offset", fmt.Sprintf("content[%d:%d]", pos, end), fmt.Sprintf("%d bytes, equal prefix %d (retry %d)", len(got), commonPrefix(got, fc.content[min64(pos, n):]), tries))
					}
					return
				}
				pos = end
				if o.Class == "ok" {
					break
				}
				if o.Class == "eof" {
					if pos != n {
						for _, p := range []string{"C12", "C01", "C04"} {
							fail(p, "transient-eof", "a reader asked again after a load error reported end-of-file before the end of the content", n, pos)
						}
						return
					}
					break
				}
				errsInARow++ // a load error: ask again
			}
		}
	}
}

func min64(a, b int64) int64 {
	if a < b {
		return a
	}
	return b
}

// sizedHands: hand-assembled file DAGs with truthful sizes in shapes or encodings no builder here writes
var sizedHands = []string{"pb-packed-sizes", "empty-middle-leaf", "pb-extra-blocksizes", "identity-raw-leaf", "identity-pb-leaves", "empty-leading-leaf", "surplus-blocksizes-no-filesize"}

func sizedHandFile(st *Store, kind string) (cid.Cid, []byte, bool) {
	pbLeaf := func(c []byte, identity bool) cid.Cid {
		fs := uint64(len(c))
		blk := encodePBRaw(nil, ufsData(2, c, true, &fs, nil, nil, nil), true)
		if identity {
			return st.PutIdentity(cid.DagProtobuf, blk)
		}
		return st.PutPBRaw(blk)
	}
	sizedNode := func(kids []cid.Cid, lens []uint64, packed bool, extra []uint64) cid.Cid {
		total := uint64(0)
		var rl []rawLink
		for i, k := range kids {
			total += lens[i]
			nm, ts := "", uint64(len(st.Blocks[k.KeyString()]))
			rl = append(rl, rawLink{Name: &nm, Tsize: &ts, Cid: k})
		}
		var d []byte
		bs := append(append([]uint64{}, lens...), extra...)
		if packed {
			d = protowire.AppendVarint(protowire.AppendTag(nil, 1, protowire.VarintType), 2)
			d = protowire.AppendVarint(protowire.AppendTag(d, 3, protowire.VarintType), total)
			var run []byte
			for _, v := range bs {
				run = protowire.AppendVarint(run, v)
			}
			d = protowire.AppendBytes(protowire.AppendTag(d, 4, protowire.BytesType), run)
		} else {
			d = ufsData(2, nil, false, &total, bs, nil, nil)
		}
		return st.PutPBRaw(encodePBRaw(rl, d, true))
	}
	chunks := [][]byte{[]byte("hand-1;"), []byte("hand-two;"), []byte("3"), []byte("four-4-four")}
	var content []byte
	var kids []cid.Cid
	var lens []uint64
	switch kind {
	case "pb-packed-sizes":
		for _, c := range chunks {
			kids, lens, content = append(kids, pbLeaf(c, false)), append(lens, uint64(len(c))), append(content, c...)
		}
		return sizedNode(kids, lens, true, nil), content, true
	case "surplus-blocksizes-no-filesize", "nosizes-short-blocksizes":
		// no FileSize (the length is what the links add up to) and a BlockSizes list that is not one entry per link: a
		// surplus non-zero entry at the end / an entry for the first child only (the others are opened to be measured)
		var rl []rawLink
		var bs []uint64
		for _, c := range chunks {
			k := pbLeaf(c, false)
			nm, ts := "", uint64(len(st.Blocks[k.KeyString()]))
			rl = append(rl, rawLink{Name: &nm, Tsize: &ts, Cid: k})
			bs = append(bs, uint64(len(c)))
			content = append(content, c...)
		}
		if kind == "nosizes-short-blocksizes" {
			bs = bs[:1]
		} else {
			bs = append(bs, 5)
		}
		return st.PutPBRaw(encodePBRaw(rl, ufsData(2, nil, false, nil, bs, nil, nil), true)), content, true
	case "filesize-counts-inline":
		var rl []rawLink
		var bs []uint64
		for _, c := range [][]byte{[]byte("chunk-01"), []byte("chunk-02"), []byte("chunk-03")} {
			k := pbLeaf(c, false)
			nm, ts := "", uint64(len(st.Blocks[k.KeyString()]))
			rl = append(rl, rawLink{Name: &nm, Tsize: &ts, Cid: k})
			bs = append(bs, uint64(len(c)))
			content = append(content, c...)
		}
		fsz := uint64(len(content) + 4)
		return st.PutPBRaw(encodePBRaw(rl, ufsData(2, []byte("head"), true, &fsz, bs, nil, nil), true)), content, true
	case "empty-leading-leaf":
		for _, c := range [][]byte{{}, []byte("aaa"), []byte("bbb")} {
			kids, lens, content = append(kids, st.PutRaw(c)), append(lens, uint64(len(c))), append(content, c...)
		}
		return sizedNode(kids, lens, false, nil), content, true
	case "empty-middle-leaf":
		for _, c := range [][]byte{[]byte("aaa"), {}, []byte("bbb"), {}} {
			kids, lens, content = append(kids, st.PutRaw(c)), append(lens, uint64(len(c))), append(content, c...)
		}
		return sizedNode(kids, lens, false, nil), content, true
	case "pb-extra-blocksizes":
		for g := 0; g < 2; g++ {
			var gk []cid.Cid
			var gl []uint64
			glen := uint64(0)
			for _, c := range chunks[2*g : 2*g+2] {
				gk, gl, content = append(gk, st.PutRaw(c)), append(gl, uint64(len(c))), append(content, c...)
				glen += uint64(len(c))
			}
			kids, lens = append(kids, sizedNode(gk, gl, false, nil)), append(lens, glen)
		}
		return sizedNode(kids, lens, false, []uint64{0}), content, true // one BlockSizes entry more than links
	case "identity-raw-leaf":
		for i, c := range chunks {
			var k cid.Cid
			if i == 1 || i == 3 {
				k = st.PutIdentity(cid.Raw, c)
			} else {
				k = st.PutRaw(c)
			}
			kids, lens, content = append(kids, k), append(lens, uint64(len(c))), append(content, c...)
		}
		return sizedNode(kids, lens, false, nil), content, true
	case "identity-pb-leaves":
		for i, c := range chunks {
			kids, lens, content = append(kids, pbLeaf(c, i != 0)), append(lens, uint64(len(c))), append(content, c...)
		}
		return sizedNode(kids, lens, false, nil), content, true
	}
	return cid.Undef, nil, false
}

// runQuickSizes: the quick builder's nodes report, and its directories record, the cumulative sizes (C11) - also for
// files of more than one chunk
func runQuickSizes(rep *Report) {
	in := map[string]interface{}{"mode": "quick-builder-sizes"}
	fail := func(sig, what string, exp, got interface{}) { rep.Fail("C11", "files/"+sig, what, in, exp, got) }
	st := NewStore()
	var cum func(n *DNode) uint64
	cum = func(n *DNode) uint64 {
		t := uint64(len(st.Blocks[n.Cid.KeyString()]))
		for _, l := range n.Links {
			c := cum(l.Target)
			if l.Tsize == nil || uint64(*l.Tsize) != c {
				fail("quick-tsize", "a link written by the quick builder does not carry the cumulative size of its target", c, fmt.Sprint(l.Tsize))
			}
			t += c
		}
		return t
	}
	check := func(what string, n quickbuilder.Node) {
		sz, err := n.Size()
		must(err)
		dag := dumpDAG(st, n.Link().(cidlink.Link).Cid, map[string]*DNode{})
		if c := cum(dag); uint64(sz) != c {
			fail("quick-size", "the size a quick-builder node reports is not the cumulative size of its DAG", c, fmt.Sprint(what, ": ", sz))
		}
	}
	o := guard(func() error {
		return quickbuilder.Store(st.LinkSystem(), func(b *quickbuilder.Builder) error {
			small := b.NewBytesFile([]byte("small file"))
			empty := b.NewBytesFile(nil)
			big := b.NewBytesFile(synthContent(11, 2*262144+77)) // three chunks under one root
			edge := b.NewBytesFile(synthContent(12, 262144))     // exactly one chunk
			over := b.NewBytesFile(synthContent(13, 262145))
			d1 := b.NewMapDirectory(map[string]quickbuilder.Node{"small": small, "big": big, "empty": empty})
			d2 := b.NewMapDirectory(map[string]quickbuilder.Node{"inner": d1, "edge": edge, "over": over, "again": big})
			for name, n := range map[string]quickbuilder.Node{"small": small, "empty": empty, "big": big, "edge": edge, "over": over, "d1": d1, "d2": d2} {
				check(name, n)
			}
			return nil
		})
	})
	if o.Class != "ok" {
		fail("quick-error", "the quick builder failed on a healthy store", "ok", o.Class)
	}
	rep.Count("C11", "quick-builder-sizes", true, in)
	rep.Dist("C11", "quick-builder")
}

// randHandFile: a random hand-assembled file DAG with truthful sizes.  Leaves are raw or dag-pb blocks (inline data), under
// sha2-256 or identity links, possibly empty; interior nodes declare BlockSizes unpacked, packed or with a surplus entry,
// with or without FileSize; with allowUnsized also no BlockSizes at all or fewer than links (the children concerned have to
// be opened to be measured).  Returns whether any child is unsized.
func randHandFile(st *Store, seed uint64, allowUnsized bool) (cid.Cid, []byte, bool) {
	rng := NewRng(seed, "handfile")
	ctr := 0
	unsized := false
	var build func(depth int, top bool) (cid.Cid, []byte, bool)
	build = func(depth int, top bool) (cid.Cid, []byte, bool) {
		if !top && (depth == 0 || rng.Intn(3) == 0) {
			ctr++
			n := []int{0, 1, 3, 9, 12}[rng.Intn(5)]
			// distinct non-empty leaves have distinct bytes, and equal (empty) ones one kind of link: the model knows a
			// block by its bytes, two CIDs over the same bytes would be one block there and two for the storage
			c := []byte(fmt.Sprintf("%03d:abcdefgh", ctr))[:n]
			if n == 1 {
				c = []byte{byte(33 + ctr%90)}
			}
			kind := rng.Intn(4)
			if n == 0 {
				kind = 2 * (kind % 2) // raw under sha2-256, or dag-pb under sha2-256 (see below)
			}
			switch kind {
			case 0:
				return st.PutRaw(c), c, false
			case 1:
				return st.PutIdentity(cid.Raw, c), c, false
			default:
				fs := uint64(len(c))
				blk := encodePBRaw(nil, ufsData(2, c, true, &fs, nil, nil, nil), true)
				if n > 0 && rng.Intn(3) == 0 {
					return st.PutIdentity(cid.DagProtobuf, blk), c, true
				}
				return st.PutPBRaw(blk), c, true
			}
		}
		nk := 1 + rng.Intn(4)
		var rl []rawLink
		var lens []uint64
		var content []byte
		var isPb []bool
		for i := 0; i < nk; i++ {
			k, c, pb := build(depth-1, false)
			for tries := 0; len(content) == 0 && len(c) == 0 && tries < 8; tries++ {
				// an empty child at the very start of its parent is stepped over by every reader (never requested): that
				// case has its own input ("empty-leading-leaf"); here every node starts with some content
				k, c, pb = build(depth-1, false)
			}
			if len(content) == 0 && len(c) == 0 {
				ctr++
				c = []byte(fmt.Sprintf("F%03d", ctr))
				k, pb = st.PutRaw(c), false
			}
			nm := ""
			ts := uint64(len(c)) // a raw leaf's Tsize is its length; for dag-pb children the reader does not look at it
			if pb {
				ts = uint64(len(st.Blocks[k.KeyString()])) + uint64(len(c))
			}
			rl = append(rl, rawLink{Name: &nm, Tsize: &ts, Cid: k})
			lens = append(lens, uint64(len(c)))
			content = append(content, c...)
			isPb = append(isPb, pb)
		}
		total := uint64(len(content))
		var fsz *uint64
		if rng.Intn(3) != 0 {
			fsz = &total
		}
		mode := rng.Intn(3)
		if allowUnsized {
			mode = rng.Intn(5)
		}
		bs := append([]uint64{}, lens...)
		packed := false
		switch mode {
		case 1:
			packed = true
		case 2:
			bs = append(bs, 0)
		case 3:
			bs = nil
		case 4:
			bs = bs[:rng.Intn(len(bs))]
		}
		for i, pb := range isPb {
			if pb && i >= len(bs) {
				unsized = true
			}
		}
		d := protowire.AppendVarint(protowire.AppendTag(nil, 1, protowire.VarintType), 2)
		if fsz != nil {
			d = protowire.AppendVarint(protowire.AppendTag(d, 3, protowire.VarintType), *fsz)
		}
		if packed && len(bs) > 0 {
			var run []byte
			for _, v := range bs {
				run = protowire.AppendVarint(run, v)
			}
			d = protowire.AppendBytes(protowire.AppendTag(d, 4, protowire.BytesType), run)
		} else {
			for _, v := range bs {
				d = protowire.AppendVarint(protowire.AppendTag(d, 4, protowire.VarintType), v)
			}
		}
		return st.PutPBRaw(encodePBRaw(rl, d, true)), content, true
	}
	c, content, _ := build(2+int(seed%2), true)
	return c, content, unsized
}

// runConcurrentBuilds: in.Width goroutines build different files (in.Size bytes and a few more each, chunker in.Chunker) and
// a directory over them through ONE *ipld.LinkSystem at the same time. A builder's result is a function of its logical input
// (C10) and its sizes are the true cumulative sizes (C11) whoever else is building: every (link, size) has to be the one the
// same call returns when it runs alone into a private store.
func runConcurrentBuilds(in FileInput, fail func(prop, sig, what string, exp, got interface{})) {
	type res struct {
		link string
		size uint64
		err  error
	}
	one := func(ls *ipld.LinkSystem, g, j int) (res, res) {
		content := synthContent(in.Seed+uint64(100*g+j), in.Size+17*g+j)
		l, sz, err := builder.BuildUnixFSFile(bytes.NewReader(content), in.Chunker, ls)
		if err != nil || l == nil {
			return res{err: fmt.Errorf("file: %v", err)}, res{}
		}
		e, err := builder.BuildUnixFSDirectoryEntry(fmt.Sprintf("f%d-%d", g, j), int64(sz), l)
		if err != nil {
			return res{err: err}, res{}
		}
		dl, dsz, err := builder.BuildUnixFSDirectory([]dagpb.PBLink{e}, ls)
		if err != nil || dl == nil {
			return res{l.String(), sz, nil}, res{err: fmt.Errorf("dir: %v", err)}
		}
		return res{l.String(), sz, nil}, res{dl.String(), dsz, nil}
	}
	const perG = 6
	want := map[[2]int][2]res{}
	for g := 0; g < in.Width; g++ {
		for j := 0; j < perG; j++ {
			f, d := one(NewStore().LinkSystem(), g, j)
			want[[2]int{g, j}] = [2]res{f, d}
		}
	}
	var mu sync.Mutex
	blocks := map[string][]byte{}
	shared := cidlink.DefaultLinkSystem()
	shared.StorageWriteOpener = func(ipld.LinkContext) (io.Writer, ipld.BlockWriteCommitter, error) {
		buf := &bytes.Buffer{}
		return buf, func(l ipld.Link) error {
			mu.Lock()
			blocks[l.(cidlink.Link).Cid.KeyString()] = buf.Bytes()
			mu.Unlock()
			return nil
		}, nil
	}
	got := map[[2]int][2]res{}
	var wg sync.WaitGroup
	for g := 0; g < in.Width; g++ {
		wg.Add(1)
		go func(g int) {
			defer wg.Done()
			for j := 0; j < perG; j++ {
				f, d := one(&shared, g, j)
				mu.Lock()
				got[[2]int{g, j}] = [2]res{f, d}
				mu.Unlock()
			}
		}(g)
	}
	wg.Wait()
	for k, w := range want {
		g := got[k]
		for i, what := range []string{"file", "directory"} {
			if w[i].err != nil {
				continue
			}
			if g[i].err != nil {
				fail("C10", "concurrent-build-error", "a "+what+" build that succeeds alone failed while other builds used the same LinkSystem", "success", g[i].err.Error())
			} else if g[i].size != w[i].size || g[i].link != w[i].link {
				fail("C11", "concurrent-build-size", "a "+what+" built while other builds use the same LinkSystem has another link / size than the same build running alone (sizes recorded in the links or returned are not the true cumulative sizes)", fmt.Sprint(w[i].link, " ", w[i].size), fmt.Sprint(g[i].link, " ", g[i].size))
				fail("C10", "concurrent-build-differs", "the link / size of a "+what+" build depends on what else is being built through the same LinkSystem", fmt.Sprint(w[i].link, " ", w[i].size), fmt.Sprint(g[i].link, " ", g[i].size))
			}
		}
	}
}
