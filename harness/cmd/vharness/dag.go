package main

// Structural view of stored DAGs (the `blk` of the Coq model), fingerprints, reference importers.

import (
	"bytes"
	"context"
	"fmt"
	"strings"
	"sync"

	chunk "github.com/ipfs/boxo/chunker"
	"github.com/ipfs/boxo/ipld/merkledag"
	"github.com/ipfs/boxo/ipld/unixfs/importer/balanced"
	ihelper "github.com/ipfs/boxo/ipld/unixfs/importer/helpers"
	"github.com/ipfs/boxo/ipld/unixfs/importer/trickle"
	"github.com/ipfs/go-cid"
	format "github.com/ipfs/go-ipld-format"
	udata "github.com/ipfs/go-unixfsnode/data"
	"github.com/ipfs/go-unixfsnode/data/builder"
	dagpb "github.com/ipld/go-codec-dagpb"
	cidlink "github.com/ipld/go-ipld-prime/linking/cid"
	"github.com/multiformats/go-multihash"
)

type DLinkS struct {
	Name   *string
	Tsize  *int64
	Cid    cid.Cid
	Target *DNode // nil when the target is not in the store (opaque / Ext)
}

type DNode struct {
	Cid     cid.Cid
	IsRaw   bool
	Content []byte // raw content
	Data    []byte
	HasData bool
	Links   []DLinkS
	Missing bool
	fp      uint64
	fpDone  bool
}

// dumpDAG decodes the blocks reachable from root (sharing equal CIDs). Blocks absent from the store
// become opaque targets.
func dumpDAG(st *Store, root cid.Cid, memo map[string]*DNode) *DNode {
	if n, ok := memo[root.KeyString()]; ok {
		return n
	}
	b, ok := st.Blocks[root.KeyString()]
	n := &DNode{Cid: root}
	memo[root.KeyString()] = n
	if !ok {
		n.Missing = true
		return n
	}
	if root.Prefix().Codec == cid.Raw {
		n.IsRaw = true
		n.Content = b
		return n
	}
	nb := dagpb.Type.PBNode.NewBuilder()
	if err := dagpb.DecodeBytes(nb, b); err != nil {
		n.Missing = true
		return n
	}
	pbn := nb.Build().(dagpb.PBNode)
	if pbn.Data.Exists() {
		n.HasData = true
		n.Data = pbn.Data.Must().Bytes()
	}
	it := pbn.Links.Iterator()
	for !it.Done() {
		_, l := it.Next()
		dl := DLinkS{Cid: l.Hash.Link().(cidlink.Link).Cid}
		if l.Name.Exists() {
			s := l.Name.Must().String()
			dl.Name = &s
		}
		if l.Tsize.Exists() {
			v := l.Tsize.Must().Int()
			dl.Tsize = &v
		}
		dl.Target = dumpDAG(st, dl.Cid, memo)
		n.Links = append(n.Links, dl)
	}
	return n
}

// ---- fingerprint: must agree with Corr/Fp.v ----
const fpPrime = 1099511628211
const fpInit = 14695981039346656037

type fpState struct{ h uint64 }

func (f *fpState) word(x uint64) { f.h = (f.h ^ x) * fpPrime }
func (f *fpState) bytes(b []byte) {
	f.word(uint64(len(b)))
	for _, x := range b {
		f.word(uint64(x))
	}
}

var extIDs = struct {
	sync.Mutex
	m map[string]uint64
}{m: map[string]uint64{}}

// opaque targets are identified by a caller-assigned id (see registerExt)
func registerExt(c cid.Cid, id uint64) {
	extIDs.Lock()
	extIDs.m[c.KeyString()] = id
	extIDs.Unlock()
}
func extID(c cid.Cid) uint64 {
	extIDs.Lock()
	defer extIDs.Unlock()
	if id, ok := extIDs.m[c.KeyString()]; ok {
		return id
	}
	return 999999
}

func (n *DNode) FP() uint64 {
	if n.fpDone {
		return n.fp
	}
	f := fpState{fpInit}
	switch {
	case n.Missing:
		f.word(3)
		f.word(extID(n.Cid))
		f.word(uint64(n.Cid.ByteLen()))
	case n.IsRaw:
		f.word(1)
		f.bytes(n.Content)
	default:
		f.word(2)
		if n.HasData {
			f.word(1)
			f.bytes(n.Data)
		} else {
			f.word(0)
		}
		f.word(uint64(len(n.Links)))
		for _, l := range n.Links {
			if l.Name != nil {
				f.word(1)
				f.bytes([]byte(*l.Name))
			} else {
				f.word(0)
			}
			if l.Tsize != nil {
				f.word(1)
				f.word(uint64(*l.Tsize))
			} else {
				f.word(0)
			}
			f.word(l.Target.FP())
		}
	}
	n.fp, n.fpDone = f.h, true
	return n.fp
}

// coqBlk prints the node as a `blk` term
func coqBlk(n *DNode) string {
	switch {
	case n.Missing:
		return fmt.Sprintf("(Ext %d %d)", extID(n.Cid), n.Cid.ByteLen())
	case n.IsRaw:
		return "(Raw " + coqBytes(n.Content) + ")"
	}
	ls := make([]string, len(n.Links))
	for i, l := range n.Links {
		name := "None"
		if l.Name != nil {
			name = "(Some " + coqBytes([]byte(*l.Name)) + ")"
		}
		ts := "None"
		if l.Tsize != nil {
			ts = "(Some " + coqZ(*l.Tsize) + ")"
		}
		ls[i] = fmt.Sprintf("PLink %s %s %s", name, ts, coqBlk(l.Target))
	}
	return fmt.Sprintf("(Pb %s %s)", coqOptBytes(n.Data, n.HasData), coqList(ls))
}

// preorder lists the unfolded tree depth-first in link order (no de-duplication)
func preorder(n *DNode, out *[]*DNode) {
	*out = append(*out, n)
	if n.Missing || n.IsRaw {
		return
	}
	for _, l := range n.Links {
		preorder(l.Target, out)
	}
}

// firstIndex maps a CID to its first position in the preorder list
func firstIndex(order []*DNode) map[string]int {
	m := map[string]int{}
	for i, n := range order {
		if _, ok := m[n.Cid.KeyString()]; !ok {
			m[n.Cid.KeyString()] = i
		}
	}
	return m
}

// ---- synthetic content ----
func synthContent(seed uint64, n int) []byte {
	b := make([]byte, n)
	for i := range b {
		if seed >= 1000 {
			b[i] = byte(seed % 256) // constant content: every chunk repeats (de-duplicated store)
		} else {
			b[i] = byte((uint64(i)*7 + uint64(i)/251 + seed) % 256)
		}
	}
	return b
}

// ---- building with the library under test ----
var widthMu sync.Mutex

func buildFile(st *Store, width int, chunker string, content []byte) (cid.Cid, uint64, error) {
	return buildFileFrom(st, width, chunker, bytes.NewReader(content))
}

func buildFileFrom(st *Store, width int, chunker string, r interface{ Read([]byte) (int, error) }) (cid.Cid, uint64, error) {
	widthMu.Lock()
	defer widthMu.Unlock()
	old := builder.DefaultLinksPerBlock
	builder.DefaultLinksPerBlock = width
	defer func() { builder.DefaultLinksPerBlock = old }()
	ls := st.LinkSystem()
	l, sz, err := builder.BuildUnixFSFile(r, chunker, ls)
	if err != nil {
		return cid.Undef, 0, err
	}
	if l == nil {
		return cid.Undef, 0, fmt.Errorf("nil link without error")
	}
	return l.(cidlink.Link).Cid, sz, nil
}

// ---- reference importers (boxo) over a trivial in-memory DAGService writing into the Store ----
type memDag struct{ st *Store }

func (m memDag) Get(_ context.Context, c cid.Cid) (format.Node, error) {
	b, ok := m.st.Blocks[c.KeyString()]
	if !ok {
		return nil, format.ErrNotFound{Cid: c}
	}
	if c.Prefix().Codec == cid.Raw {
		return merkledag.NewRawNodeWPrefix(b, c.Prefix())
	}
	n, err := merkledag.DecodeProtobuf(b)
	if err != nil {
		return nil, err
	}
	n.SetCidBuilder(c.Prefix())
	return n, nil
}
func (m memDag) GetMany(ctx context.Context, cs []cid.Cid) <-chan *format.NodeOption {
	ch := make(chan *format.NodeOption, len(cs))
	for _, c := range cs {
		n, err := m.Get(ctx, c)
		ch <- &format.NodeOption{Node: n, Err: err}
	}
	close(ch)
	return ch
}
func (m memDag) Add(_ context.Context, n format.Node) error {
	m.st.Blocks[n.Cid().KeyString()] = n.RawData()
	return nil
}
func (m memDag) AddMany(ctx context.Context, ns []format.Node) error {
	for _, n := range ns {
		m.Add(ctx, n)
	}
	return nil
}
func (m memDag) Remove(_ context.Context, c cid.Cid) error {
	delete(m.st.Blocks, c.KeyString())
	return nil
}
func (m memDag) RemoveMany(ctx context.Context, cs []cid.Cid) error {
	for _, c := range cs {
		m.Remove(ctx, c)
	}
	return nil
}

type refOpts struct {
	Width     int
	Chunker   string
	RawLeaves bool
	CidV0     bool
	Trickle   bool
}

func refImport(st *Store, o refOpts, content []byte) (cid.Cid, uint64, error) {
	spl, err := chunk.FromString(bytes.NewReader(content), o.Chunker)
	if err != nil {
		return cid.Undef, 0, err
	}
	var cb cid.Builder = cid.V1Builder{Codec: cid.DagProtobuf, MhType: multihash.SHA2_256}
	if o.CidV0 {
		cb = cid.V0Builder{}
	}
	dbp := ihelper.DagBuilderParams{Maxlinks: o.Width, RawLeaves: o.RawLeaves, CidBuilder: cb, Dagserv: memDag{st}}
	db, err := dbp.New(spl)
	if err != nil {
		return cid.Undef, 0, err
	}
	var nd format.Node
	if o.Trickle {
		nd, err = trickle.Layout(db)
	} else {
		nd, err = balanced.Layout(db)
	}
	if err != nil {
		return cid.Undef, 0, err
	}
	sz, err := nd.Size()
	if err != nil {
		return cid.Undef, 0, err
	}
	return nd.Cid(), sz, nil
}

func describeOpts(o refOpts) string {
	var p []string
	if o.Trickle {
		p = append(p, "trickle")
	} else {
		p = append(p, "balanced")
	}
	if o.RawLeaves {
		p = append(p, "rawleaves")
	} else {
		p = append(p, "pbleaves")
	}
	if o.CidV0 {
		p = append(p, "cidv0")
	} else {
		p = append(p, "cidv1")
	}
	return strings.Join(p, "+")
}

func decodeUD(b []byte) (udata.UnixFSData, error) { return udata.DecodeUnixFSData(b) }
