#!/usr/bin/env python3
# regenerates MANIFEST.json from props.py (run after editing the property table)
import json, os, sys
ROOT = os.path.dirname(os.path.abspath(__file__))
sys.path.insert(0, ROOT)
from props import PROPS, NOT_APPLICABLE, HOOK_COMMITS
ids = [json.loads(l)['id'] for l in open(os.path.join(ROOT, 'properties.jsonl'))]
checks = []
for pid in ids:
    if pid not in PROPS:
        continue
    p = PROPS[pid]
    checks.append({
        'property_id': pid,
        'quick_cmd': './check %s --tier quick' % pid,
        'thorough_cmd': './check %s --tier thorough' % pid,
        'evidence_file': 'evidence/%s.json' % pid,
        'replay_cmd_template': './check %s --replay {path}' % pid,
        'engine': 'coq-model+go-correspondence',
        'level_claimed': {'category': p.get('level', 'proof'), 'text': p['level_text'], 'design_ref': p.get('design_ref', 'DESIGN.md section 5, ' + pid)},
        'level_note': p['level_note'],
        'technique': p.get('technique', 'Coq theorem about an executable Gallina model + differential correspondence (vm_compute) against the Go implementation'),
    })
m = {
    'version': 1,
    'setup_cmd': './setup.sh',
    'hooks': {'guard': 'verif', 'enable': 'go build -tags verif (harness module /verif/harness with `replace github.com/ipfs/go-unixfsnode => /repo`)',
              'baseline_off_cmd': 'cd /repo && GOFLAGS=-mod=mod GOPROXY=off GOSUMDB=off GOTOOLCHAIN=local go test -vet=off -count=1 -timeout 25m ./...',
              'source_commits': HOOK_COMMITS, 'add_only': True},
    'engines': [
        {'name': 'coq-model', 'path': 'coq/', 'serves_properties': [c['property_id'] for c in checks],
         'kind_free_text': 'Coq 8.16.1 development: executable Gallina models of the Go code + theorems (full .vo build, no axioms)'},
        {'name': 'go-correspondence', 'path': 'harness/', 'serves_properties': [c['property_id'] for c in checks],
         'kind_free_text': 'Go harness driving the real code from /repo (tag verif); prints cases evaluated by the Coq model with vm_compute; direct property oracles supply replays'},
        {'name': 'vgen', 'path': 'harness/cmd/vgen', 'serves_properties': [c['property_id'] for c in checks],
         'kind_free_text': 'regenerates coq/theories/Gen/*.v (constants, reify tables, field accesses) from the current source on every run'},
    ],
    'checks': checks,
    'not_applicable': [{'property_id': pid, 'reason': NOT_APPLICABLE.get(pid, 'check not built yet (work in progress; see DESIGN.md section 5)')} for pid in ids if pid not in PROPS],
    'notes': 'See DESIGN.md. Every check: (1) rebuilds the Coq theorems it depends on, (2) rebuilds the harness from /repo working tree with -tags verif, (3) runs model/implementation correspondence and a direct property oracle; VERIF_SEED and VERIF_TIER are honoured.',
}
json.dump(m, open(os.path.join(ROOT, 'MANIFEST.json'), 'w'), indent=1)
print('claimed:', [c['property_id'] for c in checks])
