#!/bin/sh
# builds the framework from files on disk only (offline)
cd "$(dirname "$0")" && exec python3 ./check --setup
