#!/usr/bin/env python3
# runs the checks against every seeded change (applied to /repo, then reverted) and records which catch it
import os, json, subprocess, sys, re
ROOT=os.environ.get('VERIF_ROOT','/verif')
EXTRA={'C02-b':['C02','C15'],'C15-b':['C15','C02'],'C03-b':['C03','C02'],'C05-b':['C05','C02'],'C08-a':['C08','C02'],'C08-b':['C08','C02'],'C11-a':['C11','C18'],
       'C13-b':['C13'],'C12-b':['C12'],'C06-a':['C06'],'C06-b':['C06'],'C20-b':['C20'],'C10-a':['C10'],'C10-b':['C10'],'C18-b':['C18','C16'],
       'C02-c':['C02','C15'],'C02-d':['C02','C15'],'C15-c':['C15','C02'],'C15-d':['C15','C02'],'C06-c':['C06','C12'],'C12-c':['C12','C05'],'C13-c':['C13','C04'],
       'C03-d':['C03','C15'],'C08-c':['C08','C02'],'C08-d':['C08','C02','C15'],'C10-c':['C10'],'C18-d':['C18'],'C14-c':['C14'],'C02-h':['C02','C17']}
ids=sys.argv[1:] or sorted(d for d in os.listdir(ROOT+'/seeded') if os.path.exists(ROOT+'/seeded/'+d+'/patch.diff') and 'neutralised_by' not in json.load(open(ROOT+'/seeded/'+d+'/meta.json')))
out={}
for mid in ids:
    props=EXTRA.get(mid,[mid.split('-')[0]])
    env=dict(os.environ, VERIF_NO_SEARCH='1')
    p=subprocess.run([ROOT+'/seedtest.sh', ROOT+'/seeded/%s/patch.diff'%mid]+props, env=env, stdout=subprocess.PIPE, stderr=subprocess.STDOUT, text=True)
    res={}
    for pid in props:
        lines=[l for l in p.stdout.split('\n') if l.startswith('[%s]'%pid)]
        viol=[l for l in lines if 'VIOLATION' in l]
        summ=[l for l in lines if ' PASS ' in l or ' FAIL ' in l or 'ERROR' in l]
        res[pid]={'caught':bool(viol),'no_failing_input':any('no-failing-input-found' in l for l in viol),'summary':(summ[-1][len(pid)+3:] if summ else p.stdout[-300:])}
    out[mid]=res
    mp=ROOT+'/seeded/%s/meta.json'%mid
    meta=json.load(open(mp)); meta['detected_by']=res; json.dump(meta,open(mp,'w'),indent=1)
    print(mid, {k:('CAUGHT' if v['caught'] else 'missed') for k,v in res.items()}, flush=True)
mpath=ROOT+'/seeded/matrix.json'
prev=json.load(open(mpath)) if os.path.exists(mpath) else {}
prev.update(out)
json.dump(prev, open(mpath,'w'), indent=1)
