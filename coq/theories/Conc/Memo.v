(* C17: the state a reified node mutates after construction is a memo of pure loads, guarded by a
   lock; under ANY interleaving of the (atomic, lock-protected) cache operations of any number of
   goroutines, every call computes what it computes alone. *)
From UV Require Export Base.Prelude Gen.Accesses.
From Coq Require Import String.
Local Open Scope N_scope.

(* ---- the regenerated access table: every access is guarded, consistently per field ---- *)
Definition access_ok (a : string * string * bool * N) : bool :=
  let '(field, fn, write, guard) := a in
  if String.eqb field "metadata"
  then (* written only inside the Once body; read inside it or after Do returned *)
       if write then N.eqb guard 2 else (N.eqb guard 2 || N.eqb guard 3)
  else (* shardCache / cachedLength: the receiver mutex *)
       N.eqb guard 1.

(* ---- memo cells ---- *)
Section Memo.
  Variable K V : Type.
  Variable keqb : K -> K -> bool.
  Hypothesis keqb_eq : forall a b, keqb a b = true <-> a = b.
  Variable load : K -> V.            (* the pure computation being memoised (load + decode of a child shard; the entry count) *)

  Definition cache := list (K * V).
  Fixpoint cget (c : cache) (k : K) : option V :=
    match c with
    | [] => None
    | (k', v) :: r => if keqb k k' then Some v else cget r k
    end.

  (* the atomic steps goroutines take on the shared cache: each is one lock-protected region *)
  Inductive step :=
  | Get (k : K)                      (* lock; read; unlock *)
  | Put (k : K) (v : V).             (* lock; (re)check; write; unlock *)

  Definition apply (c : cache) (s : step) : cache :=
    match s with
    | Get _ => c
    | Put k v => match cget c k with Some _ => c | None => (k, v) :: c end
    end.

  (* only results of the pure computation are ever stored *)
  Definition honest (s : step) : Prop := match s with Put k v => v = load k | Get _ => True end.
  Definition coherent (c : cache) : Prop := forall k v, cget c k = Some v -> v = load k.

  Lemma apply_coherent c s : coherent c -> honest s -> coherent (apply c s).
  Proof.
    intros Hc Hs. destruct s as [k|k v]; [exact Hc|]. cbn.
    destruct (cget c k) eqn:E; [exact Hc|].
    intros k' v' H. cbn in H. destruct (keqb k' k) eqn:Ek.
    - apply keqb_eq in Ek. subst. inversion H; subst. exact Hs.
    - apply Hc. exact H.
  Qed.

  (* any interleaving of honest steps of any number of goroutines keeps the cache coherent ... *)
  Theorem interleaving_coherent (steps : list step) :
    Forall honest steps -> coherent (fold_left apply steps []).
  Proof.
    assert (G : forall c, coherent c -> Forall honest steps -> coherent (fold_left apply steps c)).
    { induction steps as [|s r IH]; intros c Hc Hh; [exact Hc|]. inversion Hh; subst. cbn. apply IH; [apply apply_coherent|]; assumption. }
    apply G. intros k v H. discriminate H.
  Qed.

  (* ... so a call that consults the cache at any point of any interleaving obtains exactly what it would compute alone *)
  Definition memo_result (c : cache) (k : K) : V := match cget c k with Some v => v | None => load k end.

  Theorem memo_pure (before : list step) (k : K) :
    Forall honest before -> memo_result (fold_left apply before []) k = load k.
  Proof.
    intros H. unfold memo_result. pose proof (interleaving_coherent before H) as Hc.
    destruct (cget (fold_left apply before []) k) eqn:E; [apply (Hc k v E)|reflexivity].
  Qed.
End Memo.
