From UV Require Import Testutil.Pack Dir.PlainProofs Dir.BuildProofs Hamt.SortProofs.
From Coq Require Import Permutation.
Local Open Scope N_scope.

(* C19 (read-back of one directory level): if the sibling names (last path segments) are distinct, the
   packed directory reads back as exactly those names with exactly those links, each once *)
Theorem pack_readback children :
  NoDup (map (fun c => last_segment (fst (fst c))) children) ->
  let links := plain_links (map child_entry children) in
  Permutation (map pair_of links) (map (fun c => (last_segment (fst (fst c)), snd c)) children)
  /\ (forall c, In c children -> lookup_by_string links (last_segment (fst (fst c))) = Ok (snd c))
  /\ dir_length links = Z.of_nat (length children).
Proof.
  intros Hnd. cbv zeta.
  assert (Hn : NoDup (map e_name (map child_entry children))).
  { rewrite map_map. erewrite map_ext; [exact Hnd|]. intros [[p ts] r]. reflexivity. }
  destruct (plain_dir_is_map _ Hn) as (Hmem & _ & Hperm & Hlen).
  split; [|split].
  - rewrite Hperm, map_map. erewrite map_ext; [apply Permutation_refl|]. intros [[p ts] r]. reflexivity.
  - intros [[p ts] r] Hin. specialize (Hmem (child_entry (p, ts, r)) (in_map _ _ _ Hin)). exact Hmem.
  - rewrite Hlen, map_length. reflexivity.
Qed.

(* isDupe rejects exactly the names whose stem is already taken, so accepted names stay pairwise distinct *)
Lemma is_dupe_false_fresh paths name :
  is_dupe paths name = false -> ~ In (stem name) (map (fun p => stem (last_segment p)) paths).
Proof.
  unfold is_dupe. induction paths as [|p r IH]; cbn; intros H; [tauto|].
  apply orb_false_elim in H. destruct H as [H1 H2].
  intros [E|Hin]; [|exact (IH H2 Hin)].
  rewrite E, bytes_eqb_refl in H1. discriminate.
Qed.

Theorem accepted_names_distinct paths name :
  NoDup (map (fun p => stem (last_segment p)) paths) -> is_dupe paths name = false ->
  forall dir, last_segment (dir ++ [slash] ++ name) = name ->
  NoDup (map (fun p => stem (last_segment p)) ((dir ++ [slash] ++ name) :: paths)).
Proof.
  intros Hnd Hd dir Hl. cbn [map]. constructor; [|exact Hnd].
  rewrite Hl. apply is_dupe_false_fresh. exact Hd.
Qed.
