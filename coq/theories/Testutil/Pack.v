(* testutil/generator.go: packDirectory (plain case), isDupe, and the read-back of a packed directory *)
From UV Require Export Hamt.Build Dir.Plain.
Local Open Scope N_scope.

Definition slash : N := 47.
Definition dot : N := 46.

(* strings.Split(path, "/") last element / path[strings.LastIndex(path, "/")+1:] *)
Fixpoint last_segment_aux (p acc : bytes) : bytes :=
  match p with
  | [] => acc
  | c :: r => if c =? slash then last_segment_aux r [] else last_segment_aux r (acc ++ [c])
  end.
Definition last_segment (p : bytes) : bytes := last_segment_aux p [].

(* name[:strings.LastIndex(name, ".")] when the name contains a dot *)
Fixpoint stem_aux (n acc cur : bytes) (seen : bool) : bytes :=
  match n with
  | [] => if seen then acc else cur
  | c :: r => if c =? dot then stem_aux r cur (cur ++ [c]) true
              else stem_aux r acc (cur ++ [c]) seen
  end.
Definition stem (n : bytes) : bytes := stem_aux n [] [] false.

Definition is_dupe (children_paths : list bytes) (name : bytes) : bool :=
  existsb (fun p => bytes_eqb (stem (last_segment p)) (stem name)) children_paths.

(* a described child: path, cumulative size, root *)
Definition child := (bytes * Z * blk)%type.
Definition child_entry (c : child) : entry := let '(p, ts, root) := c in mk_entry (last_segment p) [] ts root.

(* packDirectory with bitWidth = 0 below the auto-shard threshold: a plain directory of the children, named by last path segment *)
Definition pack_plain (children : list child) : blk * N := build_plain (map child_entry children).
