(* testutil/generator.go: packDirectory with bitWidth > 0 (a HAMT of width 2 << bitWidth) and its read-back *)
From UV Require Import Testutil.Pack Hamt.Read Hamt.ShardDecode Hamt.Refine.
From Coq Require Import Permutation ZifyN ZifyNat ZifyBool.
Local Open Scope N_scope.

Section P.
  Variable H : bytes -> bytes.
  Hypothesis H_wf : forall k, wf_bytes (H k) = true.
  Hypothesis H_len : forall k, length (H k) = 8%nat.

  Definition child_entry_h (c : child) : entry :=
    let '(p, ts, root) := c in mk_entry (last_segment p) (H (last_segment p)) ts root.

  (* width := 2 << bitWidth *)
  Definition pack_sharded (bitWidth : N) (children : list child) : res (blk * N) :=
    build_sharded (2 * 2 ^ bitWidth) HashMurmur3 (map child_entry_h children).

  Theorem pack_sharded_readback bitWidth children root sz :
    2 <= bitWidth <= 9 ->
    NoDup (map (fun c => last_segment (fst (fst c))) children) ->
    Forall (fun c => last_segment (fst (fst c)) <> []) children ->
    pack_sharded bitWidth children = Ok (root, sz) ->
    (forall c, In c children ->
       fst (lookup nofault root (H (last_segment (fst (fst c)))) (last_segment (fst (fst c)))) = Ok (snd c))
    /\ Permutation (map snd (iterate nofault root)) (map (fun c => IYield (last_segment (fst (fst c))) (snd c)) children)
    /\ fst (shard_length nofault root) = Ok (N.of_nat (length children)).
  Proof.
    intros Hbw Hnd Hne Hp. unfold pack_sharded in Hp.
    assert (Hperm : permitted (2 * 2 ^ bitWidth) (bitWidth + 1)).
    { split; [rewrite N.add_1_r, N.pow_succ_r'; reflexivity|lia]. }
    assert (Hok : Forall (entry_ok H) (map child_entry_h children)).
    { apply Forall_forall. intros e He. apply in_map_iff in He. destruct He as ([[p ts] r] & <- & Hc).
      rewrite Forall_forall in Hne. split; [exact (Hne _ Hc)|reflexivity]. }
    assert (Hnames : map e_name (map child_entry_h children) = map (fun c => last_segment (fst (fst c))) children).
    { rewrite map_map. apply map_ext. intros [[p ts] r]. reflexivity. }
    assert (Hnd' : NoDup (map e_name (map child_entry_h children))) by (rewrite Hnames; exact Hnd).
    destruct (sharded_dir_is_map _ _ Hperm H H_wf H_len _ root sz Hok Hnd' Hp) as (Hm & _ & Hi & Hl).
    split; [|split].
    - intros [[p ts] r] Hc. apply (Hm (child_entry_h (p, ts, r))). apply in_map. exact Hc.
    - rewrite Hi, map_map. apply Permutation_refl' . apply map_ext. intros [[p ts] r]. reflexivity.
    - rewrite Hl, map_length. reflexivity.
  Qed.
End P.
