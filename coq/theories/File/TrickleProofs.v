(* Every DAG the reference trickle layout builds (any width >= 1, any non-empty chunk list) has true declared sizes and denotes
   the concatenation of the chunks; hence (ReaderProofs: read_well_sized) this library reads it back exactly, as a whole, under
   every Seek/Read history, with its length. *)
From UV Require Import File.Builder File.Spec Blocks.BlkProofs File.BuilderProofs File.Compose File.Trickle.
From Coq Require Import ZifyBool ZifyNat ZifyN.
Local Open Scope N_scope.

Lemma children_bytes_app a b : children_bytes (a ++ b) = children_bytes a ++ children_bytes b.
Proof. unfold children_bytes. rewrite map_app, concat_app. reflexivity. Qed.

(* `bytes` and `list N` are convertible but distinct atoms for lia's `@length _` *)
Ltac nlia := unfold bytes in *; lia.
Section TrickleProofs.
  Variable leaf : bytes -> meta.
  Hypothesis leaf_ok : forall c, blen c < bound63 -> meta_ok (leaf c) /\ content (m_link (leaf c)) = c.
  Variable W : nat.
  Hypothesis HW : (1 <= W)%nat.
  Notation subs := (subs_g leaf).
  Notation tnode := (tnode_g leaf).
  Notation trickle_layout := (trickle_layout_g leaf).
  Notation rleaf := (tleaf leaf).

  (* a producer of one fresh subtree: on data it returns a finished subtree denoting a non-empty-list prefix of the chunks *)
  Definition prod_ok (rrec : list bytes -> meta * list bytes) : Prop :=
    forall src, src <> [] -> blen (concat src) < bound63 ->
      meta_ok (fst (rrec src)) /\ content (m_link (fst (rrec src))) ++ concat (snd (rrec src)) = concat src
      /\ (length (snd (rrec src)) < length src)%nat.

  Lemma rleaf_ok : prod_ok rleaf.
  Proof.
    intros [|c r] Hne Hb; [congruence|]. cbn [tleaf fst snd concat].
    assert (Hc : blen c < bound63) by (cbn [concat] in Hb; rewrite blen_app in Hb; nlia).
    destruct (leaf_ok c Hc) as [Hm Hct].
    split; [exact Hm|]. split; [rewrite Hct; reflexivity|cbn [length]; apply Nat.lt_succ_diag_r].
  Qed.

  Lemma rfill_ok rrec : prod_ok rrec -> forall n acc src,
    Forall meta_ok acc -> blen (children_bytes acc ++ concat src) < bound63 ->
    Forall meta_ok (fst (rfill rrec n acc src))
    /\ children_bytes (fst (rfill rrec n acc src)) ++ concat (snd (rfill rrec n acc src)) = children_bytes acc ++ concat src
    /\ (length (snd (rfill rrec n acc src)) <= length src)%nat
    /\ (exists more, fst (rfill rrec n acc src) = acc ++ more)
    /\ (src <> [] -> (1 <= n)%nat -> fst (rfill rrec n acc src) <> [] /\ (length (snd (rfill rrec n acc src)) < length src)%nat).
  Proof.
    intros Hp. induction n as [|n IH]; intros acc src Hacc Hb.
    - cbn [rfill fst snd]. split; [exact Hacc|]. split; [reflexivity|]. split; [nlia|]. split; [exists []; rewrite app_nil_r; reflexivity|]. intros _ Hn. nlia.
    - cbn [rfill]. destruct src as [|c r].
      + cbn [fst snd]. split; [exact Hacc|]. split; [reflexivity|]. split; [nlia|]. split; [exists []; rewrite app_nil_r; reflexivity|]. intros Hne. congruence.
      + assert (Hbs : blen (concat (c :: r)) < bound63) by (rewrite blen_app in Hb; nlia).
        destruct (Hp (c :: r) ltac:(congruence) Hbs) as (Hm & Hc & Hl).
        destruct (rrec (c :: r)) as [m src'] eqn:E. cbn [fst snd] in Hm, Hc, Hl.
        assert (Hacc' : Forall meta_ok (acc ++ [m])) by (apply Forall_app; split; [exact Hacc|constructor; [exact Hm|constructor]]).
        assert (Hb' : blen (children_bytes (acc ++ [m]) ++ concat src') < bound63).
        { rewrite children_bytes_app. unfold children_bytes at 2. cbn [map concat]. rewrite app_nil_r, <- app_assoc, Hc. exact Hb. }
        destruct (IH (acc ++ [m]) src' Hacc' Hb') as (H1 & H2 & H3 & (more & H4) & _).
        split; [exact H1|]. split.
        { rewrite H2, children_bytes_app. unfold children_bytes at 2. cbn [map concat]. rewrite app_nil_r, <- app_assoc, Hc. reflexivity. }
        split; [nlia|]. split; [exists (m :: more); rewrite H4, <- app_assoc; reflexivity|].
        intros _ _. split; [rewrite H4; destruct acc; discriminate|nlia].
  Qed.

  Definition subs_ok (d : nat) : Prop := forall acc src,
    Forall meta_ok acc -> blen (children_bytes acc ++ concat src) < bound63 ->
    Forall meta_ok (fst (subs W d acc src))
    /\ children_bytes (fst (subs W d acc src)) ++ concat (snd (subs W d acc src)) = children_bytes acc ++ concat src
    /\ (length (snd (subs W d acc src)) <= length src - d)%nat
    /\ (exists more, fst (subs W d acc src) = acc ++ more).

  Lemma tnode_ok d : subs_ok d -> prod_ok (tnode W d).
  Proof.
    intros Hs src Hne Hb. unfold tnode.
    destruct (rfill_ok rleaf rleaf_ok W [] src (Forall_nil _) Hb) as (L1 & L2 & L3 & _ & L5).
    destruct (L5 Hne HW) as [Lne Llt].
    destruct (rfill rleaf W [] src) as [layer s1]. cbn [fst snd] in *.
    assert (Hb1 : blen (children_bytes layer ++ concat s1) < bound63) by (rewrite L2; exact Hb).
    destruct (Hs layer s1 L1 Hb1) as (S1 & S2 & S3 & (more & S4)).
    destruct (subs W d layer s1) as [kids s2]. cbn [fst snd] in *.
    assert (Hkne : kids <> []) by (rewrite S4; destruct layer; [congruence|discriminate]).
    assert (Hsum : sumN (map m_bytes kids) < bound63).
    { rewrite (children_bytes_len kids S1). assert (E : blen (children_bytes kids ++ concat s2) < bound63) by (rewrite S2; exact Hb1).
      rewrite blen_app in E. nlia. }
    destruct (mk_node_ok kids Hkne S1 Hsum) as [Hmk Hct].
    split; [exact Hmk|]. split; [rewrite Hct, S2, L2; reflexivity|nlia].
  Qed.

  Lemma subs_all_ok d : subs_ok d.
  Proof.
    induction d as [|d IH]; intros acc src Hacc Hb.
    - cbn [subs fst snd]. split; [exact Hacc|]. split; [reflexivity|]. split; [nlia|exists []; rewrite app_nil_r; reflexivity].
    - rewrite subs_S. destruct (IH acc src Hacc Hb) as (S1 & S2 & S3 & (more & S4)).
      destruct (subs W d acc src) as [acc1 src1]. cbn [fst snd] in *.
      assert (Hb1 : blen (children_bytes acc1 ++ concat src1) < bound63) by (rewrite S2; exact Hb).
      destruct (rfill_ok (tnode W d) (tnode_ok d IH) depthRepeat acc1 src1 S1 Hb1) as (R1 & R2 & R3 & (more2 & R4) & R5).
      split; [exact R1|]. split; [rewrite R2, S2; reflexivity|]. split.
      + destruct src1 as [|c r]; [cbn [length] in R3; nlia|].
        destruct (R5 ltac:(congruence) ltac:(unfold depthRepeat; nlia)) as [_ Hlt]. nlia.
      + exists (more ++ more2). rewrite R4, S4, <- app_assoc. reflexivity.
  Qed.

  Theorem trickle_well_sized_g (chunks : list bytes) : chunks <> [] -> blen (concat chunks) < bound63 ->
    let root := fst (trickle_layout W chunks) in
    well_sized root = true /\ content root = concat chunks /\ snd (trickle_layout W chunks) = cum_size root /\ tsizes_ok root = true.
  Proof.
    intros Hne Hb root. subst root. unfold trickle_layout.
    destruct (rfill_ok rleaf rleaf_ok W [] chunks (Forall_nil _) Hb) as (L1 & L2 & L3 & _ & L5).
    destruct (L5 Hne HW) as [Lne Llt].
    destruct (rfill rleaf W [] chunks) as [layer s1]. cbn [fst snd] in *.
    assert (Hb1 : blen (children_bytes layer ++ concat s1) < bound63) by (rewrite L2; exact Hb).
    destruct (subs_all_ok (length chunks) layer s1 L1 Hb1) as (S1 & S2 & S3 & (more & S4)).
    cbv zeta. destruct (subs W (length chunks) layer s1) as [kids s2] eqn:Esub. cbn [fst snd] in *.
    assert (Es2 : s2 = []) by (destruct s2; [reflexivity|cbn [length] in S3; nlia]). subst s2.
    cbn [concat] in S2. rewrite app_nil_r in S2.
    assert (Hkne : kids <> []) by (rewrite S4; destruct layer; [congruence|discriminate]).
    assert (Hsum : sumN (map m_bytes kids) < bound63).
    { rewrite (children_bytes_len kids S1), S2. rewrite L2. exact Hb. }
    destruct (mk_node_ok kids Hkne S1 Hsum) as [(Hws & _ & _ & _ & Hst & Hts) Hct].
    cbn [fst snd]. split; [exact Hws|]. split; [rewrite Hct, S2, L2; reflexivity|]. split; [exact Hst|exact Hts].
  Qed.
End TrickleProofs.

Lemma mk_leaf_ok' c : blen c < bound63 -> meta_ok (mk_leaf c) /\ content (m_link (mk_leaf c)) = c.
Proof. intros H. split; [apply mk_leaf_ok; exact H|reflexivity]. Qed.

Definition trickle_well_sized W (HW : (1 <= W)%nat) := trickle_well_sized_g mk_leaf mk_leaf_ok' W HW.

(* ... and therefore this library reads every reference trickle DAG back exactly *)
Theorem trickle_reads_back W (chunks : list bytes) : (1 <= W)%nat -> chunks <> [] -> blen (concat chunks) < bound63 ->
  let root := fst (trickle_layout W chunks) in
  fst (fst (drain_all (stream nofault root 0) [] [])) = concat chunks
  /\ snd (drain_all (stream nofault root 0) [] []) = StEOF
  /\ (forall ops, map forget_loads (reader_run nofault root rs0 ops) = abs_run (concat chunks) 0 ops)
  /\ node_length root = Ok (zlen (concat chunks)).
Proof.
  intros HW Hne Hb root. destruct (trickle_well_sized W HW chunks Hne Hb) as (Hws & Hc & _ & _). fold root in Hws, Hc.
  rewrite <- Hc. exact (read_well_sized root Hws).
Qed.

Example trickle_demo :
  let chunks := [[1; 2]; [3]; [4; 5]; [6]; [7]; [8; 9]; [10]; [11]; [12]; [13]; [14]; [15]; [16]; [17]; [18]; [19]; [20]] in
  well_sized (fst (trickle_layout 2 chunks)) = true /\ content (fst (trickle_layout 2 chunks)) = concat chunks.
Proof. split; vm_compute; reflexivity. Qed.

(* ---- no link to an empty piece of content when the chunker emits no empty chunk: the hypothesis (pos_sized) of the request
   theorems - range reads (C05), preload (C06), depth-first request order (C20) - holds of every reference trickle DAG ---- *)
From UV Require Import File.ReaderProofs File.BuilderProofs2 File.BuilderProofs3.

Lemma rfill_extends rrec : forall n acc src, exists more, fst (rfill rrec n acc src) = acc ++ more.
Proof.
  induction n as [|n IH]; intros acc src; [exists []; cbn; rewrite app_nil_r; reflexivity|].
  cbn [rfill]. destruct src as [|c r]; [exists []; cbn; rewrite app_nil_r; reflexivity|].
  destruct (rrec (c :: r)) as [m src']. destruct (IH (acc ++ [m]) src') as (more & E).
  exists (m :: more). rewrite E, <- app_assoc. reflexivity.
Qed.

Lemma rfill_nonempty rrec n acc src : src <> [] -> (1 <= n)%nat -> fst (rfill rrec n acc src) <> [].
Proof.
  intros Hs Hn. destruct n as [|n]; [lia|]. cbn [rfill]. destruct src as [|c r]; [congruence|].
  destruct (rrec (c :: r)) as [m src']. destruct (rfill_extends rrec n (acc ++ [m]) src') as (more & E). rewrite E.
  destruct acc; discriminate.
Qed.

Section TricklePos.
  Variable leaf : bytes -> meta.
  Hypothesis leaf_pos : forall c, nonempty c -> mpos (leaf c).
  Variable W : nat.
  Hypothesis HW : (1 <= W)%nat.
  Notation subs := (subs_g leaf).
  Notation tnode := (tnode_g leaf).
  Notation trickle_layout := (trickle_layout_g leaf).
  Notation rleaf := (tleaf leaf).

  Definition prod_pos (rrec : list bytes -> meta * list bytes) : Prop :=
    forall src, src <> [] -> Forall nonempty src -> mpos (fst (rrec src)) /\ Forall nonempty (snd (rrec src)).

  Lemma rleaf_pos : prod_pos rleaf.
  Proof.
    intros [|c r] Hne Hs; [congruence|]. inversion Hs; subst. cbn [tleaf fst snd].
    split; [apply leaf_pos; assumption|assumption].
  Qed.

  Lemma rfill_pos rrec : prod_pos rrec -> forall n acc src, Forall mpos acc -> Forall nonempty src ->
    Forall mpos (fst (rfill rrec n acc src)) /\ Forall nonempty (snd (rfill rrec n acc src)).
  Proof.
    intros Hp. induction n as [|n IH]; intros acc src Ha Hs; [cbn; auto|].
    cbn [rfill]. destruct src as [|c r]; [cbn; auto|].
    destruct (Hp (c :: r) ltac:(congruence) Hs) as [Hm Hr]. destruct (rrec (c :: r)) as [m src']. cbn [fst snd] in *.
    apply IH; [apply Forall_app; split; [exact Ha|constructor; [exact Hm|constructor]]|exact Hr].
  Qed.

  Definition subs_pos (d : nat) : Prop := forall acc src, Forall mpos acc -> Forall nonempty src ->
    Forall mpos (fst (subs W d acc src)) /\ Forall nonempty (snd (subs W d acc src)).

  Lemma subs_extends d : forall acc src, exists more, fst (subs W d acc src) = acc ++ more.
  Proof.
    induction d as [|d IH]; intros acc src; [exists []; cbn; rewrite app_nil_r; reflexivity|].
    rewrite subs_S. destruct (IH acc src) as (more & E). destruct (subs W d acc src) as [acc1 src1]. cbn [fst] in E. subst acc1.
    destruct (rfill_extends (tnode W d) depthRepeat (acc ++ more) src1) as (more2 & E2).
    exists (more ++ more2). rewrite E2, <- app_assoc. reflexivity.
  Qed.

  Lemma tnode_pos d : subs_pos d -> prod_pos (tnode W d).
  Proof.
    intros Hs src Hne Hsrc. unfold tnode.
    destruct (rfill_pos rleaf rleaf_pos W [] src (Forall_nil _) Hsrc) as [L1 L2].
    pose proof (rfill_nonempty rleaf W [] src Hne HW) as Lne.
    destruct (rfill rleaf W [] src) as [layer s1]. cbn [fst snd] in *.
    destruct (Hs layer s1 L1 L2) as [S1 S2]. destruct (subs_extends d layer s1) as (more & E).
    destruct (subs W d layer s1) as [kids s2]. cbn [fst snd] in *.
    split; [|exact S2]. apply mk_node_pos; [subst kids; destruct layer; [congruence|discriminate]|exact S1].
  Qed.

  Lemma subs_all_pos d : subs_pos d.
  Proof.
    induction d as [|d IH]; intros acc src Ha Hs; [cbn; auto|].
    rewrite subs_S. destruct (IH acc src Ha Hs) as [S1 S2]. destruct (subs W d acc src) as [acc1 src1]. cbn [fst snd] in *.
    apply (rfill_pos (tnode W d) (tnode_pos d IH) depthRepeat acc1 src1 S1 S2).
  Qed.

  Theorem trickle_pos_sized_g (chunks : list bytes) : chunks <> [] -> Forall nonempty chunks ->
    pos_sized (fst (trickle_layout W chunks)) = true.
  Proof.
    intros Hne Hs. unfold trickle_layout.
    destruct (rfill_pos rleaf rleaf_pos W [] chunks (Forall_nil _) Hs) as [L1 L2].
    pose proof (rfill_nonempty rleaf W [] chunks Hne HW) as Lne.
    destruct (rfill rleaf W [] chunks) as [layer s1]. cbn [fst snd] in *.
    destruct (subs_all_pos (length chunks) layer s1 L1 L2) as [S1 _]. destruct (subs_extends (length chunks) layer s1) as (more & E).
    destruct (subs W (length chunks) layer s1) as [kids s2]. cbn [fst snd] in *.
    apply (mk_node_pos kids); [subst kids; destruct layer; [congruence|discriminate]|exact S1].
  Qed.
End TricklePos.

Definition trickle_pos_sized W (HW : (1 <= W)%nat) := trickle_pos_sized_g mk_leaf mk_leaf_pos W HW.

(* a reference trickle DAG over non-empty chunks meets both hypotheses of the request theorems *)
Theorem trickle_qualifies W (chunks : list bytes) : (1 <= W)%nat -> chunks <> [] -> Forall nonempty chunks ->
  blen (concat chunks) < bound63 ->
  well_sized (fst (trickle_layout W chunks)) = true /\ pos_sized (fst (trickle_layout W chunks)) = true.
Proof.
  intros HW Hne Hs Hb. split; [exact (proj1 (trickle_well_sized W HW chunks Hne Hb))|exact (trickle_pos_sized W HW chunks Hne Hs)].
Qed.

(* the request theorems instantiated *)
From UV Require Import File.ReaderProofs4 File.ReaderProofs5 File.PreloadProofs.
Local Open Scope Z_scope.
Theorem trickle_range_loads : forall (W : nat) (chunks : list bytes), (1 <= W)%nat -> chunks <> [] -> Forall nonempty chunks -> (blen (concat chunks) < bound63)%N ->
  let b := fst (trickle_layout W chunks) in
  forall a k, 0 <= a ->
    let '(_, loads, _, _) := take (stream nofault b a) k [] [] in
    forall c, In c loads -> exists s e, In (c, s, e) (spans b 0) /\ s < a + k /\ a < e.
Proof.
  intros W chunks HW Hne Hs Hb b. destruct (trickle_qualifies W chunks HW Hne Hs Hb) as [H1 H2]. exact (range_loads b H1 H2).
Qed.

Theorem trickle_preload : forall (W : nat) (chunks : list bytes), (1 <= W)%nat -> chunks <> [] -> Forall nonempty chunks -> (blen (concat chunks) < bound63)%N ->
  let b := fst (trickle_layout W chunks) in
  forall fault,
  let '(_, loads, st) := drain_all (stream fault b 0) [] [] in
  (Forall (fun x => fault x = None) (tl (preorder b)) -> st = StEOF /\ loads = tl (preorder b))
  /\ ((exists x, In x (tl (preorder b)) /\ fault x <> None) -> exists e, st = StErr e).
Proof.
  intros W chunks HW Hne Hs Hb b fault. destruct (trickle_qualifies W chunks HW Hne Hs Hb) as [H1 H2]. exact (preload_file fault b H1 H2).
Qed.

Theorem trickle_read_order : forall (W : nat) (chunks : list bytes), (1 <= W)%nat -> chunks <> [] -> Forall nonempty chunks -> (blen (concat chunks) < bound63)%N ->
  let b := fst (trickle_layout W chunks) in
  sloads (stream nofault b 0) = tl (preorder b).
Proof.
  intros W chunks HW Hne Hs Hb b. destruct (trickle_qualifies W chunks HW Hne Hs Hb) as [H1 H2]. exact (read_order b H1 H2).
Qed.

(* any Seek/Read history over a reference trickle DAG, from any consistent reader state; and reads under ANY set of unavailable blocks *)
From UV Require Import File.ReaderProofs3.
Theorem trickle_reader_refines : forall (W : nat) (chunks : list bytes), (1 <= W)%nat -> chunks <> [] -> (blen (concat chunks) < bound63)%N ->
  let root := fst (trickle_layout W chunks) in
  forall ops st, rinv (concat chunks) st ->
    map forget_loads (reader_run nofault root st ops) = abs_run (concat chunks) (r_off st) ops.
Proof.
  intros W chunks HW Hne Hb root. destruct (trickle_well_sized W HW chunks Hne Hb) as (Hws & Hc & _ & _). fold root in Hws, Hc.
  rewrite <- Hc. exact (reader_refines root Hws).
Qed.

Theorem trickle_read_fault : forall (W : nat) (chunks : list bytes), (1 <= W)%nat -> chunks <> [] -> (blen (concat chunks) < bound63)%N ->
  let b := fst (trickle_layout W chunks) in
  forall fault,
  let s0 := stream nofault b 0 in
  let '(pre, o) := before_fault fault s0 in
  sview (stream fault b 0) = (pre, match o with Some (_, e) => StErr e | None => StEOF end)
  /\ (exists rest, concat chunks = pre ++ rest /\ (o = None -> rest = []))
  /\ (forall blk e, o = Some (blk, e) -> fault blk = Some e).
Proof.
  intros W chunks HW Hne Hb b fault. destruct (trickle_well_sized W HW chunks Hne Hb) as (Hws & Hc & _ & _). fold b in Hws, Hc.
  rewrite <- Hc. exact (read_fault fault b Hws).
Qed.

(* ================= protobuf leaves, and the balanced layout over either kind of leaf ================= *)
From UV Require Import Codec.Proofs Codec.RoundTrip Codec.Presentation.
Local Open Scope N_scope.

Lemma pb_leaf_decodes ty c : ty = Data_File \/ ty = Data_Raw -> blen c < bound63 ->
  decode_data (encode_data (mk_ud ty (Some c) (Some (blen c)) [] None None None None))
  = Ok (mk_ud ty (Some c) (Some (blen c)) [] None None None None).
Proof.
  intros Hty Hc. rewrite decode_encode; [reflexivity|].
  unfold wf_udata. cbn [d_type d_data d_filesize d_blocksizes d_hashtype d_fanout d_mode d_mtime].
  rewrite pow64. unfold bound63, blen in *. repeat split; auto; try lia.
  destruct Hty as [-> | ->]; cbv [Data_File Data_Raw]; lia.
Qed.

Lemma pb_leaf_t_ok ty c : ty = Data_File \/ ty = Data_Raw -> blen c < bound63 ->
  meta_ok (mk_pbleaf_t ty c) /\ content (m_link (mk_pbleaf_t ty c)) = c.
Proof.
  intros Hty Hc. pose proof (pb_leaf_decodes ty c Hty Hc) as Hd.
  assert (Hw : wrapped_bytes (Some (encode_data (mk_ud ty (Some c) (Some (blen c)) [] None None None None))) = Ok c).
  { unfold wrapped_bytes. rewrite Hd. reflexivity. }
  unfold meta_ok, mk_pbleaf_t, m_link, m_bytes, m_stored. cbn [fst snd].
  assert (Hct : content (Pb (Some (encode_data (mk_ud ty (Some c) (Some (blen c)) [] None None None None))) []) = c).
  { cbn [content]. rewrite Hw. reflexivity. }
  split; [|exact Hct].
  split; [cbn [well_sized]; rewrite Hw; reflexivity|].
  split; [rewrite Hct; reflexivity|]. split; [exact Hc|]. split; [exact I|].
  split; [cbn [cum_size enc_len fold_right]; lia|reflexivity].
Qed.
Lemma pb_leaf_ok c : blen c < bound63 -> meta_ok (mk_pbleaf c) /\ content (m_link (mk_pbleaf c)) = c.
Proof. apply pb_leaf_t_ok. left. reflexivity. Qed.
Lemma pb_leaf_raw_ok c : blen c < bound63 -> meta_ok (mk_pbleaf_raw c) /\ content (m_link (mk_pbleaf_raw c)) = c.
Proof. apply pb_leaf_t_ok. right. reflexivity. Qed.

Section Balanced.
  Variable leaf : bytes -> meta.
  Hypothesis leaf_ok : forall c, blen c < bound63 -> meta_ok (leaf c) /\ content (m_link (leaf c)) = c.
  Variable W : nat.
  Hypothesis HW : (2 <= W)%nat.
  Notation rleaf := (tleaf leaf).
  (* (the lemmas of the first section were generalised over its width hypothesis by `nlia`) *)
  Lemma HW1 : (1 <= W)%nat. Proof. nlia. Qed.
  Definition rfill_ok' := rfill_ok leaf leaf_ok W HW1.
  Definition rleaf_ok' := rleaf_ok leaf leaf_ok W HW1.

  Definition GR (d : nat) : list bytes -> meta * list bytes :=
    match d with O => rleaf | S _ => gfill_node_rec leaf W d [] end.

  Lemma gfill_S d seeded src :
    gfill_node_rec leaf W (S d) seeded src =
    let '(children, src') := rfill (GR d) (W - length seeded) seeded src in (mk_node children, src').
  Proof. destruct d; reflexivity. Qed.

  Lemma GR_ok d : prod_ok (GR d).
  Proof.
    induction d as [|d IH]; [exact rleaf_ok'|].
    intros src Hne Hb. change (GR (S d) src) with (gfill_node_rec leaf W (S d) [] src). rewrite gfill_S. cbn [length].
    destruct (rfill_ok' (GR d) IH (W - 0) [] src (Forall_nil _) Hb) as (R1 & R2 & R3 & _ & R5).
    destruct (R5 Hne ltac:(nlia)) as [Rne Rlt].
    destruct (rfill (GR d) (W - 0) [] src) as [kids s2]. cbn [fst snd] in *.
    assert (Hsum : sumN (map m_bytes kids) < bound63).
    { rewrite (children_bytes_len kids R1). assert (E : blen (children_bytes kids ++ concat s2) < bound63) by (rewrite R2; exact Hb).
      rewrite blen_app in E. nlia. }
    destruct (mk_node_ok kids Rne R1 Hsum) as [Hmk Hct].
    split; [exact Hmk|]. split; [rewrite Hct, R2; reflexivity|exact Rlt].
  Qed.

  (* one round of the root-growing loop: the old root becomes the first child *)
  Lemma grow_ok depth root src : meta_ok root -> src <> [] -> blen (content (m_link root) ++ concat src) < bound63 ->
    meta_ok (fst (gfill_node_rec leaf W (S depth) [root] src))
    /\ content (m_link (fst (gfill_node_rec leaf W (S depth) [root] src))) ++ concat (snd (gfill_node_rec leaf W (S depth) [root] src))
       = content (m_link root) ++ concat src
    /\ (length (snd (gfill_node_rec leaf W (S depth) [root] src)) < length src)%nat.
  Proof.
    intros Hr Hne Hb. rewrite gfill_S. cbn [length].
    assert (Hb' : blen (children_bytes [root] ++ concat src) < bound63) by (unfold children_bytes; cbn [map concat]; rewrite app_nil_r; exact Hb).
    destruct (rfill_ok' (GR depth) (GR_ok depth) (W - 1) [root] src (Forall_cons _ Hr (Forall_nil _)) Hb') as (R1 & R2 & R3 & (more & R4) & R5).
    destruct (R5 Hne ltac:(nlia)) as [Rne Rlt].
    destruct (rfill (GR depth) (W - 1) [root] src) as [kids s2]. cbn [fst snd] in *.
    assert (Hsum : sumN (map m_bytes kids) < bound63).
    { rewrite (children_bytes_len kids R1). assert (E : blen (children_bytes kids ++ concat s2) < bound63) by (rewrite R2; exact Hb').
      rewrite blen_app in E. nlia. }
    destruct (mk_node_ok kids Rne R1 Hsum) as [Hmk Hct].
    split; [exact Hmk|]. split; [|exact Rlt].
    rewrite Hct, R2. unfold children_bytes. cbn [map concat]. rewrite app_nil_r. reflexivity.
  Qed.

  Lemma gloop_ok fuel : forall depth root src, (length src < fuel)%nat -> (1 <= depth)%nat ->
    meta_ok root -> blen (content (m_link root) ++ concat src) < bound63 ->
    meta_ok (glayout_loop leaf W fuel depth root src)
    /\ content (m_link (glayout_loop leaf W fuel depth root src)) = content (m_link root) ++ concat src.
  Proof.
    induction fuel as [|f IH]; intros depth root src Hf Hd Hr Hb; [nlia|].
    destruct src as [|c r]; [cbn [glayout_loop concat]; rewrite app_nil_r; split; [exact Hr|reflexivity]|].
    cbn [glayout_loop]. destruct depth as [|depth]; [nlia|].
    destruct (grow_ok depth root (c :: r) Hr ltac:(congruence) Hb) as (G1 & G2 & G3).
    destruct (gfill_node_rec leaf W (S depth) [root] (c :: r)) as [r' src']. cbn [fst snd] in *.
    destruct (IH (S (S depth)) r' src' ltac:(cbn [length] in *; nlia) ltac:(nlia) G1 ltac:(rewrite G2; exact Hb)) as [I1 I2].
    split; [exact I1|]. rewrite I2, G2. reflexivity.
  Qed.

  Theorem balanced_well_sized_g (chunks : list bytes) : chunks <> [] -> blen (concat chunks) < bound63 ->
    let root := fst (balanced_layout_g leaf W chunks) in
    well_sized root = true /\ content root = concat chunks /\ snd (balanced_layout_g leaf W chunks) = cum_size root /\ tsizes_ok root = true.
  Proof.
    intros Hne Hb root. subst root. destruct chunks as [|c r]; [congruence|]. cbn [balanced_layout_g fst snd].
    assert (Hc : blen c < bound63) by (cbn [concat] in Hb; rewrite blen_app in Hb; nlia).
    destruct (leaf_ok c Hc) as [Hm Hct].
    destruct (gloop_ok (S (length r)) 1 (leaf c) r ltac:(nlia) ltac:(nlia) Hm ltac:(rewrite Hct; exact Hb)) as [(Hws & _ & _ & _ & Hst & Hts) Hcont].
    split; [exact Hws|]. split; [rewrite Hcont, Hct; reflexivity|]. split; [exact Hst|exact Hts].
  Qed.
End Balanced.

(* ---- instances: what the reference importer writes with protobuf leaves, in either layout, is well-sized and reads back ---- *)
Definition trickle_pb_well_sized W (HW : (1 <= W)%nat) := trickle_well_sized_g mk_pbleaf_raw pb_leaf_raw_ok W HW.
Definition balanced_pb_well_sized W (HW : (2 <= W)%nat) := balanced_well_sized_g mk_pbleaf pb_leaf_ok W HW.
Definition balanced_raw_well_sized W (HW : (2 <= W)%nat) := balanced_well_sized_g mk_leaf mk_leaf_ok' W HW.

Theorem reference_pb_layouts_read_back W (chunks : list bytes) : (2 <= W)%nat -> chunks <> [] -> blen (concat chunks) < bound63 ->
  forall root, root = fst (trickle_layout_g mk_pbleaf_raw W chunks) \/ root = fst (balanced_layout_g mk_pbleaf W chunks) ->
  well_sized root = true
  /\ fst (fst (drain_all (stream nofault root 0) [] [])) = concat chunks
  /\ snd (drain_all (stream nofault root 0) [] []) = StEOF
  /\ (forall ops, map forget_loads (reader_run nofault root rs0 ops) = abs_run (concat chunks) 0 ops)
  /\ node_length root = Ok (zlen (concat chunks)).
Proof.
  intros HW Hne Hb root Hr.
  assert (G : well_sized root = true /\ content root = concat chunks).
  { destruct Hr as [-> | ->].
    - destruct (trickle_pb_well_sized W ltac:(lia) chunks Hne Hb) as (H1 & H2 & _). auto.
    - destruct (balanced_pb_well_sized W HW chunks Hne Hb) as (H1 & H2 & _). auto. }
  destruct G as [Hws Hc]. split; [exact Hws|]. rewrite <- Hc. exact (read_well_sized root Hws).
Qed.

(* the generic balanced layout over raw leaves is Builder.ref_layout, i.e. (C07) this library's own file DAG *)
Lemma balanced_raw_is_ref_layout W chunks : balanced_layout_g mk_leaf W chunks = ref_layout W chunks.
Proof.
  assert (F : forall d seeded src, gfill_node_rec mk_leaf W d seeded src = fill_node_rec W d seeded src).
  { induction d as [|d IH]; intros seeded src; [reflexivity|].
    cbn [gfill_node_rec fill_node_rec]. destruct d as [|d']; [reflexivity|].
    assert (E : forall n acc s, rfill (gfill_node_rec mk_leaf W (S d') []) n acc s = rfill (fill_node_rec W (S d') []) n acc s).
    { induction n as [|n IHn]; intros acc s; [reflexivity|]. cbn [rfill]. destruct s as [|c r]; [reflexivity|]. rewrite IH.
      destruct (fill_node_rec W (S d') [] (c :: r)). apply IHn. }
    rewrite E. reflexivity. }
  assert (L : forall fuel d root src, glayout_loop mk_leaf W fuel d root src = layout_loop W fuel d root src).
  { induction fuel as [|f IH]; intros d root src; destruct src as [|c r]; reflexivity. }
  destruct chunks as [|c r]; [reflexivity|]. cbn [balanced_layout_g ref_layout]. rewrite L. reflexivity.
Qed.

Example pb_layouts_demo :
  let chunks := [[1; 2]; [3]; [4; 5]; [6]; [7]; [8; 9]; [10]; [11]; [12]; [13]; [14]]%N in
  well_sized (fst (trickle_layout_g mk_pbleaf_raw 2 chunks)) = true /\ content (fst (trickle_layout_g mk_pbleaf_raw 2 chunks)) = concat chunks
  /\ well_sized (fst (balanced_layout_g mk_pbleaf 3 chunks)) = true /\ content (fst (balanced_layout_g mk_pbleaf 3 chunks)) = concat chunks.
Proof. repeat split; vm_compute; reflexivity. Qed.
