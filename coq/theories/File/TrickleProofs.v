(* Every DAG the reference trickle layout builds (any width >= 1, any non-empty chunk list) has true declared sizes and denotes
   the concatenation of the chunks; hence (ReaderProofs: read_well_sized) this library reads it back exactly, as a whole, under
   every Seek/Read history, with its length. *)
From UV Require Import File.Builder File.Spec Blocks.BlkProofs File.BuilderProofs File.Compose File.Trickle.
From Coq Require Import ZifyBool ZifyNat ZifyN.
Local Open Scope N_scope.

Lemma children_bytes_app a b : children_bytes (a ++ b) = children_bytes a ++ children_bytes b.
Proof. unfold children_bytes. rewrite map_app, concat_app. reflexivity. Qed.

(* `bytes` and `list N` are convertible but distinct atoms for lia's `@length _` *)
Ltac nlia := unfold bytes in *; lia.
Section TrickleProofs.
  Variable W : nat.
  Hypothesis HW : (1 <= W)%nat.

  (* a producer of one fresh subtree: on data it returns a finished subtree denoting a non-empty-list prefix of the chunks *)
  Definition prod_ok (rrec : list bytes -> meta * list bytes) : Prop :=
    forall src, src <> [] -> blen (concat src) < bound63 ->
      meta_ok (fst (rrec src)) /\ content (m_link (fst (rrec src))) ++ concat (snd (rrec src)) = concat src
      /\ (length (snd (rrec src)) < length src)%nat.

  Lemma rleaf_ok : prod_ok rleaf.
  Proof.
    intros [|c r] Hne Hb; [congruence|]. cbn [rleaf fst snd mk_leaf m_link content concat].
    split; [|split; [reflexivity|cbn [length]; apply Nat.lt_succ_diag_r]].
    apply mk_leaf_ok. cbn [concat] in Hb. rewrite blen_app in Hb. nlia.
  Qed.

  Lemma rfill_ok rrec : prod_ok rrec -> forall n acc src,
    Forall meta_ok acc -> blen (children_bytes acc ++ concat src) < bound63 ->
    Forall meta_ok (fst (rfill rrec n acc src))
    /\ children_bytes (fst (rfill rrec n acc src)) ++ concat (snd (rfill rrec n acc src)) = children_bytes acc ++ concat src
    /\ (length (snd (rfill rrec n acc src)) <= length src)%nat
    /\ (exists more, fst (rfill rrec n acc src) = acc ++ more)
    /\ (src <> [] -> (1 <= n)%nat -> fst (rfill rrec n acc src) <> [] /\ (length (snd (rfill rrec n acc src)) < length src)%nat).
  Proof.
    intros Hp. induction n as [|n IH]; intros acc src Hacc Hb.
    - cbn [rfill fst snd]. split; [exact Hacc|]. split; [reflexivity|]. split; [nlia|]. split; [exists []; rewrite app_nil_r; reflexivity|]. intros _ Hn. nlia.
    - cbn [rfill]. destruct src as [|c r].
      + cbn [fst snd]. split; [exact Hacc|]. split; [reflexivity|]. split; [nlia|]. split; [exists []; rewrite app_nil_r; reflexivity|]. intros Hne. congruence.
      + assert (Hbs : blen (concat (c :: r)) < bound63) by (rewrite blen_app in Hb; nlia).
        destruct (Hp (c :: r) ltac:(congruence) Hbs) as (Hm & Hc & Hl).
        destruct (rrec (c :: r)) as [m src'] eqn:E. cbn [fst snd] in Hm, Hc, Hl.
        assert (Hacc' : Forall meta_ok (acc ++ [m])) by (apply Forall_app; split; [exact Hacc|constructor; [exact Hm|constructor]]).
        assert (Hb' : blen (children_bytes (acc ++ [m]) ++ concat src') < bound63).
        { rewrite children_bytes_app. unfold children_bytes at 2. cbn [map concat]. rewrite app_nil_r, <- app_assoc, Hc. exact Hb. }
        destruct (IH (acc ++ [m]) src' Hacc' Hb') as (H1 & H2 & H3 & (more & H4) & _).
        split; [exact H1|]. split.
        { rewrite H2, children_bytes_app. unfold children_bytes at 2. cbn [map concat]. rewrite app_nil_r, <- app_assoc, Hc. reflexivity. }
        split; [nlia|]. split; [exists (m :: more); rewrite H4, <- app_assoc; reflexivity|].
        intros _ _. split; [rewrite H4; destruct acc; discriminate|nlia].
  Qed.

  Definition subs_ok (d : nat) : Prop := forall acc src,
    Forall meta_ok acc -> blen (children_bytes acc ++ concat src) < bound63 ->
    Forall meta_ok (fst (subs W d acc src))
    /\ children_bytes (fst (subs W d acc src)) ++ concat (snd (subs W d acc src)) = children_bytes acc ++ concat src
    /\ (length (snd (subs W d acc src)) <= length src - d)%nat
    /\ (exists more, fst (subs W d acc src) = acc ++ more).

  Lemma tnode_ok d : subs_ok d -> prod_ok (tnode W d).
  Proof.
    intros Hs src Hne Hb. unfold tnode.
    destruct (rfill_ok rleaf rleaf_ok W [] src (Forall_nil _) Hb) as (L1 & L2 & L3 & _ & L5).
    destruct (L5 Hne HW) as [Lne Llt].
    destruct (rfill rleaf W [] src) as [layer s1]. cbn [fst snd] in *.
    assert (Hb1 : blen (children_bytes layer ++ concat s1) < bound63) by (rewrite L2; exact Hb).
    destruct (Hs layer s1 L1 Hb1) as (S1 & S2 & S3 & (more & S4)).
    destruct (subs W d layer s1) as [kids s2]. cbn [fst snd] in *.
    assert (Hkne : kids <> []) by (rewrite S4; destruct layer; [congruence|discriminate]).
    assert (Hsum : sumN (map m_bytes kids) < bound63).
    { rewrite (children_bytes_len kids S1). assert (E : blen (children_bytes kids ++ concat s2) < bound63) by (rewrite S2; exact Hb1).
      rewrite blen_app in E. nlia. }
    destruct (mk_node_ok kids Hkne S1 Hsum) as [Hmk Hct].
    split; [exact Hmk|]. split; [rewrite Hct, S2, L2; reflexivity|nlia].
  Qed.

  Lemma subs_all_ok d : subs_ok d.
  Proof.
    induction d as [|d IH]; intros acc src Hacc Hb.
    - cbn [subs fst snd]. split; [exact Hacc|]. split; [reflexivity|]. split; [nlia|exists []; rewrite app_nil_r; reflexivity].
    - rewrite subs_S. destruct (IH acc src Hacc Hb) as (S1 & S2 & S3 & (more & S4)).
      destruct (subs W d acc src) as [acc1 src1]. cbn [fst snd] in *.
      assert (Hb1 : blen (children_bytes acc1 ++ concat src1) < bound63) by (rewrite S2; exact Hb).
      destruct (rfill_ok (tnode W d) (tnode_ok d IH) depthRepeat acc1 src1 S1 Hb1) as (R1 & R2 & R3 & (more2 & R4) & R5).
      split; [exact R1|]. split; [rewrite R2, S2; reflexivity|]. split.
      + destruct src1 as [|c r]; [cbn [length] in R3; nlia|].
        destruct (R5 ltac:(congruence) ltac:(unfold depthRepeat; nlia)) as [_ Hlt]. nlia.
      + exists (more ++ more2). rewrite R4, S4, <- app_assoc. reflexivity.
  Qed.

  Theorem trickle_well_sized (chunks : list bytes) : chunks <> [] -> blen (concat chunks) < bound63 ->
    let root := fst (trickle_layout W chunks) in
    well_sized root = true /\ content root = concat chunks /\ snd (trickle_layout W chunks) = cum_size root /\ tsizes_ok root = true.
  Proof.
    intros Hne Hb root. subst root. unfold trickle_layout.
    destruct (rfill_ok rleaf rleaf_ok W [] chunks (Forall_nil _) Hb) as (L1 & L2 & L3 & _ & L5).
    destruct (L5 Hne HW) as [Lne Llt].
    destruct (rfill rleaf W [] chunks) as [layer s1]. cbn [fst snd] in *.
    assert (Hb1 : blen (children_bytes layer ++ concat s1) < bound63) by (rewrite L2; exact Hb).
    destruct (subs_all_ok (length chunks) layer s1 L1 Hb1) as (S1 & S2 & S3 & (more & S4)).
    cbv zeta. destruct (subs W (length chunks) layer s1) as [kids s2] eqn:Esub. cbn [fst snd] in *.
    assert (Es2 : s2 = []) by (destruct s2; [reflexivity|cbn [length] in S3; nlia]). subst s2.
    cbn [concat] in S2. rewrite app_nil_r in S2.
    assert (Hkne : kids <> []) by (rewrite S4; destruct layer; [congruence|discriminate]).
    assert (Hsum : sumN (map m_bytes kids) < bound63).
    { rewrite (children_bytes_len kids S1), S2. rewrite L2. exact Hb. }
    destruct (mk_node_ok kids Hkne S1 Hsum) as [(Hws & _ & _ & _ & Hst & Hts) Hct].
    cbn [fst snd]. split; [exact Hws|]. split; [rewrite Hct, S2, L2; reflexivity|]. split; [exact Hst|exact Hts].
  Qed.
End TrickleProofs.

(* ... and therefore this library reads every reference trickle DAG back exactly *)
Theorem trickle_reads_back W (chunks : list bytes) : (1 <= W)%nat -> chunks <> [] -> blen (concat chunks) < bound63 ->
  let root := fst (trickle_layout W chunks) in
  fst (fst (drain_all (stream nofault root 0) [] [])) = concat chunks
  /\ snd (drain_all (stream nofault root 0) [] []) = StEOF
  /\ (forall ops, map forget_loads (reader_run nofault root rs0 ops) = abs_run (concat chunks) 0 ops)
  /\ node_length root = Ok (zlen (concat chunks)).
Proof.
  intros HW Hne Hb root. destruct (trickle_well_sized W HW chunks Hne Hb) as (Hws & Hc & _ & _). fold root in Hws, Hc.
  rewrite <- Hc. exact (read_well_sized root Hws).
Qed.

Example trickle_demo :
  let chunks := [[1; 2]; [3]; [4; 5]; [6]; [7]; [8; 9]; [10]; [11]; [12]; [13]; [14]; [15]; [16]; [17]; [18]; [19]; [20]] in
  well_sized (fst (trickle_layout 2 chunks)) = true /\ content (fst (trickle_layout 2 chunks)) = concat chunks.
Proof. split; vm_compute; reflexivity. Qed.

(* ---- no link to an empty piece of content when the chunker emits no empty chunk: the hypothesis (pos_sized) of the request
   theorems - range reads (C05), preload (C06), depth-first request order (C20) - holds of every reference trickle DAG ---- *)
From UV Require Import File.ReaderProofs File.BuilderProofs2 File.BuilderProofs3.

Lemma rfill_extends rrec : forall n acc src, exists more, fst (rfill rrec n acc src) = acc ++ more.
Proof.
  induction n as [|n IH]; intros acc src; [exists []; cbn; rewrite app_nil_r; reflexivity|].
  cbn [rfill]. destruct src as [|c r]; [exists []; cbn; rewrite app_nil_r; reflexivity|].
  destruct (rrec (c :: r)) as [m src']. destruct (IH (acc ++ [m]) src') as (more & E).
  exists (m :: more). rewrite E, <- app_assoc. reflexivity.
Qed.

Lemma rfill_nonempty rrec n acc src : src <> [] -> (1 <= n)%nat -> fst (rfill rrec n acc src) <> [].
Proof.
  intros Hs Hn. destruct n as [|n]; [lia|]. cbn [rfill]. destruct src as [|c r]; [congruence|].
  destruct (rrec (c :: r)) as [m src']. destruct (rfill_extends rrec n (acc ++ [m]) src') as (more & E). rewrite E.
  destruct acc; discriminate.
Qed.

Section TricklePos.
  Variable W : nat.
  Hypothesis HW : (1 <= W)%nat.

  Definition prod_pos (rrec : list bytes -> meta * list bytes) : Prop :=
    forall src, src <> [] -> Forall nonempty src -> mpos (fst (rrec src)) /\ Forall nonempty (snd (rrec src)).

  Lemma rleaf_pos : prod_pos rleaf.
  Proof.
    intros [|c r] Hne Hs; [congruence|]. inversion Hs; subst. cbn [rleaf fst snd].
    split; [apply mk_leaf_pos; assumption|assumption].
  Qed.

  Lemma rfill_pos rrec : prod_pos rrec -> forall n acc src, Forall mpos acc -> Forall nonempty src ->
    Forall mpos (fst (rfill rrec n acc src)) /\ Forall nonempty (snd (rfill rrec n acc src)).
  Proof.
    intros Hp. induction n as [|n IH]; intros acc src Ha Hs; [cbn; auto|].
    cbn [rfill]. destruct src as [|c r]; [cbn; auto|].
    destruct (Hp (c :: r) ltac:(congruence) Hs) as [Hm Hr]. destruct (rrec (c :: r)) as [m src']. cbn [fst snd] in *.
    apply IH; [apply Forall_app; split; [exact Ha|constructor; [exact Hm|constructor]]|exact Hr].
  Qed.

  Definition subs_pos (d : nat) : Prop := forall acc src, Forall mpos acc -> Forall nonempty src ->
    Forall mpos (fst (subs W d acc src)) /\ Forall nonempty (snd (subs W d acc src)).

  Lemma subs_extends d : forall acc src, exists more, fst (subs W d acc src) = acc ++ more.
  Proof.
    induction d as [|d IH]; intros acc src; [exists []; cbn; rewrite app_nil_r; reflexivity|].
    rewrite subs_S. destruct (IH acc src) as (more & E). destruct (subs W d acc src) as [acc1 src1]. cbn [fst] in E. subst acc1.
    destruct (rfill_extends (tnode W d) depthRepeat (acc ++ more) src1) as (more2 & E2).
    exists (more ++ more2). rewrite E2, <- app_assoc. reflexivity.
  Qed.

  Lemma tnode_pos d : subs_pos d -> prod_pos (tnode W d).
  Proof.
    intros Hs src Hne Hsrc. unfold tnode.
    destruct (rfill_pos rleaf rleaf_pos W [] src (Forall_nil _) Hsrc) as [L1 L2].
    pose proof (rfill_nonempty rleaf W [] src Hne HW) as Lne.
    destruct (rfill rleaf W [] src) as [layer s1]. cbn [fst snd] in *.
    destruct (Hs layer s1 L1 L2) as [S1 S2]. destruct (subs_extends d layer s1) as (more & E).
    destruct (subs W d layer s1) as [kids s2]. cbn [fst snd] in *.
    split; [|exact S2]. apply mk_node_pos; [subst kids; destruct layer; [congruence|discriminate]|exact S1].
  Qed.

  Lemma subs_all_pos d : subs_pos d.
  Proof.
    induction d as [|d IH]; intros acc src Ha Hs; [cbn; auto|].
    rewrite subs_S. destruct (IH acc src Ha Hs) as [S1 S2]. destruct (subs W d acc src) as [acc1 src1]. cbn [fst snd] in *.
    apply (rfill_pos (tnode W d) (tnode_pos d IH) depthRepeat acc1 src1 S1 S2).
  Qed.

  Theorem trickle_pos_sized (chunks : list bytes) : chunks <> [] -> Forall nonempty chunks ->
    pos_sized (fst (trickle_layout W chunks)) = true.
  Proof.
    intros Hne Hs. unfold trickle_layout.
    destruct (rfill_pos rleaf rleaf_pos W [] chunks (Forall_nil _) Hs) as [L1 L2].
    pose proof (rfill_nonempty rleaf W [] chunks Hne HW) as Lne.
    destruct (rfill rleaf W [] chunks) as [layer s1]. cbn [fst snd] in *.
    destruct (subs_all_pos (length chunks) layer s1 L1 L2) as [S1 _]. destruct (subs_extends (length chunks) layer s1) as (more & E).
    destruct (subs W (length chunks) layer s1) as [kids s2]. cbn [fst snd] in *.
    apply (mk_node_pos kids); [subst kids; destruct layer; [congruence|discriminate]|exact S1].
  Qed.
End TricklePos.

(* a reference trickle DAG over non-empty chunks meets both hypotheses of the request theorems *)
Theorem trickle_qualifies W (chunks : list bytes) : (1 <= W)%nat -> chunks <> [] -> Forall nonempty chunks ->
  blen (concat chunks) < bound63 ->
  well_sized (fst (trickle_layout W chunks)) = true /\ pos_sized (fst (trickle_layout W chunks)) = true.
Proof.
  intros HW Hne Hs Hb. split; [exact (proj1 (trickle_well_sized W HW chunks Hne Hb))|exact (trickle_pos_sized W HW chunks Hne Hs)].
Qed.

(* the request theorems instantiated *)
From UV Require Import File.ReaderProofs4 File.ReaderProofs5 File.PreloadProofs.
Local Open Scope Z_scope.
Theorem trickle_range_loads : forall (W : nat) (chunks : list bytes), (1 <= W)%nat -> chunks <> [] -> Forall nonempty chunks -> (blen (concat chunks) < bound63)%N ->
  let b := fst (trickle_layout W chunks) in
  forall a k, 0 <= a ->
    let '(_, loads, _, _) := take (stream nofault b a) k [] [] in
    forall c, In c loads -> exists s e, In (c, s, e) (spans b 0) /\ s < a + k /\ a < e.
Proof.
  intros W chunks HW Hne Hs Hb b. destruct (trickle_qualifies W chunks HW Hne Hs Hb) as [H1 H2]. exact (range_loads b H1 H2).
Qed.

Theorem trickle_preload : forall (W : nat) (chunks : list bytes), (1 <= W)%nat -> chunks <> [] -> Forall nonempty chunks -> (blen (concat chunks) < bound63)%N ->
  let b := fst (trickle_layout W chunks) in
  forall fault,
  let '(_, loads, st) := drain_all (stream fault b 0) [] [] in
  (Forall (fun x => fault x = None) (tl (preorder b)) -> st = StEOF /\ loads = tl (preorder b))
  /\ ((exists x, In x (tl (preorder b)) /\ fault x <> None) -> exists e, st = StErr e).
Proof.
  intros W chunks HW Hne Hs Hb b fault. destruct (trickle_qualifies W chunks HW Hne Hs Hb) as [H1 H2]. exact (preload_file fault b H1 H2).
Qed.

Theorem trickle_read_order : forall (W : nat) (chunks : list bytes), (1 <= W)%nat -> chunks <> [] -> Forall nonempty chunks -> (blen (concat chunks) < bound63)%N ->
  let b := fst (trickle_layout W chunks) in
  sloads (stream nofault b 0) = tl (preorder b).
Proof.
  intros W chunks HW Hne Hs Hb b. destruct (trickle_qualifies W chunks HW Hne Hs Hb) as [H1 H2]. exact (read_order b H1 H2).
Qed.
