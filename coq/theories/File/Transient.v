(* Storage that fails a request now and serves it later.  A reader that got a load error keeps its place: the child it
   could not open is asked for again by the next Read (file/deferred.go: resolve is retried while the reader has no
   stream), so a caller that simply reads again gets the bytes at its offset.
   The failures are a budget per block ("the next n requests for b fail"), decremented by every failing request — the
   shape the harness injects.  `takeR` is one Read over the fault-free stream under such a budget. *)
From UV Require Import File.Spec File.ReaderProofs File.ReaderProofs2.
From Coq Require Import ZifyBool ZifyNat.
Local Open Scope Z_scope.

Definition budget := list (blk * (nat * err)).      (* block, failures left, the error they carry *)

Fixpoint bget (r : budget) (b : blk) : option (nat * err) :=
  match r with
  | [] => None
  | (x, v) :: t => if blk_eqb x b then Some v else bget t b
  end.

Fixpoint bdec (r : budget) (b : blk) : budget :=
  match r with
  | [] => []
  | (x, (n, e)) :: t => if blk_eqb x b then (x, (Nat.pred n, e)) :: t else (x, (n, e)) :: bdec t b
  end.

Definition btotal (r : budget) : nat := fold_right (fun p acc => (fst (snd p) + acc)%nat) O r.

(* ReadFull-style consumption of at most k bytes of the fault-free stream s *)
Fixpoint takeR (r : budget) (s : strm) (k : Z) (acc : bytes) (loads : list blk) : bytes * list blk * status * strm * budget :=
  if k <=? 0 then (acc, loads, StOk, s, r) else
  match s with
  | SNil => (acc, loads, StEOF, SNil, r)
  | SLoad b s' =>
    match bget r b with
    | Some (S n, e) => (acc, loads ++ [b], StErr e, s, bdec r b)     (* this request fails; the stream stays where it is *)
    | _ => takeR r s' k acc (loads ++ [b])
    end
  | SBytes bs s' =>
    if zlen bs <=? k then takeR r s' (k - zlen bs) (acc ++ bs) loads
    else (acc ++ firstz k bs, loads, StOk, SBytes (skipz k bs) s', r)
  | SFail b e => (acc, loads ++ [b], StErr e, s, r)
  | SErr e => (acc, loads, StErr e, s, r)
  end.

(* a sequence of Reads (buffer sizes ks) on one reader *)
Fixpoint readsR (r : budget) (s : strm) (ks : list Z) : list (bytes * status) * strm * budget :=
  match ks with
  | [] => ([], s, r)
  | k :: t =>
    let '(bs, _, st, s', r') := takeR r s k [] [] in
    let '(out, s'', r'') := readsR r' s' t in
    ((bs, st) :: out, s'', r'')
  end.

Lemma bdec_total r b n e : bget r b = Some (S n, e) -> btotal (bdec r b) = Nat.pred (btotal r).
Proof.
  induction r as [|[x [m e']] t IH]; cbn [bget bdec btotal fold_right fst snd]; [discriminate|].
  destruct (blk_eqb x b).
  - intros [= -> ->]. cbn [btotal fold_right fst snd]. fold (btotal t). lia.
  - intros H. cbn [fold_right fst snd]. fold (btotal t) (btotal (bdec t b)). rewrite (IH H).
    assert (0 < btotal t)%nat.
    { clear IH. induction t as [|[y [p q]] u IHu]; cbn [bget] in H; [discriminate|].
      cbn [btotal fold_right fst snd]. fold (btotal u). destruct (blk_eqb y b); [injection H as -> _; lia|specialize (IHu H); lia]. }
    lia.
Qed.

Lemma bget_pos_total r b n e : bget r b = Some (S n, e) -> (0 < btotal r)%nat.
Proof.
  induction r as [|[y [p q]] u IH]; cbn [bget]; [discriminate|].
  cbn [btotal fold_right fst snd]. fold (btotal u). destruct (blk_eqb y b); [intros [= -> _]; lia|intros H; specialize (IH H); lia].
Qed.

(* one Read: what it delivers plus what is left is what there was; the stream left is still a clean one; an error costs
   one failure of the budget, everything else leaves the budget alone; a positive request on a non-exhausted stream
   either delivers bytes, or reports an error, or is at the end *)
Lemma takeR_spec r s : sclean s = true -> forall k acc loads,
  let '(bs, _, st, s', r') := takeR r s k acc loads in
  acc ++ sbytes s = bs ++ sbytes s' /\ sclean s' = true
  /\ (match st with
      | StErr _ => btotal r' = Nat.pred (btotal r) /\ (0 < btotal r)%nat
      | StEOF => r' = r /\ sbytes s' = []
      | StOk => r' = r
      end).
Proof.
  induction s as [|x s' IH|x s' IH|x e|e]; intros Hc k acc loads; cbn [takeR]; try discriminate.
  - destruct (k <=? 0); cbn [sbytes sclean]; auto.
  - destruct (k <=? 0); [cbn [sbytes sclean] in *; auto|].
    cbn [sclean] in Hc.
    destruct (bget r x) as [[[|n] e]|] eqn:Eg; try (apply IH; exact Hc).
    cbn [sbytes sclean]. split; [reflexivity|]. split; [exact Hc|].
    split; [apply (bdec_total r x n e Eg)|apply (bget_pos_total r x n e Eg)].
  - destruct (k <=? 0); [cbn [sbytes sclean] in *; auto|].
    cbn [sclean] in Hc. destruct (Z.leb_spec (zlen x) k) as [Hle|Hgt].
    + specialize (IH Hc (k - zlen x) (acc ++ x) loads).
      destruct (takeR r s' (k - zlen x) (acc ++ x) loads) as [[[[bs l] st] s''] r'].
      destruct IH as (H1 & H2 & H3). cbn [sbytes]. rewrite app_assoc. auto.
    + cbn [sbytes sclean]. split; [|auto].
      rewrite <- (firstz_skipz k x) at 1. rewrite <- !app_assoc. reflexivity.
Qed.

(* C12 / C01 under storage that recovers: over any clean stream, for any budget of failing requests and any buffer
   sizes, the bytes the Reads deliver, in order, followed by what the stream still holds, are the stream's bytes; the
   number of Reads that end in an error is at most the budget *)
Theorem readsR_spec ks : forall r s, sclean s = true ->
  let '(out, s', r') := readsR r s ks in
  concat (map fst out) ++ sbytes s' = sbytes s
  /\ sclean s' = true
  /\ (length (filter (fun o => match snd o with StErr _ => true | _ => false end) out) + btotal r' = btotal r)%nat.
Proof.
  induction ks as [|k t IH]; intros r s Hc; cbn [readsR]; [cbn; auto|].
  pose proof (takeR_spec r s Hc k [] []) as Ht.
  destruct (takeR r s k [] []) as [[[[bs l] st] s1] r1]. destruct Ht as (H1 & H2 & H3). cbn [app] in H1.
  specialize (IH r1 s1 H2). destruct (readsR r1 s1 t) as [[out s2] r2]. destruct IH as (I1 & I2 & I3).
  cbn [map fst concat filter snd]. split; [rewrite <- app_assoc, I1, <- H1; reflexivity|]. split; [exact I2|].
  destruct st as [| |e]; cbn [length].
  - subst r1. exact I3.
  - destruct H3 as [-> _]. exact I3.
  - destruct H3 as [H3 H4]. lia.
Qed.

(* once the budget is spent every further Read is the fault-free one *)
Lemma takeR_no_budget r s k acc loads : btotal r = O -> sclean s = true ->
  let '(bs, l, st, s', r') := takeR r s k acc loads in (bs, l, st, s') = take s k acc loads /\ r' = r.
Proof.
  intros Hr. revert k acc loads. induction s as [|x s' IH|x s' IH|x e|e]; intros k acc loads Hc; cbn [takeR take]; try discriminate.
  - destruct (k <=? 0); auto.
  - destruct (k <=? 0); [auto|]. cbn [sclean] in Hc.
    destruct (bget r x) as [[[|n] e]|] eqn:Eg; try (apply IH; exact Hc).
    pose proof (bget_pos_total r x n e Eg). lia.
  - destruct (k <=? 0); [auto|]. cbn [sclean] in Hc. destruct (zlen x <=? k); [apply IH; exact Hc|auto].
Qed.

(* ---- on files ---- *)
From UV Require Import File.ReaderProofs3.

(* the reader of a DAG with true sizes, positioned at off, read with any buffer sizes while storage fails any budget of
   requests: the delivered bytes, in order, are the content from off on - exactly up to where the stream stands - and at
   most `btotal r` Reads report an error *)
Theorem transient_reads root off ks r : well_sized root = true -> 0 <= off ->
  let '(out, s', r') := readsR r (stream nofault root off) ks in
  concat (map fst out) ++ sbytes s' = skipz off (content root)
  /\ (length (filter (fun o => match snd o with StErr _ => true | _ => false end) out) <= btotal r)%nat.
Proof.
  intros Hw Hoff. destruct (stream_content root Hw off Hoff) as [Hb Hc].
  pose proof (readsR_spec ks r (stream nofault root off) Hc) as H.
  destruct (readsR r (stream nofault root off) ks) as [[out s'] r']. destruct H as (H1 & _ & H3).
  rewrite Hb in H1. split; [exact H1|lia].
Qed.

(* ... and a Read that reports end-of-file has delivered everything *)
Lemma takeR_eof r s k : sclean s = true ->
  let '(bs, _, st, s', _) := takeR r s k [] [] in st = StEOF -> bs = sbytes s.
Proof.
  intros Hc. pose proof (takeR_spec r s Hc k [] []) as H.
  destruct (takeR r s k [] []) as [[[[bs l] st] s'] r']. destruct H as (H1 & _ & H3).
  intros ->. destruct H3 as [_ H3]. cbn [app] in H1. rewrite H3, app_nil_r in H1. symmetry. exact H1.
Qed.
