(* The extended reader on ANY DAG (hostile Data, sizes, links): measuring and seeking give a value or an error. *)
From UV Require Import Codec.Decode Codec.NoPanic File.Spec File.Unsized File.UnsizedProofs.
Local Open Scope Z_scope.

Lemma wrapped_bytes_no_panic d : wrapped_bytes d <> Panic.
Proof.
  unfold wrapped_bytes. destruct d as [db|]; [|discriminate].
  pose proof (decode_data_no_panic db). destruct (decode_data db); congruence.
Qed.

Section Safe.
  Variable fault : blk -> option err.

  Lemma ulink_sizes_no_panic md ls :
    Forall (fun l => usize fault (l_target l) <> Panic) ls ->
    forall i, ulink_sizes fault (usize fault) md i ls <> Panic.
  Proof.
    induction 1 as [|[n ts t] r Ht _ IH]; intros i; [discriminate|].
    cbn [ulink_sizes l_target] in *.
    assert (Hl : ulink_size fault (usize fault) md i (PLink n ts t) <> Panic).
    { cbn [ulink_size]. destruct t as [c|d' ls'|x y]; [destruct ts; discriminate| |discriminate].
      destruct (match md with Some m => nth_error (d_blocksizes m) i | None => None end); [discriminate|].
      destruct (fault (Pb d' ls')); [discriminate|].
      destruct (usize fault (Pb d' ls')) as [z|e|]; cbn [bind]; [destruct (z <? 0); discriminate|discriminate|congruence]. }
    destruct (ulink_size fault (usize fault) md i (PLink n ts t)) as [z|e|]; cbn [bind]; [|discriminate|congruence].
    specialize (IH (S i)). destruct (ulink_sizes fault (usize fault) md (S i) r); cbn [bind]; [discriminate|discriminate|congruence].
  Qed.

  Theorem usize_no_panic b : usize fault b <> Panic.
  Proof.
    induction b as [c|i n|d ls IH] using blk_ind'; [discriminate|discriminate|].
    destruct ls as [|l ls].
    - cbn [usize]. pose proof (wrapped_bytes_no_panic d). destruct (wrapped_bytes d); cbn [bind]; [discriminate|discriminate|congruence].
    - rewrite usize_pb. cbv zeta.
      pose proof (ulink_sizes_no_panic (node_meta d) (l :: ls) IH 0%nat) as Hs.
      assert (Hfl : (sizes <- ulink_sizes fault (usize fault) (node_meta d) 0 (l :: ls) ;; Ok (sumz sizes)) <> Panic).
      { destruct (ulink_sizes fault (usize fault) (node_meta d) 0 (l :: ls)); cbn [bind]; [discriminate|discriminate|congruence]. }
      destruct (node_meta d) as [m|]; [destruct (d_filesize m); [discriminate|exact Hfl]|exact Hfl].
  Qed.

  Theorem useek_no_panic root st off whence :
    snd (ureader_step fault root st (OpSeek off whence)) <> OSeek Panic.
  Proof.
    cbn [ureader_step]. pose proof (usize_no_panic root) as Hl.
    destruct (whence =? 0)%N; [|destruct (whence =? 1)%N; [|destruct (whence =? 2)%N]];
      cbn [bind]; try (destruct (usize fault root); cbn [bind]; try congruence);
      repeat match goal with |- context [if ?c then _ else _] => destruct c end; cbn; discriminate.
  Qed.

  (* a rejected Seek leaves the reader exactly where it was *)
  Lemma useek_error_keeps_state root st off whence o st' :
    ureader_step fault root st (OpSeek off whence) = (st', OSeek (Err o)) -> st' = st.
  Proof.
    cbn [ureader_step].
    destruct (if (whence =? 0)%N then _ else _) as [next| |]; [destruct (next <? 0)|..]; intros [= <- ?]; reflexivity.
  Qed.
End Safe.
