(* file/file.go, file/shard.go, file/deferred.go, file/wrapped.go: the file reader as a stream of
   effects (block loads and bytes) consumed lazily by Read, rebuilt from the offset after a Seek. *)
From UV Require Export Blocks.Blk Codec.Decode.
Local Open Scope Z_scope.

Definition zlen {A} (l : list A) : Z := Z.of_nat (length l).

(* bytes from position `off` on (off >= 0); never builds a large nat *)
Definition skipz {A} (off : Z) (l : list A) : list A :=
  if off <=? 0 then l else if zlen l <=? off then [] else skipn (Z.to_nat off) l.
Definition firstz {A} (k : Z) (l : list A) : list A :=
  if k <=? 0 then [] else if zlen l <=? k then l else firstn (Z.to_nat k) l.

(* int64 view of a stored uint64 bit pattern *)
Definition i64 (n : N) : Z :=
  if (n <? 9223372036854775808)%N then Z.of_N n else Z.of_N n - 18446744073709551616.

(* shardNodeFile.unpack(): the UnixFS Data of the node, if it has one that decodes *)
Definition node_meta (d : option bytes) : option udata :=
  match d with
  | Some b => match decode_data b with Ok m => Some m | _ => None end
  | None => None
  end.

(* linkSize without opening the child: Tsize for raw-codec links, BlockSizes[i] for dag-pb links.
   The fallback that opens the child (no usable BlockSizes entry) is outside the model. *)
Definition link_size (md : option udata) (i : nat) (l : plink) : res Z :=
  match l with
  | PLink _ ts (Raw _) => match ts with Some z => Ok z | None => Err EOther end
  | PLink _ _ (Pb _ _) =>
    match md with
    | Some m => match nth_error (d_blocksizes m) i with
                | Some n => Ok (i64 n)
                | None => Err EUnmodelled
                end
    | None => Err EUnmodelled
    end
  | PLink _ _ (Ext _ _) => Err EUnmodelled
  end.

Fixpoint link_sizes (md : option udata) (i : nat) (ls : list plink) : res (list Z) :=
  match ls with
  | [] => Ok []
  | l :: r => sz <- link_size md i l ;; rest <- link_sizes md (S i) r ;; Ok (sz :: rest)
  end.

(* the bytes of a single-block file node wrapped in dag-pb (newWrappedNode) *)
Definition wrapped_bytes (d : option bytes) : res bytes :=
  match d with
  | None => Err EOther
  | Some db => match decode_data db with
               | Ok m => Ok (match d_data m with Some x => x | None => [] end)
               | Err e => Err e
               | Panic => Panic
               end
  end.

(* effect streams *)
Inductive strm :=
| SNil                                   (* end of file *)
| SLoad (b : blk) (k : strm)             (* the block is requested from storage (and arrives) *)
| SBytes (bs : bytes) (k : strm)         (* bytes of one block *)
| SFail (b : blk) (e : err)              (* the request for b fails with e; retried by every later Read *)
| SErr (e : err).                        (* any other error; persistent *)

Fixpoint sapp (a b : strm) : strm :=
  match a with
  | SNil => b
  | SLoad x k => SLoad x (sapp k b)
  | SBytes x k => SBytes x (sapp k b)
  | SFail x e => SFail x e
  | SErr e => SErr e
  end.

Section Stream.
  Variable fault : blk -> option err.      (* which blocks cannot be loaded *)

  (* what reading node b from offset off (>= 0) does, b already loaded *)
  Fixpoint stream (b : blk) (off : Z) : strm :=
    match b with
    | Raw c => SBytes (skipz off c) SNil
    | Ext _ _ => SErr EUnmodelled
    | Pb d ls =>
      match ls with
      | [] => match wrapped_bytes d with
              | Ok x => SBytes (skipz off x) SNil
              | Err e => SErr e
              | Panic => SErr EOther
              end
      | _ =>
        match link_sizes (node_meta d) 0 ls with
        | Err e => SErr e
        | Panic => SErr EOther
        | Ok sizes =>
          (fix go (ls : list plink) (sizes : list Z) (at_ : Z) : strm :=
             match ls, sizes with
             | PLink _ _ t :: r, sz :: sr =>
               if at_ + sz <=? off then go r sr (at_ + sz)          (* skipped by declared size, never opened *)
               else match fault t with
                    | Some e => SFail t e
                    | None => SLoad t (sapp (stream t (Z.max 0 (off - at_))) (go r sr (at_ + sz)))
                    end
             | _, _ => SNil
             end) ls sizes 0
        end
      end
    end.
End Stream.

(* the length a node reports (Seek relative to the end) *)
Definition node_length (b : blk) : res Z :=
  match b with
  | Raw c => Ok (zlen c)
  | Ext _ _ => Err EUnmodelled
  | Pb d [] => x <- wrapped_bytes d ;; Ok (zlen x)
  | Pb d ls =>
    let from_links := match link_sizes (node_meta d) 0 ls with
                      | Ok sizes => Ok (fold_right Z.add 0 sizes)
                      | Err e => Err e          (* lengthFromLinks reports what linkSize reports *)
                      | Panic => Err EOther
                      end in
    match node_meta d with
    | Some m => match d_filesize m with Some fs => Ok (i64 fs) | None => from_links end
    | None => from_links
    end
  end.

(* ---- io.ReadSeeker state machine ---- *)
Record rstate := mk_rs { r_off : Z; r_rdr : option strm }.
Definition rs0 := mk_rs 0 None.

Inductive status := StOk | StEOF | StErr (e : err).

(* ReadFull-style consumption of at most k bytes; returns bytes, blocks requested, status, rest *)
Fixpoint take (s : strm) (k : Z) (acc : bytes) (loads : list blk) : bytes * list blk * status * strm :=
  if k <=? 0 then (acc, loads, StOk, s) else
  match s with
  | SNil => (acc, loads, StEOF, SNil)
  | SLoad b s' => take s' k acc (loads ++ [b])
  | SBytes bs s' =>
    if zlen bs <=? k then take s' (k - zlen bs) (acc ++ bs) loads
    else (acc ++ firstz k bs, loads, StOk, SBytes (skipz k bs) s')
  | SFail b e => (acc, loads ++ [b], StErr e, s)
  | SErr e => (acc, loads, StErr e, s)
  end.

Inductive rop := OpSeek (off : Z) (whence : N) | OpRead (k : Z).
Inductive rout :=
| OSeek (r : res Z)
| ORead (bs : bytes) (st : status) (loads : list blk).

Definition reader_step (fault : blk -> option err) (root : blk) (st : rstate) (op : rop) : rstate * rout :=
  match op with
  | OpSeek off whence =>
    let target :=
        if (whence =? 0)%N then Ok off
        else if (whence =? 1)%N then Ok (r_off st + off)
        else if (whence =? 2)%N then (len <- node_length root ;; Ok (len + off))
        else Ok (r_off st) in
    match target with
    | Ok next => if next <? 0 then (st, OSeek (Err ESeek))
                 else (mk_rs next None, OSeek (Ok next))
    | Err e => (st, OSeek (Err e))
    | Panic => (st, OSeek Panic)
    end
  | OpRead k =>
    let s := match r_rdr st with Some s => s | None => stream fault root (r_off st) end in
    let '(bs, loads, stt, s') := take s k [] [] in
    (mk_rs (r_off st + zlen bs) (Some s'), ORead bs stt loads)
  end.

Fixpoint reader_run (fault : blk -> option err) (root : blk) (st : rstate) (ops : list rop) : list rout :=
  match ops with
  | [] => []
  | op :: r => let '(st', o) := reader_step fault root st op in o :: reader_run fault root st' r
  end.

(* AsBytes = io.ReadAll over a fresh reader *)
Fixpoint drain_all (s : strm) (acc : bytes) (loads : list blk) : bytes * list blk * status :=
  match s with
  | SNil => (acc, loads, StEOF)
  | SLoad b s' => drain_all s' acc (loads ++ [b])
  | SBytes bs s' => drain_all s' (acc ++ bs) loads
  | SFail b e => (acc, loads ++ [b], StErr e)
  | SErr e => (acc, loads, StErr e)
  end.
