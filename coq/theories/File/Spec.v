(* What a file DAG denotes, and when its declared sizes are the true ones. *)
From UV Require Export File.Reader Blocks.PbLen.
Local Open Scope Z_scope.

(* the bytes a file DAG denotes *)
Fixpoint content (b : blk) : bytes :=
  match b with
  | Raw c => c
  | Ext _ _ => []
  | Pb d ls =>
    match ls with
    | [] => match wrapped_bytes d with Ok x => x | _ => [] end
    | _ => flat_map (fun l => content (l_target l)) ls
    end
  end.

Definition child_lens (ls : list plink) : list Z := map (fun l => zlen (content (l_target l))) ls.

(* declared sizes are the true ones, everywhere in the DAG: the per-link sizes the reader uses
   (Tsize of raw leaves, BlockSizes of dag-pb children) equal the content lengths, the reported
   length is the content length, every block is of a kind the reader opens *)
Fixpoint well_sized (b : blk) : bool :=
  match b with
  | Raw _ => true
  | Ext _ _ => false
  | Pb d ls =>
    match ls with
    | [] => match wrapped_bytes d with Ok _ => true | _ => false end
    | _ =>
      match link_sizes (node_meta d) 0 ls with
      | Ok sizes => list_eqb Z.eqb sizes (child_lens ls)
      | _ => false
      end
      && match node_length b with Ok n => Z.eqb n (zlen (flat_map (fun l => content (l_target l)) ls)) | _ => false end
      && forallb (fun l => well_sized (l_target l)) ls
    end
  end.

(* cumulative stored size of the tree under a block (sum over the unfolded tree, not the de-duplicated store) *)
Fixpoint cum_size (b : blk) : N :=
  (enc_len b + match b with
               | Pb _ ls => fold_right (fun l acc => cum_size (l_target l) + acc) 0 ls
               | _ => 0
               end)%N.

(* every link carries the cumulative size of its target *)
Fixpoint tsizes_ok (b : blk) : bool :=
  match b with
  | Pb _ ls => forallb (fun l => match l_tsize l with
                                 | Some z => Z.eqb z (Z.of_N (cum_size (l_target l)))
                                 | None => false
                                 end && tsizes_ok (l_target l)) ls
  | _ => true
  end.

(* number of blocks in the unfolded tree *)
Fixpoint bsize (b : blk) : nat :=
  S match b with
    | Pb _ ls => fold_right (fun l acc => (bsize (l_target l) + acc)%nat) O ls
    | _ => O
    end.

(* bytes / loads of a stream *)
Fixpoint sbytes (s : strm) : bytes :=
  match s with
  | SNil | SFail _ _ | SErr _ => []
  | SLoad _ k => sbytes k
  | SBytes b k => b ++ sbytes k
  end.
Fixpoint sloads (s : strm) : list blk :=
  match s with
  | SNil | SErr _ => []
  | SFail b _ => [b]
  | SLoad b k => b :: sloads k
  | SBytes _ k => sloads k
  end.
(* a stream that ends normally *)
Fixpoint sclean (s : strm) : bool :=
  match s with
  | SNil => true
  | SFail _ _ | SErr _ => false
  | SLoad _ k | SBytes _ k => sclean k
  end.

Definition nofault : blk -> option err := fun _ => None.

(* ---- abstract io.ReadSeeker over a byte string (the specification the readers must refine) ---- *)
Inductive aout := ASeek (r : res Z) | ARead (bs : bytes) (st : status).

Definition abs_step (c : bytes) (pos : Z) (op : rop) : Z * aout :=
  match op with
  | OpSeek off whence =>
    let target := if (whence =? 0)%N then off
                  else if (whence =? 1)%N then pos + off
                  else if (whence =? 2)%N then zlen c + off
                  else pos in
    if target <? 0 then (pos, ASeek (Err ESeek)) else (target, ASeek (Ok target))
  | OpRead k =>
    if k <=? 0 then (pos, ARead [] StOk) else
    let avail := skipz pos c in
    if k <=? zlen avail then (pos + k, ARead (firstz k avail) StOk)
    else (pos + zlen avail, ARead avail StEOF)
  end.

Fixpoint abs_run (c : bytes) (pos : Z) (ops : list rop) : list aout :=
  match ops with
  | [] => []
  | op :: r => let '(pos', o) := abs_step c pos op in o :: abs_run c pos' r
  end.

Definition forget_loads (o : rout) : aout :=
  match o with OSeek r => ASeek r | ORead bs st _ => ARead bs st end.

(* what a stream will deliver: the bytes before it stops, and how it stops *)
Fixpoint sview (s : strm) : bytes * status :=
  match s with
  | SNil => ([], StEOF)
  | SLoad _ k => sview k
  | SBytes b k => let '(bs, st) := sview k in (b ++ bs, st)
  | SFail _ e => ([], StErr e)
  | SErr e => ([], StErr e)
  end.

(* unavailable blocks: the fault-free stream cut at the first request that fails *)
Fixpoint cutf (fault : blk -> option err) (s : strm) : strm :=
  match s with
  | SLoad b k => match fault b with Some e => SFail b e | None => SLoad b (cutf fault k) end
  | SBytes b k => SBytes b (cutf fault k)
  | other => other
  end.

(* unfolded preorder (depth-first, link order) *)
Fixpoint preorder (b : blk) : list blk :=
  b :: match b with
       | Pb _ ls => flat_map (fun l => preorder (l_target l)) ls
       | _ => []
       end.

(* every link leads to a non-empty piece of content (chunkers never emit empty chunks) *)
Fixpoint pos_sized (b : blk) : bool :=
  match b with
  | Pb _ ls => forallb (fun l => (0 <? zlen (content (l_target l))) && pos_sized (l_target l)) ls
  | _ => true
  end.
