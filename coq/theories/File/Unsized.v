(* file/shard.go, linkSize's last resort: a dag-pb child for which the parent's Data carries no BlockSizes entry is
   measured by opening it — load the child, ask its reader for Seek(0, SeekEnd), rewind — and every link of the
   node is measured like that before the first byte is delivered.  File/Reader.v stops at such nodes
   (EUnmodelled); this file is the reader extended to them, at the level of bytes and statuses: the requests the
   measuring itself makes are not part of the events (the measured child is not requested again, nested unsized
   nodes are measured again by every reader built over them), so nothing is claimed about the loads of these
   streams. *)
From UV Require Export File.Spec.
Local Open Scope Z_scope.

(* the size linkSize finds for link number i of a node whose (decodable) UnixFS Data is md; `opened t` is what
   opening the child and seeking to its end reports *)
Definition ulink_size (fault : blk -> option err) (opened : blk -> res Z) (md : option udata) (i : nat) (l : plink) : res Z :=
  match l with
  | PLink _ ts t =>
    match t with
    | Raw _ => match ts with Some z => Ok z | None => Err EOther end
    | Ext _ _ => Err EUnmodelled
    | Pb _ _ =>
      match (match md with Some m => nth_error (d_blocksizes m) i | None => None end) with
      | Some n => Ok (i64 n)
      | None =>
        match fault t with
        | Some e => Err e                                         (* the child cannot be loaded *)
        | None => z <- opened t ;; if z <? 0 then Err ESeek else Ok z   (* Seek(0, SeekEnd) of the child *)
        end
      end
    end
  end.

Definition ulink_sizes (fault : blk -> option err) (opened : blk -> res Z) (md : option udata) :=
  fix go (i : nat) (ls : list plink) : res (list Z) :=
    match ls with
    | [] => Ok []
    | l :: r => sz <- ulink_size fault opened md i l ;; rest <- go (S i) r ;; Ok (sz :: rest)
    end.

Definition sumz (l : list Z) : Z := fold_right Z.add 0 l.

(* the sizes found before the first link whose size cannot be determined *)
Definition usizes_prefix (fault : blk -> option err) (opened : blk -> res Z) (md : option udata) :=
  fix go (i : nat) (ls : list plink) : list Z :=
    match ls with
    | [] => []
    | l :: r => match ulink_size fault opened md i l with Ok sz => sz :: go (S i) r | _ => [] end
    end.

(* a child that was opened to be measured (dag-pb, no BlockSizes entry) *)
Definition measured (md : option udata) (i : nat) (t : blk) : bool :=
  match t with
  | Pb _ _ => match (match md with Some m => nth_error (d_blocksizes m) i | None => None end) with Some _ => false | None => true end
  | _ => false
  end.

(* makeReader handles the links one after the other: size, then - for the first child that is not skipped, when the offset
   falls strictly inside it and it was not opened for measuring - Seek on its reader, which loads it on the spot.  The
   error of that load, if the child is unavailable: it comes before any failure to measure a LATER link *)
Definition seek_fault (fault : blk -> option err) (md : option udata) (off : Z) :=
  fix go (i : nat) (ls : list plink) (sizes : list Z) (at_ : Z) : option err :=
    match ls, sizes with
    | PLink _ _ t :: r, sz :: sr =>
      if at_ + sz <=? off then go (S i) r sr (at_ + sz)
      else if (at_ <? off) && negb (measured md i t) then fault t else None
    | _, _ => None
    end.

Section Unsized.
  Variable fault : blk -> option err.

  (* the length an opened (already loaded) node reports: shardNodeFile.length / singleNodeReader's len(buf) *)
  Fixpoint usize (b : blk) : res Z :=
    match b with
    | Raw c => Ok (zlen c)
    | Ext _ _ => Err EUnmodelled
    | Pb d ls =>
      match ls with
      | [] => x <- wrapped_bytes d ;; Ok (zlen x)
      | _ =>
        let from_links :=
            sizes <- (fix go (i : nat) (ls : list plink) : res (list Z) :=
                        match ls with
                        | [] => Ok []
                        | l :: r =>
                          sz <- match l with
                                | PLink _ ts t =>
                                  match t with
                                  | Raw _ => match ts with Some z => Ok z | None => Err EOther end
                                  | Ext _ _ => Err EUnmodelled
                                  | Pb _ _ =>
                                    match (match node_meta d with Some m => nth_error (d_blocksizes m) i | None => None end) with
                                    | Some n => Ok (i64 n)
                                    | None =>
                                      match fault t with
                                      | Some e => Err e
                                      | None => z <- usize t ;; if z <? 0 then Err ESeek else Ok z
                                      end
                                    end
                                  end
                                end ;;
                          rest <- go (S i) r ;; Ok (sz :: rest)
                        end) 0%nat ls ;;
            Ok (sumz sizes) in
        match node_meta d with
        | Some m => match d_filesize m with Some fs => Ok (i64 fs) | None => from_links end
        | None => from_links
        end
      end
    end.

  Lemma usize_pb d l ls :
    usize (Pb d (l :: ls)) =
    let from_links := sizes <- ulink_sizes fault usize (node_meta d) 0 (l :: ls) ;; Ok (sumz sizes) in
    match node_meta d with
    | Some m => match d_filesize m with Some fs => Ok (i64 fs) | None => from_links end
    | None => from_links
    end.
  Proof. reflexivity. Qed.

  (* what reading node b from offset off (>= 0) does, b already loaded *)
  Fixpoint ustream (b : blk) (off : Z) : strm :=
    match b with
    | Raw c => SBytes (skipz off c) SNil
    | Ext _ _ => SErr EUnmodelled
    | Pb d ls =>
      match ls with
      | [] => match wrapped_bytes d with
              | Ok x => SBytes (skipz off x) SNil
              | Err e => SErr e
              | Panic => SErr EOther
              end
      | _ =>
        match ulink_sizes fault usize (node_meta d) 0 ls with
        | Err e =>                             (* makeReader fails before anything is delivered *)
          SErr (match seek_fault fault (node_meta d) off 0 ls (usizes_prefix fault usize (node_meta d) 0 ls) 0 with
                | Some e' => e'
                | None => e
                end)
        | Panic => SErr EOther
        | Ok sizes =>
          (fix go (ls : list plink) (sizes : list Z) (at_ : Z) : strm :=
             match ls, sizes with
             | PLink _ _ t :: r, sz :: sr =>
               if at_ + sz <=? off then go r sr (at_ + sz)
               else match fault t with
                    | Some e => SFail t e
                    | None => SLoad t (sapp (ustream t (Z.max 0 (off - at_))) (go r sr (at_ + sz)))
                    end
             | _, _ => SNil
             end) ls sizes 0
        end
      end
    end.
End Unsized.

(* ---- the io.ReadSeeker state machine over it (Reader.v's, with the extended stream and length) ---- *)
Definition ureader_step (fault : blk -> option err) (root : blk) (st : rstate) (op : rop) : rstate * rout :=
  match op with
  | OpSeek off whence =>
    let target :=
        if (whence =? 0)%N then Ok off
        else if (whence =? 1)%N then Ok (r_off st + off)
        else if (whence =? 2)%N then (len <- usize fault root ;; Ok (len + off))
        else Ok (r_off st) in
    match target with
    | Ok next => if next <? 0 then (st, OSeek (Err ESeek))
                 else (mk_rs next None, OSeek (Ok next))
    | Err e => (st, OSeek (Err e))
    | Panic => (st, OSeek Panic)
    end
  | OpRead k =>
    let s := match r_rdr st with Some s => s | None => ustream fault root (r_off st) end in
    let '(bs, loads, stt, s') := take s k [] [] in
    (mk_rs (r_off st + zlen bs) (Some s'), ORead bs stt loads)
  end.

Fixpoint ureader_run (fault : blk -> option err) (root : blk) (st : rstate) (ops : list rop) : list rout :=
  match ops with
  | [] => []
  | op :: r => let '(st', o) := ureader_step fault root st op in o :: ureader_run fault root st' r
  end.

(* declared or measured, the sizes are the true ones everywhere: the fault-free measuring succeeds with the
   content lengths, a FileSize that is present is the content length *)
Fixpoint uwell (b : blk) : bool :=
  match b with
  | Raw _ => true
  | Ext _ _ => false
  | Pb d ls =>
    match ls with
    | [] => match wrapped_bytes d with Ok _ => true | _ => false end
    | _ =>
      match ulink_sizes nofault (usize nofault) (node_meta d) 0 ls with
      | Ok sizes => list_eqb Z.eqb sizes (child_lens ls)
      | _ => false
      end
      && match usize nofault b with Ok n => Z.eqb n (zlen (flat_map (fun l => content (l_target l)) ls)) | _ => false end
      && forallb (fun l => uwell (l_target l)) ls
    end
  end.
