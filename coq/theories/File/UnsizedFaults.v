(* Unavailable blocks under the extended reader (children without declared sizes are measured by opening them).
   What holds for every DAG with true sizes and every set of unavailable blocks: a sequential read delivers a
   front of the content and stops either at the end of the whole content or with the load error of a block of the
   DAG — never end-of-file before the end, never a value in place of the error.
   What does not hold: that the front is everything preceding the unavailable block (refuted below). *)
From UV Require Import File.Spec File.ReaderProofs File.ReaderProofs2 File.ReaderProofs4 File.Unsized File.UnsizedProofs.
From Coq Require Import ZifyBool ZifyNat.
Local Open Scope Z_scope.

Lemma sview_sapp a b :
  sview (sapp a b) =
  match snd (sview a) with
  | StEOF => (fst (sview a) ++ fst (sview b), snd (sview b))
  | _ => sview a
  end.
Proof.
  induction a as [|x k IH|x k IH|x e|e]; cbn [sapp sview]; try reflexivity.
  - destruct (sview b); reflexivity.
  - exact IH.
  - rewrite IH. destruct (sview k) as [pk sk]. cbn [fst snd]. destruct sk; [reflexivity| |reflexivity].
    destruct (sview b) as [pb sb]. cbn [fst snd]. rewrite app_assoc. reflexivity.
Qed.

Lemma skipz_nil {A} off : skipz off (@nil A) = [].
Proof. unfold skipz. destruct (off <=? 0); [reflexivity|]. destruct (zlen (@nil A) <=? off); [reflexivity|]. apply skipn_nil. Qed.

Section Faults.
  Variable fault : blk -> option err.

  (* measuring under unavailable blocks: the fault-free result, or the load error of a block below *)
  Definition msr_ok {A} (cand : list blk) (faulty clean : res A) : Prop :=
    match faulty with
    | Ok z => clean = Ok z
    | Err e => clean = Err e \/ exists x, In x cand /\ fault x = Some e
    | Panic => clean = Panic
    end.

  Lemma ulink_sizes_fault md ls :
    Forall (fun l => msr_ok (preorder (l_target l)) (usize fault (l_target l)) (usize nofault (l_target l))) ls ->
    forall i, msr_ok (flat_map (fun l => preorder (l_target l)) ls)
                     (ulink_sizes fault (usize fault) md i ls) (ulink_sizes nofault (usize nofault) md i ls).
  Proof.
    induction 1 as [|[n ts t] r Ht _ IH]; intros i; [reflexivity|].
    cbn [ulink_sizes flat_map l_target] in *.
    assert (Hl : msr_ok (preorder t) (ulink_size fault (usize fault) md i (PLink n ts t)) (ulink_size nofault (usize nofault) md i (PLink n ts t))).
    { cbn [ulink_size]. destruct t as [c|d' ls'|x y]; [destruct ts; cbn; auto| |cbn; auto].
      destruct (match md with Some m => nth_error (d_blocksizes m) i | None => None end); [reflexivity|].
      change (nofault (Pb d' ls')) with (@None err). cbv iota.
      destruct (fault (Pb d' ls')) as [e|] eqn:Ef.
      - right. exists (Pb d' ls'). split; [rewrite preorder_cons; left; reflexivity|exact Ef].
      - unfold msr_ok in Ht. destruct (usize fault (Pb d' ls')) as [z|e|]; cbn [bind].
        + rewrite Ht. cbn [bind]. destruct (z <? 0); cbn; auto.
        + destruct Ht as [Ht|Ht]; [rewrite Ht; left; reflexivity|right; exact Ht].
        + rewrite Ht. reflexivity. }
    specialize (IH (S i)). unfold msr_ok in Hl, IH |- *.
    destruct (ulink_size fault (usize fault) md i (PLink n ts t)) as [z|e|]; cbn [bind].
    - rewrite Hl. cbn [bind].
      destruct (ulink_sizes fault (usize fault) md (S i) r) as [rest|e|]; cbn [bind].
      + rewrite IH. reflexivity.
      + destruct IH as [IH|(x & Hx & Hf)]; [rewrite IH; left; reflexivity|].
        right. exists x. split; [apply in_or_app; right; exact Hx|exact Hf].
      + rewrite IH. reflexivity.
    - destruct Hl as [Hl|(x & Hx & Hf)]; [rewrite Hl; left; reflexivity|].
      right. exists x. split; [apply in_or_app; left; exact Hx|exact Hf].
    - rewrite Hl. reflexivity.
  Qed.

  Lemma usize_fault b : msr_ok (preorder b) (usize fault b) (usize nofault b).
  Proof.
    induction b as [c|i n|d ls IH] using blk_ind'; [reflexivity|left; reflexivity|].
    destruct ls as [|l ls]; [cbn; destruct (wrapped_bytes d); cbn; auto|].
    rewrite !usize_pb. cbv zeta.
    pose proof (ulink_sizes_fault (node_meta d) (l :: ls) IH 0%nat) as Hs.
    assert (Hfl : msr_ok (preorder (Pb d (l :: ls)))
                         (sizes <- ulink_sizes fault (usize fault) (node_meta d) 0 (l :: ls) ;; Ok (sumz sizes))
                         (sizes <- ulink_sizes nofault (usize nofault) (node_meta d) 0 (l :: ls) ;; Ok (sumz sizes))).
    { unfold msr_ok in Hs |- *.
      destruct (ulink_sizes fault (usize fault) (node_meta d) 0 (l :: ls)) as [s|e|]; cbn [bind].
      - rewrite Hs. reflexivity.
      - destruct Hs as [Hs|(x & Hx & Hf)]; [rewrite Hs; left; reflexivity|].
        right. exists x. split; [|exact Hf]. rewrite preorder_cons. right. exact Hx.
      - rewrite Hs. reflexivity. }
    destruct (node_meta d) as [m|]; [|exact Hfl]. destruct (d_filesize m); [reflexivity|exact Hfl].
  Qed.

  (* what a stream may deliver of c: a front of it, stopping at its end or with the load error of a candidate block *)
  Definition vok (cand : list blk) (c : bytes) (v : bytes * status) : Prop :=
    (exists rest, c = fst v ++ rest /\ (snd v = StEOF -> rest = []))
    /\ snd v <> StOk
    /\ (forall e, snd v = StErr e -> exists x, In x cand /\ fault x = Some e).

  Lemma vok_incl cand cand' c v : incl cand cand' -> vok cand c v -> vok cand' c v.
  Proof.
    intros Hi (H1 & H2 & H3). split; [exact H1|]. split; [exact H2|].
    intros e He. destruct (H3 e He) as (x & Hx & Hf). exists x. split; [apply Hi; exact Hx|exact Hf].
  Qed.

  Lemma go_links_fault_view off ls : forall at_,
    Forall (fun l => uwell (l_target l) = true ->
                     forall o, 0 <= o -> vok (preorder (l_target l)) (skipz o (content (l_target l))) (sview (ustream fault (l_target l) o))) ls ->
    forallb (fun l => uwell (l_target l)) ls = true ->
    vok (flat_map (fun l => preorder (l_target l)) ls) (skipz (off - at_) (children_content ls))
        (sview (go_links fault (ustream fault) off ls (child_lens ls) at_)).
  Proof.
    induction ls as [|[n ts t] r IH]; intros at_ HF Hws.
    - cbn [go_links sview children_content flat_map]. rewrite skipz_nil.
      split; [exists []; split; [reflexivity|reflexivity]|]. split; [discriminate|]. intros e He. discriminate.
    - inversion HF as [|? ? Ht Hr]; subst. cbn [forallb l_target] in Hws. apply andb_prop in Hws. destruct Hws as [Hwt Hwr].
      cbn [l_target] in Ht. specialize (Ht Hwt).
      cbn [child_lens map l_target go_links flat_map]. fold (child_lens r).
      change (children_content (PLink n ts t :: r)) with (content t ++ children_content r).
      destruct (Z.leb_spec (at_ + zlen (content t)) off) as [Hskip|Hin].
      + rewrite skipz_app_ge by lia. replace (off - at_ - zlen (content t)) with (off - (at_ + zlen (content t))) by lia.
        eapply vok_incl; [|apply (IH (at_ + zlen (content t)) Hr Hwr)]. intros x Hx. apply in_or_app. right. exact Hx.
      + destruct (fault t) as [e|] eqn:Ef.
        * cbn [sview]. split; [eexists; split; [reflexivity|discriminate]|]. split; [discriminate|].
          intros e' [= <-]. exists t. split; [apply in_or_app; left; rewrite preorder_cons; left; reflexivity|exact Ef].
        * cbn [sview]. rewrite sview_sapp.
          specialize (Ht (Z.max 0 (off - at_)) ltac:(lia)). rewrite skipz_max in Ht.
          specialize (IH (at_ + zlen (content t)) Hr Hwr).
          rewrite (skipz_nonpos (off - (at_ + zlen (content t)))) in IH by lia.
          rewrite skipz_app_lt by lia.
          destruct (sview (ustream fault t (Z.max 0 (off - at_)))) as [pa sa].
          destruct Ht as ((ra & Hca & Hea) & Hna & Hxa). cbn [fst snd] in *.
          destruct sa as [| |e].
          -- exfalso. apply Hna. reflexivity.
          -- specialize (Hea eq_refl). subst ra. rewrite app_nil_r in Hca.
             destruct (sview (go_links fault (ustream fault) off r (child_lens r) (at_ + zlen (content t)))) as [pb sb].
             destruct IH as ((rb & Hcb & Heb) & Hnb & Hxb). cbn [fst snd] in *.
             split; [exists rb; split; [rewrite Hca, Hcb, app_assoc; reflexivity|exact Heb]|]. split; [exact Hnb|].
             intros e He. destruct (Hxb e He) as (x & Hx & Hf). exists x. split; [apply in_or_app; right; exact Hx|exact Hf].
          -- split; [exists (ra ++ children_content r); split; [rewrite Hca, app_assoc; reflexivity|discriminate]|]. split; [discriminate|].
             intros e' He. destruct (Hxa e' He) as (x & Hx & Hf). exists x. split; [apply in_or_app; left; exact Hx|exact Hf].
  Qed.

  Theorem ustream_fault_view b : uwell b = true ->
    forall off, 0 <= off -> vok (preorder b) (skipz off (content b)) (sview (ustream fault b off)).
  Proof.
    induction b as [c|i n|d ls IH] using blk_ind'; intros Hw off Hoff.
    - cbn [ustream sview content]. split; [exists []; rewrite !app_nil_r; auto|]. split; [discriminate|]. intros e He. discriminate.
    - discriminate.
    - destruct ls as [|l ls].
      + cbn in *. destruct (wrapped_bytes d); try discriminate. cbn [sview fst snd].
        split; [exists []; rewrite !app_nil_r; auto|]. split; [discriminate|]. intros e He. discriminate.
      + rewrite ustream_pb. rewrite uwell_unfold in Hw.
        apply andb_prop in Hw. destruct Hw as [Hw Hkids]. apply andb_prop in Hw. destruct Hw as [Hsz _].
        assert (HF : Forall (fun l0 => msr_ok (preorder (l_target l0)) (usize fault (l_target l0)) (usize nofault (l_target l0))) (l :: ls)).
        { rewrite Forall_forall. intros x _. apply usize_fault. }
        pose proof (ulink_sizes_fault (node_meta d) (l :: ls) HF 0%nat) as Hm. unfold msr_ok in Hm.
        destruct (ulink_sizes nofault (usize nofault) (node_meta d) 0 (l :: ls)) as [sizes0| |] eqn:E0; try discriminate.
        apply list_eqb_Z_eq in Hsz. subst sizes0.
        rewrite content_pb.
        destruct (ulink_sizes fault (usize fault) (node_meta d) 0 (l :: ls)) as [sizes|e|].
        * injection Hm as Hm. subst sizes.
          eapply vok_incl; [|replace off with (off - 0) at 1 by lia; apply (go_links_fault_view off (l :: ls) 0 IH Hkids)].
          intros x Hx. rewrite preorder_cons. right. exact Hx.
        * destruct Hm as [Hm|(x & Hx & Hf)]; [discriminate|].
          remember (seek_fault fault (node_meta d) off 0 (l :: ls) (usizes_prefix fault (usize fault) (node_meta d) 0 (l :: ls)) 0) as sf eqn:Es.
          destruct sf as [es|].
          -- symmetry in Es. destruct (seek_fault_witness fault (node_meta d) off (l :: ls) 0%nat _ 0 es Es) as (t & Ht & Hft).
             cbn [sview]. split; [eexists; split; [reflexivity|discriminate]|]. split; [discriminate|].
             intros e' [= <-]. exists t. split; [|exact Hft]. rewrite preorder_cons. right. cbn [tl].
             apply in_map_iff in Ht. destruct Ht as (lk & <- & Hlk). apply in_flat_map. exists lk. split; [exact Hlk|].
             rewrite preorder_cons. left. reflexivity.
          -- cbn [sview]. split; [eexists; split; [reflexivity|discriminate]|]. split; [discriminate|].
             intros e' [= <-]. exists x. split; [rewrite preorder_cons; right; exact Hx|exact Hf].
        * discriminate.
  Qed.
End Faults.

(* C12 for every DAG with true sizes, declared or measured: a whole-value read (io.ReadAll over a fresh reader)
   under any set of unavailable blocks returns a front of the content; if it ends without an error the front is the
   whole content; an error it ends with is the load error of a block of the DAG *)
Theorem unsized_read_fault fault b : uwell b = true ->
  let '(bs, _, st) := drain_all (ustream fault b 0) [] [] in
  (exists rest, content b = bs ++ rest /\ (st = StEOF -> rest = []))
  /\ st <> StOk
  /\ (forall e, st = StErr e -> exists x, In x (preorder b) /\ fault x = Some e).
Proof.
  intros Hw. pose proof (drain_all_view (ustream fault b 0) [] []) as Hd.
  destruct (drain_all (ustream fault b 0) [] []) as [[bs l] st]. cbn [app] in Hd. destruct Hd as [-> ->].
  pose proof (ustream_fault_view fault b Hw 0 ltac:(lia)) as Hv. rewrite skipz_nonpos in Hv by lia. exact Hv.
Qed.

(* with every block available the whole content is returned *)
Theorem unsized_read_all b : uwell b = true ->
  drain_all (ustream nofault b 0) [] [] = (content b, snd (fst (drain_all (ustream nofault b 0) [] [])), StEOF).
Proof.
  intros Hw. destruct (ustream_content b Hw 0 ltac:(lia)) as [Hb Hc].
  pose proof (drain_all_view (ustream nofault b 0) [] []) as Hd.
  destruct (drain_all (ustream nofault b 0) [] []) as [[bs l] st]. cbn [app fst snd] in *. destruct Hd as [-> ->].
  rewrite sview_clean by exact Hc. cbn [fst snd]. rewrite Hb, skipz_nonpos by lia. reflexivity.
Qed.

(* a DAG with true sizes, declared or measured, reads back: whole value, every history, length *)
Theorem read_unsized b : uwell b = true ->
  fst (fst (drain_all (ustream nofault b 0) [] [])) = content b
  /\ snd (drain_all (ustream nofault b 0) [] []) = StEOF
  /\ (forall ops, map forget_loads (ureader_run nofault b rs0 ops) = abs_run (content b) 0 ops)
  /\ usize nofault b = Ok (zlen (content b)).
Proof.
  intros Hw. rewrite (unsized_read_all b Hw). cbn [fst snd].
  split; [reflexivity|]. split; [reflexivity|]. split; [intros ops; apply ureader_refines_fresh; exact Hw|apply usize_ok; exact Hw].
Qed.

(* ---- the clause that fails: "exactly the bytes that precede the unavailable block's span" ---- *)
Definition ex_leaf (c : bytes) : blk :=
  Pb (Some ([8; 2; 18; N.of_nat (length c)] ++ c ++ [24; N.of_nat (length c)])%N) [].
Definition ex_node (ls : list blk) : blk := Pb (Some [8; 2]%N) (map (fun t => PLink (Some []) (Some 10) t) ls).
(* a root over two interior nodes, none of them with BlockSizes or FileSize: "abc" "de" | "f" *)
Definition ex_root : blk := ex_node [ex_node [ex_leaf [97; 98; 99]%N; ex_leaf [100; 101]%N]; ex_node [ex_leaf [102]%N]].
Definition ex_fault : blk -> option err := fun b => if blk_eqb b (ex_leaf [102]%N) then Some (ELoad 1) else None.

(* the last leaf is unavailable, five bytes precede it, none of them is delivered before the error: every child of
   the root is measured (opened) before the first byte is handed out *)
Theorem unsized_exact_prefix_refuted :
  exists b fault, uwell b = true
    /\ fst (before_fault fault (ustream nofault b 0)) = [97; 98; 99; 100; 101]%N
    /\ sview (ustream fault b 0) = ([], StErr (ELoad 1)).
Proof. exists ex_root, ex_fault. vm_compute. auto. Qed.
