From UV Require Import File.Spec File.ReaderProofs File.ReaderProofs2.
From Coq Require Import ZifyBool ZifyNat.
Local Open Scope Z_scope.

Lemma zlen_skipz {A} off (l : list A) : 0 <= off -> zlen (skipz off l) = Z.max 0 (zlen l - off).
Proof.
  intros H. unfold skipz. pose proof (zlen_nonneg l).
  destruct (Z.leb_spec off 0); [lia|].
  destruct (Z.leb_spec (zlen l) off); [unfold zlen in *; cbn; lia|].
  unfold zlen in *. rewrite skipn_length. lia.
Qed.

Lemma node_length_ok b : well_sized b = true -> node_length b = Ok (zlen (content b)).
Proof.
  destruct b as [c|d ls|i n]; cbn [well_sized]; intros H; try discriminate; [reflexivity|].
  destruct ls as [|l ls].
  - cbn in *. destruct (wrapped_bytes d); try discriminate. reflexivity.
  - apply andb_prop in H. destruct H as [H _]. apply andb_prop in H. destruct H as [_ H].
    destruct (node_length (Pb d (l :: ls))) as [n| |]; try discriminate.
    apply Z.eqb_eq in H. subst n. reflexivity.
Qed.

(* reader state invariant against the content *)
Definition rinv (c : bytes) (st : rstate) : Prop :=
  0 <= r_off st /\
  match r_rdr st with
  | Some s => sview s = (skipz (r_off st) c, StEOF)
  | None => True
  end.

Lemma reader_step_refines root st op :
  well_sized root = true -> rinv (content root) st ->
  let '(st', o) := reader_step nofault root st op in
  let '(pos', a) := abs_step (content root) (r_off st) op in
  forget_loads o = a /\ r_off st' = pos' /\ rinv (content root) st'.
Proof.
  intros Hw [Hoff Hr]. set (c := content root) in *.
  destruct op as [off whence|k].
  - (* Seek *)
    cbn [reader_step abs_step]. rewrite (node_length_ok root Hw). fold c. cbn [bind].
    destruct (whence =? 0)%N; [|destruct (whence =? 1)%N; [|destruct (whence =? 2)%N]];
      match goal with |- context [if ?t <? 0 then _ else _] => destruct (Z.ltb_spec t 0) end;
      unfold rinv; cbn [forget_loads r_off r_rdr]; repeat split; auto; try lia.
  - (* Read *)
    cbn [reader_step abs_step].
    set (s := match r_rdr st with Some s => s | None => stream nofault root (r_off st) end).
    assert (Hs : sview s = (skipz (r_off st) c, StEOF)).
    { subst s. destruct (r_rdr st) as [s|]; [exact Hr|].
      destruct (stream_content root Hw (r_off st) Hoff) as [Hb Hc]. rewrite sview_clean by exact Hc. rewrite Hb. reflexivity. }
    destruct (Z.leb_spec k 0) as [Hk|Hk].
    + (* nothing requested *)
      assert (Ht : take s k [] [] = ([], [], StOk, s)).
      { destruct s; cbn; destruct (Z.leb_spec k 0); try lia; reflexivity. }
      rewrite Ht. unfold rinv; cbn [forget_loads r_off r_rdr]. unfold zlen. cbn [length Z.of_nat]. rewrite Z.add_0_r. repeat split; auto.
    + pose proof (take_view s k [] [] Hk) as Htv.
      destruct (take s k [] []) as [[[bs l] stt] s']. rewrite Hs in Htv.
      cbn [forget_loads r_off r_rdr app] in *.
      destruct (Z.leb_spec k (zlen (skipz (r_off st) c))) as [Hle|Hgt].
      * destruct Htv as (-> & -> & Hv). rewrite zlen_firstz by lia. unfold rinv; cbn [r_off r_rdr]. repeat split; try lia.
        rewrite Hv. rewrite skipz_skipz by lia. reflexivity.
      * destruct Htv as (-> & -> & Hv). unfold rinv; cbn [r_off r_rdr]. repeat split; try (pose proof (zlen_nonneg (skipz (r_off st) c)); lia).
        rewrite Hv. f_equal. symmetry. apply skipz_all.
        rewrite zlen_skipz by lia. pose proof (zlen_nonneg c). lia.
Qed.

(* C04: under every Seek/Read history a reader behaves like a reader over the file's exact content *)
Theorem reader_refines root : well_sized root = true ->
  forall ops st, rinv (content root) st ->
    map forget_loads (reader_run nofault root st ops) = abs_run (content root) (r_off st) ops.
Proof.
  intros Hw. induction ops as [|op ops IH]; intros st Hi; [reflexivity|].
  cbn [reader_run abs_run].
  pose proof (reader_step_refines root st op Hw Hi) as Hs.
  destruct (reader_step nofault root st op) as [st' o].
  destruct (abs_step (content root) (r_off st) op) as [pos' a].
  destruct Hs as (Ho & Hp & Hi'). cbn [map]. rewrite Ho, <- Hp. f_equal. apply IH. exact Hi'.
Qed.

Lemma rinv_rs0 c : rinv c rs0.
Proof. split; cbn; [lia|exact I]. Qed.

Corollary reader_refines_fresh root ops : well_sized root = true ->
  map forget_loads (reader_run nofault root rs0 ops) = abs_run (content root) 0 ops.
Proof. intros Hw. apply (reader_refines root Hw ops rs0 (rinv_rs0 _)). Qed.

(* a rejected Seek leaves the reader exactly where it was *)
Lemma seek_negative_keeps_state fault root st off whence o st' :
  reader_step fault root st (OpSeek off whence) = (st', OSeek (Err o)) -> st' = st.
Proof.
  cbn [reader_step].
  destruct (if (whence =? 0)%N then _ else _) as [next| |]; [destruct (next <? 0)|..]; intros [= <- ?]; reflexivity.
Qed.

(* ---- several readers of one node: each sees only its own history ---- *)
Fixpoint set_nth {A} (i : nat) (x : A) (l : list A) : list A :=
  match l, i with
  | [], _ => []
  | _ :: r, O => x :: r
  | y :: r, S i' => y :: set_nth i' x r
  end.

Fixpoint multi_run (fault : blk -> option err) (root : blk) (sts : list rstate) (ops : list (nat * rop)) : list (nat * rout) :=
  match ops with
  | [] => []
  | (i, op) :: r =>
    let '(st', o) := reader_step fault root (nth i sts rs0) op in
    (i, o) :: multi_run fault root (set_nth i st' sts) r
  end.

Definition of_reader {A} (i : nat) (l : list (nat * A)) : list A :=
  map snd (filter (fun p => Nat.eqb (fst p) i) l).

Lemma nth_set_nth_same {A} i (x d : A) l : (i < length l)%nat -> nth i (set_nth i x l) d = x.
Proof. revert i; induction l as [|y l IH]; intros [|i] H; cbn in *; try lia; auto. apply IH. lia. Qed.
Lemma nth_set_nth_other {A} i j (x d : A) l : i <> j -> nth j (set_nth i x l) d = nth j l d.
Proof. revert i j; induction l as [|y l IH]; intros [|i] [|j] H; cbn; try congruence; auto. Qed.
Lemma set_nth_length {A} i (x : A) l : length (set_nth i x l) = length l.
Proof. revert i; induction l as [|y l IH]; intros [|i]; cbn; auto. Qed.

Theorem readers_independent fault root ops : forall sts i,
  (i < length sts)%nat ->
  (forall j op, In (j, op) ops -> (j < length sts)%nat) ->
  of_reader i (multi_run fault root sts ops) = reader_run fault root (nth i sts rs0) (of_reader i ops).
Proof.
  induction ops as [|[j op] ops IH]; intros sts i Hi Hall; [reflexivity|].
  cbn [multi_run]. destruct (reader_step fault root (nth j sts rs0) op) as [st' o] eqn:Es.
  assert (Hj : (j < length sts)%nat) by (apply (Hall j op); left; reflexivity).
  unfold of_reader in *. cbn [filter fst].
  destruct (Nat.eqb_spec j i) as [->|Hne].
  - cbn [map snd reader_run]. rewrite Es. f_equal.
    rewrite IH; [rewrite nth_set_nth_same by exact Hi; reflexivity|rewrite set_nth_length; exact Hi|].
    intros j' op' Hin. rewrite set_nth_length. apply (Hall j' op'). right; exact Hin.
  - rewrite IH; [rewrite nth_set_nth_other by exact Hne; reflexivity|rewrite set_nth_length; exact Hi|].
    intros j' op' Hin. rewrite set_nth_length. apply (Hall j' op'). right; exact Hin.
Qed.
