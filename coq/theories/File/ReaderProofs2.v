From UV Require Import File.Spec File.ReaderProofs.
From Coq Require Import ZifyBool ZifyNat.
Local Open Scope Z_scope.

(* ---------- firstz / skipz ---------- *)
Lemma firstz_skipz {A} k (l : list A) : firstz k l ++ skipz k l = l.
Proof.
  unfold firstz, skipz. destruct (Z.leb_spec k 0); [reflexivity|].
  destruct (Z.leb_spec (zlen l) k); [apply app_nil_r|apply firstn_skipn].
Qed.

Lemma zlen_firstz {A} k (l : list A) : 0 <= k <= zlen l -> zlen (firstz k l) = k.
Proof.
  intros H. unfold firstz. destruct (Z.leb_spec k 0); [unfold zlen; cbn; lia|].
  destruct (Z.leb_spec (zlen l) k); [lia|]. unfold zlen in *. rewrite firstn_length. lia.
Qed.

Lemma firstz_app_ge {A} k (a b : list A) : zlen a <= k -> firstz k (a ++ b) = a ++ firstz (k - zlen a) b.
Proof.
  intros H. unfold firstz. rewrite zlen_app. pose proof (zlen_nonneg a). pose proof (zlen_nonneg b).
  destruct (Z.leb_spec k 0).
  - assert (zlen a = 0) by lia. destruct a; [|unfold zlen in *; cbn in *; lia].
    cbn. destruct (Z.leb_spec (k - 0) 0); [reflexivity|lia].
  - destruct (Z.leb_spec (zlen a + zlen b) k).
    + destruct (Z.leb_spec (k - zlen a) 0).
      * assert (zlen b = 0) by lia. destruct b; [reflexivity|unfold zlen in *; cbn in *; lia].
      * destruct (Z.leb_spec (zlen b) (k - zlen a)); [reflexivity|lia].
    + destruct (Z.leb_spec (k - zlen a) 0).
      * assert (k = zlen a) by lia. subst k. unfold zlen. rewrite Nat2Z.id.
        rewrite firstn_app, firstn_all, Nat.sub_diag. cbn. reflexivity.
      * destruct (Z.leb_spec (zlen b) (k - zlen a)); [lia|].
        rewrite firstn_app. unfold zlen in *. rewrite firstn_all2 by lia. f_equal. f_equal. lia.
Qed.

Lemma firstz_app_lt {A} k (a b : list A) : k <= zlen a -> firstz k (a ++ b) = firstz k a.
Proof.
  intros H. unfold firstz. rewrite zlen_app. pose proof (zlen_nonneg b).
  destruct (Z.leb_spec k 0); [reflexivity|].
  destruct (Z.leb_spec (zlen a) k).
  - assert (k = zlen a) by lia. subst k.
    destruct (Z.leb_spec (zlen a + zlen b) (zlen a)).
    + assert (zlen b = 0) by lia. destruct b; [apply app_nil_r|unfold zlen in *; cbn in *; lia].
    + unfold zlen. rewrite Nat2Z.id, firstn_app, firstn_all, Nat.sub_diag. cbn. apply app_nil_r.
  - destruct (Z.leb_spec (zlen a + zlen b) k); [lia|].
    rewrite firstn_app. unfold zlen in *. replace (Z.to_nat k - length a)%nat with O by lia. cbn. apply app_nil_r.
Qed.

Lemma skipn_skipn' {A} a b (l : list A) : skipn a (skipn b l) = skipn (b + a) l.
Proof. revert l; induction b as [|b IH]; intros l; [reflexivity|]. destruct l; [destruct a; reflexivity|]. cbn. apply IH. Qed.

Lemma skipz_skipz {A} a b (l : list A) : 0 <= a -> 0 <= b -> skipz b (skipz a l) = skipz (a + b) l.
Proof.
  intros Ha Hb.
  destruct (Z.eq_dec a 0) as [->|Ha0]; [rewrite (skipz_nonpos 0) by lia; reflexivity|].
  destruct (Z.eq_dec b 0) as [->|Hb0]; [rewrite (skipz_nonpos 0) by lia; f_equal; lia|].
  unfold skipz at 2. destruct (Z.leb_spec a 0); [lia|].
  destruct (Z.leb_spec (zlen l) a).
  - rewrite skipz_all by (unfold zlen; cbn; lia). rewrite skipz_all by lia. reflexivity.
  - unfold skipz. unfold zlen in *. rewrite skipn_length.
    destruct (Z.leb_spec b 0); [lia|]. destruct (Z.leb_spec (a + b) 0); [lia|].
    destruct (Z.leb_spec (Z.of_nat (length l - Z.to_nat a)) b); destruct (Z.leb_spec (Z.of_nat (length l)) (a + b)); try lia; [reflexivity|].
    rewrite skipn_skipn'. f_equal. lia.
Qed.

(* ---------- Read consumes the view ---------- *)
Lemma sview_clean s : sclean s = true -> sview s = (sbytes s, StEOF).
Proof.
  induction s as [|x k IH|x k IH|x e|e]; cbn; intros H; try discriminate; auto.
  rewrite IH by exact H. reflexivity.
Qed.

(* `take` (a ReadFull of k bytes) against the view of the stream *)
Lemma take_view s : forall k acc loads,
  0 < k ->
  let '(bs, _, st, s') := take s k acc loads in
  let '(vb, vs) := sview s in
  if k <=? zlen vb
  then bs = acc ++ firstz k vb /\ st = StOk /\ sview s' = (skipz k vb, vs)
  else bs = acc ++ vb /\ st = vs /\ sview s' = ([], vs).
Proof.
  induction s as [|x s IH|x s IH|x e|e]; intros k acc loads Hk.
  - cbn. destruct (Z.leb_spec k 0); [lia|]. cbn.
    destruct (Z.leb_spec k (zlen (@nil N))); [unfold zlen in *; cbn in *; lia|].
    rewrite app_nil_r. auto.
  - cbn [take]. destruct (Z.leb_spec k 0); [lia|]. cbn [sview]. apply IH. exact Hk.
  - cbn [take]. destruct (Z.leb_spec k 0); [lia|]. cbn [sview].
    destruct (sview s) as [vb vs] eqn:Ev.
    destruct (Z.leb_spec (zlen x) k) as [Hall|Hpart].
    + (* the whole block is consumed *)
      destruct (Z.eq_dec k (zlen x)) as [->|Hne].
      * (* exactly: the read stops here *)
        rewrite Z.sub_diag.
        destruct s; cbn [take]; (destruct (Z.leb_spec 0 0); [|lia]);
          (destruct (Z.leb_spec (zlen x) (zlen (x ++ vb))); [|rewrite zlen_app in *; pose proof (zlen_nonneg vb); lia]);
          rewrite firstz_app_lt by lia; unfold firstz;
          (destruct (Z.leb_spec (zlen x) 0);
           [assert (x = []) by (destruct x; [reflexivity|unfold zlen in *; cbn in *; lia]); subst x; cbn in *; lia|]);
          (destruct (Z.leb_spec (zlen x) (zlen x)); [|lia]);
          rewrite skipz_app_ge by lia; rewrite Z.sub_diag, (skipz_nonpos 0) by lia; rewrite Ev; auto.
      * specialize (IH (k - zlen x) (acc ++ x) loads ltac:(lia)).
        destruct (take s (k - zlen x) (acc ++ x) loads) as [[[bs l] st] s'].
        rewrite zlen_app.
        destruct (Z.leb_spec (k - zlen x) (zlen vb)); destruct (Z.leb_spec k (zlen x + zlen vb)); try lia.
        -- destruct IH as (-> & -> & ->). rewrite firstz_app_ge, skipz_app_ge by lia. rewrite <- app_assoc. auto.
        -- destruct IH as (-> & -> & ->). rewrite <- app_assoc. auto.
    + (* part of the block *)
      rewrite zlen_app. pose proof (zlen_nonneg vb).
      destruct (Z.leb_spec k (zlen x + zlen vb)); [|lia].
      cbn [sview]. rewrite Ev. rewrite firstz_app_lt, skipz_app_lt by lia. auto.
  - cbn. destruct (Z.leb_spec k 0); [lia|]. destruct (Z.leb_spec k (zlen (@nil N))); [unfold zlen in *; cbn in *; lia|].
    rewrite app_nil_r. auto.
  - cbn. destruct (Z.leb_spec k 0); [lia|]. destruct (Z.leb_spec k (zlen (@nil N))); [unfold zlen in *; cbn in *; lia|].
    rewrite app_nil_r. auto.
Qed.
