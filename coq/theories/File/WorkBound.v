(* Work bound of the file reader on ANY block DAG (hostile sizes included): the effect stream a reader consumes after
   opening or seeking — block requests and per-block byte runs — has at most two events per node of the (unfolded) DAG. *)
From UV Require Import File.Reader File.ReaderProofs Blocks.BlkProofs.
From Coq Require Import ZifyN ZifyNat ZifyBool.
Local Open Scope N_scope.

Fixpoint slen (s : strm) : N :=
  match s with
  | SNil => 0
  | SLoad _ k => 1 + slen k
  | SBytes _ k => 1 + slen k
  | SFail _ _ => 1
  | SErr _ => 1
  end.

Lemma slen_sapp a b : slen (sapp a b) <= slen a + slen b.
Proof. induction a; cbn [sapp slen]; lia. Qed.

(* nodes of the unfolded DAG *)
Fixpoint tnodes (b : blk) : N :=
  match b with
  | Pb _ ls => 1 + (fix go (ls : list plink) : N := match ls with [] => 0 | PLink _ _ t :: r => tnodes t + go r end) ls
  | _ => 1
  end.
Definition tnodes_links := fix go (ls : list plink) : N := match ls with [] => 0 | PLink _ _ t :: r => tnodes t + go r end.
Lemma tnodes_pb d ls : tnodes (Pb d ls) = 1 + tnodes_links ls.
Proof. reflexivity. Qed.

Theorem stream_events_bounded fault b : forall off, slen (stream fault b off) + 1 <= 2 * tnodes b.
Proof.
  induction b as [c|i n|d ls IH] using blk_ind'; intros off; [cbn [stream slen tnodes]; lia|cbn [stream slen tnodes]; lia|].
  destruct ls as [|l ls]; [cbn [stream]; destruct (wrapped_bytes d); cbn [slen tnodes]; lia|].
  rewrite stream_pb, tnodes_pb.
  destruct (link_sizes (node_meta d) 0 (l :: ls)) as [sizes| |]; [|cbn [slen]; lia|cbn [slen]; lia].
  assert (G : forall lks szs at_, Forall (fun l0 => forall off0, slen (stream fault (l_target l0) off0) + 1 <= 2 * tnodes (l_target l0)) lks ->
                slen (go_links fault (stream fault) off lks szs at_) <= 2 * tnodes_links lks).
  { induction lks as [|[n0 s0 t0] r IHr]; intros szs at_ HF; [destruct szs; cbn [go_links slen tnodes_links]; lia|].
    inversion HF as [|? ? Ht Hr]; subst. cbn [l_target] in Ht.
    destruct szs as [|sz sr]; [cbn [go_links slen tnodes_links]; lia|]. cbn [go_links tnodes_links].
    assert (1 <= tnodes t0) by (destruct t0; [cbn [tnodes]; lia|rewrite tnodes_pb; lia|cbn [tnodes]; lia]).
    destruct (Z.leb (at_ + sz) off); [specialize (IHr sr (at_ + sz)%Z Hr); lia|].
    destruct (fault t0); [cbn [slen]; pose proof (IHr sr (at_ + sz)%Z Hr); lia|].
    cbn [slen]. pose proof (slen_sapp (stream fault t0 (Z.max 0 (off - at_))) (go_links fault (stream fault) off r sr (at_ + sz)%Z)).
    specialize (Ht (Z.max 0 (off - at_))). specialize (IHr sr (at_ + sz)%Z Hr).
    lia. }
  specialize (G (l :: ls) sizes 0%Z IH). lia.
Qed.
