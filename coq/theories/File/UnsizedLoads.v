(* The storage requests of the reader over children without declared sizes (File/Unsized.v gives bytes and
   statuses).  Measuring a link whose size is not declared loads the child and whatever the child needs to report its
   length; makeReader measures every link before it delivers anything; a measured child is not requested again when
   it is read, but a reader built over it measures ITS links again.  `ustreamL` is `ustream` decorated with these
   requests; it delivers the same bytes and status (`ustreamL_view`).  Compared with the implementation's request
   log on every run (fault-free histories, ranges and full reads over hand-assembled unsized DAGs).
   Consequence, by evaluation: on such DAGs a range read requests blocks outside the range and a full read does not
   first-request the blocks in depth-first link order (`unsized_range_refuted`, `unsized_order_refuted`): the known
   findings C05-unsized-children-all-opened and C20-unsized-measured-first. *)
From UV Require Import File.Spec File.ReaderProofs File.ReaderProofs2 File.Unsized File.UnsizedProofs File.UnsizedFaults.
Local Open Scope Z_scope.

Definition has_filesize (b : blk) : bool :=
  match b with
  | Pb d _ => match node_meta d with Some m => match d_filesize m with Some _ => true | None => false end | None => false end
  | _ => false
  end.

Fixpoint sload_list (l : list blk) (k : strm) : strm :=
  match l with [] => k | b :: r => SLoad b (sload_list r k) end.

Section Loads.
  Variable fault : blk -> option err.

  (* the requests made while measuring every link of a loaded node, in order, up to the first failure *)
  Fixpoint utrace (b : blk) : list blk :=
    match b with
    | Pb d ls =>
      (fix go (i : nat) (ls : list plink) : list blk :=
         match ls with
         | [] => []
         | PLink _ ts t :: r =>
           match t with
           | Raw _ => match ts with Some _ => go (S i) r | None => [] end
           | Ext _ _ => []
           | Pb _ _ =>
             match (match node_meta d with Some m => nth_error (d_blocksizes m) i | None => None end) with
             | Some _ => go (S i) r
             | None =>
               match fault t with
               | Some _ => [t]
               | None =>
                 t :: (if has_filesize t then [] else utrace t)
                   ++ match usize fault t with Ok z => if z <? 0 then [] else go (S i) r | _ => [] end
               end
             end
           end
         end) 0%nat ls
    | _ => []
    end.

  (* makeReader, link by link: measure the link if its size is not declared; the first child the offset falls strictly
     inside is opened at once (Seek on its reader loads it) - before the links after it are measured *)
  Definition mtrace (md : option udata) (off : Z) :=
    fix go (i : nat) (ls : list plink) (sizes : list Z) (at_ : Z) : list blk :=
      match ls, sizes with
      | PLink _ _ t :: r, sz :: sr =>
        (if measured md i t then t :: (if has_filesize t then [] else utrace t) else [])
          ++ (if negb (at_ + sz <=? off) && (at_ <? off) && negb (measured md i t) then [t] else [])
          ++ go (S i) r sr (at_ + sz)
      | _, _ => []
      end.

  Fixpoint ustreamL (b : blk) (off : Z) : strm :=
    match b with
    | Raw c => SBytes (skipz off c) SNil
    | Ext _ _ => SErr EUnmodelled
    | Pb d ls =>
      match ls with
      | [] => match wrapped_bytes d with
              | Ok x => SBytes (skipz off x) SNil
              | Err e => SErr e
              | Panic => SErr EOther
              end
      | _ =>
        match ulink_sizes fault (usize fault) (node_meta d) 0 ls with
        | Err e => sload_list (utrace b) (SErr (match seek_fault fault (node_meta d) off 0 ls (usizes_prefix fault (usize fault) (node_meta d) 0 ls) 0 with
                                                | Some e' => e'
                                                | None => e
                                                end))
        | Panic => SErr EOther
        | Ok sizes =>
          sload_list (mtrace (node_meta d) off 0%nat ls sizes 0)
            ((fix go (i : nat) (ls : list plink) (sizes : list Z) (at_ : Z) : strm :=
                match ls, sizes with
                | PLink _ _ t :: r, sz :: sr =>
                  if at_ + sz <=? off then go (S i) r sr (at_ + sz)
                  else if measured (node_meta d) i t
                       then sapp (ustreamL t (Z.max 0 (off - at_))) (go (S i) r sr (at_ + sz))   (* opened already *)
                       else match fault t with
                            | Some e => SFail t e
                            | None =>
                              if at_ <? off
                              then sapp (ustreamL t (Z.max 0 (off - at_))) (go (S i) r sr (at_ + sz)) (* opened by Seek *)
                              else SLoad t (sapp (ustreamL t (Z.max 0 (off - at_))) (go (S i) r sr (at_ + sz)))
                            end
                | _, _ => SNil
                end) 0%nat ls sizes 0)
        end
      end
    end.
End Loads.

(* makeReader with every link skipped (offset at or past the end) returns io.EOF and leaves the reader without a
   stream: the next Read measures again *)
Fixpoint skipped_all (sizes : list Z) (at_ off : Z) : bool :=
  match sizes with
  | [] => true
  | sz :: r => (at_ + sz <=? off) && skipped_all r (at_ + sz) off
  end.

Definition stays_closed (fault : blk -> option err) (root : blk) (off : Z) : bool :=
  match root with
  | Pb d (l :: ls) =>
    match ulink_sizes fault (usize fault) (node_meta d) 0 (l :: ls) with
    | Ok sizes => skipped_all sizes 0 off
    | _ => true
    end
  | _ => false
  end.

Definition ureaderL_step (fault : blk -> option err) (root : blk) (st : rstate) (op : rop) : rstate * rout :=
  match op with
  | OpSeek _ _ => ureader_step fault root st op
  | OpRead k =>
    let s := match r_rdr st with Some s => s | None => ustreamL fault root (r_off st) end in
    let '(bs, loads, stt, s') := take s k [] [] in
    let keep := match r_rdr st with Some _ => true | None => negb (stays_closed fault root (r_off st)) end in
    (mk_rs (r_off st + zlen bs) (if keep then Some s' else None), ORead bs stt loads)
  end.

(* ---- the decorated stream delivers what the undecorated one delivers ---- *)
Lemma sview_sload_list l k : sview (sload_list l k) = sview k.
Proof. induction l as [|b r IH]; cbn; auto. Qed.

Definition go_linksL (fault : blk -> option err) (md : option udata) (rec : blk -> Z -> strm) (off : Z) :=
  fix go (i : nat) (ls : list plink) (sizes : list Z) (at_ : Z) : strm :=
    match ls, sizes with
    | PLink _ _ t :: r, sz :: sr =>
      if at_ + sz <=? off then go (S i) r sr (at_ + sz)
      else if measured md i t
           then sapp (rec t (Z.max 0 (off - at_))) (go (S i) r sr (at_ + sz))
           else match fault t with
                | Some e => SFail t e
                | None =>
                  if at_ <? off
                  then sapp (rec t (Z.max 0 (off - at_))) (go (S i) r sr (at_ + sz))
                  else SLoad t (sapp (rec t (Z.max 0 (off - at_))) (go (S i) r sr (at_ + sz)))
                end
    | _, _ => SNil
    end.

Lemma ustreamL_pb fault d l ls off :
  ustreamL fault (Pb d (l :: ls)) off =
  match ulink_sizes fault (usize fault) (node_meta d) 0 (l :: ls) with
  | Err e => sload_list (utrace fault (Pb d (l :: ls)))
                        (SErr (match seek_fault fault (node_meta d) off 0 (l :: ls) (usizes_prefix fault (usize fault) (node_meta d) 0 (l :: ls)) 0 with
                               | Some e' => e'
                               | None => e
                               end))
  | Panic => SErr EOther
  | Ok sizes => sload_list (mtrace fault (node_meta d) off 0%nat (l :: ls) sizes 0)
                           (go_linksL fault (node_meta d) (ustreamL fault) off 0 (l :: ls) sizes 0)
  end.
Proof. reflexivity. Qed.

(* a link that was measured successfully leads to an available block *)
Lemma ulink_sizes_measured_available fault md ls : forall i sizes,
  ulink_sizes fault (usize fault) md i ls = Ok sizes ->
  forall j n ts t, nth_error ls j = Some (PLink n ts t) -> measured md (i + j) t = true -> fault t = None.
Proof.
  induction ls as [|[n0 ts0 t0] r IH]; intros i sizes H j n ts t Hn Hm; [destruct j; discriminate|].
  cbn [ulink_sizes] in H.
  destruct (ulink_size fault (usize fault) md i (PLink n0 ts0 t0)) as [z| |] eqn:El; try discriminate. cbn [bind] in H.
  destruct (ulink_sizes fault (usize fault) md (S i) r) as [rest| |] eqn:Er; try discriminate.
  destruct j as [|j].
  - cbn in Hn. injection Hn as -> -> ->. rewrite Nat.add_0_r in Hm.
    unfold measured in Hm. cbn [ulink_size] in El. destruct t as [c|d' ls'|x y]; try discriminate.
    destruct (match md with Some m => nth_error (d_blocksizes m) i | None => None end); [discriminate|].
    destruct (fault (Pb d' ls')); [discriminate|reflexivity].
  - cbn in Hn. apply (IH (S i) rest Er j n ts t Hn). replace (S i + j)%nat with (i + S j)%nat by lia. exact Hm.
Qed.

Lemma go_linksL_view fault md (r1 r2 : blk -> Z -> strm) off ls : forall i sizes at_,
  Forall (fun l => forall o, sview (r1 (l_target l) o) = sview (r2 (l_target l) o)) ls ->
  (forall j n ts t, nth_error ls j = Some (PLink n ts t) -> measured md (i + j) t = true -> fault t = None) ->
  sview (go_linksL fault md r1 off i ls sizes at_) = sview (go_links fault r2 off ls sizes at_).
Proof.
  induction ls as [|[n ts t] r IH]; intros i sizes at_ HF Hav; [reflexivity|].
  inversion HF as [|? ? Ht Hr]; subst. cbn [l_target] in Ht.
  destruct sizes as [|sz sr]; [reflexivity|]. cbn [go_linksL go_links].
  assert (Hav' : forall j n' ts' t', nth_error r j = Some (PLink n' ts' t') -> measured md (S i + j) t' = true -> fault t' = None).
  { intros j n' ts' t' Hn Hm. apply (Hav (S j) n' ts' t' Hn). replace (i + S j)%nat with (S i + j)%nat by lia. exact Hm. }
  destruct (at_ + sz <=? off); [apply IH; assumption|].
  destruct (measured md i t) eqn:Em.
  - rewrite (Hav 0%nat n ts t eq_refl) by (rewrite Nat.add_0_r; exact Em). cbn [sview].
    rewrite !sview_sapp, Ht, (IH (S i) sr (at_ + sz) Hr Hav'). reflexivity.
  - destruct (fault t); [reflexivity|]. destruct (at_ <? off); cbn [sview];
      rewrite !sview_sapp, Ht, (IH (S i) sr (at_ + sz) Hr Hav'); reflexivity.
Qed.

Theorem ustreamL_view fault b : forall off, sview (ustreamL fault b off) = sview (ustream fault b off).
Proof.
  induction b as [c|i n|d ls IH] using blk_ind'; intros off; [reflexivity|reflexivity|].
  destruct ls as [|l ls]; [reflexivity|].
  rewrite ustreamL_pb, ustream_pb.
  destruct (ulink_sizes fault (usize fault) (node_meta d) 0 (l :: ls)) as [sizes|e|] eqn:Es;
    [|rewrite sview_sload_list; reflexivity|reflexivity].
  rewrite sview_sload_list. apply go_linksL_view; [exact IH|].
  intros j n ts t Hn Hm. exact (ulink_sizes_measured_available fault (node_meta d) (l :: ls) 0%nat sizes Es j n ts t Hn Hm).
Qed.

(* ---- what the requests look like: two clauses that fail on such DAGs ---- *)
(* "abc" "de" | "f", no sizes anywhere above the leaves (UnsizedFaults.ex_root): reading the first byte requests the
   second interior node and its leaf, whose span [5,6) does not meet [0,1) *)
Theorem unsized_range_refuted :
  exists b, uwell b = true /\
    let '(bs, loads, _, _) := take (ustreamL nofault b 0) 1 [] [] in
    bs = [97%N] /\ existsb (blk_eqb (ex_leaf [102%N])) loads = true.
Proof. exists ex_root. vm_compute. auto. Qed.

(* first child with a FileSize (measuring it needs only its own block), second child without: the leaves of the
   second are requested before the leaves of the first *)
Definition ex_sized_node (n : N) (ls : list blk) : blk := Pb (Some [8; 2; 24; n]%N) (map (fun t => PLink (Some []) (Some 10) t) ls).
Definition ex_mixed : blk := ex_node [ex_sized_node 5 [ex_leaf [97; 98; 99]%N; ex_leaf [100; 101]%N]; ex_node [ex_leaf [102]%N]].

Fixpoint first_requests (seen : list blk) (l : list blk) : list blk :=
  match l with
  | [] => []
  | b :: r => if existsb (blk_eqb b) seen then first_requests seen r else b :: first_requests (b :: seen) r
  end.

Theorem unsized_order_refuted :
  exists b, uwell b = true /\
    let '(_, loads, st) := drain_all (ustreamL nofault b 0) [] [] in
    st = StEOF /\ first_requests [] loads <> tl (preorder b).
Proof. exists ex_mixed. vm_compute. split; [reflexivity|]. split; [reflexivity|]. discriminate. Qed.

(* ---- every request of the extended reader is for a block of the DAG strictly below the node being read ---- *)
Lemma sloads_sload_list l k : sloads (sload_list l k) = l ++ sloads k.
Proof. induction l as [|b r IH]; cbn; [reflexivity|rewrite IH; reflexivity]. Qed.

Lemma sloads_sapp_incl a b : incl (sloads (sapp a b)) (sloads a ++ sloads b).
Proof.
  induction a as [|x k IH|x k IH|x e|e]; cbn [sapp sloads app].
  - apply incl_refl.
  - intros y [->|Hy]; [left; reflexivity|right; apply IH; exact Hy].
  - exact IH.
  - intros y [->|[]]. left. reflexivity.
  - intros y [].
Qed.

Lemma preorder_hd b : In b (preorder b).
Proof. destruct b; cbn; left; reflexivity. Qed.

Lemma tl_preorder_pb d ls : tl (preorder (Pb d ls)) = flat_map (fun l => preorder (l_target l)) ls.
Proof. reflexivity. Qed.

Lemma tl_preorder_incl b : incl (tl (preorder b)) (preorder b).
Proof. destruct b; cbn; intros x Hx; right; exact Hx. Qed.

Section Inside.
  Variable fault : blk -> option err.

  Definition utrace_links (md : option udata) (rec : blk -> list blk) :=
    fix go (i : nat) (ls : list plink) : list blk :=
      match ls with
      | [] => []
      | PLink _ ts t :: r =>
        match t with
        | Raw _ => match ts with Some _ => go (S i) r | None => [] end
        | Ext _ _ => []
        | Pb _ _ =>
          match (match md with Some m => nth_error (d_blocksizes m) i | None => None end) with
          | Some _ => go (S i) r
          | None =>
            match fault t with
            | Some _ => [t]
            | None => t :: (if has_filesize t then [] else rec t)
                        ++ match usize fault t with Ok z => if z <? 0 then [] else go (S i) r | _ => [] end
            end
          end
        end
      end.

  Lemma utrace_pb d ls : utrace fault (Pb d ls) = utrace_links (node_meta d) (utrace fault) 0 ls.
  Proof. reflexivity. Qed.

  Lemma utrace_links_inside md (rec : blk -> list blk) ls :
    Forall (fun l => incl (rec (l_target l)) (tl (preorder (l_target l)))) ls ->
    forall i, incl (utrace_links md rec i ls) (flat_map (fun l => preorder (l_target l)) ls).
  Proof.
    induction 1 as [|[n ts t] r Ht _ IHr]; intros i; [intros x []|].
    cbn [flat_map l_target] in *.
    assert (Hr : forall j, incl (utrace_links md rec j r) (preorder t ++ flat_map (fun l => preorder (l_target l)) r)).
    { intros j x Hx. apply in_or_app. right. exact (IHr j x Hx). }
    cbn [utrace_links]. destruct t as [c|d' ls'|ei en].
    - destruct ts; [apply Hr|intros x []].
    - destruct (match md with Some m => nth_error (d_blocksizes m) i | None => None end); [apply Hr|].
      destruct (fault (Pb d' ls')).
      + intros x [<-|[]]. apply in_or_app. left. apply preorder_hd.
      + intros x [<-|Hx]; [apply in_or_app; left; apply preorder_hd|].
        apply in_app_or in Hx. destruct Hx as [Hx|Hx].
        * apply in_or_app. left. destruct (has_filesize (Pb d' ls')); [destruct Hx|]. apply tl_preorder_incl. apply Ht. exact Hx.
        * destruct (usize fault (Pb d' ls')) as [z| |]; try destruct Hx. destruct (z <? 0); [destruct Hx|exact (Hr (S i) x Hx)].
    - intros x [].
  Qed.

  Lemma utrace_inside b : incl (utrace fault b) (tl (preorder b)).
  Proof.
    induction b as [c|i n|d ls IH] using blk_ind'; try (intros x []).
    rewrite utrace_pb, tl_preorder_pb. apply utrace_links_inside. exact IH.
  Qed.

  Lemma mtrace_inside md off ls : forall i sizes at_,
    incl (mtrace fault md off i ls sizes at_) (flat_map (fun l => preorder (l_target l)) ls).
  Proof.
    induction ls as [|[n ts t] r IH]; intros i sizes at_; [intros x []|].
    destruct sizes as [|sz sr]; [intros x []|]. cbn [mtrace flat_map l_target].
    intros x Hx. apply in_app_or in Hx. destruct Hx as [Hx|Hx].
    - apply in_or_app. left. destruct (measured md i t); [|destruct Hx].
      destruct Hx as [<-|Hx]; [apply preorder_hd|].
      destruct (has_filesize t); [destruct Hx|]. apply tl_preorder_incl. apply utrace_inside. exact Hx.
    - apply in_app_or in Hx. destruct Hx as [Hx|Hx].
      + apply in_or_app. left. destruct (negb (at_ + sz <=? off) && (at_ <? off) && negb (measured md i t)); [|destruct Hx].
        destruct Hx as [<-|[]]. apply preorder_hd.
      + apply in_or_app. right. exact (IH (S i) sr (at_ + sz) x Hx).
  Qed.

  Lemma go_linksL_inside md (rec : blk -> Z -> strm) off ls : forall i sizes at_,
    Forall (fun l => forall o, incl (sloads (rec (l_target l) o)) (tl (preorder (l_target l)))) ls ->
    incl (sloads (go_linksL fault md rec off i ls sizes at_)) (flat_map (fun l => preorder (l_target l)) ls).
  Proof.
    induction ls as [|[n ts t] r IH]; intros i sizes at_ HF; [intros x []|].
    inversion HF as [|? ? Ht Hr]; subst. cbn [l_target] in Ht.
    destruct sizes as [|sz sr]; [intros x []|]. cbn [go_linksL flat_map l_target].
    assert (Hrest : incl (sloads (go_linksL fault md rec off (S i) r sr (at_ + sz))) (preorder t ++ flat_map (fun l => preorder (l_target l)) r)).
    { intros x Hx. apply in_or_app. right. exact (IH (S i) sr (at_ + sz) Hr x Hx). }
    assert (Hboth : incl (sloads (sapp (rec t (Z.max 0 (off - at_))) (go_linksL fault md rec off (S i) r sr (at_ + sz))))
                         (preorder t ++ flat_map (fun l => preorder (l_target l)) r)).
    { intros x Hx. apply sloads_sapp_incl in Hx. apply in_app_or in Hx. destruct Hx as [Hx|Hx];
        [apply in_or_app; left; apply tl_preorder_incl; apply (Ht _ x Hx)|apply Hrest; exact Hx]. }
    destruct (at_ + sz <=? off); [exact Hrest|].
    destruct (measured md i t); [exact Hboth|].
    destruct (fault t).
    - intros x [<-|[]]. apply in_or_app. left. apply preorder_hd.
    - destruct (at_ <? off); [exact Hboth|].
      intros x [<-|Hx]; [apply in_or_app; left; apply preorder_hd|apply Hboth; exact Hx].
  Qed.

  Theorem ustreamL_requests_inside b : forall off, incl (sloads (ustreamL fault b off)) (tl (preorder b)).
  Proof.
    induction b as [c|i n|d ls IH] using blk_ind'; intros off; try (intros x []).
    destruct ls as [|l ls].
    - cbn [ustreamL]. destruct (wrapped_bytes d); intros x [].
    - rewrite ustreamL_pb, tl_preorder_pb.
      destruct (ulink_sizes fault (usize fault) (node_meta d) 0 (l :: ls)) as [sizes|e|].
      + rewrite sloads_sload_list. intros x Hx. apply in_app_or in Hx. destruct Hx as [Hx|Hx].
        * exact (mtrace_inside (node_meta d) off (l :: ls) 0%nat sizes 0 x Hx).
        * exact (go_linksL_inside (node_meta d) (ustreamL fault) off (l :: ls) 0%nat sizes 0 IH x Hx).
      + rewrite sloads_sload_list. cbn [sloads]. rewrite app_nil_r. rewrite <- (tl_preorder_pb d (l :: ls)). apply utrace_inside.
      + intros x [].
  Qed.
End Inside.
