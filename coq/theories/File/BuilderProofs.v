From UV Require Import File.Builder File.Spec File.ReaderProofs Blocks.BlkProofs Codec.Presentation Codec.Proofs Codec.RoundTrip.
From Coq Require Import ZifyBool ZifyNat ZifyN.
Local Open Scope N_scope.

Definition bound63 : N := 9223372036854775808.

(* what the builder knows about a finished subtree *)
Definition meta_ok (m : meta) : Prop :=
  well_sized (m_link m) = true
  /\ m_bytes m = blen (content (m_link m))
  /\ m_bytes m < bound63
  /\ match m_link m with Ext _ _ => False | _ => True end
  /\ m_stored m = cum_size (m_link m)
  /\ tsizes_ok (m_link m) = true.

Lemma mk_leaf_ok c : blen c < bound63 -> meta_ok (mk_leaf c).
Proof.
  intros H. unfold meta_ok, mk_leaf, m_link, m_bytes, m_stored. cbn.
  repeat split; auto. lia.
Qed.

Definition children_bytes (children : list meta) : bytes := concat (map (fun m => content (m_link m)) children).

Lemma children_content_links children :
  children_content (file_links children) = children_bytes children.
Proof.
  unfold children_content, children_bytes, file_links. rewrite flat_map_concat_map, map_map. reflexivity.
Qed.

Lemma sumN_app a b : sumN (a ++ b) = sumN a + sumN b.
Proof. unfold sumN. induction a; cbn; lia. Qed.

Lemma blen_app (a b : bytes) : blen (a ++ b) = blen a + blen b.
Proof. unfold blen. rewrite app_length. lia. Qed.

Lemma children_bytes_len children :
  Forall meta_ok children -> sumN (map m_bytes children) = blen (children_bytes children).
Proof.
  induction 1 as [|m r Hm _ IH]; [reflexivity|].
  unfold children_bytes in *. cbn [map concat sumN fold_right]. rewrite blen_app.
  destruct Hm as (_ & Hb & _). fold (sumN (map m_bytes r)). rewrite IH, Hb. reflexivity.
Qed.

(* the UnixFS Data of an interior node decodes to what was put in *)
Lemma node_meta_file_data children :
  sumN (map m_bytes children) < bound63 -> Forall (fun m => m_bytes m < bound63) children ->
  node_meta (Some (file_data children)) =
  Some (mk_ud Data_File None (Some (sumN (map m_bytes children))) (map m_bytes children) None None None None).
Proof.
  intros Hs Hall. unfold node_meta, file_data.
  rewrite decode_encode; [reflexivity|].
  unfold wf_udata. cbn [d_type d_data d_filesize d_blocksizes d_hashtype d_fanout d_mode d_mtime].
  rewrite pow64. unfold bound63 in *. repeat split; auto; try (cbv [Data_File]; lia).
  rewrite Forall_map. eapply Forall_impl; [|exact Hall]. cbn beta. intros m Hm. lia.
Qed.

Lemma i64_small n : n < bound63 -> i64 n = Z.of_N n.
Proof. intros H. unfold i64, bound63 in *. destruct (N.ltb_spec n 9223372036854775808); [reflexivity|lia]. Qed.

Lemma zlen_blen (b : bytes) : zlen b = Z.of_N (blen b).
Proof. unfold zlen, blen. lia. Qed.

Lemma link_sizes_file_links md bs pre rest :
  md = Some (mk_ud Data_File None (Some (sumN bs)) bs None None None None) ->
  bs = map m_bytes (pre ++ rest) ->
  Forall meta_ok rest ->
  link_sizes md (length pre) (file_links rest) = Ok (child_lens (file_links rest)).
Proof.
  intros Hmd Hbs. revert pre Hbs. induction rest as [|m rest IH]; intros pre Hbs Hok; [reflexivity|].
  inversion Hok as [|? ? Hm Hr]; subst.
  cbn [file_links map link_sizes child_lens l_target].
  destruct Hm as (Hw & Hb & Hlt & Hkind & Hst & Hts).
  assert (Hsz : link_size (Some (mk_ud Data_File None (Some (sumN (map m_bytes (pre ++ m :: rest)))) (map m_bytes (pre ++ m :: rest)) None None None None))
                          (length pre) (PLink (Some []) (Some (Z.of_N (m_stored m))) (m_link m))
                = Ok (zlen (content (m_link m)))).
  { unfold link_size. destruct (m_link m) as [c|d ls|i n] eqn:El; try contradiction.
    - (* raw leaf: Tsize = stored size = content length *)
      f_equal. rewrite Hst. cbn [cum_size enc_len content]. rewrite N.add_0_r, zlen_blen. reflexivity.
    - cbn [d_blocksizes]. rewrite map_app, nth_error_app2 by (rewrite map_length; lia).
      rewrite map_length, Nat.sub_diag. cbn [map nth_error]. f_equal. rewrite i64_small by exact Hlt. rewrite Hb, zlen_blen. reflexivity. }
  rewrite Hsz. cbn [bind].
  specialize (IH (pre ++ [m])). rewrite app_length in IH. cbn [length] in IH. rewrite Nat.add_1_r in IH.
  rewrite <- app_assoc in IH. cbn [app] in IH. fold (file_links rest). rewrite (IH eq_refl Hr). reflexivity.
Qed.

Lemma forallb_file_links_ws children :
  Forall meta_ok children -> forallb (fun l => well_sized (l_target l)) (file_links children) = true.
Proof. unfold file_links. induction 1 as [|m r Hm _ IH]; [reflexivity|]. cbn [map forallb l_target]. destruct Hm as (Hw & _). rewrite Hw, IH. reflexivity. Qed.

Lemma cum_size_links children :
  Forall meta_ok children ->
  fold_right (fun l acc => cum_size (l_target l) + acc) 0 (file_links children) = sumN (map m_stored children).
Proof.
  unfold file_links. induction 1 as [|m r Hm _ IH]; [reflexivity|]. cbn [map fold_right l_target sumN]. destruct Hm as (_ & _ & _ & _ & Hst & _).
  fold (sumN (map m_stored r)). rewrite IH, Hst. reflexivity.
Qed.

Lemma tsizes_links children :
  Forall meta_ok children ->
  forallb (fun l => match l_tsize l with Some z => Z.eqb z (Z.of_N (cum_size (l_target l))) | None => false end
                    && tsizes_ok (l_target l)) (file_links children) = true.
Proof.
  unfold file_links. induction 1 as [|m r Hm _ IH]; [reflexivity|]. cbn [map forallb l_target l_tsize]. destruct Hm as (_ & _ & _ & _ & Hst & Hts).
  rewrite Hst, Z.eqb_refl, Hts. cbn [andb]. exact IH.
Qed.

Lemma cum_size_pb d ls :
  cum_size (Pb d ls) = pb_len d ls + fold_right (fun l acc => cum_size (l_target l) + acc) 0 ls.
Proof. reflexivity. Qed.
Lemma tsizes_ok_pb d ls :
  tsizes_ok (Pb d ls) = forallb (fun l => match l_tsize l with Some z => Z.eqb z (Z.of_N (cum_size (l_target l))) | None => false end
                                          && tsizes_ok (l_target l)) ls.
Proof. reflexivity. Qed.

Lemma well_sized_pb_cons d l ls :
  well_sized (Pb d (l :: ls)) =
  match link_sizes (node_meta d) 0 (l :: ls) with
  | Ok sizes => list_eqb Z.eqb sizes (child_lens (l :: ls))
  | _ => false
  end
  && match node_length (Pb d (l :: ls)) with Ok n => Z.eqb n (zlen (children_content (l :: ls))) | _ => false end
  && forallb (fun l => well_sized (l_target l)) (l :: ls).
Proof. reflexivity. Qed.

Lemma node_length_pb_cons d l ls :
  node_length (Pb d (l :: ls)) =
  let from_links := match link_sizes (node_meta d) 0 (l :: ls) with
                    | Ok sizes => Ok (fold_right Z.add 0%Z sizes)
                    | Err e => Err e
                    | Panic => Err EOther
                    end in
  match node_meta d with
  | Some m => match d_filesize m with Some fs => Ok (i64 fs) | None => from_links end
  | None => from_links
  end.
Proof. reflexivity. Qed.

(* an interior node over finished subtrees is itself a finished subtree *)
Lemma mk_node_ok children :
  children <> [] -> Forall meta_ok children -> sumN (map m_bytes children) < bound63 ->
  meta_ok (mk_node children) /\ content (m_link (mk_node children)) = children_bytes children.
Proof.
  intros Hne Hok Hsum.
  assert (Hall : Forall (fun m => m_bytes m < bound63) children).
  { eapply Forall_impl; [|exact Hok]. intros m (_ & _ & H & _). exact H. }
  pose proof (node_meta_file_data children Hsum Hall) as Hmd.
  pose proof (link_sizes_file_links _ (map m_bytes children) [] children Hmd eq_refl Hok) as Hls. cbn [length] in Hls.
  destruct children as [|m0 rest]; [congruence|].
  assert (Hlink : m_link (mk_node (m0 :: rest)) = Pb (Some (file_data (m0 :: rest))) (file_links (m0 :: rest))) by reflexivity.
  assert (Hbytes : m_bytes (mk_node (m0 :: rest)) = sumN (map m_bytes (m0 :: rest))) by reflexivity.
  assert (Hstored : m_stored (mk_node (m0 :: rest)) =
                    sumN (map m_stored (m0 :: rest)) + pb_len (Some (file_data (m0 :: rest))) (file_links (m0 :: rest))) by reflexivity.
  assert (Hfl : file_links (m0 :: rest) = PLink (Some []) (Some (Z.of_N (m_stored m0))) (m_link m0) :: file_links rest) by reflexivity.
  assert (Hcont : content (Pb (Some (file_data (m0 :: rest))) (file_links (m0 :: rest))) = children_bytes (m0 :: rest)).
  { rewrite Hfl, content_pb, <- Hfl. apply children_content_links. }
  unfold meta_ok. rewrite Hlink, Hbytes, Hstored.
  split; [split; [|split; [|split; [|split; [|split]]]]|exact Hcont].
  - (* well_sized *)
    rewrite Hfl, well_sized_pb_cons, node_length_pb_cons, <- Hfl.
    rewrite Hls. rewrite (forallb_file_links_ws _ Hok), andb_true_r.
    apply andb_true_intro. split.
    + clear. induction (child_lens (file_links (m0 :: rest))); cbn; [reflexivity|]. rewrite Z.eqb_refl. auto.
    + rewrite Hmd. cbv zeta. cbn [d_filesize]. rewrite i64_small by exact Hsum.
      apply Z.eqb_eq.
      rewrite children_content_links, (children_bytes_len _ Hok), zlen_blen. reflexivity.
  - rewrite Hcont. apply children_bytes_len. exact Hok.
  - exact Hsum.
  - exact I.
  - rewrite cum_size_pb, (cum_size_links _ Hok). lia.
  - rewrite tsizes_ok_pb. apply tsizes_links. exact Hok.
Qed.
