From UV Require Import File.Builder File.Spec File.ReaderProofs Blocks.BlkProofs File.BuilderProofs.
From Coq Require Import ZifyBool ZifyNat ZifyN.
Local Open Scope N_scope.

Lemma blen_nil : blen [] = 0. Proof. reflexivity. Qed.
Lemma concat_app' {A} (a b : list (list A)) : concat (a ++ b) = concat a ++ concat b.
Proof. apply concat_app. Qed.

Lemma children_bytes_app a b : children_bytes (a ++ b) = children_bytes a ++ children_bytes b.
Proof. unfold children_bytes. rewrite map_app, concat_app. reflexivity. Qed.

Section Proofs.
  Variable W : nat.
  Hypothesis HW : (2 <= W)%nat.

  (* what a level of the recursion guarantees: it consumes a prefix of the chunks and returns a
     finished subtree over exactly those chunks, or nothing exactly at the end of the input *)
  Definition rec_ok (rec : list bytes -> res (option meta * list bytes)) : Prop :=
    forall src, blen (concat src) < bound63 ->
      exists r rest used, rec src = Ok (r, rest) /\ src = used ++ rest /\
        match r with
        | Some m => meta_ok m /\ content (m_link m) = concat used /\ used <> []
        | None => src = [] /\ used = []
        end.

  Lemma fill_ok rec : rec_ok rec -> forall n acc src,
    Forall meta_ok acc -> sumN (map m_bytes acc) + blen (concat src) < bound63 ->
    exists new rest used,
      fill rec n acc src = Ok (acc ++ new, rest) /\ src = used ++ rest /\ Forall meta_ok new
      /\ children_bytes new = concat used
      /\ (new = [] -> used = []) /\ (new = [] -> (1 <= n)%nat -> src = []) /\ (new <> [] -> used <> [])
      /\ (length new <= n)%nat.
  Proof.
    intros Hrec. induction n as [|n IH]; intros acc src Hacc Hb.
    - exists [], src, []. cbn. rewrite app_nil_r. repeat split; auto; try lia; try congruence.
    - cbn [fill].
      destruct (Hrec src ltac:(lia)) as (r & rest1 & used1 & Hr & Hsrc & Hcase). rewrite Hr.
      destruct r as [m|].
      + destruct Hcase as (Hm & Hcm & Hu1).
        assert (Hmb : m_bytes m = blen (concat used1)) by (destruct Hm as (_ & -> & _); rewrite Hcm; reflexivity).
        assert (Hb' : sumN (map m_bytes (acc ++ [m])) + blen (concat rest1) < bound63).
        { rewrite map_app, sumN_app. cbn [map sumN fold_right]. rewrite Hmb. subst src. rewrite concat_app, blen_app in Hb. lia. }
        destruct (IH (acc ++ [m]) rest1 ltac:(apply Forall_app; split; [exact Hacc|constructor; [exact Hm|constructor]]) Hb')
          as (new & rest & used & Hf & Hr1 & Hnew & Hcb & _ & _ & _ & Hlen).
        exists (m :: new), rest, (used1 ++ used). rewrite Hf, <- app_assoc. cbn [app].
        repeat split; try congruence.
        * subst. rewrite app_assoc. reflexivity.
        * constructor; assumption.
        * change (m :: new) with ([m] ++ new). rewrite children_bytes_app, concat_app, Hcb. unfold children_bytes. cbn. rewrite app_nil_r, Hcm. reflexivity.
        * intros _ E. apply app_eq_nil in E. destruct E; congruence.
        * cbn [length]. lia.
      + destruct Hcase as (-> & ->). exists [], rest1, []. rewrite app_nil_r. cbn in Hsrc. subst rest1.
        repeat split; auto; try congruence; cbn; lia.
  Qed.

  Lemma ftr_SS d seeded src :
    ftr W (S (S d)) seeded src =
    match fill (ftr W (S d) []) (W - length seeded) seeded src with
    | Ok (children, src') =>
      match children with
      | [] => Ok (None, src')
      | [c] => if Nat.eqb (length seeded) 1 then Ok (Some c, src') else Ok (Some (mk_node children), src')
      | _ => Ok (Some (mk_node children), src')
      end
    | Err e => Err e
    | Panic => Panic
    end.
  Proof. reflexivity. Qed.

  Lemma sum_children_bound new used src rest :
    Forall meta_ok new -> children_bytes new = concat used -> src = used ++ rest ->
    sumN (map m_bytes new) <= blen (concat src).
  Proof.
    intros Hn Hc ->. rewrite (children_bytes_len _ Hn), Hc, concat_app, blen_app. lia.
  Qed.

  (* every level, started without carried-over children *)
  Lemma ftr_fresh_ok d : (1 <= d)%nat -> rec_ok (ftr W d []).
  Proof.
    induction d as [|d IH]; intros Hd; [lia|].
    destruct d as [|d'].
    - (* leaves *)
      intros src Hb. destruct src as [|c r].
      + exists None, [], []. cbn. auto.
      + exists (Some (mk_leaf c)), r, [c]. cbn [ftr]. split; [reflexivity|]. split; [reflexivity|].
        split; [|split; [|congruence]].
        * apply mk_leaf_ok. cbn [concat] in Hb. rewrite blen_app in Hb. lia.
        * cbn. symmetry. apply app_nil_r.
    - intros src Hb. rewrite ftr_SS. cbn [length]. rewrite Nat.sub_0_r.
      destruct (fill_ok _ (IH ltac:(lia)) W [] src (Forall_nil _) ltac:(cbn; lia))
        as (new & rest & used & Hf & Hsrc & Hnew & Hcb & Hnil & Hnil' & Hne & Hlen).
      rewrite Hf. cbn [app].
      pose proof (sum_children_bound new used src rest Hnew Hcb Hsrc) as Hsum.
      destruct new as [|c [|c2 r]].
      + exists None, rest, used. split; [reflexivity|]. split; [exact Hsrc|]. split; [apply Hnil'; [reflexivity|lia]|apply Hnil; reflexivity].
      + cbn [Nat.eqb].
        destruct (mk_node_ok [c] ltac:(congruence) Hnew ltac:(lia)) as [Hok Hcont].
        exists (Some (mk_node [c])), rest, used. split; [reflexivity|]. split; [exact Hsrc|]. split; [exact Hok|]. split; [rewrite Hcont; exact Hcb|apply Hne; congruence].
      + destruct (mk_node_ok (c :: c2 :: r) ltac:(congruence) Hnew ltac:(lia)) as [Hok Hcont].
        exists (Some (mk_node (c :: c2 :: r))), rest, used. split; [reflexivity|]. split; [exact Hsrc|]. split; [exact Hok|]. split; [rewrite Hcont; exact Hcb|apply Hne; congruence].
  Qed.

  Lemma bsize_pb_first d n s t r : (bsize t < bsize (Pb d (PLink n s t :: r)))%nat.
  Proof. cbn. lia. Qed.

  Lemma mk_node_neq prev new : blk_eqb (m_link prev) (m_link (mk_node (prev :: new))) = false.
  Proof.
    destruct (blk_eqb (m_link prev) (m_link (mk_node (prev :: new)))) eqn:E; [|reflexivity].
    apply blk_eqb_eq in E. exfalso.
    assert (Hs : bsize (m_link prev) = bsize (m_link (mk_node (prev :: new)))) by (rewrite <- E; reflexivity).
    unfold mk_node, m_link in Hs. cbn [fst file_links map] in Hs.
    pose proof (bsize_pb_first (Some (file_data (prev :: new))) (Some []) (Some (Z.of_N (m_stored prev))) (fst (fst prev))
                               (map (fun m => PLink (Some []) (Some (Z.of_N (m_stored m))) (fst (fst m))) new)).
    unfold m_stored, m_link in *. lia.
  Qed.

  (* a level started with the previous root as its first child *)
  Lemma ftr_seeded_ok d prev src :
    meta_ok prev -> m_bytes prev + blen (concat src) < bound63 ->
    exists next rest used,
      ftr W (S (S d)) [prev] src = Ok (Some next, rest) /\ src = used ++ rest /\ meta_ok next
      /\ content (m_link next) = content (m_link prev) ++ concat used
      /\ (used = [] -> next = prev /\ src = [])
      /\ (used <> [] -> blk_eqb (m_link prev) (m_link next) = false).
  Proof.
    intros Hp Hb. rewrite ftr_SS. cbn [length].
    destruct (fill_ok _ (ftr_fresh_ok (S d) ltac:(lia)) (W - 1) [prev] src ltac:(constructor; [exact Hp|constructor]) ltac:(cbn; lia))
      as (new & rest & used & Hf & Hsrc & Hnew & Hcb & Hnil & Hnil' & Hne & Hlen).
    rewrite Hf. cbn [app].
    destruct new as [|c r].
    - cbn [Nat.eqb]. exists prev, rest, used.
      pose proof (Hnil eq_refl) as Hu. subst used. cbn [concat]. rewrite app_nil_r.
      split; [reflexivity|]. split; [exact Hsrc|]. split; [exact Hp|]. split; [reflexivity|].
      split; [intros _; split; [reflexivity|apply Hnil'; [reflexivity|lia]]|congruence].
    - assert (Hall : Forall meta_ok (prev :: c :: r)) by (constructor; assumption).
      pose proof (sum_children_bound (c :: r) used src rest Hnew Hcb Hsrc) as Hsum.
      assert (Hs : sumN (map m_bytes (prev :: c :: r)) < bound63).
      { cbn [map sumN fold_right] in *. lia. }
      destruct (mk_node_ok (prev :: c :: r) ltac:(congruence) Hall Hs) as [Hok Hcont].
      exists (mk_node (prev :: c :: r)), rest, used.
      split; [reflexivity|]. split; [exact Hsrc|]. split; [exact Hok|].
      split; [|split].
      + rewrite Hcont. change (prev :: c :: r) with ([prev] ++ c :: r). rewrite children_bytes_app, Hcb.
        unfold children_bytes. cbn. rewrite app_nil_r. reflexivity.
      + intros E. exfalso. apply Hne; [congruence|exact E].
      + intros _. apply mk_node_neq.
  Qed.

  Lemma build_loop_ok fuel : forall depth prev src,
    (2 <= depth)%nat -> meta_ok prev -> m_bytes prev + blen (concat src) < bound63 -> (length src < fuel)%nat ->
    exists root sz,
      build_loop W fuel depth prev src = Ok (root, sz)
      /\ content root = content (m_link prev) ++ concat src
      /\ well_sized root = true /\ sz = cum_size root /\ tsizes_ok root = true.
  Proof.
    induction fuel as [|f IH]; intros depth prev src Hd Hp Hb Hf; [lia|].
    destruct depth as [|[|d]]; try lia.
    cbn [build_loop].
    destruct (ftr_seeded_ok d prev src Hp Hb) as (next & rest & used & Hftr & Hsrc & Hnext & Hcont & Hnil & Hne).
    rewrite Hftr.
    destruct used as [|u us].
    - destruct (Hnil eq_refl) as [-> ->]. rewrite blk_eqb_refl.
      exists (m_link prev), (m_stored prev). destruct Hp as (Hw & _ & _ & _ & Hst & Hts).
      cbn [concat]. rewrite app_nil_r.
      split; [reflexivity|]. split; [reflexivity|]. split; [exact Hw|]. split; [exact Hst|exact Hts].
    - rewrite (Hne ltac:(congruence)).
      assert (Hb' : m_bytes next + blen (concat rest) < bound63).
      { destruct Hnext as (_ & -> & _). rewrite Hcont, !blen_app. destruct Hp as (_ & Hpb & _). rewrite <- Hpb.
        subst src. rewrite concat_app, blen_app in Hb. lia. }
      assert (Hlen : (length rest < f)%nat).
      { pose proof (f_equal (@length _) Hsrc) as Hl. rewrite app_length in Hl. cbn [length] in Hl. lia. }
      destruct (IH (S (S (S d))) next rest ltac:(lia) Hnext Hb' Hlen)
        as (root & sz & Hbl & Hc & Hw & Hsz & Hts).
      exists root, sz.
      split; [exact Hbl|]. split; [|split; [exact Hw|split; [exact Hsz|exact Hts]]].
      rewrite Hc, Hcont, <- app_assoc. subst src. rewrite concat_app. reflexivity.
  Qed.

  (* C01 (builder half), C11: for every chunk list the builder succeeds, the DAG denotes exactly
     the input, every declared size is the true one, the returned size is the cumulative size and
     every link carries the cumulative size of its target *)
  Theorem build_file_ok chunks :
    blen (concat chunks) < bound63 ->
    exists root sz,
      build_file W chunks = Ok (root, sz)
      /\ content root = concat chunks
      /\ well_sized root = true
      /\ sz = cum_size root
      /\ tsizes_ok root = true.
  Proof.
    intros Hb. destruct chunks as [|c r].
    - exists (Raw []), 0. cbn. split; [reflexivity|]. split; [reflexivity|]. split; [reflexivity|]. split; reflexivity.
    - cbn [build_file].
      assert (Hc : blen c < bound63) by (cbn [concat] in Hb; rewrite blen_app in Hb; lia).
      destruct (build_loop_ok (S (S (length r))) 2 (mk_leaf c) r ltac:(lia) (mk_leaf_ok c Hc)
                              ltac:(cbn [concat] in Hb; rewrite blen_app in Hb; unfold mk_leaf, m_bytes; cbn [fst snd]; lia) ltac:(lia))
        as (root & sz & Hbl & Hcont & Hw & Hsz & Hts).
      exists root, sz. split; [exact Hbl|]. split; [|split; [exact Hw|split; [exact Hsz|exact Hts]]].
      rewrite Hcont. cbn. reflexivity.
  Qed.
End Proofs.
