(* data/builder/file.go: BuildUnixFSFile / fileTreeRecursive / packFileChildren, and the reference
   balanced layout of boxo (importer/balanced) over the same block universe.
   Store failures are modelled separately (Build/Store.v); here every store succeeds. *)
From UV Require Export Blocks.PbLen Codec.Encode.
Local Open Scope N_scope.

(* fileShardMeta: link, byteSize, storedSize *)
Definition meta := (blk * N * N)%type.
Definition m_link (m : meta) : blk := fst (fst m).
Definition m_bytes (m : meta) : N := snd (fst m).
Definition m_stored (m : meta) : N := snd m.

Definition sumN (l : list N) : N := fold_right N.add 0 l.

Definition mk_leaf (c : bytes) : meta := (Raw c, blen c, blen c).

(* BuildUnixFS(FileSize, BlockSizes) encoded: type File, no Data *)
Definition file_data (children : list meta) : bytes :=
  encode_data (mk_ud Data_File None (Some (sumN (map m_bytes children))) (map m_bytes children) None None None None).

(* packFileChildren: unnamed ("" but present) links carrying the cumulative size *)
Definition file_links (children : list meta) : list plink :=
  map (fun m => PLink (Some []) (Some (Z.of_N (m_stored m))) (m_link m)) children.

Definition mk_node (children : list meta) : meta :=
  let d := file_data children in
  let ls := file_links children in
  (Pb (Some d) ls, sumN (map m_bytes children), sumN (map m_stored children) + pb_len (Some d) ls).

Section Builder.
  Variable W : nat.   (* DefaultLinksPerBlock *)

  (* the `for len(children) < DefaultLinksPerBlock` loop *)
  Fixpoint fill (rec : list bytes -> res (option meta * list bytes)) (n : nat) (acc : list meta) (src : list bytes)
    : res (list meta * list bytes) :=
    match n with
    | O => Ok (acc, src)
    | S n' =>
      match rec src with
      | Ok (Some m, src') => fill rec n' (acc ++ [m]) src'
      | Ok (None, src') => Ok (acc, src')
      | Err e => Err e
      | Panic => Panic
      end
    end.

  (* fileTreeRecursive; `None` is the shard with a nil link (end of input) *)
  Fixpoint ftr (depth : nat) (seeded : list meta) (src : list bytes) : res (option meta * list bytes) :=
    match depth with
    | O => Err EOther
    | S d =>
      match d with
      | O =>
        match seeded with
        | _ :: _ => Err EOther                     (* "leaf nodes cannot have children" *)
        | [] => match src with
                | [] => Ok (None, [])
                | c :: r => Ok (Some (mk_leaf c), r)
                end
        end
      | S _ =>
        match fill (ftr d []) (W - length seeded) seeded src with
        | Ok (children, src') =>
          match children with
          | [] => Ok (None, src')
          | [c] => if Nat.eqb (length seeded) 1 then Ok (Some c, src')     (* degenerate case: the seeded root stays *)
                   else Ok (Some (mk_node children), src')
          | _ => Ok (Some (mk_node children), src')
          end
        | Err e => Err e
        | Panic => Panic
        end
      end
    end.

  (* the depth-growing loop of BuildUnixFSFile, after the first (leaf) iteration *)
  Fixpoint build_loop (fuel depth : nat) (prev : meta) (src : list bytes) : res (blk * N) :=
    match fuel with
    | O => Err EOther
    | S f =>
      match ftr depth [prev] src with
      | Ok (Some next, src') =>
        if blk_eqb (m_link prev) (m_link next) then Ok (m_link next, m_stored next)
        else build_loop f (S depth) next src'
      | Ok (None, _) => Err EOther
      | Err e => Err e
      | Panic => Panic
      end
    end.

  (* empty input: depth 1 yields the nil shard, depth 2 hands it back unchanged, and the empty raw
     leaf is stored with size 0 *)
  Definition build_file (chunks : list bytes) : res (blk * N) :=
    match chunks with
    | [] => Ok (Raw [], 0)
    | c :: r => build_loop (S (S (length r))) 2 (mk_leaf c) r
    end.

  (* ---- boxo importer/balanced.Layout with raw leaves ---- *)
  Fixpoint rfill (rec : list bytes -> meta * list bytes) (n : nat) (acc : list meta) (src : list bytes)
    : list meta * list bytes :=
    match n with
    | O => (acc, src)
    | S n' =>
      match src with
      | [] => (acc, src)                               (* db.Done() *)
      | _ => let '(m, src') := rec src in rfill rec n' (acc ++ [m]) src'
      end
    end.

  Definition rleaf (src : list bytes) : meta * list bytes :=
    match src with [] => (mk_leaf [], []) | c :: r => (mk_leaf c, r) end.

  (* fillNodeRec *)
  Fixpoint fill_node_rec (depth : nat) (seeded : list meta) (src : list bytes) : meta * list bytes :=
    match depth with
    | O => (mk_node seeded, src)
    | S d =>
      let '(children, src') :=
          rfill (match d with O => rleaf | S _ => fill_node_rec d [] end) (W - length seeded) seeded src in
      (mk_node children, src')
    end.

  Fixpoint layout_loop (fuel depth : nat) (root : meta) (src : list bytes) : meta :=
    match src with
    | [] => root
    | _ =>
      match fuel with
      | O => root
      | S f => let '(r', src') := fill_node_rec depth [root] src in layout_loop f (S depth) r' src'
      end
    end.

  Definition ref_layout (chunks : list bytes) : blk * N :=
    match chunks with
    | [] => (Raw [], 0)
    | c :: r => let m := layout_loop (S (length r)) 1 (mk_leaf c) r in (m_link m, m_stored m)
    end.
End Builder.

(* size-K splitter over a byte string: io.ReadFull-sized chunks, last one short, never empty *)
Fixpoint split_size (fuel : nat) (k : nat) (bs : bytes) : list bytes :=
  match fuel with
  | O => []
  | S f => match bs with
           | [] => []
           | _ => firstn k bs :: split_size f k (skipn k bs)
           end
  end.
