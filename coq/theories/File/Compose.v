(* compositions used by the property files *)
From UV Require Import File.Builder File.Spec File.ReaderProofs File.ReaderProofs2 File.ReaderProofs3 File.ReaderProofs4
     File.BuilderProofs File.BuilderProofs2 File.BuilderProofs3.
Local Open Scope Z_scope.

Lemma drain_all_clean s : sclean s = true -> drain_all s [] [] = (sbytes s, sloads s, StEOF).
Proof.
  intros H. assert (G : forall acc loads, drain_all s acc loads = (acc ++ sbytes s, loads ++ sloads s, StEOF)).
  { induction s as [|x k IH|x k IH|x e|e]; intros acc loads; cbn in *; try discriminate.
    - rewrite !app_nil_r. reflexivity.
    - rewrite IH by exact H. rewrite <- app_assoc. reflexivity.
    - rewrite IH by exact H. rewrite <- app_assoc. reflexivity. }
  apply G.
Qed.

(* reading any DAG whose declared sizes are true *)
Theorem read_well_sized b : well_sized b = true ->
  (* whole value (io.ReadAll over a fresh reader), with the blocks requested in depth-first order *)
  fst (fst (drain_all (stream nofault b 0) [] [])) = content b
  /\ snd (drain_all (stream nofault b 0) [] []) = StEOF
  (* any history of Seek / Read with any buffer sizes *)
  /\ (forall ops, map forget_loads (reader_run nofault b rs0 ops) = abs_run (content b) 0 ops)
  (* the reported length *)
  /\ node_length b = Ok (zlen (content b)).
Proof.
  intros Hw. destruct (stream_content b Hw 0 ltac:(lia)) as [Hb Hc].
  rewrite drain_all_clean by exact Hc. cbn [fst snd]. rewrite Hb, skipz_nonpos by lia.
  split; [reflexivity|]. split; [reflexivity|]. split; [intros ops; apply reader_refines_fresh; exact Hw|apply node_length_ok; exact Hw].
Qed.

Theorem build_read_roundtrip (W : nat) (chunks : list bytes) :
  (2 <= W)%nat -> (blen (concat chunks) < bound63)%N ->
  exists root sz,
    build_file W chunks = Ok (root, sz)
    /\ fst (fst (drain_all (stream nofault root 0) [] [])) = concat chunks
    /\ snd (drain_all (stream nofault root 0) [] []) = StEOF
    /\ (forall ops, map forget_loads (reader_run nofault root rs0 ops) = abs_run (concat chunks) 0 ops)
    /\ node_length root = Ok (zlen (concat chunks)).
Proof.
  intros HW Hb. destruct (build_file_ok W HW chunks Hb) as (root & sz & Hbuild & Hc & Hw & _).
  exists root, sz. rewrite <- Hc. split; [exact Hbuild|apply read_well_sized; exact Hw].
Qed.
