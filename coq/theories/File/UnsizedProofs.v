(* The reader extended to children without declared sizes (File/Unsized.v):
   - it is the reader of File/Reader.v wherever that one is defined (sizes declared and true);
   - a DAG whose declared-or-measured sizes are true reads back to its content, from any offset, and reports its
     length; every Seek/Read history over it refines the abstract ReadSeeker. *)
From UV Require Import File.Spec File.ReaderProofs File.ReaderProofs2 File.ReaderProofs3 File.Unsized.
From Coq Require Import ZifyBool ZifyNat.
Local Open Scope Z_scope.

Lemma ustream_pb fault d l ls off :
  ustream fault (Pb d (l :: ls)) off =
  match ulink_sizes fault (usize fault) (node_meta d) 0 (l :: ls) with
  | Err e => SErr (match seek_fault fault (node_meta d) off 0 (l :: ls) (usizes_prefix fault (usize fault) (node_meta d) 0 (l :: ls)) 0 with
                   | Some e' => e'
                   | None => e
                   end)
  | Panic => SErr EOther
  | Ok sizes => go_links fault (ustream fault) off (l :: ls) sizes 0
  end.
Proof. reflexivity. Qed.

Lemma seek_fault_witness fault md off ls : forall i sizes at_ e,
  seek_fault fault md off i ls sizes at_ = Some e -> exists t, In t (map l_target ls) /\ fault t = Some e.
Proof.
  induction ls as [|[n ts t] r IH]; intros i sizes at_ e H; [discriminate|].
  destruct sizes as [|sz sr]; [discriminate|]. cbn [seek_fault] in H.
  destruct (at_ + sz <=? off).
  - destruct (IH (S i) sr (at_ + sz) e H) as (x & Hx & Hf). exists x. split; [right; exact Hx|exact Hf].
  - destruct ((at_ <? off) && negb (measured md i t)); [|discriminate]. exists t. split; [left; reflexivity|exact H].
Qed.

Lemma go_links_ext fault (r1 r2 : blk -> Z -> strm) off ls : forall sizes at_,
  Forall (fun l => forall o, r1 (l_target l) o = r2 (l_target l) o) ls ->
  go_links fault r1 off ls sizes at_ = go_links fault r2 off ls sizes at_.
Proof.
  induction ls as [|[n ts t] r IH]; intros sizes at_ HF; [reflexivity|].
  inversion HF as [|? ? Ht Hr]; subst. cbn [l_target] in Ht.
  destruct sizes as [|sz sr]; [reflexivity|]. cbn [go_links].
  destruct (at_ + sz <=? off); [apply IH; exact Hr|].
  destruct (fault t); [reflexivity|]. rewrite Ht, (IH sr (at_ + sz) Hr). reflexivity.
Qed.

(* ---- where the sizes are declared, nothing is measured ---- *)
Lemma link_size_ulink fault opened md i l z :
  link_size md i l = Ok z -> ulink_size fault opened md i l = Ok z.
Proof.
  destruct l as [n ts [c|d' ls'|x y]]; cbn [link_size ulink_size]; intros H; try discriminate; [exact H|].
  destruct md as [m|]; [|discriminate]. destruct (nth_error (d_blocksizes m) i); [exact H|discriminate].
Qed.

Lemma link_sizes_ulink fault opened md ls : forall i sizes,
  link_sizes md i ls = Ok sizes -> ulink_sizes fault opened md i ls = Ok sizes.
Proof.
  induction ls as [|l r IH]; intros i sizes H; cbn [link_sizes ulink_sizes] in *; [exact H|].
  destruct (link_size md i l) as [z| |] eqn:El; try discriminate. cbn [bind] in H.
  rewrite (link_size_ulink fault opened md i l z El). cbn [bind].
  destruct (link_sizes md (S i) r) as [rest| |] eqn:Er; try discriminate. cbn [bind] in H.
  rewrite (IH (S i) rest Er). cbn [bind]. exact H.
Qed.

Lemma node_length_pb d l ls :
  node_length (Pb d (l :: ls)) =
  let from_links := match link_sizes (node_meta d) 0 (l :: ls) with
                    | Ok sizes => Ok (fold_right Z.add 0 sizes)
                    | Err e => Err e
                    | Panic => Err EOther
                    end in
  match node_meta d with
  | Some m => match d_filesize m with Some fs => Ok (i64 fs) | None => from_links end
  | None => from_links
  end.
Proof. reflexivity. Qed.

Theorem ustream_extends fault b : well_sized b = true ->
  (forall off, ustream fault b off = stream fault b off) /\ usize fault b = node_length b.
Proof.
  induction b as [c|i n|d ls IH] using blk_ind'; intros Hw.
  - split; reflexivity.
  - discriminate.
  - destruct ls as [|l ls]; [split; reflexivity|].
    rewrite well_sized_unfold in Hw.
    apply andb_prop in Hw. destruct Hw as [Hw Hkids]. apply andb_prop in Hw. destruct Hw as [Hsz _].
    destruct (link_sizes (node_meta d) 0 (l :: ls)) as [sizes| |] eqn:Els; try discriminate.
    pose proof (link_sizes_ulink fault (usize fault) (node_meta d) (l :: ls) 0%nat sizes Els) as Hu.
    split.
    + intros off. rewrite ustream_pb, stream_pb, Hu, Els. apply go_links_ext.
      rewrite forallb_forall in Hkids. rewrite Forall_forall in IH |- *.
      intros x Hx o. apply (IH x Hx (Hkids x Hx)).
    + rewrite usize_pb, node_length_pb, Hu, Els. reflexivity.
Qed.

(* ---- true sizes, declared or measured: the content, from any offset ---- *)
Lemma go_links_content_gen (rec : blk -> Z -> strm) (P : blk -> bool) off ls : forall at_,
  Forall (fun l => P (l_target l) = true ->
                   forall o, 0 <= o -> sbytes (rec (l_target l) o) = skipz o (content (l_target l))
                                       /\ sclean (rec (l_target l) o) = true) ls ->
  forallb (fun l => P (l_target l)) ls = true ->
  sbytes (go_links nofault rec off ls (child_lens ls) at_) = skipz (off - at_) (children_content ls)
  /\ sclean (go_links nofault rec off ls (child_lens ls) at_) = true.
Proof.
  induction ls as [|[n ts t] r IH]; intros at_ HF Hws.
  - cbn. split; [|reflexivity]. unfold skipz. destruct (off - at_ <=? 0); [reflexivity|]. destruct (zlen (@nil N) <=? off - at_); [reflexivity|]. rewrite skipn_nil. reflexivity.
  - inversion HF as [|? ? Ht Hr]; subst. cbn [forallb l_target] in Hws. apply andb_prop in Hws. destruct Hws as [Hwt Hwr].
    cbn [l_target] in Ht. specialize (Ht Hwt).
    cbn [child_lens map l_target go_links]. fold (child_lens r).
    change (children_content (PLink n ts t :: r)) with (content t ++ children_content r).
    destruct (Z.leb_spec (at_ + zlen (content t)) off) as [Hskip|Hin].
    + destruct (IH (at_ + zlen (content t)) Hr Hwr) as [Hb Hc]. split; [|exact Hc].
      rewrite Hb. rewrite skipz_app_ge by lia. f_equal. lia.
    + change (nofault t) with (@None err). cbv iota. cbn [sbytes sclean].
      destruct (Ht (Z.max 0 (off - at_)) ltac:(lia)) as [Hbt Hct].
      destruct (IH (at_ + zlen (content t)) Hr Hwr) as [Hb Hc].
      rewrite sbytes_sapp by exact Hct. rewrite sclean_sapp, Hct, Hc. split; [|reflexivity].
      rewrite Hbt, Hb, skipz_max. rewrite (skipz_nonpos (off - (at_ + zlen (content t)))) by lia.
      rewrite skipz_app_lt by lia. reflexivity.
Qed.

Lemma uwell_unfold d l ls :
  uwell (Pb d (l :: ls)) =
  match ulink_sizes nofault (usize nofault) (node_meta d) 0 (l :: ls) with
  | Ok sizes => list_eqb Z.eqb sizes (child_lens (l :: ls))
  | _ => false
  end
  && match usize nofault (Pb d (l :: ls)) with Ok n => Z.eqb n (zlen (children_content (l :: ls))) | _ => false end
  && forallb (fun l => uwell (l_target l)) (l :: ls).
Proof. reflexivity. Qed.

Theorem ustream_content b : uwell b = true ->
  forall off, 0 <= off ->
    sbytes (ustream nofault b off) = skipz off (content b) /\ sclean (ustream nofault b off) = true.
Proof.
  induction b as [c|i n|d ls IH] using blk_ind'; intros Hw off Hoff.
  - cbn. rewrite app_nil_r. split; reflexivity.
  - discriminate.
  - destruct ls as [|l ls].
    + cbn in *. destruct (wrapped_bytes d); try discriminate. cbn. rewrite app_nil_r. split; reflexivity.
    + rewrite ustream_pb. rewrite uwell_unfold in Hw.
      apply andb_prop in Hw. destruct Hw as [Hw Hkids]. apply andb_prop in Hw. destruct Hw as [Hsz Hlen].
      destruct (ulink_sizes nofault (usize nofault) (node_meta d) 0 (l :: ls)) as [sizes| |]; try discriminate.
      apply list_eqb_Z_eq in Hsz. subst sizes.
      rewrite content_pb.
      destruct (go_links_content_gen (ustream nofault) uwell off (l :: ls) 0 IH Hkids) as [Hb Hc].
      rewrite Hb, Hc. rewrite Z.sub_0_r. split; reflexivity.
Qed.

Lemma usize_ok b : uwell b = true -> usize nofault b = Ok (zlen (content b)).
Proof.
  destruct b as [c|d ls|i n]; cbn [uwell]; intros H; try discriminate; [reflexivity|].
  destruct ls as [|l ls].
  - cbn in *. destruct (wrapped_bytes d); try discriminate. reflexivity.
  - apply andb_prop in H. destruct H as [H _]. apply andb_prop in H. destruct H as [_ H].
    destruct (usize nofault (Pb d (l :: ls))) as [n| |]; try discriminate.
    apply Z.eqb_eq in H. subst n. reflexivity.
Qed.

(* a DAG with declared true sizes is one with true sizes *)
Lemma well_sized_uwell b : well_sized b = true -> uwell b = true.
Proof.
  induction b as [c|i n|d ls IH] using blk_ind'; intros Hw; [reflexivity|discriminate|].
  destruct ls as [|l ls]; [exact Hw|].
  pose proof (ustream_extends nofault (Pb d (l :: ls)) Hw) as [_ Hlen].
  rewrite well_sized_unfold in Hw. rewrite uwell_unfold.
  apply andb_prop in Hw. destruct Hw as [Hw Hkids]. apply andb_prop in Hw. destruct Hw as [Hsz Hl].
  destruct (link_sizes (node_meta d) 0 (l :: ls)) as [sizes| |] eqn:Els; try discriminate.
  rewrite (link_sizes_ulink nofault (usize nofault) (node_meta d) (l :: ls) 0%nat sizes Els), Hsz, Hlen, Hl.
  cbn [andb]. rewrite forallb_forall in Hkids |- *. rewrite Forall_forall in IH.
  intros x Hx. apply (IH x Hx (Hkids x Hx)).
Qed.

(* ---- histories ---- *)
Lemma ureader_step_refines root st op :
  uwell root = true -> rinv (content root) st ->
  let '(st', o) := ureader_step nofault root st op in
  let '(pos', a) := abs_step (content root) (r_off st) op in
  forget_loads o = a /\ r_off st' = pos' /\ rinv (content root) st'.
Proof.
  intros Hw [Hoff Hr]. set (c := content root) in *.
  destruct op as [off whence|k].
  - cbn [ureader_step abs_step]. rewrite (usize_ok root Hw). fold c. cbn [bind].
    destruct (whence =? 0)%N; [|destruct (whence =? 1)%N; [|destruct (whence =? 2)%N]];
      match goal with |- context [if ?t <? 0 then _ else _] => destruct (Z.ltb_spec t 0) end;
      unfold rinv; cbn [forget_loads r_off r_rdr]; repeat split; auto; try lia.
  - cbn [ureader_step abs_step].
    set (s := match r_rdr st with Some s => s | None => ustream nofault root (r_off st) end).
    assert (Hs : sview s = (skipz (r_off st) c, StEOF)).
    { subst s. destruct (r_rdr st) as [s|]; [exact Hr|].
      destruct (ustream_content root Hw (r_off st) Hoff) as [Hb Hc]. rewrite sview_clean by exact Hc. rewrite Hb. reflexivity. }
    destruct (Z.leb_spec k 0) as [Hk|Hk].
    + assert (Ht : take s k [] [] = ([], [], StOk, s)).
      { destruct s; cbn; destruct (Z.leb_spec k 0); try lia; reflexivity. }
      rewrite Ht. unfold rinv; cbn [forget_loads r_off r_rdr]. unfold zlen. cbn [length Z.of_nat]. rewrite Z.add_0_r. repeat split; auto.
    + pose proof (take_view s k [] [] Hk) as Htv.
      destruct (take s k [] []) as [[[bs l] stt] s']. rewrite Hs in Htv.
      cbn [forget_loads r_off r_rdr app] in *.
      destruct (Z.leb_spec k (zlen (skipz (r_off st) c))) as [Hle|Hgt].
      * destruct Htv as (-> & -> & Hv). rewrite zlen_firstz by lia. unfold rinv; cbn [r_off r_rdr]. repeat split; try lia.
        rewrite Hv. rewrite skipz_skipz by lia. reflexivity.
      * destruct Htv as (-> & -> & Hv). unfold rinv; cbn [r_off r_rdr]. repeat split; try (pose proof (zlen_nonneg (skipz (r_off st) c)); lia).
        rewrite Hv. f_equal. symmetry. apply skipz_all.
        rewrite zlen_skipz by lia. pose proof (zlen_nonneg c). lia.
Qed.

Theorem ureader_refines root : uwell root = true ->
  forall ops st, rinv (content root) st ->
    map forget_loads (ureader_run nofault root st ops) = abs_run (content root) (r_off st) ops.
Proof.
  intros Hw. induction ops as [|op ops IH]; intros st Hi; [reflexivity|].
  cbn [ureader_run abs_run].
  pose proof (ureader_step_refines root st op Hw Hi) as Hs.
  destruct (ureader_step nofault root st op) as [st' o].
  destruct (abs_step (content root) (r_off st) op) as [pos' a].
  destruct Hs as (Ho & Hp & Hi'). cbn [map]. rewrite Ho, <- Hp. f_equal. apply IH. exact Hi'.
Qed.

Corollary ureader_refines_fresh root ops : uwell root = true ->
  map forget_loads (ureader_run nofault root rs0 ops) = abs_run (content root) 0 ops.
Proof. intros Hw. apply (ureader_refines root Hw ops rs0 (rinv_rs0 _)). Qed.
