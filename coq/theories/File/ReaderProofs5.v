(* C05 (files): reading bytes [a, a+k) requests only blocks whose byte span meets [a, a+k). *)
From UV Require Import File.Spec File.ReaderProofs File.ReaderProofs2 File.ReaderProofs3.
From Coq Require Import ZifyBool ZifyNat.
Local Open Scope Z_scope.

(* byte spans of the blocks of the unfolded tree, the block itself first *)
Fixpoint spans (b : blk) (start : Z) : list (blk * Z * Z) :=
  (b, start, start + zlen (content b)) ::
  match b with
  | Pb _ ls =>
    (fix go (ls : list plink) (at_ : Z) : list (blk * Z * Z) :=
       match ls with
       | [] => []
       | PLink _ _ t :: r => spans t at_ ++ go r (at_ + zlen (content t))
       end) ls start
  | _ => []
  end.

Definition spans_links :=
  fix go (ls : list plink) (at_ : Z) : list (blk * Z * Z) :=
    match ls with
    | [] => []
    | PLink _ _ t :: r => spans t at_ ++ go r (at_ + zlen (content t))
    end.

Lemma spans_pb d ls start :
  spans (Pb d ls) start = (Pb d ls, start, start + zlen (content (Pb d ls))) :: spans_links ls start.
Proof. reflexivity. Qed.

(* the requests of a stream with the absolute position at which each is issued *)
Fixpoint lpos (s : strm) (base : Z) : list (blk * Z) :=
  match s with
  | SLoad b k => (b, base) :: lpos k base
  | SBytes x k => lpos k (base + zlen x)
  | SFail b _ => [(b, base)]
  | _ => []
  end.

Lemma lpos_sapp a b base : sclean a = true ->
  lpos (sapp a b) base = lpos a base ++ lpos b (base + zlen (sbytes a)).
Proof.
  revert base; induction a as [|x k IH|x k IH|x e|e]; intros base H; cbn in *; try discriminate.
  - unfold zlen. cbn. rewrite Z.add_0_r. reflexivity.
  - rewrite IH by exact H. reflexivity.
  - rewrite IH by exact H. rewrite zlen_app, Z.add_assoc. reflexivity.
Qed.

Definition shift3 (d : Z) (x : blk * Z * Z) : blk * Z * Z := let '(b, s, e) := x in (b, s + d, e + d).

Lemma spans_shift b : forall start d, spans b (start + d) = map (shift3 d) (spans b start).
Proof.
  induction b as [c|i n|dd ls IH] using blk_ind'; intros start d.
  - cbn. f_equal. f_equal; lia.
  - cbn. f_equal. f_equal; lia.
  - rewrite !spans_pb. cbn [map shift3]. f_equal; [f_equal; lia|].
    revert start. induction IH as [|[n ts t] r Ht _ IHr]; intros start; [reflexivity|].
    cbn [spans_links]. rewrite map_app. cbn [l_target] in Ht. rewrite Ht. f_equal.
    replace (start + d + zlen (content t)) with (start + zlen (content t) + d) by lia. apply IHr.
Qed.

(* where the requests of a fault-free stream from offset off lie *)
Definition placed (off : Z) (sp : list (blk * Z * Z)) (cp : blk * Z) : Prop :=
  exists s e, In (fst cp, s, e) sp /\ snd cp = Z.max s off /\ off < e /\ s < e /\ 0 <= s.

Lemma go_links_lpos off ls : forall at_, 0 <= at_ -> 0 <= off ->
  Forall (fun l => well_sized (l_target l) = true -> pos_sized (l_target l) = true ->
                   forall o, 0 <= o -> Forall (placed o (spans (l_target l) 0)) (lpos (stream nofault (l_target l) o) o)) ls ->
  forallb (fun l => well_sized (l_target l)) ls = true ->
  forallb (fun l => (0 <? zlen (content (l_target l))) && pos_sized (l_target l)) ls = true ->
  Forall (placed off (spans_links ls at_))
         (lpos (go_links nofault (stream nofault) off ls (child_lens ls) at_) (Z.max at_ off)).
Proof.
  induction ls as [|[n ts t] r IH]; intros at_ Hat Hoff HF Hws Hps; [constructor|].
  inversion HF as [|? ? Ht Hr]; subst. cbn [l_target] in Ht.
  cbn [forallb l_target] in Hws, Hps. apply andb_prop in Hws. destruct Hws as [Hwt Hwr].
  apply andb_prop in Hps. destruct Hps as [Hpt Hpr]. apply andb_prop in Hpt. destruct Hpt as [Hlen Hpt].
  apply Z.ltb_lt in Hlen.
  cbn [child_lens map l_target go_links spans_links]. fold (child_lens r).
  destruct (Z.leb_spec (at_ + zlen (content t)) off) as [Hskip|Hin].
  - (* skipped: never requested *)
    specialize (IH (at_ + zlen (content t)) ltac:(lia) Hoff Hr Hwr Hpr).
    replace (Z.max (at_ + zlen (content t)) off) with (Z.max at_ off) in IH by lia.
    eapply Forall_impl; [|exact IH]. intros cp (s & e & Hi & Hp & Ho & Hse & Hs0).
    exists s, e. split; [apply in_or_app; right; exact Hi|auto].
  - change (nofault t) with (@None err). cbv iota. cbn [lpos].
    set (o := Z.max 0 (off - at_)).
    destruct (stream_content t Hwt o ltac:(subst o; lia)) as [Hb Hc].
    rewrite lpos_sapp by exact Hc. constructor; [|apply Forall_app; split].
    + (* the child itself *)
      exists at_, (at_ + zlen (content t)). cbn [fst snd]. split; [|lia].
      apply in_or_app; left. destruct t; cbn; left; reflexivity.
    + (* requests inside the child: shift the child's own placement by at_ *)
      specialize (Ht Hwt Hpt o ltac:(subst o; lia)).
      replace (Z.max at_ off) with (o + at_) by (subst o; lia).
      assert (Hshift : forall s base d, lpos s (base + d) = map (fun cp => (fst cp, snd cp + d)) (lpos s base)).
      { clear. induction s as [|x k IH|x k IH|x e|e]; intros base d; cbn; auto.
        - rewrite IH. reflexivity.
        - replace (base + d + zlen x) with (base + zlen x + d) by lia. apply IH. }
      rewrite Hshift. rewrite Forall_map. eapply Forall_impl; [|exact Ht].
      intros [c p] (s & e & Hi & Hp & Ho & Hse & Hs0). cbn [fst snd] in *.
      exists (s + at_), (e + at_). cbn [fst snd]. split; [|subst o; lia].
      apply in_or_app; left.
      assert (Hsp : spans t at_ = map (shift3 at_) (spans t 0)) by (rewrite <- (spans_shift t 0 at_); f_equal; lia).
      rewrite Hsp.
      apply in_map_iff. exists (c, s, e). split; [reflexivity|exact Hi].
    + (* the remaining children *)
      specialize (IH (at_ + zlen (content t)) ltac:(lia) Hoff Hr Hwr Hpr).
      rewrite Hb. replace (Z.max at_ off + zlen (skipz o (content t))) with (Z.max (at_ + zlen (content t)) off)
        by (rewrite zlen_skipz by (subst o; lia); subst o; lia).
      eapply Forall_impl; [|exact IH]. intros cp (s & e & Hi & Hp & Ho & Hse & Hs0).
      exists s, e. split; [apply in_or_app; right; exact Hi|auto].
Qed.

Theorem stream_lpos b : well_sized b = true -> pos_sized b = true ->
  forall off, 0 <= off -> Forall (placed off (spans b 0)) (lpos (stream nofault b off) off).
Proof.
  induction b as [c|i n|d ls IH] using blk_ind'; intros Hw Hp off Hoff.
  - cbn. constructor.
  - discriminate.
  - destruct ls as [|l ls].
    + cbn in *. destruct (wrapped_bytes d); try discriminate; cbn; constructor.
    + rewrite stream_pb. rewrite well_sized_unfold in Hw.
      apply andb_prop in Hw. destruct Hw as [Hw Hkids]. apply andb_prop in Hw. destruct Hw as [Hsz _].
      destruct (link_sizes (node_meta d) 0 (l :: ls)) as [sizes| |]; try discriminate.
      apply list_eqb_Z_eq in Hsz. subst sizes. cbn [pos_sized] in Hp.
      pose proof (go_links_lpos off (l :: ls) 0 ltac:(lia) Hoff IH Hkids Hp) as H.
      rewrite Z.max_r in H by lia. rewrite spans_pb.
      eapply Forall_impl; [|exact H]. intros cp (s & e & Hi & Hq).
      exists s, e. split; [right; exact Hi|exact Hq].
Qed.

(* a Read of k bytes only issues the requests placed before base + k *)
Lemma take_loads s : forall k acc loads base,
  let '(_, l, _, _) := take s k acc loads in
  exists new, l = loads ++ new /\ forall c, In c new -> exists p, In (c, p) (lpos s base) /\ p < base + k.
Proof.
  induction s as [|x s IH|x s IH|x e|e]; intros k acc loads base; cbn [take].
  - destruct (k <=? 0); exists []; rewrite app_nil_r; (split; [reflexivity|intros c []]).
  - destruct (Z.leb_spec k 0); [exists []; rewrite app_nil_r; split; [reflexivity|intros c []]|].
    specialize (IH k acc (loads ++ [x]) base). destruct (take s k acc (loads ++ [x])) as [[[bs l] st] s'].
    destruct IH as (new & -> & Hn). exists (x :: new). rewrite <- app_assoc. split; [reflexivity|].
    intros c [<-|Hc]; cbn [lpos].
    + exists base. split; [left; reflexivity|lia].
    + destruct (Hn c Hc) as (p & Hi & Hp). exists p. split; [right; exact Hi|exact Hp].
  - destruct (Z.leb_spec k 0); [exists []; rewrite app_nil_r; split; [reflexivity|intros c []]|].
    destruct (Z.leb_spec (zlen x) k).
    + specialize (IH (k - zlen x) (acc ++ x) loads (base + zlen x)).
      destruct (take s (k - zlen x) (acc ++ x) loads) as [[[bs l] st] s'].
      destruct IH as (new & -> & Hn). exists new. split; [reflexivity|].
      intros c Hc. destruct (Hn c Hc) as (p & Hi & Hp). exists p. cbn [lpos]. split; [exact Hi|lia].
    + exists []. rewrite app_nil_r. split; [reflexivity|intros c []].
  - destruct (Z.leb_spec k 0); [exists []; rewrite app_nil_r; split; [reflexivity|intros c []]|].
    exists [x]. split; [reflexivity|]. intros c [<-|[]]. exists base. cbn. split; [left; reflexivity|lia].
  - destruct (k <=? 0); exists []; rewrite app_nil_r; (split; [reflexivity|intros c []]).
Qed.

(* C05 (files): Seek(a) then reading k bytes requests only blocks whose byte span meets [a, a+k) *)
Theorem range_loads b : well_sized b = true -> pos_sized b = true ->
  forall a k, 0 <= a ->
    let '(_, loads, _, _) := take (stream nofault b a) k [] [] in
    forall c, In c loads -> exists s e, In (c, s, e) (spans b 0) /\ s < a + k /\ a < e.
Proof.
  intros Hw Hp a k Ha.
  pose proof (take_loads (stream nofault b a) k [] [] a) as Ht.
  destruct (take (stream nofault b a) k [] []) as [[[bs l] st] s'].
  destruct Ht as (new & -> & Hn). cbn [app]. intros c Hc.
  destruct (Hn c Hc) as (p & Hi & Hpk).
  pose proof (stream_lpos b Hw Hp a Ha) as Hall. rewrite Forall_forall in Hall.
  destruct (Hall (c, p) Hi) as (s & e & Hin & Hq & Hae & Hse & Hs0). cbn [fst snd] in *.
  exists s, e. split; [exact Hin|lia].
Qed.
