From UV Require Import File.Spec.
From Coq Require Import ZifyBool ZifyNat.
Local Open Scope Z_scope.

(* ---------- list helpers over Z positions ---------- *)
Lemma zlen_app {A} (a b : list A) : zlen (a ++ b) = zlen a + zlen b.
Proof. unfold zlen. rewrite app_length. lia. Qed.
Lemma zlen_nonneg {A} (a : list A) : 0 <= zlen a.
Proof. unfold zlen. lia. Qed.

Lemma skipz_nonpos {A} off (l : list A) : off <= 0 -> skipz off l = l.
Proof. intros H. unfold skipz. destruct (Z.leb_spec off 0); [reflexivity|lia]. Qed.

Lemma skipz_all {A} off (l : list A) : zlen l <= off -> skipz off l = [].
Proof.
  intros H. unfold skipz. destruct (Z.leb_spec off 0).
  - assert (zlen l = 0) by (pose proof (zlen_nonneg l); lia). destruct l; [reflexivity|]. unfold zlen in *. cbn in *. lia.
  - destruct (Z.leb_spec (zlen l) off); [reflexivity|lia].
Qed.

Lemma skipz_max {A} off (l : list A) : skipz (Z.max 0 off) l = skipz off l.
Proof.
  destruct (Z.le_ge_cases off 0).
  - rewrite Z.max_l by lia. rewrite !skipz_nonpos by lia. reflexivity.
  - rewrite Z.max_r by lia. reflexivity.
Qed.

Lemma skipz_app_ge {A} off (a b : list A) : zlen a <= off -> skipz off (a ++ b) = skipz (off - zlen a) b.
Proof.
  intros H. unfold skipz. rewrite zlen_app.
  destruct (Z.leb_spec off 0).
  - assert (zlen a = 0) by (pose proof (zlen_nonneg a); lia).
    destruct a; [|unfold zlen in *; cbn in *; lia].
    cbn. destruct (Z.leb_spec (off - 0) 0); [reflexivity|lia].
  - destruct (Z.leb_spec (off - zlen a) 0).
    + destruct (Z.leb_spec (zlen a + zlen b) off).
      * assert (zlen b = 0) by (pose proof (zlen_nonneg b); lia).
        destruct b; [reflexivity|unfold zlen in *; cbn in *; lia].
      * assert (off = zlen a) by lia. subst off. unfold zlen. rewrite Nat2Z.id.
        rewrite skipn_app, skipn_all, Nat.sub_diag. reflexivity.
    + destruct (Z.leb_spec (zlen a + zlen b) off); destruct (Z.leb_spec (zlen b) (off - zlen a)); try lia; [reflexivity|].
      rewrite skipn_app. unfold zlen in *. rewrite skipn_all2 by lia. cbn. f_equal. lia.
Qed.

Lemma skipz_app_lt {A} off (a b : list A) : off < zlen a -> skipz off (a ++ b) = skipz off a ++ b.
Proof.
  intros H. unfold skipz. rewrite zlen_app. pose proof (zlen_nonneg b).
  destruct (Z.leb_spec off 0); [reflexivity|].
  destruct (Z.leb_spec (zlen a + zlen b) off); [lia|].
  destruct (Z.leb_spec (zlen a) off); [lia|].
  rewrite skipn_app. unfold zlen in *. replace (Z.to_nat off - length a)%nat with O by lia. reflexivity.
Qed.

(* ---------- streams ---------- *)
Lemma sbytes_sapp a b : sclean a = true -> sbytes (sapp a b) = sbytes a ++ sbytes b.
Proof.
  induction a as [|x k IH|x k IH|x e|e]; cbn; intros H; try discriminate; auto.
  rewrite IH by exact H. rewrite app_assoc. reflexivity.
Qed.
Lemma sclean_sapp a b : sclean (sapp a b) = sclean a && sclean b.
Proof. induction a; cbn; auto. Qed.
Lemma sloads_sapp a b : sclean a = true -> sloads (sapp a b) = sloads a ++ sloads b.
Proof. induction a as [|x k IH|x k IH|x e|e]; cbn; intros H; try discriminate; auto. rewrite IH by exact H. reflexivity. Qed.

(* the link loop of makeReader as a separate function *)
Definition go_links (fault : blk -> option err) (rec : blk -> Z -> strm) (off : Z) :=
  fix go (ls : list plink) (sizes : list Z) (at_ : Z) : strm :=
    match ls, sizes with
    | PLink _ _ t :: r, sz :: sr =>
      if at_ + sz <=? off then go r sr (at_ + sz)
      else match fault t with
           | Some e => SFail t e
           | None => SLoad t (sapp (rec t (Z.max 0 (off - at_))) (go r sr (at_ + sz)))
           end
    | _, _ => SNil
    end.

Lemma stream_pb fault d l ls off :
  stream fault (Pb d (l :: ls)) off =
  match link_sizes (node_meta d) 0 (l :: ls) with
  | Err e => SErr e
  | Panic => SErr EOther
  | Ok sizes => go_links fault (stream fault) off (l :: ls) sizes 0
  end.
Proof. reflexivity. Qed.

Definition children_content (ls : list plink) : bytes := flat_map (fun l => content (l_target l)) ls.

Lemma content_pb d l ls : content (Pb d (l :: ls)) = children_content (l :: ls).
Proof. reflexivity. Qed.

Lemma go_links_content off ls : forall at_,
  Forall (fun l => well_sized (l_target l) = true ->
                   forall o, 0 <= o -> sbytes (stream nofault (l_target l) o) = skipz o (content (l_target l))
                                       /\ sclean (stream nofault (l_target l) o) = true) ls ->
  forallb (fun l => well_sized (l_target l)) ls = true ->
  sbytes (go_links nofault (stream nofault) off ls (child_lens ls) at_) = skipz (off - at_) (children_content ls)
  /\ sclean (go_links nofault (stream nofault) off ls (child_lens ls) at_) = true.
Proof.
  induction ls as [|[n ts t] r IH]; intros at_ HF Hws.
  - cbn. split; [|reflexivity]. unfold skipz. destruct (off - at_ <=? 0); [reflexivity|]. destruct (zlen (@nil N) <=? off - at_); [reflexivity|]. rewrite skipn_nil. reflexivity.
  - inversion HF as [|? ? Ht Hr]; subst. cbn [forallb l_target] in Hws. apply andb_prop in Hws. destruct Hws as [Hwt Hwr].
    cbn [l_target] in Ht. specialize (Ht Hwt).
    cbn [child_lens map l_target go_links]. fold (child_lens r).
    change (children_content (PLink n ts t :: r)) with (content t ++ children_content r).
    destruct (Z.leb_spec (at_ + zlen (content t)) off) as [Hskip|Hin].
    + destruct (IH (at_ + zlen (content t)) Hr Hwr) as [Hb Hc]. split; [|exact Hc].
      rewrite Hb. rewrite skipz_app_ge by lia. f_equal. lia.
    + change (nofault t) with (@None err). cbv iota. cbn [sbytes sclean].
      destruct (Ht (Z.max 0 (off - at_)) ltac:(lia)) as [Hbt Hct].
      destruct (IH (at_ + zlen (content t)) Hr Hwr) as [Hb Hc].
      rewrite sbytes_sapp by exact Hct. rewrite sclean_sapp, Hct, Hc. split; [|reflexivity].
      rewrite Hbt, Hb, skipz_max. rewrite (skipz_nonpos (off - (at_ + zlen (content t)))) by lia.
      rewrite skipz_app_lt by lia. reflexivity.
Qed.

Lemma well_sized_unfold d l ls :
  well_sized (Pb d (l :: ls)) =
  match link_sizes (node_meta d) 0 (l :: ls) with
  | Ok sizes => list_eqb Z.eqb sizes (child_lens (l :: ls))
  | _ => false
  end
  && match node_length (Pb d (l :: ls)) with Ok n => Z.eqb n (zlen (children_content (l :: ls))) | _ => false end
  && forallb (fun l => well_sized (l_target l)) (l :: ls).
Proof. reflexivity. Qed.

Lemma list_eqb_Z_eq a b : list_eqb Z.eqb a b = true -> a = b.
Proof.
  revert b; induction a as [|x a IH]; intros [|y b]; cbn; try discriminate; [reflexivity|].
  intros H. apply andb_prop in H. destruct H as [H1 H2]. apply Z.eqb_eq in H1. subst. f_equal. auto.
Qed.

(* Reading a DAG whose declared sizes are true, from any offset, yields the rest of its content
   and ends normally. *)
Theorem stream_content b : well_sized b = true ->
  forall off, 0 <= off ->
    sbytes (stream nofault b off) = skipz off (content b) /\ sclean (stream nofault b off) = true.
Proof.
  induction b as [c|i n|d ls IH] using blk_ind'; intros Hw off Hoff.
  - cbn. rewrite app_nil_r. split; reflexivity.
  - discriminate.
  - destruct ls as [|l ls].
    + cbn in *. destruct (wrapped_bytes d); try discriminate. cbn. rewrite app_nil_r. split; reflexivity.
    + rewrite stream_pb. cbn [well_sized] in Hw.
      apply andb_prop in Hw. destruct Hw as [Hw Hkids]. apply andb_prop in Hw. destruct Hw as [Hsz Hlen].
      destruct (link_sizes (node_meta d) 0 (l :: ls)) as [sizes| |]; try discriminate.
      apply list_eqb_Z_eq in Hsz. subst sizes.
      rewrite content_pb.
      destruct (go_links_content off (l :: ls) 0 IH Hkids) as [Hb Hc].
      rewrite Hb, Hc. rewrite Z.sub_0_r. split; reflexivity.
Qed.
