(* boxo importer/trickle.Layout (the REFERENCE implementation's second file layout) with raw leaves, over the same block
   universe and node constructor as the balanced layout (File/Builder.v: mk_leaf, mk_node, rfill, rleaf).
     fillTrickleRec(node, maxDepth):  FillNodeLayer (up to W leaves);  for depth = 1 .. maxDepth-1 (no limit at the root),
     while data remains: up to depthRepeat = 4 children fillTrickleRec(fresh node, depth).
   `subs d acc src` adds to `acc` the sub-graphs of depths 1..d; `tnode d` is a child of depth d+1 (its own inner loop runs
   over depths 1..d).  At the root the loop is unbounded; it stops when the data is used up, which `length chunks` levels
   guarantee (each level that starts with data left consumes at least one chunk). *)
From UV Require Export File.Builder.
Local Open Scope N_scope.

Section Trickle.
  Variable W : nat.   (* Maxlinks *)
  Definition depthRepeat : nat := 4.

  Fixpoint subs (d : nat) (acc : list meta) (src : list bytes) : list meta * list bytes :=
    match d with
    | O => (acc, src)
    | S d' =>
      let '(acc1, src1) := subs d' acc src in
      rfill (fun s => let '(layer, s1) := rfill rleaf W [] s in
                      let '(kids, s2) := subs d' layer s1 in (mk_node kids, s2)) depthRepeat acc1 src1
    end.

  Definition tnode (d : nat) (s : list bytes) : meta * list bytes :=
    let '(layer, s1) := rfill rleaf W [] s in
    let '(kids, s2) := subs d layer s1 in (mk_node kids, s2).

  Lemma subs_S d acc src :
    subs (S d) acc src = let '(acc1, src1) := subs d acc src in rfill (tnode d) depthRepeat acc1 src1.
  Proof. reflexivity. Qed.

  (* trickle.Layout on a non-empty chunk list *)
  Definition trickle_layout (chunks : list bytes) : blk * N :=
    let '(layer, s1) := rfill rleaf W [] chunks in
    let m := mk_node (fst (subs (length chunks) layer s1)) in (m_link m, m_stored m).
End Trickle.
