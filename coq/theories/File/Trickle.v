(* boxo importer/trickle.Layout (the REFERENCE implementation's second file layout) with raw leaves, over the same block
   universe and node constructor as the balanced layout (File/Builder.v: mk_leaf, mk_node, rfill, rleaf).
     fillTrickleRec(node, maxDepth):  FillNodeLayer (up to W leaves);  for depth = 1 .. maxDepth-1 (no limit at the root),
     while data remains: up to depthRepeat = 4 children fillTrickleRec(fresh node, depth).
   `subs d acc src` adds to `acc` the sub-graphs of depths 1..d; `tnode d` is a child of depth d+1 (its own inner loop runs
   over depths 1..d).  At the root the loop is unbounded; it stops when the data is used up, which `length chunks` levels
   guarantee (each level that starts with data left consumes at least one chunk). *)
From UV Require Export File.Builder.
Local Open Scope N_scope.

Definition depthRepeat : nat := 4.

(* a protobuf leaf (DagBuilderParams.RawLeaves = false): a dag-pb block without links whose UnixFS Data carries the chunk.
   The balanced layout makes leaves of type File (NewLeafDataNode(ft.TFile)); the trickle layout's FillNodeLayer makes them of
   type Raw (NewLeafDataNode(ft.TRaw)) - found by the correspondence, the first model had File in both. *)
Definition mk_pbleaf_t (ty : N) (c : bytes) : meta :=
  let d := encode_data (mk_ud ty (Some c) (Some (blen c)) [] None None None None) in
  (Pb (Some d) [], blen c, pb_len (Some d) []).
Definition mk_pbleaf : bytes -> meta := mk_pbleaf_t Data_File.
Definition mk_pbleaf_raw : bytes -> meta := mk_pbleaf_t Data_Raw.

Section Trickle.
  Variable leaf : bytes -> meta.   (* mk_leaf: raw leaves; mk_pbleaf: protobuf leaves *)
  Variable W : nat.   (* Maxlinks *)

  Definition tleaf (src : list bytes) : meta * list bytes :=
    match src with [] => (leaf [], []) | c :: r => (leaf c, r) end.

  Fixpoint subs_g (d : nat) (acc : list meta) (src : list bytes) : list meta * list bytes :=
    match d with
    | O => (acc, src)
    | S d' =>
      let '(acc1, src1) := subs_g d' acc src in
      rfill (fun s => let '(layer, s1) := rfill tleaf W [] s in
                      let '(kids, s2) := subs_g d' layer s1 in (mk_node kids, s2)) depthRepeat acc1 src1
    end.

  Definition tnode_g (d : nat) (s : list bytes) : meta * list bytes :=
    let '(layer, s1) := rfill tleaf W [] s in
    let '(kids, s2) := subs_g d layer s1 in (mk_node kids, s2).

  Lemma subs_S d acc src :
    subs_g (S d) acc src = let '(acc1, src1) := subs_g d acc src in rfill (tnode_g d) depthRepeat acc1 src1.
  Proof. reflexivity. Qed.

  (* trickle.Layout on a non-empty chunk list *)
  Definition trickle_layout_g (chunks : list bytes) : blk * N :=
    let '(layer, s1) := rfill tleaf W [] chunks in
    let m := mk_node (fst (subs_g (length chunks) layer s1)) in (m_link m, m_stored m).

  (* importer/balanced.Layout with this kind of leaf (Builder.fill_node_rec / layout_loop / ref_layout are the raw-leaf instance) *)
  Fixpoint gfill_node_rec (depth : nat) (seeded : list meta) (src : list bytes) : meta * list bytes :=
    match depth with
    | O => (mk_node seeded, src)
    | S d =>
      let '(children, src') :=
          rfill (match d with O => tleaf | S _ => gfill_node_rec d [] end) (W - length seeded) seeded src in
      (mk_node children, src')
    end.

  Fixpoint glayout_loop (fuel depth : nat) (root : meta) (src : list bytes) : meta :=
    match src with
    | [] => root
    | _ =>
      match fuel with
      | O => root
      | S f => let '(r', src') := gfill_node_rec depth [root] src in glayout_loop f (S depth) r' src'
      end
    end.

  Definition balanced_layout_g (chunks : list bytes) : blk * N :=
    match chunks with
    | [] => (m_link (leaf []), m_stored (leaf []))
    | c :: r => let m := glayout_loop (S (length r)) 1 (leaf c) r in (m_link m, m_stored m)
    end.
End Trickle.

Notation subs := (subs_g mk_leaf).
Notation tnode := (tnode_g mk_leaf).
Notation trickle_layout := (trickle_layout_g mk_leaf).
