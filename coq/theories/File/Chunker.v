(* The size-K splitter (boxo chunker "size-K", also the default chunker with K = 262144): its chunks concatenate to the
   input, every chunk but the last has exactly K bytes, none is empty — so the file theorems apply to it end to end. *)
From UV Require Import File.Builder File.Spec File.BuilderProofs File.Compose.
From Coq Require Import ZifyN ZifyNat ZifyBool.
Local Open Scope N_scope.

Lemma split_size_concat fuel : forall k bs, (1 <= k)%nat -> (length bs <= fuel)%nat -> concat (split_size fuel k bs) = bs.
Proof.
  induction fuel as [|f IH]; intros k bs Hk Hf.
  - destruct bs; [reflexivity|cbn in Hf; lia].
  - cbn [split_size]. destruct bs as [|x r]; [reflexivity|].
    cbn [concat]. rewrite IH; [apply firstn_skipn|exact Hk|].
    rewrite skipn_length. cbn [length] in *. lia.
Qed.

Lemma split_size_chunks fuel : forall k bs, (1 <= k)%nat -> (length bs <= fuel)%nat ->
  Forall (fun c => (1 <= length c <= k)%nat) (split_size fuel k bs).
Proof.
  induction fuel as [|f IH]; intros k bs Hk Hf; [constructor|].
  cbn [split_size]. destruct bs as [|x r]; [constructor|].
  constructor.
  - rewrite firstn_length. cbn [length]. lia.
  - apply IH; [exact Hk|]. rewrite skipn_length. cbn [length] in *. lia.
Qed.

(* BuildUnixFSFile with the size-K chunker, then the reader: the original bytes, for every input below 2^63 bytes,
   every K >= 1 and every link width >= 2 *)
Theorem size_chunker_roundtrip (W k : nat) (input : bytes) :
  (2 <= W)%nat -> (1 <= k)%nat -> blen input < bound63 ->
  exists root sz, build_file W (split_size (length input) k input) = Ok (root, sz)
    /\ fst (fst (drain_all (stream nofault root 0) [] [])) = input
    /\ snd (drain_all (stream nofault root 0) [] []) = StEOF
    /\ (forall ops, map forget_loads (reader_run nofault root rs0 ops) = abs_run input 0 ops)
    /\ node_length root = Ok (zlen input).
Proof.
  intros HW Hk Hb.
  pose proof (split_size_concat (length input) k input Hk (le_n _)) as Hc.
  destruct (build_read_roundtrip W (split_size (length input) k input) HW ltac:(rewrite Hc; exact Hb)) as (root & sz & H1 & H2 & H3 & H4 & H5).
  exists root, sz. rewrite Hc in *. auto.
Qed.
