(* C06 (files): the preloading reification reads the whole file once: it requests every block of the
   file (and nothing else), or fails. *)
From UV Require Import File.Spec File.ReaderProofs File.ReaderProofs2 File.ReaderProofs3 File.ReaderProofs4 File.Compose.
Local Open Scope Z_scope.

Lemma cutf_no_fault fault s : Forall (fun b => fault b = None) (sloads s) -> cutf fault s = s.
Proof.
  induction s as [|x k IH|x k IH|x e|e]; cbn; intros H; auto.
  - inversion H as [|? ? Hx Hk]; subst. rewrite Hx, IH by exact Hk. reflexivity.
  - rewrite IH by exact H. reflexivity.
Qed.

Lemma cutf_fault_status fault s : sclean s = true ->
  (exists b, In b (sloads s) /\ fault b <> None) -> exists e, snd (sview (cutf fault s)) = StErr e.
Proof.
  induction s as [|x k IH|x k IH|x e|e]; cbn; intros Hc (b & Hin & Hf); try discriminate.
  - destruct Hin.
  - destruct (fault x) as [e|] eqn:Ex; [exists e; reflexivity|].
    destruct Hin as [<-|Hin]; [congruence|]. cbn. apply IH; [exact Hc|exists b; auto].
  - destruct (IH Hc ltac:(exists b; auto)) as (e & He). destruct (sview (cutf fault k)) as [vb vs]. cbn in *. exists e. exact He.
Qed.

Theorem preload_file fault b : well_sized b = true -> pos_sized b = true ->
  let '(_, loads, st) := drain_all (stream fault b 0) [] [] in
  (* every block available: the preload succeeds having requested exactly the blocks of the file, depth first *)
  (Forall (fun x => fault x = None) (tl (preorder b)) -> st = StEOF /\ loads = tl (preorder b))
  (* some block unavailable: the preload fails *)
  /\ ((exists x, In x (tl (preorder b)) /\ fault x <> None) -> exists e, st = StErr e).
Proof.
  intros Hw Hp. destruct (stream_content b Hw 0 ltac:(lia)) as [_ Hc].
  pose proof (read_order b Hw Hp) as Ho. rewrite (stream_cutf fault b 0).
  set (s0 := stream nofault b 0) in *.
  pose proof (drain_all_view (cutf fault s0) [] []) as Hv.
  destruct (drain_all (cutf fault s0) [] []) as [[bs loads] st] eqn:Ed. destruct Hv as [_ Hst].
  split.
  - intros Hall. rewrite <- Ho in Hall. rewrite (cutf_no_fault fault s0 Hall) in Ed.
    rewrite (drain_all_clean s0 Hc) in Ed. inversion Ed; subst. auto.
  - intros Hex. rewrite <- Ho in Hex. destruct (cutf_fault_status fault s0 Hc Hex) as (e & He).
    exists e. rewrite Hst. exact He.
Qed.

(* without pos_sized the first clause of preload_file fails: an empty child at the very start of its parent is stepped
   over, never requested - the file "" "aaa" "bbb" preloads although its first block is unavailable *)
Definition ex_empty_first : blk :=
  Pb (Some [8; 2; 24; 6; 32; 0; 32; 3; 32; 3]%N)
     [PLink (Some []) (Some 0) (Raw []); PLink (Some []) (Some 3) (Raw [97; 97; 97]%N); PLink (Some []) (Some 3) (Raw [98; 98; 98]%N)].
Theorem leading_empty_child_refuted :
  exists b fault, well_sized b = true
    /\ (exists x, In x (tl (preorder b)) /\ fault x <> None)
    /\ drain_all (stream fault b 0) [] [] = ([97; 97; 97; 98; 98; 98]%N, tl (tl (preorder b)), StEOF).
Proof.
  exists ex_empty_first, (fun x => if blk_eqb x (Raw []) then Some (ELoad 1) else None).
  split; [vm_compute; reflexivity|]. split; [exists (Raw []); split; [left; reflexivity|vm_compute; discriminate]|vm_compute; reflexivity].
Qed.
