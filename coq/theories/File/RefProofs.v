(* C07: the builder and the reference balanced layout build the same tree, for every width and chunk list. *)
From UV Require Import File.Builder File.Spec Blocks.BlkProofs File.BuilderProofs File.BuilderProofs2.
From Coq Require Import ZifyBool ZifyNat ZifyN.
Local Open Scope N_scope.

Section Ref.
  Variable W : nat.
  Hypothesis HW : (2 <= W)%nat.

  (* the reference's way of producing one fresh subtree of a given height *)
  Definition R (d : nat) : list bytes -> meta * list bytes :=
    match d with O => rleaf | S _ => fill_node_rec W d [] end.

  Definition agrees (rec : list bytes -> res (option meta * list bytes)) (rrec : list bytes -> meta * list bytes) : Prop :=
    rec [] = Ok (None, []) /\ forall src, src <> [] -> rec src = Ok (Some (fst (rrec src)), snd (rrec src)).

  Lemma fill_rfill rec rrec : agrees rec rrec -> forall n acc src,
    fill rec n acc src = Ok (rfill rrec n acc src).
  Proof.
    intros [H0 H1]. induction n as [|n IH]; intros acc src; [reflexivity|].
    cbn [fill rfill]. destruct src as [|c r].
    - rewrite H0. reflexivity.
    - rewrite (H1 (c :: r)) by congruence. destruct (rrec (c :: r)) as [m src']. cbn [fst snd]. apply IH.
  Qed.

  (* consuming: a fresh reference subtree uses at least one chunk *)
  Definition consumes (rrec : list bytes -> meta * list bytes) : Prop :=
    forall src, src <> [] -> (length (snd (rrec src)) < length src)%nat.

  Lemma rfill_shape rrec : consumes rrec -> forall n acc src,
    exists more, fst (rfill rrec n acc src) = acc ++ more
                 /\ (length (snd (rfill rrec n acc src)) <= length src)%nat
                 /\ (src <> [] -> (1 <= n)%nat -> more <> [] /\ (length (snd (rfill rrec n acc src)) < length src)%nat).
  Proof.
    intros Hc. induction n as [|n IH]; intros acc src.
    - exists []. cbn. rewrite app_nil_r. repeat split; auto; lia.
    - cbn [rfill]. destruct src as [|c r].
      + exists []. cbn. rewrite app_nil_r. repeat split; auto; congruence.
      + pose proof (Hc (c :: r) ltac:(congruence)) as Hlt.
        destruct (rrec (c :: r)) as [m src'] eqn:E. cbn [snd] in Hlt.
        destruct (IH (acc ++ [m]) src') as (more & Hf & Hl & _).
        exists (m :: more). rewrite Hf, <- app_assoc. cbn [app]. repeat split; auto; try lia; congruence.
  Qed.

  Lemma fill_node_rec_S d seeded src :
    fill_node_rec W (S d) seeded src =
    let '(children, src') := rfill (R d) (W - length seeded) seeded src in (mk_node children, src').
  Proof. destruct d; reflexivity. Qed.

  Lemma R_consumes d : consumes (R d).
  Proof.
    induction d as [|d IH]; intros src Hne.
    - destruct src; [congruence|]. cbn. lia.
    - unfold R. rewrite fill_node_rec_S. cbn [length]. rewrite Nat.sub_0_r.
      destruct (rfill_shape _ IH W [] src) as (more & _ & _ & H). specialize (H Hne ltac:(lia)).
      destruct (rfill (R d) W [] src) as [ch src']. cbn [fst snd] in *. lia.
  Qed.

  (* fresh levels agree *)
  Lemma fresh_agree d : agrees (ftr W (S d) []) (R d).
  Proof.
    induction d as [|d IH].
    - split; [reflexivity|]. intros [|c r] H; [congruence|reflexivity].
    - split.
      + rewrite ftr_SS. cbn [length]. rewrite (fill_rfill _ _ IH). destruct W; [lia|]. reflexivity.
      + intros src Hne. rewrite ftr_SS. cbn [length]. rewrite Nat.sub_0_r, (fill_rfill _ _ IH).
        unfold R at 2 3. rewrite fill_node_rec_S. cbn [length]. rewrite Nat.sub_0_r.
        destruct (rfill_shape _ (R_consumes d) W [] src) as (more & Hf & _ & H). destruct (H Hne ltac:(lia)) as [Hm _].
        destruct (rfill (R d) W [] src) as [ch src']. cbn [fst snd app] in *. subst ch.
        destruct more as [|c [|c2 r]]; [congruence|reflexivity|reflexivity].
  Qed.

  (* a level seeded with the previous root *)
  Lemma seeded_agree d prev src : src <> [] ->
    ftr W (S (S d)) [prev] src = Ok (Some (fst (fill_node_rec W (S d) [prev] src)), snd (fill_node_rec W (S d) [prev] src))
    /\ exists more, more <> [] /\ fst (fill_node_rec W (S d) [prev] src) = mk_node (prev :: more)
    /\ (length (snd (fill_node_rec W (S d) [prev] src)) < length src)%nat.
  Proof.
    intros Hne. rewrite ftr_SS, (fill_rfill _ _ (fresh_agree d)), fill_node_rec_S. cbn [length].
    destruct (rfill_shape _ (R_consumes d) (W - 1) [prev] src) as (more & Hf & _ & H). destruct (H Hne ltac:(lia)) as [Hm Hl].
    destruct (rfill (R d) (W - 1) [prev] src) as [ch src']. cbn [fst snd app] in *. subst ch.
    destruct more as [|c r]; [congruence|]. split; [reflexivity|].
    exists (c :: r). split; [congruence|]. split; [reflexivity|exact Hl].
  Qed.

  Lemma seeded_done d prev : ftr W (S (S d)) [prev] [] = Ok (Some prev, []).
  Proof.
    rewrite ftr_SS, (fill_rfill _ _ (fresh_agree d)). cbn [length].
    destruct (W - 1)%nat; reflexivity.
  Qed.

  Lemma loops_agree fuel : forall fuel' d prev src,
    (length src < fuel)%nat -> (length src <= fuel')%nat ->
    build_loop W fuel (S (S d)) prev src =
    Ok (m_link (layout_loop W fuel' (S d) prev src), m_stored (layout_loop W fuel' (S d) prev src)).
  Proof.
    induction fuel as [|f IH]; intros fuel' d prev src Hf Hf'; [lia|].
    cbn [build_loop]. destruct src as [|c r].
    - rewrite seeded_done, blk_eqb_refl. destruct fuel'; reflexivity.
    - destruct fuel' as [|f']; [cbn in Hf'; lia|].
      destruct (seeded_agree d prev (c :: r) ltac:(congruence)) as (Hftr & more & Hm & Hfst & Hlen).
      rewrite Hftr. cbn [layout_loop].
      destruct (fill_node_rec W (S d) [prev] (c :: r)) as [r' src'] eqn:E. cbn [fst snd] in *.
      rewrite Hfst, (mk_node_neq W HW). rewrite <- Hfst.
      apply IH; cbn [length] in *; lia.
  Qed.

  Theorem build_is_ref chunks : build_file W chunks = Ok (ref_layout W chunks).
  Proof.
    destruct chunks as [|c r]; [reflexivity|].
    cbn [build_file ref_layout]. apply loops_agree; lia.
  Qed.
End Ref.
