(* Unavailable blocks (C12), request order (C20) and laziness (C05) of the file reader. *)
From UV Require Import File.Spec File.ReaderProofs File.ReaderProofs2 File.ReaderProofs3.
From Coq Require Import ZifyBool ZifyNat.
Local Open Scope Z_scope.

(* ---------- faults: the stream under faults is the fault-free stream cut at the first failing request ---------- *)
Lemma cutf_sapp fault a b : cutf fault (sapp a b) = sapp (cutf fault a) (cutf fault b).
Proof.
  induction a as [|x k IH|x k IH|x e|e]; cbn; auto.
  - destruct (fault x); cbn; [reflexivity|]. rewrite IH. reflexivity.
  - rewrite IH. reflexivity.
Qed.

Lemma go_links_cutf fault off ls : forall sizes at_,
  Forall (fun l => forall o, stream fault (l_target l) o = cutf fault (stream nofault (l_target l) o)) ls ->
  go_links fault (stream fault) off ls sizes at_ = cutf fault (go_links nofault (stream nofault) off ls sizes at_).
Proof.
  induction ls as [|[n ts t] r IH]; intros sizes at_ HF; [reflexivity|].
  inversion HF as [|? ? Ht Hr]; subst. cbn [l_target] in Ht.
  destruct sizes as [|sz sr]; [reflexivity|].
  cbn [go_links]. destruct (at_ + sz <=? off); [apply IH; exact Hr|].
  change (nofault t) with (@None err). cbv iota. cbn [cutf].
  destruct (fault t) as [e|]; [reflexivity|].
  rewrite cutf_sapp, <- Ht, <- (IH sr (at_ + sz) Hr). reflexivity.
Qed.

Theorem stream_cutf fault b : forall off, stream fault b off = cutf fault (stream nofault b off).
Proof.
  induction b as [c|i n|d ls IH] using blk_ind'; intros off.
  - reflexivity.
  - reflexivity.
  - destruct ls as [|l ls].
    + cbn. destruct (wrapped_bytes d); reflexivity.
    + rewrite !stream_pb. destruct (link_sizes (node_meta d) 0 (l :: ls)) as [sizes|e|]; try reflexivity.
      apply go_links_cutf. exact IH.
Qed.

(* bytes of a (fault-free) stream that precede the first request for an unavailable block *)
Fixpoint before_fault (fault : blk -> option err) (s : strm) : bytes * option (blk * err) :=
  match s with
  | SLoad b k => match fault b with Some e => ([], Some (b, e)) | None => before_fault fault k end
  | SBytes x k => let '(p, o) := before_fault fault k in (x ++ p, o)
  | _ => ([], None)
  end.

Lemma sview_cutf fault s : sclean s = true ->
  sview (cutf fault s) =
  let '(p, o) := before_fault fault s in (p, match o with Some (_, e) => StErr e | None => StEOF end).
Proof.
  induction s as [|x k IH|x k IH|x e|e]; cbn; intros H; try discriminate; auto.
  - destruct (fault x); cbn; auto.
  - rewrite IH by exact H. destruct (before_fault fault k) as [p o]. reflexivity.
Qed.

Lemma before_fault_prefix fault s : sclean s = true ->
  exists rest, sbytes s = fst (before_fault fault s) ++ rest
               /\ (snd (before_fault fault s) = None -> rest = []).
Proof.
  induction s as [|x k IH|x k IH|x e|e]; cbn; intros H; try discriminate.
  - exists []. auto.
  - destruct (fault x); cbn; [exists (sbytes k); split; [reflexivity|discriminate]|apply IH; exact H].
  - destruct (IH H) as (rest & Hb & Hn). destruct (before_fault fault k) as [p o]. cbn in *.
    exists rest. rewrite Hb, app_assoc. auto.
Qed.

Lemma before_fault_faulty fault s : forall p blk e, before_fault fault s = (p, Some (blk, e)) -> fault blk = Some e.
Proof.
  induction s as [|x k IH|x k IH|x e0|e0]; cbn; intros p blk e H; try (inversion H; fail).
  - destruct (fault x) eqn:Ef; [inversion H; subst; exact Ef|eapply IH; exact H].
  - destruct (before_fault fault k) as [p' o'] eqn:E'. inversion H; subst. eapply IH. reflexivity.
Qed.

(* C12 (files): with any set of unavailable blocks, what a sequential reader can obtain is exactly
   the content that precedes the first unavailable block in the fault-free read, and then that
   block's load error — never end-of-file; without unavailable blocks on the way, the whole content *)
Theorem read_fault fault b : well_sized b = true ->
  let s0 := stream nofault b 0 in
  let '(pre, o) := before_fault fault s0 in
  sview (stream fault b 0) = (pre, match o with Some (_, e) => StErr e | None => StEOF end)
  /\ (exists rest, content b = pre ++ rest /\ (o = None -> rest = []))
  /\ (forall blk e, o = Some (blk, e) -> fault blk = Some e).
Proof.
  intros Hw. cbv zeta.
  destruct (stream_content b Hw 0 ltac:(lia)) as [Hb Hc].
  rewrite (stream_cutf fault b 0), sview_cutf by exact Hc.
  destruct (before_fault_prefix fault _ Hc) as (rest & Hp & Hn).
  destruct (before_fault fault (stream nofault b 0)) as [pre o] eqn:E. cbn [fst snd] in *.
  split; [reflexivity|]. split.
  - exists rest. rewrite <- Hp, Hb, skipz_nonpos by lia. auto.
  - intros blk e Ho. subst o. eapply before_fault_faulty. exact E.
Qed.

(* io.ReadAll / AsBytes deliver the view *)
Lemma drain_all_view s : forall acc loads,
  let '(bs, _, st) := drain_all s acc loads in bs = acc ++ fst (sview s) /\ st = snd (sview s).
Proof.
  induction s as [|x k IH|x k IH|x e|e]; intros acc loads; cbn; try (rewrite app_nil_r; auto).
  - apply IH.
  - specialize (IH (acc ++ x) loads). destruct (drain_all k (acc ++ x) loads) as [[bs l] st].
    destruct (sview k) as [vb vs]. cbn in *. destruct IH as [-> ->]. rewrite app_assoc. auto.
Qed.

(* ---------- request order (C20) ---------- *)
Lemma preorder_cons b : preorder b = b :: tl (preorder b).
Proof. destruct b; reflexivity. Qed.

Lemma go_links_loads ls : forall at_, 0 <= at_ ->
  Forall (fun l => well_sized (l_target l) = true -> pos_sized (l_target l) = true ->
                   sloads (stream nofault (l_target l) 0) = tl (preorder (l_target l))) ls ->
  forallb (fun l => well_sized (l_target l)) ls = true ->
  forallb (fun l => (0 <? zlen (content (l_target l))) && pos_sized (l_target l)) ls = true ->
  sloads (go_links nofault (stream nofault) 0 ls (child_lens ls) at_) = flat_map (fun l => preorder (l_target l)) ls.
Proof.
  induction ls as [|[n ts t] r IH]; intros at_ Hat HF Hws Hps; [reflexivity|].
  inversion HF as [|? ? Ht Hr]; subst. cbn [l_target] in Ht.
  cbn [forallb l_target] in Hws, Hps. apply andb_prop in Hws. destruct Hws as [Hwt Hwr].
  apply andb_prop in Hps. destruct Hps as [Hpt Hpr]. apply andb_prop in Hpt. destruct Hpt as [Hlen Hpt].
  apply Z.ltb_lt in Hlen.
  cbn [child_lens map l_target go_links flat_map]. fold (child_lens r).
  destruct (Z.leb_spec (at_ + zlen (content t)) 0); [lia|].
  change (nofault t) with (@None err). cbv iota. cbn [sloads].
  destruct (stream_content t Hwt (Z.max 0 (0 - at_)) ltac:(lia)) as [_ Hc].
  rewrite sloads_sapp by exact Hc. rewrite Z.max_l by lia. rewrite (Ht Hwt Hpt).
  rewrite (IH (at_ + zlen (content t)) ltac:(lia) Hr Hwr Hpr).
  rewrite (preorder_cons t) at 2. reflexivity.
Qed.

(* a full sequential read requests the blocks of the file in depth-first link order *)
Theorem read_order b : well_sized b = true -> pos_sized b = true ->
  sloads (stream nofault b 0) = tl (preorder b).
Proof.
  induction b as [c|i n|d ls IH] using blk_ind'; intros Hw Hp.
  - reflexivity.
  - discriminate.
  - destruct ls as [|l ls].
    + cbn in *. destruct (wrapped_bytes d); try discriminate. reflexivity.
    + rewrite stream_pb. rewrite well_sized_unfold in Hw.
      apply andb_prop in Hw. destruct Hw as [Hw Hkids]. apply andb_prop in Hw. destruct Hw as [Hsz _].
      destruct (link_sizes (node_meta d) 0 (l :: ls)) as [sizes| |]; try discriminate.
      apply list_eqb_Z_eq in Hsz. subst sizes.
      cbn [pos_sized] in Hp.
      rewrite (go_links_loads (l :: ls) 0 ltac:(lia) IH Hkids Hp). reflexivity.
Qed.
