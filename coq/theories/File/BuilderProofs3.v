(* the builder never produces a link to an empty piece of content when the chunker emits no empty chunk *)
From UV Require Import File.Builder File.Spec File.ReaderProofs File.BuilderProofs File.BuilderProofs2.
From Coq Require Import ZifyBool ZifyNat ZifyN.
Local Open Scope Z_scope.

Definition nonempty (c : bytes) : Prop := c <> [].
Definition mpos (m : meta) : Prop := pos_sized (m_link m) = true /\ 0 < zlen (content (m_link m)).

Lemma mk_leaf_pos c : nonempty c -> mpos (mk_leaf c).
Proof. intros H. split; [reflexivity|]. cbn. destruct c; [congruence|]. unfold zlen. cbn. lia. Qed.

Lemma pos_links children : Forall mpos children ->
  forallb (fun l => (0 <? zlen (content (l_target l))) && pos_sized (l_target l)) (file_links children) = true.
Proof.
  unfold file_links. induction 1 as [|m r [Hp Hl] _ IH]; [reflexivity|].
  cbn [map forallb l_target]. rewrite Hp, IH. apply Z.ltb_lt in Hl. rewrite Hl. reflexivity.
Qed.

Lemma mk_node_pos children : children <> [] -> Forall mpos children -> mpos (mk_node children).
Proof.
  intros Hne Hall. destruct children as [|m0 rest]; [congruence|].
  assert (Hlink : m_link (mk_node (m0 :: rest)) = Pb (Some (file_data (m0 :: rest))) (file_links (m0 :: rest))) by reflexivity.
  assert (Hfl : file_links (m0 :: rest) = PLink (Some []) (Some (Z.of_N (m_stored m0))) (m_link m0) :: file_links rest) by reflexivity.
  unfold mpos. rewrite Hlink. split.
  - cbn [pos_sized]. apply pos_links. exact Hall.
  - rewrite Hfl, content_pb. cbn [children_content flat_map l_target]. rewrite zlen_app.
    inversion Hall as [|? ? [_ H0] _]; subst. pose proof (zlen_nonneg (flat_map (fun l => content (l_target l)) (file_links rest))). lia.
Qed.

Section Pos.
  Variable W : nat.

  Definition rec_pos (rec : list bytes -> res (option meta * list bytes)) : Prop :=
    forall src r rest, Forall nonempty src -> rec src = Ok (r, rest) ->
      Forall nonempty rest /\ match r with Some m => mpos m | None => True end.

  Lemma fill_pos rec : rec_pos rec -> forall n acc src children rest,
    Forall nonempty src -> Forall mpos acc -> fill rec n acc src = Ok (children, rest) ->
    Forall mpos children /\ Forall nonempty rest.
  Proof.
    intros Hrec. induction n as [|n IH]; intros acc src children rest Hs Ha Hf.
    - cbn in Hf. inversion Hf; subst. auto.
    - cbn [fill] in Hf. destruct (rec src) as [[[m|] src']| |] eqn:Er; try discriminate.
      + destruct (Hrec src (Some m) src' Hs Er) as [Hs' Hm].
        eapply IH; [exact Hs'| |exact Hf]. apply Forall_app. split; [exact Ha|constructor; [exact Hm|constructor]].
      + destruct (Hrec src None src' Hs Er) as [Hs' _]. inversion Hf; subst. auto.
  Qed.

  Lemma ftr_pos d : forall seeded, Forall mpos seeded -> rec_pos (ftr W d seeded).
  Proof.
    induction d as [|d IH]; intros seeded Hseed src r rest Hs Hf; [discriminate|].
    destruct d as [|d'].
    - cbn [ftr] in Hf. destruct seeded; [|discriminate].
      destruct src as [|c cs]; inversion Hf; subst; [auto|].
      inversion Hs; subst. split; [assumption|apply mk_leaf_pos; assumption].
    - rewrite ftr_SS in Hf.
      destruct (fill (ftr W (S d') []) (W - length seeded) seeded src) as [[children src']| |] eqn:Ef; try discriminate.
      destruct (fill_pos _ (IH [] (Forall_nil _)) _ _ _ _ _ Hs Hseed Ef) as [Hc Hr].
      destruct children as [|c [|c2 cr]].
      + inversion Hf; subst. auto.
      + destruct (Nat.eqb (length seeded) 1); inversion Hf; subst; (split; [exact Hr|]).
        * inversion Hc; assumption.
        * apply mk_node_pos; [congruence|exact Hc].
      + inversion Hf; subst. split; [exact Hr|]. apply mk_node_pos; [congruence|exact Hc].
  Qed.

  Lemma build_loop_pos fuel : forall depth prev src root sz,
    mpos prev -> Forall nonempty src -> build_loop W fuel depth prev src = Ok (root, sz) -> pos_sized root = true.
  Proof.
    induction fuel as [|f IH]; intros depth prev src root sz Hp Hs Hb; [discriminate|].
    cbn [build_loop] in Hb.
    destruct (ftr W depth [prev] src) as [[[next|] src']| |] eqn:Ef; try discriminate.
    destruct (ftr_pos depth [prev] ltac:(constructor; [exact Hp|constructor]) src (Some next) src' Hs Ef) as [Hs' Hn].
    destruct (blk_eqb (m_link prev) (m_link next)).
    - inversion Hb; subst. exact (proj1 Hn).
    - eapply IH; [exact Hn|exact Hs'|exact Hb].
  Qed.

  Theorem build_file_pos chunks root sz :
    Forall nonempty chunks -> build_file W chunks = Ok (root, sz) -> pos_sized root = true.
  Proof.
    intros Hs Hb. destruct chunks as [|c r]; [inversion Hb; reflexivity|].
    cbn [build_file] in Hb. inversion Hs; subst.
    eapply build_loop_pos; [apply mk_leaf_pos; eassumption|eassumption|exact Hb].
  Qed.
End Pos.
