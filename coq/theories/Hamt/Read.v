(* hamt/shardeddir.go, hamt/util.go: the sharded-directory reader.  Results are Ok / Err / Panic,
   Panic only where the Go code can panic.  Every load is recorded in the trace. *)
From UV Require Export Blocks.Blk Codec.Decode Hamt.HashBits Hamt.Bitfield Hamt.Build.
Local Open Scope N_scope.

(* a constructed _UnixFSHAMTShard: validated parameters and the link list *)
Record shard := mk_shard { sh_fanout : N; sh_lg : N; sh_pad : nat; sh_bits : N; sh_links : list plink }.

Definition is_pow2 (v : N) : bool := if v =? 0 then false else 2 ^ N.log2 v =? v.

(* AttemptHAMTShardFromNode / NewUnixFSHAMTShard: validateHAMTData + bitField *)
Definition mk_shard_of (b : blk) : res shard :=
  match b with
  | Pb (Some d) ls =>
    match decode_data d with
    | Ok m =>
      if negb (d_type m =? Data_HAMTShard) then Err EInvalid else
      match d_hashtype m with
      | None => Err EInvalid
      | Some h =>
        if negb (h =? HashMurmur3) then Err EInvalid else
        match d_data m, d_fanout m with
        | None, _ => Err EInvalid
        | _, None => Err EInvalid
        | Some bits, Some fanout =>
          (* int(fanout) must be a positive power of two (values >= 2^63 are negative as int) *)
          if (9223372036854775808 <=? fanout) || negb (is_pow2 fanout) then Err EInvalid
          else if maximumHamtWidth <? fanout then Err EInvalid
          else if negb (fanout mod 8 =? 0) then Err EInvalid            (* bitfield.NewBitfield *)
          else if fanout / 8 <? blen bits then Err EInvalid             (* bitfield wider than the fanout *)
          else Ok (mk_shard fanout (N.log2 fanout) (pad_len fanout) (bf_of_bytes bits) ls)
        end
      end
    | Err e => Err e
    | Panic => Panic
    end
  | Pb None _ => Err EInvalid        (* ErrNotUnixFSNode *)
  | _ => Err EInvalid                (* not a protobuf node *)
  end.

(* isValueLink *)
Definition is_value_link (pad : nat) (l : plink) : res bool :=
  match l_name l with
  | None => Err EInvalid                              (* ErrMissingLinkName *)
  | Some n =>
    if (length n <? pad)%nat then Err EInvalid        (* ErrInvalidLinkName *)
    else Ok (negb (length n =? pad)%nat)
  end.

(* name[pad:] — a Go slice expression: panics when the name is shorter than pad (or absent: Must()) *)
Definition name_suffix (pad : nat) (l : plink) : res bytes :=
  match l_name l with
  | Some n => if (length n <? pad)%nat then Panic else Ok (skipn pad n)
  | None => Panic
  end.

Section Faults.
  Variable fault : blk -> option err.

  (* loadChild: storage request, decode as shard, same fanout as the parent *)
  Definition load_child (parent : shard) (l : plink) : res shard * list blk :=
    let t := l_target l in
    match fault t with
    | Some e => (Err e, [t])
    | None =>
      (match mk_shard_of t with
       | Ok c => if sh_fanout c =? sh_fanout parent then Ok c else Err EInvalid
       | Err e => Err e
       | Panic => Panic
       end, [t])
    end.

  (* lookup: one bucket per level; structurally recursive on the block *)
  Fixpoint lookup_blk (b : blk) (parent_fanout : option N) (hb key : bytes) (consumed : N) : res blk * list blk :=
    match mk_shard_of b with
    | Err e => (Err e, [])
    | Panic => (Panic, [])
    | Ok sh =>
      if match parent_fanout with Some pf => negb (sh_fanout sh =? pf) | None => false end then (Err EInvalid, []) else
      match hb_next hb consumed (sh_lg sh) with
      | Err e => (Err e, [])
      | Panic => (Panic, [])
      | Ok (idx, consumed') =>
        if negb (bf_bit (sh_bits sh) idx) then (Err ENotFound, []) else
        let li := bf_ones_before (sh_bits sh) idx in
        match nth_error (sh_links sh) (N.to_nat li) with
        | None => (Err EInvalid, [])                       (* ErrInvalidChildIndex *)
        | Some l =>
          match is_value_link (sh_pad sh) l with
          | Err e => (Err e, [])
          | Panic => (Panic, [])
          | Ok true =>
            match name_suffix (sh_pad sh) l with       (* MatchKey *)
            | Ok sfx => if bytes_eqb sfx key then (Ok (l_target l), []) else (Err ENotFound, [])
            | Err e => (Err e, [])
            | Panic => (Panic, [])
            end
          | Ok false =>
            let t := l_target l in
            match fault t with
            | Some e => (Err e, [t])
            | None =>
              match b with
              | Pb _ ls =>
                (* recursion through the link list keeps the definition structural *)
                (fix find (ls : list plink) (k : nat) : res blk * list blk :=
                   match ls, k with
                   | PLink _ _ t' :: _, O =>
                     let '(r, tr) := lookup_blk t' (Some (sh_fanout sh)) hb key consumed' in (r, t :: tr)
                   | _ :: r, S k' => find r k'
                   | [], _ => (Err EInvalid, [])
                   end) ls (N.to_nat li)
              | _ => (Err EInvalid, [])
              end
            end
          end
        end
      end
    end.

  Definition lookup (root : blk) (hb key : bytes) : res blk * list blk := lookup_blk root None hb key 0.

  (* iteration: one event per Next call (a pair or an error), with the blocks requested before it *)
  Inductive ievent := IYield (k : bytes) (v : blk) | IErr (e : err) | IPanic.

  Fixpoint iter_blk (b : blk) (parent_fanout : option N) (root_pad : nat) : list (list blk * ievent) :=
    match mk_shard_of b with
    | Err e => [([], IErr e)]
    | Panic => [([], IErr EOther)]
    | Ok sh =>
      if match parent_fanout with Some pf => negb (sh_fanout sh =? pf) | None => false end then [([], IErr EInvalid)] else
      match b with
      | Pb _ ls =>
        (fix go (ls : list plink) : list (list blk * ievent) :=
           match ls with
           | [] => []
           | l :: r =>
             match is_value_link (sh_pad sh) l with
             | Err e => ([], IErr e) :: go r
             | Panic => ([], IErr EOther) :: go r
             | Ok true =>
               (* transformNameNode strips the ROOT's prefix length *)
               ([], match name_suffix root_pad l with Ok k => IYield k (l_target l) | Err e => IErr e | Panic => IPanic end) :: go r
             | Ok false =>
               match l with
               | PLink _ _ t =>
                 match fault t with
                 | Some e => ([t], IErr e) :: go r
                 | None =>
                   let sub := iter_blk t (Some (sh_fanout sh)) root_pad in
                   match sub with
                   | [] => ([t], IErr EOverread) :: go r          (* an empty child shard: next() returns nil *)
                   | (tr, ev) :: sub' => (t :: tr, ev) :: sub' ++ go r
                   end
                 end
               end
             end
           end) ls
      | _ => []
      end
    end.

  Definition iterate (root : blk) : list (list blk * ievent) :=
    match mk_shard_of root with
    | Ok sh => iter_blk root None (sh_pad sh)
    | _ => []
    end.

  (* length(): recursive count; the first error aborts *)
  Fixpoint length_blk (b : blk) (parent_fanout : option N) : res N * list blk :=
    match mk_shard_of b with
    | Err e => (Err e, [])
    | Panic => (Panic, [])
    | Ok sh =>
      if match parent_fanout with Some pf => negb (sh_fanout sh =? pf) | None => false end then (Err EInvalid, []) else
      match b with
      | Pb _ ls =>
        (fix go (ls : list plink) (total : N) : res N * list blk :=
           match ls with
           | [] => (Ok total, [])
           | l :: r =>
             match is_value_link (sh_pad sh) l with
             | Err e => (Err e, [])
             | Panic => (Panic, [])
             | Ok true => go r (total + 1)
             | Ok false =>
               match l with
               | PLink _ _ t =>
                 match fault t with
                 | Some e => (Err e, [t])
                 | None =>
                   match length_blk t (Some (sh_fanout sh)) with
                   | (Ok n, tr) => let '(res, tr') := go r (total + n) in (res, t :: tr ++ tr')
                   | (Err e, tr) => (Err e, t :: tr)
                   | (Panic, tr) => (Panic, t :: tr)
                   end
                 end
               end
             end
           end) ls 0
      | _ => (Err EInvalid, [])
      end
    end.

  Definition shard_length (root : blk) : res N * list blk := length_blk root None.
End Faults.
