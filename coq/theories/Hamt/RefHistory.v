(* The reference HAMT under ANY history of Set / Remove: each operation keeps the three trie invariants and changes
   the entry set the way the abstract directory says; hence (Canon.ser_unique) the serialized form after any history
   is the one the builder of this library writes for the final entry set, and (RefineAny) the reader of this library
   reads it as exactly that set. *)
From UV Require Import Dir.BuildProofs Hamt.Read Hamt.HashBitsSpec Hamt.TrieProofs Hamt.ShardDecode Hamt.Refine Hamt.Canon Hamt.RefineAny Hamt.BuildTotal Hamt.RefineTrace Hamt.RefineLength Hamt.RefModel.
From Coq Require Import Permutation ZifyN ZifyNat ZifyBool.
Local Open Scope N_scope.

(* ---- lists ---- *)
Lemma filter_all {A} (p : A -> bool) l : (forall x, In x l -> p x = true) -> filter p l = l.
Proof.
  induction l as [|x r IH]; intros Hp; [reflexivity|]. cbn [filter]. rewrite (Hp x (or_introl eq_refl)).
  f_equal. apply IH. intros y Hy. apply Hp. right. exact Hy.
Qed.

Lemma perm_filter {A} (p : A -> bool) l l' : Permutation l l' -> Permutation (filter p l) (filter p l').
Proof.
  induction 1 as [|x l l' _ IH|x y l|l l' l'' _ IH1 _ IH2]; cbn [filter].
  - constructor.
  - destruct (p x); [constructor|]; exact IH.
  - destruct (p x), (p y); try apply Permutation_refl. apply perm_swap.
  - eapply Permutation_trans; eassumption.
Qed.

Lemma filter_names_nodup (p : entry -> bool) l : NoDup (map e_name l) -> NoDup (map e_name (filter p l)).
Proof.
  induction l as [|x r IH]; intros Hn; [constructor|]. inversion Hn as [|? ? Hx Hr]; subst. cbn [filter].
  destruct (p x); [|apply IH; exact Hr]. cbn [map]. constructor; [|apply IH; exact Hr].
  intros Hi. apply Hx. apply in_map_iff in Hi. destruct Hi as (y & Ey & Hy). apply filter_In in Hy.
  apply in_map_iff. exists y. split; [exact Ey|apply Hy].
Qed.

Lemma other_not_in n l : ~ In n (map e_name (filter (other n) l)).
Proof.
  intros Hi. apply in_map_iff in Hi. destruct Hi as (y & Ey & Hy). apply filter_In in Hy. destruct Hy as [_ Ho].
  unfold other in Ho. rewrite Ey, bytes_eqb_refl in Ho. discriminate.
Qed.

(* with distinct names the filter drops at most one entry *)
Lemma filter_other_length n l : NoDup (map e_name l) -> (length l <= S (length (filter (other n) l)))%nat.
Proof.
  induction l as [|x r IH]; intros Hn; [cbn; lia|]. inversion Hn as [|? ? Hx Hr]; subst. cbn [filter].
  destruct (other n x) eqn:Eo; [cbn [length]; specialize (IH Hr); lia|].
  unfold other in Eo. destruct (bytes_eqb_spec (e_name x) n) as [E|_]; [|discriminate].
  rewrite filter_all; [cbn [length]; lia|].
  intros y Hy. unfold other. destruct (bytes_eqb_spec (e_name y) n) as [E'|_]; [|reflexivity].
  exfalso. apply Hx. rewrite E, <- E'. apply in_map. exact Hy.
Qed.

Lemma mstep_set_nodup e m : NoDup (map e_name m) -> NoDup (map e_name (e :: filter (other (e_name e)) m)).
Proof. intros Hn. cbn [map]. constructor; [apply other_not_in|apply filter_names_nodup; exact Hn]. Qed.

Lemma assoc_del_present {A} k (v0 : A) l : NoDup (map fst l) -> In (k, v0) l ->
  exists l1 l2, l = l1 ++ (k, v0) :: l2 /\ assoc_del k l = l1 ++ l2.
Proof.
  induction l as [|[k' v'] r IH]; cbn; intros Hnd Hin; [destruct Hin|].
  inversion Hnd as [|? ? Hn Hr]; subst.
  destruct (N.eqb_spec k k') as [->|Hne].
  - destruct Hin as [E|Hin]; [inversion E; subst; exists [], r; auto|].
    exfalso. apply Hn. apply in_map_iff. exists (k', v0). auto.
  - destruct Hin as [E|Hin]; [inversion E; congruence|].
    destruct (IH Hr Hin) as (l1 & l2 & -> & ->). exists ((k', v') :: l1), l2. auto.
Qed.

(* a slice error is never ENotFound *)
Lemma slice_bits_not_nf hb fuel : forall off w, slice_bits fuel hb off w <> Err ENotFound.
Proof.
  induction fuel as [|f IH]; intros off w; cbn [slice_bits]; [discriminate|].
  destruct (nth_byte hb (off / 8)); [|discriminate]. destruct (w <=? 8 - off mod 8); [discriminate|].
  destruct (slice_bits f hb (off + (8 - off mod 8)) (w - (8 - off mod 8))) as [r|er|] eqn:E; cbn [bind]; [discriminate| |discriminate].
  intros [= ->]. exact (IH _ _ E).
Qed.
Lemma slice_err_not_nf hb off w : hb_slice hb off w <> Err ENotFound.
Proof. unfold hb_slice. destruct (_ <? _); [discriminate|apply slice_bits_not_nf]. Qed.

Section RefProofs.
  Variables (size lg : N).
  Hypothesis Hperm : permitted size lg.
  Variable H : bytes -> bytes.
  Hypothesis H_wf : forall k, wf_bytes (H k) = true.
  Hypothesis H_len : forall k, length (H k) = 8%nat.
  Notation bok := (bok size H).

  Definition tinv (d : N) (cs : list (N * bnode)) : Prop :=
    bwf lg d (BShard cs) /\ bok (BShard cs) /\ bmin (BShard cs) /\ NoDup (map e_name (entries_in cs)).

  (* an entry under another bucket has another name *)
  Lemma other_bucket d cs b' c b name x :
    bwf lg d (BShard cs) -> bok (BShard cs) -> In (b', c) cs -> b' <> b -> slice_at lg (H name) d = Ok b ->
    In x (entries_of c) -> other name x = true.
  Proof.
    intros Hw Hk Hin Hne Hs Hx.
    destruct (proj1 (bwf_shard lg d cs) Hw) as [_ Hall]. rewrite bwf_all_forall, Forall_forall in Hall.
    destruct (Hall _ Hin) as [Hsl _]. cbn [fst snd] in Hsl.
    rewrite bok_shard, Forall_forall in Hk. destruct (Hk _ Hin) as (_ & _ & Hc). cbn [snd] in Hc.
    destruct (bok_entry size H c x Hc Hx) as [_ Hh].
    unfold other. destruct (bytes_eqb_spec (e_name x) name) as [E|_]; [|reflexivity].
    exfalso. specialize (Hsl x Hx). rewrite Hh, E, Hs in Hsl. inversion Hsl. congruence.
  Qed.

  Lemma filter_others d cs (l : list (N * bnode)) b name :
    bwf lg d (BShard cs) -> bok (BShard cs) -> slice_at lg (H name) d = Ok b ->
    incl l cs -> ~ In b (map fst l) -> filter (other name) (entries_in l) = entries_in l.
  Proof.
    intros Hw Hk Hs Hincl Hnb. apply filter_all. intros x Hx. unfold entries_in in Hx. apply in_flat_map in Hx.
    destruct Hx as ([b' c'] & Hin & Hx). cbn [snd] in Hx.
    apply (other_bucket d cs b' c' b name x Hw Hk (Hincl _ Hin)); [|exact Hs|exact Hx].
    intros ->. apply Hnb. apply in_map_iff. exists (b, c'). auto.
  Qed.

  (* the entries beside bucket b, when the key hashes to b *)
  Lemma split_others d l1 b c l2 name :
    bwf lg d (BShard (l1 ++ (b, c) :: l2)) -> bok (BShard (l1 ++ (b, c) :: l2)) -> slice_at lg (H name) d = Ok b ->
    filter (other name) (entries_in l1) = entries_in l1 /\ filter (other name) (entries_in l2) = entries_in l2.
  Proof.
    intros Hw Hk Hs. destruct (proj1 (bwf_shard lg d _) Hw) as [Hnd _].
    rewrite map_app in Hnd. cbn [map fst] in Hnd. apply NoDup_remove_2 in Hnd.
    split; apply (filter_others d (l1 ++ (b, c) :: l2) _ b name Hw Hk Hs).
    - intros x Hx. apply in_or_app. left. exact Hx.
    - intros Hi. apply Hnd. apply in_or_app. left. exact Hi.
    - intros x Hx. apply in_or_app. right. right. exact Hx.
    - intros Hi. apply Hnd. apply in_or_app. right. exact Hi.
  Qed.

  Lemma tinv_nil d : tinv d [].
  Proof. split; [apply bwf_shard_intro; [constructor|exact I]|]. split; [exact I|]. split; [exact I|constructor]. Qed.

  (* ---- the three structural moves: replace the child of a bucket, drop it, add one in a free bucket ---- *)
  Lemma replace_child d l1 b c c' l2 :
    bwf lg d (BShard (l1 ++ (b, c) :: l2)) -> bok (BShard (l1 ++ (b, c) :: l2)) -> bmin (BShard (l1 ++ (b, c) :: l2)) ->
    (forall x, In x (entries_of c') -> slice_at lg (e_hash x) d = Ok b) -> bwf lg (d + 1) c' ->
    c' <> BShard [] -> bok c' -> bmin1 (b, c') ->
    bwf lg d (BShard (l1 ++ (b, c') :: l2)) /\ bok (BShard (l1 ++ (b, c') :: l2)) /\ bmin (BShard (l1 ++ (b, c') :: l2)).
  Proof.
    intros Hw Hk Hm Hsl Hwc Hne Hkc Hmc.
    destruct (proj1 (bwf_shard lg d _) Hw) as [Hnd Hall]. rewrite bwf_all_forall in Hall. apply Forall_app in Hall.
    destruct Hall as [Ha1 Ha2]. inversion Ha2 as [|? ? _ Ha2']; subst.
    rewrite bok_shard in Hk. apply Forall_app in Hk. destruct Hk as [Hk1 Hk2]. inversion Hk2 as [|? ? (Hb & _ & _) Hk2']; subst.
    rewrite bmin_shard in Hm. apply Forall_app in Hm. destruct Hm as [Hm1 Hm2]. inversion Hm2 as [|? ? _ Hm2']; subst.
    cbn [fst] in Hb.
    split; [|split].
    - apply bwf_shard_intro; [rewrite map_app in *; cbn [map fst] in *; exact Hnd|].
      rewrite bwf_all_forall. apply Forall_app. split; [exact Ha1|]. constructor; [|exact Ha2']. cbn [fst snd]. split; assumption.
    - rewrite bok_shard. apply Forall_app. split; [exact Hk1|]. constructor; [|exact Hk2']. split; [exact Hb|]. cbn [snd]. split; assumption.
    - rewrite bmin_shard. apply Forall_app. split; [exact Hm1|]. constructor; [exact Hmc|exact Hm2'].
  Qed.

  Lemma drop_child d l1 b c l2 :
    bwf lg d (BShard (l1 ++ (b, c) :: l2)) -> bok (BShard (l1 ++ (b, c) :: l2)) -> bmin (BShard (l1 ++ (b, c) :: l2)) ->
    bwf lg d (BShard (l1 ++ l2)) /\ bok (BShard (l1 ++ l2)) /\ bmin (BShard (l1 ++ l2)).
  Proof.
    intros Hw Hk Hm.
    destruct (proj1 (bwf_shard lg d _) Hw) as [Hnd Hall]. rewrite bwf_all_forall in Hall. apply Forall_app in Hall.
    destruct Hall as [Ha1 Ha2]. inversion Ha2 as [|? ? _ Ha2']; subst.
    rewrite bok_shard in Hk. apply Forall_app in Hk. destruct Hk as [Hk1 Hk2]. inversion Hk2 as [|? ? _ Hk2']; subst.
    rewrite bmin_shard in Hm. apply Forall_app in Hm. destruct Hm as [Hm1 Hm2]. inversion Hm2 as [|? ? _ Hm2']; subst.
    split; [|split].
    - apply bwf_shard_intro.
      + rewrite map_app in *. cbn [map fst] in Hnd. apply NoDup_remove_1 in Hnd. exact Hnd.
      + rewrite bwf_all_forall. apply Forall_app. split; assumption.
    - rewrite bok_shard. apply Forall_app. split; assumption.
    - rewrite bmin_shard. apply Forall_app. split; assumption.
  Qed.

  Lemma append_value d cs b e :
    bwf lg d (BShard cs) -> bok (BShard cs) -> bmin (BShard cs) -> ~ In b (map fst cs) ->
    slice_at lg (e_hash e) d = Ok b -> b < size -> bok (BVal e) ->
    bwf lg d (BShard (cs ++ [(b, BVal e)])) /\ bok (BShard (cs ++ [(b, BVal e)])) /\ bmin (BShard (cs ++ [(b, BVal e)])).
  Proof.
    intros Hw Hk Hm Hnb Hs Hb He.
    destruct (proj1 (bwf_shard lg d _) Hw) as [Hnd Hall].
    split; [|split].
    - apply bwf_shard_intro.
      + rewrite map_app. cbn [map fst]. apply NoDup_app_single; assumption.
      + rewrite bwf_all_forall in *. apply Forall_app. split; [exact Hall|]. constructor; [|constructor].
        cbn [fst snd entries_of]. split; [|exact I]. intros x [<-|[]]. exact Hs.
    - rewrite bok_shard in *. apply Forall_app. split; [exact Hk|]. constructor; [|constructor].
      split; [exact Hb|]. cbn [snd]. split; [discriminate|exact He].
    - rewrite bmin_shard in *. apply Forall_app. split; [exact Hm|]. constructor; [|constructor]. split; exact I.
  Qed.

  (* the parts of the invariants a child inherits *)
  Lemma child_inv d l1 b c l2 :
    tinv d (l1 ++ (b, c) :: l2) ->
    (forall x, In x (entries_of c) -> slice_at lg (e_hash x) d = Ok b) /\ bwf lg (d + 1) c /\ b < size /\ bok c /\ bmin1 (b, c)
    /\ NoDup (map e_name (entries_of c)).
  Proof.
    intros (Hw & Hk & Hm & Hn).
    destruct (proj1 (bwf_shard lg d _) Hw) as [_ Hall]. rewrite bwf_all_forall in Hall. apply Forall_app in Hall.
    destruct Hall as [_ Ha2]. inversion Ha2 as [|? ? [Hs Hwc] _]; subst.
    rewrite bok_shard in Hk. apply Forall_app in Hk. destruct Hk as [_ Hk2]. inversion Hk2 as [|? ? (Hb & _ & Hkc) _]; subst.
    rewrite bmin_shard in Hm. apply Forall_app in Hm. destruct Hm as [_ Hm2]. inversion Hm2 as [|? ? Hmc _]; subst.
    rewrite entries_in_mid, !map_app in Hn. apply NoDup_app_r, NoDup_app_l in Hn.
    cbn [fst snd] in *. split; [exact Hs|]. split; [exact Hwc|]. split; [exact Hb|]. split; [exact Hkc|]. split; [exact Hmc|exact Hn].
  Qed.

  Lemma bok_hash e : bok (BVal e) -> e_hash e = H (e_name e).
  Proof. intros [_ E]. exact E. Qed.

  Lemma perm_names {l l' : list entry} : Permutation l l' -> NoDup (map e_name l') -> NoDup (map e_name l).
  Proof. intros Hp Hn. eapply Permutation_NoDup; [apply Permutation_map, Permutation_sym; exact Hp|exact Hn]. Qed.

  (* ---- Set ---- *)
  Lemma rset_spec fuel : forall d cs e cs',
    tinv d cs -> bok (BVal e) -> rset lg fuel d cs e = Ok cs' ->
    tinv d cs' /\ cs' <> [] /\ Permutation (entries_in cs') (e :: filter (other (e_name e)) (entries_in cs)).
  Proof.
    induction fuel as [|f IH]; intros d cs e cs' Hinv He Ha; [discriminate|].
    cbn [rset] in Ha. fold (slice_at lg (e_hash e) d) in Ha.
    destruct (slice_at lg (e_hash e) d) as [b| |] eqn:Eb; try discriminate. cbn [bind] in Ha.
    assert (Hb : b < size). { pose proof Eb as Eb'. rewrite (bok_hash e He) in Eb'. apply (slice_H_ok size lg Hperm H H_wf H_len _ _ _ Eb'). }
    assert (EbH : slice_at lg (H (e_name e)) d = Ok b) by (rewrite <- (bok_hash e He); exact Eb).
    pose proof Hinv as (Hw & Hk & Hm & Hn).
    destruct (proj1 (bwf_shard lg d cs) Hw) as [Hnd _].
    destruct (assoc_get b cs) as [[cur|sub]|] eqn:Eg.
    - (* a value sits in the bucket *)
      apply (assoc_get_in b (BVal cur) cs Hnd) in Eg.
      destruct (bytes_eqb_spec (e_name cur) (e_name e)) as [En|En].
      + (* same key: the value is replaced *)
        inversion Ha; subst cs'.
        destruct (assoc_set_present b (BVal e) (BVal cur) cs Hnd Eg) as (l1 & l2 & Hcs & Hset). rewrite Hset. subst cs.
        destruct (split_others d l1 b (BVal cur) l2 (e_name e) Hw Hk EbH) as [F1 F2].
        destruct (replace_child d l1 b (BVal cur) (BVal e) l2 Hw Hk Hm) as (Hw' & Hk' & Hm');
          [intros x [<-|[]]; exact Eb|exact I|discriminate|exact He|split; exact I|].
        assert (Hp : Permutation (entries_in (l1 ++ (b, BVal e) :: l2)) (e :: filter (other (e_name e)) (entries_in (l1 ++ (b, BVal cur) :: l2)))).
        { rewrite !entries_in_mid, !filter_app, F1, F2. cbn [entries_of filter]. unfold other at 1. rewrite En, bytes_eqb_refl. cbn [negb app].
          apply Permutation_sym, Permutation_middle. }
        split; [|split; [destruct l1; discriminate|exact Hp]].
        split; [exact Hw'|]. split; [exact Hk'|]. split; [exact Hm'|]. apply (perm_names Hp). apply mstep_set_nodup. exact Hn.
      + (* another key: fork the value into a fresh sub-shard, the new entry first *)
        destruct (rset lg f (d + 1) [] e) as [s1| |] eqn:E1; try discriminate. cbn [bind] in Ha.
        destruct (rset lg f (d + 1) s1 cur) as [s2| |] eqn:E2; try discriminate. cbn [bind] in Ha. inversion Ha; subst cs'.
        destruct (assoc_set_present b (BShard s2) (BVal cur) cs Hnd Eg) as (l1 & l2 & Hcs & Hset). rewrite Hset. subst cs.
        destruct (child_inv d l1 b (BVal cur) l2 Hinv) as (Hcs & _ & _ & Hkcur & _ & _).
        destruct (IH (d + 1) [] e s1 (tinv_nil (d + 1)) He E1) as (Hi1 & _ & Hp1).
        cbn [entries_in flat_map filter] in Hp1. apply Permutation_sym, Permutation_length_1_inv in Hp1.
        destruct (IH (d + 1) s1 cur s2 Hi1 Hkcur E2) as (Hi2 & Hne2 & Hp2).
        rewrite Hp1 in Hp2. cbn [filter] in Hp2.
        assert (Eo : other (e_name cur) e = true).
        { unfold other. destruct (bytes_eqb_spec (e_name e) (e_name cur)) as [E|_]; [exfalso; apply En; symmetry; exact E|reflexivity]. }
        rewrite Eo in Hp2.
        destruct Hi2 as (Hw2 & Hk2 & Hm2 & Hn2).
        destruct (split_others d l1 b (BVal cur) l2 (e_name e) Hw Hk EbH) as [F1 F2].
        destruct (replace_child d l1 b (BVal cur) (BShard s2) l2 Hw Hk Hm) as (Hw' & Hk' & Hm').
        * intros x Hx. change (entries_of (BShard s2)) with (entries_in s2) in Hx. apply (Permutation_in _ Hp2) in Hx.
          destruct Hx as [<-|[<-|[]]]; [apply Hcs; left; reflexivity|exact Eb].
        * exact Hw2.
        * intros [= E]. exact (Hne2 E).
        * exact Hk2.
        * split; [|exact Hm2]. cbn [snd]. change (entries_of (BShard s2)) with (entries_in s2). rewrite (Permutation_length Hp2). cbn. lia.
        * assert (Hp : Permutation (entries_in (l1 ++ (b, BShard s2) :: l2)) (e :: filter (other (e_name e)) (entries_in (l1 ++ (b, BVal cur) :: l2)))).
          { rewrite !entries_in_mid, !filter_app, F1, F2. cbn [entries_of filter].
            change (flat_map (fun kc => entries_of (snd kc)) s2) with (entries_in s2).
            assert (Eoc : other (e_name e) cur = true).
            { unfold other. destruct (bytes_eqb_spec (e_name cur) (e_name e)) as [E|_]; [exfalso; apply En; exact E|reflexivity]. }
            rewrite Eoc. rewrite Hp2. cbn [app].
            apply Permutation_sym.
            change (entries_in l1 ++ cur :: e :: entries_in l2) with (entries_in l1 ++ [cur] ++ e :: entries_in l2).
            rewrite app_assoc. apply (Permutation_cons_app (entries_in l1 ++ [cur]) (entries_in l2) e).
            rewrite <- app_assoc. cbn [app]. apply Permutation_refl. }
          split; [|split; [destruct l1; discriminate|exact Hp]].
          split; [exact Hw'|]. split; [exact Hk'|]. split; [exact Hm'|]. apply (perm_names Hp). apply mstep_set_nodup. exact Hn.
    - (* a sub-shard: descend *)
      apply (assoc_get_in b (BShard sub) cs Hnd) in Eg.
      destruct (rset lg f (d + 1) sub e) as [sub'| |] eqn:E1; try discriminate. cbn [bind] in Ha. inversion Ha; subst cs'.
      destruct (assoc_set_present b (BShard sub') (BShard sub) cs Hnd Eg) as (l1 & l2 & Hcs & Hset). rewrite Hset. subst cs.
      destruct (child_inv d l1 b (BShard sub) l2 Hinv) as (Hsl & Hwsub & _ & Hksub & [Hlen Hmsub] & Hnsub).
      cbn [snd] in Hlen, Hmsub. change (entries_of (BShard sub)) with (entries_in sub) in *.
      destruct (IH (d + 1) sub e sub' (conj Hwsub (conj Hksub (conj Hmsub Hnsub))) He E1) as ((Hw2 & Hk2 & Hm2 & Hn2) & Hne2 & Hp2).
      destruct (split_others d l1 b (BShard sub) l2 (e_name e) Hw Hk EbH) as [F1 F2].
      destruct (replace_child d l1 b (BShard sub) (BShard sub') l2 Hw Hk Hm) as (Hw' & Hk' & Hm').
      * intros x Hx. change (entries_of (BShard sub')) with (entries_in sub') in Hx. apply (Permutation_in _ Hp2) in Hx.
        destruct Hx as [<-|Hx]; [exact Eb|]. apply filter_In in Hx. apply Hsl. apply Hx.
      * exact Hw2.
      * intros [= E]. exact (Hne2 E).
      * exact Hk2.
      * split; [|exact Hm2]. cbn [snd]. change (entries_of (BShard sub')) with (entries_in sub'). rewrite (Permutation_length Hp2). cbn [length].
        pose proof (filter_other_length (e_name e) (entries_in sub) Hnsub). lia.
      * assert (Hp : Permutation (entries_in (l1 ++ (b, BShard sub') :: l2)) (e :: filter (other (e_name e)) (entries_in (l1 ++ (b, BShard sub) :: l2)))).
        { rewrite !entries_in_mid, !filter_app, F1, F2.
          change (entries_of (BShard sub')) with (entries_in sub'). change (entries_of (BShard sub)) with (entries_in sub).
          rewrite Hp2. cbn [app]. apply Permutation_sym, Permutation_middle. }
        split; [|split; [destruct l1; discriminate|exact Hp]].
        split; [exact Hw'|]. split; [exact Hk'|]. split; [exact Hm'|]. apply (perm_names Hp). apply mstep_set_nodup. exact Hn.
    - (* a free bucket *)
      inversion Ha; subst cs'. apply assoc_get_none in Eg. rewrite (assoc_set_absent b (BVal e) cs Eg).
      destruct (append_value d cs b e Hw Hk Hm Eg Eb Hb He) as (Hw' & Hk' & Hm').
      assert (Hp : Permutation (entries_in (cs ++ [(b, BVal e)])) (e :: filter (other (e_name e)) (entries_in cs))).
      { rewrite (filter_others d cs cs b (e_name e) Hw Hk EbH (incl_refl cs) Eg).
        unfold entries_in. rewrite flat_map_app. cbn [flat_map snd entries_of app]. apply Permutation_sym, Permutation_cons_append. }
      split; [|split; [destruct cs; discriminate|exact Hp]].
      split; [exact Hw'|]. split; [exact Hk'|]. split; [exact Hm'|]. apply (perm_names Hp). apply mstep_set_nodup. exact Hn.
  Qed.

  (* a shard that is neither empty nor a single value holds at least two entries *)
  Lemma two_entries sub : bok (BShard sub) -> bmin (BShard sub) -> sub <> [] -> (forall k v, sub <> [(k, BVal v)]) ->
    (2 <= length (entries_in sub))%nat.
  Proof.
    intros Hk Hm Hne Hnv. rewrite bok_shard in Hk. rewrite bmin_shard in Hm.
    destruct sub as [|[k c] r]; [congruence|].
    inversion Hk as [|? ? (_ & Hc & Hkc) Hkr]; subst. inversion Hm as [|? ? [Hl _] Hmr]; subst. cbn [snd] in *.
    cbn [entries_in flat_map snd]. rewrite app_length.
    destruct r as [|[k2 c2] r2].
    - destruct c as [v|s]; [exfalso; apply (Hnv k v); reflexivity|]. cbn [flat_map]. lia.
    - inversion Hkr as [|? ? (_ & Hc2 & Hkc2) _]; subst. cbn [snd] in *.
      pose proof (bok_entries size H c Hkc Hc) as N1. pose proof (bok_entries size H c2 Hkc2 Hc2) as N2.
      cbn [flat_map snd]. rewrite app_length.
      destruct (entries_of c); [congruence|]. destruct (entries_of c2); [congruence|]. cbn [length]. lia.
  Qed.

  (* ---- Remove ---- *)
  Lemma rdel_spec fuel : forall d cs name cs',
    tinv d cs -> rdel lg fuel d cs name (H name) = Ok cs' ->
    tinv d cs' /\ Permutation (entries_in cs') (filter (other name) (entries_in cs)).
  Proof.
    induction fuel as [|f IH]; intros d cs name cs' Hinv Ha; [discriminate|].
    cbn [rdel] in Ha. fold (slice_at lg (H name) d) in Ha.
    destruct (slice_at lg (H name) d) as [b| |] eqn:Eb; try discriminate. cbn [bind] in Ha.
    pose proof Hinv as (Hw & Hk & Hm & Hn).
    destruct (proj1 (bwf_shard lg d cs) Hw) as [Hnd _].
    destruct (assoc_get b cs) as [[cur|sub]|] eqn:Eg; [| |discriminate].
    - apply (assoc_get_in b (BVal cur) cs Hnd) in Eg.
      destruct (bytes_eqb_spec (e_name cur) name) as [En|En]; [|discriminate].
      inversion Ha; subst cs'.
      destruct (assoc_del_present b (BVal cur) cs Hnd Eg) as (l1 & l2 & Hcs & Hdel). rewrite Hdel. subst cs.
      destruct (split_others d l1 b (BVal cur) l2 name Hw Hk Eb) as [F1 F2].
      destruct (drop_child d l1 b (BVal cur) l2 Hw Hk Hm) as (Hw' & Hk' & Hm').
      assert (Hp : Permutation (entries_in (l1 ++ l2)) (filter (other name) (entries_in (l1 ++ (b, BVal cur) :: l2)))).
      { rewrite entries_in_mid, !filter_app, F1, F2. cbn [entries_of filter]. unfold other at 1. rewrite En, bytes_eqb_refl. cbn [negb app].
        unfold entries_in. rewrite flat_map_app. apply Permutation_refl. }
      split; [|exact Hp]. split; [exact Hw'|]. split; [exact Hk'|]. split; [exact Hm'|].
      apply (perm_names Hp). apply filter_names_nodup. exact Hn.
    - apply (assoc_get_in b (BShard sub) cs Hnd) in Eg.
      destruct (rdel lg f (d + 1) sub name (H name)) as [sub'| |] eqn:E1; try discriminate. cbn [bind] in Ha.
      assert (Hsplit : exists l1 l2, cs = l1 ++ (b, BShard sub) :: l2).
      { destruct (assoc_del_present b (BShard sub) cs Hnd Eg) as (l1 & l2 & Hcs & _). exists l1, l2. exact Hcs. }
      destruct Hsplit as (l1 & l2 & Hcs).
      assert (Edel : assoc_del b cs = l1 ++ l2).
      { destruct (assoc_del_present b (BShard sub) cs Hnd Eg) as (l1' & l2' & Hcs' & Hdel). rewrite Hdel.
        subst cs. clear - Hcs' Hnd.
        assert (G : forall (a1 a2 b1 b2 : list (N * bnode)) c, NoDup (map fst (a1 ++ (b, c) :: a2)) -> a1 ++ (b, c) :: a2 = b1 ++ (b, c) :: b2 -> a1 = b1 /\ a2 = b2).
        { induction a1 as [|x a1 IHa]; intros a2 b1 b2 c Hn E.
          - destruct b1 as [|y b1]; [inversion E; auto|]. cbn in E. inversion E; subst. exfalso.
            cbn in Hn. inversion Hn as [|? ? Hx _]; subst. apply Hx. rewrite map_app. apply in_or_app. right. left. reflexivity.
          - destruct b1 as [|y b1].
            + cbn in E. inversion E; subst. exfalso. cbn in Hn. inversion Hn as [|? ? Hx _]; subst. apply Hx. rewrite map_app. apply in_or_app. right. left. reflexivity.
            + cbn in E. inversion E; subst. cbn in Hn. inversion Hn; subst. destruct (IHa a2 b1 b2 c ltac:(assumption) ltac:(assumption)) as [-> ->]. auto. }
        destruct (G l1 l2 l1' l2' (BShard sub) Hnd Hcs') as [-> ->]. reflexivity. }
      assert (Eset : forall c', assoc_set b c' cs = l1 ++ (b, c') :: l2).
      { intros c'. destruct (assoc_set_present b c' (BShard sub) cs Hnd Eg) as (l1' & l2' & Hcs' & Hset). rewrite Hset.
        rewrite Hcs in Hcs'. clear - Hcs' Hnd Hcs. rewrite Hcs in Hnd.
        assert (G : forall (a1 a2 b1 b2 : list (N * bnode)) c, NoDup (map fst (a1 ++ (b, c) :: a2)) -> a1 ++ (b, c) :: a2 = b1 ++ (b, c) :: b2 -> a1 = b1 /\ a2 = b2).
        { induction a1 as [|x a1 IHa]; intros a2 b1 b2 c Hn E.
          - destruct b1 as [|y b1]; [inversion E; auto|]. cbn in E. inversion E; subst. exfalso.
            cbn in Hn. inversion Hn as [|? ? Hx _]; subst. apply Hx. rewrite map_app. apply in_or_app. right. left. reflexivity.
          - destruct b1 as [|y b1].
            + cbn in E. inversion E; subst. exfalso. cbn in Hn. inversion Hn as [|? ? Hx _]; subst. apply Hx. rewrite map_app. apply in_or_app. right. left. reflexivity.
            + cbn in E. inversion E; subst. cbn in Hn. inversion Hn; subst. destruct (IHa a2 b1 b2 c ltac:(assumption) ltac:(assumption)) as [-> ->]. auto. }
        destruct (G l1 l2 l1' l2' (BShard sub) Hnd Hcs') as [-> ->]. reflexivity. }
      subst cs.
      destruct (child_inv d l1 b (BShard sub) l2 Hinv) as (Hsl & Hwsub & Hb & Hksub & [Hlen Hmsub] & Hnsub).
      cbn [snd] in Hlen, Hmsub. change (entries_of (BShard sub)) with (entries_in sub) in *.
      destruct (IH (d + 1) sub name sub' (conj Hwsub (conj Hksub (conj Hmsub Hnsub))) E1) as ((Hw2 & Hk2 & Hm2 & Hn2) & Hp2).
      destruct (split_others d l1 b (BShard sub) l2 name Hw Hk Eb) as [F1 F2].
      assert (Hsl' : forall x, In x (entries_in sub') -> slice_at lg (e_hash x) d = Ok b).
      { intros x Hx. apply (Permutation_in _ Hp2) in Hx. apply filter_In in Hx. apply Hsl. apply Hx. }
      (* what the three outcomes have in common *)
      assert (Hkeep : forall c', entries_of c' = entries_in sub' -> bwf lg (d + 1) c' -> c' <> BShard [] -> bok c' -> bmin1 (b, c') ->
                tinv d (l1 ++ (b, c') :: l2) /\
                Permutation (entries_in (l1 ++ (b, c') :: l2)) (filter (other name) (entries_in (l1 ++ (b, BShard sub) :: l2)))).
      { intros c' Ec Hwc Hnec Hkc Hmc.
        destruct (replace_child d l1 b (BShard sub) c' l2 Hw Hk Hm) as (Hw' & Hk' & Hm'); try assumption.
        { intros x Hx. rewrite Ec in Hx. apply Hsl'. exact Hx. }
        assert (Hp : Permutation (entries_in (l1 ++ (b, c') :: l2)) (filter (other name) (entries_in (l1 ++ (b, BShard sub) :: l2)))).
        { rewrite !entries_in_mid, !filter_app, F1, F2, Ec. change (entries_of (BShard sub)) with (entries_in sub).
          apply Permutation_app_head, Permutation_app_tail. exact Hp2. }
        split; [|exact Hp]. split; [exact Hw'|]. split; [exact Hk'|]. split; [exact Hm'|].
        apply (perm_names Hp). apply filter_names_nodup. exact Hn. }
      assert (Hshard : sub' <> [] -> (forall k v, sub' <> [(k, BVal v)]) ->
                tinv d (l1 ++ (b, BShard sub') :: l2) /\
                Permutation (entries_in (l1 ++ (b, BShard sub') :: l2)) (filter (other name) (entries_in (l1 ++ (b, BShard sub) :: l2)))).
      { intros Hne Hnv. apply Hkeep; [reflexivity|exact Hw2|intros [= E]; exact (Hne E)|exact Hk2|].
        split; [|exact Hm2]. cbn [snd]. apply (two_entries sub' Hk2 Hm2 Hne Hnv). }
      destruct sub' as [|[k c] r].
      + (* the sub-shard became empty: pruned *)
        inversion Ha; subst cs'. rewrite Edel.
        destruct (drop_child d l1 b (BShard sub) l2 Hw Hk Hm) as (Hw' & Hk' & Hm').
        assert (Hp : Permutation (entries_in (l1 ++ l2)) (filter (other name) (entries_in (l1 ++ (b, BShard sub) :: l2)))).
        { rewrite entries_in_mid, !filter_app, F1, F2. change (entries_of (BShard sub)) with (entries_in sub).
          cbn [entries_in flat_map] in Hp2. apply Permutation_nil in Hp2. rewrite Hp2. cbn [app].
          unfold entries_in. rewrite flat_map_app. apply Permutation_refl. }
        split; [|exact Hp]. split; [exact Hw'|]. split; [exact Hk'|]. split; [exact Hm'|].
        apply (perm_names Hp). apply filter_names_nodup. exact Hn.
      + destruct c as [v|s].
        * destruct r as [|kc2 r2].
          -- (* a single value is left: it takes the sub-shard's place *)
             inversion Ha; subst cs'. rewrite Eset.
             apply Hkeep; [cbn; reflexivity|exact I|discriminate| |split; exact I].
             rewrite bok_shard in Hk2. inversion Hk2 as [|? ? (_ & _ & Hv) _]; subst. exact Hv.
          -- inversion Ha; subst cs'. rewrite Eset. apply Hshard; [discriminate|intros k0 v0; discriminate].
        * inversion Ha; subst cs'. rewrite Eset. apply Hshard; [discriminate|].
          intros k0 v0 E. destruct r; discriminate.
  Qed.

  (* Remove reports ErrNotExist only for a name that is not in the shard *)
  Lemma rdel_notfound fuel : forall d cs name,
    bwf lg d (BShard cs) -> bok (BShard cs) -> rdel lg fuel d cs name (H name) = Err ENotFound ->
    filter (other name) (entries_in cs) = entries_in cs.
  Proof.
    induction fuel as [|f IH]; intros d cs name Hw Hk Ha; [discriminate|].
    cbn [rdel] in Ha. fold (slice_at lg (H name) d) in Ha.
    destruct (slice_at lg (H name) d) as [b| |] eqn:Eb; [|  |discriminate].
    2:{ exfalso. cbn [bind] in Ha. inversion Ha; subst. exact (slice_err_not_nf _ _ _ Eb). }
    cbn [bind] in Ha.
    destruct (proj1 (bwf_shard lg d cs) Hw) as [Hnd _].
    destruct (assoc_get b cs) as [[cur|sub]|] eqn:Eg.
    - apply (assoc_get_in b (BVal cur) cs Hnd) in Eg.
      destruct (bytes_eqb_spec (e_name cur) name) as [En|En]; [discriminate|].
      destruct (assoc_del_present b (BVal cur) cs Hnd Eg) as (l1 & l2 & Hcs & _). subst cs.
      destruct (split_others d l1 b (BVal cur) l2 name Hw Hk Eb) as [F1 F2].
      rewrite entries_in_mid, !filter_app, F1, F2. cbn [entries_of filter]. unfold other at 1.
      destruct (bytes_eqb_spec (e_name cur) name) as [E|_]; [contradiction|]. reflexivity.
    - apply (assoc_get_in b (BShard sub) cs Hnd) in Eg.
      destruct (assoc_del_present b (BShard sub) cs Hnd Eg) as (l1 & l2 & Hcs & _). subst cs.
      destruct (split_others d l1 b (BShard sub) l2 name Hw Hk Eb) as [F1 F2].
      destruct (rdel lg f (d + 1) sub name (H name)) as [sub'|er|] eqn:E1.
      + exfalso. cbn [bind] in Ha. destruct sub' as [|[k [v|s]] [|kc2 r2]]; discriminate.
      + cbn [bind] in Ha. inversion Ha; subst er.
        destruct (proj1 (bwf_shard lg d _) Hw) as [_ Hall]. rewrite bwf_all_forall in Hall. apply Forall_app in Hall.
        destruct Hall as [_ Ha2]. inversion Ha2 as [|? ? [_ Hwsub] _]; subst. cbn [snd] in Hwsub.
        pose proof Hk as Hk0. rewrite bok_shard in Hk0. apply Forall_app in Hk0. destruct Hk0 as [_ Hk2]. inversion Hk2 as [|? ? (_ & _ & Hksub) _]; subst.
        cbn [snd] in Hksub.
        rewrite entries_in_mid, !filter_app, F1, F2. change (entries_of (BShard sub)) with (entries_in sub).
        rewrite (IH (d + 1) sub name Hwsub Hksub E1). reflexivity.
      + discriminate.
    - apply assoc_get_none in Eg. apply (filter_others d cs cs b name Hw Hk Eb (incl_refl cs) Eg).
  Qed.

  (* ---- histories ---- *)
  Definition hop_ok (o : hop) : Prop :=
    match o with HSet e => entry_ok H e | HDel n h => h = H n end.

  Lemma hfold_err fuel ops : forall x, (forall c, x <> Ok c) -> forall c, hfold lg fuel ops x <> Ok c.
  Proof.
    induction ops as [|o r IH]; intros x Hx c; [apply Hx|]. unfold hfold. cbn [fold_left]. apply IH.
    intros c'. destruct x as [a| |]; [exfalso; apply (Hx a); reflexivity| |]; cbn [bind]; discriminate.
  Qed.

  Lemma hstep_spec fuel t o t' : tinv 0 t -> hop_ok o -> hstep lg fuel t o = Ok t' ->
    tinv 0 t' /\ Permutation (entries_in t') (mstep (entries_in t) o).
  Proof.
    intros Hinv Ho Hs. destruct o as [e|n h]; cbn [hstep mstep hop_ok] in *.
    - destruct (rset_spec fuel 0 t e t' Hinv Ho Hs) as (Hi & _ & Hp). split; assumption.
    - subst h. destruct (rdel lg fuel 0 t n (H n)) as [t2|er|] eqn:Ed.
      + inversion Hs; subst t2. apply (rdel_spec fuel 0 t n t' Hinv Ed).
      + destruct er; try discriminate. inversion Hs; subst t'. split; [exact Hinv|].
        destruct Hinv as (Hw & Hk & _ & _). rewrite (rdel_notfound fuel 0 t n Hw Hk Ed). apply Permutation_refl.
      + discriminate.
  Qed.

  Lemma mstep_perm m m' o : Permutation m m' -> Permutation (mstep m o) (mstep m' o).
  Proof. intros Hp. destruct o as [e|n h]; cbn [mstep]; [constructor|]; apply perm_filter; exact Hp. Qed.

  Lemma mstep_nodup m o : NoDup (map e_name m) -> NoDup (map e_name (mstep m o)).
  Proof. intros Hn. destruct o as [e|n h]; cbn [mstep]; [apply mstep_set_nodup; exact Hn|apply filter_names_nodup; exact Hn]. Qed.

  Lemma hfold_spec fuel ops : forall t m t', tinv 0 t -> Permutation (entries_in t) m -> Forall hop_ok ops ->
    hfold lg fuel ops (Ok t) = Ok t' -> tinv 0 t' /\ Permutation (entries_in t') (fold_left mstep ops m).
  Proof.
    induction ops as [|o r IH]; intros t m t' Hinv Hp Hops Hf.
    - unfold hfold in Hf. cbn [fold_left] in *. inversion Hf; subst. split; assumption.
    - inversion Hops as [|? ? Ho Hr]; subst. unfold hfold in Hf. cbn [fold_left bind] in Hf.
      destruct (hstep lg fuel t o) as [t1|er|] eqn:Es.
      + destruct (hstep_spec fuel t o t1 Hinv Ho Es) as [Hi1 Hp1]. cbn [fold_left].
        apply (IH t1 (mstep m o) t' Hi1); [|exact Hr|exact Hf].
        eapply Permutation_trans; [exact Hp1|apply mstep_perm; exact Hp].
      + exfalso. apply (hfold_err fuel r (Err er) ltac:(discriminate) t' Hf).
      + exfalso. apply (hfold_err fuel r Panic ltac:(discriminate) t' Hf).
  Qed.

  Lemma mrun_nodup ops : forall m, NoDup (map e_name m) -> NoDup (map e_name (fold_left mstep ops m)).
  Proof. induction ops as [|o r IH]; intros m Hn; [exact Hn|]. cbn [fold_left]. apply IH, mstep_nodup, Hn. Qed.

  (* after any history of successful Sets and Removes (a Remove of an absent name changes nothing) the reference trie keeps
     the invariants and holds exactly the abstract directory *)
  Theorem history_spec fuel ops t : Forall hop_ok ops -> hrun lg fuel ops = Ok t ->
    bwf lg 0 (BShard t) /\ bok (BShard t) /\ bmin (BShard t) /\ NoDup (map e_name (mrun ops)) /\ Permutation (entries_in t) (mrun ops).
  Proof.
    intros Hops Hr. destruct (hfold_spec fuel ops [] [] t (tinv_nil 0) (Permutation_refl _) Hops Hr) as ((Hw & Hk & Hm & _) & Hp).
    split; [exact Hw|]. split; [exact Hk|]. split; [exact Hm|]. split; [apply mrun_nodup; constructor|exact Hp].
  Qed.
End RefProofs.

(* ---- what this library makes of a reference-written shard, whatever its history ---- *)
Theorem ref_history_read size lg (Hperm : permitted size lg) (H : bytes -> bytes)
  (H_wf : forall k, wf_bytes (H k) = true) (H_len : forall k, length (H k) = 8%nat) fuel ops t :
  Forall (hop_ok H) ops -> hrun lg fuel ops = Ok t ->
  let root := fst (serialize_node size HashMurmur3 (pad_len size) (BShard t)) in
  let m := mrun ops in
  NoDup (map e_name m)
  /\ (forall e, In e m -> fst (lookup nofault root (H (e_name e)) (e_name e)) = Ok (e_target e))
  /\ (forall key, ~ In key (map e_name m) -> fst (lookup nofault root (H key) key) = Err ENotFound)
  /\ Permutation (map snd (iterate nofault root)) (map yield_of m)
  /\ fst (shard_length nofault root) = Ok (N.of_nat (length m))
  /\ (forall r, build_sharded size HashMurmur3 m = Ok r -> r = serialize_node size HashMurmur3 (pad_len size) (BShard t)).
Proof.
  intros Hops Hr root m.
  destruct (history_spec size lg Hperm H H_wf H_len fuel ops t Hops Hr) as (Hw & Hk & Hm & Hn & Hp).
  change (entries_in t) with (entries_of (BShard t)) in Hp. fold m in Hn, Hp.
  assert (Hnt : NoDup (map e_name (entries_of (BShard t)))) by
      (eapply Permutation_NoDup; [apply Permutation_map, Permutation_sym; exact Hp|exact Hn]).
  destruct (wellformed_shard_is_map size lg Hperm H H_wf H_len t Hw Hk Hnt) as (Hmem & Habs & Hit & Hlen).
  split; [exact Hn|]. split; [|split; [|split; [|split]]].
  - intros e Hin. apply Hmem. eapply Permutation_in; [apply Permutation_sym; exact Hp|exact Hin].
  - intros key Hnk. apply Habs. intros Hi. apply Hnk. eapply Permutation_in; [apply Permutation_map; exact Hp|exact Hi].
  - eapply Permutation_trans; [exact Hit|]. apply Permutation_map. exact Hp.
  - fold root in Hlen. rewrite Hlen, (Permutation_length Hp). reflexivity.
  - intros r Hb.
    assert (Hem : Forall (entry_ok H) m).
    { apply Forall_forall. intros e Hin. apply (bok_entry size H (BShard t) e Hk).
      eapply Permutation_in; [apply Permutation_sym; exact Hp|exact Hin]. }
    unfold build_sharded in Hb. rewrite (log2_exact_permitted size lg Hperm) in Hb.
    destruct (add_all lg m) as [cs| |] eqn:Ea; try discriminate. cbn [bind] in Hb.
    destruct (negb (size mod 8 =? 0)); [discriminate|]. inversion Hb; subst r.
    destruct (add_all_spec lg m cs Ea) as [Hwb Hpb].
    pose proof (add_all_bmin lg m cs Ea) as Hmb.
    assert (Hkb : bok size H (BShard cs)).
    { apply (add_all_bok size lg Hperm H H_wf H_len m cs); [|exact Ea]. eapply Forall_impl; [|exact Hem]. intros e Hx; exact Hx. }
    apply (ser_unique size lg Hperm H (BShard cs) (BShard t) cs t 0 eq_refl eq_refl Hwb Hw Hkb Hk Hmb Hm).
    + change (entries_of (BShard cs)) with (entries_in cs). eapply Permutation_NoDup; [apply Permutation_sym; exact Hpb|].
      apply (NoDup_map_inv e_name). exact Hn.
    + change (entries_of (BShard cs)) with (entries_in cs). rewrite Hpb, Hp. reflexivity.
Qed.

(* the map-node contract on a reference-written shard after any history *)
Corollary ref_history_contract size lg (Hperm : permitted size lg) (H : bytes -> bytes)
  (H_wf : forall k, wf_bytes (H k) = true) (H_len : forall k, length (H k) = 8%nat) fuel ops t :
  Forall (hop_ok H) ops -> hrun lg fuel ops = Ok t ->
  let root := fst (serialize_node size HashMurmur3 (pad_len size) (BShard t)) in
  fst (shard_length nofault root) = Ok (N.of_nat (length (iterate nofault root)))
  /\ (forall k v, In (IYield k v) (map snd (iterate nofault root)) -> fst (lookup nofault root (H k) k) = Ok v)
  /\ (forall k, (forall v, ~ In (IYield k v) (map snd (iterate nofault root))) -> fst (lookup nofault root (H k) k) = Err ENotFound).
Proof.
  intros Hops Hr root.
  destruct (ref_history_read size lg Hperm H H_wf H_len fuel ops t Hops Hr) as (_ & Hm & Ha & Hi & Hl & _). fold root in Hm, Ha, Hi, Hl.
  split; [|split].
  - rewrite Hl. rewrite <- (map_length snd (iterate nofault root)), (Permutation_length Hi), map_length. reflexivity.
  - intros k v Hin. apply (Permutation_in _ Hi) in Hin. apply in_map_iff in Hin. destruct Hin as (e & Ey & Hin).
    inversion Ey; subst. apply Hm. exact Hin.
  - intros k Hno. apply Ha. intros Hin. apply in_map_iff in Hin. destruct Hin as (e & <- & Hin).
    apply (Hno (e_target e)). apply (Permutation_in _ (Permutation_sym Hi)). apply in_map_iff. exists e. split; [reflexivity|exact Hin].
Qed.

(* ---- the bridge: BuildUnixFSShardedDirectory SUCCEEDS on the final entry set of any reference history and returns the very
   root block and cumulative size the reference wrote.  Everything proved about directories built by this library therefore
   holds of reference-written ones, whatever their history. ---- *)
Theorem ref_history_is_the_built_directory size lg (Hperm : permitted size lg) (H : bytes -> bytes)
  (H_wf : forall k, wf_bytes (H k) = true) (H_len : forall k, length (H k) = 8%nat) fuel ops t :
  Forall (hop_ok H) ops -> hrun lg fuel ops = Ok t ->
  Forall (entry_ok H) (mrun ops) /\ NoDup (map e_name (mrun ops)) /\
  build_sharded size HashMurmur3 (mrun ops) = Ok (serialize_node size HashMurmur3 (pad_len size) (BShard t)).
Proof.
  intros Hops Hr.
  destruct (history_spec size lg Hperm H H_wf H_len fuel ops t Hops Hr) as (Hw & Hk & Hm & Hn & Hp).
  assert (Hem : Forall (entry_ok H) (mrun ops)).
  { apply Forall_forall. intros e Hin. apply (bok_entry size H (BShard t) e Hk).
    eapply Permutation_in; [apply Permutation_sym; exact Hp|exact Hin]. }
  split; [exact Hem|]. split; [exact Hn|].
  assert (Hlg : 1 <= lg <= 64) by (destruct Hperm as [_ Hl]; lia).
  assert (Hsep : separated lg (mrun ops)).
  { intros x y Hx Hy Hne. apply (trie_sep lg Hlg (BShard t) 0 x y Hw).
    - intros e Hi. apply (entry_hok H H_wf H_len). apply (bok_entry size H (BShard t) e Hk Hi).
    - eapply Permutation_in; [apply Permutation_sym; exact Hp|exact Hx].
    - eapply Permutation_in; [apply Permutation_sym; exact Hp|exact Hy].
    - exact Hne. }
  destruct (separated_builds size lg Hperm H H_wf H_len (mrun ops) Hem (NoDup_map_inv e_name _ Hn) Hsep) as (cs & Ea).
  assert (Hb : exists r, build_sharded size HashMurmur3 (mrun ops) = Ok r).
  { unfold build_sharded. rewrite (log2_exact_permitted size lg Hperm), Ea. cbn [bind].
    assert (E8 : size mod 8 =? 0 = true).
    { destruct (permitted_cases _ _ Hperm) as [E|[E|[E|[E|[E|[E|[E|E]]]]]]]; clear - E; destruct E as [-> ->]; reflexivity. }
    rewrite E8. cbn [negb]. eexists. reflexivity. }
  destruct Hb as (r & Hb). rewrite Hb. f_equal.
  apply (proj2 (proj2 (proj2 (proj2 (proj2 (ref_history_read size lg Hperm H H_wf H_len fuel ops t Hops Hr))))) r Hb).
Qed.

(* two instances.  Lookups in a reference-written shard under ANY availability of the blocks: the requests are a key-determined
   path of at most one shard per hash level, the first unavailable one gives its load error (never not-found), otherwise the
   answer is the abstract directory's *)
Corollary ref_history_lookup_requests size lg (Hperm : permitted size lg) (H : bytes -> bytes)
  (H_wf : forall k, wf_bytes (H k) = true) (H_len : forall k, length (H k) = 8%nat) fuel ops t :
  Forall (hop_ok H) ops -> hrun lg fuel ops = Ok t ->
  let root := fst (serialize_node size HashMurmur3 (pad_len size) (BShard t)) in
  forall key, exists path : list blk,
    (N.of_nat (length path) + 1) * lg <= 64 /\
    forall fault,
      lookup fault root (H key) key =
      match first_fault fault path with
      | Some (e, tr) => (Err e, tr)
      | None => (match find (fun e => bytes_eqb (e_name e) key) (mrun ops) with Some e => Ok (e_target e) | None => Err ENotFound end, path)
      end.
Proof.
  intros Hops Hr root key.
  destruct (ref_history_is_the_built_directory size lg Hperm H H_wf H_len fuel ops t Hops Hr) as (Hem & Hn & Hb).
  destruct (serialize_node size HashMurmur3 (pad_len size) (BShard t)) as [rt sz] eqn:Es. subst root. cbn [fst].
  exact (sharded_lookup_requests size lg Hperm H H_wf H_len (mrun ops) rt sz Hem Hn Hb key).
Qed.

(* iteration of a reference-written shard under ANY availability: an entry is yielded (once) exactly when looking it up succeeds *)
Corollary ref_history_iterate_under_faults size lg (Hperm : permitted size lg) (H : bytes -> bytes)
  (H_wf : forall k, wf_bytes (H k) = true) (H_len : forall k, length (H k) = 8%nat) fuel ops t :
  Forall (hop_ok H) ops -> hrun lg fuel ops = Ok t ->
  let root := fst (serialize_node size HashMurmur3 (pad_len size) (BShard t)) in
  forall fault,
    let evs := map snd (iterate fault root) in
    (forall e, In e (mrun ops) -> (In (yield_of e) evs <-> fst (lookup fault root (H (e_name e)) (e_name e)) = Ok (e_target e)))
    /\ (forall k v, In (IYield k v) evs -> exists e, In e (mrun ops) /\ e_name e = k /\ e_target e = v)
    /\ NoDup (filter is_yield evs).
Proof.
  intros Hops Hr root fault.
  destruct (ref_history_is_the_built_directory size lg Hperm H H_wf H_len fuel ops t Hops Hr) as (Hem & Hn & Hb).
  destruct (serialize_node size HashMurmur3 (pad_len size) (BShard t)) as [rt sz] eqn:Es. subst root. cbn [fst].
  exact (sharded_iterate_under_faults size lg Hperm H H_wf H_len (mrun ops) rt sz Hem Hn Hb fault).
Qed.

(* length() / the preloading reifier on a reference-written shard under ANY availability: only shard blocks of the directory are
   requested, all of them when available, and a count is returned only if every one of them is available *)
Corollary ref_history_length_under_faults size lg (Hperm : permitted size lg) (H : bytes -> bytes)
  (H_wf : forall k, wf_bytes (H k) = true) (H_len : forall k, length (H k) = 8%nat) fuel ops t :
  Forall (hop_ok H) ops -> hrun lg fuel ops = Ok t ->
  let root := fst (serialize_node size HashMurmur3 (pad_len size) (BShard t)) in
  exists shards : list blk,
    Forall (fun x => exists sh, mk_shard_of x = Ok sh) shards /\
    forall fault,
      incl (snd (shard_length fault root)) shards
      /\ (forall m, fst (shard_length fault root) = Ok m -> Forall (fun t => fault t = None) shards)
      /\ (Forall (fun t => fault t = None) shards ->
          fst (shard_length fault root) = Ok (N.of_nat (length (mrun ops))) /\ Permutation (snd (shard_length fault root)) shards).
Proof.
  intros Hops Hr root.
  destruct (ref_history_is_the_built_directory size lg Hperm H H_wf H_len fuel ops t Hops Hr) as (Hem & Hn & Hb).
  destruct (serialize_node size HashMurmur3 (pad_len size) (BShard t)) as [rt sz] eqn:Es. subst root. cbn [fst].
  exact (sharded_length_under_faults size lg Hperm H H_wf H_len (mrun ops) rt sz Hem Hn Hb).
Qed.

(* the reference's serialization does not remember the history: two histories that end in the same abstract directory (as sets of
   entries) leave byte-identical shards *)
Theorem ref_history_independent size lg (Hperm : permitted size lg) (H : bytes -> bytes)
  (H_wf : forall k, wf_bytes (H k) = true) (H_len : forall k, length (H k) = 8%nat) fuel1 fuel2 ops1 ops2 t1 t2 :
  Forall (hop_ok H) ops1 -> Forall (hop_ok H) ops2 -> hrun lg fuel1 ops1 = Ok t1 -> hrun lg fuel2 ops2 = Ok t2 ->
  Permutation (mrun ops1) (mrun ops2) ->
  serialize_node size HashMurmur3 (pad_len size) (BShard t1) = serialize_node size HashMurmur3 (pad_len size) (BShard t2).
Proof.
  intros Ho1 Ho2 Hr1 Hr2 Hp.
  destruct (history_spec size lg Hperm H H_wf H_len fuel1 ops1 t1 Ho1 Hr1) as (Hw1 & Hk1 & Hm1 & Hn1 & Hp1).
  destruct (history_spec size lg Hperm H H_wf H_len fuel2 ops2 t2 Ho2 Hr2) as (Hw2 & Hk2 & Hm2 & Hn2 & Hp2).
  apply (ser_unique size lg Hperm H (BShard t1) (BShard t2) t1 t2 0 eq_refl eq_refl Hw1 Hw2 Hk1 Hk2 Hm1 Hm2).
  - change (entries_of (BShard t1)) with (entries_in t1). eapply Permutation_NoDup; [apply Permutation_sym; exact Hp1|].
    apply (NoDup_map_inv e_name). exact Hn1.
  - change (entries_of (BShard t1)) with (entries_in t1). change (entries_of (BShard t2)) with (entries_in t2).
    rewrite Hp1, Hp, <- Hp2. reflexivity.
Qed.

(* inserting a fresh name and removing it again restores the shard byte for byte *)
Corollary ref_set_remove_roundtrip size lg (Hperm : permitted size lg) (H : bytes -> bytes)
  (H_wf : forall k, wf_bytes (H k) = true) (H_len : forall k, length (H k) = 8%nat) fuel ops e t t' :
  Forall (hop_ok H) ops -> entry_ok H e -> ~ In (e_name e) (map e_name (mrun ops)) ->
  hrun lg fuel ops = Ok t -> hrun lg fuel (ops ++ [HSet e; HDel (e_name e) (H (e_name e))]) = Ok t' ->
  serialize_node size HashMurmur3 (pad_len size) (BShard t') = serialize_node size HashMurmur3 (pad_len size) (BShard t).
Proof.
  intros Hops He Hfresh Hr Hr'.
  assert (Hops' : Forall (hop_ok H) (ops ++ [HSet e; HDel (e_name e) (H (e_name e))])).
  { apply Forall_app. split; [exact Hops|]. constructor; [exact He|]. constructor; [reflexivity|constructor]. }
  apply (ref_history_independent size lg Hperm H H_wf H_len fuel fuel _ _ t' t Hops' Hops Hr' Hr).
  unfold mrun. rewrite fold_left_app. cbn [fold_left mstep filter].
  assert (Eo : other (e_name e) e = false) by (unfold other; rewrite bytes_eqb_refl; reflexivity).
  rewrite Eo.
  assert (Ef : filter (other (e_name e)) (fold_left mstep ops []) = fold_left mstep ops []).
  { apply filter_all. intros x Hx. unfold other. destruct (bytes_eqb_spec (e_name x) (e_name e)) as [E|_]; [|reflexivity].
    exfalso. apply Hfresh. rewrite <- E. apply in_map. exact Hx. }
  rewrite Ef, Ef. apply Permutation_refl.
Qed.

(* ---- the abstract directory is the obvious map: a name resolves to the entry of the latest Set of that name that no later
   Remove of that name followed ---- *)
Definition named (n : bytes) (e : entry) : bool := bytes_eqb (e_name e) n.
Fixpoint mlast (n : bytes) (ops : list hop) (cur : option entry) : option entry :=
  match ops with
  | [] => cur
  | HSet e :: r => mlast n r (if bytes_eqb (e_name e) n then Some e else cur)
  | HDel k _ :: r => mlast n r (if bytes_eqb k n then None else cur)
  end.

Lemma find_filter_other k n m : k <> n -> find (named n) (filter (other k) m) = find (named n) m.
Proof.
  intros Hkn. induction m as [|x m IH]; [reflexivity|]. cbn [filter find].
  unfold other at 1, named at 2. destruct (bytes_eqb_spec (e_name x) k) as [Ek|Ek]; cbn [negb].
  - destruct (bytes_eqb_spec (e_name x) n) as [En|_]; [congruence|exact IH].
  - cbn [find]. unfold named at 1. destruct (bytes_eqb (e_name x) n); [reflexivity|exact IH].
Qed.

Lemma find_filter_same n m : find (named n) (filter (other n) m) = None.
Proof.
  induction m as [|x m IH]; [reflexivity|]. cbn [filter]. unfold other at 1.
  destruct (bytes_eqb_spec (e_name x) n) as [En|En]; cbn [negb]; [exact IH|].
  cbn [find]. unfold named at 1. destruct (bytes_eqb_spec (e_name x) n); [contradiction|exact IH].
Qed.

Lemma find_mstep n m o :
  find (named n) (mstep m o) =
  match o with
  | HSet e => if bytes_eqb (e_name e) n then Some e else find (named n) m
  | HDel k _ => if bytes_eqb k n then None else find (named n) m
  end.
Proof.
  destruct o as [e|k h]; cbn [mstep].
  - cbn [find]. unfold named at 1. destruct (bytes_eqb_spec (e_name e) n) as [En|En]; [reflexivity|].
    apply find_filter_other. exact En.
  - destruct (bytes_eqb_spec k n) as [->|Hk]; [apply find_filter_same|apply find_filter_other; exact Hk].
Qed.

Lemma mrun_is_latest n ops : forall m, find (named n) (fold_left mstep ops m) = mlast n ops (find (named n) m).
Proof.
  induction ops as [|o r IH]; intros m; [reflexivity|]. cbn [fold_left]. rewrite IH, find_mstep.
  destruct o as [e|k h]; reflexivity.
Qed.

(* a lookup in what the reference wrote after a history returns the link of the latest Set of that name not followed by a
   Remove of it, and not-found otherwise *)
Theorem ref_history_lookup_is_latest size lg (Hperm : permitted size lg) (H : bytes -> bytes)
  (H_wf : forall k, wf_bytes (H k) = true) (H_len : forall k, length (H k) = 8%nat) fuel ops t :
  Forall (hop_ok H) ops -> hrun lg fuel ops = Ok t ->
  let root := fst (serialize_node size HashMurmur3 (pad_len size) (BShard t)) in
  forall key, fst (lookup nofault root (H key) key) =
              match mlast key ops None with Some e => Ok (e_target e) | None => Err ENotFound end.
Proof.
  intros Hops Hr root key.
  destruct (ref_history_read size lg Hperm H H_wf H_len fuel ops t Hops Hr) as (_ & Hm & Ha & _). fold root in Hm, Ha.
  pose proof (mrun_is_latest key ops []) as Hl. cbn [find] in Hl. fold (mrun ops) in Hl. rewrite <- Hl.
  destruct (find (named key) (mrun ops)) as [e|] eqn:Ef.
  - apply find_some in Ef. destruct Ef as [Hin Hn]. unfold named in Hn. destruct (bytes_eqb_spec (e_name e) key) as [<-|]; [|discriminate].
    apply Hm. exact Hin.
  - apply Ha. intros Hi. apply in_map_iff in Hi. destruct Hi as (e & En & Hin).
    pose proof (find_none _ _ Ef e Hin) as Hf. unfold named in Hf. rewrite En, bytes_eqb_refl in Hf. discriminate.
Qed.

(* non-vacuity: a history with a fork, a replacement, a removal that collapses a sub-shard and a removal of an absent name *)
Definition demo_ops : list hop :=
  [HSet (demo_entry [65] 1); HSet (demo_entry [65; 1] 3); HSet (demo_entry [65; 1; 2] 5); HSet (demo_entry [66] 2);
   HSet (demo_entry [65; 1] 9); HDel [65; 1; 2] (demo_hash [65; 1; 2]); HDel [77] (demo_hash [77]); HDel [65] (demo_hash [65])].

Example demo_history :
  Forall (hop_ok demo_hash) demo_ops
  /\ map e_name (mrun demo_ops) = [[65; 1]; [66]]
  /\ exists t, hrun 3 70 demo_ops = Ok t
     /\ build_sharded 8 HashMurmur3 (mrun demo_ops) = Ok (serialize_node 8 HashMurmur3 (pad_len 8) (BShard t)).
Proof.
  split.
  { repeat (apply Forall_cons; [first [reflexivity | split; [discriminate|reflexivity]]|]). apply Forall_nil. }
  split; [vm_compute; reflexivity|].
  eexists. split; [vm_compute; reflexivity|vm_compute; reflexivity].
Qed.
