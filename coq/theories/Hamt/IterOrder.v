(* Request order of the sharded-directory reader on ANY block DAG (well-formed or not): a full iteration
   requests the child shards in the depth-first walk that follows the links in link order; length() requests a
   prefix of the same walk (all of it when it succeeds).  The model has no source of nondeterminism. *)
From UV Require Import Hamt.Read Hamt.NoPanic Reify.Proofs Blocks.BlkProofs Hamt.RefineTrace.
Local Open Scope N_scope.

Section Order.
  Variable fault : blk -> option err.

  Definition child_of (pad : nat) (l : plink) : bool := match is_value_link pad l with Ok false => true | _ => false end.

  (* the depth-first, link-order walk over child-shard links; an unavailable or unusable shard is requested but not entered *)
  Fixpoint shard_walk (b : blk) (pf : option N) : list blk :=
    match mk_shard_of b with
    | Ok sh =>
      if match pf with Some pf0 => negb (sh_fanout sh =? pf0) | None => false end then [] else
      match b with
      | Pb _ ls =>
        (fix go (ls : list plink) : list blk :=
           match ls with
           | [] => []
           | l :: r =>
             (if child_of (sh_pad sh) l then
                match l with PLink _ _ t => t :: match fault t with Some _ => [] | None => shard_walk t (Some (sh_fanout sh)) end end
              else []) ++ go r
           end) ls
      | _ => []
      end
    | _ => []
    end.

  Definition walk_links (rec : blk -> list blk) (sh : shard) :=
    fix go (ls : list plink) : list blk :=
      match ls with
      | [] => []
      | l :: r =>
        (if child_of (sh_pad sh) l then
           match l with PLink _ _ t => t :: match fault t with Some _ => [] | None => rec t end end
         else []) ++ go r
      end.

  Lemma shard_walk_pb d ls pf :
    shard_walk (Pb d ls) pf =
    match mk_shard_of (Pb d ls) with
    | Ok sh =>
      if match pf with Some pf0 => negb (sh_fanout sh =? pf0) | None => false end then []
      else walk_links (fun t => shard_walk t (Some (sh_fanout sh))) sh ls
    | _ => []
    end.
  Proof. reflexivity. Qed.

  Definition loads_of (evs : list (list blk * ievent)) : list blk := concat (map fst evs).

  Lemma loads_app a b : loads_of (a ++ b) = loads_of a ++ loads_of b.
  Proof. unfold loads_of. rewrite map_app, concat_app. reflexivity. Qed.

  Lemma loads_cons tr ev x : loads_of ((tr, ev) :: x) = tr ++ loads_of x.
  Proof. reflexivity. Qed.

  Lemma iter_links_walk rec recw sh rp ls :
    Forall (fun l => loads_of (rec (l_target l)) = recw (l_target l)) ls ->
    loads_of (iter_links fault rec sh rp ls) = walk_links recw sh ls.
  Proof.
    induction 1 as [|[n s t] r Ht _ IH]; [reflexivity|].
    cbn [iter_links walk_links]. unfold child_of. cbn [l_target] in Ht.
    destruct (is_value_link (sh_pad sh) (PLink n s t)) as [[|]| |].
    - rewrite loads_cons, IH. reflexivity.
    - destruct (fault t).
      + rewrite loads_cons, IH. reflexivity.
      + rewrite <- Ht. destruct (rec t) as [|[tr ev] sub'].
        * rewrite loads_cons, IH. reflexivity.
        * rewrite loads_cons, loads_app, IH, loads_cons. cbn [app]. rewrite <- !app_assoc. reflexivity.
    - rewrite loads_cons, IH. reflexivity.
    - rewrite loads_cons, IH. reflexivity.
  Qed.

  (* full iteration: the requests, in order, are the walk *)
  Theorem iterate_requests_walk b : forall pf rp, loads_of (iter_blk fault b pf rp) = shard_walk b pf.
  Proof.
    induction b as [c|i n|d ls IH] using blk_ind'; intros pf rp; [reflexivity|reflexivity|].
    rewrite iter_blk_pb, shard_walk_pb.
    destruct (mk_shard_of (Pb d ls)) as [sh| |]; [|reflexivity|reflexivity].
    destruct (match pf with Some pf0 => negb (sh_fanout sh =? pf0) | None => false end); [reflexivity|].
    apply iter_links_walk. eapply Forall_impl; [|exact IH]. intros l Hl. apply Hl.
  Qed.

  (* length(): a prefix of the walk, the whole walk when it succeeds *)
  Lemma length_links_walk rec recw sh ls :
    Forall (fun l => forall pf, exists rest, recw (l_target l) pf = snd (rec (l_target l) pf) ++ rest /\
                                           (forall m, fst (rec (l_target l) pf) = Ok m -> rest = [])) ls ->
    forall total, exists rest,
      walk_links (fun t => recw t (Some (sh_fanout sh))) sh ls = snd (length_links fault rec sh ls total) ++ rest /\
      (forall m, fst (length_links fault rec sh ls total) = Ok m -> rest = []).
  Proof.
    induction 1 as [|[n s t] r Ht _ IH]; intros total; [exists []; split; [reflexivity|reflexivity]|].
    cbn [length_links walk_links]. unfold child_of. cbn [l_target] in Ht.
    destruct (is_value_link (sh_pad sh) (PLink n s t)) as [[|]| |].
    - cbn [app]. apply IH.
    - destruct (fault t).
      + eexists. split; [cbn [snd app]; reflexivity|]. cbn [fst]. discriminate.
      + destruct (Ht (Some (sh_fanout sh))) as (rest & Hw & Hok).
        destruct (rec t (Some (sh_fanout sh))) as [[n0|e|] tr]; cbn [fst snd] in *.
        * specialize (Hok n0 eq_refl). subst rest. rewrite app_nil_r in Hw.
          destruct (IH (total + n0)) as (rest' & Hw' & Hok').
          destruct (length_links fault rec sh r (total + n0)) as [res tr']. cbn [fst snd] in *.
          exists rest'. split; [rewrite Hw, Hw'; cbn [app]; rewrite app_assoc; reflexivity|exact Hok'].
        * eexists. split; [rewrite Hw; cbn [app]; rewrite <- app_assoc; reflexivity|discriminate].
        * eexists. split; [rewrite Hw; cbn [app]; rewrite <- app_assoc; reflexivity|discriminate].
    - eexists. split; [cbn [snd app]; reflexivity|discriminate].
    - eexists. split; [cbn [snd app]; reflexivity|discriminate].
  Qed.

  Theorem length_requests_walk_prefix b : forall pf, exists rest,
    shard_walk b pf = snd (length_blk fault b pf) ++ rest /\ (forall m, fst (length_blk fault b pf) = Ok m -> rest = []).
  Proof.
    induction b as [c|i n|d ls IH] using blk_ind'; intros pf.
    - exists []. split; [reflexivity|reflexivity].
    - exists []. split; [reflexivity|reflexivity].
    - rewrite length_blk_pb, shard_walk_pb.
      destruct (mk_shard_of (Pb d ls)) as [sh| |]; [|exists []; split; [reflexivity|discriminate]|exists []; split; [reflexivity|discriminate]].
      destruct (match pf with Some pf0 => negb (sh_fanout sh =? pf0) | None => false end); [exists []; split; [reflexivity|discriminate]|].
      apply (length_links_walk (length_blk fault) shard_walk sh ls). exact IH.
  Qed.
End Order.
