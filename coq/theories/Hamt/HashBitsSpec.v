(* Both helpers return the bits [off, off+w) of the hash read most-significant-bit first:
   (value / 2^(total - off - w)) mod 2^w. *)
From UV Require Import Hamt.HashBits Hamt.HashBitsProofs Base.Varint.
From Coq Require Import ZifyN ZifyNat ZifyBool.
Local Open Scope N_scope.

Definition nbits (hb : bytes) : N := 8 * N.of_nat (length hb).
Definition bits_at (hb : bytes) (off w : N) : N := (be_value hb / 2 ^ (nbits hb - off - w)) mod 2 ^ w.

Lemma be_value_acc bs : forall acc, fold_left (fun a b => a * 256 + b) bs acc = acc * 256 ^ N.of_nat (length bs) + be_value bs.
Proof.
  unfold be_value. induction bs as [|b bs IH]; intros acc; cbn [fold_left length].
  - change (256 ^ N.of_nat 0) with 1. lia.
  - rewrite IH, (IH (0 * 256 + b)). rewrite Nat2N.inj_succ, N.pow_succ_r'. lia.
Qed.

Lemma be_app a b : be_value (a ++ b) = be_value a * 256 ^ N.of_nat (length b) + be_value b.
Proof. unfold be_value at 1. rewrite fold_left_app. fold (be_value a). apply be_value_acc. Qed.

Lemma be_lt bs : wf_bytes bs = true -> be_value bs < 256 ^ N.of_nat (length bs).
Proof.
  induction bs as [|b bs IH] using rev_ind; intros Hw; [cbn; lia|].
  unfold wf_bytes in *. rewrite forallb_app in Hw. apply andb_prop in Hw. destruct Hw as [Hw Hb]. cbn in Hb.
  rewrite andb_true_r in Hb. apply N.ltb_lt in Hb.
  rewrite be_app. cbn [length]. change (be_value [b]) with (0 * 256 + b). change (256 ^ N.of_nat 1) with 256.
  rewrite app_length. cbn [length]. rewrite Nat.add_1_r, Nat2N.inj_succ, N.pow_succ_r'. specialize (IH Hw). lia.
Qed.

Lemma pow256 k : 256 ^ k = 2 ^ (8 * k).
Proof. rewrite N.pow_mul_r. reflexivity. Qed.

(* the q-th byte is the q-th base-256 digit from the top *)
Lemma byte_of_be hb q c : wf_bytes hb = true -> nth_byte hb q = Some c ->
  (be_value hb / 2 ^ (8 * (N.of_nat (length hb) - 1 - q))) mod 256 = c /\ q < N.of_nat (length hb) /\ c < 256.
Proof.
  intros Hw Hn. unfold nth_byte in Hn.
  assert (Hq : (N.to_nat q < length hb)%nat) by (apply nth_error_Some; congruence).
  destruct (nth_error_split hb _ Hn) as (pre & post & -> & Hl).
  unfold wf_bytes in Hw. rewrite forallb_app in Hw. apply andb_prop in Hw. destruct Hw as [Hpre Hw].
  cbn [forallb] in Hw. apply andb_prop in Hw. destruct Hw as [Hc Hpost]. apply N.ltb_lt in Hc.
  change (pre ++ c :: post) with (pre ++ [c] ++ post). rewrite app_assoc, be_app, be_app.
  change (be_value [c]) with (0 * 256 + c). change (256 ^ N.of_nat (length [c])) with 256.
  rewrite !app_length. cbn [length].
  replace (N.of_nat (length pre + 1 + length post) - 1 - q) with (N.of_nat (length post)) by lia.
  rewrite <- pow256. pose proof (be_lt post Hpost) as Hlt.
  rewrite N.div_add_l by (apply N.pow_nonzero; lia). rewrite N.div_small by exact Hlt.
  split; [|split; [lia|exact Hc]]. rewrite N.add_0_r, N.add_comm, N.mod_add by lia. apply N.mod_small. lia.
Qed.

Lemma div_mod_pow x k w : (x / 2 ^ k) mod 2 ^ w = (x mod 2 ^ (k + w)) / 2 ^ k.
Proof.
  rewrite N.pow_add_r. rewrite N.mod_mul_r by (apply N.pow_nonzero; lia).
  rewrite N.mul_comm, N.div_add by (apply N.pow_nonzero; lia).
  rewrite (N.div_small (x mod 2 ^ k)) by (apply N.mod_lt, N.pow_nonzero; lia). reflexivity.
Qed.

(* bits inside one byte *)
Lemma bits_within hb off w c :
  wf_bytes hb = true -> nth_byte hb (off / 8) = Some c -> w <= 8 - off mod 8 ->
  bits_at hb off w = within_byte_spec c (8 - off mod 8) w.
Proof.
  intros Hw Hn Hle. destruct (byte_of_be hb (off / 8) c Hw Hn) as (Hb & Hq & Hc).
  unfold bits_at, within_byte_spec, nbits.
  set (L := N.of_nat (length hb)) in *. set (q := off / 8) in *. set (r := off mod 8).
  assert (Hoff : off = 8 * q + r) by (subst q r; apply N.div_mod; lia).
  assert (Hr : r < 8) by (subst r; apply N.mod_lt; lia).
  replace (8 * L - off - w) with (8 * (L - 1 - q) + (8 - r - w)) by lia.
  rewrite N.pow_add_r, <- N.div_div by (apply N.pow_nonzero; lia).
  set (y := be_value hb / 2 ^ (8 * (L - 1 - q))) in *.
  rewrite div_mod_pow. replace (8 - r - w + w) with (8 - r) by lia.
  f_equal. rewrite <- Hb.
  replace 256 with (2 ^ (8 - r) * 2 ^ r) by (rewrite <- N.pow_add_r; replace (8 - r + r) with 8 by lia; reflexivity).
  rewrite N.mod_mul_r by (apply N.pow_nonzero; lia).
  rewrite N.mul_comm, N.mod_add by (apply N.pow_nonzero; lia). rewrite N.mod_mod by (apply N.pow_nonzero; lia). reflexivity.
Qed.

(* splitting a bit range *)
Lemma bits_split hb off w1 w2 : off + w1 + w2 <= nbits hb ->
  bits_at hb off (w1 + w2) = bits_at hb off w1 * 2 ^ w2 + bits_at hb (off + w1) w2.
Proof.
  intros Hle. unfold bits_at. set (x := be_value hb). set (T := nbits hb) in *.
  replace (T - off - w1) with ((T - off - (w1 + w2)) + w2) by lia.
  replace (T - (off + w1) - w2) with (T - off - (w1 + w2)) by lia.
  set (a := T - off - (w1 + w2)).
  rewrite (N.pow_add_r 2 a w2), <- N.div_div by (apply N.pow_nonzero; lia).
  set (y := x / 2 ^ a).
  rewrite (N.add_comm w1 w2), N.pow_add_r, N.mod_mul_r by (apply N.pow_nonzero; lia). lia.
Qed.

Theorem slice_bits_spec fuel : forall hb off w,
  wf_bytes hb = true -> off + w <= nbits hb -> (N.to_nat w < fuel)%nat -> 1 <= w ->
  slice_bits fuel hb off w = Ok (bits_at hb off w).
Proof.
  induction fuel as [|f IH]; intros hb off w Hw Hle Hf H1; [lia|].
  cbn [slice_bits].
  assert (Hq : off / 8 < N.of_nat (length hb)).
  { unfold nbits in Hle. apply N.div_lt_upper_bound; lia. }
  destruct (nth_byte hb (off / 8)) as [c|] eqn:En.
  2:{ unfold nth_byte in En. apply nth_error_None in En. lia. }
  destruct (byte_of_be hb (off / 8) c Hw En) as (_ & _ & Hc).
  assert (Hr : off mod 8 < 8) by (apply N.mod_lt; lia).
  destruct (N.leb_spec w (8 - off mod 8)) as [Hin|Hout].
  - rewrite within_byte_correct by lia. rewrite (bits_within hb off w c Hw En Hin). reflexivity.
  - set (l := 8 - off mod 8) in *.
    rewrite IH; [|exact Hw|unfold nbits in *; lia|lia|lia].
    cbn [bind]. f_equal.
    replace w with (l + (w - l)) at 3 by lia. rewrite bits_split by (unfold nbits in *; lia).
    f_equal. rewrite (bits_within hb off l c Hw En ltac:(subst l; lia)). fold l.
    unfold within_byte_spec. rewrite N.sub_diag. change (2 ^ 0) with 1. rewrite N.div_1_r.
    rewrite N.shiftl_mul_pow2. f_equal.
    (* mkmask l & c = c mod 2^l for 1 <= l <= 8 *)
    pose proof (within_byte_correct c l l Hc ltac:(subst l; lia) ltac:(lia)) as Hwb.
    unfold within_byte, within_byte_spec in Hwb. rewrite N.eqb_refl, N.sub_diag in Hwb.
    change (2 ^ 0) with 1 in Hwb. rewrite N.div_1_r in Hwb. exact Hwb.
Qed.

(* C02: for every hash, every offset and width inside it, reader and builder return the same,
   arithmetic, most-significant-first bits of the hash *)
Theorem hb_slice_spec hb off w :
  wf_bytes hb = true -> 1 <= w -> off + w <= nbits hb -> hb_slice hb off w = Ok (bits_at hb off w).
Proof.
  intros Hw H1 Hle. unfold hb_slice, nbits in *.
  destruct (N.ltb_spec (N.of_nat (length hb) * 8) (off + w)); [lia|].
  apply slice_bits_spec; auto; unfold nbits; lia.
Qed.

Theorem hb_next_spec hb off w :
  wf_bytes hb = true -> 1 <= w -> off + w <= nbits hb -> hb_next hb off w = Ok (bits_at hb off w, off + w).
Proof.
  intros Hw H1 Hle. pose proof (next_slice_same_bucket hb off w) as H. rewrite hb_slice_spec in H by assumption.
  destruct (hb_next hb off w) as [[v c]| |] eqn:E; try discriminate.
  inversion H; subst. rewrite (next_advances hb off w _ c E). reflexivity.
Qed.

(* past the end of the hash both are errors (never a panic) *)
Theorem hb_too_deep hb off w : nbits hb < off + w -> hb_slice hb off w = Err EInvalid /\ hb_next hb off w = Err EInvalid.
Proof.
  intros H. unfold hb_slice, hb_next, nbits in *.
  destruct (N.ltb_spec (N.of_nat (length hb) * 8) (off + w)); [auto|lia].
Qed.
