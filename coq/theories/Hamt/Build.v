(* data/builder/dirshard.go and directory.go: the sharded-directory builder, the plain directory
   builder and the size-based choice between them. *)
From UV Require Export Blocks.PbLen Codec.Encode Hamt.HashBits Hamt.Bitfield.
Local Open Scope N_scope.

(* a directory entry as handed to the builders (a PBLink with Name, Tsize, Hash); hash = murmur3-x64-64 of the name, 8 bytes *)
Record entry := mk_entry { e_name : bytes; e_hash : bytes; e_tsize : Z; e_target : blk }.

(* ---- stable sort by link name (go-codec-dagpb: sort.Stable, a.name < b.name, absent name = "") ---- *)
Fixpoint bytes_ltb (a b : bytes) : bool :=
  match a, b with
  | [], [] => false
  | [], _ :: _ => true
  | _ :: _, [] => false
  | x :: a', y :: b' => if x <? y then true else if y <? x then false else bytes_ltb a' b'
  end.
Definition link_key (l : plink) : bytes := match l_name l with Some n => n | None => [] end.

Fixpoint insert_link (l : plink) (sorted : list plink) : list plink :=
  match sorted with
  | [] => [l]
  | x :: r => if bytes_ltb (link_key l) (link_key x) then l :: x :: r else x :: insert_link l r
  end.
(* stable: elements are inserted from the right, an element goes after its equals *)
Definition sort_links (ls : list plink) : list plink := fold_right insert_link [] ls.

(* ---- fmt.Sprintf("%0*X", width, idx) ---- *)
Definition hex_digit (d : N) : N := if d <? 10 then 48 + d else 55 + d.   (* '0'..'9', 'A'..'F' *)
Fixpoint hex_fixed (width : nat) (idx : N) : bytes :=
  match width with
  | O => []
  | S w => hex_fixed w (idx / 16) ++ [hex_digit (idx mod 16)]
  end.
(* len(fmt.Sprintf("%X", size-1)) for size >= 1 *)
Fixpoint hex_len_aux (fuel : nat) (v : N) : nat :=
  match fuel with
  | O => 1%nat
  | S f => if v <? 16 then 1%nat else S (hex_len_aux f (v / 16))
  end.
Definition pad_len (size : N) : nat := hex_len_aux 16 (size - 1).

(* ---- the in-memory trie of the builder ---- *)
Inductive bnode :=
| BVal (e : entry)
| BShard (children : list (N * bnode)).     (* Go map bucket -> entry; the order is the (arbitrary) map order *)

Fixpoint assoc_get {A} (k : N) (l : list (N * A)) : option A :=
  match l with
  | [] => None
  | (k', v) :: r => if k =? k' then Some v else assoc_get k r
  end.
Fixpoint assoc_set {A} (k : N) (v : A) (l : list (N * A)) : list (N * A) :=
  match l with
  | [] => [(k, v)]
  | (k', v') :: r => if k =? k' then (k, v) :: r else (k', v') :: assoc_set k v r
  end.

Section Shard.
  Variable lg : N.        (* sizeLg2 *)

  (* shard.add; fuel bounds the push-down (at most 64/lg + 1 levels before Slice fails) *)
  Fixpoint add (fuel : nat) (depth : N) (children : list (N * bnode)) (e : entry) : res (list (N * bnode)) :=
    match fuel with
    | O => Err EOther
    | S f =>
      bucket <- hb_slice (e_hash e) (depth * lg) lg ;;
      match assoc_get bucket children with
      | None => Ok (assoc_set bucket (BVal e) children)
      | Some (BShard sub) =>
        sub' <- add f (depth + 1) sub e ;; Ok (assoc_set bucket (BShard sub') children)
      | Some (BVal cur) =>
        (* make a shard for current and lnk *)
        s1 <- add f (depth + 1) [] cur ;;
        s2 <- add f (depth + 1) s1 e ;;
        Ok (assoc_set bucket (BShard s2) children)
      end
    end.
End Shard.

Definition add_all (lg : N) (entries : list entry) : res (list (N * bnode)) :=
  fold_left (fun acc e => c <- acc ;; add lg 70 0 c e) entries (Ok []).

(* bitmap(): bits of the occupied buckets *)
Definition bitmap_of (children : list (N * bnode)) : N :=
  fold_left (fun acc kv => bf_set acc (fst kv)) children 0.

Definition shard_data (size hasher : N) (children : list (N * bnode)) : bytes :=
  encode_data (mk_ud Data_HAMTShard (Some (bf_bytes size (bitmap_of children))) None [] (Some hasher) (Some size) None None).

(* serialize: children first (post-order), then this shard; links sorted by the codec on encode.
   Returns the block and the cumulative size. *)
Section Serialize.
  Variables (size hasher : N) (width : nat).

  Fixpoint serialize_node (n : bnode) : blk * N :=
    match n with
    | BVal e => (e_target e, u64 (e_tsize e))
    | BShard children =>
      let links_sizes :=
          (fix go (cs : list (N * bnode)) : list plink * N :=
             match cs with
             | [] => ([], 0)
             | (idx, c) :: r =>
               let '(ls, tot) := go r in
               match c with
               | BVal e =>
                 (PLink (Some (hex_fixed width idx ++ e_name e)) (Some (e_tsize e)) (e_target e) :: ls, u64 (e_tsize e) + tot)
               | BShard _ =>
                 let '(b, sz) := serialize_node c in
                 (PLink (Some (hex_fixed width idx)) (Some (Z.of_N sz)) b :: ls, sz + tot)
               end
             end) children in
      let d := shard_data size hasher children in
      let ls := sort_links (fst links_sizes) in
      (Pb (Some d) ls, snd links_sizes + pb_len (Some d) ls)
    end.
End Serialize.

(* BuildUnixFSShardedDirectory *)
Definition log2_exact (size : N) : option N :=
  if size =? 0 then None else
  let l := N.log2 size in if 2 ^ l =? size then Some l else None.

Definition build_sharded (size hasher : N) (entries : list entry) : res (blk * N) :=
  match log2_exact size with
  | None => Err EInvalid                     (* "hamt size should be a power of two" *)
  | Some lg =>
    children <- add_all lg entries ;;
    (* bitfield.NewBitfield: the size must be a multiple of 8 *)
    if negb (size mod 8 =? 0) then Err EInvalid
    else Ok (serialize_node size hasher (pad_len size) (BShard children))
  end.

(* BuildUnixFSDirectory *)
Definition entry_link (e : entry) : plink := PLink (Some (e_name e)) (Some (e_tsize e)) (e_target e).

Definition estimate_dir_size (entries : list entry) : N :=
  fold_right (fun e acc => blen (e_name e) + cid_len (e_target e) + acc) 0 entries.

Definition dir_data : bytes := encode_data (mk_ud Data_Directory None None [] None None None None).

Definition build_plain (entries : list entry) : blk * N :=
  let ls := sort_links (map entry_link entries) in
  (Pb (Some dir_data) ls, fold_right (fun e acc => u64 (e_tsize e) + acc) 0 entries + pb_len (Some dir_data) ls).

Definition build_dir (entries : list entry) : res (blk * N) :=
  if shardSplitThreshold <? estimate_dir_size entries then build_sharded defaultShardWidth HashMurmur3 entries
  else Ok (build_plain entries).
