(* hashBits: the reader's Next (hamt/util.go) and the builder's Slice (data/builder/util.go), byte-wise as in Go *)
From UV Require Export Base.Prelude.
Local Open Scope N_scope.

(* func mkmask(n int) byte { return (1 << uint(n)) - 1 } *)
Definition mkmask (n : N) : N := (2 ^ n + 255) mod 256.

Definition nth_byte (hb : bytes) (i : N) : option N := nth_error hb (N.to_nat i).

(* bits of one byte: the three cases of next / slice.  curb: the byte, leftb: unread bits in it, i <= leftb *)
Definition within_byte (curb leftb i : N) : N :=
  if i =? leftb then N.land (mkmask i) curb
  else
    let a := N.land curb (mkmask leftb) in
    let b := N.land a (255 - mkmask (leftb - i)) in     (* a & ^mkmask(leftb-i) *)
    N.shiftr b (leftb - i).

(* (hb *hashBits) next(i): returns the value and the new `consumed`; Panic = index out of range *)
Fixpoint next_bits (fuel : nat) (hb : bytes) (consumed i : N) : res (N * N) :=
  match fuel with
  | O => Err EOther
  | S f =>
    let curbi := consumed / 8 in
    let leftb := 8 - consumed mod 8 in
    match nth_byte hb curbi with
    | None => Panic
    | Some curb =>
      if i <=? leftb then Ok (within_byte curb leftb i, consumed + i)
      else
        let out := N.shiftl (N.land (mkmask leftb) curb) (i - leftb) in
        r <- next_bits f hb (consumed + leftb) (i - leftb) ;;
        Ok (out + fst r, snd r)
    end
  end.

(* Next: the guard, then next *)
Definition hb_next (hb : bytes) (consumed i : N) : res (N * N) :=
  if N.of_nat (length hb) * 8 <? consumed + i then Err EInvalid   (* ErrHAMTTooDeep *)
  else next_bits (S (N.to_nat i)) hb consumed i.

(* (hb hashBits) slice(offset, width) of the builder *)
Fixpoint slice_bits (fuel : nat) (hb : bytes) (offset width : N) : res N :=
  match fuel with
  | O => Err EOther
  | S f =>
    let curbi := offset / 8 in
    let leftb := 8 - offset mod 8 in
    match nth_byte hb curbi with
    | None => Panic
    | Some curb =>
      if width <=? leftb then Ok (within_byte curb leftb width)
      else
        let out := N.shiftl (N.land (mkmask leftb) curb) (width - leftb) in
        r <- slice_bits f hb (offset + leftb) (width - leftb) ;;
        Ok (out + r)
    end
  end.

Definition hb_slice (hb : bytes) (offset width : N) : res N :=
  if N.of_nat (length hb) * 8 <? offset + width then Err EInvalid   (* "sharded directory too deep" *)
  else slice_bits (S (N.to_nat width)) hb offset width.

(* big-endian value of a byte string *)
Definition be_value (bs : bytes) : N := fold_left (fun acc b => acc * 256 + b) bs 0.
