(* Lookups on a serialized sharded directory with unavailable blocks: the storage requests are exactly the
   child shards on the bucket path of the key, in path order, stopping at the first unavailable one. *)
From UV Require Import Hamt.Read Hamt.HashBitsSpec Hamt.HashBitsProofs Hamt.SortProofs Hamt.BitfieldProofs
  Hamt.TrieProofs Hamt.RankProofs Hamt.ShardDecode Hamt.NoPanic Hamt.Refine.
From Coq Require Import Permutation Sorted ZifyN ZifyNat ZifyBool.
Local Open Scope N_scope.

Lemma find_link_nth_full rec t ls k :
  find_link rec t ls k = match nth_error ls k with Some l => let '(r, tr) := rec (l_target l) in (r, t :: tr) | None => (Err EInvalid, []) end.
Proof.
  revert k. induction ls as [|[n s t'] r IH]; intros k; [destruct k; reflexivity|].
  destruct k; cbn [find_link nth_error]; [reflexivity|apply IH].
Qed.

Section Trace.
  Variables (size lg : N).
  Hypothesis Hperm : permitted size lg.
  Variable H : bytes -> bytes.
  Hypothesis H_wf : forall k, wf_bytes (H k) = true.
  Hypothesis H_len : forall k, length (H k) = 8%nat.
  Variable fault : blk -> option err.

  Notation width := (pad_len size).
  Notation ser := (serialize_node size HashMurmur3 width).
  Notation bok := (bok size H).
  Notation link_of := (link_of size).

  (* the walk the key's hash prescribes through the builder's trie, with the blocks it has to fetch *)
  Fixpoint bwalk (n : bnode) (d : N) (h key : bytes) : res blk * list blk :=
    match n with
    | BVal e => (if bytes_eqb (e_name e) key then Ok (e_target e) else Err ENotFound, [])
    | BShard cs =>
      match slice_at lg h d with
      | Ok b =>
        (fix find (cs : list (N * bnode)) : res blk * list blk :=
           match cs with
           | [] => (Err ENotFound, [])
           | (k, c) :: r =>
             if b =? k then
               match c with
               | BVal _ => bwalk c (d + 1) h key
               | BShard _ =>
                 let t := fst (ser c) in
                 match fault t with
                 | Some e => (Err e, [t])
                 | None => let '(r0, tr) := bwalk c (d + 1) h key in (r0, t :: tr)
                 end
               end
             else find r
           end) cs
      | _ => (Err ENotFound, [])
      end
    end.

  Definition wstep (d : N) (h key : bytes) (c : bnode) : res blk * list blk :=
    match c with
    | BVal _ => bwalk c (d + 1) h key
    | BShard _ =>
      let t := fst (ser c) in
      match fault t with
      | Some e => (Err e, [t])
      | None => let '(r0, tr) := bwalk c (d + 1) h key in (r0, t :: tr)
      end
    end.

  Definition wfind (b d : N) (h key : bytes) :=
    fix find (cs : list (N * bnode)) : res blk * list blk :=
      match cs with
      | [] => (Err ENotFound, [])
      | (k, c) :: r => if b =? k then wstep d h key c else find r
      end.

  Lemma bwalk_shard cs d h key :
    bwalk (BShard cs) d h key = match slice_at lg h d with Ok b => wfind b d h key cs | _ => (Err ENotFound, []) end.
  Proof. reflexivity. Qed.

  Lemma wfind_in b d h key cs c : NoDup (map fst cs) -> In (b, c) cs -> wfind b d h key cs = wstep d h key c.
  Proof.
    induction cs as [|[k c'] r IH]; intros Hnd Hin; [destruct Hin|].
    inversion Hnd as [|? ? Hn Hr]; subst. cbn [wfind].
    destruct Hin as [E|Hin].
    - inversion E; subst. rewrite N.eqb_refl. reflexivity.
    - destruct (N.eqb_spec b k) as [->|_]; [exfalso; apply Hn; apply in_map_iff; exists (k, c); auto|].
      apply IH; assumption.
  Qed.

  Lemma wfind_notin b d h key cs : existsb (N.eqb b) (map fst cs) = false -> wfind b d h key cs = (Err ENotFound, []).
  Proof.
    induction cs as [|[k c] r IH]; cbn [map fst existsb wfind]; [reflexivity|].
    destruct (b =? k); cbn [orb]; [discriminate|exact IH].
  Qed.

  Theorem lookup_serialized_trace n : forall cs d pf key,
    n = BShard cs -> bwf lg d n -> bok n -> (d + 1) * lg <= 64 -> (pf = None \/ pf = Some size) ->
    lookup_blk fault (fst (ser n)) pf (H key) key (d * lg) = bwalk n d (H key) key.
  Proof.
    induction n as [e|cs0 IH] using bnode_ind'; intros cs d pf key En Hw Hb Hd Hpf; [discriminate|].
    inversion En; subst cs0. clear En.
    pose proof (mk_shard_ser size lg Hperm H cs Hb) as Hmk. rewrite (ser_shard_blk size) in Hmk |- *.
    rewrite lookup_blk_pb, Hmk. cbn [sh_fanout sh_lg sh_pad sh_bits sh_links].
    replace (match pf with Some pf0 => negb (size =? pf0) | None => false end) with false
      by (destruct Hpf as [->| ->]; [reflexivity|rewrite N.eqb_refl; reflexivity]).
    destruct (lg_bounds size lg Hperm) as [Hlg Hsz].
    rewrite (hb_next_spec (H key) (d * lg) lg (H_wf key) ltac:(lia) ltac:(rewrite (nbits_H H H_len); lia)).
    rewrite bwalk_shard, (slice_H size lg Hperm H H_wf H_len key d Hd).
    set (b := bits_at (H key) (d * lg) lg).
    destruct (proj1 (bwf_shard lg d cs) Hw) as [Hnd Hall].
    rewrite bitmap_bit.
    destruct (existsb (N.eqb b) (map fst cs)) eqn:Eb; cbn [negb].
    2:{ rewrite (wfind_notin b d (H key) key cs Eb). reflexivity. }
    destruct (existsb_key_in cs b Eb) as [c Hin].
    cbv zeta. rewrite (child_link size lg Hperm H cs b c Hb Hnd Hin), (wfind_in b d (H key) key cs c Hnd Hin).
    pose proof Hb as Hb'. rewrite bok_shard, Forall_forall in Hb'. destruct (Hb' _ Hin) as (Hbs & Hcne & Hbc). cbn [fst snd] in Hbs, Hcne, Hbc.
    destruct c as [e|sub].
    - destruct Hbc as [Hname _]. rewrite (vl_val size b e Hname), sfx_val, tgt_val.
      cbn [wstep bwalk]. destruct (bytes_eqb (e_name e) key); reflexivity.
    - rewrite vl_shard, tgt_shard. cbn [wstep]. destruct (fault (fst (ser (BShard sub)))) as [fe|]; [reflexivity|].
      rewrite find_link_nth_full, (child_link size lg Hperm H cs b (BShard sub) Hb Hnd Hin), tgt_shard.
      rewrite Forall_forall in IH. rewrite bwf_all_forall, Forall_forall in Hall. destruct (Hall _ Hin) as [Hsl Hwsub]. cbn [fst snd] in Hsl, Hwsub.
      replace (d * lg + lg) with ((d + 1) * lg) by lia.
      assert (Hdeep : (d + 1 + 1) * lg <= 64).
        {
        assert (Hne : entries_of (BShard sub) <> []) by (apply (bok_entries size H); assumption).
        destruct (entries_of (BShard sub)) as [|e0 r0] eqn:Ee; [congruence|].
        assert (He0 : In e0 (entries_of (BShard sub))) by (rewrite Ee; left; reflexivity).
        pose proof (bok_entry size H _ _ Hbc He0) as [_ Hh].
        clear Ee. cbn [entries_of] in He0. apply in_flat_map in He0. destruct He0 as (kc & Hkc & Hin0).
        destruct (proj1 (bwf_shard lg _ _) Hwsub) as [_ Hall2]. rewrite bwf_all_forall, Forall_forall in Hall2.
        destruct (Hall2 kc Hkc) as [Hs0 _]. specialize (Hs0 e0 Hin0). rewrite Hh in Hs0.
        apply (slice_H_ok size lg Hperm H H_wf H_len _ _ _ Hs0). }
      pose proof (IH _ Hin sub (d + 1) (Some size) key eq_refl Hwsub Hbc Hdeep (or_intror eq_refl)) as IHs.
      cbn [snd] in IHs. rewrite IHs. reflexivity.
  Qed.

  (* what the walk says: the result is the map's unless a shard on the path is unavailable, and only shards on
     the path are requested *)
  Fixpoint bpath (n : bnode) (d : N) (h : bytes) : list blk :=
    match n with
    | BVal _ => []
    | BShard cs =>
      match slice_at lg h d with
      | Ok b =>
        (fix find (cs : list (N * bnode)) : list blk :=
           match cs with
           | [] => []
           | (k, c) :: r =>
             if b =? k then match c with BVal _ => [] | BShard _ => fst (ser c) :: bpath c (d + 1) h end else find r
           end) cs
      | _ => []
      end
    end.

  Definition pfind (b d : N) (h : bytes) :=
    fix find (cs : list (N * bnode)) : list blk :=
      match cs with
      | [] => []
      | (k, c) :: r =>
        if b =? k then match c with BVal _ => [] | BShard _ => fst (ser c) :: bpath c (d + 1) h end else find r
      end.

  (* first unavailable block of a list, with the requests made up to and including it *)
  Fixpoint first_fault (p : list blk) : option (err * list blk) :=
    match p with
    | [] => None
    | t :: r => match fault t with
                | Some e => Some (e, [t])
                | None => match first_fault r with Some (e, tr) => Some (e, t :: tr) | None => None end
                end
    end.

  Theorem bwalk_spec n : forall d h key,
    bwalk n d h key =
    match first_fault (bpath n d h) with
    | Some (e, tr) => (Err e, tr)
    | None => (spec_result (blookup lg n d h key), bpath n d h)
    end.
  Proof.
    induction n as [e|cs IH] using bnode_ind'; intros d h key.
    - cbn. destruct (bytes_eqb (e_name e) key); reflexivity.
    - rewrite bwalk_shard, blookup_shard.
      change (bpath (BShard cs) d h) with (match slice_at lg h d with Ok b => pfind b d h cs | _ => [] end).
      destruct (slice_at lg h d) as [b| |]; try reflexivity.
      induction IH as [|[k c] r Hc _ IHr]; [reflexivity|]. cbn [wfind pfind bfind].
      destruct (b =? k); [|exact IHr].
      destruct c as [e|sub]; cbn [wstep first_fault].
      + cbn. destruct (bytes_eqb (e_name e) key); reflexivity.
      + destruct (fault (fst (ser (BShard sub)))) as [fe|]; [reflexivity|].
        cbn [snd] in Hc. rewrite (Hc (d + 1) h key).
        destruct (first_fault (bpath (BShard sub) (d + 1) h)) as [[e tr]|]; reflexivity.
  Qed.

End Trace.

Section PathBound.
  Variables (size lg : N).
  Hypothesis Hperm : permitted size lg.
  Variable H : bytes -> bytes.
  Hypothesis H_wf : forall k, wf_bytes (H k) = true.
  Hypothesis H_len : forall k, length (H k) = 8%nat.

  (* one request per level, and a level exists only while the hash has bits left *)
  Lemma bpath_bound n : forall cs d key, n = BShard cs -> bwf lg d n -> bok size H n -> (d + 1) * lg <= 64 ->
    (d + N.of_nat (length (bpath size lg n d (H key))) + 1) * lg <= 64.
  Proof.
    induction n as [e|cs0 IH] using bnode_ind'; intros cs d key En Hw Hb Hd; [discriminate|].
    inversion En; subst cs0. clear En.
    change (bpath size lg (BShard cs) d (H key)) with (match slice_at lg (H key) d with Ok b => pfind size lg b d (H key) cs | _ => [] end).
    destruct (slice_at lg (H key) d) as [b| |]; cbn [length]; try lia.
    destruct (proj1 (bwf_shard lg d cs) Hw) as [_ Hall]. rewrite bwf_all_forall in Hall.
    rewrite bok_shard in Hb. clear Hw.
    induction cs as [|[k c] r IHr]; [cbn [pfind length]; lia|].
    inversion IH as [|? ? IHc IHrest]; subst. inversion Hall as [|? ? [Hsl Hwc] Hallr]; subst. inversion Hb as [|? ? (Hk & Hcne & Hbc) Hbr]; subst.
    cbn [fst snd] in *. cbn [pfind]. destruct (b =? k); [|apply IHr; assumption].
    destruct c as [e|sub]; [cbn [length]; lia|]. cbn [length].
    assert (Hdeep : (d + 1 + 1) * lg <= 64).
    { assert (Hne : entries_of (BShard sub) <> []) by (apply (bok_entries size H); assumption).
      destruct (entries_of (BShard sub)) as [|e0 r0] eqn:Ee; [congruence|].
      assert (He0 : In e0 (entries_of (BShard sub))) by (rewrite Ee; left; reflexivity).
      pose proof (bok_entry size H _ _ Hbc He0) as [_ Hh].
      clear Ee. cbn [entries_of] in He0. apply in_flat_map in He0. destruct He0 as (kc & Hkc & Hin0).
      destruct (proj1 (bwf_shard lg _ _) Hwc) as [_ Hall2]. rewrite bwf_all_forall, Forall_forall in Hall2.
      destruct (Hall2 kc Hkc) as [Hs0 _]. specialize (Hs0 e0 Hin0). rewrite Hh in Hs0.
      apply (slice_H_ok size lg Hperm H H_wf H_len _ _ _ Hs0). }
    specialize (IHc sub (d + 1) key eq_refl Hwc Hbc Hdeep). lia.
  Qed.

  (* BuildUnixFSShardedDirectory then lookups under ANY availability of the blocks *)
  Theorem sharded_lookup_requests entries root sz :
    Forall (entry_ok H) entries -> NoDup (map e_name entries) ->
    build_sharded size HashMurmur3 entries = Ok (root, sz) ->
    forall key, exists path : list blk,
      (N.of_nat (length path) + 1) * lg <= 64 /\
      forall fault,
        lookup fault root (H key) key =
        match first_fault fault path with
        | Some (e, tr) => (Err e, tr)
        | None => (match find (fun e => bytes_eqb (e_name e) key) entries with Some e => Ok (e_target e) | None => Err ENotFound end, path)
        end.
  Proof.
    intros He Hnd Hb key. destruct (build_sharded_inv size lg Hperm H H_wf H_len entries root sz He Hb) as (cs & -> & Hw & Hk & Hp).
    assert (Hd : (0 + 1) * lg <= 64) by (destruct Hperm as [_ Hl]; lia).
    exists (bpath size lg (BShard cs) 0 (H key)). split.
    - pose proof (bpath_bound (BShard cs) cs 0 key eq_refl Hw Hk Hd) as Hbd. lia.
    - intros fault. unfold lookup. change 0 with (0 * lg) at 1.
      rewrite (lookup_serialized_trace size lg Hperm H H_wf H_len fault (BShard cs) cs 0 None key eq_refl Hw Hk Hd (or_introl eq_refl)).
      rewrite bwalk_spec. destruct (first_fault fault (bpath size lg (BShard cs) 0 (H key))) as [[e tr]|]; [reflexivity|].
      f_equal.
      assert (Hnd' : NoDup (map e_name (entries_of (BShard cs)))) by
        (eapply Permutation_NoDup; [apply Permutation_map, Permutation_sym; exact Hp|exact Hnd]).
      destruct (find (fun e => bytes_eqb (e_name e) key) entries) as [e|] eqn:Ef.
      + apply find_some in Ef. destruct Ef as [Hin Heq]. destruct (bytes_eqb_spec (e_name e) key) as [<-|]; [|discriminate].
        assert (Hin' : In e (entries_of (BShard cs))) by (eapply Permutation_in; [apply Permutation_sym; exact Hp|exact Hin]).
        pose proof (bok_entry size H _ _ Hk Hin') as [_ Hh]. rewrite <- Hh.
        rewrite (blookup_member lg (BShard cs) 0 e Hw Hnd' Hin'). reflexivity.
      + rewrite (blookup_absent lg (BShard cs) 0 (H key) key); [reflexivity|].
        intros Hi. apply (Permutation_in _ (Permutation_map e_name Hp)) in Hi. apply in_map_iff in Hi. destruct Hi as (e & En & Hin).
        pose proof (find_none _ _ Ef e Hin) as Hf. cbn beta in Hf. rewrite En in Hf.
        destruct (bytes_eqb_spec key key); congruence.
  Qed.
End PathBound.

(* ---- iteration when some shards are unavailable ---- *)
Section IterFaults.
  Variables (size lg : N).
  Hypothesis Hperm : permitted size lg.
  Variable H : bytes -> bytes.
  Variable fault : blk -> option err.

  Notation width := (pad_len size).
  Notation ser := (serialize_node size HashMurmur3 width).
  Notation bok := (bok size H).
  Notation link_of := (link_of size).

  (* the events the trie prescribes: every entry not below an unavailable shard, one error per unavailable shard met *)
  Fixpoint bevents (n : bnode) : list ievent :=
    match n with
    | BVal e => [yield_of e]
    | BShard cs =>
      flat_map (fun kc => match snd kc with
                          | BVal e => [yield_of e]
                          | BShard _ => match fault (fst (ser (snd kc))) with Some e => [IErr e] | None => bevents (snd kc) end
                          end) cs
    end.

  Definition evs_of_f (rec : blk -> list (list blk * ievent)) (sh : shard) (root_pad : nat) (l : plink) : list (list blk * ievent) :=
    match is_value_link (sh_pad sh) l with
    | Err e => [([], IErr e)]
    | Panic => [([], IErr EOther)]
    | Ok true => [([], match name_suffix root_pad l with Ok k => IYield k (l_target l) | Err e => IErr e | Panic => IPanic end)]
    | Ok false =>
      match fault (l_target l) with
      | Some e => [([l_target l], IErr e)]
      | None =>
        match rec (l_target l) with
        | [] => [([l_target l], IErr EOverread)]
        | (tr, ev) :: sub' => (l_target l :: tr, ev) :: sub'
        end
      end
    end.

  Lemma iter_links_flat_f rec sh rp ls : iter_links fault rec sh rp ls = flat_map (evs_of_f rec sh rp) ls.
  Proof.
    induction ls as [|[n s t] r IH]; [reflexivity|]. cbn [iter_links flat_map]. fold (iter_links fault rec sh rp). rewrite IH.
    set (F := flat_map (evs_of_f rec sh rp) r). unfold evs_of_f. cbn [l_target].
    destruct (is_value_link (sh_pad sh) (PLink n s t)) as [[|]| |]; try reflexivity.
    destruct (fault t); [reflexivity|].
    destruct (rec t) as [|[tr ev] sub']; reflexivity.
  Qed.

  Lemma bevents_nonempty n : bok n -> n <> BShard [] -> bevents n <> [].
  Proof.
    induction n as [e|cs IH] using bnode_ind'; intros Hb Hne; [discriminate|].
    destruct cs as [|[b c] r]; [congruence|]. cbn [bevents flat_map snd].
    rewrite bok_shard in Hb. inversion Hb as [|? ? (_ & Hc & Hbc) _]; subst. inversion IH as [|? ? IHc _]; subst. cbn [snd] in *.
    destruct c as [e|sub]; [discriminate|].
    destruct (fault (fst (ser (BShard sub)))); [discriminate|].
    specialize (IHc Hbc Hc). destruct (bevents (BShard sub)); [congruence|discriminate].
  Qed.

  Theorem iterate_serialized_faults n : forall cs pf,
    n = BShard cs -> bok n -> (pf = None \/ pf = Some size) ->
    Permutation (map snd (iter_blk fault (fst (ser n)) pf width)) (bevents n).
  Proof.
    induction n as [e|cs0 IH] using bnode_ind'; intros cs pf En Hb Hpf; [discriminate|].
    inversion En; subst cs0. clear En.
    pose proof (mk_shard_ser size lg Hperm H cs Hb) as Hmk. rewrite (ser_shard_blk size) in Hmk |- *.
    rewrite iter_blk_pb, Hmk. cbn [sh_fanout].
    replace (match pf with Some pf0 => negb (size =? pf0) | None => false end) with false
      by (destruct Hpf as [->| ->]; [reflexivity|rewrite N.eqb_refl; reflexivity]).
    rewrite iter_links_flat_f.
    set (sh := mk_shard size lg width (bitmap_of cs) (sort_links (map link_of cs))).
    set (f := evs_of_f (fun t => iter_blk fault t (Some size) width) sh width).
    transitivity (map snd (flat_map f (map link_of cs))).
    { apply Permutation_map, Permutation_flat_map, Permutation_sym, sort_perm. }
    rewrite bok_shard in Hb. cbn [bevents]. clear Hmk. subst sh.
    induction cs as [|[b c] r IHr]; [constructor|].
    inversion Hb as [|? ? (Hbs & Hcne & Hbc) Hbr]; subst. inversion IH as [|? ? IHc IHrest]; subst. cbn [fst snd] in *.
    cbn [map flat_map snd]. rewrite !map_app. apply Permutation_app; [|apply IHr; assumption].
    destruct c as [e|sub].
    - destruct Hbc as [Hname _]. subst f. unfold evs_of_f. cbn [sh_pad]. rewrite (vl_val size b e Hname), sfx_val, tgt_val. reflexivity.
    - specialize (IHc sub (Some size) eq_refl Hbc (or_intror eq_refl)).
      subst f. unfold evs_of_f. cbn [sh_pad]. rewrite vl_shard, tgt_shard.
      destruct (fault (fst (ser (BShard sub)))) as [fe|]; [reflexivity|].
      destruct (iter_blk fault (fst (ser (BShard sub))) (Some size) width) as [|[tr ev] sub'] eqn:Ei.
      + exfalso. cbn [map] in IHc. apply Permutation_nil in IHc.
        exact (bevents_nonempty _ Hbc Hcne IHc).
      + exact IHc.
  Qed.
End IterFaults.

(* which entries an iteration with unavailable shards still yields: exactly those with no unavailable shard on their path *)
Section Reachable.
  Variables (size lg : N).
  Variable fault : blk -> option err.
  Notation width := (pad_len size).
  Notation ser := (serialize_node size HashMurmur3 width).

  Lemma bevents_yield_entry n k v : In (IYield k v) (bevents size fault n) -> exists e, In e (entries_of n) /\ e_name e = k /\ e_target e = v.
  Proof.
    induction n as [e|cs IH] using bnode_ind'; intros Hin.
    - destruct Hin as [E|[]]. inversion E; subst. exists e. split; [left; reflexivity|split; reflexivity].
    - cbn [bevents] in Hin. apply in_flat_map in Hin. destruct Hin as ([b c] & Hbc & Hin). cbn [snd] in Hin.
      rewrite Forall_forall in IH. specialize (IH _ Hbc). cbn [snd] in IH.
      assert (G : exists e, In e (entries_of c) /\ e_name e = k /\ e_target e = v).
      { destruct c as [e|sub].
        - destruct Hin as [E|[]]. inversion E; subst. exists e. split; [left; reflexivity|split; reflexivity].
        - destruct (fault (fst (ser (BShard sub)))); [destruct Hin as [E|[]]; discriminate|]. apply IH. exact Hin. }
      destruct G as (e & He & Hk & Hv). exists e. split; [|split; assumption].
      cbn [entries_of]. apply in_flat_map. exists (b, c). split; assumption.
  Qed.

  Theorem yielded_iff_path_available n : forall d e,
    bwf lg d n -> NoDup (map e_name (entries_of n)) -> In e (entries_of n) ->
    (In (yield_of e) (bevents size fault n) <-> first_fault fault (bpath size lg n d (e_hash e)) = None).
  Proof.
    induction n as [e'|cs IH] using bnode_ind'; intros d e Hw Hnd Hin.
    - destruct Hin as [<-|[]]. cbn. split; [reflexivity|intros _; left; reflexivity].
    - destruct (proj1 (bwf_shard lg d cs) Hw) as [Hk Hall]. rewrite bwf_all_forall, Forall_forall in Hall.
      cbn [entries_of] in Hin. apply in_flat_map in Hin. destruct Hin as ([b c] & Hbc & He). cbn [snd] in He.
      destruct (Hall _ Hbc) as [Hs Hwc]. cbn [fst snd] in Hs, Hwc.
      change (bpath size lg (BShard cs) d (e_hash e)) with (match slice_at lg (e_hash e) d with Ok b => pfind size lg b d (e_hash e) cs | _ => [] end).
      rewrite (Hs e He).
      assert (Hpf : pfind size lg b d (e_hash e) cs = match c with BVal _ => [] | BShard _ => fst (ser c) :: bpath size lg c (d + 1) (e_hash e) end).
      { clear -Hk Hbc. induction cs as [|[k c'] r IHr]; [destruct Hbc|]. inversion Hk as [|? ? Hn Hr]; subst. cbn [pfind].
        destruct Hbc as [E|Hbc].
        - inversion E; subst. rewrite N.eqb_refl. reflexivity.
        - destruct (N.eqb_spec b k) as [->|_]; [exfalso; apply Hn; apply in_map_iff; exists (k, c); auto|]. apply IHr; assumption. }
      rewrite Hpf.
      assert (Hndc : NoDup (map e_name (entries_of c))).
      { cbn [entries_of] in Hnd. rewrite flat_map_concat_map, concat_map, map_map in Hnd. rewrite <- flat_map_concat_map in Hnd.
        apply (NoDup_flat_map_part (fun kc => map e_name (entries_of (snd kc))) cs (b, c) Hnd Hbc). }
      (* the yield of e can only come from the child holding e *)
      assert (Honly : In (yield_of e) (bevents size fault (BShard cs)) <->
                      In (yield_of e) (match c with
                                       | BVal e0 => [yield_of e0]
                                       | BShard _ => match fault (fst (ser c)) with Some x => [IErr x] | None => bevents size fault c end
                                       end)).
      { cbn [bevents]. rewrite in_flat_map. split.
        - intros ([b2 c2] & Hbc2 & Hy). cbn [snd] in Hy.
          assert (Hsame : In e (entries_of c2)).
          { assert (G : exists e2, In e2 (entries_of c2) /\ e_name e2 = e_name e /\ e_target e2 = e_target e).
            { destruct c2 as [e2|sub2].
              - destruct Hy as [E|[]]. inversion E. exists e2. split; [left; reflexivity|split; congruence].
              - destruct (fault (fst (ser (BShard sub2)))); [destruct Hy as [E|[]]; discriminate|].
                apply (bevents_yield_entry (BShard sub2)). exact Hy. }
            destruct G as (e2 & He2 & Hn2 & _).
            assert (e2 = e) as <-; [|exact He2].
            (* distinct names in the whole shard *)
            assert (Hi2 : In e2 (entries_of (BShard cs))) by (cbn [entries_of]; apply in_flat_map; exists (b2, c2); auto).
            assert (Hi : In e (entries_of (BShard cs))) by (cbn [entries_of]; apply in_flat_map; exists (b, c); auto).
            clear -Hnd Hi2 Hi Hn2. induction (entries_of (BShard cs)) as [|x l IHl]; [destruct Hi|].
            cbn [map] in Hnd. inversion Hnd as [|? ? Hx Hl]; subst.
            destruct Hi2 as [->|Hi2], Hi as [->|Hi]; try reflexivity.
            - exfalso. apply Hx. rewrite Hn2. apply in_map. exact Hi.
            - exfalso. apply Hx. rewrite <- Hn2. apply in_map. exact Hi2.
            - apply IHl; assumption. }
          (* e lies under c and under c2: same bucket, hence the same child *)
          destruct (Hall _ Hbc2) as [Hs2 _]. cbn [fst snd] in Hs2. pose proof (Hs2 e Hsame) as E2. rewrite (Hs e He) in E2. inversion E2; subst b2.
          assert (c2 = c) as ->; [|exact Hy].
          apply (assoc_get_in b c2 cs Hk) in Hbc2. apply (assoc_get_in b c cs Hk) in Hbc. congruence.
        - intros Hy. exists (b, c). split; [exact Hbc|exact Hy]. }
      rewrite Honly. rewrite Forall_forall in IH. specialize (IH _ Hbc (d + 1) e Hwc Hndc He). cbn [snd] in IH.
      destruct c as [e0|sub].
      + destruct He as [<-|[]]. cbn. split; [reflexivity|intros _; left; reflexivity].
      + cbn [first_fault]. destruct (fault (fst (ser (BShard sub)))) as [x|].
        * split; [intros [E|[]]; discriminate|discriminate].
        * rewrite IH. destruct (first_fault fault (bpath size lg (BShard sub) (d + 1) (e_hash e))) as [[x tr]|]; split; congruence.
  Qed.
End Reachable.

(* ---- order-preserving sub-lists (for "at most once") ---- *)
Inductive subl {A} : list A -> list A -> Prop :=
| subl_nil : subl [] []
| subl_skip x l1 l2 : subl l1 l2 -> subl l1 (x :: l2)
| subl_keep x l1 l2 : subl l1 l2 -> subl (x :: l1) (x :: l2).

Lemma subl_nil_l {A} (l : list A) : subl [] l.
Proof. induction l; [apply subl_nil|apply subl_skip; assumption]. Qed.
Lemma subl_refl {A} (l : list A) : subl l l.
Proof. induction l; [apply subl_nil|apply subl_keep; assumption]. Qed.
Lemma subl_app {A} (a1 a2 b1 b2 : list A) : subl a1 a2 -> subl b1 b2 -> subl (a1 ++ b1) (a2 ++ b2).
Proof. induction 1; intros Hb; cbn [app]; [exact Hb|apply subl_skip; auto|apply subl_keep; auto]. Qed.
Lemma subl_in {A} (l1 l2 : list A) x : subl l1 l2 -> In x l1 -> In x l2.
Proof. induction 1; intros Hin; [exact Hin|right; auto|destruct Hin as [->|Hin]; [left; reflexivity|right; auto]]. Qed.
Lemma subl_nodup {A} (l1 l2 : list A) : subl l1 l2 -> NoDup l2 -> NoDup l1.
Proof.
  induction 1 as [|x l1 l2 Hs IH|x l1 l2 Hs IH]; intros Hnd; [constructor| |]; inversion Hnd as [|? ? Hx Hr]; subst; [auto|].
  constructor; [intro Hi; apply Hx; eapply subl_in; eassumption|auto].
Qed.

Definition is_yield (ev : ievent) : bool := match ev with IYield _ _ => true | _ => false end.

Section Under.
  Variables (size lg : N).
  Hypothesis Hperm : permitted size lg.
  Variable H : bytes -> bytes.
  Hypothesis H_wf : forall k, wf_bytes (H k) = true.
  Hypothesis H_len : forall k, length (H k) = 8%nat.
  Notation width := (pad_len size).
  Notation ser := (serialize_node size HashMurmur3 width).

  Lemma bevents_yields_subl fault n : subl (filter is_yield (bevents size fault n)) (map yield_of (entries_of n)).
  Proof.
    induction n as [e|cs IH] using bnode_ind'; [cbn; apply subl_refl|].
    cbn [bevents entries_of]. induction IH as [|[b c] r Hc _ IHr]; [constructor|].
    cbn [flat_map snd]. rewrite filter_app, map_app. apply subl_app; [|exact IHr]. cbn [snd] in Hc.
    destruct c as [e|sub]; [cbn; apply subl_refl|].
    destruct (fault (fst (ser (BShard sub)))); [cbn [filter is_yield]; apply subl_nil_l|exact Hc].
  Qed.

  (* BuildUnixFSShardedDirectory, then iteration under ANY availability of the blocks: an entry is yielded (once)
     exactly when looking it up succeeds; nothing else is yielded *)
  Theorem sharded_iterate_under_faults entries root sz :
    Forall (entry_ok H) entries -> NoDup (map e_name entries) ->
    build_sharded size HashMurmur3 entries = Ok (root, sz) ->
    forall fault,
      let evs := map snd (iterate fault root) in
      (forall e, In e entries -> (In (yield_of e) evs <-> fst (lookup fault root (H (e_name e)) (e_name e)) = Ok (e_target e)))
      /\ (forall k v, In (IYield k v) evs -> exists e, In e entries /\ e_name e = k /\ e_target e = v)
      /\ NoDup (filter is_yield evs).
  Proof.
    intros He Hnd Hb fault evs. destruct (build_sharded_inv size lg Hperm H H_wf H_len entries root sz He Hb) as (cs & -> & Hw & Hk & Hp).
    assert (Hd : (0 + 1) * lg <= 64) by (destruct Hperm as [_ Hl]; lia).
    assert (Hnd' : NoDup (map e_name (entries_of (BShard cs)))) by
        (eapply Permutation_NoDup; [apply Permutation_map, Permutation_sym; exact Hp|exact Hnd]).
    assert (Hev : Permutation evs (bevents size fault (BShard cs))).
    { subst evs. unfold iterate. rewrite (mk_shard_ser size lg Hperm H cs Hk). cbn [sh_pad].
      apply (iterate_serialized_faults size lg Hperm H fault (BShard cs) cs None eq_refl Hk (or_introl eq_refl)). }
    split; [|split].
    - intros e Hin.
      assert (Hin' : In e (entries_of (BShard cs))) by (eapply Permutation_in; [apply Permutation_sym; exact Hp|exact Hin]).
      pose proof (bok_entry size H _ _ Hk Hin') as [_ Hh].
      unfold lookup. change 0 with (0 * lg) at 1.
      rewrite (lookup_serialized_trace size lg Hperm H H_wf H_len fault (BShard cs) cs 0 None (e_name e) eq_refl Hw Hk Hd (or_introl eq_refl)).
      rewrite bwalk_spec, <- Hh.
      split.
      + intros Hy. apply (Permutation_in _ Hev) in Hy.
        pose proof (proj1 (yielded_iff_path_available size lg fault (BShard cs) 0 e Hw Hnd' Hin') Hy) as Hff. rewrite Hff.
        cbn [fst]. rewrite (blookup_member lg (BShard cs) 0 e Hw Hnd' Hin'). reflexivity.
      + intros Hl. apply (Permutation_in _ (Permutation_sym Hev)).
        apply (yielded_iff_path_available size lg fault (BShard cs) 0 e Hw Hnd' Hin').
        destruct (first_fault fault (bpath size lg (BShard cs) 0 (e_hash e))) as [[x tr]|]; [discriminate|reflexivity].
    - intros k v Hin. apply (Permutation_in _ Hev) in Hin. destruct (bevents_yield_entry size fault _ k v Hin) as (e & Hi & Hn & Hv).
      exists e. split; [eapply Permutation_in; [exact Hp|exact Hi]|split; assumption].
    - assert (Hpf : Permutation (filter is_yield evs) (filter is_yield (bevents size fault (BShard cs)))).
      { clear -Hev. induction Hev as [|x l l' _ IH|x y l|l l' l'' _ IH1 _ IH2]; cbn [filter]; [constructor| | |etransitivity; eassumption].
        - destruct (is_yield x); [constructor|]; exact IH.
        - destruct (is_yield x), (is_yield y); try reflexivity. constructor. }
      apply (Permutation_NoDup (Permutation_sym Hpf)).
      apply (subl_nodup _ _ (bevents_yields_subl fault (BShard cs))).
      (* distinct names give distinct yields *)
      clear -Hnd'. induction (entries_of (BShard cs)) as [|x l IHl]; [constructor|].
      cbn [map] in *. inversion Hnd' as [|? ? Hx Hl]; subst. constructor; [|apply IHl; exact Hl].
      intros Hi. apply in_map_iff in Hi. destruct Hi as (y & Ey & Hy). apply Hx. assert (En : e_name y = e_name x) by (unfold yield_of in Ey; congruence). rewrite <- En. apply in_map. exact Hy.
  Qed.
End Under.
