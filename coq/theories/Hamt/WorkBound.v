(* Work bounds of the sharded-directory reader on ANY block DAG (hostile ones included):
   a lookup requests at most one block per bit of the hash still unread, whatever the depth of the DAG;
   iteration and length() make at most one step / request per link of the (unfolded) DAG. *)
From UV Require Import Hamt.Read Hamt.NoPanic Hamt.HashBitsSpec Hamt.HashBitsProofs Hamt.Refine Hamt.IterOrder Blocks.BlkProofs.
From Coq Require Import ZifyN ZifyNat ZifyBool.
Local Open Scope N_scope.

Lemma hb_next_ok_bounds hb c i v c' : hb_next hb c i = Ok (v, c') -> c' = c + i /\ c + i <= nbits hb.
Proof.
  intros Hn. split; [apply (next_advances hb c i v c' Hn)|].
  unfold hb_next in Hn. unfold nbits. destruct (N.ltb_spec (N.of_nat (length hb) * 8) (c + i)); [discriminate|lia].
Qed.

Section Bounds.
  Variable fault : blk -> option err.

  Theorem lookup_loads_bounded b : forall pf hb key consumed,
    let tr := snd (lookup_blk fault b pf hb key consumed) in
    tr = [] \/ consumed + N.of_nat (length tr) <= nbits hb.
  Proof.
    induction b as [c|i n|d ls IH] using blk_ind'; intros pf hb key consumed; [left; reflexivity|left; reflexivity|].
    cbv zeta. rewrite lookup_blk_pb.
    destruct (mk_shard_of (Pb d ls)) as [sh| |] eqn:Es; [|left; reflexivity|left; reflexivity].
    destruct (match pf with Some pf0 => negb (sh_fanout sh =? pf0) | None => false end); [left; reflexivity|].
    destruct (hb_next hb consumed (sh_lg sh)) as [[idx consumed']| |] eqn:En; [|left; reflexivity|left; reflexivity].
    destruct (hb_next_ok_bounds _ _ _ _ _ En) as [Hc Hle]. pose proof (mk_shard_lg _ _ Es) as Hlg.
    destruct (negb (bf_bit (sh_bits sh) idx)); [left; reflexivity|]. cbv zeta.
    destruct (nth_error (sh_links sh) (N.to_nat (bf_ones_before (sh_bits sh) idx))) as [l|]; [|left; reflexivity].
    destruct (is_value_link (sh_pad sh) l) as [[|]| |]; [| |left; reflexivity|left; reflexivity].
    - destruct (name_suffix (sh_pad sh) l) as [sfx| |]; [destruct (bytes_eqb sfx key)| |]; left; reflexivity.
    - destruct (fault (l_target l)); [right; cbn [snd length]; lia|].
      (* one request, then the child's lookup with lg more bits consumed *)
      generalize (N.to_nat (bf_ones_before (sh_bits sh) idx)). intros k.
      assert (G : forall ls0, Forall (fun l0 => forall pf hb key consumed,
                                     let tr := snd (lookup_blk fault (l_target l0) pf hb key consumed) in
                                     tr = [] \/ consumed + N.of_nat (length tr) <= nbits hb) ls0 ->
                  forall k0, let tr := snd (find_link (fun t' => lookup_blk fault t' (Some (sh_fanout sh)) hb key consumed') (l_target l) ls0 k0) in
                             tr = [] \/ consumed + N.of_nat (length tr) <= nbits hb).
      { induction 1 as [|[n0 s0 t0] r0 Ht _ IHr]; intros k0; [destruct k0; left; reflexivity|].
        destruct k0; cbn [find_link]; [|apply IHr].
        cbn [l_target] in Ht. specialize (Ht (Some (sh_fanout sh)) hb key consumed'). cbv zeta in Ht.
        destruct (lookup_blk fault t0 (Some (sh_fanout sh)) hb key consumed') as [r1 tr1]. cbn [snd] in *.
        right. cbn [length]. destruct Ht as [->|Ht]; cbn [length]; lia. }
      apply (G ls IH k).
  Qed.

  (* links of the unfolded DAG *)
  Fixpoint tree_links (b : blk) : N :=
    match b with
    | Pb _ ls => (fix go (ls : list plink) : N := match ls with [] => 0 | PLink _ _ t :: r => 1 + tree_links t + go r end) ls
    | _ => 0
    end.
  Definition links_sum := fix go (ls : list plink) : N := match ls with [] => 0 | PLink _ _ t :: r => 1 + tree_links t + go r end.
  Lemma tree_links_pb d ls : tree_links (Pb d ls) = links_sum ls.
  Proof. reflexivity. Qed.

  Theorem iteration_steps_bounded b : forall pf rp, N.of_nat (length (iter_blk fault b pf rp)) <= tree_links b + 1.
  Proof.
    induction b as [c|i n|d ls IH] using blk_ind'; intros pf rp; [cbn; lia|cbn; lia|].
    rewrite iter_blk_pb, tree_links_pb.
    destruct (mk_shard_of (Pb d ls)) as [sh| |]; [|cbn; lia|cbn; lia].
    destruct (match pf with Some pf0 => negb (sh_fanout sh =? pf0) | None => false end); [cbn; lia|].
    assert (G : N.of_nat (length (iter_links fault (fun t => iter_blk fault t (Some (sh_fanout sh)) rp) sh rp ls)) <= links_sum ls); [|lia].
    induction IH as [|[n0 s0 t0] r0 Ht _ IHr]; [cbn; lia|].
    cbn [iter_links links_sum]. cbn [l_target] in Ht. specialize (Ht (Some (sh_fanout sh)) rp).
    destruct (is_value_link (sh_pad sh) (PLink n0 s0 t0)) as [[|]| |]; cbn [length]; try lia.
    destruct (fault t0); [cbn [length]; lia|].
    destruct (iter_blk fault t0 (Some (sh_fanout sh)) rp) as [|[tr ev] sub']; [cbn [length]; lia|].
    cbn [length] in *. rewrite app_length. lia.
  Qed.

  Theorem iteration_requests_bounded b : forall pf, N.of_nat (length (shard_walk fault b pf)) <= tree_links b.
  Proof.
    induction b as [c|i n|d ls IH] using blk_ind'; intros pf; [cbn; lia|cbn; lia|].
    rewrite shard_walk_pb, tree_links_pb.
    destruct (mk_shard_of (Pb d ls)) as [sh| |]; [|cbn; lia|cbn; lia].
    destruct (match pf with Some pf0 => negb (sh_fanout sh =? pf0) | None => false end); [cbn; lia|].
    induction IH as [|[n0 s0 t0] r0 Ht _ IHr]; [cbn; lia|].
    cbn [walk_links links_sum]. cbn [l_target] in Ht. specialize (Ht (Some (sh_fanout sh))).
    rewrite app_length. destruct (child_of (sh_pad sh) (PLink n0 s0 t0)); [|cbn [length]; lia].
    destruct (fault t0); cbn [length]; lia.
  Qed.

  Theorem length_requests_bounded b pf : N.of_nat (length (snd (length_blk fault b pf))) <= tree_links b.
  Proof.
    destruct (length_requests_walk_prefix fault b pf) as (rest & Hw & _).
    pose proof (iteration_requests_bounded b pf) as Hb. rewrite Hw, app_length in Hb. lia.
  Qed.
End Bounds.
