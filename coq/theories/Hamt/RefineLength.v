(* length() — and with it the preloading reifier — on a serialized sharded directory with unavailable blocks:
   only child shards are requested (never an entry's block), all of them when none is unavailable, and the
   result is the entry count exactly when every shard could be loaded. *)
From UV Require Import Hamt.Read Hamt.SortProofs Hamt.BitfieldProofs Hamt.TrieProofs Hamt.RankProofs Hamt.ShardDecode
  Hamt.NoPanic Reify.Proofs Hamt.Refine.
From Coq Require Import Permutation Sorted ZifyN ZifyNat ZifyBool.
Local Open Scope N_scope.

Section LengthLinks.
  Variable fault : blk -> option err.
  Variable rec : blk -> option N -> res N * list blk.
  Variable sh : shard.

  Definition is_child (l : plink) : bool := match is_value_link (sh_pad sh) l with Ok false => true | _ => false end.
  (* what one link may contribute to the trace *)
  Definition ltrace (l : plink) : list blk :=
    if is_child l then l_target l :: snd (rec (l_target l) (Some (sh_fanout sh))) else [].

  Lemma length_links_incl ls : forall total, incl (snd (length_links fault rec sh ls total)) (flat_map ltrace ls).
  Proof.
    induction ls as [|[nm ts t] r IH]; intros total; [cbn; apply incl_refl|].
    cbn [length_links flat_map]. unfold ltrace at 1, is_child. cbn [l_target].
    destruct (is_value_link (sh_pad sh) (PLink nm ts t)) as [[|]| |]; cbn [snd app]; try (intros x []).
    - apply IH.
    - destruct (fault t); [cbn [snd]; intros x [<-|[]]; left; reflexivity|].
      destruct (rec t (Some (sh_fanout sh))) as [[n0|e|] tr]; cbn [snd].
      + specialize (IH (total + n0)). destruct (length_links fault rec sh r (total + n0)) as [res tr']. cbn [snd] in *.
        intros x [<-|Hx]; [left; reflexivity|]. right. apply in_app_or in Hx. apply in_or_app. destruct Hx as [Hx|Hx]; [left; exact Hx|right; apply IH; exact Hx].
      + intros x [<-|Hx]; [left; reflexivity|right; apply in_or_app; left; exact Hx].
      + intros x [<-|Hx]; [left; reflexivity|right; apply in_or_app; left; exact Hx].
  Qed.

  (* a successful count visited every child link, found it available and its own count successful *)
  Lemma length_links_ok ls : forall total m, fst (length_links fault rec sh ls total) = Ok m ->
    Forall (fun l => is_child l = true -> fault (l_target l) = None /\ exists n, fst (rec (l_target l) (Some (sh_fanout sh))) = Ok n) ls.
  Proof.
    induction ls as [|[nm ts t] r IH]; intros total m Hok; [constructor|].
    cbn [length_links] in Hok. unfold is_child at 1.
    destruct (is_value_link (sh_pad sh) (PLink nm ts t)) as [[|]| |] eqn:Ev; try discriminate.
    - constructor; [unfold is_child; rewrite Ev; discriminate|]. apply (IH _ _ Hok).
    - cbn [l_target] in *. destruct (fault t) eqn:Ef; [discriminate|].
      destruct (rec t (Some (sh_fanout sh))) as [[n0|e|] tr] eqn:Er; try discriminate.
      destruct (length_links fault rec sh r (total + n0)) as [res tr'] eqn:El. cbn [fst] in Hok. subst res.
      constructor.
      + unfold is_child. rewrite Ev. intros _. cbn [l_target]. split; [exact Ef|]. rewrite Er. eexists. reflexivity.
      + apply (IH (total + n0) m). rewrite El. reflexivity.
  Qed.

  (* when every child link is available and counted, the result is the sum and the trace is complete, in link order *)
  Lemma length_links_all ls :
    Forall (fun l => match is_value_link (sh_pad sh) l with
                     | Ok true => True
                     | Ok false => fault (l_target l) = None /\ exists n, fst (rec (l_target l) (Some (sh_fanout sh))) = Ok n
                     | _ => False
                     end) ls ->
    forall total, length_links fault rec sh ls total = (Ok (total + nsum (map (cnt_link rec sh) ls)), flat_map ltrace ls).
  Proof.
    induction 1 as [|[nm ts t] r Hl _ IHr]; intros total.
    { cbn. rewrite N.add_0_r. reflexivity. }
    cbn [length_links map nsum fold_right flat_map]. fold (nsum (map (cnt_link rec sh) r)). unfold cnt_link at 1, ltrace at 1, is_child.
    destruct (is_value_link (sh_pad sh) (PLink nm ts t)) as [[|]| |]; try contradiction.
    - rewrite IHr, N.add_assoc. reflexivity.
    - cbn [l_target] in *. destruct Hl as [Hf (n & Hn)]. rewrite Hf.
      destruct (rec t (Some (sh_fanout sh))) as [r0 tr]. cbn [fst snd] in *. subst r0.
      rewrite IHr, N.add_assoc. reflexivity.
  Qed.
End LengthLinks.

Section LengthTrie.
  Variables (size lg : N).
  Hypothesis Hperm : permitted size lg.
  Variable H : bytes -> bytes.
  Variable fault : blk -> option err.

  Notation width := (pad_len size).
  Notation ser := (serialize_node size HashMurmur3 width).
  Notation bok := (bok size H).
  Notation link_of := (link_of size).

  (* every shard block below the root of a trie *)
  Fixpoint bshards (n : bnode) : list blk :=
    match n with
    | BVal _ => []
    | BShard cs => flat_map (fun kc => match snd kc with BVal _ => [] | BShard _ => fst (ser (snd kc)) :: bshards (snd kc) end) cs
    end.

  Lemma is_child_link_of sh kc : sh_pad sh = width -> bok (BShard [kc]) ->
    is_child sh (link_of kc) = match snd kc with BVal _ => false | BShard _ => true end.
  Proof.
    intros Hp Hb. destruct kc as [b [e|sub]]; unfold is_child; rewrite Hp.
    - rewrite bok_shard in Hb. inversion Hb as [|? ? Hk _]; subst. destruct Hk as (_ & _ & Hk). cbn [snd] in Hk. destruct Hk as [Hn _].
      rewrite (vl_val size b e Hn). reflexivity.
    - rewrite vl_shard. reflexivity.
  Qed.

  Lemma bok_single cs kc : bok (BShard cs) -> In kc cs -> bok (BShard [kc]).
  Proof. rewrite !bok_shard, Forall_forall. intros Hb Hin. constructor; [apply Hb; exact Hin|constructor]. Qed.

  (* 1. only shards of the directory are ever requested *)
  Theorem length_trace_incl n : forall cs pf,
    n = BShard cs -> bok n -> (pf = None \/ pf = Some size) ->
    incl (snd (length_blk fault (fst (ser n)) pf)) (bshards n).
  Proof.
    induction n as [e|cs0 IH] using bnode_ind'; intros cs pf En Hb Hpf; [discriminate|].
    inversion En; subst cs0. clear En.
    pose proof (mk_shard_ser size lg Hperm H cs Hb) as Hmk. rewrite (ser_shard_blk size) in Hmk |- *.
    rewrite length_blk_pb, Hmk. cbn [sh_fanout].
    replace (match pf with Some pf0 => negb (size =? pf0) | None => false end) with false
      by (destruct Hpf as [->| ->]; [reflexivity|rewrite N.eqb_refl; reflexivity]).
    set (sh := mk_shard size lg width (bitmap_of cs) (sort_links (map link_of cs))).
    intros x Hx. apply (length_links_incl fault (length_blk fault) sh) in Hx.
    apply in_flat_map in Hx. destruct Hx as (l & Hl & Hx).
    apply (Permutation_in _ (Permutation_sym (sort_perm _))) in Hl. apply in_map_iff in Hl. destruct Hl as ([b c] & <- & Hbc).
    unfold ltrace in Hx. rewrite (is_child_link_of sh (b, c) eq_refl (bok_single cs _ Hb Hbc)) in Hx. cbn [snd] in Hx.
    cbn [bshards]. apply in_flat_map. exists (b, c). split; [exact Hbc|]. cbn [snd].
    destruct c as [e|sub]; [destruct Hx|]. rewrite tgt_shard in Hx. cbn [sh_fanout sh] in Hx.
    destruct Hx as [<-|Hx]; [left; reflexivity|right].
    rewrite Forall_forall in IH. pose proof Hb as Hb'. rewrite bok_shard, Forall_forall in Hb'.
    apply (IH _ Hbc sub (Some size) eq_refl (proj2 (proj2 (Hb' _ Hbc))) (or_intror eq_refl)). exact Hx.
  Qed.

  (* 2. a count is produced only if no shard of the directory is unavailable *)
  Theorem length_ok_all_available n : forall cs pf m,
    n = BShard cs -> bok n -> (pf = None \/ pf = Some size) ->
    fst (length_blk fault (fst (ser n)) pf) = Ok m -> Forall (fun t => fault t = None) (bshards n).
  Proof.
    induction n as [e|cs0 IH] using bnode_ind'; intros cs pf m En Hb Hpf Hok; [discriminate|].
    inversion En; subst cs0. clear En.
    pose proof (mk_shard_ser size lg Hperm H cs Hb) as Hmk. rewrite (ser_shard_blk size) in Hmk, Hok.
    rewrite length_blk_pb, Hmk in Hok. cbn [sh_fanout] in Hok.
    replace (match pf with Some pf0 => negb (size =? pf0) | None => false end) with false in Hok
      by (destruct Hpf as [->| ->]; [reflexivity|rewrite N.eqb_refl; reflexivity]).
    set (sh := mk_shard size lg width (bitmap_of cs) (sort_links (map link_of cs))) in *.
    pose proof (length_links_ok fault (length_blk fault) sh _ _ _ Hok) as Hall. rewrite Forall_forall in Hall.
    cbn [bshards]. apply Forall_forall. intros t Ht. apply in_flat_map in Ht. destruct Ht as ([b c] & Hbc & Ht). cbn [snd] in Ht.
    destruct c as [e|sub]; [destruct Ht|].
    assert (Hl : In (link_of (b, BShard sub)) (sort_links (map link_of cs))).
    { apply (Permutation_in _ (sort_perm _)). apply in_map. exact Hbc. }
    specialize (Hall _ Hl). rewrite (is_child_link_of sh (b, BShard sub) eq_refl (bok_single cs _ Hb Hbc)) in Hall.
    destruct (Hall eq_refl) as [Hf (n0 & Hn0)]. rewrite tgt_shard in Hf, Hn0. cbn [sh_fanout sh] in Hn0.
    destruct Ht as [<-|Ht]; [exact Hf|].
    rewrite Forall_forall in IH. pose proof Hb as Hb'. rewrite bok_shard, Forall_forall in Hb'.
    pose proof (IH _ Hbc sub (Some size) n0 eq_refl (proj2 (proj2 (Hb' _ Hbc))) (or_intror eq_refl) Hn0) as Hsub.
    rewrite Forall_forall in Hsub. apply Hsub. exact Ht.
  Qed.

  (* 3. with every shard available: the entry count, and every shard of the directory is requested exactly as often as it occurs *)
  Theorem length_all_available n : forall cs pf,
    n = BShard cs -> bok n -> (pf = None \/ pf = Some size) -> Forall (fun t => fault t = None) (bshards n) ->
    fst (length_blk fault (fst (ser n)) pf) = Ok (N.of_nat (length (entries_of n)))
    /\ Permutation (snd (length_blk fault (fst (ser n)) pf)) (bshards n).
  Proof.
    induction n as [e|cs0 IH] using bnode_ind'; intros cs pf En Hb Hpf Hav; [discriminate|].
    inversion En; subst cs0. clear En.
    pose proof (mk_shard_ser size lg Hperm H cs Hb) as Hmk. rewrite (ser_shard_blk size) in Hmk |- *.
    rewrite length_blk_pb, Hmk. cbn [sh_fanout].
    replace (match pf with Some pf0 => negb (size =? pf0) | None => false end) with false
      by (destruct Hpf as [->| ->]; [reflexivity|rewrite N.eqb_refl; reflexivity]).
    set (sh := mk_shard size lg width (bitmap_of cs) (sort_links (map link_of cs))).
    pose proof Hb as Hb'. rewrite bok_shard, Forall_forall in Hb'. rewrite Forall_forall in IH, Hav.
    (* per child *)
    assert (Hgood : forall kc, In kc cs ->
              match snd kc with
              | BVal _ => is_value_link width (link_of kc) = Ok true /\ cnt_link (length_blk fault) sh (link_of kc) = 1
                          /\ length (entries_of (snd kc)) = 1%nat /\ ltrace (length_blk fault) sh (link_of kc) = []
              | BShard _ => is_value_link width (link_of kc) = Ok false /\ fault (l_target (link_of kc)) = None
                          /\ fst (length_blk fault (l_target (link_of kc)) (Some size)) = Ok (N.of_nat (length (entries_of (snd kc))))
                          /\ Permutation (ltrace (length_blk fault) sh (link_of kc)) (fst (ser (snd kc)) :: bshards (snd kc))
              end).
    { intros [b c] Hin. destruct (Hb' _ Hin) as (Hbs & Hcne & Hbc). cbn [fst snd] in *.
      pose proof (is_child_link_of sh (b, c) eq_refl (bok_single cs _ Hb Hin)) as Hic. cbn [snd] in Hic.
      destruct c as [e|sub].
      - destruct Hbc as [Hname _]. pose proof (vl_val size b e Hname) as Hv.
        split; [exact Hv|]. split; [unfold cnt_link; cbn [sh_pad sh]; rewrite Hv; reflexivity|]. split; [reflexivity|].
        unfold ltrace. rewrite Hic. reflexivity.
      - assert (Hsubav : Forall (fun t => fault t = None) (bshards (BShard sub))).
        { apply Forall_forall. intros t Ht. apply Hav. cbn [bshards]. apply in_flat_map. exists (b, BShard sub). split; [exact Hin|]. right. exact Ht. }
        destruct (IH _ Hin sub (Some size) eq_refl Hbc (or_intror eq_refl) Hsubav) as [Hn Htr].
        split; [apply vl_shard|]. rewrite tgt_shard. split; [|split; [exact Hn|]].
        + apply Hav. cbn [bshards]. apply in_flat_map. exists (b, BShard sub). split; [exact Hin|]. left. reflexivity.
        + unfold ltrace. rewrite Hic, tgt_shard. cbn [sh_fanout sh]. constructor. exact Htr. }
    rewrite (length_links_all fault (length_blk fault) sh).
    2:{ apply Forall_forall. intros l Hl. apply (Permutation_in _ (Permutation_sym (sort_perm _))) in Hl.
        apply in_map_iff in Hl. destruct Hl as ([b c] & <- & Hkc). cbn [sh_pad sh sh_fanout].
        pose proof (Hgood _ Hkc) as Hg. cbn [snd] in Hg. destruct c as [e|sub].
        - destruct Hg as (Hv & _). rewrite Hv. exact I.
        - destruct Hg as (Hv & Hf & Hn & _). rewrite Hv. split; [exact Hf|eexists; exact Hn]. }
    cbn [fst snd]. split.
    - f_equal. rewrite N.add_0_l.
      rewrite <- (nsum_perm _ _ (Permutation_map (cnt_link (length_blk fault) sh) (sort_perm (map link_of cs)))).
      cbn [entries_of]. clear Hmk IH Hb Hb' Hav. induction cs as [|kc r IHr]; [reflexivity|].
      cbn [map nsum fold_right flat_map]. fold (nsum (map (cnt_link (length_blk fault) sh) (map link_of r))).
      rewrite app_length, Nat2N.inj_add, <- IHr by (intros kc' Hk; apply Hgood; right; exact Hk). f_equal.
      pose proof (Hgood kc (or_introl eq_refl)) as Hg. destruct (snd kc) as [e|sub].
      + destruct Hg as (_ & Hc & Hl & _). rewrite Hc, Hl. reflexivity.
      + destruct Hg as (Hv & _ & Hn & _). unfold cnt_link. cbn [sh_pad sh sh_fanout]. rewrite Hv, Hn. reflexivity.
    - transitivity (flat_map (ltrace (length_blk fault) sh) (map link_of cs)).
      { apply Permutation_flat_map, Permutation_sym, sort_perm. }
      cbn [bshards]. clear Hmk IH Hb Hb' Hav. induction cs as [|kc r IHr]; [constructor|].
      cbn [map flat_map]. apply Permutation_app; [|apply IHr; intros kc' Hk; apply Hgood; right; exact Hk].
      pose proof (Hgood kc (or_introl eq_refl)) as Hg. destruct (snd kc) as [e|sub].
      + destruct Hg as (_ & _ & _ & Ht). rewrite Ht. constructor.
      + destruct Hg as (_ & _ & _ & Ht). exact Ht.
  Qed.
End LengthTrie.

Section LengthBuilt.
  Variables (size lg : N).
  Hypothesis Hperm : permitted size lg.
  Variable H : bytes -> bytes.
  Hypothesis H_wf : forall k, wf_bytes (H k) = true.
  Hypothesis H_len : forall k, length (H k) = 8%nat.
  Notation width := (pad_len size).
  Notation ser := (serialize_node size HashMurmur3 width).

  Lemma bshards_are_shards n : bok size H n -> Forall (fun x => exists sh, mk_shard_of x = Ok sh) (bshards size n).
  Proof.
    induction n as [e|cs IH] using bnode_ind'; intros Hb; [constructor|].
    cbn [bshards]. apply Forall_forall. intros x Hx. apply in_flat_map in Hx. destruct Hx as ([b c] & Hbc & Hx). cbn [snd] in Hx.
    rewrite bok_shard, Forall_forall in Hb. destruct (Hb _ Hbc) as (_ & _ & Hbc'). cbn [snd] in Hbc'.
    destruct c as [e|sub]; [destruct Hx|]. destruct Hx as [<-|Hx].
    - eexists. apply (mk_shard_ser size lg Hperm H sub Hbc').
    - rewrite Forall_forall in IH. specialize (IH _ Hbc Hbc'). rewrite Forall_forall in IH. apply IH. exact Hx.
  Qed.

  (* BuildUnixFSShardedDirectory, then length() / the preloading reifier under ANY availability of the blocks *)
  Theorem sharded_length_under_faults entries root sz :
    Forall (entry_ok H) entries -> NoDup (map e_name entries) ->
    build_sharded size HashMurmur3 entries = Ok (root, sz) ->
    exists shards : list blk,
      Forall (fun x => exists sh, mk_shard_of x = Ok sh) shards /\
      forall fault,
        incl (snd (shard_length fault root)) shards
        /\ (forall m, fst (shard_length fault root) = Ok m -> Forall (fun t => fault t = None) shards)
        /\ (Forall (fun t => fault t = None) shards ->
            fst (shard_length fault root) = Ok (N.of_nat (length entries)) /\ Permutation (snd (shard_length fault root)) shards).
  Proof.
    intros He Hnd Hb. destruct (build_sharded_inv size lg Hperm H H_wf H_len entries root sz He Hb) as (cs & -> & Hw & Hk & Hp).
    exists (bshards size (BShard cs)). split; [apply bshards_are_shards; exact Hk|].
    intros fault. unfold shard_length. split; [|split].
    - apply (length_trace_incl size lg Hperm H fault (BShard cs) cs None eq_refl Hk (or_introl eq_refl)).
    - intros m Hm. apply (length_ok_all_available size lg Hperm H fault (BShard cs) cs None m eq_refl Hk (or_introl eq_refl) Hm).
    - intros Hav. destruct (length_all_available size lg Hperm H fault (BShard cs) cs None eq_refl Hk (or_introl eq_refl) Hav) as [Hn Ht].
      split; [|exact Ht]. rewrite Hn, (Permutation_length Hp). reflexivity.
  Qed.
End LengthBuilt.
