(* The sharded directory end to end: what BuildUnixFSShardedDirectory serializes, read back through the
   reader (NewUnixFSHAMTShard, lookup, iteration, length), is the map of the entries.
   The name hash is a section variable: any function returning 8 well-formed bytes (murmur3-x64-64 in Go). *)
From UV Require Import Hamt.Read Hamt.HashBitsSpec Hamt.HashBitsProofs Hamt.SortProofs Hamt.BitfieldProofs
  Hamt.TrieProofs Hamt.RankProofs Hamt.ShardDecode Hamt.NoPanic Reify.Proofs.
From Coq Require Import Permutation Sorted ZifyN ZifyNat ZifyBool.
Local Open Scope N_scope.

Definition nofault : blk -> option err := fun _ => None.

Definition nsum (l : list N) : N := fold_right N.add 0 l.

Lemma nsum_perm l l' : Permutation l l' -> nsum l = nsum l'.
Proof.
  induction 1 as [|x l l' _ IH|x y l|l l' l'' _ IH1 _ IH2]; [reflexivity| | |congruence].
  - change (x + nsum l = x + nsum l'). rewrite IH. reflexivity.
  - change (y + (x + nsum l) = x + (y + nsum l)). lia.
Qed.


Section Refine.
  Variables (size lg : N).
  Hypothesis Hperm : permitted size lg.
  Variable H : bytes -> bytes.
  Hypothesis H_wf : forall k, wf_bytes (H k) = true.
  Hypothesis H_len : forall k, length (H k) = 8%nat.

  Let width := pad_len size.
  Notation ser := (serialize_node size HashMurmur3 width).

  Lemma lg_bounds : 3 <= lg <= 10 /\ size = 2 ^ lg.
  Proof. destruct Hperm as [-> Hl]. split; [exact Hl|reflexivity]. Qed.

  Lemma nbits_H k : nbits (H k) = 64.
  Proof. unfold nbits. rewrite H_len. reflexivity. Qed.

  Lemma slice_H k d : (d + 1) * lg <= 64 -> slice_at lg (H k) d = Ok (bits_at (H k) (d * lg) lg).
  Proof. intros Hd. unfold slice_at. pose proof lg_bounds. apply hb_slice_spec; [apply H_wf|lia|rewrite nbits_H; lia]. Qed.

  Lemma slice_H_ok k d b : slice_at lg (H k) d = Ok b -> (d + 1) * lg <= 64 /\ b < size.
  Proof.
    intros Hs. pose proof lg_bounds as [Hl Hsz].
    destruct (N.le_gt_cases ((d + 1) * lg) 64) as [Hle|Hgt].
    - split; [exact Hle|]. rewrite (slice_H k d Hle) in Hs. inversion Hs; subst b. rewrite Hsz. unfold bits_at. apply N.mod_lt. apply N.pow_nonzero. lia.
    - exfalso. unfold slice_at in Hs. destruct (hb_too_deep (H k) (d * lg) lg ltac:(rewrite nbits_H; lia)) as [E _]. congruence.
  Qed.

  (* ---- second trie invariant: bucket numbers below the fanout, names non-empty and hashed by H, no empty sub-shard ---- *)
  Fixpoint bok (n : bnode) : Prop :=
    match n with
    | BVal e => e_name e <> [] /\ e_hash e = H (e_name e)
    | BShard cs =>
      (fix all (cs : list (N * bnode)) : Prop :=
         match cs with
         | [] => True
         | (b, c) :: r => (b < size /\ c <> BShard [] /\ bok c) /\ all r
         end) cs
    end.
  Definition bok1 (kc : N * bnode) : Prop := fst kc < size /\ snd kc <> BShard [] /\ bok (snd kc).

  Lemma bok_shard cs : bok (BShard cs) <-> Forall bok1 cs.
  Proof.
    induction cs as [|[b c] r IH]; [split; constructor|].
    change (bok (BShard ((b, c) :: r))) with ((b < size /\ c <> BShard [] /\ bok c) /\ bok (BShard r)).
    rewrite IH. split; [intros [H1 H2]; constructor; assumption|intros H0; inversion H0; subst; split; assumption].
  Qed.

  Lemma assoc_get_some_in {A} k (v : A) l : assoc_get k l = Some v -> In (k, v) l.
  Proof.
    induction l as [|[k' v'] r IH]; cbn; [discriminate|].
    destruct (N.eqb_spec k k') as [->|_]; [intros [= ->]; left; reflexivity|intros H0; right; apply IH; exact H0].
  Qed.

  Lemma Forall_assoc_set {A} (P : N * A -> Prop) k v l : Forall P l -> P (k, v) -> Forall P (assoc_set k v l).
  Proof.
    induction 1 as [|[k' v'] r Hx Hr IH]; intros Hv; cbn; [constructor; [exact Hv|constructor]|].
    destruct (k =? k'); constructor; auto.
  Qed.

  Lemma assoc_set_nonempty {A} k (v : A) l : assoc_set k v l <> [].
  Proof. destruct l as [|[k' v'] r]; cbn; [discriminate|]. destruct (k =? k'); discriminate. Qed.

  Lemma add_bok fuel : forall d cs e cs',
    bok (BVal e) -> bok (BShard cs) -> add lg fuel d cs e = Ok cs' -> bok (BShard cs') /\ cs' <> [].
  Proof.
    induction fuel as [|f IH]; intros d cs e cs' He Hc Ha; [discriminate|].
    cbn [add] in Ha. fold (slice_at lg (e_hash e) d) in Ha.
    destruct (slice_at lg (e_hash e) d) as [b| |] eqn:Eb; try discriminate. cbn [bind] in Ha.
    assert (Hb : b < size). { destruct He as [_ Eh]. rewrite Eh in Eb. apply (slice_H_ok _ _ _ Eb). }
    rewrite bok_shard in Hc.
    destruct (assoc_get b cs) as [[cur|sub]|] eqn:Eg.
    - destruct (add lg f (d + 1) [] cur) as [s1| |] eqn:E1; try discriminate. cbn [bind] in Ha.
      destruct (add lg f (d + 1) s1 e) as [s2| |] eqn:E2; try discriminate. cbn [bind] in Ha. inversion Ha; subst cs'.
      apply assoc_get_some_in in Eg. rewrite Forall_forall in Hc. destruct (Hc _ Eg) as (_ & _ & Hcur). cbn [snd] in Hcur.
      destruct (IH (d + 1) [] cur s1 Hcur I E1) as [Hs1 _].
      destruct (IH (d + 1) s1 e s2 He Hs1 E2) as [Hs2 Hne].
      split; [|apply assoc_set_nonempty]. rewrite bok_shard. apply Forall_assoc_set; [apply Forall_forall; exact Hc|].
      split; [exact Hb|]. cbn [snd]. split; [intros [= E]; exact (Hne E)|exact Hs2].
    - destruct (add lg f (d + 1) sub e) as [sub'| |] eqn:E1; try discriminate. cbn [bind] in Ha. inversion Ha; subst cs'.
      apply assoc_get_some_in in Eg. rewrite Forall_forall in Hc. destruct (Hc _ Eg) as (_ & _ & Hsub). cbn [snd] in Hsub.
      destruct (IH (d + 1) sub e sub' He Hsub E1) as [Hs Hne].
      split; [|apply assoc_set_nonempty]. rewrite bok_shard. apply Forall_assoc_set; [apply Forall_forall; exact Hc|].
      split; [exact Hb|]. cbn [snd]. split; [intros [= E]; exact (Hne E)|exact Hs].
    - inversion Ha; subst cs'. split; [|apply assoc_set_nonempty]. rewrite bok_shard. apply Forall_assoc_set; [exact Hc|].
      split; [exact Hb|]. cbn [snd]. split; [discriminate|exact He].
  Qed.

  Lemma add_all_bok entries cs : Forall (fun e => bok (BVal e)) entries -> add_all lg entries = Ok cs -> bok (BShard cs).
  Proof.
    intros He Ha.
    apply (fold_g_inv (add lg 70 0) (fun e => bok (BVal e)) (fun cs => bok (BShard cs))
             (fun cs0 e cs1 He1 Hc Ea => proj1 (add_bok 70 0 cs0 e cs1 He1 Hc Ea)) entries [] cs He I Ha).
  Qed.

  Lemma bok_entries n : bok n -> n <> BShard [] -> entries_of n <> [].
  Proof.
    induction n as [e|cs IH] using bnode_ind'; intros Hb Hne; [discriminate|].
    destruct cs as [|[b c] r]; [congruence|]. rewrite bok_shard in Hb. inversion Hb as [|? ? (_ & Hc & Hbc) _]; subst.
    inversion IH as [|? ? IHc _]; subst. cbn [snd] in *. cbn [entries_of flat_map snd].
    specialize (IHc Hbc Hc). destruct (entries_of c); [congruence|discriminate].
  Qed.

  Lemma bok_entry n e : bok n -> In e (entries_of n) -> bok (BVal e).
  Proof.
    induction n as [e'|cs IH] using bnode_ind'; intros Hb Hin; [destruct Hin as [<-|[]]; exact Hb|].
    rewrite bok_shard in Hb. cbn [entries_of] in Hin. apply in_flat_map in Hin. destruct Hin as ([b c] & Hbc & Hin).
    rewrite Forall_forall in IH, Hb. apply (IH _ Hbc); [apply (Hb _ Hbc)|exact Hin].
  Qed.

  (* ---- what serialize writes for a shard ---- *)
  Definition link_of (kc : N * bnode) : plink :=
    match snd kc with
    | BVal e => PLink (Some (hex_fixed width (fst kc) ++ e_name e)) (Some (e_tsize e)) (e_target e)
    | BShard _ => PLink (Some (hex_fixed width (fst kc))) (Some (Z.of_N (snd (ser (snd kc))))) (fst (ser (snd kc)))
    end.

  Definition ser_go :=
    fix go (cs : list (N * bnode)) : list plink * N :=
      match cs with
      | [] => ([], 0)
      | (idx, c) :: r =>
        let '(ls, tot) := go r in
        match c with
        | BVal e =>
          (PLink (Some (hex_fixed width idx ++ e_name e)) (Some (e_tsize e)) (e_target e) :: ls, u64 (e_tsize e) + tot)
        | BShard _ =>
          let '(b, sz) := ser c in
          (PLink (Some (hex_fixed width idx)) (Some (Z.of_N sz)) b :: ls, sz + tot)
        end
      end.

  Lemma ser_shard cs : ser (BShard cs) =
    (Pb (Some (shard_data size HashMurmur3 cs)) (sort_links (fst (ser_go cs))),
     snd (ser_go cs) + pb_len (Some (shard_data size HashMurmur3 cs)) (sort_links (fst (ser_go cs)))).
  Proof. reflexivity. Qed.

  Lemma ser_go_links cs : fst (ser_go cs) = map link_of cs.
  Proof.
    induction cs as [|[idx c] r IH]; [reflexivity|]. cbn [ser_go map]. fold ser_go.
    destruct (ser_go r) as [ls tot]. cbn [fst] in IH. subst ls.
    destruct c as [e|sub]; [reflexivity|].
    change (link_of (idx, BShard sub)) with (PLink (Some (hex_fixed width idx)) (Some (Z.of_N (snd (ser (BShard sub))))) (fst (ser (BShard sub)))).
    destruct (ser (BShard sub)) as [b sz]. reflexivity.
  Qed.

  Lemma ser_shard_blk cs : fst (ser (BShard cs)) = Pb (Some (shard_data size HashMurmur3 cs)) (sort_links (map link_of cs)).
  Proof. rewrite ser_shard. cbn [fst]. rewrite ser_go_links. reflexivity. Qed.

  Lemma keys_lt cs : bok (BShard cs) -> Forall (fun k => k < size) (map fst cs).
  Proof. rewrite bok_shard. induction 1 as [|[b c] r (Hb & _) _ IH]; constructor; assumption. Qed.

  Lemma mk_shard_ser cs : bok (BShard cs) ->
    mk_shard_of (fst (ser (BShard cs))) = Ok (mk_shard size lg width (bitmap_of cs) (sort_links (map link_of cs))).
  Proof. intros Hb. rewrite ser_shard_blk. apply mk_shard_of_serialized; [exact Hperm|apply keys_lt; exact Hb]. Qed.

  Lemma width_enough idx : idx < size -> idx < 16 ^ N.of_nat width.
  Proof.
    intros Hi. destruct lg_bounds as [Hl Hs]. apply (pad_len_enough size idx); [lia| |exact Hi].
    rewrite Hs. apply N.pow_le_mono_r; lia.
  Qed.

  Lemma link_key_of kc : link_key (link_of kc) = hex_fixed width (fst kc) ++ match snd kc with BVal e => e_name e | BShard _ => [] end.
  Proof. destruct kc as [k [e|sub]]; unfold link_of; cbn [snd fst link_key l_name]; [reflexivity|rewrite app_nil_r; reflexivity]. Qed.

  Lemma link_of_order cs k1 c1 k2 c2 : bok (BShard cs) -> In (k1, c1) cs -> In (k2, c2) cs -> k1 <> k2 ->
    lltb (link_of (k1, c1)) (link_of (k2, c2)) = (k1 <? k2).
  Proof.
    intros Hb H1 H2 Hne. apply keys_lt in Hb. rewrite Forall_forall in Hb.
    assert (L1 : k1 < size) by (apply Hb; apply in_map_iff; exists (k1, c1); auto).
    assert (L2 : k2 < size) by (apply Hb; apply in_map_iff; exists (k2, c2); auto).
    unfold lltb. rewrite !link_key_of. cbn [fst snd].
    apply hex_fixed_order; [exact Hne|apply width_enough; exact L1|apply width_enough; exact L2].
  Qed.

  (* the link of an occupied bucket sits at OnesBefore(bucket) of the encoded (sorted) link list *)
  Lemma child_link cs b c : bok (BShard cs) -> NoDup (map fst cs) -> In (b, c) cs ->
    nth_error (sort_links (map link_of cs)) (N.to_nat (bf_ones_before (bitmap_of cs) b)) = Some (link_of (b, c)).
  Proof.
    intros Hb Hnd Hin. rewrite (ones_before_rank cs b Hnd), Nat2N.id.
    apply sorted_links_rank; [exact Hnd| |exact Hin].
    intros k1 c1 k2 c2 H1 H2 Hne. apply (link_of_order cs); assumption.
  Qed.

  Lemma skipn_hex w b (s : bytes) : skipn w (hex_fixed w b ++ s) = s.
  Proof.
    rewrite skipn_app, hex_fixed_length, Nat.sub_diag. cbn [skipn].
    rewrite <- (hex_fixed_length w b) at 1. rewrite skipn_all. reflexivity.
  Qed.

  Lemma vl_val b e : e_name e <> [] -> is_value_link width (link_of (b, BVal e)) = Ok true.
  Proof.
    intros Hname. unfold link_of, is_value_link. cbn [snd fst l_name]. rewrite app_length, hex_fixed_length.
    assert (Hl : length (e_name e) <> 0%nat) by (destruct (e_name e); [congruence|discriminate]).
    destruct (Nat.ltb_spec (width + length (e_name e)) width) as [Hlt|_]; [lia|].
    destruct (Nat.eqb_spec (width + length (e_name e)) width) as [Heq|_]; [lia|]. reflexivity.
  Qed.
  Lemma vl_shard b sub : is_value_link width (link_of (b, BShard sub)) = Ok false.
  Proof. unfold link_of, is_value_link. cbn [snd fst l_name]. rewrite hex_fixed_length, Nat.ltb_irrefl, Nat.eqb_refl. reflexivity. Qed.
  Lemma sfx_val b e : name_suffix width (link_of (b, BVal e)) = Ok (e_name e).
  Proof.
    unfold link_of, name_suffix. cbn [snd fst l_name]. rewrite app_length, hex_fixed_length.
    destruct (Nat.ltb_spec (width + length (e_name e)) width) as [Hlt|_]; [lia|]. rewrite skipn_hex. reflexivity.
  Qed.
  Lemma tgt_val b e : l_target (link_of (b, BVal e)) = e_target e.
  Proof. reflexivity. Qed.
  Lemma tgt_shard b sub : l_target (link_of (b, BShard sub)) = fst (ser (BShard sub)).
  Proof. reflexivity. Qed.

  (* ---- lookup on the serialized trie ---- *)
  Lemma lookup_blk_pb fault d ls pf hb key consumed :
    lookup_blk fault (Pb d ls) pf hb key consumed =
    match mk_shard_of (Pb d ls) with
    | Err e => (Err e, [])
    | Panic => (Panic, [])
    | Ok sh =>
      if match pf with Some pf0 => negb (sh_fanout sh =? pf0) | None => false end then (Err EInvalid, []) else
      match hb_next hb consumed (sh_lg sh) with
      | Err e => (Err e, [])
      | Panic => (Panic, [])
      | Ok (idx, consumed') =>
        if negb (bf_bit (sh_bits sh) idx) then (Err ENotFound, []) else
        let li := bf_ones_before (sh_bits sh) idx in
        match nth_error (sh_links sh) (N.to_nat li) with
        | None => (Err EInvalid, [])
        | Some l =>
          match is_value_link (sh_pad sh) l with
          | Err e => (Err e, [])
          | Panic => (Panic, [])
          | Ok true =>
            match name_suffix (sh_pad sh) l with
            | Ok sfx => if bytes_eqb sfx key then (Ok (l_target l), []) else (Err ENotFound, [])
            | Err e => (Err e, [])
            | Panic => (Panic, [])
            end
          | Ok false =>
            let t := l_target l in
            match fault t with
            | Some e => (Err e, [t])
            | None => find_link (fun t' => lookup_blk fault t' (Some (sh_fanout sh)) hb key consumed') t ls (N.to_nat li)
            end
          end
        end
      end
    end.
  Proof. reflexivity. Qed.

  Lemma find_link_nth rec t ls k :
    fst (find_link rec t ls k) = match nth_error ls k with Some l => fst (rec (l_target l)) | None => Err EInvalid end.
  Proof.
    revert k. induction ls as [|[n s t'] r IH]; intros k; [destruct k; reflexivity|].
    destruct k; cbn [find_link nth_error]; [|apply IH]. cbn [l_target]. destruct (rec t') as [r0 tr]. reflexivity.
  Qed.

  Definition spec_result (o : option blk) : res blk := match o with Some t => Ok t | None => Err ENotFound end.

  Lemma existsb_key_in (cs : list (N * bnode)) b : existsb (N.eqb b) (map fst cs) = true -> exists c, In (b, c) cs.
  Proof.
    intros He. apply existsb_exists in He. destruct He as (k & Hk & E). apply N.eqb_eq in E. subst k.
    apply in_map_iff in Hk. destruct Hk as ([k c] & E & Hin). cbn in E. subst k. exists c. exact Hin.
  Qed.

  Lemma bfind_notin b d h key cs : existsb (N.eqb b) (map fst cs) = false -> bfind lg b d h key cs = None.
  Proof.
    induction cs as [|[k c] r IH]; cbn [map fst existsb bfind]; [reflexivity|].
    destruct (b =? k); cbn [orb]; [discriminate|exact IH].
  Qed.

  Theorem lookup_serialized n : forall cs d pf key,
    n = BShard cs -> bwf lg d n -> bok n -> (d + 1) * lg <= 64 -> (pf = None \/ pf = Some size) ->
    fst (lookup_blk nofault (fst (ser n)) pf (H key) key (d * lg)) = spec_result (blookup lg n d (H key) key).
  Proof.
    induction n as [e|cs0 IH] using bnode_ind'; intros cs d pf key En Hw Hb Hd Hpf; [discriminate|].
    inversion En; subst cs0. clear En.
    pose proof (mk_shard_ser cs Hb) as Hmk. rewrite ser_shard_blk in Hmk |- *.
    rewrite lookup_blk_pb, Hmk. cbn [sh_fanout sh_lg sh_pad sh_bits sh_links].
    replace (match pf with Some pf0 => negb (size =? pf0) | None => false end) with false
      by (destruct Hpf as [->| ->]; [reflexivity|rewrite N.eqb_refl; reflexivity]).
    destruct lg_bounds as [Hlg Hsz].
    rewrite (hb_next_spec (H key) (d * lg) lg (H_wf key) ltac:(lia) ltac:(rewrite nbits_H; lia)).
    rewrite blookup_shard, (slice_H key d Hd).
    set (b := bits_at (H key) (d * lg) lg).
    destruct (proj1 (bwf_shard lg d cs) Hw) as [Hnd Hall].
    rewrite bitmap_bit.
    destruct (existsb (N.eqb b) (map fst cs)) eqn:Eb; cbn [negb].
    2:{ rewrite (bfind_notin b d (H key) key cs Eb). reflexivity. }
    destruct (existsb_key_in cs b Eb) as [c Hin].
    cbv zeta. rewrite (child_link cs b c Hb Hnd Hin), (bfind_in lg b d (H key) key cs c Hnd Hin).
    pose proof Hb as Hb'. rewrite bok_shard, Forall_forall in Hb'. destruct (Hb' _ Hin) as (Hbs & Hcne & Hbc). cbn [fst snd] in Hbs, Hcne, Hbc.
    destruct c as [e|sub].
    - (* a value link: <prefix><name> *)
      destruct Hbc as [Hname _]. rewrite (vl_val b e Hname), sfx_val, tgt_val.
      cbn [blookup]. destruct (bytes_eqb (e_name e) key); reflexivity.
    - (* a child shard: <prefix> only *)
      rewrite vl_shard. unfold nofault at 1.
      rewrite find_link_nth, (child_link cs b (BShard sub) Hb Hnd Hin), tgt_shard.
      rewrite Forall_forall in IH. rewrite bwf_all_forall, Forall_forall in Hall. destruct (Hall _ Hin) as [Hsl Hwsub]. cbn [fst snd] in Hsl, Hwsub.
      replace (d * lg + lg) with ((d + 1) * lg) by lia.
      apply (IH _ Hin sub (d + 1) (Some size) key eq_refl Hwsub Hbc); [|right; reflexivity].
      (* the sub-shard is not empty, so one of its entries was sliced at depth d+1 *)
      assert (Hne : entries_of (BShard sub) <> []) by (apply bok_entries; assumption).
      destruct (entries_of (BShard sub)) as [|e0 r0] eqn:Ee; [congruence|].
      assert (He0 : In e0 (entries_of (BShard sub))) by (rewrite Ee; left; reflexivity).
      pose proof (bok_entry _ _ Hbc He0) as [_ Hh].
      clear Ee. cbn [entries_of] in He0. apply in_flat_map in He0. destruct He0 as (kc & Hkc & Hin0).
      destruct (proj1 (bwf_shard lg _ _) Hwsub) as [_ Hall2]. rewrite bwf_all_forall, Forall_forall in Hall2.
      destruct (Hall2 kc Hkc) as [Hs0 _]. specialize (Hs0 e0 Hin0). rewrite Hh in Hs0.
      apply (slice_H_ok _ _ _ Hs0).
  Qed.

  (* ---- iteration over the serialized trie ---- *)
  Definition evs_of (rec : blk -> list (list blk * ievent)) (sh : shard) (root_pad : nat) (l : plink) : list (list blk * ievent) :=
    match is_value_link (sh_pad sh) l with
    | Err e => [([], IErr e)]
    | Panic => [([], IErr EOther)]
    | Ok true => [([], match name_suffix root_pad l with Ok k => IYield k (l_target l) | Err e => IErr e | Panic => IPanic end)]
    | Ok false =>
      match rec (l_target l) with
      | [] => [([l_target l], IErr EOverread)]
      | (tr, ev) :: sub' => (l_target l :: tr, ev) :: sub'
      end
    end.

  Lemma iter_links_flat rec sh rp ls : iter_links nofault rec sh rp ls = flat_map (evs_of rec sh rp) ls.
  Proof.
    induction ls as [|[n s t] r IH]; [reflexivity|]. cbn [iter_links flat_map]. fold (iter_links nofault rec sh rp). rewrite IH.
    set (F := flat_map (evs_of rec sh rp) r). unfold evs_of. cbn [l_target]. unfold nofault at 1.
    destruct (is_value_link (sh_pad sh) (PLink n s t)) as [[|]| |]; try reflexivity.
    destruct (rec t) as [|[tr ev] sub']; reflexivity.
  Qed.

  Definition yield_of (e : entry) : ievent := IYield (e_name e) (e_target e).

  Theorem iterate_serialized n : forall cs pf,
    n = BShard cs -> bok n -> (pf = None \/ pf = Some size) ->
    Permutation (map snd (iter_blk nofault (fst (ser n)) pf width)) (map yield_of (entries_of n)).
  Proof.
    induction n as [e|cs0 IH] using bnode_ind'; intros cs pf En Hb Hpf; [discriminate|].
    inversion En; subst cs0. clear En.
    pose proof (mk_shard_ser cs Hb) as Hmk. rewrite ser_shard_blk in Hmk |- *.
    rewrite iter_blk_pb, Hmk. cbn [sh_fanout].
    replace (match pf with Some pf0 => negb (size =? pf0) | None => false end) with false
      by (destruct Hpf as [->| ->]; [reflexivity|rewrite N.eqb_refl; reflexivity]).
    rewrite iter_links_flat.
    set (sh := mk_shard size lg width (bitmap_of cs) (sort_links (map link_of cs))).
    set (f := evs_of (fun t => iter_blk nofault t (Some size) width) sh width).
    transitivity (map snd (flat_map f (map link_of cs))).
    { apply Permutation_map, Permutation_flat_map, Permutation_sym, sort_perm. }
    rewrite bok_shard in Hb. cbn [entries_of]. clear Hmk. subst sh.
    induction cs as [|[b c] r IHr]; [constructor|].
    inversion Hb as [|? ? (Hbs & Hcne & Hbc) Hbr]; subst. inversion IH as [|? ? IHc IHrest]; subst. cbn [fst snd] in *.
    cbn [map flat_map snd]. rewrite !map_app. apply Permutation_app; [|apply IHr; assumption].
    destruct c as [e|sub].
    - destruct Hbc as [Hname _]. subst f. unfold evs_of. cbn [sh_pad]. rewrite (vl_val b e Hname), sfx_val, tgt_val. reflexivity.
    - specialize (IHc sub (Some size) eq_refl Hbc (or_intror eq_refl)).
      subst f. unfold evs_of. cbn [sh_pad]. rewrite vl_shard, tgt_shard.
      destruct (iter_blk nofault (fst (ser (BShard sub))) (Some size) width) as [|[tr ev] sub'] eqn:Ei.
      + exfalso. cbn [map] in IHc. apply Permutation_nil in IHc. apply map_eq_nil in IHc.
        exact (bok_entries _ Hbc Hcne IHc).
      + exact IHc.
  Qed.

  (* ---- the recursive count ---- *)
  Definition cnt_link (rec : blk -> option N -> res N * list blk) (sh : shard) (l : plink) : N :=
    match is_value_link (sh_pad sh) l with
    | Ok true => 1
    | _ => match fst (rec (l_target l) (Some (sh_fanout sh))) with Ok n => n | _ => 0 end
    end.
  Lemma length_links_sum rec sh ls :
    Forall (fun l => is_value_link (sh_pad sh) l = Ok true \/
                     (is_value_link (sh_pad sh) l = Ok false /\ exists n, fst (rec (l_target l) (Some (sh_fanout sh))) = Ok n)) ls ->
    forall total, fst (length_links nofault rec sh ls total) = Ok (total + nsum (map (cnt_link rec sh) ls)).
  Proof.
    induction 1 as [|[nm ts t] r Hl _ IHr]; intros total; [cbn; f_equal; lia|].
    cbn [length_links map nsum fold_right]. fold (nsum (map (cnt_link rec sh) r)). unfold cnt_link at 1.
    destruct Hl as [Hv|[Hv (n & Hn)]]; rewrite Hv.
    - rewrite IHr. f_equal. lia.
    - unfold nofault at 1. cbn [l_target] in *. destruct (rec t (Some (sh_fanout sh))) as [r0 tr]. cbn [fst] in Hn. subst r0.
      specialize (IHr (total + n)). destruct (length_links nofault rec sh r (total + n)) as [res tr']. cbn [fst] in *. rewrite IHr. f_equal. lia.
  Qed.

  Theorem length_serialized n : forall cs pf,
    n = BShard cs -> bok n -> (pf = None \/ pf = Some size) ->
    fst (length_blk nofault (fst (ser n)) pf) = Ok (N.of_nat (length (entries_of n))).
  Proof.
    induction n as [e|cs0 IH] using bnode_ind'; intros cs pf En Hb Hpf; [discriminate|].
    inversion En; subst cs0. clear En.
    pose proof (mk_shard_ser cs Hb) as Hmk. rewrite ser_shard_blk in Hmk |- *.
    rewrite length_blk_pb, Hmk. cbn [sh_fanout].
    replace (match pf with Some pf0 => negb (size =? pf0) | None => false end) with false
      by (destruct Hpf as [->| ->]; [reflexivity|rewrite N.eqb_refl; reflexivity]).
    set (sh := mk_shard size lg width (bitmap_of cs) (sort_links (map link_of cs))).
    rewrite bok_shard in Hb.
    (* every link of the list is a value link or a child shard whose count is known *)
    assert (Hgood : forall kc, In kc cs ->
              (is_value_link width (link_of kc) = Ok true /\ cnt_link (length_blk nofault) sh (link_of kc) = 1 /\ length (entries_of (snd kc)) = 1%nat) \/
              (is_value_link width (link_of kc) = Ok false /\
               fst (length_blk nofault (l_target (link_of kc)) (Some size)) = Ok (N.of_nat (length (entries_of (snd kc)))))).
    { intros [b c] Hin. rewrite Forall_forall in Hb, IH. destruct (Hb _ Hin) as (Hbs & Hcne & Hbc). cbn [fst snd] in *.
      destruct c as [e|sub].
      - left. destruct Hbc as [Hname _].
        pose proof (vl_val b e Hname) as Hv.
        split; [exact Hv|]. split; [|reflexivity]. unfold cnt_link. cbn [sh_pad sh]. rewrite Hv. reflexivity.
      - right. split.
        + apply vl_shard.
        + rewrite tgt_shard. apply (IH _ Hin sub (Some size) eq_refl Hbc (or_intror eq_refl)). }
    rewrite length_links_sum.
    2:{ apply Forall_forall. intros l Hl. apply (Permutation_in _ (Permutation_sym (sort_perm _))) in Hl.
        apply in_map_iff in Hl. destruct Hl as (kc & <- & Hkc). cbn [sh_pad sh sh_fanout].
        destruct (Hgood kc Hkc) as [(Hv & _)|(Hv & Hn)]; [left; exact Hv|right; split; [exact Hv|eexists; exact Hn]]. }
    f_equal. rewrite N.add_0_l.
    rewrite <- (nsum_perm _ _ (Permutation_map (cnt_link (length_blk nofault) sh) (sort_perm (map link_of cs)))).
    cbn [entries_of]. clear Hmk IH Hb. induction cs as [|kc r IHr]; [reflexivity|].
    cbn [map nsum fold_right flat_map]. fold (nsum (map (cnt_link (length_blk nofault) sh) (map link_of r))).
    rewrite app_length, Nat2N.inj_add, <- IHr by (intros kc' Hk; apply Hgood; right; exact Hk). f_equal.
    destruct (Hgood kc (or_introl eq_refl)) as [(_ & Hc & Hl)|(Hv & Hn)]; [rewrite Hc, Hl; reflexivity|].
    unfold cnt_link. cbn [sh_pad sh sh_fanout]. rewrite Hv, Hn. reflexivity.
  Qed.
End Refine.

(* ---- BuildUnixFSShardedDirectory, then NewUnixFSHAMTShard and its operations ---- *)
Section Built.
  Variables (size lg : N).
  Hypothesis Hperm : permitted size lg.
  Variable H : bytes -> bytes.
  Hypothesis H_wf : forall k, wf_bytes (H k) = true.
  Hypothesis H_len : forall k, length (H k) = 8%nat.

  (* an entry as the builder's callers make it: non-empty name, hash = H(name) *)
  Definition entry_ok (e : entry) : Prop := e_name e <> [] /\ e_hash e = H (e_name e).

  Lemma log2_exact_permitted : log2_exact size = Some lg.
  Proof.
    destruct (permitted_cases _ _ Hperm) as [E|[E|[E|[E|[E|[E|[E|E]]]]]]]; destruct E as [-> ->]; reflexivity.
  Qed.

  Lemma build_sharded_inv entries root sz :
    Forall entry_ok entries -> build_sharded size HashMurmur3 entries = Ok (root, sz) ->
    exists cs, root = fst (serialize_node size HashMurmur3 (pad_len size) (BShard cs)) /\
               bwf lg 0 (BShard cs) /\ bok size H (BShard cs) /\ Permutation (entries_of (BShard cs)) entries.
  Proof.
    intros He Hb. unfold build_sharded in Hb. rewrite log2_exact_permitted in Hb.
    destruct (add_all lg entries) as [cs| |] eqn:Ea; try discriminate. cbn [bind] in Hb.
    destruct (negb (size mod 8 =? 0)); [discriminate|].
    set (p := serialize_node size HashMurmur3 (pad_len size) (BShard cs)) in *.
    assert (Hr : p = (root, sz)) by congruence. exists cs.
    destruct (add_all_spec lg entries cs Ea) as [Hw Hp].
    split; [fold p; rewrite Hr; reflexivity|]. split; [exact Hw|]. split; [|exact Hp].
    apply (add_all_bok size lg Hperm H H_wf H_len entries cs); [|exact Ea].
    eapply Forall_impl; [|exact He]. intros e Hx. exact Hx.
  Qed.

  Theorem sharded_dir_is_map entries root sz :
    Forall entry_ok entries -> NoDup (map e_name entries) ->
    build_sharded size HashMurmur3 entries = Ok (root, sz) ->
    (forall e, In e entries -> fst (lookup nofault root (H (e_name e)) (e_name e)) = Ok (e_target e))
    /\ (forall key, ~ In key (map e_name entries) -> fst (lookup nofault root (H key) key) = Err ENotFound)
    /\ Permutation (map snd (iterate nofault root)) (map yield_of entries)
    /\ fst (shard_length nofault root) = Ok (N.of_nat (length entries)).
  Proof.
    intros He Hnd Hb. destruct (build_sharded_inv entries root sz He Hb) as (cs & -> & Hw & Hk & Hp).
    assert (Hd : (0 + 1) * lg <= 64) by (destruct Hperm as [_ Hl]; lia).
    assert (Hnd' : NoDup (map e_name (entries_of (BShard cs)))) by
        (eapply Permutation_NoDup; [apply Permutation_map, Permutation_sym; exact Hp|exact Hnd]).
    split; [|split; [|split]].
    - intros e Hin. unfold lookup. change 0 with (0 * lg) at 1.
      assert (Hin' : In e (entries_of (BShard cs))) by (eapply Permutation_in; [apply Permutation_sym; exact Hp|exact Hin]).
      rewrite (lookup_serialized size lg Hperm H H_wf H_len (BShard cs) cs 0 None (e_name e) eq_refl Hw Hk Hd (or_introl eq_refl)).
      pose proof (bok_entry size H _ _ Hk Hin') as [_ Hh]. rewrite <- Hh.
      rewrite (blookup_member lg (BShard cs) 0 e Hw Hnd' Hin'). reflexivity.
    - intros key Hn. unfold lookup. change 0 with (0 * lg) at 1.
      rewrite (lookup_serialized size lg Hperm H H_wf H_len (BShard cs) cs 0 None key eq_refl Hw Hk Hd (or_introl eq_refl)).
      rewrite (blookup_absent lg (BShard cs) 0 (H key) key); [reflexivity|].
      intros Hi. apply Hn. eapply Permutation_in; [apply Permutation_map; exact Hp|exact Hi].
    - unfold iterate. rewrite (mk_shard_ser size lg Hperm H cs Hk). cbn [sh_pad].
      rewrite (iterate_serialized size lg Hperm H (BShard cs) cs None eq_refl Hk (or_introl eq_refl)).
      apply Permutation_map. exact Hp.
    - unfold shard_length. rewrite (length_serialized size lg Hperm H (BShard cs) cs None eq_refl Hk (or_introl eq_refl)).
      rewrite (Permutation_length Hp). reflexivity.
  Qed.

  (* the map-node contract on a built sharded directory: as many pairs as the length, every yielded key is found with the yielded link *)
  Corollary sharded_dir_contract entries root sz :
    Forall entry_ok entries -> NoDup (map e_name entries) ->
    build_sharded size HashMurmur3 entries = Ok (root, sz) ->
    fst (shard_length nofault root) = Ok (N.of_nat (length (iterate nofault root)))
    /\ (forall k v, In (IYield k v) (map snd (iterate nofault root)) -> fst (lookup nofault root (H k) k) = Ok v)
    /\ (forall k, (forall v, ~ In (IYield k v) (map snd (iterate nofault root))) -> fst (lookup nofault root (H k) k) = Err ENotFound).
  Proof.
    intros He Hnd Hb. destruct (sharded_dir_is_map entries root sz He Hnd Hb) as (Hm & Ha & Hi & Hl).
    split; [|split].
    - rewrite Hl. rewrite <- (map_length snd (iterate nofault root)), (Permutation_length Hi), map_length. reflexivity.
    - intros k v Hin. apply (Permutation_in _ Hi) in Hin. apply in_map_iff in Hin. destruct Hin as (e & Ey & Hin).
      inversion Ey; subst. apply Hm. exact Hin.
    - intros k Hno. apply Ha. intros Hin. apply in_map_iff in Hin. destruct Hin as (e & <- & Hin).
      apply (Hno (e_target e)). apply (Permutation_in _ (Permutation_sym Hi)). apply in_map_iff. exists e. split; [reflexivity|exact Hin].
  Qed.
End Built.

(* ---- non-vacuity: a concrete 8-byte hash, a directory whose names collide in the first levels ---- *)
Definition demo_hash (k : bytes) : bytes := map (fun x => x mod 256) (firstn 8 (k ++ [0; 0; 0; 0; 0; 0; 0; 0])).

Lemma demo_hash_len k : length (demo_hash k) = 8%nat.
Proof. unfold demo_hash. rewrite map_length, firstn_length, app_length. cbn [length]. lia. Qed.

Lemma demo_hash_wf k : wf_bytes (demo_hash k) = true.
Proof.
  unfold demo_hash, wf_bytes. generalize (firstn 8 (k ++ [0; 0; 0; 0; 0; 0; 0; 0])). intros l.
  induction l as [|x l IH]; [reflexivity|]. cbn [map forallb]. rewrite IH, andb_true_r.
  apply N.ltb_lt. apply N.mod_lt. discriminate.
Qed.

Definition demo_entry (name : bytes) (id : N) : entry := mk_entry name (demo_hash name) 7 (Ext id 36).
Definition demo_entries : list entry :=
  [demo_entry [65] 1; demo_entry [66] 2; demo_entry [65; 1] 3; demo_entry [200; 9] 4; demo_entry [65; 1; 2] 5].

Example demo_sharded_dir :
  permitted 8 3 /\ Forall (entry_ok demo_hash) demo_entries /\ NoDup (map e_name demo_entries)
  /\ exists root sz, build_sharded 8 HashMurmur3 demo_entries = Ok (root, sz)
     /\ fst (lookup nofault root (demo_hash [65; 1]) [65; 1]) = Ok (Ext 3 36)
     /\ fst (lookup nofault root (demo_hash [65; 2]) [65; 2]) = Err ENotFound
     /\ fst (shard_length nofault root) = Ok 5.
Proof.
  split; [split; [reflexivity|lia]|].
  split; [repeat constructor; discriminate|].
  split; [repeat constructor; cbn; intuition discriminate|].
  eexists. eexists. split; [vm_compute; reflexivity|]. split; [vm_compute; reflexivity|]. split; vm_compute; reflexivity.
Qed.
