(* The serialized sharded directory is a function of the SET of entries: whatever order the entries were
   added in and whatever order the builder's Go maps are iterated in, root block and size are the same. *)
From UV Require Import Dir.BuildProofs Hamt.Read Hamt.HashBitsSpec Hamt.SortProofs Hamt.BitfieldProofs
  Hamt.TrieProofs Hamt.RankProofs Hamt.ShardDecode Hamt.Refine.
From Coq Require Import Permutation Sorted ZifyN ZifyNat ZifyBool.
Local Open Scope N_scope.

Section Canon.
  Variables (size lg : N).
  Hypothesis Hperm : permitted size lg.
  Variable H : bytes -> bytes.
  Hypothesis H_wf : forall k, wf_bytes (H k) = true.
  Hypothesis H_len : forall k, length (H k) = 8%nat.

  Notation width := (pad_len size).
  Notation ser := (serialize_node size HashMurmur3 width).
  Notation bok := (bok size H).
  Notation link_of := (link_of size).

  (* third invariant of shard.add: a sub-shard exists only where at least two entries collide *)
  Fixpoint bmin (n : bnode) : Prop :=
    match n with
    | BVal _ => True
    | BShard cs =>
      (fix all (cs : list (N * bnode)) : Prop :=
         match cs with
         | [] => True
         | (b, c) :: r => ((match c with BShard _ => (2 <= length (entries_of c))%nat | BVal _ => True end) /\ bmin c) /\ all r
         end) cs
    end.
  Definition bmin1 (kc : N * bnode) : Prop :=
    (match snd kc with BShard _ => (2 <= length (entries_of (snd kc)))%nat | BVal _ => True end) /\ bmin (snd kc).

  Lemma bmin_shard cs : bmin (BShard cs) <-> Forall bmin1 cs.
  Proof.
    induction cs as [|[b c] r IH]; [split; constructor|].
    change (bmin (BShard ((b, c) :: r))) with (bmin1 (b, c) /\ bmin (BShard r)).
    rewrite IH. split; [intros [H1 H2]; constructor; assumption|intros H0; inversion H0; subst; split; assumption].
  Qed.

  Lemma add_bmin fuel : forall d cs e cs',
    bwf lg d (BShard cs) -> bmin (BShard cs) -> add lg fuel d cs e = Ok cs' -> bmin (BShard cs').
  Proof.
    induction fuel as [|f IH]; intros d cs e cs' Hw Hm Ha; [discriminate|].
    cbn [add] in Ha. fold (slice_at lg (e_hash e) d) in Ha.
    destruct (slice_at lg (e_hash e) d) as [b| |] eqn:Eb; try discriminate. cbn [bind] in Ha.
    rewrite bmin_shard in Hm.
    destruct (proj1 (bwf_shard lg d cs) Hw) as [Hnd Hall]. rewrite bwf_all_forall, Forall_forall in Hall.
    destruct (assoc_get b cs) as [[cur|sub]|] eqn:Eg.
    - destruct (add lg f (d + 1) [] cur) as [s1| |] eqn:E1; try discriminate. cbn [bind] in Ha.
      destruct (add lg f (d + 1) s1 e) as [s2| |] eqn:E2; try discriminate. cbn [bind] in Ha. inversion Ha; subst cs'.
      assert (Hw0 : bwf lg (d + 1) (BShard [])) by (apply bwf_shard_intro; [constructor|exact I]).
      destruct (add_spec lg f (d + 1) [] cur s1 Hw0 E1) as [Hw1 Hp1].
      destruct (add_spec lg f (d + 1) s1 e s2 Hw1 E2) as [Hw2 Hp2].
      pose proof (IH (d + 1) [] cur s1 Hw0 I E1) as Hm1.
      pose proof (IH (d + 1) s1 e s2 Hw1 Hm1 E2) as Hm2.
      rewrite bmin_shard. apply Forall_assoc_set; [exact Hm|]. split; [|exact Hm2]. cbn [snd entries_of].
      fold (entries_in s2). rewrite (Permutation_length Hp2). cbn [length]. rewrite (Permutation_length Hp1). cbn [length entries_in flat_map]. apply le_n.
    - destruct (add lg f (d + 1) sub e) as [sub'| |] eqn:E1; try discriminate. cbn [bind] in Ha. inversion Ha; subst cs'.
      apply assoc_get_some_in in Eg. destruct (Hall _ Eg) as [_ Hwsub]. cbn [snd] in Hwsub.
      rewrite Forall_forall in Hm. destruct (Hm _ Eg) as [Hlen Hmsub]. cbn [snd] in Hlen, Hmsub.
      destruct (add_spec lg f (d + 1) sub e sub' Hwsub E1) as [Hw1 Hp1].
      rewrite bmin_shard. apply Forall_assoc_set; [apply Forall_forall; exact Hm|]. split; [|exact (IH _ _ _ _ Hwsub Hmsub E1)].
      cbn [snd entries_of]. fold (entries_in sub'). rewrite (Permutation_length Hp1). cbn [length].
      change (entries_of (BShard sub)) with (entries_in sub) in Hlen. lia.
    - inversion Ha; subst cs'. rewrite bmin_shard. apply Forall_assoc_set; [exact Hm|]. split; exact I.
  Qed.

  Lemma add_all_bmin entries cs : add_all lg entries = Ok cs -> bmin (BShard cs).
  Proof.
    intros Ha.
    assert (G : bwf lg 0 (BShard cs) /\ bmin (BShard cs)); [|exact (proj2 G)].
    apply (fold_g_inv (add lg 70 0) (fun _ => True) (fun cs => bwf lg 0 (BShard cs) /\ bmin (BShard cs))) with (es := entries) (acc := @nil (N * bnode)).
    - intros cs0 e cs1 _ [Hw Hm] Ea. split; [exact (proj1 (add_spec lg 70 0 cs0 e cs1 Hw Ea))|exact (add_bmin 70 0 cs0 e cs1 Hw Hm Ea)].
    - apply Forall_forall. intros; exact I.
    - split; [apply bwf_shard_intro; [constructor|exact I]|exact I].
    - exact Ha.
  Qed.

  (* ---- two well-formed minimal tries over the same entries serialize identically ---- *)
  Definition csize (kc : N * bnode) : N := match snd kc with BVal e => u64 (e_tsize e) | BShard _ => snd (ser (snd kc)) end.

  Lemma ser_go_sizes cs : snd (ser_go size cs) = nsum (map csize cs).
  Proof.
    induction cs as [|[idx c] r IH]; [reflexivity|]. cbn [ser_go map nsum fold_right]. fold (ser_go size). fold (nsum (map csize r)).
    destruct (ser_go size r) as [ls tot]. cbn [snd] in IH. subst tot.
    destruct c as [e|sub]; [reflexivity|].
    change (csize (idx, BShard sub)) with (snd (ser (BShard sub))).
    destruct (ser (BShard sub)) as [b sz]. reflexivity.
  Qed.

  Lemma ser_shard_full cs : ser (BShard cs) =
    (Pb (Some (shard_data size HashMurmur3 cs)) (sort_links (map link_of cs)),
     nsum (map csize cs) + pb_len (Some (shard_data size HashMurmur3 cs)) (sort_links (map link_of cs))).
  Proof. rewrite ser_shard, ser_go_links, ser_go_sizes. reflexivity. Qed.

  Lemma link_keys_nodup cs : bok (BShard cs) -> NoDup (map fst cs) -> NoDup (map link_key (map link_of cs)).
  Proof.
    intros Hb Hnd. assert (Hord := fun k1 c1 k2 c2 => link_of_order size lg Hperm H cs k1 c1 k2 c2 Hb). clear Hb.
    induction cs as [|[k a] r IH]; [constructor|]. cbn [map] in *. inversion Hnd as [|? ? Hn Hr]; subst.
    constructor; [|apply IH; [exact Hr|intros; apply Hord; auto; right; assumption]].
    intros Hi. apply in_map_iff in Hi. destruct Hi as (l & El & Hl). apply in_map_iff in Hl. destruct Hl as ([k2 a2] & <- & H2).
    assert (Hne : k <> k2). { intros ->. apply Hn. apply in_map_iff. exists (k2, a2). auto. }
    pose proof (Hord k a k2 a2 (or_introl eq_refl) (or_intror H2) Hne) as H1.
    pose proof (Hord k2 a2 k a (or_intror H2) (or_introl eq_refl) (fun E => Hne (eq_sym E))) as H3.
    unfold lltb in H1, H3. rewrite El in H1. rewrite El in H3. rewrite bytes_ltb_irrefl in H1, H3.
    destruct (N.ltb_spec k k2), (N.ltb_spec k2 k); try discriminate; lia.
  Qed.

  (* entries below bucket b of a well-formed shard = the shard's entries whose slice at this depth is b *)
  Lemma bucket_entries d cs b c e : bwf lg d (BShard cs) -> In (b, c) cs ->
    (In e (entries_of c) <-> In e (entries_of (BShard cs)) /\ slice_at lg (e_hash e) d = Ok b).
  Proof.
    intros Hw Hin. destruct (proj1 (bwf_shard lg d cs) Hw) as [Hnd Hall]. rewrite bwf_all_forall, Forall_forall in Hall.
    split.
    - intros He. split; [cbn [entries_of]; apply in_flat_map; exists (b, c); auto|]. apply (proj1 (Hall _ Hin)). exact He.
    - intros [He Hs]. cbn [entries_of] in He. apply in_flat_map in He. destruct He as ([b' c'] & Hin' & He'). cbn [snd] in He'.
      pose proof (proj1 (Hall _ Hin') e He') as Hs'. cbn [fst] in Hs'. rewrite Hs in Hs'. inversion Hs'; subst b'.
      assert (c' = c) as ->; [|exact He'].
      apply (assoc_get_in b c' cs Hnd) in Hin'. apply (assoc_get_in b c cs Hnd) in Hin. congruence.
  Qed.

  Lemma nodup_perm_entries {A} (l1 l2 : list A) : NoDup l1 -> NoDup l2 -> (forall x, In x l1 <-> In x l2) -> Permutation l1 l2.
  Proof. intros. apply NoDup_Permutation; assumption. Qed.

  Lemma child_nonempty c : bmin1 (0, c) -> entries_of c <> [].
  Proof.
    intros [Hl _]. cbn [snd] in Hl. destruct c as [e|sub]; [discriminate|].
    destruct (entries_of (BShard sub)); [cbn in Hl; lia|discriminate].
  Qed.

  Theorem ser_unique t1 : forall t2 cs1 cs2 d,
    t1 = BShard cs1 -> t2 = BShard cs2 ->
    bwf lg d t1 -> bwf lg d t2 -> bok t1 -> bok t2 -> bmin t1 -> bmin t2 ->
    NoDup (entries_of t1) -> Permutation (entries_of t1) (entries_of t2) ->
    ser t1 = ser t2.
  Proof.
    induction t1 as [e|cs0 IH] using bnode_ind'; intros t2 cs1 cs2 d E1 E2 Hw1 Hw2 Hb1 Hb2 Hm1 Hm2 Hnd Hp; [discriminate|].
    inversion E1; subst cs0. subst t2. clear E1.
    assert (Hnd2 : NoDup (entries_of (BShard cs2))) by (eapply Permutation_NoDup; eassumption).
    destruct (proj1 (bwf_shard lg d cs1) Hw1) as [Hk1 _]. destruct (proj1 (bwf_shard lg d cs2) Hw2) as [Hk2 _].
    pose proof Hm1 as Hm1'. pose proof Hm2 as Hm2'. rewrite bmin_shard, Forall_forall in Hm1', Hm2'.
    pose proof Hb1 as Hb1'. pose proof Hb2 as Hb2'. rewrite bok_shard, Forall_forall in Hb1', Hb2'.
    (* matching children: same bucket, same entries, hence (by induction) same link and size *)
    assert (Hmatch : forall cA csA csB, (csA = cs1 /\ csB = cs2 \/ csA = cs2 /\ csB = cs1) ->
              forall b, In (b, cA) csA -> exists cB, In (b, cB) csB /\ Permutation (entries_of cA) (entries_of cB)).
    { intros cA csA csB Hor b HinA.
      assert (HwA : bwf lg d (BShard csA)) by (destruct Hor as [[-> _]|[-> _]]; assumption).
      assert (HwB : bwf lg d (BShard csB)) by (destruct Hor as [[_ ->]|[_ ->]]; assumption).
      assert (HmA : bmin1 (b, cA)) by (destruct Hor as [[-> _]|[-> _]]; auto).
      assert (HpAB : Permutation (entries_of (BShard csA)) (entries_of (BShard csB)))
        by (destruct Hor as [[-> ->]|[-> ->]]; [exact Hp|apply Permutation_sym; exact Hp]).
      assert (HndA : NoDup (entries_of (BShard csA))) by (destruct Hor as [[-> _]|[-> _]]; assumption).
      assert (HndB : NoDup (entries_of (BShard csB))) by (destruct Hor as [[_ ->]|[_ ->]]; assumption).
      (* some entry lives under cA; it also lives in csB, under a child with the same bucket *)
      destruct (entries_of cA) as [|e0 r0] eqn:Ee; [exfalso; apply (child_nonempty cA); [exact (conj (proj1 HmA) (proj2 HmA))|exact Ee]|].
      assert (He0 : In e0 (entries_of cA)) by (rewrite Ee; left; reflexivity).
      destruct (proj1 (bucket_entries d csA b cA e0 HwA HinA) He0) as [HeA Hs0].
      pose proof (Permutation_in _ HpAB HeA) as HeB. cbn [entries_of] in HeB. apply in_flat_map in HeB.
      destruct HeB as ([b' cB] & HinB & HeB). cbn [snd] in HeB.
      destruct (proj1 (bwf_shard lg d csB) HwB) as [_ HallB]. rewrite bwf_all_forall, Forall_forall in HallB.
      pose proof (proj1 (HallB _ HinB) e0 HeB) as Hs0'. cbn [fst] in Hs0'. rewrite Hs0 in Hs0'. inversion Hs0'; subst b'.
      exists cB. split; [exact HinB|]. rewrite <- Ee.
      apply NoDup_Permutation.
      - cbn [entries_of] in HndA. apply (NoDup_flat_map_part (fun kc => entries_of (snd kc)) csA (b, cA) HndA HinA).
      - cbn [entries_of] in HndB. apply (NoDup_flat_map_part (fun kc => entries_of (snd kc)) csB (b, cB) HndB HinB).
      - intros x. rewrite (bucket_entries d csA b cA x HwA HinA), (bucket_entries d csB b cB x HwB HinB).
        split; intros [Hx Hs]; (split; [|exact Hs]).
        + eapply Permutation_in; [exact HpAB|exact Hx].
        + eapply Permutation_in; [apply Permutation_sym; exact HpAB|exact Hx]. }
    (* a matched pair has the same link and the same size *)
    assert (Hsame : forall b c1 c2, In (b, c1) cs1 -> In (b, c2) cs2 -> Permutation (entries_of c1) (entries_of c2) ->
              link_of (b, c1) = link_of (b, c2) /\ csize (b, c1) = csize (b, c2)).
    { intros b c1 c2 H1 H2 Hpc.
      destruct (Hm1' _ H1) as [Hl1 Hmc1]. destruct (Hm2' _ H2) as [Hl2 Hmc2]. cbn [snd] in Hl1, Hl2, Hmc1, Hmc2.
      destruct c1 as [e1|s1], c2 as [e2|s2].
      - cbn [entries_of] in Hpc. apply Permutation_length_1 in Hpc. subst e2. split; reflexivity.
      - exfalso. apply Permutation_length in Hpc. cbn [entries_of length] in Hpc, Hl2. cbn [entries_of] in Hl2. lia.
      - exfalso. apply Permutation_length in Hpc. cbn [entries_of length] in Hpc, Hl1. cbn [entries_of] in Hl1. lia.
      - assert (Es : ser (BShard s1) = ser (BShard s2)).
        { rewrite Forall_forall in IH.
          destruct (proj1 (bwf_shard lg d cs1) Hw1) as [_ Ha1]. rewrite bwf_all_forall, Forall_forall in Ha1.
          destruct (proj1 (bwf_shard lg d cs2) Hw2) as [_ Ha2]. rewrite bwf_all_forall, Forall_forall in Ha2.
          apply (IH _ H1 (BShard s2) s1 s2 (d + 1) eq_refl eq_refl).
          - exact (proj2 (Ha1 _ H1)).
          - exact (proj2 (Ha2 _ H2)).
          - exact (proj2 (proj2 (Hb1' _ H1))).
          - exact (proj2 (proj2 (Hb2' _ H2))).
          - exact Hmc1.
          - exact Hmc2.
          - cbn [entries_of] in Hnd. apply (NoDup_flat_map_part (fun kc => entries_of (snd kc)) cs1 (b, BShard s1) Hnd H1).
          - exact Hpc. }
        unfold link_of, Refine.link_of, csize. cbn [snd fst]. rewrite Es. split; reflexivity. }
    (* the lists of (link, size) pairs are permutations of each other *)
    set (pr := fun kc : N * bnode => (link_of kc, csize kc)).
    assert (HP : Permutation (map pr cs1) (map pr cs2)).
    { assert (Hnp : forall cs, bok (BShard cs) -> NoDup (map fst cs) -> NoDup (map pr cs)).
      { intros cs Hb Hk. pose proof (link_keys_nodup cs Hb Hk) as Hl. rewrite map_map in Hl.
        apply (NoDup_map_inv (fun p => link_key (fst p))). rewrite map_map. exact Hl. }
      apply NoDup_Permutation; [apply Hnp; assumption|apply Hnp; assumption|].
      intros x. split; intros Hx; apply in_map_iff in Hx; destruct Hx as ([b c] & <- & Hin).
      - destruct (Hmatch c cs1 cs2 (or_introl (conj eq_refl eq_refl)) b Hin) as (c2 & Hin2 & Hpc).
        destruct (Hsame b c c2 Hin Hin2 Hpc) as [El Es]. unfold pr. rewrite El, Es. apply (in_map pr cs2 (b, c2) Hin2).
      - destruct (Hmatch c cs2 cs1 (or_intror (conj eq_refl eq_refl)) b Hin) as (c1 & Hin1 & Hpc).
        destruct (Hsame b c1 c Hin1 Hin (Permutation_sym Hpc)) as [El Es]. unfold pr. rewrite <- El, <- Es. apply (in_map pr cs1 (b, c1) Hin1). }
    assert (HPl : Permutation (map link_of cs1) (map link_of cs2)).
    { apply (Permutation_map fst) in HP. rewrite !map_map in HP. exact HP. }
    assert (HPs : nsum (map csize cs1) = nsum (map csize cs2)).
    { apply nsum_perm. apply (Permutation_map snd) in HP. rewrite !map_map in HP. exact HP. }
    (* the same occupancy bitmap *)
    assert (Hbm : bitmap_of cs1 = bitmap_of cs2).
    { apply N.bits_inj. intros i. fold (bf_bit (bitmap_of cs1) i) (bf_bit (bitmap_of cs2) i). rewrite !bitmap_bit.
      assert (Hx : forall csA csB, (csA = cs1 /\ csB = cs2 \/ csA = cs2 /\ csB = cs1) ->
                existsb (N.eqb i) (map fst csA) = true -> existsb (N.eqb i) (map fst csB) = true).
      { intros csA csB Hor Hex. destruct (existsb_key_in csA i Hex) as [c Hin].
        destruct (Hmatch c csA csB Hor i Hin) as (c2 & Hin2 & _).
        apply existsb_exists. exists i. split; [apply in_map_iff; exists (i, c2); auto|apply N.eqb_refl]. }
      destruct (existsb (N.eqb i) (map fst cs1)) eqn:X1, (existsb (N.eqb i) (map fst cs2)) eqn:X2; try reflexivity.
      - rewrite (Hx cs1 cs2 (or_introl (conj eq_refl eq_refl)) X1) in X2. discriminate.
      - rewrite (Hx cs2 cs1 (or_intror (conj eq_refl eq_refl)) X2) in X1. discriminate. }
    rewrite !ser_shard_full. unfold shard_data. rewrite Hbm, HPs.
    rewrite (sort_links_perm _ _ HPl (link_keys_nodup cs1 Hb1 Hk1)). reflexivity.
  Qed.
End Canon.

Section Order.
  Variables (size lg : N).
  Hypothesis Hperm : permitted size lg.
  Variable H : bytes -> bytes.
  Hypothesis H_wf : forall k, wf_bytes (H k) = true.
  Hypothesis H_len : forall k, length (H k) = 8%nat.

  (* BuildUnixFSShardedDirectory: the entries in any order give the same root block and size *)
  Theorem build_sharded_order_independent entries entries' r r' :
    Forall (entry_ok H) entries -> NoDup (map e_name entries) -> Permutation entries entries' ->
    build_sharded size HashMurmur3 entries = Ok r -> build_sharded size HashMurmur3 entries' = Ok r' -> r = r'.
  Proof.
    intros He Hnd Hp Hb Hb'.
    assert (He' : Forall (entry_ok H) entries') by (eapply Permutation_Forall; eassumption).
    unfold build_sharded in Hb, Hb'. rewrite (log2_exact_permitted size lg Hperm) in Hb, Hb'.
    destruct (add_all lg entries) as [cs| |] eqn:Ea; try discriminate.
    destruct (add_all lg entries') as [cs'| |] eqn:Ea'; try discriminate. cbn [bind] in Hb, Hb'.
    destruct (negb (size mod 8 =? 0)); [discriminate|].
    destruct (add_all_spec lg entries cs Ea) as [Hw Hpe]. destruct (add_all_spec lg entries' cs' Ea') as [Hw' Hpe'].
    assert (Es : serialize_node size HashMurmur3 (pad_len size) (BShard cs) = serialize_node size HashMurmur3 (pad_len size) (BShard cs')).
    { apply (ser_unique size lg Hperm H (BShard cs) (BShard cs') cs cs' 0 eq_refl eq_refl Hw Hw').
      - apply (add_all_bok size lg Hperm H H_wf H_len entries cs); [|exact Ea]. eapply Forall_impl; [|exact He]. intros e Hx; exact Hx.
      - apply (add_all_bok size lg Hperm H H_wf H_len entries' cs'); [|exact Ea']. eapply Forall_impl; [|exact He']. intros e Hx; exact Hx.
      - apply (add_all_bmin lg entries cs Ea).
      - apply (add_all_bmin lg entries' cs' Ea').
      - eapply Permutation_NoDup; [apply Permutation_sym; exact Hpe|]. apply (NoDup_map_inv e_name). exact Hnd.
      - change (Permutation (entries_in cs) (entries_in cs')). rewrite Hpe, Hpe'. exact Hp. }
    rewrite Es in Hb. congruence.
  Qed.
End Order.

(* BuildUnixFSDirectory (size-based choice between the plain and the sharded form) *)
Section Auto.
  Variable H : bytes -> bytes.
  Hypothesis H_wf : forall k, wf_bytes (H k) = true.
  Hypothesis H_len : forall k, length (H k) = 8%nat.

  Lemma estimate_perm entries entries' : Permutation entries entries' -> estimate_dir_size entries = estimate_dir_size entries'.
  Proof. unfold estimate_dir_size. induction 1 as [| | |? ? ? _ IH1 _ IH2]; cbn [fold_right]; [reflexivity|congruence|lia|congruence]. Qed.

  Theorem build_dir_order_independent entries entries' r r' :
    Forall (entry_ok H) entries -> NoDup (map e_name entries) -> Permutation entries entries' ->
    build_dir entries = Ok r -> build_dir entries' = Ok r' -> r = r'.
  Proof.
    intros He Hnd Hp Hb Hb'. unfold build_dir in Hb, Hb'. rewrite <- (estimate_perm _ _ Hp) in Hb'.
    destruct (shardSplitThreshold <? estimate_dir_size entries).
    - apply (build_sharded_order_independent defaultShardWidth 8 ltac:(split; [reflexivity|lia]) H H_wf H_len entries entries' r r' He Hnd Hp Hb Hb').
    - rewrite (plain_dir_order_independent entries entries' Hp Hnd) in Hb. congruence.
  Qed.
End Auto.
