(* A specification of the HAMT layout that does not mention insertion: group the entries by the hash slice of the
   level; a group of one is a value, a larger group is a sub-shard laid out the same way one level down.
   BuildUnixFSShardedDirectory writes exactly the serialization of this trie. *)
From UV Require Import Hamt.Read Hamt.HashBitsSpec Hamt.TrieProofs Hamt.ShardDecode Hamt.Refine Hamt.Canon Hamt.BuildTotal.
From Coq Require Import Permutation ZifyN ZifyNat ZifyBool.
Local Open Scope N_scope.

Section Spec.
  Variable lg : N.
  Hypothesis Hlg : 1 <= lg <= 64.

  Definition buckets : list N := map N.of_nat (seq 0 (N.to_nat (2 ^ lg))).
  Definition in_bucket (d b : N) (e : entry) : bool :=
    match slice_at lg (e_hash e) d with Ok b' => b' =? b | _ => false end.

  Fixpoint canon (fuel : nat) (d : N) (es : list entry) : list (N * bnode) :=
    match fuel with
    | O => []
    | S f =>
      flat_map (fun b => match filter (in_bucket d b) es with
                         | [] => []
                         | [e] => [(b, BVal e)]
                         | g => [(b, BShard (canon f (d + 1) g))]
                         end) buckets
    end.

  Definition group_node (f : nat) (d b : N) (es : list entry) : list (N * bnode) :=
    match filter (in_bucket d b) es with
    | [] => []
    | [e] => [(b, BVal e)]
    | g => [(b, BShard (canon f (d + 1) g))]
    end.
  Lemma canon_S f d es : canon (S f) d es = flat_map (fun b => group_node f d b es) buckets.
  Proof. reflexivity. Qed.

  Lemma buckets_nodup : NoDup buckets.
  Proof. unfold buckets. apply FinFun.Injective_map_NoDup; [intros a b E; apply Nat2N.inj; exact E|apply seq_NoDup]. Qed.

  Lemma in_buckets b : In b buckets <-> b < 2 ^ lg.
  Proof.
    unfold buckets. rewrite in_map_iff. split.
    - intros (n & <- & Hn). apply in_seq in Hn. lia.
    - intros Hb. exists (N.to_nat b). split; [apply N2Nat.id|]. apply in_seq. lia.
  Qed.

  (* ---- partitioning a list by a key drawn from a duplicate-free list of keys ---- *)
  Lemma partition_perm {A} (key : A -> N -> bool) (keys : list N) (l : list A) :
    NoDup keys -> (forall x, In x l -> exists k, In k keys /\ key x k = true /\ forall k', key x k' = true -> k' = k) ->
    Permutation (flat_map (fun k => filter (fun x => key x k) l) keys) l.
  Proof.
    intros Hnd. induction l as [|x l IH]; intros Hk.
    - clear. induction keys as [|k r IHr]; [constructor|exact IHr].
    - destruct (Hk x (or_introl eq_refl)) as (k & Hin & Hkx & Huniq).
      specialize (IH (fun y Hy => Hk y (or_intror Hy))).
      apply in_split in Hin. destruct Hin as (k1 & k2 & ->).
      assert (Hother : forall ks, ~ In k ks -> flat_map (fun k0 => filter (fun y => key y k0) (x :: l)) ks = flat_map (fun k0 => filter (fun y => key y k0) l) ks).
      { induction ks as [|k0 r IHr]; intros Hn; [reflexivity|]. cbn [flat_map].
        rewrite IHr by (intro Hi; apply Hn; right; exact Hi). f_equal.
        destruct (key x k0) eqn:E; [exfalso; apply Hn; left; apply Huniq; exact E|].
        cbn [filter]. rewrite E. reflexivity. }
      apply NoDup_remove_2 in Hnd.
      rewrite flat_map_app. cbn [flat_map]. rewrite flat_map_app in IH. cbn [flat_map] in IH.
      rewrite (Hother k1), (Hother k2) by (intro Hi; apply Hnd; apply in_or_app; tauto).
      cbn [filter]. rewrite Hkx. cbn [app].
      apply Permutation_sym, Permutation_cons_app, Permutation_sym. exact IH.
  Qed.

  (* ---- the specification trie keeps the invariants and holds exactly the entries ---- *)
  Variable size : N.
  Hypothesis Hsize : size = 2 ^ lg.
  Variable H : bytes -> bytes.
  Hypothesis H_wf : forall k, wf_bytes (H k) = true.
  Hypothesis H_len : forall k, length (H k) = 8%nat.

  Definition prefix_eq (d : N) (es : list entry) : Prop :=
    forall x y d', In x es -> In y es -> d' < d -> slice_at lg (e_hash x) d' = slice_at lg (e_hash y) d'.

  Lemma hok_of e : entry_ok H e -> hok e.
  Proof. intros [_ Eh]. unfold hok. rewrite Eh. split; [apply H_wf|apply H_len]. Qed.

  Lemma in_bucket_unique d e : hok e -> (d + 1) * lg <= 64 ->
    exists b, In b buckets /\ in_bucket d b e = true /\ forall b', in_bucket d b' e = true -> b' = b.
  Proof.
    intros [Hw Hl] Hd. unfold in_bucket, slice_at.
    rewrite (hb_slice_spec (e_hash e) (d * lg) lg Hw ltac:(lia) ltac:(unfold nbits; rewrite Hl; lia)).
    exists (bits_at (e_hash e) (d * lg) lg). split; [|split].
    - apply in_buckets. unfold bits_at. apply N.mod_lt. apply N.pow_nonzero. lia.
    - apply N.eqb_refl.
    - intros b' E. apply N.eqb_eq in E. symmetry. exact E.
  Qed.

  Lemma entries_in_flat {A} (f : A -> list (N * bnode)) (g : A -> list entry) l :
    (forall a, In a l -> Permutation (entries_in (f a)) (g a)) -> Permutation (entries_in (flat_map f l)) (flat_map g l).
  Proof.
    induction l as [|a r IH]; intros Hp; [constructor|]. cbn [flat_map]. unfold entries_in. rewrite flat_map_app.
    apply Permutation_app; [apply Hp; left; reflexivity|apply IH; intros; apply Hp; right; assumption].
  Qed.

  Definition child_ok (d : N) (kc : N * bnode) : Prop :=
    bwf lg (d + 1) (snd kc) /\ bok1 size H kc /\ bmin1 kc.

  Lemma canon_ok fuel : forall d es,
    NoDup es -> Forall (entry_ok H) es -> (forall x y, In x es -> In y es -> x <> y -> sep lg x y) -> prefix_eq d es ->
    (d + 1) * lg <= 64 -> 64 <= (d + N.of_nat fuel) * lg ->
    bwf lg d (BShard (canon fuel d es)) /\ bok size H (BShard (canon fuel d es)) /\ bmin (BShard (canon fuel d es))
    /\ Permutation (entries_in (canon fuel d es)) es.
  Proof.
    induction fuel as [|f IH]; intros d es Hnd Hok Hsep Hpre Hd Hf; [exfalso; cbn in Hf; lia|].
    rewrite canon_S.
    assert (Hf1 : 64 <= (d + 1 + N.of_nat f) * lg) by (rewrite Nat2N.inj_succ in Hf; lia).
    (* per bucket *)
    assert (Hg : forall b, In b buckets ->
              let gn := group_node f d b es in
              (forall kc, In kc gn -> fst kc = b) /\ (length gn <= 1)%nat
              /\ Permutation (entries_in gn) (filter (in_bucket d b) es)
              /\ Forall (child_ok d) gn).
    { intros b Hb gn. subst gn. unfold group_node.
      assert (Hsub : forall x, In x (filter (in_bucket d b) es) -> In x es /\ slice_at lg (e_hash x) d = Ok b).
      { intros x Hx. apply filter_In in Hx. destruct Hx as [Hx Hi]. split; [exact Hx|]. unfold in_bucket in Hi.
        destruct (slice_at lg (e_hash x) d) as [b'| |]; try discriminate. apply N.eqb_eq in Hi. subst b'. reflexivity. }
      pose proof (NoDup_filter (in_bucket d b) Hnd) as Hndg.
      destruct (filter (in_bucket d b) es) as [|e1 [|e2 r]] eqn:Eg.
      - split; [intros kc []|]. split; [cbn; lia|]. split; [constructor|constructor].
      - split; [intros kc [<-|[]]; reflexivity|]. split; [cbn; lia|]. split; [cbn; constructor; constructor|].
        constructor; [|constructor]. split; [exact I|]. split; [|split; exact I].
        destruct (Hsub e1 (or_introl eq_refl)) as [Hin _]. rewrite Forall_forall in Hok.
        split; [cbn [fst]; rewrite Hsize; apply in_buckets; exact Hb|]. split; [discriminate|]. exact (Hok e1 Hin).
      - set (g := e1 :: e2 :: r) in *.
        assert (Hgin : forall x, In x g -> In x es) by (intros x Hx; apply (Hsub x Hx)).
        assert (Hne12 : e1 <> e2).
        { intros ->. inversion Hndg as [|? ? Hn _]; subst. apply Hn. left. reflexivity. }
        (* the group goes one level deeper *)
        assert (Hd2 : (d + 1 + 1) * lg <= 64).
        { destruct (Hsep e1 e2 (Hgin e1 (or_introl eq_refl)) (Hgin e2 (or_intror (or_introl eq_refl))) Hne12) as (d' & Hd' & Hn).
          destruct (N.lt_ge_cases d' d) as [Hlt|Hge];
            [exfalso; apply Hn; apply Hpre; [apply Hgin; left; reflexivity|apply Hgin; right; left; reflexivity|exact Hlt]|].
          destruct (N.eq_dec d' d) as [->|Hne];
            [exfalso; apply Hn; rewrite (proj2 (Hsub e1 (or_introl eq_refl))), (proj2 (Hsub e2 (or_intror (or_introl eq_refl)))); reflexivity|].
          assert (d + 1 <= d') by lia. nia. }
        assert (Hpre2 : prefix_eq (d + 1) g).
        { intros x y d' Hx Hy Hd'. destruct (N.eq_dec d' d) as [->|Hne].
          - rewrite (proj2 (Hsub x Hx)), (proj2 (Hsub y Hy)). reflexivity.
          - apply Hpre; [apply Hgin; exact Hx|apply Hgin; exact Hy|lia]. }
        destruct (IH (d + 1) g Hndg) as (Hw & Hk & Hm & Hp); [| |exact Hpre2|exact Hd2|exact Hf1|].
        + apply Forall_forall. intros x Hx. rewrite Forall_forall in Hok. apply Hok, Hgin, Hx.
        + intros x y Hx Hy. apply Hsep; apply Hgin; assumption.
        + split; [intros kc [<-|[]]; reflexivity|]. split; [cbn; lia|].
          split; [cbn [entries_in flat_map snd entries_of]; rewrite app_nil_r; exact Hp|].
          constructor; [|constructor]. split; [exact Hw|]. split.
          * split; [cbn [fst]; rewrite Hsize; apply in_buckets; exact Hb|]. cbn [snd]. split; [|exact Hk].
            intros E. inversion E as [E']. rewrite E' in Hp. apply Permutation_nil in Hp. discriminate.
          * split; [|exact Hm]. cbn [snd entries_of]. fold (entries_in (canon f (d + 1) g)). rewrite (Permutation_length Hp). cbn. lia. }
    split; [|split; [|split]].
    - apply bwf_shard_intro.
      + (* distinct buckets: at most one child per bucket, in bucket order *)
        revert Hg. generalize buckets_nodup. generalize buckets as ks. intros ks Hbn Hg.
        assert (G : NoDup ks -> NoDup (map fst (flat_map (fun b => group_node f d b es) ks)) /\
                    forall k, In k (map fst (flat_map (fun b => group_node f d b es) ks)) -> In k ks); [|apply G; exact Hbn].
        clear Hbn. induction ks as [|k r IHr]; intros Hn; [split; [constructor|intros k []]|].
        inversion Hn as [|? ? Hk Hr]; subst. cbn [flat_map]. rewrite map_app.
        destruct (IHr (fun b Hb => Hg b (or_intror Hb)) Hr) as [Hnr Hinr].
        destruct (Hg k (or_introl eq_refl)) as (Hfst & Hlen & _ & _).
        destruct (group_node f d k es) as [|kc [|kc2 r2]]; [cbn [map app]; split; [exact Hnr|intros k0 Hk0; right; apply Hinr; exact Hk0]| |cbn in Hlen; lia].
        cbn [map app]. rewrite (Hfst kc (or_introl eq_refl)). split.
        * constructor; [intro Hi; apply Hk; apply Hinr; exact Hi|exact Hnr].
        * intros k0 [<-|Hk0]; [left; reflexivity|right; apply Hinr; exact Hk0].
      + rewrite bwf_all_forall. apply Forall_forall. intros [b c] Hbc. apply in_flat_map in Hbc. destruct Hbc as (b0 & Hb0 & Hbc).
        destruct (Hg b0 Hb0) as (Hfst & _ & Hp & Hch). pose proof (Hfst _ Hbc) as Eb. cbn [fst] in Eb. subst b0.
        rewrite Forall_forall in Hch. destruct (Hch _ Hbc) as (Hw & _ & _). cbn [fst snd]. split; [|exact Hw].
        intros e He.
        assert (Hi : In e (entries_in (group_node f d b es))) by (unfold entries_in; apply in_flat_map; exists (b, c); auto).
        apply (Permutation_in _ Hp) in Hi. apply filter_In in Hi. destruct Hi as [_ Hi]. unfold in_bucket in Hi.
        destruct (slice_at lg (e_hash e) d) as [b'| |]; try discriminate. apply N.eqb_eq in Hi. subst b'. reflexivity.
    - rewrite bok_shard. apply Forall_forall. intros kc Hkc. apply in_flat_map in Hkc. destruct Hkc as (b0 & Hb0 & Hkc).
      destruct (Hg b0 Hb0) as (_ & _ & _ & Hch). rewrite Forall_forall in Hch. exact (proj1 (proj2 (Hch _ Hkc))).
    - rewrite bmin_shard. apply Forall_forall. intros kc Hkc. apply in_flat_map in Hkc. destruct Hkc as (b0 & Hb0 & Hkc).
      destruct (Hg b0 Hb0) as (_ & _ & _ & Hch). rewrite Forall_forall in Hch. exact (proj2 (proj2 (Hch _ Hkc))).
    - transitivity (flat_map (fun b => filter (in_bucket d b) es) buckets).
      + apply entries_in_flat. intros b Hb. exact (proj1 (proj2 (proj2 (Hg b Hb)))).
      + apply (partition_perm (fun e b => in_bucket d b e) buckets es buckets_nodup).
        intros x Hx. rewrite Forall_forall in Hok. apply (in_bucket_unique d x (hok_of x (Hok x Hx)) Hd).
  Qed.
End Spec.

(* BuildUnixFSShardedDirectory writes the specification trie *)
Theorem build_sharded_is_canon size lg (Hperm : permitted size lg) (H : bytes -> bytes)
  (H_wf : forall k, wf_bytes (H k) = true) (H_len : forall k, length (H k) = 8%nat) entries r :
  Forall (entry_ok H) entries -> NoDup (map e_name entries) ->
  build_sharded size HashMurmur3 entries = Ok r ->
  r = serialize_node size HashMurmur3 (pad_len size) (BShard (canon lg 70 0 entries)).
Proof.
  intros He Hnd Hb.
  assert (Hlg : 1 <= lg <= 64) by (destruct Hperm as [_ Hl]; lia).
  assert (Hsize : size = 2 ^ lg) by (destruct Hperm as [Hs _]; exact Hs).
  assert (Hnde : NoDup entries) by (apply (NoDup_map_inv e_name); exact Hnd).
  unfold build_sharded in Hb. rewrite (log2_exact_permitted size lg Hperm) in Hb.
  destruct (add_all lg entries) as [cs| |] eqn:Ea; try discriminate. cbn [bind] in Hb.
  destruct (negb (size mod 8 =? 0)); [discriminate|].
  destruct (add_all_spec lg entries cs Ea) as [Hw Hp].
  pose proof (add_all_bmin lg entries cs Ea) as Hm.
  assert (Hk : bok size H (BShard cs)).
  { apply (add_all_bok size lg Hperm H H_wf H_len entries cs); [|exact Ea]. eapply Forall_impl; [|exact He]. intros e Hx; exact Hx. }
  pose proof (built_separated size lg Hperm H H_wf H_len entries cs He Ea) as Hsep.
  destruct (canon_ok lg Hlg size Hsize H H_wf H_len 70 0 entries Hnde He Hsep) as (Hw' & Hk' & Hm' & Hp').
  - intros x y d' _ _ Hd'. lia.
  - lia.
  - change (N.of_nat 70) with 70. lia.
  - assert (E : serialize_node size HashMurmur3 (pad_len size) (BShard cs) = serialize_node size HashMurmur3 (pad_len size) (BShard (canon lg 70 0 entries))).
    { apply (ser_unique size lg Hperm H (BShard cs) (BShard (canon lg 70 0 entries)) cs (canon lg 70 0 entries) 0 eq_refl eq_refl Hw Hw' Hk Hk' Hm Hm').
      - eapply Permutation_NoDup; [apply Permutation_sym; exact Hp|exact Hnde].
      - change (Permutation (entries_in cs) (entries_in (canon lg 70 0 entries))). rewrite Hp, Hp'. reflexivity. }
    rewrite <- E. congruence.
Qed.

(* the specification on the demo directory, computed *)
Example canon_demo :
  build_sharded 8 HashMurmur3 demo_entries = Ok (serialize_node 8 HashMurmur3 (pad_len 8) (BShard (canon 3 70 0 demo_entries))).
Proof. vm_compute. reflexivity. Qed.
