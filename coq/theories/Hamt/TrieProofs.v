(* The builder's in-memory trie: shard.add keeps it well-formed and adds exactly the new entry;
   on a well-formed trie the bucket-path lookup is the map of the entries. *)
From UV Require Import Hamt.Build Hamt.HashBitsProofs.
From Coq Require Import Permutation ZifyN ZifyNat ZifyBool.
Local Open Scope N_scope.

Section BnodeInd.
  Variable P : bnode -> Prop.
  Hypothesis HVal : forall e, P (BVal e).
  Hypothesis HShard : forall cs, Forall (fun kc => P (snd kc)) cs -> P (BShard cs).
  Fixpoint bnode_ind' (n : bnode) : P n :=
    match n with
    | BVal e => HVal e
    | BShard cs =>
      HShard cs ((fix go (cs : list (N * bnode)) : Forall (fun kc => P (snd kc)) cs :=
                    match cs with
                    | [] => Forall_nil _
                    | (k, c) :: r => Forall_cons (k, c) (bnode_ind' c) (go r)
                    end) cs)
    end.
End BnodeInd.

Fixpoint entries_of (n : bnode) : list entry :=
  match n with
  | BVal e => [e]
  | BShard cs => flat_map (fun kc => entries_of (snd kc)) cs
  end.
Definition entries_in (cs : list (N * bnode)) : list entry := flat_map (fun kc => entries_of (snd kc)) cs.

Lemma NoDup_app_l {A} (l1 l2 : list A) : NoDup (l1 ++ l2) -> NoDup l1.
Proof.
  induction l1 as [|x r IH]; intros H; [constructor|]. inversion H as [|? ? Hn Hr]; subst.
  constructor; [intro Hi; apply Hn; apply in_or_app; left; exact Hi|apply IH; exact Hr].
Qed.
Lemma NoDup_app_r {A} (l1 l2 : list A) : NoDup (l1 ++ l2) -> NoDup l2.
Proof. induction l1 as [|x r IH]; intros H; [exact H|]. inversion H; subst. apply IH; assumption. Qed.

Lemma NoDup_app_single {A} (l : list A) x : NoDup l -> ~ In x l -> NoDup (l ++ [x]).
Proof.
  intros Hnd Hx. induction Hnd as [|y l Hy Hnd IH]; cbn; [constructor; [tauto|constructor]|].
  constructor.
  - intro Hin. apply in_app_or in Hin. destruct Hin as [Hin|[E|[]]]; [exact (Hy Hin)|]. subst. apply Hx. left. reflexivity.
  - apply IH. intro H. apply Hx. right. exact H.
Qed.

Lemma entries_in_mid l1 k c l2 : entries_in (l1 ++ (k, c) :: l2) = entries_in l1 ++ entries_of c ++ entries_in l2.
Proof. unfold entries_in. rewrite flat_map_app. reflexivity. Qed.

Section Trie.
  Variable lg : N.
  Definition slice_at (h : bytes) (d : N) : res N := hb_slice h (d * lg) lg.

  (* children at depth d: distinct buckets; everything under bucket b has b as its d-th slice; sub-shards likewise one level down *)
  Fixpoint bwf (d : N) (n : bnode) : Prop :=
    match n with
    | BVal _ => True
    | BShard cs =>
      NoDup (map fst cs) /\
      (fix all (cs : list (N * bnode)) : Prop :=
         match cs with
         | [] => True
         | (b, c) :: r => (forall e, In e (entries_of c) -> slice_at (e_hash e) d = Ok b) /\ bwf (d + 1) c /\ all r
         end) cs
    end.

  Definition bwf_all (d : N) :=
    fix all (cs : list (N * bnode)) : Prop :=
      match cs with
      | [] => True
      | (b, c) :: r => (forall e, In e (entries_of c) -> slice_at (e_hash e) d = Ok b) /\ bwf (d + 1) c /\ all r
      end.

  Lemma bwf_shard d cs : bwf d (BShard cs) <-> NoDup (map fst cs) /\ bwf_all d cs.
  Proof. reflexivity. Qed.

  Lemma bwf_shard_intro d cs : NoDup (map fst cs) -> bwf_all d cs -> bwf d (BShard cs).
  Proof. intros H1 H2. apply bwf_shard. split; assumption. Qed.

  Lemma bwf_all_forall d cs :
    bwf_all d cs <-> Forall (fun kc => (forall e, In e (entries_of (snd kc)) -> slice_at (e_hash e) d = Ok (fst kc)) /\ bwf (d + 1) (snd kc)) cs.
  Proof.
    induction cs as [|[b c] r IH]; cbn [bwf_all]; [split; constructor|].
    rewrite IH. split.
    - intros (H1 & H2 & H3). constructor; [split; assumption|exact H3].
    - intros H. inversion H as [|? ? [H1 H2] H3]; subst. auto.
  Qed.

  (* ---- association lists ---- *)
  Lemma assoc_get_none {A} k (l : list (N * A)) : assoc_get k l = None <-> ~ In k (map fst l).
  Proof.
    induction l as [|[k' v] r IH]; cbn; [tauto|].
    destruct (N.eqb_spec k k') as [->|Hne]; [split; [discriminate|intros H; exfalso; apply H; left; reflexivity]|].
    rewrite IH. split; [intros H [E|Hin]; [congruence|auto]|intros H Hin; apply H; right; exact Hin].
  Qed.

  Lemma assoc_get_in {A} k (v : A) l : NoDup (map fst l) -> (assoc_get k l = Some v <-> In (k, v) l).
  Proof.
    induction l as [|[k' v'] r IH]; cbn; intros Hnd; [split; [discriminate|tauto]|].
    inversion Hnd as [|? ? Hn Hr]; subst.
    destruct (N.eqb_spec k k') as [->|Hne].
    - split; [intros [= ->]; left; reflexivity|].
      intros [E|Hin]; [inversion E; reflexivity|]. exfalso. apply Hn. apply in_map_iff. exists (k', v). auto.
    - rewrite (IH Hr). split; [intros H; right; exact H|intros [E|H]; [inversion E; congruence|exact H]].
  Qed.

  Lemma assoc_set_absent {A} k (v : A) l : ~ In k (map fst l) -> assoc_set k v l = l ++ [(k, v)].
  Proof.
    induction l as [|[k' v'] r IH]; cbn; intros H; [reflexivity|].
    destruct (N.eqb_spec k k') as [->|Hne]; [exfalso; apply H; left; reflexivity|].
    rewrite IH; [reflexivity|]. intro Hin. apply H. right. exact Hin.
  Qed.

  Lemma assoc_set_present {A} k (v v0 : A) l : NoDup (map fst l) -> In (k, v0) l ->
    exists l1 l2, l = l1 ++ (k, v0) :: l2 /\ assoc_set k v l = l1 ++ (k, v) :: l2.
  Proof.
    induction l as [|[k' v'] r IH]; cbn; intros Hnd Hin; [destruct Hin|].
    inversion Hnd as [|? ? Hn Hr]; subst.
    destruct (N.eqb_spec k k') as [->|Hne].
    - destruct Hin as [E|Hin]; [inversion E; subst; exists [], r; auto|].
      exfalso. apply Hn. apply in_map_iff. exists (k', v0). auto.
    - destruct Hin as [E|Hin]; [inversion E; congruence|].
      destruct (IH Hr Hin) as (l1 & l2 & -> & ->). exists ((k', v') :: l1), l2. auto.
  Qed.

  (* ---- shard.add ---- *)
  Lemma add_spec fuel : forall d cs e cs',
    bwf d (BShard cs) -> add lg fuel d cs e = Ok cs' ->
    bwf d (BShard cs') /\ Permutation (entries_in cs') (e :: entries_in cs).
  Proof.
    induction fuel as [|f IH]; intros d cs e cs' Hw Ha; [discriminate|].
    cbn [add] in Ha. fold (slice_at (e_hash e) d) in Ha.
    destruct (slice_at (e_hash e) d) as [b| |] eqn:Eb; try discriminate. cbn [bind] in Ha.
    destruct (proj1 (bwf_shard d cs) Hw) as [Hnd Hall].
    destruct (assoc_get b cs) as [[cur|sub]|] eqn:Eg.
    - (* a value sits in the bucket: push both one level down *)
      destruct (add lg f (d + 1) [] cur) as [s1| |] eqn:E1; try discriminate. cbn [bind] in Ha.
      destruct (add lg f (d + 1) s1 e) as [s2| |] eqn:E2; try discriminate. cbn [bind] in Ha. inversion Ha; subst cs'.
      destruct (IH (d + 1) [] cur s1 ltac:(apply bwf_shard_intro; [constructor|exact I]) E1) as [Hw1 Hp1].
      destruct (IH (d + 1) s1 e s2 Hw1 E2) as [Hw2 Hp2].
      apply (assoc_get_in b (BVal cur) cs Hnd) in Eg.
      destruct (assoc_set_present b (BShard s2) (BVal cur) cs Hnd Eg) as (l1 & l2 & Hcs & Hset). rewrite Hset.
      subst cs. rewrite bwf_all_forall in Hall. apply Forall_app in Hall. destruct Hall as [Hl1 Hl2].
      inversion Hl2 as [|? ? [Hcur _] Hl2']; subst. cbn [fst snd entries_of] in Hcur.
      split.
      + apply bwf_shard_intro.
        * rewrite map_app in *. cbn [map fst] in *. exact Hnd.
        * rewrite bwf_all_forall. apply Forall_app. split; [exact Hl1|]. constructor; [|exact Hl2'].
          cbn [fst snd]. split; [|exact Hw2].
          intros x Hx. cbn [entries_of] in Hx. fold (entries_in s2) in Hx.
          apply (Permutation_in _ Hp2) in Hx. destruct Hx as [<-|Hx]; [exact Eb|].
          apply (Permutation_in _ Hp1) in Hx. destruct Hx as [<-|[]]. apply Hcur. left. reflexivity.
      + rewrite !entries_in_mid. cbn [entries_of]. fold (entries_in s2).
        rewrite Hp2, Hp1. cbn [entries_in flat_map app].
        apply Permutation_sym, Permutation_middle.
    - (* an existing sub-shard: add there *)
      destruct (add lg f (d + 1) sub e) as [sub'| |] eqn:E1; try discriminate. cbn [bind] in Ha. inversion Ha; subst cs'.
      apply (assoc_get_in b (BShard sub) cs Hnd) in Eg.
      destruct (assoc_set_present b (BShard sub') (BShard sub) cs Hnd Eg) as (l1 & l2 & Hcs & Hset). rewrite Hset.
      subst cs. rewrite bwf_all_forall in Hall. apply Forall_app in Hall. destruct Hall as [Hl1 Hl2].
      inversion Hl2 as [|? ? [Hsub Hwsub] Hl2']; subst. cbn [fst snd] in Hsub, Hwsub.
      destruct (IH (d + 1) sub e sub' Hwsub E1) as [Hw1 Hp1].
      split.
      + apply bwf_shard_intro.
        * rewrite map_app in *. cbn [map fst] in *. exact Hnd.
        * rewrite bwf_all_forall. apply Forall_app. split; [exact Hl1|]. constructor; [|exact Hl2'].
          cbn [fst snd]. split; [|exact Hw1].
          intros x Hx. cbn [entries_of] in Hx. fold (entries_in sub') in Hx.
          apply (Permutation_in _ Hp1) in Hx. destruct Hx as [<-|Hx]; [exact Eb|]. apply Hsub. exact Hx.
      + rewrite !entries_in_mid. cbn [entries_of]. fold (entries_in sub') (entries_in sub).
        rewrite Hp1. cbn [app]. apply Permutation_sym, Permutation_middle.
    - (* empty bucket *)
      inversion Ha; subst cs'. apply assoc_get_none in Eg. rewrite (assoc_set_absent b (BVal e) cs Eg).
      split.
      + apply bwf_shard_intro.
        * rewrite map_app. cbn [map fst]. apply NoDup_app_single; assumption.
        * rewrite bwf_all_forall in *. apply Forall_app. split; [exact Hall|]. constructor; [|constructor].
          cbn [fst snd entries_of]. split; [|exact I]. intros x [<-|[]]. exact Eb.
      + unfold entries_in. rewrite flat_map_app. cbn [flat_map snd entries_of app]. apply Permutation_sym, Permutation_cons_append.
  Qed.

  (* ---- BuildUnixFSShardedDirectory's loop (generic in the step function so that the kernel never unfolds `add`) ---- *)
  Section Fold.
    Variable addf : list (N * bnode) -> entry -> res (list (N * bnode)).
    Hypothesis addf_spec : forall cs e cs', bwf 0 (BShard cs) -> addf cs e = Ok cs' ->
      bwf 0 (BShard cs') /\ Permutation (entries_in cs') (e :: entries_in cs).
    Definition gstep (acc : res (list (N * bnode))) (e : entry) : res (list (N * bnode)) := c <- acc ;; addf c e.

    Lemma fold_g_err es : forall x, (forall c, x <> Ok c) -> forall c, fold_left gstep es x <> Ok c.
    Proof.
      induction es as [|e r IH]; intros x Hx c; [apply Hx|]. cbn [fold_left]. apply IH.
      intros c'. destruct x as [a| |]; [exfalso; apply (Hx a); reflexivity| |]; unfold gstep; cbn [bind]; discriminate.
    Qed.

    Lemma fold_g_spec es : forall acc cs,
      bwf 0 (BShard acc) -> fold_left gstep es (Ok acc) = Ok cs ->
      bwf 0 (BShard cs) /\ Permutation (entries_in cs) (rev es ++ entries_in acc).
    Proof.
      induction es as [|e r IH]; intros acc cs Hw Hf; [inversion Hf; subst; split; [exact Hw|reflexivity]|].
      cbn [fold_left] in Hf. change (gstep (Ok acc) e) with (addf acc e) in Hf.
      destruct (addf acc e) as [acc'| |] eqn:Ea.
      - destruct (addf_spec acc e acc' Hw Ea) as [Hw' Hp].
        destruct (IH acc' cs Hw' Hf) as [Hw'' Hp']. split; [exact Hw''|].
        rewrite Hp', Hp. cbn [rev]. rewrite <- app_assoc. cbn [app]. apply Permutation_app_head, Permutation_refl.
      - exfalso. apply (fold_g_err r (Err e0) ltac:(discriminate) cs Hf).
      - exfalso. apply (fold_g_err r Panic ltac:(discriminate) cs Hf).
    Qed.

    (* any invariant the step preserves (for entries satisfying P) holds of the result *)
    Lemma fold_g_inv (P : entry -> Prop) (I : list (N * bnode) -> Prop) :
      (forall cs e cs', P e -> I cs -> addf cs e = Ok cs' -> I cs') ->
      forall es acc cs, Forall P es -> I acc -> fold_left gstep es (Ok acc) = Ok cs -> I cs.
    Proof.
      intros Hstep. induction es as [|e r IH]; intros acc cs Hes Hacc Hf; [inversion Hf; subst; exact Hacc|].
      inversion Hes as [|? ? He1 Her]; subst. cbn [fold_left] in Hf. change (gstep (Ok acc) e) with (addf acc e) in Hf.
      destruct (addf acc e) as [acc'| |] eqn:Ea.
      - apply (IH acc' cs Her); [|exact Hf]. apply (Hstep acc e acc' He1 Hacc Ea).
      - exfalso. apply (fold_g_err r (Err e0) ltac:(discriminate) cs Hf).
      - exfalso. apply (fold_g_err r Panic ltac:(discriminate) cs Hf).
    Qed.
  End Fold.

  Theorem add_all_spec entries cs : add_all lg entries = Ok cs ->
    bwf 0 (BShard cs) /\ Permutation (entries_in cs) entries.
  Proof.
    intros H.
    destruct (fold_g_spec (add lg 70 0) (add_spec 70 0) entries [] cs ltac:(apply bwf_shard_intro; [constructor|exact I]) H) as [Hw Hp].
    split; [exact Hw|]. rewrite Hp. cbn [entries_in flat_map]. rewrite app_nil_r. apply Permutation_sym, Permutation_rev.
  Qed.

  (* ---- the map a well-formed trie denotes: follow the bucket path of the key's hash ---- *)
  Fixpoint blookup (n : bnode) (d : N) (h key : bytes) : option blk :=
    match n with
    | BVal e => if bytes_eqb (e_name e) key then Some (e_target e) else None
    | BShard cs =>
      match slice_at h d with
      | Ok b =>
        (fix find (cs : list (N * bnode)) : option blk :=
           match cs with
           | [] => None
           | (k, c) :: r => if b =? k then blookup c (d + 1) h key else find r
           end) cs
      | _ => None
      end
    end.

  Definition bfind (b d : N) (h key : bytes) :=
    fix find (cs : list (N * bnode)) : option blk :=
      match cs with
      | [] => None
      | (k, c) :: r => if b =? k then blookup c (d + 1) h key else find r
      end.

  Lemma blookup_shard cs d h key :
    blookup (BShard cs) d h key = match slice_at h d with Ok b => bfind b d h key cs | _ => None end.
  Proof. reflexivity. Qed.

  Lemma bfind_in b d h key cs c : NoDup (map fst cs) -> In (b, c) cs -> bfind b d h key cs = blookup c (d + 1) h key.
  Proof.
    induction cs as [|[k c'] r IH]; intros Hnd Hin; [destruct Hin|].
    inversion Hnd as [|? ? Hn Hr]; subst. cbn [bfind].
    destruct Hin as [E|Hin].
    - inversion E; subst. rewrite N.eqb_refl. reflexivity.
    - destruct (N.eqb_spec b k) as [->|_]; [exfalso; apply Hn; apply in_map_iff; exists (k, c); auto|].
      apply IH; assumption.
  Qed.

  Lemma NoDup_flat_map_part {A B} (f : A -> list B) l x : NoDup (flat_map f l) -> In x l -> NoDup (f x).
  Proof.
    induction l as [|y r IH]; intros Hnd Hin; [destruct Hin|]. cbn in Hnd.
    destruct Hin as [->|Hin]; [apply NoDup_app_l in Hnd; exact Hnd|].
    apply IH; [apply NoDup_app_r in Hnd; exact Hnd|exact Hin].
  Qed.

  (* member names resolve to their entry's link *)
  Theorem blookup_member n : forall d e,
    bwf d n -> NoDup (map e_name (entries_of n)) -> In e (entries_of n) ->
    blookup n d (e_hash e) (e_name e) = Some (e_target e).
  Proof.
    induction n as [e'|cs IH] using bnode_ind'; intros d e Hw Hnd Hin.
    - destruct Hin as [<-|[]]. cbn. rewrite bytes_eqb_refl. reflexivity.
    - destruct (proj1 (bwf_shard d cs) Hw) as [Hk Hall]. rewrite bwf_all_forall in Hall.
      cbn [entries_of] in Hin. apply in_flat_map in Hin. destruct Hin as ([b c] & Hbc & He). cbn [snd] in He.
      rewrite Forall_forall in Hall, IH. destruct (Hall (b, c) Hbc) as [Hs Hwc]. cbn [fst snd] in Hs, Hwc.
      rewrite blookup_shard, (Hs e He), (bfind_in b d _ _ cs c Hk Hbc).
      apply (IH (b, c) Hbc); [exact Hwc| |exact He].
      cbn [entries_of] in Hnd. rewrite flat_map_concat_map, concat_map, map_map in Hnd.
      rewrite <- flat_map_concat_map in Hnd.
      apply (NoDup_flat_map_part (fun kc => map e_name (entries_of (snd kc))) cs (b, c) Hnd Hbc).
  Qed.

  (* any other name is not found, whatever its hash *)
  Theorem blookup_absent n : forall d h key,
    ~ In key (map e_name (entries_of n)) -> blookup n d h key = None.
  Proof.
    induction n as [e'|cs IH] using bnode_ind'; intros d h key Hn.
    - cbn in *. destruct (bytes_eqb_spec (e_name e') key) as [E|_]; [exfalso; apply Hn; left; exact E|reflexivity].
    - rewrite blookup_shard. destruct (slice_at h d) as [b| |]; try reflexivity.
      induction IH as [|[k c] r Hc _ IHr]; [reflexivity|]. cbn [bfind].
      cbn [entries_of flat_map snd] in Hn. rewrite map_app in Hn.
      destruct (b =? k).
      + apply Hc. intro H. apply Hn. apply in_or_app. left. exact H.
      + apply IHr. intro H. apply Hn. apply in_or_app. right. exact H.
  Qed.
End Trie.
