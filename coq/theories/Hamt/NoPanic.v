(* C13 (sharded directories): no operation of the reader panics, whatever the blocks contain *)
From UV Require Import Hamt.Read Codec.NoPanic Reify.Proofs.
From Coq Require Import ZifyN ZifyNat ZifyBool.
Local Open Scope N_scope.

(* the index guard of Next covers every byte access of next *)
Lemma next_bits_no_panic fuel : forall hb consumed i,
  1 <= i -> consumed + i <= N.of_nat (length hb) * 8 -> next_bits fuel hb consumed i <> Panic.
Proof.
  induction fuel as [|f IH]; intros hb consumed i Hi Hle; cbn [next_bits]; [discriminate|].
  assert (Hq : consumed / 8 < N.of_nat (length hb)) by (apply N.div_lt_upper_bound; lia).
  unfold nth_byte. destruct (nth_error hb (N.to_nat (consumed / 8))) as [curb|] eqn:En.
  2:{ apply nth_error_None in En. lia. }
  destruct (N.leb_spec i (8 - consumed mod 8)); [discriminate|].
  assert (Hm : consumed mod 8 < 8) by (apply N.mod_lt; lia).
  specialize (IH hb (consumed + (8 - consumed mod 8)) (i - (8 - consumed mod 8)) ltac:(lia) ltac:(lia)).
  destruct (next_bits f hb (consumed + (8 - consumed mod 8)) (i - (8 - consumed mod 8))); cbn; congruence.
Qed.

Lemma hb_next_no_panic hb consumed i : 1 <= i -> hb_next hb consumed i <> Panic.
Proof.
  intros Hi. unfold hb_next. destruct (N.ltb_spec (N.of_nat (length hb) * 8) (consumed + i)); [discriminate|].
  apply next_bits_no_panic; lia.
Qed.

(* a validated shard has a fanout of at least 8, hence at least 3 bits per level *)
Lemma mk_shard_lg b sh : mk_shard_of b = Ok sh -> 1 <= sh_lg sh.
Proof.
  destruct b as [c|[d|] ls|i n]; cbn [mk_shard_of]; try discriminate.
  destruct (decode_data d) as [m| |]; try discriminate.
  destruct (negb (d_type m =? Data_HAMTShard)); try discriminate.
  destruct (d_hashtype m) as [h|]; try discriminate.
  destruct (negb (h =? HashMurmur3)); try discriminate.
  destruct (d_data m) as [bits|]; try discriminate.
  destruct (d_fanout m) as [fanout|]; try discriminate.
  destruct ((9223372036854775808 <=? fanout) || negb (is_pow2 fanout)) eqn:E1; try discriminate.
  destruct (maximumHamtWidth <? fanout); try discriminate.
  destruct (negb (fanout mod 8 =? 0)) eqn:E3; try discriminate.
  destruct (fanout / 8 <? blen bits); try discriminate.
  intros [= <-]. cbn [sh_lg].
  apply orb_false_elim in E1. destruct E1 as [_ E1]. apply negb_false_iff in E1. apply negb_false_iff in E3.
  apply N.eqb_eq in E3. unfold is_pow2 in E1. destruct (fanout =? 0) eqn:E0; [discriminate|]. apply N.eqb_neq in E0.
  destruct (N.eq_dec (N.log2 fanout) 0) as [Hl|Hl]; [|lia].
  apply N.eqb_eq in E1. rewrite Hl in E1. change (2 ^ 0) with 1 in E1. subst fanout. discriminate E3.
Qed.

Lemma is_value_link_no_panic pad l : is_value_link pad l <> Panic.
Proof. unfold is_value_link. destruct (l_name l); [destruct (length b <? pad)%nat|]; discriminate. Qed.

Lemma value_link_suffix pad l : is_value_link pad l = Ok true -> name_suffix pad l <> Panic.
Proof.
  unfold is_value_link, name_suffix. destruct (l_name l) as [n|]; [|discriminate].
  destruct (length n <? pad)%nat; discriminate.
Qed.

Lemma mk_shard_pad b sh : mk_shard_of b = Ok sh -> sh_pad sh = pad_len (sh_fanout sh).
Proof.
  destruct b as [c|[d|] ls|i n]; cbn [mk_shard_of]; try discriminate.
  destruct (decode_data d) as [m| |]; try discriminate.
  repeat match goal with
  | |- context [if ?c then _ else _] => destruct c; try discriminate
  | |- context [match ?c with _ => _ end] => destruct c; try discriminate
  end. intros [= <-]. reflexivity.
Qed.

(* ---- lookup ---- *)
Definition find_link (rec : blk -> res blk * list blk) (t : blk) :=
  fix find (ls : list plink) (k : nat) : res blk * list blk :=
    match ls, k with
    | PLink _ _ t' :: _, O => let '(r, tr) := rec t' in (r, t :: tr)
    | _ :: r, S k' => find r k'
    | [], _ => (Err EInvalid, [])
    end.

Lemma find_link_no_panic rec t ls : Forall (fun l => fst (rec (l_target l)) <> Panic) ls ->
  forall k, fst (find_link rec t ls k) <> Panic.
Proof.
  induction 1 as [|[n s t'] r Ht _ IH]; intros k; [destruct k; cbn; discriminate|].
  destruct k; cbn [find_link]; [|apply IH].
  cbn [l_target] in Ht. destruct (rec t') as [r0 tr]. exact Ht.
Qed.

Theorem lookup_no_panic fault b : forall pf hb key consumed, fst (lookup_blk fault b pf hb key consumed) <> Panic.
Proof.
  induction b as [c|i n|d ls IH] using blk_ind'; intros pf hb key consumed.
  - cbn. discriminate.
  - cbn. discriminate.
  - cbn [lookup_blk]. pose proof (mk_shard_of_no_panic (Pb d ls)) as Hn.
    destruct (mk_shard_of (Pb d ls)) as [sh| |] eqn:Es; [|cbn; discriminate|congruence].
    destruct (match pf with Some pf0 => negb (sh_fanout sh =? pf0) | None => false end); [cbn; discriminate|].
    pose proof (hb_next_no_panic hb consumed (sh_lg sh) (mk_shard_lg _ _ Es)) as Hh.
    destruct (hb_next hb consumed (sh_lg sh)) as [[idx consumed']| |]; [|cbn; discriminate|congruence].
    destruct (negb (bf_bit (sh_bits sh) idx)); [cbn; discriminate|].
    destruct (nth_error (sh_links sh) (N.to_nat (bf_ones_before (sh_bits sh) idx))) as [l|]; [|cbn; discriminate].
    pose proof (is_value_link_no_panic (sh_pad sh) l) as Hv.
    destruct (is_value_link (sh_pad sh) l) as [[|]| |] eqn:Ev; [| |cbn; discriminate|congruence].
    + pose proof (value_link_suffix _ _ Ev) as Hs.
      destruct (name_suffix (sh_pad sh) l); [destruct (bytes_eqb a key); cbn; discriminate|cbn; discriminate|congruence].
    + destruct (fault (l_target l)); [cbn; discriminate|].
      apply (find_link_no_panic (fun t' => lookup_blk fault t' (Some (sh_fanout sh)) hb key consumed') (l_target l) ls).
      eapply Forall_impl; [|exact IH]. intros l0 H0. apply H0.
Qed.

(* ---- iteration: no Next call panics (the prefix stripped is the root's, every reachable shard shares its fanout) ---- *)
Definition iter_links (fault : blk -> option err) (rec : blk -> list (list blk * ievent)) (sh : shard) (root_pad : nat) :=
  fix go (ls : list plink) : list (list blk * ievent) :=
    match ls with
    | [] => []
    | l :: r =>
      match is_value_link (sh_pad sh) l with
      | Err e => ([], IErr e) :: go r
      | Panic => ([], IErr EOther) :: go r
      | Ok true => ([], match name_suffix root_pad l with Ok k => IYield k (l_target l) | Err e => IErr e | Panic => IPanic end) :: go r
      | Ok false =>
        match l with
        | PLink _ _ t =>
          match fault t with
          | Some e => ([t], IErr e) :: go r
          | None =>
            match rec t with
            | [] => ([t], IErr EOverread) :: go r
            | (tr, ev) :: sub' => (t :: tr, ev) :: sub' ++ go r
            end
          end
        end
      end
    end.

Lemma iter_blk_pb fault d ls pf root_pad :
  iter_blk fault (Pb d ls) pf root_pad =
  match mk_shard_of (Pb d ls) with
  | Err e => [([], IErr e)]
  | Panic => [([], IErr EOther)]
  | Ok sh =>
    if match pf with Some pf0 => negb (sh_fanout sh =? pf0) | None => false end then [([], IErr EInvalid)]
    else iter_links fault (fun t => iter_blk fault t (Some (sh_fanout sh)) root_pad) sh root_pad ls
  end.
Proof. reflexivity. Qed.

Definition no_ipanic (evs : list (list blk * ievent)) : Prop := Forall (fun p => snd p <> IPanic) evs.

Lemma iter_links_no_panic fault rec sh ls :
  Forall (fun l => no_ipanic (rec (l_target l))) ls -> no_ipanic (iter_links fault rec sh (sh_pad sh) ls).
Proof.
  induction 1 as [|[n s t] r Ht _ IH]; [constructor|].
  cbn [iter_links]. destruct (is_value_link (sh_pad sh) (PLink n s t)) as [[|]| |] eqn:Ev.
  - constructor; [|exact IH]. cbn. pose proof (value_link_suffix _ _ Ev) as Hs.
    destruct (name_suffix (sh_pad sh) (PLink n s t)); try discriminate. congruence.
  - destruct (fault t); [constructor; [cbn; discriminate|exact IH]|].
    cbn [l_target] in Ht. destruct (rec t) as [|[tr ev] sub'] eqn:Er; [constructor; [cbn; discriminate|exact IH]|].
    inversion Ht as [|? ? H1 H2]; subst. constructor; [exact H1|]. apply Forall_app. split; assumption.
  - constructor; [cbn; discriminate|exact IH].
  - constructor; [cbn; discriminate|exact IH].
Qed.

Lemma iter_blk_no_panic fault b : forall pf root_pad,
  (forall sh, mk_shard_of b = Ok sh -> match pf with Some pf0 => pad_len pf0 = root_pad | None => sh_pad sh = root_pad end) ->
  no_ipanic (iter_blk fault b pf root_pad).
Proof.
  induction b as [c|i n|d ls IH] using blk_ind'; intros pf root_pad Hpad.
  - cbn. repeat constructor. discriminate.
  - cbn. repeat constructor. discriminate.
  - rewrite iter_blk_pb. destruct (mk_shard_of (Pb d ls)) as [sh| |] eqn:Es; try (repeat constructor; discriminate).
    destruct (match pf with Some pf0 => negb (sh_fanout sh =? pf0) | None => false end) eqn:Ef; [repeat constructor; discriminate|].
    assert (Hrp : sh_pad sh = root_pad).
    { specialize (Hpad sh eq_refl). destruct pf as [pf0|]; [|exact Hpad].
      apply negb_false_iff, N.eqb_eq in Ef. rewrite (mk_shard_pad _ _ Es), Ef. exact Hpad. }
    rewrite <- Hrp. apply iter_links_no_panic.
    eapply Forall_impl; [|exact IH]. intros l Hl. apply Hl.
    intros sh' _. rewrite <- (mk_shard_pad _ _ Es). reflexivity.
Qed.

Theorem iterate_no_panic fault root : no_ipanic (iterate fault root).
Proof.
  unfold iterate. destruct (mk_shard_of root) as [sh| |] eqn:Es; try constructor.
  apply iter_blk_no_panic. intros sh' Hs'. rewrite Es in Hs'. inversion Hs'. reflexivity.
Qed.
