From UV Require Import Hamt.HashBits.
From Coq Require Import ZifyN ZifyNat ZifyBool.
Local Open Scope N_scope.

(* the reader's Next and the builder's Slice compute the same bits, for every hash, offset and width *)
Lemma next_slice_agree fuel : forall hb off w,
  slice_bits fuel hb off w = match next_bits fuel hb off w with Ok (v, _) => Ok v | Err e => Err e | Panic => Panic end
  /\ (forall v c, next_bits fuel hb off w = Ok (v, c) -> c = off + w).
Proof.
  induction fuel as [|f IH]; intros hb off w; [split; [reflexivity|discriminate]|].
  cbn [slice_bits next_bits].
  destruct (nth_byte hb (off / 8)) as [curb|]; [|split; [reflexivity|discriminate]].
  destruct (N.leb_spec w (8 - off mod 8)) as [Hle|Hgt].
  - split; [reflexivity|]. intros v c [= <- <-]. reflexivity.
  - destruct (IH hb (off + (8 - off mod 8)) (w - (8 - off mod 8))) as [Hs Hc]. rewrite Hs.
    destruct (next_bits f hb (off + (8 - off mod 8)) (w - (8 - off mod 8))) as [[v c]| |] eqn:E; cbn [bind fst snd].
    + split; [reflexivity|]. intros v' c' [= <- <-]. specialize (Hc v c eq_refl). lia.
    + split; [reflexivity|discriminate].
    + split; [reflexivity|discriminate].
Qed.

Theorem next_slice_same_bucket hb off w :
  hb_slice hb off w = match hb_next hb off w with Ok (v, _) => Ok v | Err e => Err e | Panic => Panic end.
Proof.
  unfold hb_slice, hb_next. destruct (N.of_nat (length hb) * 8 <? off + w); [reflexivity|].
  apply next_slice_agree.
Qed.

Theorem next_advances hb off w v c : hb_next hb off w = Ok (v, c) -> c = off + w.
Proof.
  unfold hb_next. destruct (N.of_nat (length hb) * 8 <? off + w); [discriminate|].
  apply next_slice_agree.
Qed.

(* inside one byte the mask-and-shift code extracts (curb mod 2^leftb) / 2^(leftb-i): finite sweep *)
Definition within_byte_spec (curb leftb i : N) : N := (curb mod 2 ^ leftb) / 2 ^ (leftb - i).

Definition sweep_ok : bool :=
  forallb (fun curb =>
    forallb (fun leftb =>
      forallb (fun i => (leftb <? i) || (within_byte curb leftb i =? within_byte_spec curb leftb i))
              (map N.of_nat (seq 0 9)))
      (map N.of_nat (seq 1 8)))
    (map N.of_nat (seq 0 256)).

Lemma sweep_ok_true : sweep_ok = true.
Proof. vm_compute. reflexivity. Qed.

Lemma in_seqN lo n x : lo <= x < lo + N.of_nat n -> In x (map N.of_nat (seq (N.to_nat lo) n)).
Proof.
  intros H. apply in_map_iff. exists (N.to_nat x). split; [lia|]. apply in_seq. lia.
Qed.

Theorem within_byte_correct curb leftb i :
  curb < 256 -> 1 <= leftb <= 8 -> i <= leftb -> within_byte curb leftb i = within_byte_spec curb leftb i.
Proof.
  intros Hc Hl Hi. pose proof sweep_ok_true as H. unfold sweep_ok in H.
  rewrite forallb_forall in H. specialize (H curb (in_seqN 0 256 curb ltac:(lia))).
  rewrite forallb_forall in H. specialize (H leftb (in_seqN 1 8 leftb ltac:(lia))).
  rewrite forallb_forall in H. specialize (H i (in_seqN 0 9 i ltac:(lia))).
  apply orb_prop in H. destruct H as [H|H]; [apply N.ltb_lt in H; lia|apply N.eqb_eq in H; exact H].
Qed.
