(* Reading ANY well-formed HAMT, not only one our builder produced: every trie that keeps the HAMT invariants
   (bucket = hash slice of the level; bucket numbers below the fanout; non-empty names hashed by H; no empty
   sub-shard) — whatever history of inserts and removals shaped it, minimal or not — serializes to a block that
   reads back as the map of its entries. *)
From UV Require Import Hamt.Read Hamt.TrieProofs Hamt.ShardDecode Hamt.Refine.
From Coq Require Import Permutation ZifyN ZifyNat ZifyBool.
Local Open Scope N_scope.

Section Any.
  Variables (size lg : N).
  Hypothesis Hperm : permitted size lg.
  Variable H : bytes -> bytes.
  Hypothesis H_wf : forall k, wf_bytes (H k) = true.
  Hypothesis H_len : forall k, length (H k) = 8%nat.

  Theorem wellformed_shard_is_map cs :
    bwf lg 0 (BShard cs) -> bok size H (BShard cs) -> NoDup (map e_name (entries_of (BShard cs))) ->
    let root := fst (serialize_node size HashMurmur3 (pad_len size) (BShard cs)) in
    let entries := entries_of (BShard cs) in
    (forall e, In e entries -> fst (lookup nofault root (H (e_name e)) (e_name e)) = Ok (e_target e))
    /\ (forall key, ~ In key (map e_name entries) -> fst (lookup nofault root (H key) key) = Err ENotFound)
    /\ Permutation (map snd (iterate nofault root)) (map yield_of entries)
    /\ fst (shard_length nofault root) = Ok (N.of_nat (length entries)).
  Proof.
    intros Hw Hk Hnd root entries. subst root entries.
    assert (Hd : (0 + 1) * lg <= 64) by (destruct Hperm as [_ Hl]; lia).
    split; [|split; [|split]].
    - intros e Hin. unfold lookup. change 0 with (0 * lg) at 1.
      rewrite (lookup_serialized size lg Hperm H H_wf H_len (BShard cs) cs 0 None (e_name e) eq_refl Hw Hk Hd (or_introl eq_refl)).
      pose proof (bok_entry size H _ _ Hk Hin) as [_ Hh]. rewrite <- Hh.
      rewrite (blookup_member lg (BShard cs) 0 e Hw Hnd Hin). reflexivity.
    - intros key Hn. unfold lookup. change 0 with (0 * lg) at 1.
      rewrite (lookup_serialized size lg Hperm H H_wf H_len (BShard cs) cs 0 None key eq_refl Hw Hk Hd (or_introl eq_refl)).
      rewrite (blookup_absent lg (BShard cs) 0 (H key) key Hn). reflexivity.
    - unfold iterate. rewrite (mk_shard_ser size lg Hperm H cs Hk). cbn [sh_pad].
      apply (iterate_serialized size lg Hperm H (BShard cs) cs None eq_refl Hk (or_introl eq_refl)).
    - unfold shard_length. apply (length_serialized size lg Hperm H (BShard cs) cs None eq_refl Hk (or_introl eq_refl)).
  Qed.
End Any.
