(* When does BuildUnixFSShardedDirectory succeed?  Exactly when no two entries agree on every hash slice the
   hash has room for — a condition on the SET of entries, so success does not depend on their order either. *)
From UV Require Import Hamt.Read Hamt.HashBitsSpec Hamt.HashBitsProofs Hamt.TrieProofs Hamt.ShardDecode Hamt.Refine Hamt.Canon.
From Coq Require Import Permutation ZifyN ZifyNat ZifyBool.
Local Open Scope N_scope.

Section Total.
  Variable lg : N.
  Hypothesis Hlg : 1 <= lg <= 64.

  Definition hok (e : entry) : Prop := wf_bytes (e_hash e) = true /\ length (e_hash e) = 8%nat.

  Lemma slice_ok e d : hok e -> (d + 1) * lg <= 64 -> exists b, slice_at lg (e_hash e) d = Ok b.
  Proof.
    intros [Hw Hl] Hd. eexists. unfold slice_at. apply hb_slice_spec; [exact Hw|lia|]. unfold nbits. rewrite Hl. lia.
  Qed.

  Lemma slice_ok_inv e d b : hok e -> slice_at lg (e_hash e) d = Ok b -> (d + 1) * lg <= 64.
  Proof.
    intros [Hw Hl] Hs. destruct (N.le_gt_cases ((d + 1) * lg) 64) as [Hle|Hgt]; [exact Hle|exfalso].
    unfold slice_at in Hs. destruct (hb_too_deep (e_hash e) (d * lg) lg ltac:(unfold nbits; rewrite Hl; lia)) as [E _]. congruence.
  Qed.

  (* the two hashes differ at a level the hash has room for *)
  Definition sep (x y : entry) : Prop := exists d, (d + 1) * lg <= 64 /\ slice_at lg (e_hash x) d <> slice_at lg (e_hash y) d.

  Lemma sep_sym x y : sep x y -> sep y x.
  Proof. intros (d & Hd & Hn). exists d. split; [exact Hd|congruence]. Qed.

  (* ---- a trie that was built separates its entries ---- *)
  Lemma trie_sep t : forall d x y, bwf lg d t -> (forall e, In e (entries_of t) -> hok e) ->
    In x (entries_of t) -> In y (entries_of t) -> x <> y -> sep x y.
  Proof.
    induction t as [e|cs IH] using bnode_ind'; intros d x y Hw Hh Hx Hy Hne.
    - destruct Hx as [<-|[]], Hy as [<-|[]]. congruence.
    - destruct (proj1 (bwf_shard lg d cs) Hw) as [Hk Hall]. rewrite bwf_all_forall, Forall_forall in Hall. rewrite Forall_forall in IH.
      cbn [entries_of] in Hx, Hy. apply in_flat_map in Hx, Hy. destruct Hx as ([b1 c1] & H1 & Hx), Hy as ([b2 c2] & H2 & Hy). cbn [snd] in *.
      destruct (Hall _ H1) as [Hs1 Hw1], (Hall _ H2) as [Hs2 Hw2]. cbn [fst snd] in *.
      destruct (N.eq_dec b1 b2) as [<-|Hb].
      + assert (c2 = c1) as ->.
        { apply (assoc_get_in b1 c1 cs Hk) in H1. apply (assoc_get_in b1 c2 cs Hk) in H2. congruence. }
        apply (IH _ H1 (d + 1) x y Hw1); auto.
        intros e He. apply Hh. cbn [entries_of]. apply in_flat_map. exists (b1, c1). auto.
      + exists d. split.
        * apply (slice_ok_inv x d b1); [|exact (Hs1 x Hx)]. apply Hh. cbn [entries_of]. apply in_flat_map. exists (b1, c1). auto.
        * rewrite (Hs1 x Hx), (Hs2 y Hy). congruence.
  Qed.

  (* ---- adding an entry separated from everything in the trie succeeds ---- *)
  Lemma add_total fuel : forall d cs e,
    bwf lg d (BShard cs) -> bmin (BShard cs) -> hok e ->
    (forall x, In x (entries_in cs) -> hok x /\ sep x e /\ (forall d', d' < d -> slice_at lg (e_hash x) d' = slice_at lg (e_hash e) d')) ->
    (d + 1) * lg <= 64 -> 64 <= (d + N.of_nat fuel) * lg ->
    exists cs', add lg fuel d cs e = Ok cs'.
  Proof.
    induction fuel as [|f IH]; intros d cs e Hw Hm He Hctx Hd Hf; [exfalso; cbn in Hf; lia|].
    cbn [add]. fold (slice_at lg (e_hash e) d).
    destruct (slice_ok e d He Hd) as [b Eb]. rewrite Eb. cbn [bind].
    destruct (proj1 (bwf_shard lg d cs) Hw) as [Hk Hall]. rewrite bwf_all_forall, Forall_forall in Hall.
    rewrite bmin_shard, Forall_forall in Hm.
    (* entries below bucket b share slice d with e, hence differ from e deeper *)
    assert (Hdeeper : forall c x, In (b, c) cs -> In x (entries_of c) -> (d + 1 + 1) * lg <= 64).
    { intros c x Hbc Hx. destruct (Hall _ Hbc) as [Hs _]. cbn [fst snd] in Hs.
      destruct (Hctx x) as (Hhx & (d' & Hd' & Hn) & Hpre). { unfold entries_in. apply in_flat_map. exists (b, c). auto. }
      destruct (N.lt_ge_cases d' d) as [Hlt|Hge]; [exfalso; apply Hn; apply Hpre; exact Hlt|].
      destruct (N.eq_dec d' d) as [->|Hne]; [exfalso; apply Hn; rewrite (Hs x Hx), Eb; reflexivity|].
      assert (d + 1 <= d') by lia. nia. }
    destruct (assoc_get b cs) as [[cur|sub]|] eqn:Eg.
    - apply assoc_get_some_in in Eg.
      pose proof (Hdeeper _ cur Eg (or_introl eq_refl)) as Hd2.
      destruct (Hctx cur) as (Hhc & Hsc & Hpc). { unfold entries_in. apply in_flat_map. exists (b, BVal cur). split; [exact Eg|left; reflexivity]. }
      assert (Hw0 : bwf lg (d + 1) (BShard [])) by (apply bwf_shard_intro; [constructor|exact I]).
      assert (Hf1 : 64 <= (d + 1 + N.of_nat f) * lg) by (rewrite Nat2N.inj_succ in Hf; lia).
      destruct (IH (d + 1) [] cur Hw0 I Hhc ltac:(intros x []) Hd2 Hf1) as (s1 & E1). rewrite E1. cbn [bind].
      destruct (add_spec lg f (d + 1) [] cur s1 Hw0 E1) as [Hw1 Hp1].
      pose proof (add_bmin lg f (d + 1) [] cur s1 Hw0 I E1) as Hm1.
      destruct (IH (d + 1) s1 e Hw1 Hm1 He) as (s2 & E2); [| exact Hd2 | exact Hf1 | rewrite E2; cbn [bind]; eexists; reflexivity].
      intros x Hx. apply (Permutation_in _ Hp1) in Hx. destruct Hx as [<-|[]].
      split; [exact Hhc|]. split; [exact Hsc|]. intros d' Hd'.
      destruct (N.eq_dec d' d) as [->|Hne]; [|apply Hpc; lia].
      destruct (Hall _ Eg) as [Hs _]. cbn [fst snd] in Hs. rewrite (Hs cur (or_introl eq_refl)), Eb. reflexivity.
    - apply assoc_get_some_in in Eg. destruct (Hall _ Eg) as [Hs Hwsub]. cbn [fst snd] in Hs, Hwsub.
      destruct (Hm _ Eg) as [Hlen Hmsub]. cbn [snd] in Hlen, Hmsub.
      assert (Hd2 : (d + 1 + 1) * lg <= 64).
      { destruct (entries_of (BShard sub)) as [|x0 r0] eqn:Ee; [cbn in Hlen; lia|]. apply (Hdeeper (BShard sub) x0 Eg). rewrite Ee. left. reflexivity. }
      assert (Hf1 : 64 <= (d + 1 + N.of_nat f) * lg) by (rewrite Nat2N.inj_succ in Hf; lia).
      destruct (IH (d + 1) sub e Hwsub Hmsub He) as (sub' & E1); [| exact Hd2 | exact Hf1 | rewrite E1; cbn [bind]; eexists; reflexivity].
      intros x Hx. destruct (Hctx x) as (Hhx & Hsx & Hpx). { unfold entries_in. apply in_flat_map. exists (b, BShard sub). split; [exact Eg|exact Hx]. }
      split; [exact Hhx|]. split; [exact Hsx|]. intros d' Hd'.
      destruct (N.eq_dec d' d) as [->|Hne]; [|apply Hpx; lia]. rewrite (Hs x Hx), Eb. reflexivity.
    - eexists. reflexivity.
  Qed.
End Total.

(* the fold over the entries, generic in the step (cf. TrieProofs.Fold) *)
Section FoldTotal.
  Variable addf : list (N * bnode) -> entry -> res (list (N * bnode)).
  Variable Inv : list entry -> list (N * bnode) -> Prop.
  Variable P : list entry -> entry -> Prop.
  Hypothesis step : forall seen cs e, Inv seen cs -> P seen e -> exists cs', addf cs e = Ok cs' /\ Inv (e :: seen) cs'.

  Fixpoint chain (seen es : list entry) : Prop :=
    match es with [] => True | e :: r => P seen e /\ chain (e :: seen) r end.

  Lemma fold_g_total es : forall seen cs, Inv seen cs -> chain seen es -> exists cs', fold_left (gstep addf) es (Ok cs) = Ok cs'.
  Proof.
    induction es as [|e r IH]; intros seen cs Hi Hc; [eexists; reflexivity|].
    destruct Hc as [Hp Hc]. destruct (step seen cs e Hi Hp) as (cs1 & E1 & Hi1).
    cbn [fold_left]. change (gstep addf (Ok cs) e) with (addf cs e). rewrite E1. apply (IH (e :: seen) cs1 Hi1 Hc).
  Qed.
End FoldTotal.

Section BuildTotal.
  Variables (size lg : N).
  Hypothesis Hperm : permitted size lg.
  Variable H : bytes -> bytes.
  Hypothesis H_wf : forall k, wf_bytes (H k) = true.
  Hypothesis H_len : forall k, length (H k) = 8%nat.

  Lemma lg_range : 1 <= lg <= 64.
  Proof. destruct Hperm as [_ Hl]. lia. Qed.

  Lemma entry_hok e : entry_ok H e -> hok e.
  Proof. intros [_ Eh]. unfold hok. rewrite Eh. split; [apply H_wf|apply H_len]. Qed.

  (* success <-> the entries are pairwise separated *)
  Definition separated (es : list entry) : Prop := forall x y, In x es -> In y es -> x <> y -> sep lg x y.

  Lemma built_separated entries cs : Forall (entry_ok H) entries -> add_all lg entries = Ok cs -> separated entries.
  Proof.
    intros He Ha x y Hx Hy Hne. destruct (add_all_spec lg entries cs Ha) as [Hw Hp].
    apply (trie_sep lg lg_range (BShard cs) 0 x y Hw).
    - intros e Hi. apply entry_hok. rewrite Forall_forall in He. apply He. eapply Permutation_in; [exact Hp|exact Hi].
    - eapply Permutation_in; [apply Permutation_sym; exact Hp|exact Hx].
    - eapply Permutation_in; [apply Permutation_sym; exact Hp|exact Hy].
    - exact Hne.
  Qed.

  Lemma separated_builds entries : Forall (entry_ok H) entries -> NoDup entries -> separated entries ->
    exists cs, add_all lg entries = Ok cs.
  Proof.
    intros He Hnd Hsep. unfold add_all.
    pose (Inv := fun (seen : list entry) (cs : list (N * bnode)) =>
                   bwf lg 0 (BShard cs) /\ bmin (BShard cs) /\ Permutation (entries_in cs) seen).
    pose (P := fun (seen : list entry) (e : entry) => hok e /\ forall x, In x seen -> hok x /\ sep lg x e).
    apply (fold_g_total (add lg 70 0) Inv P) with (seen := @nil entry).
    - intros seen cs e (Hw & Hm & Hp) (Hhe & Hpe).
      destruct (add_total lg lg_range 70 0 cs e Hw Hm Hhe) as (cs' & E).
      + intros x Hx. apply (Permutation_in _ Hp) in Hx. destruct (Hpe x Hx) as [Hhx Hsx]. split; [exact Hhx|]. split; [exact Hsx|]. intros d' Hd'. lia.
      + destruct lg_range. lia.
      + destruct lg_range. change (N.of_nat 70) with 70. lia.
      + exists cs'. split; [exact E|]. destruct (add_spec lg 70 0 cs e cs' Hw E) as [Hw' Hp'].
        split; [exact Hw'|]. split; [exact (add_bmin lg 70 0 cs e cs' Hw Hm E)|]. rewrite Hp', Hp. reflexivity.
    - split; [apply bwf_shard_intro; [constructor|exact I]|]. split; [exact I|reflexivity].
    - (* the chain condition from pairwise separation *)
      assert (G : forall es seen, (forall x, In x seen -> In x entries) -> (forall x, In x es -> In x entries) ->
                    NoDup (rev seen ++ es) -> chain P seen es).
      { induction es as [|e r IHr]; intros seen Hs1 Hs2 Hn; [exact I|]. split.
        - split; [apply entry_hok; rewrite Forall_forall in He; apply He, Hs2; left; reflexivity|].
          intros x Hx. split; [apply entry_hok; rewrite Forall_forall in He; apply He, Hs1, Hx|].
          apply Hsep; [apply Hs1, Hx|apply Hs2; left; reflexivity|].
          intros ->. apply NoDup_remove_2 in Hn. apply Hn. apply in_or_app. left. apply in_rev in Hx. exact Hx.
        - apply IHr; [intros x [<-|Hx]; [apply Hs2; left; reflexivity|apply Hs1, Hx]|intros x Hx; apply Hs2; right; exact Hx|].
          cbn [rev]. rewrite <- app_assoc. exact Hn. }
      apply G; [intros x []|auto|exact Hnd].
  Qed.

  (* BuildUnixFSShardedDirectory succeeds on a permutation of the entries iff it succeeds on the entries *)
  Theorem build_sharded_success_order_independent entries entries' r :
    Forall (entry_ok H) entries -> NoDup (map e_name entries) -> Permutation entries entries' ->
    build_sharded size HashMurmur3 entries = Ok r -> exists r', build_sharded size HashMurmur3 entries' = Ok r'.
  Proof.
    intros He Hnd Hp Hb. unfold build_sharded in *. rewrite (log2_exact_permitted size lg Hperm) in *.
    destruct (add_all lg entries) as [cs| |] eqn:Ea; try discriminate. cbn [bind] in Hb.
    assert (Hsep : separated entries') .
    { intros x y Hx Hy Hne. apply (built_separated entries cs He Ea); [| |exact Hne]; eapply Permutation_in; try (apply Permutation_sym; exact Hp); assumption. }
    destruct (separated_builds entries') as (cs' & Ea').
    - eapply Permutation_Forall; eassumption.
    - eapply Permutation_NoDup; [exact Hp|]. apply (NoDup_map_inv e_name). exact Hnd.
    - exact Hsep.
    - rewrite Ea'. cbn [bind]. destruct (negb (size mod 8 =? 0)); [discriminate|]. eexists. reflexivity.
  Qed.
End BuildTotal.

(* both together: a successful build is reproduced, root and size, by every permutation of the entries *)
Theorem build_sharded_perm size lg (Hperm : permitted size lg) (H : bytes -> bytes)
  (H_wf : forall k, wf_bytes (H k) = true) (H_len : forall k, length (H k) = 8%nat) entries entries' r :
  Forall (entry_ok H) entries -> NoDup (map e_name entries) -> Permutation entries entries' ->
  build_sharded size HashMurmur3 entries = Ok r -> build_sharded size HashMurmur3 entries' = Ok r.
Proof.
  intros He Hnd Hp Hb.
  destruct (build_sharded_success_order_independent size lg Hperm H H_wf H_len entries entries' r He Hnd Hp Hb) as (r' & Hb').
  rewrite Hb'. f_equal. symmetry.
  apply (build_sharded_order_independent size lg Hperm H H_wf H_len entries entries' r r' He Hnd Hp Hb Hb').
Qed.

(* non-vacuity: the demo directory (colliding names, fanout 8) builds, and builds identically in reverse order *)
Example demo_order_independent :
  exists r, build_sharded 8 HashMurmur3 demo_entries = Ok r /\ build_sharded 8 HashMurmur3 (rev demo_entries) = Ok r.
Proof. eexists. split; vm_compute; reflexivity. Qed.
