(* Sizes of directory DAGs: what the directory builders return is the encoded length of every block they wrote plus the
   sizes the caller supplied for the entries, and every link carries the cumulative size of what it points to. *)
From UV Require Import Dir.BuildProofs Hamt.Read Hamt.TrieProofs Hamt.Refine Hamt.Canon.
From Coq Require Import Permutation ZifyN ZifyNat ZifyBool.
Local Open Scope N_scope.

Definition entry_size (e : entry) : N := u64 (e_tsize e).

Section Sizes.
  Variables (size hasher : N).
  Notation width := (pad_len size).
  Notation ser := (serialize_node size hasher width).

  (* encoded length of every shard block of the trie, the root included *)
  Fixpoint shard_bytes (n : bnode) : N :=
    match n with
    | BVal _ => 0
    | BShard cs =>
      enc_len (fst (ser n)) +
      (fix go (cs : list (N * bnode)) : N := match cs with [] => 0 | (_, c) :: r => shard_bytes c + go r end) cs
    end.
  Definition shard_bytes_children := fix go (cs : list (N * bnode)) : N := match cs with [] => 0 | (_, c) :: r => shard_bytes c + go r end.
  Lemma shard_bytes_shard cs : shard_bytes (BShard cs) = enc_len (fst (ser (BShard cs))) + shard_bytes_children cs.
  Proof. reflexivity. Qed.

  Definition ser_go' :=
    fix go (cs : list (N * bnode)) : list plink * N :=
      match cs with
      | [] => ([], 0)
      | (idx, c) :: r =>
        let '(ls, tot) := go r in
        match c with
        | BVal e =>
          (PLink (Some (hex_fixed width idx ++ e_name e)) (Some (e_tsize e)) (e_target e) :: ls, u64 (e_tsize e) + tot)
        | BShard _ =>
          let '(b, sz) := ser c in
          (PLink (Some (hex_fixed width idx)) (Some (Z.of_N sz)) b :: ls, sz + tot)
        end
      end.

  Lemma ser_shard' cs : ser (BShard cs) =
    (Pb (Some (shard_data size hasher cs)) (sort_links (fst (ser_go' cs))),
     snd (ser_go' cs) + pb_len (Some (shard_data size hasher cs)) (sort_links (fst (ser_go' cs)))).
  Proof. reflexivity. Qed.

  (* the returned size is cumulative: all shard blocks written + the entries' sizes *)
  Theorem sharded_size_is_cumulative n : forall cs, n = BShard cs ->
    snd (ser n) = shard_bytes n + nsum (map entry_size (entries_of n)).
  Proof.
    induction n as [e|cs0 IH] using bnode_ind'; intros cs En; [discriminate|]. inversion En; subst cs0. clear En.
    rewrite shard_bytes_shard, ser_shard'. cbn [fst snd enc_len].
    assert (G : snd (ser_go' cs) = shard_bytes_children cs + nsum (map entry_size (entries_of (BShard cs)))); [|lia].
    cbn [entries_of]. induction IH as [|[b c] r Hc _ IHr]; [reflexivity|].
    cbn [ser_go' shard_bytes_children flat_map snd]. fold ser_go'. rewrite map_app.
    assert (Hsum : forall a b0, nsum (a ++ b0) = nsum a + nsum b0).
    { intros a b0. induction a as [|x a IHa]; [reflexivity|]. cbn [app nsum fold_right] in *. fold (nsum (a ++ b0)) (nsum a). lia. }
    rewrite Hsum. destruct (ser_go' r) as [ls tot]. cbn [snd] in IHr. cbn [snd] in Hc.
    destruct c as [e|sub].
    - cbn [snd shard_bytes entries_of map nsum fold_right]. unfold entry_size at 1. lia.
    - specialize (Hc sub eq_refl). destruct (ser (BShard sub)) as [bb sz]. cbn [snd] in *. lia.
  Qed.

  (* every link of a shard block carries the cumulative size of its target: the entry's size as given, or the
     size serialize computed for the child shard *)
  Theorem sharded_links_carry_sizes cs b c : In (b, c) cs ->
    exists l, In l (map (Refine.link_of size) cs) /\
      l_target l = match c with BVal e => e_target e | BShard _ => fst (serialize_node size HashMurmur3 width c) end /\
      l_tsize l = Some (match c with BVal e => e_tsize e | BShard _ => Z.of_N (snd (serialize_node size HashMurmur3 width c)) end).
  Proof.
    intros Hin. exists (Refine.link_of size (b, c)). split; [apply in_map; exact Hin|].
    destruct c as [e|sub]; split; reflexivity.
  Qed.
End Sizes.

(* the plain directory: size = encoded root + the entries' sizes; every link carries its entry's size *)
Theorem plain_size_is_cumulative entries :
  snd (build_plain entries) = enc_len (fst (build_plain entries)) + nsum (map entry_size entries)
  /\ Permutation (map (fun l => (l_target l, l_tsize l)) (match fst (build_plain entries) with Pb _ ls => ls | _ => [] end))
                 (map (fun e => (e_target e, Some (e_tsize e))) entries).
Proof.
  unfold build_plain. cbn [fst snd enc_len]. split.
  - assert (G : fold_right (fun e acc => u64 (e_tsize e) + acc) 0 entries = nsum (map entry_size entries)); [|lia].
    induction entries as [|e r IH]; [reflexivity|]. cbn [fold_right map nsum]. fold (nsum (map entry_size r)). rewrite IH. reflexivity.
  - rewrite <- (Permutation_map _ (SortProofs.sort_perm (map entry_link entries))). rewrite map_map. reflexivity.
Qed.
