(* The link list of a serialized shard: fixed-width upper-hex prefixes order the links by bucket,
   so the link of bucket b sits at position OnesBefore(b) of the codec-sorted list. *)
From UV Require Import Hamt.Build Hamt.SortProofs Hamt.BitfieldProofs.
From Coq Require Import Permutation Sorted ZifyN ZifyNat ZifyBool.
Local Open Scope N_scope.

(* ---- fmt.Sprintf("%0*X") ---- *)
Lemma hex_fixed_length w : forall i, length (hex_fixed w i) = w.
Proof. induction w as [|w IH]; intros i; cbn [hex_fixed]; [reflexivity|]. rewrite app_length, IH. cbn. lia. Qed.

Lemma hex_digit_mono a b : a < b -> b < 16 -> hex_digit a < hex_digit b.
Proof. intros H1 H2. unfold hex_digit. destruct (N.ltb_spec a 10), (N.ltb_spec b 10); lia. Qed.

Lemma bytes_ltb_common_prefix p : forall a b s1 s2, a < b -> bytes_ltb (p ++ a :: s1) (p ++ b :: s2) = true.
Proof.
  induction p as [|x p IH]; intros a b s1 s2 H; cbn [app bytes_ltb].
  - destruct (N.ltb_spec a b); [reflexivity|lia].
  - rewrite N.ltb_irrefl. apply IH. exact H.
Qed.

Lemma hex_fixed_lt w : forall i j s1 s2, i < j -> j < 16 ^ N.of_nat w ->
  bytes_ltb (hex_fixed w i ++ s1) (hex_fixed w j ++ s2) = true.
Proof.
  induction w as [|w IH]; intros i j s1 s2 Hij Hj.
  - change (16 ^ N.of_nat 0) with 1 in Hj. lia.
  - cbn [hex_fixed]. rewrite <- !app_assoc. cbn [app].
    assert (Hp : 16 ^ N.of_nat (S w) = 16 * 16 ^ N.of_nat w) by (rewrite Nat2N.inj_succ, N.pow_succ_r'; reflexivity).
    destruct (N.lt_ge_cases (i / 16) (j / 16)) as [Hlt|Hge].
    + apply IH; [exact Hlt|]. apply N.div_lt_upper_bound; lia.
    + assert (E : i / 16 = j / 16).
      { apply N.le_antisymm; [apply N.div_le_mono; lia|exact Hge]. }
      rewrite E. apply bytes_ltb_common_prefix. apply hex_digit_mono; [|apply N.mod_lt; lia].
      pose proof (N.div_mod i 16 ltac:(lia)). pose proof (N.div_mod j 16 ltac:(lia)). lia.
Qed.

Lemma bytes_ltb_asym a b : bytes_ltb a b = true -> bytes_ltb b a = false.
Proof.
  intros H. destruct (bytes_ltb b a) eqn:E; [|reflexivity].
  pose proof (bytes_ltb_trans _ _ _ H E) as Ht. rewrite bytes_ltb_irrefl in Ht. discriminate.
Qed.

Lemma hex_fixed_order w i j s1 s2 : i <> j -> i < 16 ^ N.of_nat w -> j < 16 ^ N.of_nat w ->
  bytes_ltb (hex_fixed w i ++ s1) (hex_fixed w j ++ s2) = (i <? j).
Proof.
  intros Hne Hi Hj. destruct (N.ltb_spec i j) as [Hlt|Hge].
  - apply hex_fixed_lt; assumption.
  - apply bytes_ltb_asym. apply hex_fixed_lt; [lia|assumption].
Qed.

(* len(fmt.Sprintf("%X", size-1)) digits are enough for every bucket index below size *)
Lemma hex_len_enough f : forall v, v < 16 ^ N.of_nat (S f) -> v < 16 ^ N.of_nat (hex_len_aux f v).
Proof.
  induction f as [|f IH]; intros v Hv; cbn [hex_len_aux]; [exact Hv|].
  destruct (N.ltb_spec v 16) as [Hlt|Hge]; [change (16 ^ N.of_nat 1) with 16; exact Hlt|].
  assert (Hp : forall k, 16 ^ N.of_nat (S k) = 16 * 16 ^ N.of_nat k) by (intros k; rewrite Nat2N.inj_succ, N.pow_succ_r'; reflexivity).
  rewrite Hp in Hv. specialize (IH (v / 16) ltac:(apply N.div_lt_upper_bound; lia)).
  rewrite Hp. pose proof (N.div_mod v 16 ltac:(lia)). pose proof (N.mod_lt v 16 ltac:(lia)). lia.
Qed.

Lemma pad_len_enough size idx : 1 <= size -> size <= 2 ^ 64 -> idx < size -> idx < 16 ^ N.of_nat (pad_len size).
Proof.
  intros H1 H2 Hi. unfold pad_len.
  apply N.le_lt_trans with (m := size - 1); [lia|]. apply hex_len_enough.
  change (16 ^ N.of_nat 17) with 295147905179352825856. change (2 ^ 64) with 18446744073709551616 in H2. lia.
Qed.

(* ---- position in a strictly sorted list = number of smaller elements ---- *)
Definition lltb (x y : plink) : bool := bytes_ltb (link_key x) (link_key y).

Lemma sorted_nth L : forall y, StronglySorted klt L -> In y L ->
  nth_error L (length (filter (fun x => lltb x y) L)) = Some y.
Proof.
  induction L as [|x r IH]; intros y Hs Hin; [destruct Hin|].
  inversion Hs as [|? ? Hr Hall]; subst. cbn [filter].
  destruct Hin as [->|Hin].
  - unfold lltb at 1. rewrite bytes_ltb_irrefl.
    replace (filter (fun x => lltb x y) r) with (@nil plink); [reflexivity|].
    symmetry. clear IH Hs Hr. induction r as [|z r IHr]; [reflexivity|]. cbn [filter].
    inversion Hall as [|? ? Hz Hall']; subst. unfold lltb at 1. rewrite (bytes_ltb_asym _ _ Hz). apply IHr. exact Hall'.
  - rewrite Forall_forall in Hall. specialize (Hall y Hin). unfold klt in Hall. unfold lltb at 1. rewrite Hall.
    cbn [length nth_error]. apply IH; assumption.
Qed.

Lemma filter_length_perm {A} (f : A -> bool) l l' : Permutation l l' -> length (filter f l) = length (filter f l').
Proof.
  induction 1 as [|x l l' _ IH|x y l|l l' l'' _ IH1 _ IH2]; cbn [filter]; [reflexivity| | |congruence].
  - destruct (f x); cbn [length]; congruence.
  - destruct (f x), (f y); reflexivity.
Qed.

Lemma filter_length_map {A B} (g : A -> B) (p : B -> bool) (q : A -> bool) l :
  (forall x, In x l -> p (g x) = q x) -> length (filter p (map g l)) = length (filter q l).
Proof.
  induction l as [|x r IH]; intros H; [reflexivity|]. cbn [map filter].
  rewrite (H x (or_introl eq_refl)). destruct (q x); cbn [length]; rewrite IH; auto; intros z Hz; apply H; right; exact Hz.
Qed.

(* the general statement: items keyed by distinct numbers, turned into links whose names compare like the keys *)
Theorem sorted_links_rank {A} (mk : N * A -> plink) (cs : list (N * A)) b c :
  NoDup (map fst cs) ->
  (forall k1 c1 k2 c2, In (k1, c1) cs -> In (k2, c2) cs -> k1 <> k2 -> lltb (mk (k1, c1)) (mk (k2, c2)) = (k1 <? k2)) ->
  In (b, c) cs ->
  nth_error (sort_links (map mk cs)) (length (filter (fun k => k <? b) (map fst cs))) = Some (mk (b, c)).
Proof.
  intros Hnd Hord Hin.
  assert (Hnk : NoDup (map link_key (map mk cs))).
  { clear Hin. induction cs as [|[k a] r IH]; [constructor|]. cbn [map] in *. inversion Hnd as [|? ? Hn Hr]; subst.
    constructor; [|apply IH; [exact Hr|intros; apply Hord; auto; right; assumption]].
    intros Hi. apply in_map_iff in Hi. destruct Hi as (l & El & Hl). apply in_map_iff in Hl. destruct Hl as ([k2 a2] & <- & H2).
    assert (Hne : k <> k2). { intros ->. apply Hn. apply in_map_iff. exists (k2, a2). auto. }
    pose proof (Hord k a k2 a2 (or_introl eq_refl) (or_intror H2) Hne) as H1.
    pose proof (Hord k2 a2 k a (or_intror H2) (or_introl eq_refl) (fun E => Hne (eq_sym E))) as H3.
    unfold lltb in H1, H3. rewrite El in H1. rewrite El in H3. rewrite bytes_ltb_irrefl in H1, H3.
    destruct (N.ltb_spec k k2), (N.ltb_spec k2 k); try discriminate; lia. }
  pose proof (sort_sorted _ Hnk) as Hs. pose proof (sort_perm (map mk cs)) as Hp.
  assert (Hin' : In (mk (b, c)) (sort_links (map mk cs))).
  { eapply Permutation_in; [exact Hp|]. apply in_map. exact Hin. }
  rewrite <- (sorted_nth _ _ Hs Hin'). f_equal.
  rewrite <- (filter_length_perm _ _ _ Hp).
  rewrite (filter_length_map fst (fun k => k <? b) (fun kc => fst kc <? b)).
  symmetry. apply (filter_length_map mk). intros [k a] Hk. cbn [fst].
  destruct (N.eq_dec k b) as [->|Hne].
  - assert (a = c) as ->.
    { clear -Hnd Hk Hin. induction cs as [|[k' a'] r IH]; [destruct Hin|]. cbn [map fst] in Hnd. inversion Hnd as [|? ? Hn Hr]; subst.
      destruct Hk as [E1|Hk], Hin as [E2|Hin]; try congruence.
      - exfalso. apply Hn. inversion E1; subst. apply in_map_iff. exists (b, c). auto.
      - exfalso. apply Hn. inversion E2; subst. apply in_map_iff. exists (b, a). auto.
      - apply IH; assumption. }
    unfold lltb. rewrite bytes_ltb_irrefl, N.ltb_irrefl. reflexivity.
  - apply Hord; assumption.
  - intros x _. reflexivity.
Qed.
