(* boxo/ipld/unixfs/hamt (the REFERENCE implementation): Shard.swapValue — Set and Remove on the in-memory trie —
   and a history of such operations applied to an empty shard.  The trie type is the builder's (`bnode`): the
   reference keeps the same shape in memory (childer = bucket -> value | sub-shard) and serializes it the same way.
   Set: an empty bucket takes the value; a value with the same key is replaced; a value with another key is forked
   into a fresh sub-shard receiving the new entry and then the old one; a sub-shard is descended.
   Remove: the value is dropped from its shard; on the way up a sub-shard left with no child is pruned, a sub-shard
   left with a single VALUE child is replaced by that value; a missing key is os.ErrNotExist (ENotFound). *)
From UV Require Export Hamt.Build.
Local Open Scope N_scope.

Fixpoint assoc_del {A} (k : N) (l : list (N * A)) : list (N * A) :=
  match l with
  | [] => []
  | (k', v) :: r => if k =? k' then r else (k', v) :: assoc_del k r
  end.

Section Ref.
  Variable lg : N.

  Fixpoint rset (fuel : nat) (depth : N) (children : list (N * bnode)) (e : entry) : res (list (N * bnode)) :=
    match fuel with
    | O => Err EOther
    | S f =>
      bucket <- hb_slice (e_hash e) (depth * lg) lg ;;
      match assoc_get bucket children with
      | None => Ok (assoc_set bucket (BVal e) children)
      | Some (BVal cur) =>
        if bytes_eqb (e_name cur) (e_name e) then Ok (assoc_set bucket (BVal e) children)
        else
          s1 <- rset f (depth + 1) [] e ;;
          s2 <- rset f (depth + 1) s1 cur ;;
          Ok (assoc_set bucket (BShard s2) children)
      | Some (BShard sub) =>
        sub' <- rset f (depth + 1) sub e ;; Ok (assoc_set bucket (BShard sub') children)
      end
    end.

  Fixpoint rdel (fuel : nat) (depth : N) (children : list (N * bnode)) (name hash : bytes) : res (list (N * bnode)) :=
    match fuel with
    | O => Err EOther
    | S f =>
      bucket <- hb_slice hash (depth * lg) lg ;;
      match assoc_get bucket children with
      | None => Err ENotFound
      | Some (BVal cur) =>
        if bytes_eqb (e_name cur) name then Ok (assoc_del bucket children) else Err ENotFound
      | Some (BShard sub) =>
        sub' <- rdel f (depth + 1) sub name hash ;;
        match sub' with
        | [] => Ok (assoc_del bucket children)
        | [(_, BVal v)] => Ok (assoc_set bucket (BVal v) children)
        | _ => Ok (assoc_set bucket (BShard sub') children)
        end
      end
    end.
End Ref.

Inductive hop := HSet (e : entry) | HDel (name hash : bytes).

(* a Remove of a name that is not there reports ErrNotExist and leaves the shard as it is *)
Definition hstep (lg : N) (fuel : nat) (t : list (N * bnode)) (o : hop) : res (list (N * bnode)) :=
  match o with
  | HSet e => rset lg fuel 0 t e
  | HDel n h => match rdel lg fuel 0 t n h with Err ENotFound => Ok t | r => r end
  end.
Definition hfold (lg : N) (fuel : nat) (ops : list hop) (t0 : res (list (N * bnode))) : res (list (N * bnode)) :=
  fold_left (fun acc o => t <- acc ;; hstep lg fuel t o) ops t0.
Definition hrun (lg : N) (fuel : nat) (ops : list hop) : res (list (N * bnode)) := hfold lg fuel ops (Ok []).

(* the abstract directory: a list of entries with distinct names *)
Definition other (n : bytes) (e : entry) : bool := negb (bytes_eqb (e_name e) n).
Definition mstep (m : list entry) (o : hop) : list entry :=
  match o with
  | HSet e => e :: filter (other (e_name e)) m
  | HDel n _ => filter (other n) m
  end.
Definition mrun (ops : list hop) : list entry := fold_left mstep ops [].

(* NewShard(fanout); the history; Node() *)
Definition ref_build (size hasher : N) (ops : list hop) : res (blk * N) :=
  match log2_exact size with
  | None => Err EInvalid
  | Some lg => t <- hrun lg 70 ops ;; Ok (serialize_node size hasher (pad_len size) (BShard t))
  end.
