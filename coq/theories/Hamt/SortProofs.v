(* the codec's stable sort by name: a permutation, sorted, and independent of the input order when names are distinct *)
From UV Require Import Hamt.Build Dir.Plain.
From Coq Require Import Permutation Sorted ZifyN ZifyBool.
Local Open Scope N_scope.

Lemma insert_perm l s : Permutation (l :: s) (insert_link l s).
Proof.
  induction s as [|x r IH]; cbn; [reflexivity|].
  destruct (bytes_ltb (link_key l) (link_key x)); [reflexivity|].
  rewrite perm_swap. constructor. exact IH.
Qed.

Lemma sort_perm ls : Permutation ls (sort_links ls).
Proof.
  unfold sort_links. induction ls as [|l r IH]; cbn; [constructor|].
  rewrite <- insert_perm. constructor. exact IH.
Qed.

(* bytes_ltb is a strict total order *)
Lemma bytes_ltb_irrefl a : bytes_ltb a a = false.
Proof. induction a as [|x a IH]; cbn; [reflexivity|]. rewrite N.ltb_irrefl. exact IH. Qed.

Lemma bytes_ltb_trans a : forall b c, bytes_ltb a b = true -> bytes_ltb b c = true -> bytes_ltb a c = true.
Proof.
  induction a as [|x a IH]; intros [|y b] [|z c]; cbn; try discriminate; auto.
  destruct (N.ltb_spec x y), (N.ltb_spec y x), (N.ltb_spec y z), (N.ltb_spec z y), (N.ltb_spec x z), (N.ltb_spec z x);
    try discriminate; try lia; auto.
  intros; eapply IH; eauto.
Qed.

Lemma bytes_ltb_total a : forall b, bytes_ltb a b = false -> bytes_ltb b a = false -> a = b.
Proof.
  induction a as [|x a IH]; intros [|y b]; cbn; try discriminate; auto.
  destruct (N.ltb_spec x y), (N.ltb_spec y x); try discriminate; try lia.
  intros H1 H2. assert (x = y) by lia. subst. f_equal. apply IH; assumption.
Qed.

Definition klt (a b : plink) : Prop := bytes_ltb (link_key a) (link_key b) = true.

Lemma insert_sorted l s : NoDup (map link_key (l :: s)) -> StronglySorted klt s -> StronglySorted klt (insert_link l s).
Proof.
  induction s as [|x r IH]; intros Hnd Hs; cbn; [repeat constructor|].
  destruct (bytes_ltb (link_key l) (link_key x)) eqn:E.
  - constructor; [exact Hs|]. constructor; [exact E|].
    inversion Hs as [|? ? Hr Hall]; subst. rewrite Forall_forall in *. intros y Hy. unfold klt.
    eapply bytes_ltb_trans; [exact E|apply Hall; exact Hy].
  - inversion Hs as [|? ? Hr Hall]; subst.
    assert (Hnd' : NoDup (map link_key (l :: r))).
    { cbn in *. inversion Hnd as [|? ? Hn1 Hn2]; subst. inversion Hn2; subst. constructor; [|assumption].
      intro Hin. apply Hn1. right. exact Hin. }
    constructor; [apply IH; assumption|].
    rewrite Forall_forall. intros y Hy.
    apply (Permutation_in _ (Permutation_sym (insert_perm l r))) in Hy. destruct Hy as [<-|Hy].
    + (* x < l: not l < x, and keys differ *)
      unfold klt. destruct (bytes_ltb (link_key x) (link_key l)) eqn:E2; [reflexivity|].
      exfalso. pose proof (bytes_ltb_total _ _ E E2) as Heq.
      cbn in Hnd. inversion Hnd as [|? ? Hn1 _]; subst. apply Hn1. left. symmetry. exact Heq.
    + rewrite Forall_forall in Hall. apply Hall. exact Hy.
Qed.

Lemma sort_sorted ls : NoDup (map link_key ls) -> StronglySorted klt (sort_links ls).
Proof.
  unfold sort_links. induction ls as [|l r IH]; intros Hnd; cbn; [constructor|].
  apply insert_sorted.
  - cbn. inversion Hnd as [|? ? Hn1 Hn2]; subst. constructor.
    + intro Hin. apply Hn1. apply in_map_iff in Hin. destruct Hin as (y & Hk & Hy).
      apply in_map_iff. exists y. split; [exact Hk|]. eapply Permutation_in; [symmetry; apply sort_perm|exact Hy].
    + eapply Permutation_NoDup; [apply Permutation_map; apply sort_perm|exact Hn2].
  - apply IH. inversion Hnd; assumption.
Qed.

(* two strictly sorted lists with the same elements are equal *)
Lemma sorted_perm_eq a : forall b, StronglySorted klt a -> StronglySorted klt b -> Permutation a b -> a = b.
Proof.
  induction a as [|x a IH]; intros b Ha Hb Hp.
  - apply Permutation_nil in Hp. congruence.
  - destruct b as [|y b]; [apply Permutation_sym, Permutation_nil in Hp; discriminate|].
    inversion Ha as [|? ? Ha' Hax]; subst. inversion Hb as [|? ? Hb' Hby]; subst.
    rewrite Forall_forall in Hax, Hby.
    assert (x = y).
    { assert (Hx : In x (y :: b)) by (eapply Permutation_in; [exact Hp|left; reflexivity]).
      assert (Hy : In y (x :: a)) by (eapply Permutation_in; [symmetry; exact Hp|left; reflexivity]).
      destruct Hx as [->|Hx]; [reflexivity|]. destruct Hy as [->|Hy]; [reflexivity|].
      exfalso. pose proof (Hax y Hy) as H1. pose proof (Hby x Hx) as H2. unfold klt in *.
      pose proof (bytes_ltb_trans _ _ _ H1 H2) as H3. rewrite bytes_ltb_irrefl in H3. discriminate. }
    subst y. f_equal. apply IH; try assumption. eapply Permutation_cons_inv. exact Hp.
Qed.

(* C10: the encoded link list does not depend on the order in which the builder assembled it
   (Go map iteration order, order of the entry slice), provided the names are distinct *)
Theorem sort_links_perm ls ls' :
  Permutation ls ls' -> NoDup (map link_key ls) -> sort_links ls = sort_links ls'.
Proof.
  intros Hp Hnd. apply sorted_perm_eq.
  - apply sort_sorted. exact Hnd.
  - apply sort_sorted. eapply Permutation_NoDup; [apply Permutation_map; exact Hp|exact Hnd].
  - rewrite <- (sort_perm ls), <- (sort_perm ls'). exact Hp.
Qed.

(* lookup (first link with the key) is insensitive to permutation when keys are distinct *)
Lemma key_of_link_key l : key_of l = link_key l.
Proof. reflexivity. Qed.

Lemma lookup_in ls : forall k t, NoDup (map link_key ls) ->
  (lookup ls k = Some t <-> exists l, In l ls /\ link_key l = k /\ l_target l = t).
Proof.
  induction ls as [|x r IH]; intros k t Hnd; cbn.
  - split; [discriminate|intros (l & [] & _)].
  - inversion Hnd as [|? ? Hn1 Hn2]; subst. rewrite key_of_link_key.
    destruct (bytes_eqb_spec k (link_key x)) as [->|Hne].
    + split.
      * intros [= <-]. exists x. auto.
      * intros (l & [<-|Hin] & Hk & Ht); [congruence|].
        exfalso. apply Hn1. rewrite <- Hk. apply in_map. exact Hin.
    + rewrite (IH k t Hn2). split.
      * intros (l & Hin & Hk & Ht). exists l. auto.
      * intros (l & [<-|Hin] & Hk & Ht); [congruence|]. exists l. auto.
Qed.

Theorem lookup_perm ls ls' k : Permutation ls ls' -> NoDup (map link_key ls) -> lookup ls k = lookup ls' k.
Proof.
  intros Hp Hnd.
  assert (Hnd' : NoDup (map link_key ls')) by (eapply Permutation_NoDup; [apply Permutation_map; exact Hp|exact Hnd]).
  destruct (lookup ls k) as [t|] eqn:E.
  - symmetry. apply (lookup_in ls' k t Hnd'). apply (lookup_in ls k t Hnd) in E.
    destruct E as (l & Hin & Hk & Ht). exists l. split; [eapply Permutation_in; eassumption|auto].
  - destruct (lookup ls' k) as [t|] eqn:E'; [|reflexivity].
    apply (lookup_in ls' k t Hnd') in E'. destruct E' as (l & Hin & Hk & Ht).
    assert (H : lookup ls k = Some t).
    { apply (lookup_in ls k t Hnd). exists l. split; [eapply Permutation_in; [symmetry; exact Hp|exact Hin]|auto]. }
    congruence.
Qed.
