(* NewUnixFSHAMTShard accepts exactly what the builder's serialize wrote: the Data message round-trips
   and the validated parameters are the builder's (fanout, log2, prefix width, occupancy bitmap). *)
From UV Require Import Hamt.Read Hamt.BitfieldProofs Codec.Presentation Codec.RoundTrip.
From Coq Require Import ZifyN ZifyNat ZifyBool.
Local Open Scope N_scope.

Definition permitted (size lg : N) : Prop := size = 2 ^ lg /\ 3 <= lg <= 10.

Lemma permitted_cases size lg : permitted size lg ->
  (lg = 3 /\ size = 8) \/ (lg = 4 /\ size = 16) \/ (lg = 5 /\ size = 32) \/ (lg = 6 /\ size = 64) \/
  (lg = 7 /\ size = 128) \/ (lg = 8 /\ size = 256) \/ (lg = 9 /\ size = 512) \/ (lg = 10 /\ size = 1024).
Proof.
  intros [-> H].
  assert (E : lg = 3 \/ lg = 4 \/ lg = 5 \/ lg = 6 \/ lg = 7 \/ lg = 8 \/ lg = 9 \/ lg = 10) by lia.
  repeat (destruct E as [->|E]; [tauto|]). subst. tauto.
Qed.

Theorem mk_shard_of_serialized size lg cs ls :
  permitted size lg -> Forall (fun k => k < size) (map fst cs) ->
  mk_shard_of (Pb (Some (shard_data size HashMurmur3 cs)) ls) = Ok (mk_shard size lg (pad_len size) (bitmap_of cs) ls).
Proof.
  intros Hp Hk. pose proof (bitmap_lt cs size Hk) as Hb.
  assert (Hm8 : size mod 8 = 0) by (destruct (permitted_cases _ _ Hp) as [H|[H|[H|[H|[H|[H|[H|H]]]]]]]; destruct H as [_ ->]; reflexivity).
  pose proof (bf_bytes_len size (bitmap_of cs) Hm8 Hb) as Hlen.
  pose proof (bf_roundtrip size (bitmap_of cs) Hb) as Hrt.
  cbn [mk_shard_of]. unfold shard_data. rewrite decode_encode.
  2:{ unfold wf_udata. cbn [d_type d_data d_filesize d_blocksizes d_hashtype d_fanout d_mode d_mtime].
      assert (size <= 1024) by (destruct (permitted_cases _ _ Hp) as [H|[H|[H|[H|[H|[H|[H|H]]]]]]]; destruct H as [_ ->]; lia).
      change (2 ^ 64) with 18446744073709551616. unfold Data_HAMTShard, HashMurmur3.
      fold (blen (bf_bytes size (bitmap_of cs))).
      repeat split; try lia. constructor. }
  unfold canon. cbn [d_type d_data d_filesize d_blocksizes d_hashtype d_fanout d_mode d_mtime].
  rewrite N.eqb_refl. cbn [negb]. rewrite N.eqb_refl. cbn [negb].
  rewrite Hrt.
  destruct (N.ltb_spec (size / 8) (blen (bf_bytes size (bitmap_of cs)))) as [Hlt|_]; [lia|].
  destruct (permitted_cases _ _ Hp) as [H|[H|[H|[H|[H|[H|[H|H]]]]]]]; destruct H as [-> ->]; reflexivity.
Qed.
