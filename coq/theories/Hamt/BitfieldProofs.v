(* go-bitfield as arithmetic: round trip through Bytes()/SetBytes, membership and rank *)
From UV Require Import Hamt.Bitfield Hamt.Build Hamt.HashBits Hamt.HashBitsSpec Base.Varint.
From Coq Require Import ZifyN ZifyNat ZifyBool.
Local Open Scope N_scope.

Lemma bf_of_bytes_be bs : bf_of_bytes bs = be_value bs.
Proof. reflexivity. Qed.

Lemma bf_bytes_aux_spec f : forall n acc,
  n < 256 ^ N.of_nat f -> bf_of_bytes (bf_bytes_aux f n acc) = n * 256 ^ N.of_nat (length acc) + bf_of_bytes acc.
Proof.
  induction f as [|f IH]; intros n acc Hn.
  - change (256 ^ N.of_nat 0) with 1 in Hn. assert (n = 0) by lia. subst. cbn [bf_bytes_aux]. rewrite N.mul_0_l. reflexivity.
  - cbn [bf_bytes_aux]. destruct (N.eqb_spec n 0) as [->|Hne]; [rewrite N.mul_0_l; reflexivity|].
    rewrite IH.
    + cbn [length]. rewrite Nat2N.inj_succ, N.pow_succ_r'.
      change bf_of_bytes with be_value.
      change (be_value (n mod 256 :: acc)) with (be_value ([n mod 256] ++ acc)). rewrite be_app.
      change (be_value [n mod 256]) with (0 * 256 + n mod 256).
      pose proof (N.div_mod n 256 ltac:(lia)). nia.
    + rewrite Nat2N.inj_succ, N.pow_succ_r' in Hn. apply N.div_lt_upper_bound; lia.
Qed.

Lemma pow256_8 k : 256 ^ k = 2 ^ (8 * k).
Proof. rewrite N.pow_mul_r. reflexivity. Qed.

(* Bytes() then SetBytes gives the bitfield back *)
Theorem bf_roundtrip size n : n < 2 ^ size -> bf_of_bytes (bf_bytes size n) = n.
Proof.
  intros Hn. unfold bf_bytes. rewrite bf_bytes_aux_spec.
  - cbn. lia.
  - eapply N.lt_le_trans; [exact Hn|]. rewrite pow256_8. apply N.pow_le_mono_r; [lia|].
    rewrite Nat2N.inj_succ, N2Nat.id. pose proof (N.div_mod size 8 ltac:(lia)). pose proof (N.mod_lt size 8 ltac:(lia)). lia.
Qed.

Lemma bf_bytes_aux_len f : forall n acc, n < 256 ^ N.of_nat f ->
  (length (bf_bytes_aux f n acc) <= f + length acc)%nat.
Proof.
  induction f as [|f IH]; intros n acc Hn; cbn [bf_bytes_aux]; [lia|].
  destruct (n =? 0); [lia|]. specialize (IH (n / 256) (n mod 256 :: acc)). cbn [length] in IH.
  rewrite Nat2N.inj_succ, N.pow_succ_r' in Hn. specialize (IH ltac:(apply N.div_lt_upper_bound; lia)). lia.
Qed.

(* the minimal byte string is never longer than size/8 *)
Lemma bf_bytes_aux_min f : forall n acc k, n < 256 ^ N.of_nat k -> (k <= f)%nat ->
  (length (bf_bytes_aux f n acc) <= k + length acc)%nat.
Proof.
  induction f as [|f IH]; intros n acc k Hn Hk; cbn [bf_bytes_aux]; [lia|].
  destruct (N.eqb_spec n 0); [lia|].
  destruct k as [|k]; [cbn in Hn; lia|].
  specialize (IH (n / 256) (n mod 256 :: acc) k). cbn [length] in IH.
  rewrite Nat2N.inj_succ, N.pow_succ_r' in Hn. specialize (IH ltac:(apply N.div_lt_upper_bound; lia) ltac:(lia)). lia.
Qed.

Theorem bf_bytes_len size n : size mod 8 = 0 -> n < 2 ^ size -> blen (bf_bytes size n) <= size / 8.
Proof.
  intros Hm Hn. unfold bf_bytes, blen.
  pose proof (bf_bytes_aux_min (S (N.to_nat (size / 8))) n [] (N.to_nat (size / 8))) as H. cbn [length] in H.
  assert (Hs : size = 8 * (size / 8)) by (pose proof (N.div_mod size 8 ltac:(lia)); lia).
  specialize (H ltac:(rewrite N2Nat.id, pow256_8, <- Hs; exact Hn) ltac:(lia)). lia.
Qed.

(* ---- bitmap(): membership ---- *)
Lemma bitmap_fold cs : forall acc i,
  N.testbit (fold_left (fun a kv => bf_set a (fst kv)) cs acc) i = N.testbit acc i || existsb (N.eqb i) (map (@fst N bnode) cs).
Proof.
  induction cs as [|[k c] r IH]; intros acc i; cbn [fold_left map existsb fst]; [rewrite orb_false_r; reflexivity|].
  rewrite IH. unfold bf_set. rewrite N.lor_spec, N.pow2_bits_eqb.
  rewrite (N.eqb_sym k i). rewrite orb_assoc. reflexivity.
Qed.

Theorem bitmap_bit cs i : bf_bit (bitmap_of cs) i = existsb (N.eqb i) (map fst cs).
Proof. unfold bf_bit, bitmap_of. rewrite bitmap_fold. rewrite N.bits_0. reflexivity. Qed.

Lemma bitmap_lt cs size : Forall (fun k => k < size) (map fst cs) -> bitmap_of cs < 2 ^ size.
Proof.
  intros H. destruct (N.eq_dec (bitmap_of cs) 0) as [->|Hne]; [apply N.neq_0_lt_0, N.pow_nonzero; lia|].
  apply N.log2_lt_pow2; [lia|].
  pose proof (N.bit_log2 (bitmap_of cs) Hne) as Hb. fold (bf_bit (bitmap_of cs) (N.log2 (bitmap_of cs))) in Hb.
  rewrite bitmap_bit in Hb. apply existsb_exists in Hb. destruct Hb as (k & Hk & E). apply N.eqb_eq in E. subst k.
  rewrite Forall_forall in H. apply H. exact Hk.
Qed.

(* ---- OnesBefore: rank among the occupied buckets ---- *)
Lemma filter_below_succ keys j : NoDup keys ->
  length (filter (fun k => k <? j + 1) keys) =
  (length (filter (fun k => (k <? j)%N) keys) + (if existsb (N.eqb j) keys then 1 else 0))%nat.
Proof.
  induction 1 as [|k r Hk Hnd IH]; [reflexivity|]. cbn [filter existsb].
  destruct (N.ltb_spec k (j + 1)), (N.ltb_spec k j), (N.eqb_spec j k); cbn [length orb]; try lia.
  - (* k = j: it cannot occur again *)
    subst k. assert (E : existsb (N.eqb j) r = false).
    { destruct (existsb (N.eqb j) r) eqn:E; [|reflexivity]. apply existsb_exists in E. destruct E as (x & Hx & Ex).
      apply N.eqb_eq in Ex. subst x. contradiction. }
    rewrite E in IH. lia.
Qed.

Theorem ones_before_rank cs i : NoDup (map fst cs) ->
  bf_ones_before (bitmap_of cs) i = N.of_nat (length (filter (fun k => k <? i) (map fst cs))).
Proof.
  intros Hnd. unfold bf_ones_before.
  replace (filter (fun k => k <? i) (map fst cs)) with (filter (fun k => k <? N.of_nat (N.to_nat i)) (map fst cs)) by (rewrite N2Nat.id; reflexivity).
  generalize (N.to_nat i) as n. clear i.
  induction n as [|n IH]; cbn [popcount_below].
  - replace (filter (fun k => k <? N.of_nat 0) (map fst cs)) with (@nil N); [reflexivity|].
    symmetry. clear Hnd. induction (map fst cs) as [|k r IHr]; [reflexivity|]. cbn [filter]. change (N.of_nat 0) with 0.
    destruct (N.ltb_spec k 0); [lia|exact IHr].
  - rewrite IH. fold (bf_bit (bitmap_of cs) (N.of_nat n)). rewrite bitmap_bit.
    rewrite Nat2N.inj_succ, <- N.add_1_r, (filter_below_succ _ _ Hnd).
    destruct (existsb (N.eqb (N.of_nat n)) (map fst cs)); lia.
Qed.
