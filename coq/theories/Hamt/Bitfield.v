(* go-bitfield as arithmetic: a bitfield of `size` bits is a number below 2^size; Bytes() is its
   big-endian form without leading zero bytes, SetBytes reads it back (right aligned). *)
From UV Require Export Base.Prelude.
Local Open Scope N_scope.

Definition bf_of_bytes (bs : bytes) : N := fold_left (fun acc b => acc * 256 + b) bs 0.

(* minimal big-endian bytes; 0 is the empty string *)
Fixpoint bf_bytes_aux (fuel : nat) (n : N) (acc : bytes) : bytes :=
  match fuel with
  | O => acc
  | S f => if n =? 0 then acc else bf_bytes_aux f (n / 256) (n mod 256 :: acc)
  end.
Definition bf_bytes (size : N) (n : N) : bytes := bf_bytes_aux (S (N.to_nat (size / 8))) n [].

Definition bf_bit (n : N) (i : N) : bool := N.testbit n i.

(* OnesBefore(i): number of set bits strictly below i *)
Fixpoint popcount_below (n : N) (i : nat) : N :=
  match i with
  | O => 0
  | S j => (if N.testbit n (N.of_nat j) then 1 else 0) + popcount_below n j
  end.
Definition bf_ones_before (n : N) (i : N) : N := popcount_below n (N.to_nat i).

Definition bf_set (n : N) (i : N) : N := N.lor n (2 ^ i).
