(* Encoded length of a dag-pb block as written by go-codec-dagpb (links in stored order;
   Hash always, Name and Tsize when present; Data when present), and CID byte lengths. *)
From UV Require Export Blocks.Blk Base.Varint.
Local Open Scope N_scope.

Definition sov (v : N) : N := N.of_nat (length (enc_varint v)).   (* size of varint *)
Definition blen (b : bytes) : N := N.of_nat (length b).

(* CIDv1 + sha2-256 = 36 bytes for everything the builders store *)
Definition cid_len (b : blk) : N := match b with Ext _ n => n | _ => 36 end.

Definition u64 (z : Z) : N := Z.to_N (z mod 18446744073709551616).

Definition link_len (l : plink) : N :=
  match l with
  | PLink name tsize t =>
    (1 + sov (cid_len t) + cid_len t)
    + match name with Some n => 1 + sov (blen n) + blen n | None => 0 end
    + match tsize with Some s => 1 + sov (u64 s) | None => 0 end
  end.

Definition pb_len (data : option bytes) (links : list plink) : N :=
  fold_right (fun l acc => 1 + sov (link_len l) + link_len l + acc) 0 links
  + match data with Some d => 1 + sov (blen d) + blen d | None => 0 end.

Definition enc_len (b : blk) : N :=
  match b with
  | Raw c => blen c
  | Pb d ls => pb_len d ls
  | Ext _ _ => 0
  end.
