From UV Require Import Blocks.Blk.

Lemma opt_eqb_bytes_eq a b : opt_eqb bytes_eqb a b = true -> a = b.
Proof. destruct a, b; cbn; try discriminate; auto. intros H. destruct (bytes_eqb_spec b0 b); congruence. Qed.
Lemma opt_eqb_Z_eq a b : opt_eqb Z.eqb a b = true -> a = b.
Proof. destruct a, b; cbn; try discriminate; auto. intros H. apply Z.eqb_eq in H. congruence. Qed.

Lemma blk_eqb_eq a : forall b, blk_eqb a b = true -> a = b.
Proof.
  induction a as [c|i n|d ls IH] using blk_ind'; intros b H; destruct b as [c'|d' ls'|i' n']; cbn in H; try discriminate.
  - destruct (bytes_eqb_spec c c'); congruence.
  - apply andb_prop in H. destruct H as [H1 H2]. apply N.eqb_eq in H1. apply N.eqb_eq in H2. congruence.
  - apply andb_prop in H. destruct H as [Hd Hl]. apply opt_eqb_bytes_eq in Hd. subst d'. f_equal.
    revert ls' Hl. induction IH as [|[n s t] r Ht _ IHr]; intros [|[n' s' t'] r'] Hl; try discriminate; [reflexivity|].
    apply andb_prop in Hl. destruct Hl as [Hl Hr]. apply andb_prop in Hl. destruct Hl as [Hl Htt].
    apply andb_prop in Hl. destruct Hl as [Hn Hs].
    apply opt_eqb_bytes_eq in Hn. apply opt_eqb_Z_eq in Hs. cbn [l_target] in Ht. apply Ht in Htt. subst.
    f_equal. apply IHr. exact Hr.
Qed.

Lemma opt_eqb_bytes_refl a : opt_eqb bytes_eqb a a = true.
Proof. destruct a; cbn; auto using bytes_eqb_refl. Qed.
Lemma opt_eqb_Z_refl a : opt_eqb Z.eqb a a = true.
Proof. destruct a; cbn; auto using Z.eqb_refl. Qed.

Lemma blk_eqb_refl a : blk_eqb a a = true.
Proof.
  induction a as [c|i n|d ls IH] using blk_ind'; cbn.
  - apply bytes_eqb_refl.
  - rewrite !N.eqb_refl. reflexivity.
  - rewrite opt_eqb_bytes_refl. cbn.
    induction IH as [|[n s t] r Ht _ IHr]; [reflexivity|].
    rewrite opt_eqb_bytes_refl, opt_eqb_Z_refl. cbn [l_target] in Ht. rewrite Ht, IHr. reflexivity.
Qed.
