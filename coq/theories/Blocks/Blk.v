(* The block universe.  Content addressing is structural: a link *is* its target
   (collision-freeness of SHA-256 is in the trusted base). *)
From UV Require Export Base.Prelude.

Inductive blk :=
| Raw (content : bytes)                           (* raw-codec block *)
| Pb  (data : option bytes) (links : list plink)  (* dag-pb block *)
| Ext (id : N) (cidlen : N)                       (* a target the operation never opens (directory entries); cidlen = byte length of its CID *)
with plink :=
| PLink (name : option bytes) (tsize : option Z) (target : blk).

Definition l_name (l : plink) := match l with PLink n _ _ => n end.
Definition l_tsize (l : plink) := match l with PLink _ s _ => s end.
Definition l_target (l : plink) := match l with PLink _ _ t => t end.

Section BlkInd.
  Variable P : blk -> Prop.
  Hypothesis HRaw : forall c, P (Raw c).
  Hypothesis HExt : forall i n, P (Ext i n).
  Hypothesis HPb : forall d ls, Forall (fun l => P (l_target l)) ls -> P (Pb d ls).
  Fixpoint blk_ind' (b : blk) : P b :=
    match b with
    | Raw c => HRaw c
    | Ext i n => HExt i n
    | Pb d ls =>
      HPb d ls ((fix go (ls : list plink) : Forall (fun l => P (l_target l)) ls :=
                   match ls with
                   | [] => Forall_nil _
                   | l :: r => Forall_cons l (match l return P (l_target l) with PLink _ _ t => blk_ind' t end) (go r)
                   end) ls)
    end.
End BlkInd.

Fixpoint blk_eqb (a b : blk) : bool :=
  match a, b with
  | Raw x, Raw y => bytes_eqb x y
  | Ext x n, Ext y m => N.eqb x y && N.eqb n m
  | Pb d ls, Pb d' ls' =>
    opt_eqb bytes_eqb d d' &&
    (fix go (x y : list plink) : bool :=
       match x, y with
       | [], [] => true
       | PLink n s t :: x', PLink n' s' t' :: y' =>
         opt_eqb bytes_eqb n n' && opt_eqb Z.eqb s s' && blk_eqb t t' && go x' y'
       | _, _ => false
       end) ls ls'
  | _, _ => false
  end.
