(* protowire: ConsumeTag / ConsumeBytes / ConsumeFixed32 / ConsumeFieldValue, AppendTag / AppendBytes / AppendFixed32 *)
From UV Require Export Base.Varint.
Local Open Scope N_scope.

Definition WT_Varint : N := 0.
Definition WT_Fixed64 : N := 1.
Definition WT_Bytes : N := 2.
Definition WT_StartGroup : N := 3.
Definition WT_EndGroup : N := 4.
Definition WT_Fixed32 : N := 5.

(* ConsumeTag: varint; number = v >> 3 must be in 1 .. MaxInt32, type = v & 7 *)
Definition consume_tag (bs : bytes) : option (N * N * bytes) :=
  match dec_varint bs with
  | None => None
  | Some (v, r) =>
    let num := v / 8 in
    if (2147483647 <? num) || (num <? 1) then None else Some (num, v mod 8, r)
  end.

Definition take_n (m : N) (bs : bytes) : option (bytes * bytes) :=
  if N.of_nat (length bs) <? m then None
  else Some (firstn (N.to_nat m) bs, skipn (N.to_nat m) bs).

(* ConsumeBytes: length-prefixed *)
Definition consume_bytes (bs : bytes) : option (bytes * bytes) :=
  match dec_varint bs with
  | None => None
  | Some (m, r) => take_n m r
  end.

Definition consume_fixed32 (bs : bytes) : option (N * bytes) :=
  match bs with
  | a :: b :: c :: d :: r => Some (a + 256 * b + 65536 * c + 16777216 * d, r)
  | _ => None
  end.

Definition consume_fixed64 (bs : bytes) : option (bytes * bytes) := take_n 8 bs.

(* ConsumeFieldValue with the recursion limit of protowire (10000); fuel bounds the group loop by the input length *)
Fixpoint consume_field_value (fuel : nat) (depth : Z) (num typ : N) (bs : bytes) : option bytes :=
  match fuel with
  | O => None
  | S f =>
    if typ =? WT_Varint then option_map snd (dec_varint bs)
    else if typ =? WT_Fixed32 then option_map snd (consume_fixed32 bs)
    else if typ =? WT_Fixed64 then option_map snd (consume_fixed64 bs)
    else if typ =? WT_Bytes then option_map snd (consume_bytes bs)
    else if typ =? WT_StartGroup then
      if (depth <? 0)%Z then None else
      (fix group (g : nat) (bs : bytes) : option bytes :=
         match g with
         | O => None
         | S g' =>
           match consume_tag bs with
           | None => None
           | Some (num2, typ2, r) =>
             if typ2 =? WT_EndGroup then (if num =? num2 then Some r else None)
             else match consume_field_value f (depth - 1)%Z num2 typ2 r with
                  | None => None
                  | Some r' => group g' r'
                  end
           end
         end) (S (length bs)) bs
    else None
  end.

Definition skip_field (num typ : N) (bs : bytes) : option bytes :=
  consume_field_value (S (length bs)) 10000%Z num typ bs.

(* encoders *)
Definition enc_tag (num typ : N) : bytes := enc_varint (num * 8 + typ).
Definition enc_bytes (b : bytes) : bytes := enc_varint (N.of_nat (length b)) ++ b.
Definition enc_fixed32 (v : N) : bytes :=
  [v mod 256; (v / 256) mod 256; (v / 65536) mod 256; (v / 16777216) mod 256].
Definition size_varint (v : N) : N := N.of_nat (length (enc_varint v)).
