From UV Require Import Base.Varint.
From Coq Require Import ZifyN ZifyNat ZifyBool.
Local Open Scope N_scope.
Ltac Zify.zify_post_hook ::= Z.div_mod_to_equations.

Lemma dec_enc_aux (f : nat) : forall (s acc v : N) (r : bytes),
  (1 <= f <= 10)%nat -> s = 7 * (10 - N.of_nat f) -> v < 2 ^ (64 - s) ->
  dec_varint_aux f s acc (enc_varint_aux f v ++ r) = Some (acc + v * 2 ^ s, r).
Proof.
  induction f as [|f IH]; intros s acc v r Hf Hs Hv; [lia|].
  cbn [enc_varint_aux dec_varint_aux].
  destruct f as [|f'].
  - (* tenth byte *)
    assert (s = 63) as -> by lia. clear Hs. change (2 ^ (64 - 63)) with 2 in Hv.
    destruct (N.ltb_spec v 128); [|lia]. cbn [app].
    destruct (N.ltb_spec v 2); [reflexivity|lia].
  - destruct (N.ltb_spec v 128) as [Hlt|Hge]; cbn [app].
    + destruct (N.ltb_spec v 128); [reflexivity|lia].
    + destruct (N.ltb_spec (v mod 128 + 128) 128); [lia|].
      rewrite IH; try lia.
      * f_equal. f_equal.
        replace (v mod 128 + 128 - 128) with (v mod 128) by lia.
        rewrite N.pow_add_r. change (2 ^ 7) with 128.
        pose proof (N.div_mod v 128 ltac:(lia)) as Hd.
        set (q := v / 128) in *. set (m := v mod 128) in *. set (p := 2 ^ s) in *. nia.
      * assert (Hs7 : 64 - s = 64 - (s + 7) + 7) by lia.
        rewrite Hs7, N.pow_add_r in Hv. change (2 ^ 7) with 128 in Hv.
        apply N.div_lt_upper_bound; lia.
Qed.

Theorem dec_enc_varint (v : N) (r : bytes) : v < 2 ^ 64 -> dec_varint (enc_varint v ++ r) = Some (v, r).
Proof.
  intros Hv. unfold dec_varint, enc_varint.
  rewrite dec_enc_aux; try lia.
  - f_equal. f_equal. change (2 ^ 0) with 1. lia.
  - exact Hv.
Qed.

Lemma enc_varint_aux_nonempty f v : (1 <= f)%nat -> enc_varint_aux f v <> [].
Proof. destruct f; [lia|]. cbn. destruct (v <? 128); discriminate. Qed.

Lemma enc_varint_aux_wf f v : wf_bytes (enc_varint_aux f v) = true.
Proof.
  revert v; induction f as [|f IH]; intros v; cbn; [reflexivity|].
  destruct (N.ltb_spec v 128); cbn.
  - destruct (N.ltb_spec v 256); [reflexivity|lia].
  - rewrite IH. destruct (N.ltb_spec (v mod 128 + 128) 256); [reflexivity|].
    pose proof (N.mod_upper_bound v 128 ltac:(lia)). lia.
Qed.

(* decoding always consumes at least one byte and returns a suffix *)
Lemma dec_varint_aux_suffix f : forall s acc bs v r,
  dec_varint_aux f s acc bs = Some (v, r) -> exists p, bs = p ++ r /\ (1 <= length p <= f)%nat.
Proof.
  induction f as [|f IH]; intros s acc bs v r H; cbn in H; [discriminate|].
  destruct bs as [|b bs]; [discriminate|].
  destruct f as [|f'].
  - destruct (b <? 2); [|discriminate]. inversion H; subst. exists [b]. cbn. split; [reflexivity|lia].
  - destruct (b <? 128).
    + inversion H; subst. exists [b]. cbn. split; [reflexivity|lia].
    + apply IH in H. destruct H as (p & -> & Hl). exists (b :: p). cbn. split; [reflexivity|lia].
Qed.

Lemma dec_varint_suffix bs v r : dec_varint bs = Some (v, r) -> exists p, bs = p ++ r /\ (1 <= length p <= 10)%nat.
Proof. apply dec_varint_aux_suffix. Qed.

Lemma dec_varint_lt bs v r : dec_varint bs = Some (v, r) -> (length r < length bs)%nat.
Proof.
  intros H. apply dec_varint_suffix in H. destruct H as (p & -> & Hl). rewrite app_length. lia.
Qed.

(* ---- non-minimal (padded) varints: any encoding a conformant encoder may emit is the n-byte form for some n ---- *)
(* exactly n bytes: n-1 continuation bytes carrying 7 bits each, then the rest (which must fit 7 bits) *)
Fixpoint enc_varint_n (n : nat) (v : N) : bytes :=
  match n with
  | O => []
  | S O => [v]
  | S n' => (v mod 128 + 128) :: enc_varint_n n' (v / 128)
  end.

Lemma enc_varint_n_SS n v : enc_varint_n (S (S n)) v = (v mod 128 + 128) :: enc_varint_n (S n) (v / 128).
Proof. reflexivity. Qed.

Lemma dec_enc_n_aux (n : nat) : forall (f : nat) (s acc v : N) (r : bytes),
  (1 <= n <= f)%nat -> (f <= 10)%nat -> s = 7 * (10 - N.of_nat f) -> v < 2 ^ (7 * N.of_nat n) -> v < 2 ^ (64 - s) ->
  dec_varint_aux f s acc (enc_varint_n n v ++ r) = Some (acc + v * 2 ^ s, r).
Proof.
  induction n as [|n IH]; intros f s acc v r Hn Hf Hs Hv Hv64; [lia|].
  destruct f as [|f]; [lia|]. destruct n as [|n].
  - (* the last byte *)
    cbn [enc_varint_n app dec_varint_aux]. change (2 ^ (7 * N.of_nat 1)) with 128 in Hv.
    destruct f as [|f'].
    + assert (s = 63) as -> by lia. change (2 ^ (64 - 63)) with 2 in Hv64. destruct (N.ltb_spec v 2); [reflexivity|lia].
    + destruct (N.ltb_spec v 128); [reflexivity|lia].
  - rewrite enc_varint_n_SS. cbn [app dec_varint_aux].
    destruct f as [|f']; [lia|].
    destruct (N.ltb_spec (v mod 128 + 128) 128); [lia|].
    assert (Hp : 2 ^ (7 * N.of_nat (S (S n))) = 128 * 2 ^ (7 * N.of_nat (S n))).
    { rewrite (Nat2N.inj_succ (S n)), N.mul_succ_r, N.pow_add_r. change (2 ^ 7) with 128. lia. }
    rewrite IH; try lia.
    + f_equal. f_equal.
      replace (v mod 128 + 128 - 128) with (v mod 128) by lia.
      rewrite N.pow_add_r. change (2 ^ 7) with 128.
      pose proof (N.div_mod v 128 ltac:(lia)) as Hd.
      set (q := v / 128) in *. set (m := v mod 128) in *. set (p := 2 ^ s) in *. nia.
    + assert (Hs7 : 64 - s = 64 - (s + 7) + 7) by lia.
      rewrite Hs7, N.pow_add_r in Hv64. change (2 ^ 7) with 128 in Hv64.
      apply N.div_lt_upper_bound; lia.
Qed.

(* every n-byte form of v (1 <= n <= 10, v fits n*7 bits and 64 bits) decodes to v, whatever follows *)
Theorem dec_padded_varint (n : nat) (v : N) (r : bytes) :
  (1 <= n <= 10)%nat -> v < 2 ^ (7 * N.of_nat n) -> v < 2 ^ 64 -> dec_varint (enc_varint_n n v ++ r) = Some (v, r).
Proof.
  intros Hn Hv Hv64. unfold dec_varint. rewrite (dec_enc_n_aux n 10 0 0 v r); try lia.
  - f_equal. f_equal. change (2 ^ 0) with 1. lia.
  - exact Hv64.
Qed.

(* the minimal encoding is one of them *)
Lemma enc_varint_is_some_n f : forall v, (1 <= f)%nat -> v < 2 ^ (7 * N.of_nat f) ->
  exists n, (1 <= n <= f)%nat /\ v < 2 ^ (7 * N.of_nat n) /\ enc_varint_aux f v = enc_varint_n n v.
Proof.
  induction f as [|f IH]; intros v Hf Hv; [lia|]. cbn [enc_varint_aux].
  destruct (N.ltb_spec v 128) as [Hlt|Hge]; [exists 1%nat; split; [lia|split; [exact Hlt|reflexivity]]|].
  destruct f as [|f']; [change (2 ^ (7 * N.of_nat 1)) with 128 in Hv; lia|].
  assert (Hp : forall k, 2 ^ (7 * N.of_nat (S k)) = 128 * 2 ^ (7 * N.of_nat k)).
  { intros k. rewrite Nat2N.inj_succ, N.mul_succ_r, N.pow_add_r. change (2 ^ 7) with 128. lia. }
  destruct (IH (v / 128) ltac:(lia) ltac:(apply N.div_lt_upper_bound; [lia|]; rewrite <- Hp; exact Hv)) as (n & Hn & Hvn & En).
  exists (S n). split; [lia|]. split.
  - rewrite Hp. pose proof (N.div_mod v 128 ltac:(lia)). pose proof (N.mod_lt v 128 ltac:(lia)). lia.
  - rewrite En. destruct n as [|n]; [lia|]. rewrite enc_varint_n_SS. reflexivity.
Qed.

Example padded_varint_example :
  enc_varint_n 3 300 = [172; 130; 0] /\ enc_varint 300 = [172; 2] /\ dec_varint ([172; 130; 0] ++ [7]) = Some (300, [7])
  /\ dec_varint (enc_varint_n 10 18446744073709551615) = Some (18446744073709551615, []).
Proof. repeat split; vm_compute; reflexivity. Qed.
