From UV Require Import Base.Varint.
From Coq Require Import ZifyN ZifyNat ZifyBool.
Local Open Scope N_scope.
Ltac Zify.zify_post_hook ::= Z.div_mod_to_equations.

Lemma dec_enc_aux (f : nat) : forall (s acc v : N) (r : bytes),
  (1 <= f <= 10)%nat -> s = 7 * (10 - N.of_nat f) -> v < 2 ^ (64 - s) ->
  dec_varint_aux f s acc (enc_varint_aux f v ++ r) = Some (acc + v * 2 ^ s, r).
Proof.
  induction f as [|f IH]; intros s acc v r Hf Hs Hv; [lia|].
  cbn [enc_varint_aux dec_varint_aux].
  destruct f as [|f'].
  - (* tenth byte *)
    assert (s = 63) as -> by lia. clear Hs. change (2 ^ (64 - 63)) with 2 in Hv.
    destruct (N.ltb_spec v 128); [|lia]. cbn [app].
    destruct (N.ltb_spec v 2); [reflexivity|lia].
  - destruct (N.ltb_spec v 128) as [Hlt|Hge]; cbn [app].
    + destruct (N.ltb_spec v 128); [reflexivity|lia].
    + destruct (N.ltb_spec (v mod 128 + 128) 128); [lia|].
      rewrite IH; try lia.
      * f_equal. f_equal.
        replace (v mod 128 + 128 - 128) with (v mod 128) by lia.
        rewrite N.pow_add_r. change (2 ^ 7) with 128.
        pose proof (N.div_mod v 128 ltac:(lia)) as Hd.
        set (q := v / 128) in *. set (m := v mod 128) in *. set (p := 2 ^ s) in *. nia.
      * assert (Hs7 : 64 - s = 64 - (s + 7) + 7) by lia.
        rewrite Hs7, N.pow_add_r in Hv. change (2 ^ 7) with 128 in Hv.
        apply N.div_lt_upper_bound; lia.
Qed.

Theorem dec_enc_varint (v : N) (r : bytes) : v < 2 ^ 64 -> dec_varint (enc_varint v ++ r) = Some (v, r).
Proof.
  intros Hv. unfold dec_varint, enc_varint.
  rewrite dec_enc_aux; try lia.
  - f_equal. f_equal. change (2 ^ 0) with 1. lia.
  - exact Hv.
Qed.

Lemma enc_varint_aux_nonempty f v : (1 <= f)%nat -> enc_varint_aux f v <> [].
Proof. destruct f; [lia|]. cbn. destruct (v <? 128); discriminate. Qed.

Lemma enc_varint_aux_wf f v : wf_bytes (enc_varint_aux f v) = true.
Proof.
  revert v; induction f as [|f IH]; intros v; cbn; [reflexivity|].
  destruct (N.ltb_spec v 128); cbn.
  - destruct (N.ltb_spec v 256); [reflexivity|lia].
  - rewrite IH. destruct (N.ltb_spec (v mod 128 + 128) 256); [reflexivity|].
    pose proof (N.mod_upper_bound v 128 ltac:(lia)). lia.
Qed.

(* decoding always consumes at least one byte and returns a suffix *)
Lemma dec_varint_aux_suffix f : forall s acc bs v r,
  dec_varint_aux f s acc bs = Some (v, r) -> exists p, bs = p ++ r /\ (1 <= length p <= f)%nat.
Proof.
  induction f as [|f IH]; intros s acc bs v r H; cbn in H; [discriminate|].
  destruct bs as [|b bs]; [discriminate|].
  destruct f as [|f'].
  - destruct (b <? 2); [|discriminate]. inversion H; subst. exists [b]. cbn. split; [reflexivity|lia].
  - destruct (b <? 128).
    + inversion H; subst. exists [b]. cbn. split; [reflexivity|lia].
    + apply IH in H. destruct H as (p & -> & Hl). exists (b :: p). cbn. split; [reflexivity|lia].
Qed.

Lemma dec_varint_suffix bs v r : dec_varint bs = Some (v, r) -> exists p, bs = p ++ r /\ (1 <= length p <= 10)%nat.
Proof. apply dec_varint_aux_suffix. Qed.

Lemma dec_varint_lt bs v r : dec_varint bs = Some (v, r) -> (length r < length bs)%nat.
Proof.
  intros H. apply dec_varint_suffix in H. destruct H as (p & -> & Hl). rewrite app_length. lia.
Qed.
