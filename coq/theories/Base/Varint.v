(* protowire varints (google.golang.org/protobuf/encoding/protowire): AppendVarint / ConsumeVarint / SizeVarint *)
From UV Require Export Base.Prelude.
Local Open Scope N_scope.

(* AppendVarint: minimal little-endian base-128 encoding of a uint64 *)
Fixpoint enc_varint_aux (fuel : nat) (v : N) : bytes :=
  match fuel with
  | O => []
  | S f => if v <? 128 then [v] else (v mod 128 + 128) :: enc_varint_aux f (v / 128)
  end.
Definition enc_varint (v : N) : bytes := enc_varint_aux 10 v.

(* ConsumeVarint: at most ten bytes, the tenth must be 0 or 1 (else overflow), truncation is an error *)
Fixpoint dec_varint_aux (fuel : nat) (shift acc : N) (bs : bytes) : option (N * bytes) :=
  match fuel with
  | O => None
  | S f =>
    match bs with
    | [] => None
    | b :: r =>
      match f with
      | O => if b <? 2 then Some (acc + b * 2 ^ shift, r) else None
      | S _ => if b <? 128 then Some (acc + b * 2 ^ shift, r)
               else dec_varint_aux f (shift + 7) (acc + (b - 128) * 2 ^ shift) r
      end
    end
  end.
Definition dec_varint (bs : bytes) : option (N * bytes) := dec_varint_aux 10 0 0 bs.

Definition wf_bytes (bs : bytes) : bool := forallb (fun b => b <? 256) bs.
