(* Common vocabulary of the go-unixfsnode model.  No proofs about the code here. *)
From Coq Require Export List NArith ZArith Bool Lia.
Export ListNotations.

Definition byte := N.
Definition bytes := list N.

(* Outcome classes compared with the implementation (error strings are never compared). *)
Inductive err :=
| ENotFound        (* schema.ErrNoSuchField *)
| ELoad (kind : N) (* error returned by the storage read opener; kind chosen by the fault plan *)
| EDecode          (* UnixFS Data / dag-pb decoding error *)
| EInvalid         (* invalid shard parameters, invalid link name, wrong node type, ... *)
| EOverread        (* ipld.ErrIteratorOverread *)
| EEOF             (* io.EOF *)
| ESeek            (* Seek to a negative position *)
| EStore (kind : N)(* error returned by the storage write opener / committer *)
| EUnmodelled      (* the model does not cover this path (reported, never compared) *)
| EOther.

Inductive res (A : Type) :=
| Ok (a : A)
| Err (e : err)
| Panic.           (* produced only where the Go code can panic *)
Arguments Ok {A} a.
Arguments Err {A} e.
Arguments Panic {A}.

Definition bind {A B} (r : res A) (f : A -> res B) : res B :=
  match r with Ok a => f a | Err e => Err e | Panic => Panic end.
Notation "x <- r ;; k" := (bind r (fun x => k)) (at level 61, r at next level, right associativity).

Definition err_eqb (a b : err) : bool :=
  match a, b with
  | ENotFound, ENotFound | EDecode, EDecode | EInvalid, EInvalid | EOverread, EOverread
  | EEOF, EEOF | ESeek, ESeek | EOther, EOther | EUnmodelled, EUnmodelled => true
  | ELoad x, ELoad y => N.eqb x y
  | EStore x, EStore y => N.eqb x y
  | _, _ => false
  end.

Fixpoint bytes_eqb (a b : bytes) : bool :=
  match a, b with
  | [], [] => true
  | x :: a', y :: b' => N.eqb x y && bytes_eqb a' b'
  | _, _ => false
  end.

Lemma bytes_eqb_spec a b : reflect (a = b) (bytes_eqb a b).
Proof.
  revert b; induction a as [|x a IH]; intros [|y b]; cbn; try (constructor; congruence).
  destruct (N.eqb_spec x y) as [->|Hn]; cbn.
  - destruct (IH b) as [->|Hn]; constructor; congruence.
  - constructor; congruence.
Qed.

Lemma bytes_eqb_refl a : bytes_eqb a a = true.
Proof. destruct (bytes_eqb_spec a a); congruence. Qed.

Definition opt_eqb {A} (eqb : A -> A -> bool) (a b : option A) : bool :=
  match a, b with
  | None, None => true
  | Some x, Some y => eqb x y
  | _, _ => false
  end.

Fixpoint list_eqb {A} (eqb : A -> A -> bool) (a b : list A) : bool :=
  match a, b with
  | [], [] => true
  | x :: a', y :: b' => eqb x y && list_eqb eqb a' b'
  | _, _ => false
  end.

Definition res_eqb {A} (eqb : A -> A -> bool) (a b : res A) : bool :=
  match a, b with
  | Ok x, Ok y => eqb x y
  | Err x, Err y => err_eqb x y
  | Panic, Panic => true
  | _, _ => false
  end.

(* indices of the cases on which a boolean agreement test fails *)
Fixpoint mism_from {A} (ok : A -> bool) (i : N) (cs : list A) : list N :=
  match cs with
  | [] => []
  | c :: r => if ok c then mism_from ok (N.succ i) r else i :: mism_from ok (N.succ i) r
  end.
Definition mismatches {A} (ok : A -> bool) (cs : list A) : list N := mism_from ok 0%N cs.
