(* reification.go: doReify over the two dispatch tables regenerated from the source (Gen/ReifyTables.v) *)
From UV Require Export Gen.ReifyTables File.Reader Hamt.Read.
Local Open Scope N_scope.

(* any IPLD node handed to Reify: a dag-pb block, or something else *)
Inductive anode := ANotPb (id : N) | APb (b : blk).

(* what comes back *)
Inductive rnode :=
| RUnchanged            (* the node itself *)
| RLinkMap              (* PathedPBNode: name-addressable link map *)
| RFile                 (* bytes-kind file node *)
| RDir                  (* UnixFSBasicDir *)
| RShard.               (* UnixFSHAMTShard *)

Inductive kind := KSame | KMap | KBytes.
Definition kind_of (r : rnode) : kind :=
  match r with RUnchanged => KSame | RLinkMap | RDir | RShard => KMap | RFile => KBytes end.

Fixpoint table_get (t : N) (tbl : list (N * reifier)) : option reifier :=
  match tbl with
  | [] => None
  | (k, r) :: rest => if t =? k then Some r else table_get t rest
  end.

Section Reify.
  Variable fault : blk -> option err.

  (* file.NewUnixFSFile on a dag-pb substrate *)
  Definition new_file (b : blk) : res rnode :=
    match b with
    | Pb d [] => match wrapped_bytes d with Ok _ => Ok RFile | Err e => Err e | Panic => Panic end
    | Pb _ _ => Ok RFile
    | _ => Ok RFile
    end.

  Definition status_res (st : status) : res rnode :=
    match st with StEOF | StOk => Ok RFile | StErr e => Err e end.

  Definition run_reifier (r : reifier) (b : blk) (m : udata) : res rnode :=
    match r with
    | R_defaultUnixFSReifier => Ok RLinkMap
    | R_unixFSFileReifier => new_file b
    | R_unixFSFileReifierWithPreload =>
      f <- new_file b ;;
      (* io.Copy(io.Discard, reader): the whole file is read once *)
      let '(_, _, st) := drain_all (stream fault b 0) [] [] in status_res st
    | R_directory_NewUnixFSBasicDir =>
      if d_type m =? Data_Directory then Ok RDir else Err EInvalid
    | R_hamt_NewUnixFSHAMTShard =>
      match mk_shard_of b with Ok _ => Ok RShard | Err e => Err e | Panic => Panic end
    | R_hamt_NewUnixFSHAMTShardWithPreload =>
      match mk_shard_of b with
      | Ok _ => match fst (shard_length fault b) with Ok _ => Ok RShard | Err e => Err e | Panic => Panic end
      | Err e => Err e
      | Panic => Panic
      end
    end.

  Definition do_reify (lazy : bool) (n : anode) : res rnode :=
    match n with
    | ANotPb _ => Ok RUnchanged
    | APb (Pb None _) => Ok RLinkMap                      (* no Data: not UnixFS *)
    | APb (Pb (Some d) ls) =>
      match decode_data d with
      | Ok m =>
        match table_get (d_type m) (if lazy then lazyReifyFuncs else reifyFuncs) with
        | None => Err EOther                               (* "no reification for this UnixFS node type" *)
        | Some r => run_reifier r (Pb (Some d) ls) m
        end
      | _ => Ok RLinkMap                                   (* undecodable Data: not UnixFS *)
      end
    | APb _ => Ok RUnchanged                               (* raw bytes are not a dag-pb node *)
    end.

  Definition reify := do_reify Reify_lazy.
  Definition reify_preload := do_reify nonLazyReify_lazy.

  (* the substrate of whatever was built is the node that was handed in *)
  Definition substrate_of (n : anode) (r : rnode) : anode := n.
End Reify.
