From UV Require Import Reify.Model Codec.NoPanic.
Local Open Scope N_scope.

(* the tables as the property states them: file/raw -> bytes, directory/shard -> map,
   metadata/symlink -> link map, anything else -> error; computed on the regenerated tables *)
Definition expected_class (t : N) : option kind :=
  if (t =? Data_File) || (t =? Data_Raw) then Some KBytes
  else if (t =? Data_Directory) || (t =? Data_HAMTShard) then Some KMap
  else if (t =? Data_Metadata) || (t =? Data_Symlink) then Some KMap
  else None.

Definition reifier_kind (r : reifier) : kind :=
  match r with
  | R_defaultUnixFSReifier | R_directory_NewUnixFSBasicDir | R_hamt_NewUnixFSHAMTShard | R_hamt_NewUnixFSHAMTShardWithPreload => KMap
  | R_unixFSFileReifier | R_unixFSFileReifierWithPreload => KBytes
  end.

Definition kind_eqb (a b : kind) : bool :=
  match a, b with KSame, KSame | KMap, KMap | KBytes, KBytes => true | _, _ => false end.

Lemma table_get_keys t tbl : (forall k, In k (map fst tbl) -> t <> k) -> table_get t tbl = None.
Proof.
  induction tbl as [|[k r] rest IH]; intros H; [reflexivity|]. cbn.
  destruct (N.eqb_spec t k) as [->|_]; [exfalso; apply (H k); [left; reflexivity|reflexivity]|].
  apply IH. intros k' Hk. apply H. right. exact Hk.
Qed.

(* both tables dispatch exactly the six known types, each to a constructor of the right kind *)
Lemma tables_ok : forall tbl, tbl = lazyReifyFuncs \/ tbl = reifyFuncs ->
  forall t, match table_get t tbl with
            | Some r => expected_class t = Some (reifier_kind r)
            | None => expected_class t = None
            end.
Proof.
  intros tbl Htbl t.
  destruct (t =? 0) eqn:E0; [apply N.eqb_eq in E0; subst; destruct Htbl; subst; reflexivity|].
  destruct (t =? 1) eqn:E1; [apply N.eqb_eq in E1; subst; destruct Htbl; subst; reflexivity|].
  destruct (t =? 2) eqn:E2; [apply N.eqb_eq in E2; subst; destruct Htbl; subst; reflexivity|].
  destruct (t =? 3) eqn:E3; [apply N.eqb_eq in E3; subst; destruct Htbl; subst; reflexivity|].
  destruct (t =? 4) eqn:E4; [apply N.eqb_eq in E4; subst; destruct Htbl; subst; reflexivity|].
  destruct (t =? 5) eqn:E5; [apply N.eqb_eq in E5; subst; destruct Htbl; subst; reflexivity|].
  apply N.eqb_neq in E0, E1, E2, E3, E4, E5.
  rewrite table_get_keys.
  - unfold expected_class.
    change Data_File with 2. change Data_Raw with 0. change Data_Directory with 1. change Data_HAMTShard with 5.
    change Data_Metadata with 3. change Data_Symlink with 4.
    rewrite (proj2 (N.eqb_neq t 0)), (proj2 (N.eqb_neq t 1)), (proj2 (N.eqb_neq t 2)), (proj2 (N.eqb_neq t 3)),
            (proj2 (N.eqb_neq t 4)), (proj2 (N.eqb_neq t 5)) by assumption. reflexivity.
  - intros k Hk. destruct Htbl; subst tbl; cbn in Hk; intuition congruence.
Qed.

Lemma mk_shard_of_no_panic b : mk_shard_of b <> Panic.
Proof.
  destruct b as [c|[d|] ls|i n]; cbn; try discriminate.
  pose proof (decode_data_no_panic d) as Hd. destruct (decode_data d) as [m| |]; [|discriminate|congruence].
  repeat match goal with
  | |- context [if ?c then _ else _] => destruct c
  | |- context [match ?c with _ => _ end] => destruct c
  end; discriminate.
Qed.

Definition length_links (fault : blk -> option err) (rec : blk -> option N -> res N * list blk) (sh : shard) :=
  fix go (ls : list plink) (total : N) : res N * list blk :=
    match ls with
    | [] => (Ok total, [])
    | l :: r =>
      match is_value_link (sh_pad sh) l with
      | Err e => (Err e, [])
      | Panic => (Panic, [])
      | Ok true => go r (total + 1)
      | Ok false =>
        match l with
        | PLink _ _ t =>
          match fault t with
          | Some e => (Err e, [t])
          | None =>
            match rec t (Some (sh_fanout sh)) with
            | (Ok n, tr) => let '(res, tr') := go r (total + n) in (res, t :: tr ++ tr')
            | (Err e, tr) => (Err e, t :: tr)
            | (Panic, tr) => (Panic, t :: tr)
            end
          end
        end
      end
    end.

Lemma length_blk_pb fault d ls pf :
  length_blk fault (Pb d ls) pf =
  match mk_shard_of (Pb d ls) with
  | Err e => (Err e, [])
  | Panic => (Panic, [])
  | Ok sh =>
    if match pf with Some pf0 => negb (sh_fanout sh =? pf0) | None => false end then (Err EInvalid, [])
    else length_links fault (length_blk fault) sh ls 0
  end.
Proof. reflexivity. Qed.

Lemma length_links_no_panic fault rec sh ls :
  Forall (fun l => forall pf, fst (rec (l_target l) pf) <> Panic) ls ->
  forall total, fst (length_links fault rec sh ls total) <> Panic.
Proof.
  induction 1 as [|[nm ts t] r Ht _ IHr]; intros total; [cbn; discriminate|].
  cbn [length_links]. unfold is_value_link. cbn [l_name].
  destruct nm as [nm|]; [|cbn; discriminate].
  destruct (length nm <? sh_pad sh)%nat; [cbn; discriminate|].
  destruct (negb (length nm =? sh_pad sh)%nat); [apply IHr|].
  destruct (fault t); [cbn; discriminate|].
  cbn [l_target] in Ht. specialize (Ht (Some (sh_fanout sh))).
  destruct (rec t (Some (sh_fanout sh))) as [[n0| |] tr]; cbn [fst] in *; try (cbn; discriminate); try congruence.
  specialize (IHr (total + n0)). destruct (length_links fault rec sh r (total + n0)) as [res tr']. cbn [fst] in *. exact IHr.
Qed.

Lemma length_no_panic fault b : forall pf, fst (length_blk fault b pf) <> Panic.
Proof.
  induction b as [c|i n|d ls IH] using blk_ind'; intros pf.
  - cbn. discriminate.
  - cbn. discriminate.
  - rewrite length_blk_pb. pose proof (mk_shard_of_no_panic (Pb d ls)) as Hn.
    destruct (mk_shard_of (Pb d ls)) as [sh| |]; [|cbn; discriminate|congruence].
    destruct (match pf with Some pf0 => negb (sh_fanout sh =? pf0) | None => false end); [cbn; discriminate|].
    apply length_links_no_panic. exact IH.
Qed.

Lemma run_reifier_kind fault r b m x : run_reifier fault r b m = Ok x -> kind_of x = reifier_kind r.
Proof.
  destruct r; cbn.
  - intros [= <-]. reflexivity.
  - destruct (d_type m =? Data_Directory); [intros [= <-]; reflexivity|discriminate].
  - destruct (mk_shard_of b); [intros [= <-]; reflexivity|discriminate|discriminate].
  - destruct (mk_shard_of b); try discriminate.
    destruct (fst (shard_length fault b)); [intros [= <-]; reflexivity|discriminate|discriminate].
  - unfold new_file. destruct b as [c|d [|l ls]|i n]; try (intros [= <-]; reflexivity).
    destruct (wrapped_bytes d); [intros [= <-]; reflexivity|discriminate|discriminate].
  - unfold new_file. destruct b as [c|d [|l ls]|i n]; cbn [bind].
    + destruct (drain_all _ _ _) as [[? ?] st]. destruct st; cbn; try discriminate; intros [= <-]; reflexivity.
    + destruct (wrapped_bytes d); cbn [bind]; try discriminate.
      destruct (drain_all _ _ _) as [[? ?] st]. destruct st; cbn; try discriminate; intros [= <-]; reflexivity.
    + destruct (drain_all _ _ _) as [[? ?] st]. destruct st; cbn; try discriminate; intros [= <-]; reflexivity.
    + destruct (drain_all _ _ _) as [[? ?] st]. destruct st; cbn; try discriminate; intros [= <-]; reflexivity.
Qed.

(* C14: reification is total and type-directed, for both tables, whatever storage does *)
Theorem reify_classification fault lazy n :
  match n with
  | ANotPb _ | APb (Raw _) | APb (Ext _ _) => do_reify fault lazy n = Ok RUnchanged
  | APb (Pb None _) => do_reify fault lazy n = Ok RLinkMap
  | APb (Pb (Some d) ls) =>
    match decode_data d with
    | Ok m =>
      match expected_class (d_type m) with
      | None => do_reify fault lazy n = Err EOther
      | Some k =>
        (* a node of the kind the type calls for, or an error (invalid shard parameters, a file block that cannot be read) *)
        match do_reify fault lazy n with
        | Ok x => kind_of x = k
        | Err _ => True
        | Panic => False
        end
      end
    | _ => do_reify fault lazy n = Ok RLinkMap
    end
  end.
Proof.
  destruct n as [id|[c|[d|] ls|i k]]; try reflexivity.
  cbn [do_reify]. destruct (decode_data d) as [m|e|] eqn:Ed; try reflexivity.
  pose proof (tables_ok (if lazy then lazyReifyFuncs else reifyFuncs) ltac:(destruct lazy; auto) (d_type m)) as Ht.
  destruct (table_get (d_type m) (if lazy then lazyReifyFuncs else reifyFuncs)) as [r|]; rewrite Ht; [|reflexivity].
  destruct (run_reifier fault r (Pb (Some d) ls) m) as [x| |] eqn:Er; [eapply run_reifier_kind; exact Er|exact I|].
  (* no constructor panics *)
  destruct r; cbn [run_reifier] in Er.
  - discriminate.
  - destruct (d_type m =? Data_Directory); discriminate.
  - pose proof (mk_shard_of_no_panic (Pb (Some d) ls)) as Hn. destruct (mk_shard_of (Pb (Some d) ls)); [discriminate|discriminate|congruence].
  - pose proof (mk_shard_of_no_panic (Pb (Some d) ls)) as Hn. destruct (mk_shard_of (Pb (Some d) ls)); [|discriminate|congruence].
    exfalso. revert Er. generalize (length_no_panic fault (Pb (Some d) ls) None). unfold shard_length.
    destruct (fst (length_blk fault (Pb (Some d) ls) None)); intros; congruence.
  - unfold new_file, wrapped_bytes in Er. rewrite Ed in Er. destruct ls; discriminate.
  - unfold new_file, wrapped_bytes in Er. rewrite Ed in Er. destruct ls; cbn [bind] in Er;
      destruct (drain_all _ _ _) as [[? ?] st]; destruct st; discriminate.
Qed.

(* the registered reifiers are the lazy and the preloading one *)
Theorem registrations_ok :
  Reify_lazy = true /\ nonLazyReify_lazy = false /\ registered_unixfs_lazy = true /\ registered_unixfs_preload_lazy = false.
Proof. repeat split; reflexivity. Qed.

(* the substrate is the original node *)
Theorem substrate_is_input fault lazy n r : do_reify fault lazy n = Ok r -> substrate_of n r = n.
Proof. reflexivity. Qed.
