From UV Require Import Dir.Plain.

Definition pair_of (l : plink) := (key_of l, l_target l).

Lemma drain_all ls fuel : length ls < fuel -> drain fuel ls = (map pair_of ls, []).
Proof.
  revert ls; induction fuel as [|f IH]; intros ls Hlt; [inversion Hlt|].
  destruct ls as [|l r]; cbn; [reflexivity|].
  rewrite IH by (cbn in Hlt; lia). reflexivity.
Qed.

Lemma lookup_first ls k :
  lookup ls k = option_map snd (find (fun p => bytes_eqb k (fst p)) (map pair_of ls)).
Proof.
  induction ls as [|l r IH]; cbn; [reflexivity|].
  destruct (bytes_eqb k (key_of l)); cbn; [reflexivity|exact IH].
Qed.

Lemma lookup_found ls k v :
  In (k, v) (map pair_of ls) -> exists v', lookup ls k = Some v' /\ In (k, v') (map pair_of ls).
Proof.
  induction ls as [|l r IH]; cbn; [tauto|].
  intros Hin. destruct (bytes_eqb_spec k (key_of l)) as [->|Hne].
  - eexists; split; [reflexivity|]. left; reflexivity.
  - destruct Hin as [Heq|Hin]; [inversion Heq; congruence|].
    destruct (IH Hin) as (v' & Hl & Hi). exists v'; split; [exact Hl|right; exact Hi].
Qed.

Lemma lookup_not_found ls k : ~ In k (map fst (map pair_of ls)) -> lookup ls k = None.
Proof.
  induction ls as [|l r IH]; cbn; [reflexivity|].
  intros Hn. destruct (bytes_eqb_spec k (key_of l)) as [->|Hne]; [exfalso; apply Hn; left; reflexivity|].
  apply IH. intro H; apply Hn; right; exact H.
Qed.

Lemma lookup_some_yielded ls k v : lookup ls k = Some v -> In (k, v) (map pair_of ls).
Proof.
  induction ls as [|l r IH]; cbn; [discriminate|].
  destruct (bytes_eqb_spec k (key_of l)) as [->|Hne].
  - intros [= <-]. left; reflexivity.
  - intros H; right; exact (IH H).
Qed.

(* The map-node contract on an arbitrary link list. *)
Theorem plain_map_contract (ls : list plink) :
  let ys := fst (drain (S (length ls)) ls) in
  let fin := snd (drain (S (length ls)) ls) in
  (* iteration yields exactly Length pairs, in link order, and is then done *)
  ys = map pair_of ls /\ Z.of_nat (length ys) = dir_length ls /\ it_done fin = true
  (* reading past the end is the over-read error *)
  /\ fst (it_next fin) = Err EOverread
  (* every yielded key is found and resolves to the first link yielded under that key *)
  /\ (forall k v, In (k, v) ys -> exists v', lookup_by_string ls k = Ok v' /\ In (k, v') ys)
  /\ (forall k, lookup ls k = option_map snd (find (fun p => bytes_eqb k (fst p)) ys))
  (* a found key was yielded *)
  /\ (forall k v, lookup_by_string ls k = Ok v -> In (k, v) ys)
  (* keys never yielded are not found *)
  /\ (forall k, ~ In k (map fst ys) -> lookup_by_string ls k = Err ENotFound)
  (* all entry points agree *)
  /\ (forall k, lookup_by_node ls k = lookup_by_string ls k /\ lookup_by_segment ls k = lookup_by_string ls k
                /\ lookup_native ls k = match lookup_by_string ls k with Ok v => Some v | _ => None end).
Proof.
  cbv zeta. rewrite drain_all by lia. cbn [fst snd].
  repeat split.
  - rewrite map_length. reflexivity.
  - intros k v Hin. destruct (lookup_found ls k v Hin) as (v' & Hl & Hi).
    exists v'. unfold lookup_by_string. rewrite Hl. split; [reflexivity|exact Hi].
  - apply lookup_first.
  - intros k v. unfold lookup_by_string. destruct (lookup ls k) eqn:E; [|discriminate].
    intros [= <-]. apply lookup_some_yielded; exact E.
  - intros k Hn. unfold lookup_by_string. rewrite lookup_not_found by exact Hn. reflexivity.
  - unfold lookup_native, lookup_by_string. destruct (lookup ls k); reflexivity.
Qed.

(* non-vacuity: a list with an absent name, an empty name and a duplicate *)
Example plain_contract_example :
  let ls := [PLink None None (Ext 1 36); PLink (Some []) None (Ext 2 36);
             PLink (Some [97]%N) None (Ext 3 36); PLink (Some [97]%N) None (Ext 4 36)] in
  lookup_by_string ls [] = Ok (Ext 1 36) /\ lookup_by_string ls [97]%N = Ok (Ext 3 36)
  /\ lookup_by_string ls [98]%N = Err ENotFound /\ dir_length ls = 4%Z.
Proof. cbn. repeat split. Qed.
