(* Model of the plain-directory / generic link-map view
   (directory/basicdir.go, pathpbnode.go, iter/iter.go, utils/utils.go). *)
From UV Require Export Blocks.Blk.

(* utils.Lookup / iterators: an absent name is the empty-string key *)
Definition key_of (l : plink) : bytes := match l_name l with Some n => n | None => [] end.

(* utils.Lookup: first link whose key equals the wanted one *)
Fixpoint lookup (ls : list plink) (k : bytes) : option blk :=
  match ls with
  | [] => None
  | l :: r => if bytes_eqb k (key_of l) then Some (l_target l) else lookup r k
  end.

(* the four entry points *)
Definition lookup_by_string (ls : list plink) (k : bytes) : res blk :=
  match lookup ls k with Some t => Ok t | None => Err ENotFound end.
Definition lookup_by_node (ls : list plink) (k : bytes) : res blk := lookup_by_string ls k.
Definition lookup_by_segment (ls : list plink) (k : bytes) : res blk := lookup_by_string ls k.
Definition lookup_native (ls : list plink) (k : bytes) : option blk := lookup ls k.

Definition dir_length (ls : list plink) : Z := Z.of_nat (length ls).

(* UnixFSDir__MapItr over PBLinks__Itr: the state is the list of links not yet visited *)
Definition it_done (st : list plink) : bool := match st with [] => true | _ => false end.
Definition it_next (st : list plink) : res (bytes * blk) * list plink :=
  match st with
  | [] => (Err EOverread, [])
  | l :: r => (Ok (key_of l, l_target l), r)
  end.

(* `for !itr.Done() { itr.Next() }` with an explicit step budget *)
Fixpoint drain (fuel : nat) (st : list plink) : list (bytes * blk) * list plink :=
  match fuel with
  | O => ([], st)
  | S f =>
    if it_done st then ([], st)
    else match it_next st with
         | (Ok p, st') => let (ps, fin) := drain f st' in (p :: ps, fin)
         | (_, st') => ([], st')
         end
  end.
