(* plain directories built by BuildUnixFSDirectory behave as the map of their entries *)
From UV Require Import Hamt.Build Hamt.SortProofs Dir.Plain Dir.PlainProofs.
From Coq Require Import Permutation.
Local Open Scope N_scope.

Definition plain_links (entries : list entry) : list plink := sort_links (map entry_link entries).

Lemma link_key_entry e : link_key (entry_link e) = e_name e.
Proof. reflexivity. Qed.

Lemma nodup_entry_links entries :
  NoDup (map e_name entries) -> NoDup (map link_key (map entry_link entries)).
Proof. rewrite map_map. intros H. erewrite map_ext; [exact H|]. intros e. reflexivity. Qed.

Theorem plain_dir_is_map entries : NoDup (map e_name entries) ->
  (* member names resolve to their entry's link *)
  (forall e, In e entries -> lookup_by_string (plain_links entries) (e_name e) = Ok (e_target e))
  (* any other name is not found *)
  /\ (forall k, ~ In k (map e_name entries) -> lookup_by_string (plain_links entries) k = Err ENotFound)
  (* iteration yields every entry exactly once, with its name and link *)
  /\ Permutation (map pair_of (plain_links entries)) (map (fun e => (e_name e, e_target e)) entries)
  (* the reported length is the entry count *)
  /\ dir_length (plain_links entries) = Z.of_nat (length entries).
Proof.
  intros Hnd. pose proof (nodup_entry_links entries Hnd) as Hnd'.
  unfold plain_links. repeat split.
  - intros e Hin. unfold lookup_by_string.
    rewrite <- (lookup_perm _ _ (e_name e) (sort_perm (map entry_link entries)) Hnd').
    assert (H : lookup (map entry_link entries) (e_name e) = Some (e_target e)).
    { apply lookup_in; [exact Hnd'|]. exists (entry_link e). split; [apply in_map; exact Hin|split; reflexivity]. }
    rewrite H. reflexivity.
  - intros k Hk. unfold lookup_by_string.
    rewrite <- (lookup_perm _ _ k (sort_perm (map entry_link entries)) Hnd').
    destruct (lookup (map entry_link entries) k) as [t|] eqn:E; [|reflexivity].
    apply lookup_in in E; [|exact Hnd']. destruct E as (l & Hin & Hkey & _).
    apply in_map_iff in Hin. destruct Hin as (e & <- & He). exfalso. apply Hk. rewrite <- Hkey, link_key_entry. apply in_map. exact He.
  - rewrite <- (sort_perm (map entry_link entries)). rewrite map_map. apply Permutation_refl.
  - unfold dir_length. rewrite <- (Permutation_length (sort_perm (map entry_link entries))), map_length. reflexivity.
Qed.

(* and the stored block does not depend on the order of the entry slice *)
Theorem plain_dir_order_independent entries entries' :
  Permutation entries entries' -> NoDup (map e_name entries) -> build_plain entries = build_plain entries'.
Proof.
  intros Hp Hnd. unfold build_plain.
  assert (Hl : sort_links (map entry_link entries) = sort_links (map entry_link entries')).
  { apply sort_links_perm; [apply Permutation_map; exact Hp|apply nodup_entry_links; exact Hnd]. }
  assert (Hs : fold_right (fun e acc => u64 (e_tsize e) + acc) 0 entries = fold_right (fun e acc => u64 (e_tsize e) + acc) 0 entries').
  { clear - Hp. induction Hp; cbn; first [lia|congruence]. }
  rewrite Hl, Hs. reflexivity.
Qed.
