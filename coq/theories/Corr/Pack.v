(* Correspondence evaluation for scenario "testutil": every plain directory level as packDirectory stored it *)
From UV Require Export Testutil.Pack Corr.Fp.
Local Open Scope N_scope.

Record pack_case := mk_pack { pk_children : list (bytes * Z * N * N); pk_fp : N; pk_size : N }.

Definition pack_case_ok (c : pack_case) : bool :=
  let children := map (fun x => let '(p, ts, id, cl) := x in (p, ts, Ext id cl)) (pk_children c) in
  let '(b, sz) := pack_plain children in
  N.eqb (fp b) (pk_fp c) && N.eqb sz (pk_size c).
Definition mismatches_pack (cs : list pack_case) : list N := mismatches pack_case_ok cs.
