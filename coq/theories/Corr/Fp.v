(* structural fingerprint of a DAG; must agree with harness/cmd/vharness/dag.go (DNode.FP) *)
From UV Require Export Blocks.PbLen File.Spec.
Local Open Scope N_scope.

Definition fp_init : N := 14695981039346656037.
Definition fp_word (h x : N) : N := N.land (N.lxor h x * 1099511628211) 18446744073709551615.   (* mod 2^64 *)
Definition fp_bytes (h : N) (b : bytes) : N := fold_left fp_word b (fp_word h (blen b)).

Fixpoint fp (b : blk) : N :=
  match b with
  | Ext id n => fp_word (fp_word (fp_word fp_init 3) id) n
  | Raw c => fp_bytes (fp_word fp_init 1) c
  | Pb d ls =>
    let h := fp_word fp_init 2 in
    let h := match d with Some x => fp_bytes (fp_word h 1) x | None => fp_word h 0 end in
    let h := fp_word h (N.of_nat (length ls)) in
    (fix go (ls : list plink) (h : N) : N :=
       match ls with
       | [] => h
       | PLink n s t :: r =>
         let h := match n with Some x => fp_bytes (fp_word h 1) x | None => fp_word h 0 end in
         let h := match s with Some z => fp_word (fp_word h 1) (u64 z) | None => fp_word h 0 end in
         go r (fp_word h (fp t))
       end) ls h
  end.

(* synthetic file content shared with the harness: byte i = (7 i + i / 251 + seed) mod 256; constant (seed mod 256) for seeds >= 1000 *)
Fixpoint synth_from (i : N) (n : nat) (seed : N) : bytes :=
  match n with
  | O => []
  | S n' => (if 1000 <=? seed then seed mod 256 else (i * 7 + i / 251 + seed) mod 256) :: synth_from (i + 1) n' seed
  end.
Definition synth (seed : N) (n : nat) : bytes := synth_from 0 n seed.

(* cut a byte string into chunks of the given lengths *)
Fixpoint cut (lens : list N) (bs : bytes) : list bytes :=
  match lens with
  | [] => []
  | k :: r => firstn (N.to_nat k) bs :: cut r (skipn (N.to_nat k) bs)
  end.

Fixpoint index_of (b : blk) (l : list blk) (i : N) : option N :=
  match l with
  | [] => None
  | x :: r => if blk_eqb x b then Some i else index_of b r (i + 1)
  end.
