(* Correspondence evaluation for scenario "fsimport". *)
From UV Require Export Build.FsImport Corr.Fp.
Local Open Scope N_scope.

(* the default chunker on files below one chunk (262144 bytes): at most one chunk *)
Definition chunk_small (c : bytes) : list bytes := match c with [] => [] | _ => [c] end.

Record fs_case := mk_fs { fs_tree : fsnode; fs_obs : option (N * N) }.

Definition fs_case_ok (c : fs_case) : bool :=
  match import 174 chunk_small (fun _ => []) (fs_tree c), fs_obs c with
  | Ok (b, sz), Some o => N.eqb (fp b) (fst o) && N.eqb sz (snd o)
  | Err _, None => true
  | _, _ => false
  end.
Definition mismatches_fsimport (cs : list fs_case) : list N := mismatches fs_case_ok cs.
