(* Correspondence evaluation for the file scenarios. *)
From UV Require Export File.Builder File.Trickle File.Reader Corr.Fp.
Local Open Scope N_scope.

(* ---- builds ---- *)
Record fbuild_case := mk_fbuild {
  fb_width : N; fb_lens : list N; fb_seed : N;
  fb_built : option (N * N);      (* fingerprint of the stored DAG, returned size *)
  fb_ref : option (N * N);        (* boxo balanced layout: fingerprint, Size() *)
  fb_trickle : option (N * N);    (* boxo trickle layout (raw leaves) over the same chunks: fingerprint, Size() *)
  fb_trickle_pb : option (N * N); (* boxo trickle layout, protobuf leaves *)
  fb_balanced_pb : option (N * N) (* boxo balanced layout, protobuf leaves *)
}.

Definition fb_chunks (c : fbuild_case) : list bytes :=
  cut (fb_lens c) (synth (fb_seed c) (N.to_nat (fold_right N.add 0 (fb_lens c)))).

Definition pairN_eqb (a b : N * N) := N.eqb (fst a) (fst b) && N.eqb (snd a) (snd b).

(* projection for C01/C07/C10/C11: the DAG and the size *)
Definition fbuild_ok (c : fbuild_case) : bool :=
  let w := N.to_nat (fb_width c) in
  let chunks := fb_chunks c in
  match build_file w chunks, fb_built c with
  | Ok (root, sz), Some o => pairN_eqb (fp root, sz) o
  | Err _, None => true
  | _, _ => false
  end
  && match fb_ref c with
     | Some o => let '(root, sz) := ref_layout w chunks in pairN_eqb (fp root, sz) o
     | None => true
     end
  && match fb_trickle c with
     | Some o => let '(root, sz) := trickle_layout w chunks in pairN_eqb (fp root, sz) o
     | None => true
     end
  && match fb_trickle_pb c with
     | Some o => let '(root, sz) := trickle_layout_g mk_pbleaf_raw w chunks in pairN_eqb (fp root, sz) o
     | None => true
     end
  && match fb_balanced_pb c with
     | Some o => let '(root, sz) := balanced_layout_g mk_pbleaf w chunks in pairN_eqb (fp root, sz) o
     | None => true
     end.
Definition mismatches_fbuild (cs : list fbuild_case) : list N := mismatches fbuild_ok cs.

(* ---- reads ---- *)
Inductive fsrc := FBuilt (width : N) (lens : list N) (seed : N) | FDump (b : blk).

Definition fsrc_root (s : fsrc) : res blk :=
  match s with
  | FBuilt w lens seed =>
    r <- build_file (N.to_nat w) (cut lens (synth seed (N.to_nat (fold_right N.add 0 lens)))) ;; Ok (fst r)
  | FDump b => Ok b
  end.

(* observed reply of one operation; loads are preorder indices of the blocks requested *)
Inductive oobs :=
| BSeek (r : res Z)
| BRead (bs : bytes) (st : status) (loads : list N).

Record fread_case := mk_fread {
  fr_src : fsrc;
  fr_faults : list (N * N);                (* preorder index of an unavailable block, error kind *)
  fr_ops : list (N * rop);                 (* reader number, operation *)
  fr_obs : list oobs
}.

Definition status_eqb (a b : status) : bool :=
  match a, b with
  | StOk, StOk | StEOF, StEOF => true
  | StErr x, StErr y => err_eqb x y
  | _, _ => false
  end.

Definition is_unmodelled_status (s : status) := match s with StErr EUnmodelled => true | _ => false end.

Definition fault_of (order : list blk) (fs : list (N * N)) (b : blk) : option err :=
  match find (fun f => match nth_error order (N.to_nat (fst f)) with Some x => blk_eqb x b | None => false end) fs with
  | Some f => Some (ELoad (snd f))
  | None => None
  end.

Fixpoint set_nth {A} (i : nat) (x : A) (l : list A) : list A :=
  match l, i with
  | [], _ => []
  | _ :: r, O => x :: r
  | y :: r, S i' => y :: set_nth i' x r
  end.

(* which parts of a reply are compared *)
Inductive proj := PBytes | PBytesLoads.

Definition obs_ok (p : proj) (order : list blk) (m : rout) (o : oobs) : bool :=
  match m, o with
  | OSeek (Err EUnmodelled), _ => true
  | OSeek r, BSeek r' => res_eqb Z.eqb r r'
  | ORead bs st loads, BRead bs' st' loads' =>
    if is_unmodelled_status st then true else
    bytes_eqb bs bs' && status_eqb st st'
    && match p with
       | PBytes => true
       | PBytesLoads =>
         list_eqb N.eqb (map (fun b => match index_of b order 0 with Some i => i | None => 999999 end) loads) loads'
       end
  | _, _ => false
  end.

Fixpoint multi_run (p : proj) (order : list blk) (fault : blk -> option err) (root : blk)
         (sts : list rstate) (ops : list (N * rop)) (obs : list oobs) : bool :=
  match ops, obs with
  | [], [] => true
  | (i, op) :: ops', o :: obs' =>
    let st := nth (N.to_nat i) sts rs0 in
    let '(st', m) := reader_step fault root st op in
    obs_ok p order m o && multi_run p order fault root (set_nth (N.to_nat i) st' sts) ops' obs'
  | _, _ => false
  end.

Definition fread_ok (p : proj) (c : fread_case) : bool :=
  match fsrc_root (fr_src c) with
  | Ok root =>
    let order := preorder root in
    multi_run p order (fault_of order (fr_faults c)) root [rs0; rs0; rs0; rs0] (fr_ops c) (fr_obs c)
  | _ => false
  end.

Definition mismatches_fread (cs : list fread_case) : list N := mismatches (fread_ok PBytes) cs.
Definition mismatches_fread_loads (cs : list fread_case) : list N := mismatches (fread_ok PBytesLoads) cs.

(* ---- reads of DAGs whose children have to be opened to be measured (File/Unsized.v, UnsizedLoads.v): bytes and
   statuses always; the requests of each Read too when no block is unavailable (after a failed Read the implementation
   measures again, the model keeps the error: only the replies are compared then) ---- *)
From UV Require Import File.Unsized File.UnsizedLoads.

Fixpoint umulti_run (p : proj) (order : list blk) (fault : blk -> option err) (root : blk)
         (sts : list rstate) (ops : list (N * rop)) (obs : list oobs) : bool :=
  match ops, obs with
  | [], [] => true
  | (i, op) :: ops', o :: obs' =>
    let st := nth (N.to_nat i) sts rs0 in
    let '(st', m) := match p with PBytes => ureader_step fault root st op | PBytesLoads => ureaderL_step fault root st op end in
    obs_ok p order m o && umulti_run p order fault root (set_nth (N.to_nat i) st' sts) ops' obs'
  | _, _ => false
  end.

Definition ufread_ok (c : fread_case) : bool :=
  match fsrc_root (fr_src c) with
  | Ok root =>
    let order := preorder root in
    umulti_run (match fr_faults c with [] => PBytesLoads | _ => PBytes end)
               order (fault_of order (fr_faults c)) root [rs0; rs0; rs0; rs0] (fr_ops c) (fr_obs c)
  | _ => false
  end.

Definition mismatches_ufread (cs : list fread_case) : list N := mismatches ufread_ok cs.

(* ---- storage that fails a budget of requests and recovers (File/Transient.v): one reader, Seek(off) then Reads ---- *)
From UV Require Import File.Transient.

Record tread_case := mk_tread {
  tr_src : fsrc;
  tr_budget : list (N * N * N);            (* preorder index of a block, requests that fail, error kind *)
  tr_off : Z;
  tr_ks : list Z;                          (* buffer size of every Read made (retries included) *)
  tr_obs : list (bytes * status)
}.

Definition tread_ok (c : tread_case) : bool :=
  match fsrc_root (tr_src c) with
  | Ok root =>
    let order := preorder root in
    let r := flat_map (fun x => let '(i, n, k) := x in
                                match nth_error order (N.to_nat i) with
                                | Some b => [(b, (N.to_nat n, ELoad k))]
                                | None => []
                                end) (tr_budget c) in
    let '(out, _, _) := readsR r (stream nofault root (tr_off c)) (tr_ks c) in
    list_eqb (fun a b => bytes_eqb (fst a) (fst b) && status_eqb (snd a) (snd b)) out (tr_obs c)
  | _ => false
  end.

Definition mismatches_tread (cs : list tread_case) : list N := mismatches tread_ok cs.
