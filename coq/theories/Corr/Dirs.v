(* Correspondence evaluation for scenario "dirs": the model of Dir/Plain.v against observations
   of directory.UnixFSBasicDir / PathedPBNode made by the harness. *)
From UV Require Export Dir.Plain.

Record dir_case := mk_dir_case {
  dc_links : list (option bytes * N);   (* name, target id, in the order of the reified node *)
  dc_len : Z;                           (* Length() *)
  dc_iter : list (bytes * N);           (* pairs yielded by MapIterator until Done *)
  dc_done : bool;                       (* Done() afterwards *)
  dc_over : res N;                      (* outcome of one more Next *)
  dc_lookups : list (bytes * res N)     (* LookupByString for candidate keys *)
}.

Definition to_links (c : dir_case) : list plink :=
  map (fun p => PLink (fst p) None (Ext (snd p) 36)) (dc_links c).

Definition tid (b : blk) : N := match b with Ext i _ => i | _ => 0 end.

Definition pair_eqb (a b : bytes * N) := bytes_eqb (fst a) (fst b) && N.eqb (snd a) (snd b).

Definition dir_case_ok (c : dir_case) : bool :=
  let ls := to_links c in
  let '(ys, fin) := drain (S (length ls)) ls in
  Z.eqb (dc_len c) (dir_length ls)
  && list_eqb pair_eqb (dc_iter c) (map (fun p => (fst p, tid (snd p))) ys)
  && Bool.eqb (dc_done c) (it_done fin)
  && res_eqb N.eqb (dc_over c) (match fst (it_next fin) with Ok p => Ok (tid (snd p)) | Err e => Err e | Panic => Panic end)
  && forallb (fun kr =>
       res_eqb N.eqb (snd kr)
         (match lookup_by_string ls (fst kr) with Ok t => Ok (tid t) | Err e => Err e | Panic => Panic end))
     (dc_lookups c).

Definition mismatches_dirs (cs : list dir_case) : list N := mismatches dir_case_ok cs.
