(* Correspondence evaluation for the sharded-directory scenarios. *)
From UV Require Export Hamt.Read Hamt.RefModel Corr.Fp.
Local Open Scope N_scope.

(* ---- hash bits: both helpers against the implementation, and against each other ---- *)
Record hb_case := mk_hb { hb_hash : bytes; hb_off : N; hb_width : N; hb_next_obs : res (N * N); hb_slice_obs : res N }.

Definition coarse (e : err) : err :=
  match e with EInvalid | EDecode | EOther => EOther | x => x end.
Definition coarse_res {A} (r : res A) : res A := match r with Err e => Err (coarse e) | x => x end.

Definition hb_case_ok (c : hb_case) : bool :=
  res_eqb (fun a b => N.eqb (fst a) (fst b) && N.eqb (snd a) (snd b))
          (coarse_res (hb_next (hb_hash c) (hb_off c) (hb_width c))) (coarse_res (hb_next_obs c))
  && res_eqb N.eqb (coarse_res (hb_slice (hb_hash c) (hb_off c) (hb_width c))) (coarse_res (hb_slice_obs c)).
Definition mismatches_hashbits (cs : list hb_case) : list N := mismatches hb_case_ok cs.

(* ---- directories ---- *)
Definition hentry := (bytes * bytes * Z * N * N)%type.   (* name, hash, tsize, target id, cid length *)
Definition to_entry (h : hentry) : entry :=
  let '(n, hs, ts, id, cl) := h in mk_entry n hs ts (Ext id cl).

Inductive hsrc :=
| HSharded (fanout : N) (entries : list hentry)    (* BuildUnixFSShardedDirectory *)
| HAuto (entries : list hentry)                     (* BuildUnixFSDirectory *)
| HDump (b : blk)                                   (* blocks written by the reference implementation *)
| HRef (fanout : N) (ops : list (bool * hentry)) (b : blk).   (* boxo NewShard(fanout), a Set (true) / Remove (false) history, Node(): the blocks it wrote *)

Definition to_hop (o : bool * hentry) : hop :=
  let '(set, h) := o in if set then HSet (to_entry h) else let '(n, hs, _, _, _) := h in HDel n hs.

Definition hsrc_build (s : hsrc) : res (blk * N) :=
  match s with
  | HSharded f es => build_sharded f HashMurmur3 (map to_entry es)
  | HAuto es => build_dir (map to_entry es)
  | HDump b => Ok (b, 0)
  | HRef f ops b =>
    (* the model of the reference's Set / Remove must arrive at exactly the blocks boxo wrote *)
    match ref_build f HashMurmur3 (map to_hop ops) with
    | Ok (root, _) => if blk_eqb root b then Ok (b, 0) else Panic
    | _ => Panic
    end
  end.

Inductive iobs := OYield (k : bytes) (id : N) | OErr (e : err).

Record hamt_case := mk_hamt {
  hc_src : hsrc;
  hc_built : option (N * N);                              (* fingerprint of the stored DAG, returned size *)
  hc_faults : list (N * N);                               (* preorder index of an unavailable shard, kind *)
  hc_lookups : list (bytes * bytes * res N * list N);     (* key, its hash, result (target id), shards requested *)
  hc_iter : option (list (list N * iobs));                (* MapIterator: per Next call *)
  hc_length : option (res N * list N)                     (* length() and the shards requested *)
}.

Definition tid (b : blk) : N := match b with Ext i _ => i | _ => 999999 end.
Definition idx_list (order : list blk) (bs : list blk) : list N :=
  map (fun b => match index_of b order 0 with Some i => i | None => 999999 end) bs.

Definition fault_of (order : list blk) (fs : list (N * N)) (b : blk) : option err :=
  match find (fun f => match nth_error order (N.to_nat (fst f)) with Some x => blk_eqb x b | None => false end) fs with
  | Some f => Some (ELoad (snd f))
  | None => None
  end.

Definition iobs_eqb (a b : iobs) : bool :=
  match a, b with
  | OYield k i, OYield k' i' => bytes_eqb k k' && N.eqb i i'
  | OErr e, OErr e' => err_eqb (coarse e) (coarse e')
  | _, _ => false
  end.

Definition is_shard (b : blk) : bool := match mk_shard_of b with Ok _ => true | _ => false end.

Definition hamt_case_ok (c : hamt_case) : bool :=
  match hsrc_build (hc_src c) with
  | Ok (root, sz) =>
    match hc_built c with
    | Some o => N.eqb (fp root) (fst o) && N.eqb sz (snd o)
    | None => match hc_src c with HDump _ | HRef _ _ _ => true | _ => false end   (* a builder that failed where the model builds *)
    end
    &&
    (if is_shard root then
       let order := preorder root in
       (* a block that is not in the store cannot be loaded (the harness store answers with kind 404) *)
       let fault := fun b => match b with Ext _ _ => Some (ELoad 404) | _ => fault_of order (hc_faults c) b end in
       forallb (fun q =>
                  let '(key, hs, r, loads) := q in
                  let '(mr, ml) := lookup fault root hs key in
                  res_eqb N.eqb (coarse_res (match mr with Ok t => Ok (tid t) | Err e => Err e | Panic => Panic end)) (coarse_res r)
                  && list_eqb N.eqb (idx_list order ml) loads) (hc_lookups c)
       && match hc_iter c with
          | None => true
          | Some evs =>
            list_eqb (fun a b => list_eqb N.eqb (fst a) (fst b) && iobs_eqb (snd a) (snd b))
                     (map (fun p => (idx_list order (fst p),
                                     match snd p with IYield k v => OYield k (tid v) | IErr e => OErr e | IPanic => OErr EUnmodelled end))
                          (iterate fault root)) evs
          end
       && match hc_length c with
          | None => true
          | Some (r, loads) =>
            let '(mr, ml) := shard_length fault root in
            res_eqb N.eqb (coarse_res mr) (coarse_res r) && list_eqb N.eqb (idx_list order ml) loads
          end
     else true)
  | Err _ => match hc_built c with None => true | Some _ => false end
  | Panic => false
  end.

Definition mismatches_hamt (cs : list hamt_case) : list N := mismatches hamt_case_ok cs.
