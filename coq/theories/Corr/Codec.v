(* Correspondence evaluation for scenario "codec". *)
From UV Require Export Codec.Encode Codec.Decode.
Local Open Scope N_scope.

Inductive ckind := KData | KTime | KMeta.
Inductive cobs :=
| OErr
| OData (m : udata) (reenc : bytes) (perm : N)
| OTime (t : unixtime) (reenc : bytes)
| OMeta (mime : option bytes) (reenc : bytes).

Definition codec_case := (ckind * bytes * cobs)%type.

Definition codec_case_ok (c : codec_case) : bool :=
  let '(k, wire, obs) := c in
  match k with
  | KData =>
    match decode_data wire, obs with
    | Ok m, OData m' reenc perm =>
      ud_eqb m m' && bytes_eqb (encode_data m) reenc && N.eqb (permissions m) perm
    | Err _, OErr => true
    | _, _ => false
    end
  | KTime =>
    match decode_time wire, obs with
    | Ok t, OTime t' reenc => ut_eqb t t' && bytes_eqb (encode_time t) reenc
    | Err _, OErr => true
    | _, _ => false
    end
  | KMeta =>
    match decode_meta wire, obs with
    | Ok m, OMeta mime reenc => opt_eqb bytes_eqb (m_mime m) mime && bytes_eqb (encode_meta m) reenc
    | Err _, OErr => true
    | _, _ => false
    end
  end.

Definition mismatches_codec (cs : list codec_case) : list N := mismatches codec_case_ok cs.
