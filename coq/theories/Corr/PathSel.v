(* Correspondence evaluation for scenario "pathsel". *)
From UV Require Export Sel.Model.
Local Open Scope N_scope.

Inductive vobs := OVRaw (id : N) | OVUnixFS (id : N).

Record pathsel_case := mk_pathsel {
  ps_tree : ent; ps_path : bytes; ps_target : N (* 0 match, 1 preload, 2 entity, 3 explore-all *); ps_matchpath : bool;
  ps_selector : sel;            (* the selector the library built, read back from its node form *)
  ps_matches : list vobs        (* SelectionMatch visits of WalkMatching, in order *)
}.

Definition target_of (t : N) : sel :=
  if t =? 0 then MatchUnixFSSelector else if t =? 1 then MatchUnixFSPreloadSelector
  else if t =? 2 then MatchUnixFSEntitySelector else ExploreAllRecursivelySelector.

Fixpoint sel_eqb (a b : sel) : bool :=
  match a, b with
  | SMatcher, SMatcher | SRecAllDepth1, SRecAllDepth1 | SRecAllNoLimit, SRecAllNoLimit => true
  | SFields n x, SFields m y => bytes_eqb n m && sel_eqb x y
  | SInterpretAs i x, SInterpretAs j y => N.eqb i j && sel_eqb x y
  | SUnion a1 a2, SUnion b1 b2 => sel_eqb a1 b1 && sel_eqb a2 b2
  | _, _ => false
  end.

Definition ent_id (e : ent) : N := match e with EFile i => i | EDir i _ => i end.
Definition vobs_of (v : visit) : vobs := match v with VRaw e => OVRaw (ent_id e) | VUnixFS e => OVUnixFS (ent_id e) end.
Definition vobs_eqb (a b : vobs) : bool :=
  match a, b with OVRaw i, OVRaw j | OVUnixFS i, OVUnixFS j => N.eqb i j | _, _ => false end.

Definition pathsel_case_ok (c : pathsel_case) : bool :=
  let s := build_selector (ps_path c) (target_of (ps_target c)) (ps_matchpath c) in
  sel_eqb s (ps_selector c)
  && list_eqb vobs_eqb (map vobs_of (walk_matching (ps_tree c) s)) (ps_matches c).
Definition mismatches_pathsel (cs : list pathsel_case) : list N := mismatches pathsel_case_ok cs.
