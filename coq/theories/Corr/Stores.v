(* Correspondence evaluation for scenario "stores". *)
From UV Require Export Build.Store Build.ImportStore Corr.Fp Corr.Hamt Corr.FsImport.
Local Open Scope N_scope.

Inductive sbuild :=
| SFile (width : N) (lens : list N) (seed : N)
| SSymlink (target : bytes)
| SPlain (entries : list hentry)
| SSharded (fanout : N) (entries : list hentry)
| SRecursive (t : fsnode).                       (* BuildUnixFSRecursive over a small tree (plain directories, one-chunk files) *)

Record store_case := mk_store {
  sc_build : sbuild;
  sc_fail_open : N; sc_fail_commit : N;        (* 0 = never *)
  sc_has_link : bool; sc_has_err : bool;       (* what came back *)
  sc_commits : option (list N)                 (* fingerprints of the committed blocks in order (files: exact) *)
}.

Definition fail_at (k : N) : N -> option N := fun i => if (k =? 0) then None else if i =? k then Some 500 else None.

Definition store_case_ok (c : store_case) : bool :=
  let fo := fail_at (sc_fail_open c) in
  let fc := fail_at (sc_fail_commit c) in
  let '((lnk, _, err), s') :=
      match sc_build c with
      | SFile w lens seed => BuildUnixFSFile fo fc (N.to_nat w) (cut lens (synth seed (N.to_nat (fold_right N.add 0 lens)))) ws0
      | SSymlink t => BuildUnixFSSymlink fo fc t ws0
      | SPlain es => BuildUnixFSDirectoryPlain fo fc (map to_entry es) ws0
      | SSharded f es => BuildUnixFSShardedDirectory fo fc f HashMurmur3 (map to_entry es) ws0
      | SRecursive t => BuildUnixFSRecursive fo fc 174 chunk_small (fun _ => []) t ws0
      end in
  Bool.eqb (match lnk with Some _ => true | None => false end) (sc_has_link c)
  && Bool.eqb (match err with Some _ => true | None => false end) (sc_has_err c)
  && match sc_commits c with
     | Some fps => list_eqb N.eqb (map fp (ws_trace s')) fps
     | None => true
     end.
Definition mismatches_stores (cs : list store_case) : list N := mismatches store_case_ok cs.
