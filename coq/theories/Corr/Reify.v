(* Correspondence evaluation for scenario "reify". *)
From UV Require Export Reify.Model Corr.Fp Corr.Hamt.
Local Open Scope N_scope.

Inductive robs := ROk (cls : N) (* 0 unchanged, 1 link map, 2 file, 3 dir, 4 shard *) | RErr | RPanic.

Record reify_case := mk_reify {
  rc_node : anode; rc_lazy : bool; rc_faults : list (N * N); rc_obs : robs
}.

Definition cls_of (r : rnode) : N :=
  match r with RUnchanged => 0 | RLinkMap => 1 | RFile => 2 | RDir => 3 | RShard => 4 end.

Definition reify_case_ok (c : reify_case) : bool :=
  let fault := match rc_node c with
               | APb b => fault_of (preorder b) (rc_faults c)
               | _ => fun _ => None
               end in
  match do_reify fault (rc_lazy c) (rc_node c), rc_obs c with
  | Ok r, ROk cls => N.eqb (cls_of r) cls
  | Err EUnmodelled, _ => true
  | Err _, RErr => true
  | Panic, RPanic => true
  | _, _ => false
  end.
Definition mismatches_reify (cs : list reify_case) : list N := mismatches reify_case_ok cs.
