(* Correspondence evaluation for the block-level path walk (scenario pathsel, case files cases_pload). *)
From UV Require Export Sel.Model Sel.PathLoads Corr.Fp Hamt.Refine.
Local Open Scope N_scope.

Record pload_case := mk_pload {
  pl_root : blk;                      (* the whole tree as blocks *)
  pl_path : bytes;                    (* the path string given to UnixFSPathSelectorBuilder *)
  pl_hashes : list (bytes * bytes);   (* murmur3-x64-64 of every segment *)
  pl_preload : bool;                  (* target selector: false = lazy match, true = preloading match *)
  pl_loads : list N                   (* the traversal's storage requests up to the match, as preorder indices *)
}.

Definition hash_of (hs : list (bytes * bytes)) (k : bytes) : bytes :=
  match find (fun p => bytes_eqb (fst p) k) hs with Some p => snd p | None => [] end.

Definition pload_ok (c : pload_case) : bool :=
  let order := preorder (pl_root c) in
  let tr := if pl_preload c then walk_then_preload nofault (hash_of (pl_hashes c)) (pl_root c) (parse_path (pl_path c))
            else snd (walk_path nofault (hash_of (pl_hashes c)) (pl_root c) (parse_path (pl_path c))) in
  list_eqb N.eqb (map (fun b => match index_of b order 0 with Some i => i | None => 999999 end) tr) (pl_loads c).

Definition mismatches_pload (cs : list pload_case) : list N := mismatches pload_ok cs.
