(* C18 — Importing a filesystem tree reproduces that tree.
   The operating-system calls (Lstat, ReadDir, Readlink, Open) are represented by the abstract tree;
   the logic on top of them is proved; directories above the auto-shard threshold are covered by the
   sharded-directory correspondence. *)
From UV Require Import Build.FsImport Build.FsImportProofs File.Spec Dir.Plain.
Local Open Scope N_scope.

(* a tree containing anything that is not a regular file, a directory or a symlink is never imported *)
Theorem C18_import_rejects : forall W chunk hash t,
  has_other t = true -> forall r, import W chunk hash t <> Ok r.
Proof. exact import_rejects. Qed.
Print Assumptions C18_import_rejects.

(* for EVERY tree of files (< 2^63 bytes), directories with distinct names and symlinks: the imported
   DAG's files are well-sized DAGs whose content is the file's bytes (hence read back exactly, C01), a
   symlink node carries the link target text (never followed), a plain directory block lists exactly
   the on-disk names, each resolving to the import of that child *)
Theorem C18_import_denotes : forall W, (2 <= W)%nat -> forall chunk, (forall b, concat (chunk b) = b) ->
  forall hash t, tame t -> forall b sz, import W chunk hash t = Ok (b, sz) -> denotes t b.
Proof. exact import_denotes. Qed.
Print Assumptions C18_import_denotes.

(* ---- directories of every size ---- *)
From UV Require Import Build.FsImportSharded Base.Varint.

(* for EVERY tree of files (< 2^63 bytes), directories with distinct non-empty names (plain below the auto-shard
   threshold, HAMT-sharded with fanout 256 above it) and symlinks, and every 8-byte name hash: the node Reify's
   type dispatch presents for each directory reports exactly the on-disk entry count and resolves every on-disk
   name to the import of that child; files denote their bytes, symlinks their target text *)
Theorem C18_import_denotes_all_directories : forall W, (2 <= W)%nat -> forall chunk, (forall b, concat (chunk b) = b) ->
  forall hash, (forall k, wf_bytes (hash k) = true) -> (forall k, length (hash k) = 8%nat) ->
  forall t, tame2 t -> forall b sz, import W chunk hash t = Ok (b, sz) -> denotes2 hash t b.
Proof. exact import_denotes2. Qed.
Print Assumptions C18_import_denotes_all_directories.
