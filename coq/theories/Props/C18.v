(* C18 — Importing a filesystem tree reproduces that tree.
   The operating-system calls (Lstat, ReadDir, Readlink, Open) are represented by the abstract tree;
   the logic on top of them is proved; directories above the auto-shard threshold are covered by the
   sharded-directory correspondence. *)
From UV Require Import Build.FsImport Build.FsImportProofs File.Spec Dir.Plain.
Local Open Scope N_scope.

(* a tree containing anything that is not a regular file, a directory or a symlink is never imported *)
Theorem C18_import_rejects : forall W chunk hash t,
  has_other t = true -> forall r, import W chunk hash t <> Ok r.
Proof. exact import_rejects. Qed.
Print Assumptions C18_import_rejects.

(* for EVERY tree of files (< 2^63 bytes), directories with distinct names and symlinks: the imported
   DAG's files are well-sized DAGs whose content is the file's bytes (hence read back exactly, C01), a
   symlink node carries the link target text (never followed), a plain directory block lists exactly
   the on-disk names, each resolving to the import of that child *)
Theorem C18_import_denotes : forall W, (2 <= W)%nat -> forall chunk, (forall b, concat (chunk b) = b) ->
  forall hash t, tame t -> forall b sz, import W chunk hash t = Ok (b, sz) -> denotes t b.
Proof. exact import_denotes. Qed.
Print Assumptions C18_import_denotes.

(* ---- directories of every size ---- *)
From UV Require Import Build.FsImportSharded Base.Varint.

(* for EVERY tree of files (< 2^63 bytes), directories with distinct non-empty names (plain below the auto-shard
   threshold, HAMT-sharded with fanout 256 above it) and symlinks, and every 8-byte name hash: the node Reify's
   type dispatch presents for each directory reports exactly the on-disk entry count and resolves every on-disk
   name to the import of that child; files denote their bytes, symlinks their target text *)
Theorem C18_import_denotes_all_directories : forall W, (2 <= W)%nat -> forall chunk, (forall b, concat (chunk b) = b) ->
  forall hash, (forall k, wf_bytes (hash k) = true) -> (forall k, length (hash k) = 8%nat) ->
  forall t, tame2 t -> forall b sz, import W chunk hash t = Ok (b, sz) -> denotes2 hash t b.
Proof. exact import_denotes2. Qed.
Print Assumptions C18_import_denotes_all_directories.

(* end to end: import the tree, resolve ANY path of the on-disk tree over the stored blocks (plain and sharded directories
   alike), and - when the path names a regular file - read it: the bytes are the on-disk bytes, as a whole, under every
   Seek/Read history, with the true length *)
From UV Require Import Build.ImportResolve Sel.PathLoads File.Compose.
Theorem C18_import_resolve_read : forall W, (2 <= W)%nat -> forall chunk, (forall b, concat (chunk b) = b) ->
  forall hash, (forall k, wf_bytes (hash k) = true) -> (forall k, length (hash k) = 8%nat) ->
  forall t b sz segs c,
  tame2 t -> import W chunk hash t = Ok (b, sz) -> fs_resolve t segs = Some (FFile c) ->
  exists b', fst (walk_path Refine.nofault hash b segs) = Ok b'
    /\ fst (fst (drain_all (stream Spec.nofault b' 0) [] [])) = c
    /\ snd (drain_all (stream Spec.nofault b' 0) [] []) = StEOF
    /\ (forall ops, map forget_loads (reader_run Spec.nofault b' rs0 ops) = abs_run c 0 ops)
    /\ node_length b' = Ok (zlen c).
Proof. exact import_resolve_read. Qed.
Print Assumptions C18_import_resolve_read.

Theorem C18_import_then_resolve : forall W, (2 <= W)%nat -> forall chunk, (forall b, concat (chunk b) = b) ->
  forall hash, (forall k, wf_bytes (hash k) = true) -> (forall k, length (hash k) = 8%nat) ->
  forall t b sz segs n,
  tame2 t -> import W chunk hash t = Ok (b, sz) -> fs_resolve t segs = Some n ->
  exists b', fst (walk_path Refine.nofault hash b segs) = Ok b' /\ denotes2 hash n b'.
Proof. exact import_then_resolve. Qed.
Print Assumptions C18_import_then_resolve.
