(* C19 — Test-fixture generators describe exactly the DAG they stored.
   Proved: the deterministic core every generator funnels through — packDirectory's naming (last path
   segment), the read-back of a packed directory level and the sibling-name filter isDupe.  The
   random control flow of the generators (crypto/rand tapes, name lists) is not modelled; equality of
   the returned description with the stored DAG at every level is decided per run by the oracle. *)
From UV Require Import Testutil.Pack Testutil.PackProofs Dir.Plain Dir.PlainProofs Dir.BuildProofs.
From Coq Require Import Permutation.
Local Open Scope N_scope.

Theorem C19_pack_readback : forall children,
  NoDup (map (fun c => last_segment (fst (fst c))) children) ->
  let links := plain_links (map child_entry children) in
  Permutation (map pair_of links) (map (fun c => (last_segment (fst (fst c)), snd c)) children)
  /\ (forall c, In c children -> lookup_by_string links (last_segment (fst (fst c))) = Ok (snd c))
  /\ dir_length links = Z.of_nat (length children).
Proof. exact pack_readback. Qed.
Print Assumptions C19_pack_readback.

Theorem C19_accepted_names_distinct : forall paths name,
  NoDup (map (fun p => stem (last_segment p)) paths) -> is_dupe paths name = false ->
  forall dir, last_segment (dir ++ [slash] ++ name) = name ->
  NoDup (map (fun p => stem (last_segment p)) ((dir ++ [slash] ++ name) :: paths)).
Proof. exact accepted_names_distinct. Qed.
Print Assumptions C19_accepted_names_distinct.

(* packDirectory with bitWidth > 0: a HAMT of width 2 << bitWidth.  For every bit width 2..9 (fanout 8..1024), every
   8-byte name hash and every list of children with distinct non-empty last path segments, reading the stored
   directory back resolves every child's name to its root, lists every child exactly once and counts them *)
From UV Require Import Testutil.PackSharded Hamt.Read Hamt.Refine Base.Varint.
Theorem C19_pack_sharded_readback : forall H : bytes -> bytes, (forall k, wf_bytes (H k) = true) -> (forall k, length (H k) = 8%nat) ->
  forall bitWidth children root sz,
  2 <= bitWidth <= 9 ->
  NoDup (map (fun c => last_segment (fst (fst c))) children) ->
  Forall (fun c => last_segment (fst (fst c)) <> []) children ->
  pack_sharded H bitWidth children = Ok (root, sz) ->
  (forall c, In c children ->
     fst (Read.lookup nofault root (H (last_segment (fst (fst c)))) (last_segment (fst (fst c)))) = Ok (snd c))
  /\ Permutation (map snd (iterate nofault root)) (map (fun c => IYield (last_segment (fst (fst c))) (snd c)) children)
  /\ fst (shard_length nofault root) = Ok (N.of_nat (length children)).
Proof. exact pack_sharded_readback. Qed.
Print Assumptions C19_pack_sharded_readback.
