(* C19 — Test-fixture generators describe exactly the DAG they stored.
   Proved: the deterministic core every generator funnels through — packDirectory's naming (last path
   segment), the read-back of a packed directory level and the sibling-name filter isDupe.  The
   random control flow of the generators (crypto/rand tapes, name lists) is not modelled; equality of
   the returned description with the stored DAG at every level is decided per run by the oracle. *)
From UV Require Import Testutil.Pack Testutil.PackProofs Dir.Plain Dir.PlainProofs Dir.BuildProofs.
From Coq Require Import Permutation.
Local Open Scope N_scope.

Theorem C19_pack_readback : forall children,
  NoDup (map (fun c => last_segment (fst (fst c))) children) ->
  let links := plain_links (map child_entry children) in
  Permutation (map pair_of links) (map (fun c => (last_segment (fst (fst c)), snd c)) children)
  /\ (forall c, In c children -> lookup_by_string links (last_segment (fst (fst c))) = Ok (snd c))
  /\ dir_length links = Z.of_nat (length children).
Proof. exact pack_readback. Qed.
Print Assumptions C19_pack_readback.

Theorem C19_accepted_names_distinct : forall paths name,
  NoDup (map (fun p => stem (last_segment p)) paths) -> is_dupe paths name = false ->
  forall dir, last_segment (dir ++ [slash] ++ name) = name ->
  NoDup (map (fun p => stem (last_segment p)) ((dir ++ [slash] ++ name) :: paths)).
Proof. exact accepted_names_distinct. Qed.
Print Assumptions C19_accepted_names_distinct.
