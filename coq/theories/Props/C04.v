(* C04 — File readers obey the io.ReadSeeker model under any Seek/Read history *)
From UV Require Import File.Spec File.ReaderProofs3.
Local Open Scope Z_scope.

(* every reply of a reader over a DAG with true sizes is the reply of the abstract ReadSeeker over
   the file's exact content: Seek returns the absolute offset (end-relative seeks use the true
   length), Read returns the bytes at the current offset, EOF at or past the end, a Seek before
   zero is an error *)
Theorem C04_reader_refines : forall root, well_sized root = true ->
  forall ops st, rinv (content root) st ->
    map forget_loads (reader_run nofault root st ops) = abs_run (content root) (r_off st) ops.
Proof. exact reader_refines. Qed.
Print Assumptions C04_reader_refines.

Theorem C04_fresh_reader : forall root ops, well_sized root = true ->
  map forget_loads (reader_run nofault root rs0 ops) = abs_run (content root) 0 ops.
Proof. exact reader_refines_fresh. Qed.
Print Assumptions C04_fresh_reader.

(* a rejected Seek leaves the reader (position and open stream) exactly as it was, for any DAG and any faults *)
Theorem C04_failed_seek_keeps_state : forall fault root st off whence o st',
  reader_step fault root st (OpSeek off whence) = (st', OSeek (Err o)) -> st' = st.
Proof. exact seek_negative_keeps_state. Qed.
Print Assumptions C04_failed_seek_keeps_state.

(* readers obtained separately from one node: the replies to reader i depend only on the sub-history of reader i *)
Theorem C04_readers_independent : forall fault root ops sts i,
  (i < length sts)%nat -> (forall j op, In (j, op) ops -> (j < length sts)%nat) ->
  of_reader i (multi_run fault root sts ops) = reader_run fault root (nth i sts rs0) (of_reader i ops).
Proof. exact readers_independent. Qed.
Print Assumptions C04_readers_independent.

(* the same for file nodes whose children have to be opened to be measured (File/Unsized.v) *)
From UV Require Import File.Unsized File.UnsizedProofs File.UnsizedSafe.
Theorem C04_unsized_reader_refines : forall root, uwell root = true ->
  forall ops st, rinv (content root) st ->
    map forget_loads (ureader_run nofault root st ops) = abs_run (content root) (r_off st) ops.
Proof. exact ureader_refines. Qed.
Print Assumptions C04_unsized_reader_refines.

Theorem C04_unsized_failed_seek_keeps_state : forall fault root st off whence o st',
  ureader_step fault root st (OpSeek off whence) = (st', OSeek (Err o)) -> st' = st.
Proof. exact useek_error_keeps_state. Qed.
Print Assumptions C04_unsized_failed_seek_keeps_state.

(* reference-written files in the trickle layout (File/Trickle.v, compared with boxo's DAG on every run): every Seek/Read history,
   from any consistent reader state, refines the abstract ReadSeeker over the chunks' concatenation *)
From UV Require Import File.Builder File.BuilderProofs File.Trickle File.TrickleProofs.
Theorem C04_reference_trickle_reader_refines : forall (W : nat) (chunks : list bytes), (1 <= W)%nat -> chunks <> [] -> (blen (concat chunks) < bound63)%N ->
  let root := fst (trickle_layout W chunks) in
  forall ops st, rinv (concat chunks) st ->
    map forget_loads (reader_run nofault root st ops) = abs_run (concat chunks) (r_off st) ops.
Proof. exact trickle_reader_refines. Qed.
Print Assumptions C04_reference_trickle_reader_refines.
