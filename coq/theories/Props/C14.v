(* C14 — Reification is total, type-directed, and never alters the underlying node *)
From UV Require Import Reify.Model Reify.Proofs.
Local Open Scope N_scope.

(* over the dispatch tables REGENERATED from reification.go on every run: for any node, any storage
   behaviour, both the lazy and the preloading reifier —
   non-dag-pb nodes come back unchanged; no Data / undecodable Data -> link map; File/Raw -> a
   bytes-kind node; Directory/HAMTShard -> a map-kind node; Metadata/Symlink -> a (map-kind) link
   map; any other type number -> error; never a panic *)
Theorem C14_reify_classification : forall fault lazy n,
  match n with
  | ANotPb _ | APb (Raw _) | APb (Ext _ _) => do_reify fault lazy n = Ok RUnchanged
  | APb (Pb None _) => do_reify fault lazy n = Ok RLinkMap
  | APb (Pb (Some d) ls) =>
    match decode_data d with
    | Ok m =>
      match expected_class (d_type m) with
      | None => do_reify fault lazy n = Err EOther
      | Some k => match do_reify fault lazy n with Ok x => kind_of x = k | Err _ => True | Panic => False end
      end
    | _ => do_reify fault lazy n = Ok RLinkMap
    end
  end.
Proof. exact reify_classification. Qed.
Print Assumptions C14_reify_classification.

Theorem C14_registrations : Reify_lazy = true /\ nonLazyReify_lazy = false
  /\ registered_unixfs_lazy = true /\ registered_unixfs_preload_lazy = false.
Proof. exact registrations_ok. Qed.
Print Assumptions C14_registrations.

(* the substrate exposed by every reified node is the node that was handed in (the implementation's
   Substrate() is compared with the original node, and its re-encoding with the original block, on every run) *)
Theorem C14_substrate_is_input : forall fault lazy n r, do_reify fault lazy n = Ok r -> substrate_of n r = n.
Proof. exact substrate_is_input. Qed.
Print Assumptions C14_substrate_is_input.
