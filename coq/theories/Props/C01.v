(* C01 — File build->read round trip returns exactly the original bytes *)
From UV Require Import File.Builder File.Spec File.BuilderProofs File.Compose.
Local Open Scope Z_scope.

(* For every link width >= 2 and every chunk list (whatever chunker produced it; total below 2^63
   bytes): the builder succeeds and the built DAG, opened by the reader, yields exactly the
   concatenation of the chunks — as a whole value, under every Seek/Read history with any buffer
   sizes, and its reported length (seek-to-end / declared file size) is the original length. *)
Theorem C01_build_read_roundtrip : forall (W : nat) (chunks : list bytes),
  (2 <= W)%nat -> (blen (concat chunks) < bound63)%N ->
  exists root sz,
    build_file W chunks = Ok (root, sz)
    /\ fst (fst (drain_all (stream nofault root 0) [] [])) = concat chunks
    /\ snd (drain_all (stream nofault root 0) [] []) = StEOF
    /\ (forall ops, map forget_loads (reader_run nofault root rs0 ops) = abs_run (concat chunks) 0 ops)
    /\ node_length root = Ok (zlen (concat chunks)).
Proof. exact build_read_roundtrip. Qed.
Print Assumptions C01_build_read_roundtrip.

(* Any DAG whose declared sizes are the true ones (builder- or reference-written: balanced or trickle,
   raw or protobuf leaves — `well_sized` is evaluated on every reference DAG sampled) reads back to
   its content in the same way. *)
Theorem C01_read_well_sized : forall b, well_sized b = true ->
  fst (fst (drain_all (stream nofault b 0) [] [])) = content b
  /\ snd (drain_all (stream nofault b 0) [] []) = StEOF
  /\ (forall ops, map forget_loads (reader_run nofault b rs0 ops) = abs_run (content b) 0 ops)
  /\ node_length b = Ok (zlen (content b)).
Proof. exact read_well_sized. Qed.
Print Assumptions C01_read_well_sized.

(* the chunker is any function whose chunks concatenate to the input *)
Corollary C01_any_chunker : forall (split : bytes -> list bytes) (W : nat) (input : bytes),
  (forall b, concat (split b) = b) -> (2 <= W)%nat -> (blen input < bound63)%N ->
  exists root sz, build_file W (split input) = Ok (root, sz)
    /\ fst (fst (drain_all (stream nofault root 0) [] [])) = input.
Proof.
  intros split W input Hs HW Hb. destruct (build_read_roundtrip W (split input) HW ltac:(rewrite Hs; exact Hb)) as (root & sz & H1 & H2 & _).
  exists root, sz. rewrite Hs in H2. auto.
Qed.
Print Assumptions C01_any_chunker.

(* the size-K splitter (chunker "size-K"; the default chunker is size-262144) modelled as a function: its chunks
   concatenate to the input, so for EVERY input below 2^63 bytes, every K >= 1 and every width >= 2 the built file reads
   back to the input - as a whole, under every history, with the true length *)
From UV Require Import File.Chunker.
Theorem C01_size_chunker_roundtrip : forall (W k : nat) (input : bytes),
  (2 <= W)%nat -> (1 <= k)%nat -> (blen input < bound63)%N ->
  exists root sz, build_file W (split_size (length input) k input) = Ok (root, sz)
    /\ fst (fst (drain_all (stream nofault root 0) [] [])) = input
    /\ snd (drain_all (stream nofault root 0) [] []) = StEOF
    /\ (forall ops, map forget_loads (reader_run nofault root rs0 ops) = abs_run input 0 ops)
    /\ node_length root = Ok (zlen input).
Proof. exact size_chunker_roundtrip. Qed.
Print Assumptions C01_size_chunker_roundtrip.

Theorem C01_size_chunker_chunks : forall fuel k bs, (1 <= k)%nat -> (length bs <= fuel)%nat ->
  concat (split_size fuel k bs) = bs /\ Forall (fun c => (1 <= length c <= k)%nat) (split_size fuel k bs).
Proof. intros fuel k bs Hk Hf. split; [apply split_size_concat; assumption|apply split_size_chunks; assumption]. Qed.
Print Assumptions C01_size_chunker_chunks.

(* file nodes whose children carry no declared size (hand-written DAGs: the reader measures such a child by opening
   it; File/Unsized.v): the extended reader is the reader above wherever sizes are declared, and every DAG whose
   declared-or-measured sizes are true reads back to its content, as a whole and under every history, with its length *)
From UV Require Import File.Unsized File.UnsizedProofs File.UnsizedFaults.
Theorem C01_unsized_extends_sized : forall fault b, well_sized b = true ->
  (forall off, ustream fault b off = stream fault b off) /\ usize fault b = node_length b.
Proof. exact ustream_extends. Qed.
Print Assumptions C01_unsized_extends_sized.

Theorem C01_read_unsized : forall b, uwell b = true ->
  fst (fst (drain_all (ustream nofault b 0) [] [])) = content b
  /\ snd (drain_all (ustream nofault b 0) [] []) = StEOF
  /\ (forall ops, map forget_loads (ureader_run nofault b rs0 ops) = abs_run (content b) 0 ops)
  /\ usize nofault b = Ok (zlen (content b)).
Proof. exact read_unsized. Qed.
Print Assumptions C01_read_unsized.

(* non-vacuity: a three-level DAG without any BlockSizes / FileSize above its leaves has true measured sizes, and a
   DAG with declared true sizes is one *)
Example C01_unsized_example : uwell ex_root = true /\ well_sized ex_root = false /\ (forall b, well_sized b = true -> uwell b = true).
Proof. split; [vm_compute; reflexivity|]. split; [vm_compute; reflexivity|exact well_sized_uwell]. Qed.

(* the reference importer's TRICKLE layout (boxo importer/trickle, raw leaves; File/Trickle.v, compared with boxo's own DAG on
   every run): for every link width >= 1 and every non-empty chunk list the DAG has true declared sizes, denotes the
   concatenation of the chunks, records cumulative sizes - and this library reads it back exactly, as a whole, under every
   Seek/Read history, with its length *)
From UV Require Import File.Trickle File.TrickleProofs.
Theorem C01_reference_trickle_dag_is_well_sized : forall (W : nat), (1 <= W)%nat -> forall chunks : list bytes,
  chunks <> [] -> (blen (concat chunks) < bound63)%N ->
  let root := fst (trickle_layout W chunks) in
  well_sized root = true /\ content root = concat chunks /\ snd (trickle_layout W chunks) = cum_size root /\ tsizes_ok root = true.
Proof. exact trickle_well_sized. Qed.
Print Assumptions C01_reference_trickle_dag_is_well_sized.

Theorem C01_reference_trickle_dag_reads_back : forall (W : nat) (chunks : list bytes),
  (1 <= W)%nat -> chunks <> [] -> (blen (concat chunks) < bound63)%N ->
  let root := fst (trickle_layout W chunks) in
  fst (fst (drain_all (stream nofault root 0) [] [])) = concat chunks
  /\ snd (drain_all (stream nofault root 0) [] []) = StEOF
  /\ (forall ops, map forget_loads (reader_run nofault root rs0 ops) = abs_run (concat chunks) 0 ops)
  /\ node_length root = Ok (zlen (concat chunks)).
Proof. exact trickle_reads_back. Qed.
Print Assumptions C01_reference_trickle_dag_reads_back.

Example C01_reference_trickle_example :
  let chunks := [[1; 2]; [3]; [4; 5]; [6]; [7]; [8; 9]; [10]; [11]; [12]; [13]; [14]; [15]; [16]; [17]; [18]; [19]; [20]]%N in
  well_sized (fst (trickle_layout 2 chunks)) = true /\ content (fst (trickle_layout 2 chunks)) = concat chunks.
Proof. exact trickle_demo. Qed.
Print Assumptions C01_reference_trickle_example.

(* the reference importer with PROTOBUF leaves (RawLeaves off), trickle layout (leaves of UnixFS type Raw) or balanced layout
   (leaves of type File), both modelled over the leaf constructor in File/Trickle.v and compared with boxo's own DAGs for every
   build case of every run: for every width >= 2 and every non-empty chunk list the DAG has true declared sizes and this library
   reads it back exactly - whole value, every Seek/Read history, length *)
Theorem C01_reference_protobuf_leaf_layouts_read_back : forall (W : nat) (chunks : list bytes),
  (2 <= W)%nat -> chunks <> [] -> (blen (concat chunks) < bound63)%N ->
  forall root, root = fst (trickle_layout_g mk_pbleaf_raw W chunks) \/ root = fst (balanced_layout_g mk_pbleaf W chunks) ->
  well_sized root = true
  /\ fst (fst (drain_all (stream nofault root 0) [] [])) = concat chunks
  /\ snd (drain_all (stream nofault root 0) [] []) = StEOF
  /\ (forall ops, map forget_loads (reader_run nofault root rs0 ops) = abs_run (concat chunks) 0 ops)
  /\ node_length root = Ok (zlen (concat chunks)).
Proof. exact reference_pb_layouts_read_back. Qed.
Print Assumptions C01_reference_protobuf_leaf_layouts_read_back.

(* the layout-generic balanced model over raw leaves is the reference layout of File/Builder.v, which C07 proves to be this
   library's own DAG *)
Theorem C01_generic_balanced_layout_is_the_reference_layout : forall W chunks, balanced_layout_g mk_leaf W chunks = ref_layout W chunks.
Proof. exact balanced_raw_is_ref_layout. Qed.
Print Assumptions C01_generic_balanced_layout_is_the_reference_layout.

Example C01_reference_protobuf_leaf_example :
  let chunks := [[1; 2]; [3]; [4; 5]; [6]; [7]; [8; 9]; [10]; [11]; [12]; [13]; [14]]%N in
  well_sized (fst (trickle_layout_g mk_pbleaf_raw 2 chunks)) = true /\ content (fst (trickle_layout_g mk_pbleaf_raw 2 chunks)) = concat chunks
  /\ well_sized (fst (balanced_layout_g mk_pbleaf 3 chunks)) = true /\ content (fst (balanced_layout_g mk_pbleaf 3 chunks)) = concat chunks.
Proof. exact pb_layouts_demo. Qed.
Print Assumptions C01_reference_protobuf_leaf_example.
