(* C08 — Sharded directories are byte-identical to and interoperable with the reference HAMT.
   Proved here: the part of the shard layout both implementations must share — the bits of the
   murmur3 hash consumed at each level are the most-significant-first arithmetic slice, for every
   offset/width — and order independence of the encoded link list.  Equality of whole DAGs with boxo
   and reading of boxo-written shards (after arbitrary insert/remove histories) are established per
   run by the correspondence of the builder/reader models and by the CID/size oracle. *)
From UV Require Import Hamt.HashBits Hamt.HashBitsSpec Hamt.Build Hamt.SortProofs Base.Varint.
From Coq Require Import Permutation.
Local Open Scope N_scope.

Theorem C08_level_bits_are_msb_first : forall hb depth lg,
  wf_bytes hb = true -> 1 <= lg -> depth * lg + lg <= nbits hb ->
  hb_slice hb (depth * lg) lg = Ok (bits_at hb (depth * lg) lg).
Proof. intros. apply hb_slice_spec; assumption. Qed.
Print Assumptions C08_level_bits_are_msb_first.

Theorem C08_link_order_canonical : forall ls ls',
  Permutation ls ls' -> NoDup (map link_key ls) -> sort_links ls = sort_links ls'.
Proof. exact sort_links_perm. Qed.
Print Assumptions C08_link_order_canonical.
