(* C08 — Sharded directories are byte-identical to and interoperable with the reference HAMT.
   Proved here: the part of the shard layout both implementations must share — the bits of the
   murmur3 hash consumed at each level are the most-significant-first arithmetic slice, for every
   offset/width — and order independence of the encoded link list.  Equality of whole DAGs with boxo
   and reading of boxo-written shards (after arbitrary insert/remove histories) are established per
   run by the correspondence of the builder/reader models and by the CID/size oracle. *)
From UV Require Import Hamt.HashBits Hamt.HashBitsSpec Hamt.Build Hamt.SortProofs Hamt.TrieProofs Hamt.ShardDecode Hamt.Refine Hamt.Canon Hamt.CanonSpec Hamt.Read Hamt.RefModel Hamt.RefHistory Base.Varint.
From Coq Require Import Permutation.
Local Open Scope N_scope.

Theorem C08_level_bits_are_msb_first : forall hb depth lg,
  wf_bytes hb = true -> 1 <= lg -> depth * lg + lg <= nbits hb ->
  hb_slice hb (depth * lg) lg = Ok (bits_at hb (depth * lg) lg).
Proof. intros. apply hb_slice_spec; assumption. Qed.
Print Assumptions C08_level_bits_are_msb_first.

Theorem C08_link_order_canonical : forall ls ls',
  Permutation ls ls' -> NoDup (map link_key ls) -> sort_links ls = sort_links ls'.
Proof. exact sort_links_perm. Qed.
Print Assumptions C08_link_order_canonical.

(* the shard form is canonical: the block and cumulative size are determined by the SET of entries for every
   trie that keeps the HAMT invariants (bucket = hash slice of the level, sub-shard only where entries collide);
   a reference HAMT holding the same entries, however it got there (insert/remove histories, map orders),
   has one serialization to agree with *)
Theorem C08_shard_form_is_canonical : forall size lg, permitted size lg ->
  forall (H : bytes -> bytes) (t1 t2 : bnode) cs1 cs2 d,
  t1 = BShard cs1 -> t2 = BShard cs2 ->
  bwf lg d t1 -> bwf lg d t2 -> bok size H t1 -> bok size H t2 -> bmin t1 -> bmin t2 ->
  NoDup (entries_of t1) -> Permutation (entries_of t1) (entries_of t2) ->
  serialize_node size HashMurmur3 (pad_len size) t1 = serialize_node size HashMurmur3 (pad_len size) t2.
Proof. exact ser_unique. Qed.
Print Assumptions C08_shard_form_is_canonical.

(* and shard.add builds such a trie holding exactly the entries added *)
Theorem C08_builder_keeps_the_invariants : forall lg entries cs, add_all lg entries = Ok cs ->
  bwf lg 0 (BShard cs) /\ bmin (BShard cs) /\ Permutation (entries_of (BShard cs)) entries.
Proof.
  intros lg entries cs Ha. destruct (add_all_spec lg entries cs Ha) as [Hw Hp].
  split; [exact Hw|]. split; [exact (add_all_bmin lg entries cs Ha)|exact Hp].
Qed.
Print Assumptions C08_builder_keeps_the_invariants.

(* the reference layout stated without insertion: group the entries by the hash slice of the level; one entry = a value
   link, several = a sub-shard laid out the same way one level down (`canon`).  For every permitted fanout, every 8-byte
   name hash and every entry list with distinct non-empty names on which the build succeeds, the builder returns exactly
   the serialization (root block and cumulative size) of that trie *)
Theorem C08_builder_writes_the_specification_trie : forall size lg, permitted size lg ->
  forall H : bytes -> bytes, (forall k, wf_bytes (H k) = true) -> (forall k, length (H k) = 8%nat) ->
  forall entries r,
  Forall (entry_ok H) entries -> NoDup (map e_name entries) ->
  build_sharded size HashMurmur3 entries = Ok r ->
  r = serialize_node size HashMurmur3 (pad_len size) (BShard (canon lg 70 0 entries)).
Proof. exact build_sharded_is_canon. Qed.
Print Assumptions C08_builder_writes_the_specification_trie.

Theorem C08_specification_example :
  build_sharded 8 HashMurmur3 demo_entries = Ok (serialize_node 8 HashMurmur3 (pad_len 8) (BShard (canon 3 70 0 demo_entries))).
Proof. exact canon_demo. Qed.
Print Assumptions C08_specification_example.

(* the REFERENCE implementation's own mutations (boxo hamt Shard.swapValue: Set with fork / replace, Remove with pruning and
   collapse of a sub-shard left with a single value), modelled in Hamt/RefModel.v and compared with boxo on every run:
   after ANY history of Sets and Removes applied to an empty shard (a Remove of an absent name reports ErrNotExist and changes
   nothing) the trie keeps the three HAMT invariants and holds exactly the abstract directory `mrun ops` *)
Theorem C08_reference_history_keeps_the_invariants : forall size lg, permitted size lg ->
  forall H : bytes -> bytes, (forall k, wf_bytes (H k) = true) -> (forall k, length (H k) = 8%nat) ->
  forall fuel ops t, Forall (hop_ok H) ops -> hrun lg fuel ops = Ok t ->
  bwf lg 0 (BShard t) /\ bok size H (BShard t) /\ bmin (BShard t) /\ NoDup (map e_name (mrun ops)) /\ Permutation (entries_in t) (mrun ops).
Proof. exact history_spec. Qed.
Print Assumptions C08_reference_history_keeps_the_invariants.

(* ... hence what the reference writes after any such history is read by this library as exactly the reference's entry set
   (members resolve to their links, other names are not found, iteration yields every entry once, the length is the count),
   and it is byte-identical (root block and cumulative size) to what this library's builder writes for that entry set *)
Theorem C08_reference_history_is_read_as_its_entry_set : forall size lg, permitted size lg ->
  forall H : bytes -> bytes, (forall k, wf_bytes (H k) = true) -> (forall k, length (H k) = 8%nat) ->
  forall fuel ops t, Forall (hop_ok H) ops -> hrun lg fuel ops = Ok t ->
  let root := fst (serialize_node size HashMurmur3 (pad_len size) (BShard t)) in
  let m := mrun ops in
  NoDup (map e_name m)
  /\ (forall e, In e m -> fst (lookup nofault root (H (e_name e)) (e_name e)) = Ok (e_target e))
  /\ (forall key, ~ In key (map e_name m) -> fst (lookup nofault root (H key) key) = Err ENotFound)
  /\ Permutation (map snd (iterate nofault root)) (map yield_of m)
  /\ fst (shard_length nofault root) = Ok (N.of_nat (length m))
  /\ (forall r, build_sharded size HashMurmur3 m = Ok r -> r = serialize_node size HashMurmur3 (pad_len size) (BShard t)).
Proof. exact ref_history_read. Qed.
Print Assumptions C08_reference_history_is_read_as_its_entry_set.

Theorem C08_reference_history_example :
  Forall (hop_ok demo_hash) demo_ops
  /\ map e_name (mrun demo_ops) = [[65; 1]; [66]]
  /\ exists t, hrun 3 70 demo_ops = Ok t
     /\ build_sharded 8 HashMurmur3 (mrun demo_ops) = Ok (serialize_node 8 HashMurmur3 (pad_len 8) (BShard t)).
Proof. exact demo_history. Qed.
Print Assumptions C08_reference_history_example.

(* the bridge, at full strength: for every permitted fanout, every 8-byte hash and EVERY history of Sets and Removes the reference
   implementation went through, BuildUnixFSShardedDirectory SUCCEEDS on the final entry set and returns exactly the root block and
   cumulative size the reference wrote - the same link and size from either implementation, however the reference got there *)
Theorem C08_builder_equals_reference_after_any_history : forall size lg, permitted size lg ->
  forall H : bytes -> bytes, (forall k, wf_bytes (H k) = true) -> (forall k, length (H k) = 8%nat) ->
  forall fuel ops t, Forall (hop_ok H) ops -> hrun lg fuel ops = Ok t ->
  Forall (entry_ok H) (mrun ops) /\ NoDup (map e_name (mrun ops)) /\
  build_sharded size HashMurmur3 (mrun ops) = Ok (serialize_node size HashMurmur3 (pad_len size) (BShard t)).
Proof. exact ref_history_is_the_built_directory. Qed.
Print Assumptions C08_builder_equals_reference_after_any_history.

(* the reference's serialization does not remember the history: two histories ending in the same entry set leave byte-identical
   shards (root block and cumulative size) - which is why one canonical form is all this library's builder has to match *)
Theorem C08_reference_shard_is_history_independent : forall size lg, permitted size lg ->
  forall H : bytes -> bytes, (forall k, wf_bytes (H k) = true) -> (forall k, length (H k) = 8%nat) ->
  forall fuel1 fuel2 ops1 ops2 t1 t2,
  Forall (hop_ok H) ops1 -> Forall (hop_ok H) ops2 -> hrun lg fuel1 ops1 = Ok t1 -> hrun lg fuel2 ops2 = Ok t2 ->
  Permutation (mrun ops1) (mrun ops2) ->
  serialize_node size HashMurmur3 (pad_len size) (BShard t1) = serialize_node size HashMurmur3 (pad_len size) (BShard t2).
Proof. exact ref_history_independent. Qed.
Print Assumptions C08_reference_shard_is_history_independent.

(* in particular, inserting a fresh name into a reference shard and removing it again restores the shard byte for byte *)
Theorem C08_reference_set_then_remove_is_identity : forall size lg, permitted size lg ->
  forall H : bytes -> bytes, (forall k, wf_bytes (H k) = true) -> (forall k, length (H k) = 8%nat) ->
  forall fuel ops e t t',
  Forall (hop_ok H) ops -> entry_ok H e -> ~ In (e_name e) (map e_name (mrun ops)) ->
  hrun lg fuel ops = Ok t -> hrun lg fuel (ops ++ [HSet e; HDel (e_name e) (H (e_name e))]) = Ok t' ->
  serialize_node size HashMurmur3 (pad_len size) (BShard t') = serialize_node size HashMurmur3 (pad_len size) (BShard t).
Proof. exact ref_set_remove_roundtrip. Qed.
Print Assumptions C08_reference_set_then_remove_is_identity.

(* read as a map with the obvious meaning: a lookup in what the reference wrote after any history returns the link of the latest
   Set of that name that no later Remove of it followed (`mlast`), and not-found otherwise *)
Theorem C08_reference_lookup_returns_the_latest_set : forall size lg, permitted size lg ->
  forall H : bytes -> bytes, (forall k, wf_bytes (H k) = true) -> (forall k, length (H k) = 8%nat) ->
  forall fuel ops t, Forall (hop_ok H) ops -> hrun lg fuel ops = Ok t ->
  let root := fst (serialize_node size HashMurmur3 (pad_len size) (BShard t)) in
  forall key, fst (lookup nofault root (H key) key) =
              match mlast key ops None with Some e => Ok (e_target e) | None => Err ENotFound end.
Proof. exact ref_history_lookup_is_latest. Qed.
Print Assumptions C08_reference_lookup_returns_the_latest_set.
