(* C12 — Unavailable blocks surface as errors (file reader part; directory part: see Hamt proofs) *)
From UV Require Import File.Spec File.ReaderProofs2 File.ReaderProofs4.
Local Open Scope Z_scope.

(* for every DAG with true sizes and EVERY set of unavailable blocks: what a sequential reader can
   obtain is exactly the content preceding the first unavailable block of the fault-free read, then
   that block's load error (never EOF); with no unavailable block on the way, the whole content *)
Theorem C12_read_fault : forall fault b, well_sized b = true ->
  let s0 := stream nofault b 0 in
  let '(pre, o) := before_fault fault s0 in
  sview (stream fault b 0) = (pre, match o with Some (_, e) => StErr e | None => StEOF end)
  /\ (exists rest, content b = pre ++ rest /\ (o = None -> rest = []))
  /\ (forall blk e, o = Some (blk, e) -> fault blk = Some e).
Proof. exact read_fault. Qed.
Print Assumptions C12_read_fault.

(* every Read (any positive buffer size) delivers that view: the bytes, then the stop status, and
   keeps delivering the same error afterwards *)
Theorem C12_reads_deliver_view : forall s k acc loads, 0 < k ->
  let '(bs, _, st, s') := take s k acc loads in
  let '(vb, vs) := sview s in
  if k <=? zlen vb
  then bs = acc ++ firstz k vb /\ st = StOk /\ sview s' = (skipz k vb, vs)
  else bs = acc ++ vb /\ st = vs /\ sview s' = ([], vs).
Proof. exact take_view. Qed.
Print Assumptions C12_reads_deliver_view.

Theorem C12_readall_delivers_view : forall s acc loads,
  let '(bs, _, st) := drain_all s acc loads in bs = acc ++ fst (sview s) /\ st = snd (sview s).
Proof. exact drain_all_view. Qed.
Print Assumptions C12_readall_delivers_view.
