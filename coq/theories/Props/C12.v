(* C12 — Unavailable blocks surface as errors (file reader part; directory part: see Hamt proofs) *)
From UV Require Import File.Spec File.ReaderProofs2 File.ReaderProofs4.
Local Open Scope Z_scope.

(* for every DAG with true sizes and EVERY set of unavailable blocks: what a sequential reader can
   obtain is exactly the content preceding the first unavailable block of the fault-free read, then
   that block's load error (never EOF); with no unavailable block on the way, the whole content *)
Theorem C12_read_fault : forall fault b, well_sized b = true ->
  let s0 := stream nofault b 0 in
  let '(pre, o) := before_fault fault s0 in
  sview (stream fault b 0) = (pre, match o with Some (_, e) => StErr e | None => StEOF end)
  /\ (exists rest, content b = pre ++ rest /\ (o = None -> rest = []))
  /\ (forall blk e, o = Some (blk, e) -> fault blk = Some e).
Proof. exact read_fault. Qed.
Print Assumptions C12_read_fault.

(* every Read (any positive buffer size) delivers that view: the bytes, then the stop status, and
   keeps delivering the same error afterwards *)
Theorem C12_reads_deliver_view : forall s k acc loads, 0 < k ->
  let '(bs, _, st, s') := take s k acc loads in
  let '(vb, vs) := sview s in
  if k <=? zlen vb
  then bs = acc ++ firstz k vb /\ st = StOk /\ sview s' = (skipz k vb, vs)
  else bs = acc ++ vb /\ st = vs /\ sview s' = ([], vs).
Proof. exact take_view. Qed.
Print Assumptions C12_reads_deliver_view.

Theorem C12_readall_delivers_view : forall s acc loads,
  let '(bs, _, st) := drain_all s acc loads in bs = acc ++ fst (sview s) /\ st = snd (sview s).
Proof. exact drain_all_view. Qed.
Print Assumptions C12_readall_delivers_view.

(* ---- file nodes whose children carry no declared size (measured by opening them; File/Unsized.v) ---- *)
From UV Require Import File.Unsized File.UnsizedProofs File.UnsizedFaults.

(* for every DAG with true sizes, declared or measured, and EVERY set of unavailable blocks: a whole-value read
   returns a front of the content; it ends without an error only at the end of the whole content (never a shortened
   value, never end-of-file in place of the error); an error it ends with is the load error of a block of the DAG.
   (On the pinned tree lengthFromLinks turned a failed measurement into length 0 and the first clause failed:
   repaired in /repo, 1a39357.) *)
Theorem C12_unsized_read_fault : forall fault b, uwell b = true ->
  let '(bs, _, st) := drain_all (ustream fault b 0) [] [] in
  (exists rest, content b = bs ++ rest /\ (st = StEOF -> rest = []))
  /\ st <> StOk
  /\ (forall e, st = StErr e -> exists x, In x (preorder b) /\ fault x = Some e).
Proof. exact unsized_read_fault. Qed.
Print Assumptions C12_unsized_read_fault.

(* the same from any offset, for the stream every Read consumes (C12_reads_deliver_view applies to it as it is) *)
Theorem C12_unsized_stream_fault : forall fault b, uwell b = true -> forall off, 0 <= off ->
  vok fault (preorder b) (skipz off (content b)) (sview (ustream fault b off)).
Proof. exact ustream_fault_view. Qed.
Print Assumptions C12_unsized_stream_fault.

(* measuring (Seek relative to the end) under unavailable blocks: the fault-free length or the load error of a
   block below, never a wrong length *)
Theorem C12_unsized_length_fault : forall fault b,
  match usize fault b with
  | Ok z => usize nofault b = Ok z
  | Err e => usize nofault b = Err e \/ exists x, In x (preorder b) /\ fault x = Some e
  | Panic => usize nofault b = Panic
  end.
Proof. exact usize_fault. Qed.
Print Assumptions C12_unsized_length_fault.

(* KNOWN FINDING (known_findings.json, C12-unsized-children-early-error): the clause "exactly the bytes that precede
   the missing block's span" fails on such DAGs — every child is measured before the first byte is delivered *)
Theorem C12_unsized_exact_prefix_refuted :
  exists b fault, uwell b = true
    /\ fst (before_fault fault (ustream nofault b 0)) = [97; 98; 99; 100; 101]%N
    /\ sview (ustream fault b 0) = ([], StErr (ELoad 1)).
Proof. exact unsized_exact_prefix_refuted. Qed.
Print Assumptions C12_unsized_exact_prefix_refuted.

(* ---- storage that fails a request now and serves it later (File/Transient.v) ---- *)
From UV Require Import File.Transient.

(* one reader over a DAG with true sizes, positioned at off, asked again after every load error, any buffer sizes, any
   budget of failing requests per block: the bytes the Reads deliver, in order, are the content from off on, up to where
   the reader stands; at most as many Reads report an error as the budget holds; a Read that reports end-of-file has
   delivered the rest (`C12_transient_eof`) *)
Theorem C12_transient_reads : forall root off ks r, well_sized root = true -> 0 <= off ->
  let '(out, s', r') := readsR r (stream nofault root off) ks in
  concat (map fst out) ++ sbytes s' = skipz off (content root)
  /\ (length (filter (fun o => match snd o with StErr _ => true | _ => false end) out) <= btotal r)%nat.
Proof. exact transient_reads. Qed.
Print Assumptions C12_transient_reads.

Theorem C12_transient_eof : forall r s k, sclean s = true ->
  let '(bs, _, st, s', _) := takeR r s k [] [] in st = StEOF -> bs = sbytes s.
Proof. exact takeR_eof. Qed.
Print Assumptions C12_transient_eof.

(* with the budget spent the reader is the fault-free one again *)
Theorem C12_transient_recovers : forall r s k acc loads, btotal r = O -> sclean s = true ->
  let '(bs, l, st, s', r') := takeR r s k acc loads in (bs, l, st, s') = take s k acc loads /\ r' = r.
Proof. exact takeR_no_budget. Qed.
Print Assumptions C12_transient_recovers.

(* ---- sharded directories ---- *)
From UV Require Import Hamt.Build Hamt.Read Hamt.ShardDecode Hamt.Refine Hamt.RefineTrace Hamt.RefineLength Base.Varint.
From Coq Require Import Permutation.
Local Open Scope N_scope.

(* a lookup whose hash path crosses an unavailable shard returns that shard's load error (never not-found) and
   requests nothing further; otherwise it returns the map's answer *)
Theorem C12_sharded_lookup_reports_the_load_error : forall size lg, permitted size lg ->
  forall H : bytes -> bytes, (forall k, wf_bytes (H k) = true) -> (forall k, length (H k) = 8%nat) ->
  forall entries root sz,
  Forall (entry_ok H) entries -> NoDup (map e_name entries) ->
  build_sharded size HashMurmur3 entries = Ok (root, sz) ->
  forall key, exists path : list blk,
    (N.of_nat (length path) + 1) * lg <= 64 /\
    forall fault,
      Read.lookup fault root (H key) key =
      match first_fault fault path with
      | Some (e, tr) => (Err e, tr)
      | None => (match find (fun e => bytes_eqb (e_name e) key) entries with Some e => Ok (e_target e) | None => Err ENotFound end, path)
      end.
Proof. exact sharded_lookup_requests. Qed.
Print Assumptions C12_sharded_lookup_reports_the_load_error.

(* iteration with unavailable shards: a finite list of events in which an entry is yielded — exactly once —
   precisely when looking it up succeeds (no unavailable shard on its path), and nothing else is yielded *)
Theorem C12_sharded_iteration_under_faults : forall size lg, permitted size lg ->
  forall H : bytes -> bytes, (forall k, wf_bytes (H k) = true) -> (forall k, length (H k) = 8%nat) ->
  forall entries root sz,
  Forall (entry_ok H) entries -> NoDup (map e_name entries) ->
  build_sharded size HashMurmur3 entries = Ok (root, sz) ->
  forall fault,
    let evs := map snd (iterate fault root) in
    (forall e, In e entries -> (In (yield_of e) evs <-> fst (Read.lookup fault root (H (e_name e)) (e_name e)) = Ok (e_target e)))
    /\ (forall k v, In (IYield k v) evs -> exists e, In e entries /\ e_name e = k /\ e_target e = v)
    /\ NoDup (filter is_yield evs).
Proof. exact sharded_iterate_under_faults. Qed.
Print Assumptions C12_sharded_iteration_under_faults.

(* one error event per unavailable shard met, the entries below it skipped: the events are a permutation of what
   the builder's trie prescribes *)
Theorem C12_sharded_iteration_events : forall size lg, permitted size lg ->
  forall (H : bytes -> bytes) fault n cs pf,
  n = BShard cs -> bok size H n -> (pf = None \/ pf = Some size) ->
  Permutation (map snd (iter_blk fault (fst (serialize_node size HashMurmur3 (pad_len size) n)) pf (pad_len size))) (bevents size fault n).
Proof. exact iterate_serialized_faults. Qed.
Print Assumptions C12_sharded_iteration_events.

(* length() (and the preloading reifier built on it) reports a count only if every shard could be loaded *)
Theorem C12_sharded_length_needs_every_shard : forall size lg, permitted size lg ->
  forall H : bytes -> bytes, (forall k, wf_bytes (H k) = true) -> (forall k, length (H k) = 8%nat) ->
  forall entries root sz,
  Forall (entry_ok H) entries -> NoDup (map e_name entries) ->
  build_sharded size HashMurmur3 entries = Ok (root, sz) ->
  exists shards : list blk,
    Forall (fun x => exists sh, mk_shard_of x = Ok sh) shards /\
    forall fault,
      incl (snd (shard_length fault root)) shards
      /\ (forall m, fst (shard_length fault root) = Ok m -> Forall (fun t => fault t = None) shards)
      /\ (Forall (fun t => fault t = None) shards ->
          fst (shard_length fault root) = Ok (N.of_nat (length entries)) /\ Permutation (snd (shard_length fault root)) shards).
Proof. exact sharded_length_under_faults. Qed.
Print Assumptions C12_sharded_length_needs_every_shard.

(* reference-written shards (any history of Sets and Removes, Hamt/RefModel.v): a lookup whose hash path crosses an unavailable
   shard returns that shard's load error, never not-found; with the path available the answer is the abstract directory's *)
From UV Require Import Hamt.RefModel Hamt.RefHistory.
Theorem C12_reference_shard_lookup_under_faults : forall size lg, permitted size lg ->
  forall H : bytes -> bytes, (forall k, wf_bytes (H k) = true) -> (forall k, length (H k) = 8%nat) ->
  forall fuel ops t, Forall (hop_ok H) ops -> hrun lg fuel ops = Ok t ->
  let root := fst (serialize_node size HashMurmur3 (pad_len size) (BShard t)) in
  forall key, exists path : list blk,
    (N.of_nat (length path) + 1) * lg <= 64 /\
    forall fault,
      Read.lookup fault root (H key) key =
      match first_fault fault path with
      | Some (e, tr) => (Err e, tr)
      | None => (match find (fun e => bytes_eqb (e_name e) key) (mrun ops) with Some e => Ok (e_target e) | None => Err ENotFound end, path)
      end.
Proof. exact ref_history_lookup_requests. Qed.
Print Assumptions C12_reference_shard_lookup_under_faults.

(* ... and iterating one with missing shards yields an entry (once) exactly when looking it up succeeds, and nothing else *)
Theorem C12_reference_shard_iterate_under_faults : forall size lg, permitted size lg ->
  forall H : bytes -> bytes, (forall k, wf_bytes (H k) = true) -> (forall k, length (H k) = 8%nat) ->
  forall fuel ops t, Forall (hop_ok H) ops -> hrun lg fuel ops = Ok t ->
  let root := fst (serialize_node size HashMurmur3 (pad_len size) (BShard t)) in
  forall fault,
    let evs := map snd (iterate fault root) in
    (forall e, In e (mrun ops) -> (In (yield_of e) evs <-> fst (Read.lookup fault root (H (e_name e)) (e_name e)) = Ok (e_target e)))
    /\ (forall k v, In (IYield k v) evs -> exists e, In e (mrun ops) /\ e_name e = k /\ e_target e = v)
    /\ NoDup (filter is_yield evs).
Proof. exact ref_history_iterate_under_faults. Qed.
Print Assumptions C12_reference_shard_iterate_under_faults.

(* reference-written files in the trickle layout (File/Trickle.v): under ANY set of unavailable blocks a sequential read obtains
   exactly the content preceding the first unavailable block, then that block's load error, never end-of-file *)
From UV Require Import File.Builder File.BuilderProofs File.Trickle File.TrickleProofs.
Theorem C12_reference_trickle_read_fault : forall (W : nat) (chunks : list bytes), (1 <= W)%nat -> chunks <> [] -> (blen (concat chunks) < bound63)%N ->
  let b := fst (trickle_layout W chunks) in
  forall fault,
  let s0 := stream nofault b 0 in
  let '(pre, o) := before_fault fault s0 in
  sview (stream fault b 0) = (pre, match o with Some (_, e) => StErr e | None => StEOF end)
  /\ (exists rest, concat chunks = pre ++ rest /\ (o = None -> rest = []))
  /\ (forall blk e, o = Some (blk, e) -> fault blk = Some e).
Proof. exact trickle_read_fault. Qed.
Print Assumptions C12_reference_trickle_read_fault.
