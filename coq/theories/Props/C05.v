(* C05 — Lazy access fetches only the blocks the request needs (file part) *)
From UV Require Import File.Spec File.ReaderProofs5.
Local Open Scope Z_scope.

(* Seek(a) then reading k bytes through the lazy view requests only blocks whose byte span
   [s, e) meets [a, a+k) (ancestors included, since spans nest) *)
Theorem C05_range_loads : forall b, well_sized b = true -> pos_sized b = true ->
  forall a k, 0 <= a ->
    let '(_, loads, _, _) := take (stream nofault b a) k [] [] in
    forall c, In c loads -> exists s e, In (c, s, e) (spans b 0) /\ s < a + k /\ a < e.
Proof. exact range_loads. Qed.
Print Assumptions C05_range_loads.

(* ---- sharded directories ---- *)
From UV Require Import Hamt.Build Hamt.Read Hamt.ShardDecode Hamt.Refine Hamt.RefineTrace Hamt.RefineLength Base.Varint.
From Coq Require Import Permutation.
Local Open Scope N_scope.

(* looking a name up in a sharded directory built by this library requests a fixed list of blocks that depends
   on the key only — the child shards on the key's hash path, at most one per level of the hash — whatever the
   availability of blocks: (result, requests) of LookupByString for every key and every fault function *)
Theorem C05_sharded_lookup_requests_only_the_hash_path : forall size lg, permitted size lg ->
  forall H : bytes -> bytes, (forall k, wf_bytes (H k) = true) -> (forall k, length (H k) = 8%nat) ->
  forall entries root sz,
  Forall (entry_ok H) entries -> NoDup (map e_name entries) ->
  build_sharded size HashMurmur3 entries = Ok (root, sz) ->
  forall key, exists path : list blk,
    (N.of_nat (length path) + 1) * lg <= 64 /\
    forall fault,
      Read.lookup fault root (H key) key =
      match first_fault fault path with
      | Some (e, tr) => (Err e, tr)
      | None => (match find (fun e => bytes_eqb (e_name e) key) entries with Some e => Ok (e_target e) | None => Err ENotFound end, path)
      end.
Proof. exact sharded_lookup_requests. Qed.
Print Assumptions C05_sharded_lookup_requests_only_the_hash_path.

(* resolving a path (lazy target): on ANY block DAG and for any availability, the requests are, segment after segment, the
   requests of that directory's lookup (none for a plain directory, the hash-path shards for a sharded one) followed by the
   entry's block - nothing else - and at most 65 requests per segment *)
From UV Require Import Sel.PathLoads.
Theorem C05_path_resolution_requests : forall fault hash b segs,
  snd (walk_path fault hash b segs) = walk_spec fault hash b segs.
Proof. exact walk_path_requests. Qed.
Print Assumptions C05_path_resolution_requests.

Theorem C05_path_resolution_bounded : forall fault hash, (forall k, length (hash k) = 8%nat) ->
  forall segs b, N.of_nat (length (snd (walk_path fault hash b segs))) <= 65 * N.of_nat (length segs).
Proof. exact walk_path_bounded. Qed.
Print Assumptions C05_path_resolution_bounded.

(* ---- file nodes whose children carry no declared size (File/Unsized.v, UnsizedLoads.v) ---- *)
From UV Require Import File.Unsized File.UnsizedLoads.
(* the request-decorated stream of the extended reader delivers exactly what the undecorated one does (the tie between
   the bytes-level theorems and the request log the harness compares) *)
Theorem C05_unsized_requests_model : forall fault b off, sview (ustreamL fault b off) = sview (ustream fault b off).
Proof. exact ustreamL_view. Qed.
Print Assumptions C05_unsized_requests_model.

(* KNOWN FINDING (known_findings.json, C05-unsized-children-all-opened): on such DAGs a range read requests blocks whose
   span does not meet the range — reading byte 0 of "abc" "de" | "f" requests the leaf holding "f" *)
Theorem C05_unsized_range_refuted :
  exists b, uwell b = true /\
    let '(bs, loads, _, _) := take (ustreamL nofault b 0) 1 [] [] in
    bs = [97%N] /\ existsb (blk_eqb (UnsizedFaults.ex_leaf [102%N])) loads = true.
Proof. exact unsized_range_refuted. Qed.
Print Assumptions C05_unsized_range_refuted.

(* the same for a sharded directory the REFERENCE implementation wrote, after any history of Sets and Removes (Hamt/RefModel.v):
   a lookup requests a key-determined path of at most one shard per hash level and nothing else, whatever is available *)
From UV Require Import Hamt.RefModel Hamt.RefHistory.
Theorem C05_reference_shard_lookup_requests_only_the_hash_path : forall size lg, permitted size lg ->
  forall H : bytes -> bytes, (forall k, wf_bytes (H k) = true) -> (forall k, length (H k) = 8%nat) ->
  forall fuel ops t, Forall (hop_ok H) ops -> hrun lg fuel ops = Ok t ->
  let root := fst (serialize_node size HashMurmur3 (pad_len size) (BShard t)) in
  forall key, exists path : list blk,
    (N.of_nat (length path) + 1) * lg <= 64 /\
    forall fault,
      Read.lookup fault root (H key) key =
      match first_fault fault path with
      | Some (e, tr) => (Err e, tr)
      | None => (match find (fun e => bytes_eqb (e_name e) key) (mrun ops) with Some e => Ok (e_target e) | None => Err ENotFound end, path)
      end.
Proof. exact ref_history_lookup_requests. Qed.
Print Assumptions C05_reference_shard_lookup_requests_only_the_hash_path.

(* reference-written files in the trickle layout (File/Trickle.v; raw leaves, a chunker that emits no empty chunk): a range read
   through the lazy view requests only blocks whose byte span meets the range *)
From UV Require Import File.Builder File.BuilderProofs File.BuilderProofs3 File.Trickle File.TrickleProofs.
Theorem C05_reference_trickle_range_loads : forall (W : nat) (chunks : list bytes), (1 <= W)%nat -> chunks <> [] -> Forall nonempty chunks -> (blen (concat chunks) < bound63)%N ->
  let b := fst (trickle_layout W chunks) in
  forall a k, (0 <= a)%Z ->
    let '(_, loads, _, _) := take (stream nofault b a) k [] [] in
    forall c, In c loads -> exists s e, In (c, s, e) (spans b 0) /\ (s < a + k)%Z /\ (a < e)%Z.
Proof. exact trickle_range_loads. Qed.
Print Assumptions C05_reference_trickle_range_loads.
