(* C05 — Lazy access fetches only the blocks the request needs (file part) *)
From UV Require Import File.Spec File.ReaderProofs5.
Local Open Scope Z_scope.

(* Seek(a) then reading k bytes through the lazy view requests only blocks whose byte span
   [s, e) meets [a, a+k) (ancestors included, since spans nest) *)
Theorem C05_range_loads : forall b, well_sized b = true -> pos_sized b = true ->
  forall a k, 0 <= a ->
    let '(_, loads, _, _) := take (stream nofault b a) k [] [] in
    forall c, In c loads -> exists s e, In (c, s, e) (spans b 0) /\ s < a + k /\ a < e.
Proof. exact range_loads. Qed.
Print Assumptions C05_range_loads.
