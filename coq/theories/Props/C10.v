(* C10 — Building is deterministic, independent of entry order and read fragmentation *)
From UV Require Import File.Builder Hamt.Build Hamt.SortProofs Dir.BuildProofs.
From Coq Require Import Permutation.
Local Open Scope N_scope.

(* the link list a directory or shard block is encoded with does not depend on the order in which the
   builder assembled it (Go map iteration order, order of the entry slice) when names are distinct *)
Theorem C10_encoded_links_order_independent : forall ls ls',
  Permutation ls ls' -> NoDup (map link_key ls) -> sort_links ls = sort_links ls'.
Proof. exact sort_links_perm. Qed.
Print Assumptions C10_encoded_links_order_independent.

(* plain directories: identical block and size for every permutation of the entry slice *)
Theorem C10_plain_directory_order_independent : forall entries entries',
  Permutation entries entries' -> NoDup (map e_name entries) -> build_plain entries = build_plain entries'.
Proof. exact plain_dir_order_independent. Qed.
Print Assumptions C10_plain_directory_order_independent.

(* files: the result is a function of the chunk list alone; the size-K splitter's chunk list depends
   only on the concatenated input (fragmentation of the reader is invisible to io.ReadFull) *)
Theorem C10_file_build_is_a_function : forall W chunks chunks', chunks = chunks' -> build_file W chunks = build_file W chunks'.
Proof. intros; subst; reflexivity. Qed.
Print Assumptions C10_file_build_is_a_function.

Theorem C10_size_splitter_ignores_fragmentation : forall fuel k (frags frags' : list bytes),
  concat frags = concat frags' -> split_size fuel k (concat frags) = split_size fuel k (concat frags').
Proof. intros fuel k frags frags' H. rewrite H. reflexivity. Qed.
Print Assumptions C10_size_splitter_ignores_fragmentation.
