(* C10 — Building is deterministic, independent of entry order and read fragmentation *)
From UV Require Import File.Builder Hamt.Build Hamt.SortProofs Dir.BuildProofs Hamt.TrieProofs Hamt.ShardDecode Hamt.Refine Hamt.Canon Hamt.BuildTotal Base.Varint.
From Coq Require Import Permutation.
Local Open Scope N_scope.

(* the link list a directory or shard block is encoded with does not depend on the order in which the
   builder assembled it (Go map iteration order, order of the entry slice) when names are distinct *)
Theorem C10_encoded_links_order_independent : forall ls ls',
  Permutation ls ls' -> NoDup (map link_key ls) -> sort_links ls = sort_links ls'.
Proof. exact sort_links_perm. Qed.
Print Assumptions C10_encoded_links_order_independent.

(* plain directories: identical block and size for every permutation of the entry slice *)
Theorem C10_plain_directory_order_independent : forall entries entries',
  Permutation entries entries' -> NoDup (map e_name entries) -> build_plain entries = build_plain entries'.
Proof. exact plain_dir_order_independent. Qed.
Print Assumptions C10_plain_directory_order_independent.

(* files: the result is a function of the chunk list alone; the size-K splitter's chunk list depends
   only on the concatenated input (fragmentation of the reader is invisible to io.ReadFull) *)
Theorem C10_file_build_is_a_function : forall W chunks chunks', chunks = chunks' -> build_file W chunks = build_file W chunks'.
Proof. intros; subst; reflexivity. Qed.
Print Assumptions C10_file_build_is_a_function.

Theorem C10_size_splitter_ignores_fragmentation : forall fuel k (frags frags' : list bytes),
  concat frags = concat frags' -> split_size fuel k (concat frags) = split_size fuel k (concat frags').
Proof. intros fuel k frags frags' H. rewrite H. reflexivity. Qed.
Print Assumptions C10_size_splitter_ignores_fragmentation.

(* sharded directories: ANY two tries that satisfy the invariants shard.add maintains (buckets by hash slice,
   bucket numbers below the fanout, sub-shards only where two entries collide) and hold the same entries
   serialize to the same block and size — whatever the insertion order and whatever order the Go maps
   (modelled as association lists in arbitrary order) are iterated in *)
Theorem C10_sharded_serialization_is_canonical : forall size lg, permitted size lg ->
  forall (H : bytes -> bytes) (t1 t2 : bnode) cs1 cs2 d,
  t1 = BShard cs1 -> t2 = BShard cs2 ->
  bwf lg d t1 -> bwf lg d t2 -> bok size H t1 -> bok size H t2 -> bmin t1 -> bmin t2 ->
  NoDup (entries_of t1) -> Permutation (entries_of t1) (entries_of t2) ->
  serialize_node size HashMurmur3 (pad_len size) t1 = serialize_node size HashMurmur3 (pad_len size) t2.
Proof. exact ser_unique. Qed.
Print Assumptions C10_sharded_serialization_is_canonical.

Theorem C10_sharded_directory_order_independent : forall size lg, permitted size lg ->
  forall H : bytes -> bytes, (forall k, wf_bytes (H k) = true) -> (forall k, length (H k) = 8%nat) ->
  forall entries entries' r r',
  Forall (entry_ok H) entries -> NoDup (map e_name entries) -> Permutation entries entries' ->
  build_sharded size HashMurmur3 entries = Ok r -> build_sharded size HashMurmur3 entries' = Ok r' -> r = r'.
Proof. exact build_sharded_order_independent. Qed.
Print Assumptions C10_sharded_directory_order_independent.

(* the auto-selecting builder: the choice (an order-independent size estimate) and either form *)
Theorem C10_directory_order_independent :
  forall H : bytes -> bytes, (forall k, wf_bytes (H k) = true) -> (forall k, length (H k) = 8%nat) ->
  forall entries entries' r r',
  Forall (entry_ok H) entries -> NoDup (map e_name entries) -> Permutation entries entries' ->
  build_dir entries = Ok r -> build_dir entries' = Ok r' -> r = r'.
Proof. exact build_dir_order_independent. Qed.
Print Assumptions C10_directory_order_independent.

(* success itself is a property of the entry SET (no two entries agree on every hash slice the hash has room for),
   so a successful sharded build is reproduced - same root, same size - by every permutation of the entries *)
Theorem C10_sharded_build_reproduced : forall size lg, permitted size lg ->
  forall H : bytes -> bytes, (forall k, wf_bytes (H k) = true) -> (forall k, length (H k) = 8%nat) ->
  forall entries entries' r,
  Forall (entry_ok H) entries -> NoDup (map e_name entries) -> Permutation entries entries' ->
  build_sharded size HashMurmur3 entries = Ok r -> build_sharded size HashMurmur3 entries' = Ok r.
Proof. exact build_sharded_perm. Qed.
Print Assumptions C10_sharded_build_reproduced.

Theorem C10_order_example :
  exists r, build_sharded 8 HashMurmur3 demo_entries = Ok r /\ build_sharded 8 HashMurmur3 (rev demo_entries) = Ok r.
Proof. exact demo_order_independent. Qed.
Print Assumptions C10_order_example.
