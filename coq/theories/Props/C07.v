(* C07 — File DAGs are byte-identical to the reference balanced importer's *)
From UV Require Import File.Builder File.RefProofs.

(* for every link width >= 2 and every chunk list the builder returns exactly the block (hence the
   same encoding and CID) and the same cumulative size as the reference balanced layout *)
Theorem C07_same_tree : forall (W : nat), (2 <= W)%nat -> forall (chunks : list bytes),
  build_file W chunks = Ok (ref_layout W chunks).
Proof. exact build_is_ref. Qed.
Print Assumptions C07_same_tree.
